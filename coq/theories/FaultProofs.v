(* FaultProofs.v — proofs about FaultModel.v, parts (a) notification map and (b) handler machines + loops.
   The class table is finite (15 classes): statements about it are closed by case analysis on the known base of
   the class; [Sub] makes them hold for every class derived, by single inheritance, from a known one. *)
From Coq Require Import QArith Qminmax List Bool NArith Lia Lqa.
From CS Require Import Sx LoopModel LoopProofs LoopThms2 SchedModel FaultModel.
Import ListNotations.
Open Scope Q_scope.

(* ------------------------------------------------------------------ classes *)
Lemma keqb_eq a b : keqb a b = true <-> a = b.
Proof. split; [|intros ->; destruct b; reflexivity]. destruct a, b; vm_compute; congruence. Qed.

Lemma isinst_sub c k : isinst (Sub c) k = isinst c k.
Proof. reflexivity. Qed.
Lemma isinst_base c k : isinst c k = isinst (K (kbase c)) k.
Proof. reflexivity. Qed.
Lemma isinst_refl k : isinst (K k) k = true.
Proof. destruct k; reflexivity. Qed.
(* every class is an Exception; every class except Exception itself is a CloudException *)
Lemma isinst_exception c : isinst c KException = true.
Proof. rewrite isinst_base. destruct (kbase c); reflexivity. Qed.
Lemma isinst_in_mro c k : isinst c k = true <-> In k (kmro (kbase c)).
Proof.
  unfold isinst. rewrite existsb_exists. split.
  - intros [x [Hin He]]. apply keqb_eq in He. subst. exact Hin.
  - intros Hin. exists k. split; [exact Hin|]. apply keqb_eq. reflexivity.
Qed.
(* isinstance is transitive along the class order *)
Lemma isinst_trans c a b : isinst c a = true -> isinst (K a) b = true -> isinst c b = true.
Proof.
  rewrite (isinst_base c a), (isinst_base c b).
  destruct (kbase c); destruct a; try (intros H; discriminate H); destruct b; vm_compute; congruence.
Qed.
Lemma subs_base n c : kbase (subs n c) = kbase c.
Proof. induction n; simpl; auto. Qed.

(* ------------------------------------------------------------------ (a) notify_from_exception *)
Lemma notify_base c : notify c = notify (K (kbase c)).
Proof. reflexivity. Qed.

(* the complete table: the notification kind as a function of the known base class *)
Theorem notify_table c :
  notify c = match kbase c with
             | KDisconnected => Some NDisconnected
             | KOutOfSpace => Some NOutOfSpace
             | KFileName => Some NFileName
             | KNamespace => Some NNamespace
             | KRootMissing => Some NRootMissing
             | KTemporary | KResourceModified => Some NTemporary
             | _ => None
             end.
Proof. rewrite notify_base. destruct (kbase c); reflexivity. Qed.

Theorem notify_kind_matches c :
  (isinst c KDisconnected = true -> notify c = Some NDisconnected) /\
  (isinst c KOutOfSpace = true -> notify c = Some NOutOfSpace) /\
  (isinst c KFileName = true -> notify c = Some NFileName) /\
  (isinst c KNamespace = true -> notify c = Some NNamespace) /\
  (isinst c KRootMissing = true -> notify c = Some NRootMissing) /\
  (isinst c KTemporary = true -> isinst c KOutOfSpace = false -> notify c = Some NTemporary).
Proof.
  rewrite notify_base, !(isinst_base c). destruct (kbase c); vm_compute; repeat split; congruence.
Qed.

(* out-of-space IS a temporary error (class order) and is nevertheless reported as out-of-space *)
Theorem out_of_space_not_shadowed c :
  isinst c KOutOfSpace = true -> isinst c KTemporary = true /\ notify c = Some NOutOfSpace.
Proof. rewrite notify_base, !(isinst_base c). destruct (kbase c); vm_compute; split; congruence. Qed.

(* ... because of the ORDER of the chain: with the temporary test first it would be shadowed *)
Definition chain_temporary_first : list (known * nkind) := (KTemporary, NTemporary) :: chain.
Lemma temporary_first_shadows : notify_chain chain_temporary_first (K KOutOfSpace) = Some NTemporary.
Proof. reflexivity. Qed.

(* no branch of the chain is dead, none is reached by a class of another branch's kind *)
Theorem chain_no_dead_branch : forall p, In p chain -> notify (K (fst p)) = Some (snd p).
Proof. intros p Hin. repeat (destruct Hin as [<-|Hin]; [reflexivity|]). destruct Hin. Qed.

Theorem notify_none_iff c :
  notify c = None <->
  isinst c KDisconnected = false /\ isinst c KFileName = false /\ isinst c KNamespace = false /\
  isinst c KRootMissing = false /\ isinst c KTemporary = false.
Proof. rewrite notify_base, !(isinst_base c). destruct (kbase c); vm_compute; intuition congruence. Qed.

(* a notification is only ever produced for a CloudException *)
Lemma notify_some_cloud c n : notify c = Some n -> isinst c KCloud = true.
Proof. rewrite notify_base, (isinst_base c). destruct (kbase c); vm_compute; congruence. Qed.

(* ------------------------------------------------------------------ (b) SyncManager *)
Definition transient : list known := [KTemporary; KDisconnected; KOutOfSpace; KToken; KNamespace].

(* every exception class is caught by one of the two clauses of _sync_one_entry *)
Theorem smgr_dispatch_total c :
  dispatch smgr_handlers c = Some (if isany c transient then [ANotify; APunt; ABackoff]
                                   else [ANotifyIfCloud; APunt; ACommit; ABackoff]).
Proof.
  assert (E : isany c [KException] = true) by (unfold isany; cbn [existsb]; rewrite isinst_exception; reflexivity).
  unfold dispatch, smgr_handlers, transient. cbn [find h_classes].
  destruct (isany c [KTemporary; KDisconnected; KOutOfSpace; KToken; KNamespace]); [reflexivity|].
  rewrite E. reflexivity.
Qed.

(* what a step whose pre_sync/sync raised does: notified per the chain, punted, committed unless transient,
   and do() ends with a backoff request, for EVERY exception class *)
Theorem smgr_raise_effect c :
  let s := smgr_step (SRaise c) in
  s_out s = OBackoff /\ f_punt (s_eff s) = true /\ f_note (s_eff s) = notify c /\
  f_commit (s_eff s) = negb (isany c transient) /\ f_auth (s_eff s) = false /\ f_cursor (s_eff s) = false.
Proof.
  unfold smgr_step. rewrite smgr_dispatch_total.
  destruct (isany c transient) eqn:T.
  - cbn. repeat split; reflexivity.
  - cbn. destruct (isinst c KCloud) eqn:C; repeat split; try reflexivity.
    destruct (notify c) eqn:N; [|reflexivity]. apply notify_some_cloud in N. congruence.
Qed.

Theorem smgr_roots_effect c :
  let s := smgr_step (SRoots c) in
  s_out s = OBackoff /\ f_punt (s_eff s) = false /\ f_note (s_eff s) = notify c /\ f_commit (s_eff s) = false.
Proof.
  assert (E : isany c [KException] = true) by (unfold isany; cbn [existsb]; rewrite isinst_exception; reflexivity).
  unfold smgr_step, dispatch, roots_handlers. cbn [find h_classes]. rewrite E. cbn. destruct (isinst c KCloud) eqn:C; repeat split; try reflexivity.
  destruct (notify c) eqn:N; [|reflexivity]. apply notify_some_cloud in N. congruence.
Qed.

(* each reportable condition that reaches the handler is reported with the matching kind *)
Theorem smgr_reports_matching_kind c :
  let e := s_eff (smgr_step (SRaise c)) in
  (isinst c KDisconnected = true -> f_note e = Some NDisconnected) /\
  (isinst c KOutOfSpace = true -> f_note e = Some NOutOfSpace) /\
  (isinst c KFileName = true -> f_note e = Some NFileName) /\
  (isinst c KNamespace = true -> f_note e = Some NNamespace) /\
  (isinst c KRootMissing = true -> f_note e = Some NRootMissing) /\
  (isinst c KTemporary = true -> isinst c KOutOfSpace = false -> f_note e = Some NTemporary).
Proof. cbv zeta. destruct (smgr_raise_effect c) as (_ & _ & -> & _). apply notify_kind_matches. Qed.

(* state.change() raised: a CloudException is reported and answered with a backoff request; anything else leaves do() *)
Theorem smgr_change_effect c :
  let s := smgr_step (SChange c) in
  s_out s = (if isinst c KCloud then OBackoff else OExc) /\ f_punt (s_eff s) = false /\ f_commit (s_eff s) = false /\
  f_note (s_eff s) = notify c.
Proof.
  unfold smgr_step, dispatch, change_handlers, isany. cbn [find h_classes existsb]. rewrite orb_false_r.
  destruct (isinst c KCloud) eqn:C; cbn; repeat split; try reflexivity.
  destruct (notify c) eqn:N; [|reflexivity]. apply notify_some_cloud in N. congruence.
Qed.

(* the classification of do() as the loop sees it: a plain Exception leaves do() only when state.change() raised
   something that is not a CloudException *)
Theorem smgr_outcome_classes r :
  match r with
  | SIdle | SDone false => s_out (smgr_step r) = ONoop
  | SDone true => s_out (smgr_step r) = ODid
  | SRaise _ | SRoots _ => s_out (smgr_step r) = OBackoff
  | SChange c => s_out (smgr_step r) = if isinst c KCloud then OBackoff else OExc
  end.
Proof.
  destruct r as [|[|]|c|c|c]; try reflexivity.
  - apply (smgr_raise_effect c).
  - apply (smgr_roots_effect c).
  - apply (smgr_change_effect c).
Qed.

Lemma smgr_never_base r : s_out (smgr_step r) <> OBaseExc.
Proof.
  pose proof (smgr_outcome_classes r) as H. destruct r as [|[|]|c|c|c]; rewrite H; try discriminate.
  destruct (isinst c KCloud); discriminate.
Qed.

(* full strength: every temporary / disconnected / invalid-name condition raised during a step is reported *)
Definition raised (r : sres) (c : cls) : Prop := r = SRaise c \/ r = SRoots c \/ r = SChange c.
Theorem smgr_every_fault_notified r c :
  raised r c ->
  isinst c KTemporary = true \/ isinst c KDisconnected = true \/ isinst c KFileName = true ->
  f_note (s_eff (smgr_step r)) = notify c /\ notify c <> None.
Proof.
  intros Hr Hc.
  assert (N : notify c <> None).
  { rewrite notify_none_iff. intros (A & B & _ & _ & E). destruct Hc as [Hc|[Hc|Hc]]; congruence. }
  split; [|exact N]. destruct Hr as [-> | [-> | ->]].
  - apply (smgr_raise_effect c).
  - apply (smgr_roots_effect c).
  - apply (smgr_change_effect c).
Qed.

(* ------------------------------------------------------------------ (b) EventManager *)
(* the exception that reaches the except clauses of do(), if any *)
Definition emgr_exc (auth : bool) (i : einput) : rres :=
  match fst (fst (fst (reconnect_phase auth i))) with ROk => i_body i | RRaise c => RRaise c end.

Lemma emgr_step_unfold auth i :
  emgr_step auth i =
  let '(r, auth1, rc, ra) := reconnect_phase auth i in
  match emgr_exc auth i with
  | ROk => {| x_eff := eff0; x_out := ODid; x_auth := auth1; x_reconnect := rc; x_reauth := ra |}
  | RRaise c =>
    match dispatch emgr_handlers c with
    | Some l => let e := acts c l eff0 in
                {| x_eff := e; x_out := if f_raised e then OBackoff else ODid;
                   x_auth := f_auth e || auth1; x_reconnect := rc; x_reauth := ra |}
    | None => {| x_eff := eff0; x_out := OExc; x_auth := auth1; x_reconnect := rc; x_reauth := ra |}
    end
  end.
Proof. unfold emgr_step, emgr_exc. destruct (reconnect_phase auth i) as [[[r a] b] c]. reflexivity. Qed.

Definition emgr_reported : list known := [KTemporary; KDisconnected; KNamespace].

(* which clause of EventManager.do takes a class, as a function of its known base *)
Theorem emgr_dispatch_table c :
  dispatch emgr_handlers c =
  match kbase c with
  | KTemporary | KOutOfSpace | KResourceModified | KDisconnected | KNamespace => Some [ANotify; ABackoff]
  | KCursor => Some [ACursorReset; ABackoff]
  | KToken => Some [ANeedAuth; ABackoff]
  | _ => None
  end.
Proof.
  unfold dispatch, emgr_handlers, isany. simpl find. rewrite !(isinst_base c).
  destruct (kbase c); reflexivity.
Qed.

Theorem emgr_reportable_notified auth i c :
  emgr_exc auth i = RRaise c -> isany c emgr_reported = true ->
  let x := emgr_step auth i in
  x_out x = OBackoff /\ f_note (x_eff x) = notify c /\ notify c <> None /\ f_auth (x_eff x) = false.
Proof.
  intros He Hc. cbv zeta. rewrite emgr_step_unfold. destruct (reconnect_phase auth i) as [[[r a1] rc] ra].
  rewrite He. rewrite emgr_dispatch_table.
  assert (N : notify c <> None).
  { rewrite notify_none_iff. unfold isany, emgr_reported in Hc. simpl in Hc. rewrite !orb_true_iff in Hc.
    intros (A & _ & B & _ & E). destruct Hc as [Hc|[Hc|[Hc|Hc]]]; congruence. }
  unfold isany, emgr_reported in Hc. cbn [existsb] in Hc. rewrite !(isinst_base c) in Hc.
  destruct (kbase c) eqn:B; vm_compute in Hc; try discriminate Hc; cbn; repeat split; auto.
Qed.

Theorem emgr_token_sets_need_auth auth i c :
  emgr_exc auth i = RRaise c -> isinst c KToken = true ->
  let x := emgr_step auth i in
  x_out x = OBackoff /\ x_auth x = true /\ f_note (x_eff x) = None.
Proof.
  intros He Hc. cbv zeta. rewrite emgr_step_unfold. destruct (reconnect_phase auth i) as [[[r a1] rc] ra].
  rewrite He, emgr_dispatch_table. revert Hc. rewrite (isinst_base c).
  destruct (kbase c); vm_compute; intros Hc; try discriminate Hc; repeat split; reflexivity.
Qed.

Theorem emgr_cursor_resets auth i c :
  emgr_exc auth i = RRaise c -> isinst c KCursor = true ->
  let x := emgr_step auth i in
  x_out x = OBackoff /\ f_cursor (x_eff x) = true /\ f_note (x_eff x) = None.
Proof.
  intros He Hc. cbv zeta. rewrite emgr_step_unfold. destruct (reconnect_phase auth i) as [[[r a1] rc] ra].
  rewrite He, emgr_dispatch_table. revert Hc. rewrite (isinst_base c).
  destruct (kbase c); vm_compute; intros Hc; try discriminate Hc; repeat split; reflexivity.
Qed.

(* everything else leaves do() as a plain Exception: no notification; the loop's own handler takes it *)
Theorem emgr_escapes auth i c :
  emgr_exc auth i = RRaise c -> dispatch emgr_handlers c = None ->
  let x := emgr_step auth i in x_out x = OExc /\ f_note (x_eff x) = None.
Proof.
  intros He Hd. cbv zeta. rewrite emgr_step_unfold. destruct (reconnect_phase auth i) as [[[r a1] rc] ra].
  rewrite He, Hd. split; reflexivity.
Qed.

Theorem emgr_outcome_classes auth i :
  match emgr_exc auth i with
  | ROk => x_out (emgr_step auth i) = ODid
  | RRaise c => x_out (emgr_step auth i) = match dispatch emgr_handlers c with Some _ => OBackoff | None => OExc end
  end.
Proof.
  rewrite emgr_step_unfold. destruct (reconnect_phase auth i) as [[[r a1] rc] ra].
  destruct (emgr_exc auth i) as [|c]; [reflexivity|].
  rewrite emgr_dispatch_table. destruct (kbase c); reflexivity.
Qed.
Lemma emgr_never_base auth i : x_out (emgr_step auth i) <> OBaseExc /\ x_out (emgr_step auth i) <> ONoop.
Proof.
  pose proof (emgr_outcome_classes auth i) as H. destruct (emgr_exc auth i) as [|c].
  - rewrite H. split; discriminate.
  - rewrite H. destruct (dispatch emgr_handlers c); split; discriminate.
Qed.

(* full strength "all six reportable kinds are reported by the event loop": false — the except clause names
   CloudTemporaryError, CloudDisconnectedError, CloudNamespaceError only; CloudRootMissingError (which the comment in
   the source calls a temporary error, but exceptions.py derives from CloudException) and CloudFileNameError escape *)
Definition emgr_all_kinds_notified_full : Prop :=
  forall auth i c, emgr_exc auth i = RRaise c -> notify c <> None ->
    f_note (x_eff (emgr_step auth i)) = notify c.
Definition body_raises (c : cls) : einput :=
  {| i_conn := true; i_reconnect := ROk; i_reauth := None; i_body := RRaise c |}.
Lemma emgr_all_kinds_notified_refuted : ~ emgr_all_kinds_notified_full.
Proof.
  intros H. specialize (H false (body_raises (K KRootMissing)) (K KRootMissing) eq_refl).
  vm_compute in H. assert (X : Some NRootMissing <> None) by discriminate. specialize (H X). discriminate.
Qed.

(* re-authentication: with need_auth set and the provider disconnected the next call reconnects, and when the
   provider refuses the stored credentials (CloudTokenError) it calls the re-authentication callback *)
Theorem emgr_reauthenticates i c :
  i_conn i = false -> i_reconnect i = RRaise c -> isinst c KToken = true ->
  let x := emgr_step true i in
  x_reconnect x = true /\ x_reauth x = true /\
  (i_reauth i = Some ROk -> x_auth x = (match i_body i with
                                        | RRaise c2 => isinst c2 KToken
                                        | ROk => false end)) /\
  (i_reauth i = None -> x_out x = OBackoff /\ x_auth x = true).
Proof.
  intros Hc Hr Ht. cbv zeta. unfold emgr_step, reconnect_phase. rewrite Hc, Hr, Ht.
  destruct (i_reauth i) as [[|c2]|] eqn:Ra.
  - split; [|split; [|split]]; try (destruct (i_body i) as [|c3]; [reflexivity|];
      destruct (dispatch emgr_handlers c3); reflexivity); [|discriminate].
    intros _. destruct (i_body i) as [|c3]; [reflexivity|]. rewrite emgr_dispatch_table, (isinst_base c3).
    destruct (kbase c3); reflexivity.
  - split; [|split; [|split]]; try (destruct (dispatch emgr_handlers c2); reflexivity); discriminate.
  - split; [reflexivity|]. split; [reflexivity|]. split; [discriminate|]. intros _. split; reflexivity.
Qed.

(* without need_auth a disconnected provider is simply reconnected; a connected one is left alone *)
Theorem emgr_reconnects auth i :
  (i_conn i = true -> x_reconnect (emgr_step auth i) = false /\ x_reauth (emgr_step auth i) = false) /\
  (i_conn i = false -> x_reconnect (emgr_step auth i) = true).
Proof.
  split; intros Hc; rewrite emgr_step_unfold; unfold reconnect_phase; rewrite Hc.
  - destruct (emgr_exc auth i) as [|c]; [split; reflexivity|]. destruct (dispatch emgr_handlers c); split; reflexivity.
  - destruct auth; destruct (i_reconnect i) as [|c]; try destruct (isinst c KToken); try destruct (i_reauth i) as [[|c2]|];
      (destruct (emgr_exc _ i) as [|c3]; [reflexivity|]; destruct (dispatch emgr_handlers c3); reflexivity).
Qed.

(* ------------------------------------------------------------------ the loops *)
Lemma smgr_outs_length rs : length (smgr_outs rs) = length rs.
Proof. apply map_length. Qed.
Lemma emgr_outs_length is : forall auth, length (emgr_outs auth is) = length is.
Proof. induction is as [|i r IH]; intros auth; simpl; [reflexivity|]. rewrite IH. reflexivity. Qed.

(* whatever the steps do — any finite sequence of results, any exception classes — the loop calls do() once per
   step and its final backoff is the fold of LoopModel.after_do: no fault ends the loop *)
Theorem smgr_loop_survives p b rs :
  count_do (fst (seq_loop p b (plain (smgr_outs rs)))) = length rs /\
  snd (seq_loop p b (plain (smgr_outs rs))) = backoff_after p b (smgr_outs rs).
Proof. rewrite loop_survives_seq, seq_final_backoff, smgr_outs_length. split; reflexivity. Qed.

Theorem emgr_loop_survives p b auth is :
  count_do (fst (seq_loop p b (plain (emgr_outs auth is)))) = length is /\
  snd (seq_loop p b (plain (emgr_outs auth is))) = backoff_after p b (emgr_outs auth is).
Proof. rewrite loop_survives_seq, seq_final_backoff, emgr_outs_length. split; reflexivity. Qed.

(* in the two-thread machine of C18: after any manager step the loop thread goes on to its flag tests *)
Theorem manager_step_continues p s u :
  lp s = LDoRet ->
  (forall r, lp (lstep p s (s_out (smgr_step r)) u) = LC1) /\
  (forall auth i, lp (lstep p s (x_out (emgr_step auth i)) u) = LC1).
Proof. intros H. split; intros; apply do_outcome_continues; exact H. Qed.

(* backoff: every faulty step counts as a failure for the loop ... *)
Lemma smgr_fault_is_failure r c : raised r c -> is_failure (s_out (smgr_step r)) = true.
Proof.
  intros [-> | [-> | ->]].
  - destruct (smgr_raise_effect c) as [-> _]. reflexivity.
  - destruct (smgr_roots_effect c) as [-> _]. reflexivity.
  - destruct (smgr_change_effect c) as [-> _]. destruct (isinst c KCloud); reflexivity.
Qed.
Lemma emgr_fault_is_failure auth i c : emgr_exc auth i = RRaise c -> is_failure (x_out (emgr_step auth i)) = true.
Proof.
  intros He. pose proof (emgr_outcome_classes auth i) as H. rewrite He in H. rewrite H.
  destruct (dispatch emgr_handlers c); reflexivity.
Qed.

Definition all_faulty (rs : list sres) : Prop := forall r, In r rs -> exists c, raised r c.
Lemma all_faulty_failures rs : all_faulty rs -> forallb is_failure (smgr_outs rs) = true.
Proof.
  intros H. unfold smgr_outs. rewrite forallb_forall. intros o Hin. apply in_map_iff in Hin as [r [<- Hr]].
  destruct (H r Hr) as [c Hc]. eapply smgr_fault_is_failure. exact Hc.
Qed.

(* ... so k consecutive faulty steps from "not in backoff" wait min(max, min * mult^(k-1)) (C18's formula) *)
Theorem smgr_backoff_under_faults p rs :
  1 <= p_mult p -> 0 < p_min p -> p_min p <= p_max p -> rs <> [] -> all_faulty rs ->
  backoff_after p 0 (smgr_outs rs) == Qmin (p_max p) (p_min p * qpow (p_mult p) (length rs - 1)).
Proof.
  intros Hm H0 Hle Hne Hf. rewrite <- (smgr_outs_length rs). apply backoff_formula; auto.
  - destruct rs; [congruence|discriminate].
  - apply all_faulty_failures. exact Hf.
Qed.

(* ... and the first step that gets something done once the faults have stopped resets it *)
Theorem backoff_resets_after_faults p b :
  0 <= b ->
  after_do p b (s_out (smgr_step (SDone true))) == 0 /\
  sleep_of p (after_do p b (s_out (smgr_step (SDone true)))) = p_sleep p /\
  (forall auth i, emgr_exc auth i = ROk ->
     after_do p b (x_out (emgr_step auth i)) == 0 /\ sleep_of p (after_do p b (x_out (emgr_step auth i))) = p_sleep p).
Proof.
  intros Hb. split; [apply backoff_reset_value; exact Hb|]. split; [apply backoff_reset|].
  intros auth i He. pose proof (emgr_outcome_classes auth i) as H. rewrite He in H. rewrite H.
  split; [apply backoff_reset_value; exact Hb|apply backoff_reset].
Qed.

(* full strength "the backoff resets as soon as the faults stop": false for the sync loop — a step with nothing to do
   (or that only punted) calls nothing_happened() and keeps the backoff *)
Definition smgr_backoff_resets_when_idle_full : Prop :=
  forall p b, 0 < b -> after_do p b (s_out (smgr_step SIdle)) == 0.
Lemma smgr_backoff_resets_when_idle_refuted : ~ smgr_backoff_resets_when_idle_full.
Proof.
  intros H. specialize (H {| p_min := 1 # 100; p_max := 1; p_mult := 2; p_sleep := 1 # 1000 |} 1 ltac:(lra)).
  vm_compute in H. discriminate.
Qed.
Lemma smgr_idle_keeps_backoff p b :
  after_do p b (s_out (smgr_step SIdle)) = b /\ after_do p b (s_out (smgr_step (SDone false))) = b.
Proof. split; reflexivity. Qed.
