(* PathModel.v — executable model of the path helpers of cloudsync/provider.py
   (normalize_path_separators, join, split, normalize_path, is_subpath, replace_path,
   paths_match, dirname, basename) and of CloudSync.translate (cloudsync/cs.py).
   The helpers are total after the repository's `fix:` commit fe9372f (slices instead of
   indexing); replace_path's ValueError is an explicit result. *)
From Coq Require Import NArith List Bool.
From CS Require Import Sx Str.
Import ListNotations.

Record conv := {
  cv_sep : N;                 (* Provider.sep *)
  cv_alt : option N;          (* Provider.alt_sep ('' / None = absent) *)
  cv_cs : bool;               (* Provider.case_sensitive *)
  cv_win : bool;              (* Provider.win_paths *)
  cv_fold : N -> N            (* per-character str.lower() *)
}.

Definition lower (cv : conv) (s : str) : str := map (cv_fold cv) s.

(* Provider.normalize_path_separators *)
Definition nps (cv : conv) (p : str) : str :=
  match p with
  | [] => []
  | _ =>
    let p1 := match cv_alt cv with Some a => replace_char a (cv_sep cv) p | None => p end in
    if str_eqb p1 [cv_sep cv] then p1 else rstrip (cv_sep cv) p1
  end.

(* Provider.__normalize_path_list (flat argument list) *)
Definition norm_list (cv : conv) (paths : list str) : list str :=
  filter nonempty (map (nps cv) paths).

(* Provider.__strip_path_list *)
Definition strip_list (cv : conv) (l : list str) : list str :=
  match l with
  | [] => []
  | p :: r =>
    filter nonempty [rstrip (cv_sep cv) p] ++ filter nonempty (map (strip (cv_sep cv)) r)
  end.

(* Provider.join *)
Definition add_sep (cv : conv) (j : str) : str :=
  match j with
  | x :: _ => if N.eqb x (cv_sep cv) then j else cv_sep cv :: j
  | [] => j
  end.

Definition join (cv : conv) (paths : list str) : str :=
  match strip_list cv (norm_list cv paths) with
  | [] => [cv_sep cv]
  | l =>
    let j := intercalate (cv_sep cv) l in
    if cv_win cv then
      match j with
      | _ :: y :: _ => if N.eqb y 58 (* joined_path[1:2] == ':' *) then j else add_sep cv j
      | _ => add_sep cv j
      end
    else add_sep cv j
  end.

(* Provider.split *)
Definition split (cv : conv) (p : str) : str * str :=
  let p := nps cv p in
  match rfind (cv_sep cv) p with
  | None => ([], p)
  | Some 0 => ([cv_sep cv], skipn 1 p)
  | Some i => (firstn i p, skipn (S i) p)
  end.
Definition dirname (cv : conv) (p : str) : str := fst (split cv p).
Definition basename (cv : conv) (p : str) : str := snd (split cv p).

(* Provider.normalize_path *)
Definition normalize_path (cv : conv) (p : str) (for_display : bool) : str :=
  let n := join cv (split_runs (cv_sep cv) (nps cv p)) in
  if cv_cs cv then n
  else if for_display then join cv [lower cv (dirname cv n); basename cv n]
  else lower cv n.

(* Provider.is_subpath: False | relative string (sep when equal) *)
Inductive sub := NotSub | Rel (r : str).

Definition is_subpath (cv : conv) (folder target : str) (strict : bool) : sub :=
  match folder, target with
  | [], _ | _, [] => NotSub
  | _, _ =>
    let ff := nps cv folder in
    let tf := nps cv target in
    let fc := if cv_cs cv then ff else lower cv ff in
    let tc := if cv_cs cv then tf else lower cv tf in
    if str_eqb fc tc then (if strict then NotSub else Rel [cv_sep cv])
    else if (str_eqb fc [cv_sep cv] && str_eqb (firstn 1 tc) [cv_sep cv])%bool then Rel tf
    else if Nat.ltb (length ff) (length tf) then
      match nth_error tf (length ff) with
      | Some y => if N.eqb y (cv_sep cv)
                  then (if startswith tc fc then Rel (skipn (length ff) tf) else NotSub)
                  else NotSub
      | None => NotSub
      end
    else NotSub
  end.

(* Provider.replace_path: None = ValueError *)
Inductive rep := RepOk (p : str) | RepValueError.

Definition replace_path (cv : conv) (path from_dir to_dir : str) : rep :=
  match is_subpath cv from_dir path false with
  | NotSub => RepValueError
  | Rel [] => RepValueError
  | Rel r => RepOk (nps cv to_dir ++ (if str_eqb r [cv_sep cv] then [] else r))
  end.

(* Provider.paths_match (string arguments) *)
Definition paths_match (cv : conv) (a b : str) (for_display : bool) : bool :=
  str_eqb (normalize_path cv a for_display) (normalize_path cv b for_display).

(* CloudSync.translate(side, path): cvs/roots indexed by side; path is valid on side 1-side *)
Definition translate (cv0 cv1 : conv) (root0 root1 : str) (side : bool) (path : str) : option str :=
  let cv_to := if side then cv1 else cv0 in
  let cv_from := if side then cv0 else cv1 in
  let root_to := if side then root1 else root0 in
  let root_from := if side then root0 else root1 in
  match is_subpath cv_from root_from path false with
  | NotSub => None
  | Rel [] => None
  | Rel r => Some (join cv_to [root_to; r])
  end.

(* ------------------------------------------------------------------ wire protocol *)
Definition un_conv (x : sx) : option conv :=
  match x with
  | L [A s; alt; cs; win] =>
    match un_opt un_atom alt, un_bool cs, un_bool win with
    | Some a, Some c, Some w => Some {| cv_sep := s; cv_alt := a; cv_cs := c; cv_win := w; cv_fold := fold_std |}
    | _, _, _ => None
    end
  | _ => None
  end.

Definition sx_res {T} (f : T -> sx) (r : T) : sx := L [A 0; f r].

Definition run (x : sx) : sx :=
  match x with
  | L [A 0; c; s] =>
    match un_conv c, un_str s with
    | Some cv, Some s => sx_str (nps cv s) | _, _ => sx_malformed end
  | L [A 1; c; ps] =>
    match un_conv c, un_list un_str ps with
    | Some cv, Some ps => sx_res sx_str (join cv ps) | _, _ => sx_malformed end
  | L [A 2; c; s] =>
    match un_conv c, un_str s with
    | Some cv, Some s => let '(d, b) := split cv s in L [sx_str d; sx_str b] | _, _ => sx_malformed end
  | L [A 3; c; s; d] =>
    match un_conv c, un_str s, un_bool d with
    | Some cv, Some s, Some d => sx_res sx_str (normalize_path cv s d) | _, _, _ => sx_malformed end
  | L [A 4; c; f; t; st] =>
    match un_conv c, un_str f, un_str t, un_bool st with
    | Some cv, Some f, Some t, Some st =>
      match is_subpath cv f t st with
      | NotSub => L [A 0] | Rel r => L [A 1; sx_str r] end
    | _, _, _, _ => sx_malformed end
  | L [A 5; c; p; f; t] =>
    match un_conv c, un_str p, un_str f, un_str t with
    | Some cv, Some p, Some f, Some t =>
      match replace_path cv p f t with
      | RepOk q => L [A 0; sx_str q] | RepValueError => L [A 1] end
    | _, _, _, _ => sx_malformed end
  | L [A 6; c; a; b; d] =>
    match un_conv c, un_str a, un_str b, un_bool d with
    | Some cv, Some a, Some b, Some d => sx_res sx_bool (paths_match cv a b d)
    | _, _, _, _ => sx_malformed end
  | L [A 7; c0; c1; r0; r1; sd; p] =>
    match un_conv c0, un_conv c1, un_str r0, un_str r1, un_bool sd, un_str p with
    | Some cv0, Some cv1, Some r0, Some r1, Some sd, Some p =>
      sx_res (sx_opt sx_str) (translate cv0 cv1 r0 r1 sd p)
    | _, _, _, _, _, _ => sx_malformed end
  | _ => sx_malformed
  end.
