(* ProvRename.v — a guarded rename keeps the tree invariant W_inv (ProvWf.v), and moves the subtree.
   relocate_W: the general statement about "move the cells M and then the cell r" (ProvMove.v);
   W_rename: the control flow of ProvModel.rename on top of it. *)
From Coq Require Import NArith List Bool Lia Arith.
From CS Require Import Sx Str PathLaws ProvModel ProvProofs ProvWf ProvMove.
Import ListNotations.

(* ------------------------------------------------------------------ lists *)
Lemma nodup_snoc {T} (l : list T) (x : T) : NoDup l -> ~ In x l -> NoDup (l ++ [x]).
Proof.
  induction l as [|y t IH]; simpl; intros Hn Hx.
  - constructor; [intros []|constructor].
  - inversion Hn as [|? ? Hy Ht]; subst. constructor.
    + intros Hin. apply in_app_or in Hin as [Hin|[Hin|[]]]; [contradiction|]. apply Hx. left. symmetry. exact Hin.
    + apply IH; [exact Ht|]. intros Hin. apply Hx. right. exact Hin.
Qed.

Lemma removelast_skipn {T} n (p : list T) : n < length p -> removelast (skipn n p) = skipn n (removelast p).
Proof.
  intros H. rewrite !removelast_firstn_pred. rewrite skipn_length.
  rewrite firstn_skipn_comm. f_equal. f_equal. lia.
Qed.

Lemma firstn_removelast {T} n (p : list T) : n <= length p - 1 -> firstn n (removelast p) = firstn n p.
Proof.
  intros H. rewrite removelast_firstn_pred, firstn_firstn. f_equal. lia.
Qed.

Lemma np_new_path c old dest x :
  np c (new_path old dest x) = np c dest ++ np c (skipn (length old) (o_path x)).
Proof. unfold new_path. apply np_app. Qed.

Lemma np_at_under c old x : at_under c old (o_path x) ->
  np c (o_path x) = np c old ++ np c (skipn (length old) (o_path x)).
Proof. apply at_under_split. Qed.

(* the parent of something strictly below old is at or below old *)
Lemma parent_at_under c old P Q : is_under c old P = true -> np c Q = np c (removelast P) -> at_under c old Q.
Proof.
  intros HU HQ. apply is_under_spec in HU as [H1 H2].
  assert (HL : length Q = length P - 1).
  { rewrite <- (np_length c Q), HQ, np_length. apply length_removelast. }
  split; [lia|].
  rewrite np_firstn, HQ, <- np_firstn, firstn_removelast by lia. exact H2.
Qed.

(* a child of something at or below old is strictly below old *)
Lemma child_is_under c old P Q : at_under c old Q -> P <> [] -> np c (removelast P) = np c Q ->
  is_under c old P = true.
Proof.
  intros [H1 H2] HP HQ. apply is_under_spec.
  assert (HL : length Q = length P - 1).
  { rewrite <- (np_length c Q), <- HQ, np_length. apply length_removelast. }
  assert (length P > 0) by (destruct P; [congruence|simpl; lia]).
  split; [lia|].
  rewrite <- (firstn_removelast (length old) P) by lia.
  rewrite np_firstn, HQ, <- np_firstn. exact H2.
Qed.

(* ------------------------------------------------------------------ moving M and then r *)
Lemma relocate_W s1 r o1 dest M s3 :
  S_inv s1 -> W_inv s1 ->
  nth_error (p_heap s1) r = Some o1 ->
  dget (KPath (np (p_cfg s1) (o_path o1))) (p_dict s1) = Some r ->
  o_path o1 <> [] -> dest <> [] ->
  NoDup M -> ~ In r M ->
  (forall q, In q M -> exists x, nth_error (p_heap s1) q = Some x /\
                                 is_under (p_cfg s1) (o_path o1) (o_path x) = true /\
                                 dget (KPath (np (p_cfg s1) (o_path x))) (p_dict s1) = Some q) ->
  (forall q y, nth_error (p_heap s1) q = Some y -> o_exists y = true ->
               is_under (p_cfg s1) (o_path o1) (o_path y) = true -> In q M) ->
  (forall q1 q2 x1 x2, In q1 (M ++ [r]) -> In q2 (M ++ [r]) -> q1 <> q2 ->
     nth_error (p_heap s1) q1 = Some x1 -> nth_error (p_heap s1) q2 = Some x2 ->
     np (p_cfg s1) (new_path (o_path o1) dest x1) <> np (p_cfg s1) (o_path x2)) ->
  (forall q y, nth_error (p_heap s1) q = Some y -> o_exists y = true -> ~ In q (M ++ [r]) ->
     forall q' x', In q' (M ++ [r]) -> nth_error (p_heap s1) q' = Some x' ->
                   np (p_cfg s1) (new_path (o_path o1) dest x') <> np (p_cfg s1) (o_path y)) ->
  (o_exists o1 = true ->
     exists r' y, dget (KPath (np (p_cfg s1) (removelast dest))) (p_dict s1) = Some r' /\
                  nth_error (p_heap s1) r' = Some y /\ o_exists y = true /\ o_kind y = KDir /\
                  ~ In r' (M ++ [r])) ->
  move_all s1 (M ++ [r]) (o_path o1) dest = Some s3 ->
  W_inv s3 /\
  p_cfg s3 = p_cfg s1 /\
  (forall q x, In q (M ++ [r]) -> nth_error (p_heap s1) q = Some x ->
     nth_error (p_heap s3) q = Some (mv (p_cfg s1) (o_path o1) dest x) /\
     dget (KPath (np (p_cfg s1) (new_path (o_path o1) dest x))) (p_dict s3) = Some q) /\
  (forall q, ~ In q (M ++ [r]) -> nth_error (p_heap s3) q = nth_error (p_heap s1) q) /\
  (forall q y, nth_error (p_heap s1) q = Some y -> o_exists y = true -> ~ In q (M ++ [r]) ->
     dget (KPath (np (p_cfg s1) (o_path y))) (p_dict s3) = Some q) /\
  (forall P q x, In q (M ++ [r]) -> nth_error (p_heap s1) q = Some x -> np (p_cfg s1) (o_path x) = P ->
     (forall q' x', In q' (M ++ [r]) -> nth_error (p_heap s1) q' = Some x' ->
                    np (p_cfg s1) (new_path (o_path o1) dest x') <> P) ->
     dget (KPath P) (p_dict s3) = None) /\
  (forall P, (forall q x, In q (M ++ [r]) -> nth_error (p_heap s1) q = Some x ->
                          np (p_cfg s1) (new_path (o_path o1) dest x) <> P /\ np (p_cfg s1) (o_path x) <> P) ->
             dget (KPath P) (p_dict s3) = dget (KPath P) (p_dict s1)).
Proof.
  intros HS HW Hr Hown_r Hold Hdest HndM HrM HM HMall Hsep HP1 HP2 Hmove.
  set (c := p_cfg s1) in *. set (old := o_path o1) in *. set (L := M ++ [r]) in *.
  assert (HL : forall q, In q L -> exists x, nth_error (p_heap s1) q = Some x /\
                 at_under c old (o_path x) /\ dget (KPath (np c (o_path x))) (p_dict s1) = Some q).
  { intros q Hin. apply in_app_or in Hin as [Hin|[<-|[]]].
    - destruct (HM q Hin) as [x [H1 [H2 H3]]]. exists x. split; [exact H1|]. split; [apply is_under_at_under; exact H2|exact H3].
    - exists o1. split; [exact Hr|]. split; [apply at_under_refl|exact Hown_r]. }
  assert (HndL : NoDup L) by (apply nodup_snoc; assumption).
  assert (HownL : forall q, In q L -> exists x, nth_error (p_heap s1) q = Some x /\
                    dget (KPath (np (p_cfg s1) (o_path x))) (p_dict s1) = Some q).
  { intros q Hin. destruct (HL q Hin) as [x [H1 [_ H3]]]. eauto. }
  assert (HsepL : forall q1 q2 x1 x2, In q1 L -> In q2 L -> q1 <> q2 ->
     nth_error (p_heap s1) q1 = Some x1 -> nth_error (p_heap s1) q2 = Some x2 ->
     np (p_cfg s1) (new_path old dest x1) <> np (p_cfg s1) (o_path x2) /\
     np (p_cfg s1) (new_path old dest x1) <> np (p_cfg s1) (new_path old dest x2)).
  { intros q1 q2 x1 x2 I1 I2 Hne H1 H2. split; [apply (Hsep q1 q2); assumption|].
    intros E. fold c in E. rewrite !np_new_path in E. apply app_inv_head in E.
    destruct (HL q1 I1) as [y1 [G1 [A1 K1]]]. destruct (HL q2 I2) as [y2 [G2 [A2 K2]]].
    rewrite H1 in G1. inversion G1; subst y1. rewrite H2 in G2. inversion G2; subst y2.
    rewrite (np_at_under _ _ _ A1), E, <- (np_at_under _ _ _ A2) in K1.
    rewrite K2 in K1. inversion K1. congruence. }
  destruct (move_all_char L s1 old dest HS HndL HownL HsepL)
    as [s' [Mv [Hc [_ [Hlen [Hmv [Hst [C1 [C2 [C3 _]]]]]]]]]].
  rewrite Hmove in Mv. inversion Mv; subst s'. clear Mv.
  fold c in Hmv, C1, C2, C3.
  (* cells that stay *)
  assert (Hkeep : forall q y, nth_error (p_heap s1) q = Some y -> o_exists y = true -> ~ In q L ->
                  nth_error (p_heap s3) q = Some y /\ dget (KPath (np c (o_path y))) (p_dict s3) = Some q).
  { intros q y Hy Hl Hnin. split; [rewrite (Hst q Hnin); exact Hy|].
    rewrite C3; [apply (w_filed s1 HW); assumption|].
    intros q' x' Hin' Hx'. split; [apply (HP1 q y Hy Hl Hnin q' x' Hin' Hx')|].
    intros E. destruct (HL q' Hin') as [x'' [G1 [_ K1]]]. rewrite Hx' in G1. inversion G1; subst x''.
    pose proof (w_filed s1 HW q y Hy Hl) as F. fold c in F.
    rewrite E in K1. rewrite F in K1. inversion K1. subst q'. contradiction. }
  assert (Hmoved : forall q x, In q L -> nth_error (p_heap s1) q = Some x ->
                   nth_error (p_heap s3) q = Some (mv c old dest x) /\
                   dget (KPath (np c (new_path old dest x))) (p_dict s3) = Some q).
  { intros q x Hin Hx. split; [apply Hmv; assumption|apply C1; assumption]. }
  assert (Hsplit : forall q y', nth_error (p_heap s3) q = Some y' ->
                   (In q L /\ exists x, nth_error (p_heap s1) q = Some x /\ y' = mv c old dest x) \/
                   (~ In q L /\ nth_error (p_heap s1) q = Some y')).
  { intros q y' Hy. destruct (in_dec Nat.eq_dec q L) as [Hin|Hnin].
    - left. split; [exact Hin|]. destruct (HL q Hin) as [x [G1 _]]. exists x. split; [exact G1|].
      destruct (Hmoved q x Hin G1) as [G2 _]. congruence.
    - right. split; [exact Hnin|]. rewrite <- (Hst q Hnin). exact Hy. }
  assert (Hlen_old : 1 <= length old) by (destruct old; [congruence|simpl; lia]).
  split; [|split; [exact Hc|split; [exact Hmoved|split; [exact Hst|split; [|split; [exact C2|exact C3]]]]]].
  2:{ intros q y Hy Hl Hnin. apply (Hkeep q y Hy Hl Hnin). }
  constructor; rewrite ?Hc; fold c.
  - (* filed *)
    intros q y' Hy Hl. destruct (Hsplit q y' Hy) as [[Hin [x [Hx ->]]]|[Hnin Hx]].
    + simpl. apply (Hmoved q x Hin Hx).
    + apply (Hkeep q y' Hx Hl Hnin).
  - (* parent *)
    intros q y' Hy Hl Hne. destruct (Hsplit q y' Hy) as [[Hin [x [Hx ->]]]|[Hnin Hx]].
    + simpl in *. apply in_app_or in Hin as [Hin|[<-|[]]].
      * (* strictly below old: the parent moves along *)
        destruct (HM q Hin) as [x' [G1 [HU _]]]. rewrite Hx in G1. inversion G1; subst x'.
        assert (Hpx : o_path x <> []).
        { apply is_under_spec in HU as [HU _]. destruct (o_path x); [simpl in HU; lia|congruence]. }
        destruct (w_parent s1 HW q x Hx Hl Hpx) as [r' [z [K1 [K2 [K3 K4]]]]]. fold c in K1.
        destruct (s_path s1 HS _ _ K1) as [z' [Hz' Hq]]. rewrite K2 in Hz'. inversion Hz'; subst z'. fold c in Hq.
        assert (AU : at_under c old (o_path z)) by (eapply parent_at_under; eassumption).
        assert (Hin' : In r' L).
        { destruct (at_under_cases _ _ _ AU) as [[_ E]|E].
          - rewrite <- Hq, E in K1. rewrite Hown_r in K1. inversion K1. apply in_or_app. right. left. assumption.
          - apply in_or_app. left. apply (HMall r' z K2 K3 E). }
        destruct (Hmoved r' z Hin' K2) as [N1 N2].
        exists r', (mv c old dest z). split; [|split; [exact N1|split; [exact K3|exact K4]]].
        rewrite <- N2. f_equal. f_equal.
        rewrite np_new_path. unfold new_path.
        apply is_under_spec in HU as [HU1 HU2].
        rewrite removelast_app by (intros E; apply (f_equal (@length _)) in E; rewrite skipn_length in E; simpl in E; lia).
        rewrite np_app. f_equal.
        rewrite removelast_skipn by lia. rewrite !np_skipn. f_equal. symmetry. exact Hq.
      * (* the renamed cell itself *)
        rewrite Hx in Hr. inversion Hr; subst x.
        destruct (HP2 Hl) as [r' [y [K1 [K2 [K3 [K4 K5]]]]]].
        destruct (Hkeep r' y K2 K3 K5) as [N1 N2].
        destruct (s_path s1 HS _ _ K1) as [z' [Hz' Hq]]. rewrite K2 in Hz'. inversion Hz'; subst z'. fold c in Hq.
        exists r', y. split; [|auto].
        unfold new_path. fold old. rewrite skipn_all, app_nil_r. rewrite <- Hq. exact N2.
    + destruct (w_parent s1 HW q y' Hx Hl Hne) as [r' [z [K1 [K2 [K3 K4]]]]]. fold c in K1.
      destruct (s_path s1 HS _ _ K1) as [z' [Hz' Hq]]. rewrite K2 in Hz'. inversion Hz'; subst z'. fold c in Hq.
      assert (Hnin' : ~ In r' L).
      { intros Hin'. destruct (HL r' Hin') as [z2 [Hz2 [AU _]]]. rewrite K2 in Hz2. inversion Hz2; subst z2.
        apply Hnin. apply in_or_app. left. apply (HMall q y' Hx Hl).
        apply (child_is_under c old (o_path y') (o_path z)); auto. }
      destruct (Hkeep r' z K2 K3 Hnin') as [N1 N2]. exists r', z. rewrite <- Hq. auto.
  - (* root *)
    destruct (w_root s1 HW) as [r0 [o0 [G1 [G2 [G3 G4]]]]].
    assert (Hnin : ~ In r0 L).
    { intros Hin. destruct (HL r0 Hin) as [z' [Hz' [[AU _] _]]]. rewrite G2 in Hz'. inversion Hz'; subst z'.
      rewrite (root_path s1 r0 o0 HS G1 G2) in AU. simpl in AU. lia. }
    destruct (Hkeep r0 o0 G2 G3 Hnin) as [N1 N2].
    rewrite (root_path s1 r0 o0 HS G1 G2), np_nil_eq in N2. exists r0, o0. auto.
Qed.

(* ------------------------------------------------------------------ the control flow of rename, named *)
Definition rename_conflict (s : prov) (o : obj) (pc : option obj) : option err :=
  match pc with
  | None => None
  | Some x =>
    if negb (okind_eqb (o_kind x) (o_kind o)) then Some EExists else
    match o_kind x with
    | KFile => Some EExists
    | KDir => match listdir s (o_oid x) with
              | Err e => Some e
              | Ok [] => None
              | Ok (_ :: _) => Some ENotEmpty
              end
    end
  end.

Definition rename_del (s : prov) (pc : option obj) : prov * res unit :=
  match pc with Some x => delete s (o_oid x) | None => (s, Ok tt) end.

Definition rename_finish (c : cfg) (k prior : key) (r : nat) (s2 : prov) : prov * res key :=
  match nth_error (p_heap s2) r with
  | None => (s2, Err EUnspecified)
  | Some o2 =>
    if c_oidpath c
    then (if key_eqb (o_oid o2) prior then (s2, Err EAssert) else (s2, Ok (o_oid o2)))
    else (if key_eqb (o_oid o2) k then (s2, Ok (o_oid o2)) else (s2, Err EAssert))
  end.

Definition rename_move (s : prov) (k : key) (p : path) (r : nat) (o : obj) (s1 : prov) : prov * res key :=
  if path_eqb (o_path o) p then (s1, Ok k) else
  match p with
  | [] => (s, Err EUnspecified)
  | _ =>
    match o_kind o with
    | KFile =>
      match rename_single s1 r p true with
      | None => (s1, Err ENotFound)
      | Some s2 => rename_finish (p_cfg s) k (o_oid o) r s2
      end
    | KDir =>
      if negb (move_specified s1 r (o_path o) p) then (s, Err EUnspecified) else
      match move_all s1 (moved_refs s1 (o_path o)) (o_path o) p with
      | None => (s, Err EUnspecified)
      | Some s2 => match rename_single s2 r p true with
                   | None => (s, Err EUnspecified)
                   | Some s3 => rename_finish (p_cfg s) k (o_oid o) r s3
                   end
      end
    end
  end.

Lemma rename_unfold s k p :
  rename s k p =
  match get_live s k with
  | None => (s, Err ENotFound)
  | Some (r, o) =>
    match verify_parent s p with
    | Some e => (s, Err e)
    | None =>
      match rename_conflict s o (conflict_at s k p) with
      | Some e => (s, Err e)
      | None =>
        match rename_del s (conflict_at s k p) with
        | (_, Err e) => (s, Err e)
        | (s1, Ok _) => rename_move s k p r o s1
        end
      end
    end
  end.
Proof. reflexivity. Qed.

Lemma rename_finish_fst c k prior r s2 : fst (rename_finish c k prior r s2) = s2.
Proof.
  unfold rename_finish. destruct (nth_error (p_heap s2) r) as [o2|]; [|reflexivity].
  destruct (c_oidpath c); [destruct (key_eqb (o_oid o2) prior)|destruct (key_eqb (o_oid o2) k)]; reflexivity.
Qed.

(* ------------------------------------------------------------------ small facts *)
Lemma dedup_in l x : In x (dedup l) <-> In x l.
Proof.
  induction l as [|y t IH]; simpl; [tauto|].
  destruct (existsb (Nat.eqb y) t) eqn:E.
  - rewrite IH. split; [auto|]. intros [<-|H]; [|exact H].
    apply existsb_exists in E as [z [Hz E]]. apply Nat.eqb_eq in E. subst z. exact Hz.
  - simpl. rewrite IH. tauto.
Qed.

Lemma dedup_nodup l : NoDup (dedup l).
Proof.
  induction l as [|y t IH]; simpl; [constructor|].
  destruct (existsb (Nat.eqb y) t) eqn:E; [exact IH|].
  constructor; [|exact IH]. rewrite dedup_in. intros Hin.
  assert (X : existsb (Nat.eqb y) t = true) by (apply existsb_exists; exists y; split; [exact Hin|apply Nat.eqb_refl]).
  congruence.
Qed.

Lemma in_moved_refs s old q : In q (moved_refs s old) <->
  In q (fs_refs s) /\ exists x, nth_error (p_heap s) q = Some x /\ is_under (p_cfg s) old (o_path x) = true.
Proof.
  unfold moved_refs. rewrite dedup_in, filter_In. split.
  - intros [H1 H2]. split; [exact H1|]. destruct (nth_error (p_heap s) q) as [x|]; [|discriminate]. eauto.
  - intros [H1 [x [H2 H3]]]. split; [exact H1|]. rewrite H2. exact H3.
Qed.

(* the object a key leads to, when its oid is that key, is the only live object with that oid *)
Lemma oid_unique s k r o r' x : S_inv s -> W_inv s -> get_live s k = Some (r, o) ->
  nth_error (p_heap s) r' = Some x -> o_exists x = true -> o_oid x = k -> r' = r.
Proof.
  intros HS HW Hg Hx Hl Hk. apply get_live_spec in Hg as [G1 _].
  pose proof (oid_filed s r' x HS Hx (w_filed s HW r' x Hx Hl)) as F. rewrite Hk in F. congruence.
Qed.

(* a live object strictly below Q sits below a live folder filed under Q *)
Lemma live_top s Q : S_inv s -> W_inv s ->
  forall n q y, length (o_path y) = n -> nth_error (p_heap s) q = Some y -> o_exists y = true ->
    is_under (p_cfg s) Q (o_path y) = true ->
    exists q0 y0, dget (KPath (np (p_cfg s) Q)) (p_dict s) = Some q0 /\ nth_error (p_heap s) q0 = Some y0 /\
                  o_exists y0 = true /\ o_kind y0 = KDir.
Proof.
  intros HS HW n. induction n as [n IH] using lt_wf_ind. intros q y Hn Hy Hl HU.
  pose proof HU as HU'. apply is_under_spec in HU' as [U1 U2].
  assert (Hne : o_path y <> []) by (destruct (o_path y); [simpl in U1; lia|congruence]).
  destruct (w_parent s HW q y Hy Hl Hne) as [r' [z [K1 [K2 [K3 K4]]]]].
  destruct (s_path s HS _ _ K1) as [z' [Hz' Hq]]. rewrite K2 in Hz'. inversion Hz'; subst z'.
  destruct (Nat.eq_dec (length (o_path y)) (S (length Q))) as [E|E].
  - exists r', z. split; [|auto]. rewrite <- U2. rewrite removelast_firstn_pred in K1.
    replace (length (o_path y) - 1) with (length Q) in K1 by lia. exact K1.
  - assert (AU : at_under (p_cfg s) Q (o_path z)) by (eapply parent_at_under; eassumption).
    assert (HLz : length (o_path z) = length (o_path y) - 1).
    { rewrite <- (np_length (p_cfg s) (o_path z)), Hq, np_length. apply length_removelast. }
    destruct (at_under_cases _ _ _ AU) as [[E1 _]|E1]; [lia|].
    apply (IH (length (o_path z))) with (q := r') (y := z); auto. lia.
Qed.

Lemma move_all_app a : forall s b old dest,
  move_all s (a ++ b) old dest =
  match move_all s a old dest with Some s2 => move_all s2 b old dest | None => None end.
Proof.
  induction a as [|q t IH]; intros s b old dest; simpl; [reflexivity|].
  destruct (nth_error (p_heap s) q) as [x|]; [|reflexivity].
  destruct (rename_single s q (new_path old dest x) false) as [s1|]; [|reflexivity].
  apply IH.
Qed.

Lemma rename_single_other s r dest ev s' q : rename_single s r dest ev = Some s' -> q <> r ->
  nth_error (p_heap s') q = nth_error (p_heap s) q.
Proof.
  unfold rename_single. destruct (nth_error (p_heap s) r) as [o|]; [|discriminate].
  destruct (unstore (p_cfg s) (p_dict s) o) as [d1|]; [|discriminate].
  intros H Hne. inversion H; subst. destruct ev; simpl; apply nth_hset_other; exact Hne.
Qed.

Lemma move_all_other L : forall s old dest s' q, move_all s L old dest = Some s' -> ~ In q L ->
  nth_error (p_heap s') q = nth_error (p_heap s) q.
Proof.
  induction L as [|q0 t IH]; intros s old dest s' q; simpl.
  - intros H _. inversion H. reflexivity.
  - destruct (nth_error (p_heap s) q0) as [x|]; [|discriminate].
    destruct (rename_single s q0 (new_path old dest x) false) as [s1|] eqn:R; [|discriminate].
    intros H Hnin. rewrite (IH _ _ _ _ _ H) by tauto.
    eapply rename_single_other; [exact R|]. intros ->. apply Hnin. left. reflexivity.
Qed.

Lemma rename_single_ev s r dest s' : rename_single s r dest true = Some s' ->
  exists s'', rename_single s r dest false = Some s'' /\ same_core s'' s'.
Proof.
  unfold rename_single. destruct (nth_error (p_heap s) r) as [o|]; [|discriminate].
  destruct (unstore (p_cfg s) (p_dict s) o) as [d1|]; [|discriminate].
  intros H. inversion H; subst. eexists. split; [reflexivity|]. repeat split.
Qed.

(* the two steps of rename(), "move the cells below, then the cell itself", as one loop *)
Lemma move_then_single s1 M r o1 p s2 s3 :
  move_all s1 M (o_path o1) p = Some s2 -> ~ In r M -> nth_error (p_heap s1) r = Some o1 ->
  rename_single s2 r p true = Some s3 ->
  exists s3', move_all s1 (M ++ [r]) (o_path o1) p = Some s3' /\ same_core s3' s3.
Proof.
  intros HM Hnin Hr HR. destruct (rename_single_ev _ _ _ _ HR) as [s3' [R' SC]].
  exists s3'. split; [|exact SC].
  rewrite move_all_app, HM. simpl. rewrite (move_all_other _ _ _ _ _ _ HM Hnin), Hr.
  unfold new_path. rewrite skipn_all, app_nil_r, R'. reflexivity.
Qed.

(* ------------------------------------------------------------------ the pairs checked by move_specified *)
Lemma all_pairs_nth {T} (f : T -> T -> bool) l : all_pairs f l = true ->
  forall i j x y, i < j -> nth_error l i = Some x -> nth_error l j = Some y -> f x y = true.
Proof.
  induction l as [|a t IH]; simpl; intros H i j x y Hij Hi Hj.
  - destruct i; discriminate.
  - apply andb_true_iff in H as [H1 H2]. destruct j as [|j]; [lia|]. simpl in Hj.
    destruct i as [|i]; simpl in Hi.
    + inversion Hi; subst a. rewrite forallb_forall in H1. apply H1. eapply nth_error_In; exact Hj.
    + apply (IH H2 i j); auto. lia.
Qed.

Definition objs_of (h : list obj) (refs : list nat) : list obj :=
  flat_map (fun q => match nth_error h q with Some x => [x] | None => [] end) refs.

Lemma objs_of_nth h refs : (forall q, In q refs -> exists x, nth_error h q = Some x) ->
  forall i q, nth_error refs i = Some q -> exists x, nth_error h q = Some x /\ nth_error (objs_of h refs) i = Some x.
Proof.
  induction refs as [|q0 t IH]; intros Hall i q Hi; [destruct i; discriminate|].
  destruct (Hall q0 (or_introl eq_refl)) as [x0 Hx0].
  unfold objs_of. simpl. rewrite Hx0. simpl. destruct i as [|i]; simpl in *.
  - inversion Hi; subst q. exists x0. auto.
  - apply IH; [|exact Hi]. intros q' Hin. apply Hall. right. exact Hin.
Qed.

Lemma pair_ok_sep c old dest x y : pair_ok c old dest x y = true ->
  np c (new_path old dest y) <> np c (o_path x) /\ np c (new_path old dest x) <> np c (o_path y).
Proof.
  unfold pair_ok, keys_disjoint, old_keys, new_keys. simpl.
  rewrite !andb_true_iff, !negb_true_iff, !orb_false_iff. intros [[_ [[A _] _]] [[B _] _]].
  split; intros E; [rewrite E, path_eqb_refl in A|rewrite E, path_eqb_refl in B]; discriminate.
Qed.

Lemma move_specified_sep s r old dest : move_specified s r old dest = true ->
  NoDup (moved_refs s old ++ [r]) ->
  forall q1 q2 x1 x2, In q1 (moved_refs s old ++ [r]) -> In q2 (moved_refs s old ++ [r]) -> q1 <> q2 ->
    nth_error (p_heap s) q1 = Some x1 -> nth_error (p_heap s) q2 = Some x2 ->
    np (p_cfg s) (new_path old dest x1) <> np (p_cfg s) (o_path x2).
Proof.
  unfold move_specified. intros H Hnd q1 q2 x1 x2 I1 I2 Hne H1 H2.
  apply andb_true_iff in H as [Hown Hpairs]. fold (objs_of (p_heap s) (moved_refs s old ++ [r])) in Hpairs.
  assert (Hall : forall q, In q (moved_refs s old ++ [r]) -> exists x, nth_error (p_heap s) q = Some x).
  { intros q Hin. rewrite forallb_forall in Hown. specialize (Hown q Hin). unfold own_key_ok in Hown.
    destruct (nth_error (p_heap s) q) as [x|]; [eauto|discriminate]. }
  apply In_nth_error in I1 as [i1 J1]. apply In_nth_error in I2 as [i2 J2].
  destruct (objs_of_nth _ _ Hall i1 q1 J1) as [y1 [G1 O1]]. destruct (objs_of_nth _ _ Hall i2 q2 J2) as [y2 [G2 O2]].
  rewrite H1 in G1. inversion G1; subst y1. rewrite H2 in G2. inversion G2; subst y2.
  destruct (lt_eq_lt_dec i1 i2) as [[Hlt|Heq]|Hgt].
  - pose proof (all_pairs_nth _ _ Hpairs i1 i2 x1 x2 Hlt O1 O2) as P. apply pair_ok_sep in P as [_ P]. exact P.
  - subst i2. rewrite J1 in J2. inversion J2. contradiction.
  - pose proof (all_pairs_nth _ _ Hpairs i2 i1 x2 x1 Hgt O2 O1) as P. apply pair_ok_sep in P as [P _]. exact P.
Qed.

(* ------------------------------------------------------------------ the state after the deletion of the
   empty folder found at the target ("possible_conflict") *)
Lemma get_spec s k r x : get s k = Some (r, x) <-> dget k (p_dict s) = Some r /\ nth_error (p_heap s) r = Some x.
Proof.
  unfold get. destruct (dget k (p_dict s)) as [r'|]; [|split; [discriminate|intros [H _]; discriminate]].
  destruct (nth_error (p_heap s) r') as [x'|] eqn:E; split.
  - intros H. inversion H; subst. auto.
  - intros [H1 H2]. inversion H1; subst. rewrite E in H2. inversion H2. reflexivity.
  - discriminate.
  - intros [H1 H2]. inversion H1; subst. congruence.
Qed.

Lemma fst_rmap {T U} (f : T -> U) x : fst (rmap f x) = fst x.
Proof. destruct x as [s [v|e]]; reflexivity. Qed.

Lemma S_delete s k : S_inv s -> S_inv (fst (delete s k)).
Proof. intros H. pose proof (S_step s (ODelete k) H) as G. simpl in G. rewrite fst_rmap in G. exact G. Qed.

Record phase (s : prov) (k : key) (p : path) (r : nat) (o : obj) (s1 : prov) : Prop := {
  ph_S : S_inv s1;
  ph_W : W_inv s1;
  ph_cfg : p_cfg s1 = p_cfg s;
  ph_dict : p_dict s1 = p_dict s;
  ph_cell : exists o1, nth_error (p_heap s1) r = Some o1 /\ o_path o1 = o_path o /\ o_kind o1 = o_kind o /\
                       o_oid o1 = o_oid o /\ o_data o1 = o_data o /\
                       ((o1 = o /\ o_exists o = true) \/
                        (o_exists o1 = false /\ np (p_cfg s) p = np (p_cfg s) (o_path o) /\ o_oid o <> k));
  ph_target : forall q y, dget (KPath (np (p_cfg s) p)) (p_dict s) = Some q ->
                          nth_error (p_heap s1) q = Some y -> o_exists y = true -> q = r;
  ph_live : forall q y, nth_error (p_heap s1) q = Some y -> o_exists y = true -> nth_error (p_heap s) q = Some y;
  ph_same : forall q, dget (KPath (np (p_cfg s) p)) (p_dict s) <> Some q ->
                      nth_error (p_heap s1) q = nth_error (p_heap s) q
}.

Lemma pc_phase s k p r o s1 u : S_inv s -> W_inv s -> get_live s k = Some (r, o) -> p <> [] ->
  rename_conflict s o (conflict_at s k p) = None ->
  rename_del s (conflict_at s k p) = (s1, Ok u) ->
  phase s k p r o s1.
Proof.
  intros HS HW Hg Hp Hc Hd.
  pose proof Hg as Hg'. apply get_live_spec in Hg' as [G1 [G2 G3]].
  assert (Hsame : s1 = s -> (forall q y, dget (KPath (np (p_cfg s) p)) (p_dict s) = Some q ->
                               nth_error (p_heap s) q = Some y -> o_exists y = true -> q = r) ->
                  phase s k p r o s1).
  { intros -> Ht. constructor; auto. exists o. repeat split; auto. }
  unfold conflict_at in Hc, Hd.
  destruct (get s (pkey s p)) as [[r' x]|] eqn:G.
  - apply get_spec in G as [X1 X2]. unfold pkey in X1.
    destruct (key_eqb (o_oid x) k) eqn:K.
    { simpl in Hd. inversion Hd; subst s1. apply Hsame; [reflexivity|].
      intros q y Q1 Q2 Q3. rewrite X1 in Q1. inversion Q1; subst q. rewrite X2 in Q2. inversion Q2; subst y.
      apply key_eqb_eq in K. eapply oid_unique; eauto. }
    destruct (o_exists x) eqn:L.
    2:{ simpl in Hd. inversion Hd; subst s1. apply Hsame; [reflexivity|].
        intros q y Q1 Q2 Q3. rewrite X1 in Q1. inversion Q1; subst q. rewrite X2 in Q2. inversion Q2; subst y. congruence. }
    simpl in Hc, Hd.
    destruct (okind_eqb (o_kind x) (o_kind o)) eqn:KK; [|discriminate]. simpl in Hc.
    destruct (o_kind x) eqn:KX; [discriminate|].
    destruct (listdir s (o_oid x)) as [[|i l]|e] eqn:LD; try discriminate.
    assert (KO : o_kind o = KDir) by (destruct (o_kind o); [discriminate|reflexivity]).
    assert (GX : get_live s (o_oid x) = Some (r', x)) by (apply get_live_oid; auto).
    assert (PX : np (p_cfg s) (o_path x) = np (p_cfg s) p).
    { destruct (s_path s HS _ _ X1) as [x' [Hx' Hq]]. rewrite X2 in Hx'. inversion Hx'; subst x'. exact Hq. }
    assert (NX : o_path x <> []).
    { intros E. rewrite E, np_nil_eq in PX. symmetry in PX. apply np_nil in PX. contradiction. }
    assert (Wd : W_inv (fst (delete s (o_oid x)))).
    { apply W_delete; auto. simpl. rewrite GX. destruct (o_path x); [congruence|reflexivity]. }
    assert (Sd : S_inv (fst (delete s (o_oid x)))) by (apply S_delete; exact HS).
    rewrite Hd in Wd, Sd. simpl in Wd, Sd.
    unfold delete in Hd. rewrite GX, KX, LD in Hd. inversion Hd; subst s1. clear Hd.
    assert (Hlen : r' < length (p_heap s)) by (apply nth_error_Some; congruence).
    constructor; simpl; auto.
    + destruct (Nat.eq_dec r' r) as [->|Hne].
      * rewrite G2 in X2. inversion X2; subst x. exists (set_exists o false).
        split; [apply nth_hset_same; exact Hlen|]. simpl. repeat split; auto.
        right. split; [reflexivity|]. split; [symmetry; exact PX|]. apply key_eqb_false. exact K.
      * exists o. split; [rewrite nth_hset_other by auto; exact G2|]. repeat split; auto.
    + intros q y Q1 Q2 Q3. rewrite X1 in Q1. inversion Q1; subst q.
      rewrite nth_hset_same in Q2 by exact Hlen. inversion Q2; subst y. discriminate.
    + intros q y Q2 Q3. apply nth_hset in Q2 as [[-> [-> _]]|[_ Q2]]; [discriminate|exact Q2].
    + intros q Q. apply nth_hset_other. intros ->. apply Q. exact X1.
  - simpl in Hd. inversion Hd; subst s1. apply Hsame; [reflexivity|].
    intros q y Q1 Q2 Q3. unfold get, pkey in G. rewrite Q1, Q2 in G. discriminate.
Qed.

(* ------------------------------------------------------------------ relocation under the guard *)
Lemma at_under_of_new c old dest x y : np c (new_path old dest x) = np c (o_path y) -> at_under c dest (o_path y).
Proof.
  intros E. rewrite np_new_path in E.
  assert (HL : length dest <= length (o_path y)).
  { apply (f_equal (@length _)) in E. rewrite app_length, !np_length in E. lia. }
  split; [exact HL|]. rewrite np_firstn, <- E.
  rewrite firstn_app, np_length, Nat.sub_diag. simpl. rewrite app_nil_r.
  rewrite <- (np_length c dest) at 1. apply firstn_all.
Qed.

Lemma relocate_guarded s1 r o1 p M s3 :
  S_inv s1 -> W_inv s1 ->
  nth_error (p_heap s1) r = Some o1 ->
  dget (KPath (np (p_cfg s1) (o_path o1))) (p_dict s1) = Some r ->
  p <> [] -> is_under (p_cfg s1) (o_path o1) p = false ->
  NoDup M -> ~ In r M ->
  (forall q, In q M -> exists x, nth_error (p_heap s1) q = Some x /\
                                 is_under (p_cfg s1) (o_path o1) (o_path x) = true /\
                                 dget (KPath (np (p_cfg s1) (o_path x))) (p_dict s1) = Some q) ->
  (forall q y, nth_error (p_heap s1) q = Some y -> o_exists y = true ->
               is_under (p_cfg s1) (o_path o1) (o_path y) = true -> In q M) ->
  (forall q1 q2 x1 x2, In q1 (M ++ [r]) -> In q2 (M ++ [r]) -> q1 <> q2 ->
     nth_error (p_heap s1) q1 = Some x1 -> nth_error (p_heap s1) q2 = Some x2 ->
     np (p_cfg s1) (new_path (o_path o1) p x1) <> np (p_cfg s1) (o_path x2)) ->
  (forall q y, dget (KPath (np (p_cfg s1) p)) (p_dict s1) = Some q ->
               nth_error (p_heap s1) q = Some y -> o_exists y = true -> q = r) ->
  (exists r' y, dget (KPath (np (p_cfg s1) (removelast p))) (p_dict s1) = Some r' /\
                nth_error (p_heap s1) r' = Some y /\ o_exists y = true /\ o_kind y = KDir) ->
  move_all s1 (M ++ [r]) (o_path o1) p = Some s3 ->
  W_inv s3 /\
  p_cfg s3 = p_cfg s1 /\
  (forall q x, In q (M ++ [r]) -> nth_error (p_heap s1) q = Some x ->
     nth_error (p_heap s3) q = Some (mv (p_cfg s1) (o_path o1) p x) /\
     dget (KPath (np (p_cfg s1) (new_path (o_path o1) p x))) (p_dict s3) = Some q) /\
  (forall q, ~ In q (M ++ [r]) -> nth_error (p_heap s3) q = nth_error (p_heap s1) q) /\
  (forall q y, nth_error (p_heap s1) q = Some y -> o_exists y = true -> ~ In q (M ++ [r]) ->
     dget (KPath (np (p_cfg s1) (o_path y))) (p_dict s3) = Some q) /\
  (forall P q x, In q (M ++ [r]) -> nth_error (p_heap s1) q = Some x -> np (p_cfg s1) (o_path x) = P ->
     (forall q' x', In q' (M ++ [r]) -> nth_error (p_heap s1) q' = Some x' ->
                    np (p_cfg s1) (new_path (o_path o1) p x') <> P) ->
     dget (KPath P) (p_dict s3) = None) /\
  (forall P, (forall q x, In q (M ++ [r]) -> nth_error (p_heap s1) q = Some x ->
                          np (p_cfg s1) (new_path (o_path o1) p x) <> P /\ np (p_cfg s1) (o_path x) <> P) ->
             dget (KPath P) (p_dict s3) = dget (KPath P) (p_dict s1)).
Proof.
  intros HS HW Hr Hown Hp Hguard HndM HrM HM HMall Hsep Htarget Hparent Hmove.
  assert (Hold : o_path o1 <> []).
  { intros E. rewrite E in Hguard. destruct p as [|a t]; [congruence|].
    unfold is_under in Hguard. simpl in Hguard. rewrite np_nil_eq in Hguard. simpl in Hguard. discriminate. }
  (* every live object at or below the target is one of the moved cells *)
  assert (Z : forall q y, nth_error (p_heap s1) q = Some y -> o_exists y = true ->
              at_under (p_cfg s1) p (o_path y) -> In q (M ++ [r])).
  { intros q y Hy Hl AU. destruct (at_under_cases _ _ _ AU) as [[E1 E2]|E].
    - pose proof (w_filed s1 HW q y Hy Hl) as F. rewrite E2 in F.
      rewrite (Htarget q y F Hy Hl). apply in_or_app. right. left. reflexivity.
    - destruct (live_top s1 p HS HW _ q y eq_refl Hy Hl E) as [q0 [y0 [T1 [T2 [T3 T4]]]]].
      pose proof (Htarget q0 y0 T1 T2 T3) as ->.
      destruct (s_path s1 HS _ _ T1) as [z [Hz Hq]]. rewrite Hr in Hz. inversion Hz; subst z.
      apply in_or_app. left. apply (HMall q y Hy Hl).
      apply is_under_spec in E as [U1 U2]. apply is_under_spec.
      assert (HL : length (o_path o1) = length p) by (rewrite <- (np_length (p_cfg s1) (o_path o1)), Hq; apply np_length).
      rewrite HL. split; [exact U1|]. congruence. }
  apply (relocate_W s1 r o1 p M s3); auto.
  - intros q y Hy Hl Hnin q' x' Hin' Hx' E. apply Hnin. apply (Z q y Hy Hl).
    eapply at_under_of_new. exact E.
  - intros Hl1. destruct Hparent as [r' [y [K1 [K2 [K3 K4]]]]]. exists r', y. repeat split; auto.
    intros Hin.
    assert (AU : at_under (p_cfg s1) (o_path o1) (o_path y)).
    { apply in_app_or in Hin as [Hin|[<-|[]]].
      - destruct (HM r' Hin) as [x [H1 [H2 _]]]. rewrite K2 in H1. inversion H1; subst x. apply is_under_at_under. exact H2.
      - rewrite Hr in K2. inversion K2; subst y. apply at_under_refl. }
    destruct (s_path s1 HS _ _ K1) as [z [Hz Hq]]. rewrite K2 in Hz. inversion Hz; subst z.
    pose proof (child_is_under (p_cfg s1) (o_path o1) p (o_path y) AU Hp (eq_sym Hq)) as C. congruence.
Qed.

(* what relocate_guarded concludes, named *)
Definition relocated (s1 : prov) (r : nat) (old p : path) (L : list nat) (s3 : prov) : Prop :=
  W_inv s3 /\
  p_cfg s3 = p_cfg s1 /\
  (forall q x, In q L -> nth_error (p_heap s1) q = Some x ->
     nth_error (p_heap s3) q = Some (mv (p_cfg s1) old p x) /\
     dget (KPath (np (p_cfg s1) (new_path old p x))) (p_dict s3) = Some q) /\
  (forall q, ~ In q L -> nth_error (p_heap s3) q = nth_error (p_heap s1) q) /\
  (forall q y, nth_error (p_heap s1) q = Some y -> o_exists y = true -> ~ In q L ->
     dget (KPath (np (p_cfg s1) (o_path y))) (p_dict s3) = Some q) /\
  (forall P q x, In q L -> nth_error (p_heap s1) q = Some x -> np (p_cfg s1) (o_path x) = P ->
     (forall q' x', In q' L -> nth_error (p_heap s1) q' = Some x' ->
                    np (p_cfg s1) (new_path old p x') <> P) ->
     dget (KPath P) (p_dict s3) = None) /\
  (forall P, (forall q x, In q L -> nth_error (p_heap s1) q = Some x ->
                          np (p_cfg s1) (new_path old p x) <> P /\ np (p_cfg s1) (o_path x) <> P) ->
             dget (KPath P) (p_dict s3) = dget (KPath P) (p_dict s1)).

Lemma is_under_irrefl c p : is_under c p p = false.
Proof. unfold is_under. rewrite Nat.ltb_irrefl. reflexivity. Qed.

(* the moved cells of a phase: M = moved_refs s1 old for a folder, [] for a file *)
Definition moved_of (s1 : prov) (o : obj) : list nat :=
  match o_kind o with KDir => moved_refs s1 (o_path o) | KFile => [] end.

Lemma rename_relocated s k p r o s1 s3 :
  S_inv s -> W_inv s -> get_live s k = Some (r, o) -> p <> [] ->
  is_under (p_cfg s) (o_path o) p = false -> verify_parent s p = None ->
  phase s k p r o s1 ->
  (o_kind o = KDir -> move_specified s1 r (o_path o) p = true) ->
  move_all s1 (moved_of s1 o ++ [r]) (o_path o) p = Some s3 ->
  relocated s1 r (o_path o) p (moved_of s1 o ++ [r]) s3.
Proof.
  intros HS HW Hg Hp Hguard Hv [S1 W1 Ec Ed [o1 [Hr [Epath [Ekind [Eoid [Edata Hcase]]]]]] Ht Hlive Hsame] Hms Hmove.
  pose proof Hg as Hg'. apply get_live_spec in Hg' as [G1 [G2 G3]].
  unfold relocated. rewrite <- Epath in *.
  assert (Hown : dget (KPath (np (p_cfg s1) (o_path o1))) (p_dict s1) = Some r).
  { rewrite Ec, Ed, Epath. apply (w_filed s HW r o G2 G3). }
  assert (HndM : NoDup (moved_of s1 o)).
  { unfold moved_of. destruct (o_kind o); [constructor|apply dedup_nodup]. }
  assert (HrM : ~ In r (moved_of s1 o)).
  { unfold moved_of. destruct (o_kind o); [intros []|]. rewrite <- Epath. intros Hin. apply in_moved_refs in Hin as [_ [x [H1 H2]]].
    rewrite Hr in H1. inversion H1; subst x. rewrite is_under_irrefl in H2. discriminate. }
  assert (HM : forall q, In q (moved_of s1 o) -> exists x, nth_error (p_heap s1) q = Some x /\
                 is_under (p_cfg s1) (o_path o1) (o_path x) = true /\
                 dget (KPath (np (p_cfg s1) (o_path x))) (p_dict s1) = Some q).
  { unfold moved_of. destruct (o_kind o); [intros q []|]. rewrite <- Epath. intros q Hin.
    apply in_moved_refs in Hin as [H0 [x [H1 H2]]]. exists x. split; [exact H1|]. split; [exact H2|].
    apply in_fs_refs in H0 as [P HP]. apply (in_dget _ _ _ (s_nodup s1 S1)) in HP.
    destruct (s_path s1 S1 _ _ HP) as [x' [Hx' Hq]]. rewrite H1 in Hx'. inversion Hx'; subst x'. rewrite Hq. exact HP. }
  assert (HMall : forall q y, nth_error (p_heap s1) q = Some y -> o_exists y = true ->
                  is_under (p_cfg s1) (o_path o1) (o_path y) = true -> In q (moved_of s1 o)).
  { intros q y Hy Hl HU. unfold moved_of. destruct (o_kind o) eqn:KO.
    - exfalso. destruct (live_top s1 (o_path o1) S1 W1 _ q y eq_refl Hy Hl HU) as [q0 [y0 [T1 [T2 [T3 T4]]]]].
      rewrite Hown in T1. inversion T1; subst q0. rewrite Hr in T2. inversion T2; subst y0. congruence.
    - rewrite <- Epath. apply in_moved_refs. split; [eapply live_in_fs_refs; eassumption|]. eauto. }
  assert (Hsep : forall q1 q2 x1 x2, In q1 (moved_of s1 o ++ [r]) -> In q2 (moved_of s1 o ++ [r]) -> q1 <> q2 ->
     nth_error (p_heap s1) q1 = Some x1 -> nth_error (p_heap s1) q2 = Some x2 ->
     np (p_cfg s1) (new_path (o_path o1) p x1) <> np (p_cfg s1) (o_path x2)).
  { pose proof (nodup_snoc _ _ HndM HrM) as HndL. revert HndL. unfold moved_of. destruct (o_kind o) eqn:KO.
    - intros _ q1 q2 x1 x2 [<-|[]] [<-|[]] Hne. congruence.
    - rewrite <- Epath. intros HndL. apply move_specified_sep; [|exact HndL]. apply Hms. reflexivity. }
  apply relocate_guarded; auto.
  - rewrite Ec. exact Hguard.
  - intros q y Q1 Q2 Q3. rewrite Ec, Ed in Q1. eapply Ht; eassumption.
  - destruct (verify_parent_ok s p HW Hp Hv) as [r' [y [K1 [K2 [K3 K4]]]]].
    exists r', y. rewrite Ec, Ed. split; [exact K1|]. split; [|auto].
    rewrite Hsame; [exact K2|]. intros Q.
    destruct (s_path s HS _ _ K1) as [z [Hz Hq]]. destruct (s_path s HS _ _ Q) as [z' [Hz' Hq']].
    rewrite Hz in Hz'. inversion Hz'; subst z'. rewrite Hq' in Hq.
    apply (f_equal (@length _)) in Hq. rewrite !np_length, length_removelast in Hq.
    destruct p; [congruence|simpl in Hq; lia].
Qed.

(* ------------------------------------------------------------------ a guarded rename keeps W_inv *)
Lemma W_rename s k p : S_inv s -> W_inv s -> guard_op s (ORename k p) = true -> W_inv (fst (rename s k p)).
Proof.
  intros HS HW Hgd. rewrite rename_unfold. simpl in Hgd.
  destruct (get_live s k) as [[r o]|] eqn:Hg; [|exact HW].
  apply andb_true_iff in Hgd as [Hnr Hnu]. apply negb_true_iff in Hnu.
  assert (Hp : p <> []) by (destruct p; [discriminate|congruence]).
  destruct (verify_parent s p) eqn:Hv; [exact HW|].
  destruct (rename_conflict s o (conflict_at s k p)) eqn:Hc; [exact HW|].
  destruct (rename_del s (conflict_at s k p)) as [s1 [u|e]] eqn:Hd; [|exact HW].
  pose proof (pc_phase s k p r o s1 u HS HW Hg Hp Hc Hd) as PH.
  unfold rename_move.
  destruct (path_eqb (o_path o) p); [exact (ph_W _ _ _ _ _ _ PH)|].
  destruct p as [|a t]; [congruence|].
  destruct (ph_cell _ _ _ _ _ _ PH) as [o1 [Hr [Epath _]]].
  destruct (o_kind o) eqn:KO.
  - destruct (rename_single s1 r (a :: t) true) as [s2|] eqn:R; [|exact (ph_W _ _ _ _ _ _ PH)].
    rewrite rename_finish_fst.
    assert (M0 : move_all s1 [] (o_path o1) (a :: t) = Some s1) by reflexivity.
    destruct (move_then_single s1 [] r o1 (a :: t) s1 s2 M0 (fun H => H) Hr R) as [s3' [Mv SC]].
    rewrite Epath in Mv.
    assert (RL : relocated s1 r (o_path o) (a :: t) (moved_of s1 o ++ [r]) s3').
    { apply (rename_relocated s k (a :: t) r o s1 s3'); auto; unfold moved_of; rewrite KO; [discriminate|exact Mv]. }
    destruct RL as [W3 _]. exact (W_same_core _ _ SC W3).
  - destruct (move_specified s1 r (o_path o) (a :: t)) eqn:MS; [|exact HW]. simpl.
    destruct (move_all s1 (moved_refs s1 (o_path o)) (o_path o) (a :: t)) as [s2|] eqn:MA; [|exact HW].
    destruct (rename_single s2 r (a :: t) true) as [s3|] eqn:R; [|exact HW].
    rewrite rename_finish_fst.
    assert (HrM : ~ In r (moved_refs s1 (o_path o))).
    { intros Hin. apply in_moved_refs in Hin as [_ [x [H1 H2]]]. rewrite Hr in H1. inversion H1; subst x.
      rewrite Epath, is_under_irrefl in H2. discriminate. }
    rewrite <- Epath in MA at 2.
    destruct (move_then_single s1 (moved_refs s1 (o_path o)) r o1 (a :: t) s2 s3 MA HrM Hr R) as [s3' [Mv SC]].
    rewrite Epath in Mv.
    assert (RL : relocated s1 r (o_path o) (a :: t) (moved_of s1 o ++ [r]) s3').
    { apply (rename_relocated s k (a :: t) r o s1 s3'); auto; unfold moved_of; rewrite KO; auto. }
    destruct RL as [W3 _]. exact (W_same_core _ _ SC W3).
Qed.

(* ------------------------------------------------------------------ INV along guarded call sequences *)
Lemma W_step s o : S_inv s -> W_inv s -> guard_op s o = true -> W_inv (fst (step s o)).
Proof.
  intros HS HW Hg. destruct o; unfold step; rewrite ?fst_rmap; try exact HW.
  - apply W_create; assumption.
  - apply W_mkdir; assumption.
  - apply W_rename; assumption.
  - apply W_upload; assumption.
  - apply W_delete; assumption.
  - unfold read_events. destruct (Nat.leb (p_cursor s) (length (p_log s))); simpl; [|exact HW].
    exact (W_same_core _ _ (same_core_cursor _ _) HW).
  - destruct c; exact (W_same_core _ _ (same_core_cursor _ _) HW).
Qed.

Lemma INV_step s o : INV s -> guard_op s o = true -> INV (fst (step s o)).
Proof. intros [HS HW] Hg. split; [apply S_step; exact HS|apply W_step; assumption]. Qed.

Lemma INV_init c : sane_cfg c = true -> INV (init c).
Proof. intros H. split; [apply S_init|apply W_init]; exact H. Qed.

Lemma INV_run ops : forall s, INV s -> guarded_run s ops = true -> INV (fst (run_ops s ops)).
Proof.
  induction ops as [|o t IH]; intros s HI Hg; simpl; [exact HI|].
  simpl in Hg. apply andb_true_iff in Hg as [G1 G2].
  pose proof (INV_step s o HI G1) as H1.
  destruct (step s o) as [s1 res] eqn:E. simpl in H1, G2.
  pose proof (IH s1 H1 G2) as H2. destruct (run_ops s1 t) as [s2 rs]. exact H2.
Qed.

Theorem wf_reachable_guarded c ops : sane_cfg c = true -> guarded_run (init c) ops = true ->
  wfb (fst (run_ops (init c) ops)) = true.
Proof. intros Hs Hg. apply INV_wfb. apply INV_run; [apply INV_init; exact Hs|exact Hg]. Qed.

(* the structural half needs no guard: every call sequence, in the three sane flavours *)
Lemma S_run c ops : sane_cfg c = true -> S_inv (fst (run_ops (init c) ops)).
Proof. intros H. apply run_ops_inv; [apply S_step|apply S_init; exact H]. Qed.

Lemma INV_reachable_guarded c ops : sane_cfg c = true -> guarded_run (init c) ops = true ->
  INV (fst (run_ops (init c) ops)).
Proof. intros Hs Hg. apply INV_run; [apply INV_init; exact Hs|exact Hg]. Qed.

(* the calls an engine makes (clean_op) satisfy the guard *)
Lemma clean_op_guard s o : clean_op s (shape_of o) = true -> guard_op s o = true.
Proof.
  destruct o; simpl; auto.
  - intros H. apply andb_true_iff in H as [H1 H3]. apply andb_true_iff in H1 as [_ H2].
    apply andb_true_iff. split; [destruct p; [discriminate|reflexivity]|].
    destruct (get_live s k) as [[r x]|]; [|reflexivity]. apply andb_true_iff in H3 as [_ H3]. exact H3.
  - intros H. apply andb_true_iff in H as [_ H].
    destruct (get_live s k) as [[r x]|]; [|reflexivity]. destruct (o_path x); [discriminate|reflexivity].
Qed.

Lemma clean_run_guarded ops : forall s, clean_run s ops = true -> guarded_run s ops = true.
Proof.
  induction ops as [|o t IH]; intros s H; simpl in *; [reflexivity|].
  apply andb_true_iff in H as [H1 H2]. rewrite (clean_op_guard s o H1). simpl. apply IH. exact H2.
Qed.

Theorem wf_reachable_clean c ops : sane_cfg c = true -> clean_run (init c) ops = true ->
  wfb (fst (run_ops (init c) ops)) = true.
Proof. intros Hs Hc. apply wf_reachable_guarded; [exact Hs|apply clean_run_guarded; exact Hc]. Qed.
