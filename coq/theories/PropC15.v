(* PropC15.v — C15: the sync state is only touched under its lock; threaded runs are serialisable.

   Vocabulary (ThreadModel.v): a trace is the global order of  Acq t | Rel t | Mut t x | Read t x | Tau t x
   over any number of threads and ONE re-entrant lock (owner + depth).  [well_locked]: every Acq/Rel is one the
   lock allows.  [disciplined]: every Mut/Read of thread t happens while t owns the lock.  [serial]: while the
   lock is held only its holder acts (critical sections run one after another).  The semantics of Mut
   ([apply]), of Read ([observe]), the state type and the key type X are arbitrary.
   The harness records exactly this vocabulary on the real engine (lock wrapper, SyncState.updated, attribute
   setters, index containers) and judges it with the extracted [lock_errors]/[violations]. *)
From Coq Require Import Arith NArith List Bool.
From CS Require Import Sx ThreadModel ThreadProofs.
Import ListNotations.

(* main theorem: all traces, any number of threads, any state, any transformer semantics *)
Theorem C15_disciplined_serialisable :
  forall (X state value : Type) (apply : state -> thread -> X -> state) (observe : state -> thread -> X -> value)
         (tr : list (event X)),
    well_locked tr -> disciplined tr ->
    exists tr', serial tr' /\ well_locked tr' /\ disciplined tr' /\ equiv apply observe tr tr'.
Proof. exact disciplined_serialisable. Qed.
Print Assumptions C15_disciplined_serialisable.

(* the witness is computed by [serialise] (extracted; the harness can ask for it) *)
Theorem C15_serialise_correct :
  forall (X state value : Type) (apply : state -> thread -> X -> state) (observe : state -> thread -> X -> value)
         (tr : list (event X)),
    well_locked tr -> disciplined tr ->
    serial (serialise tr) /\ well_locked (serialise tr) /\ disciplined (serialise tr) /\
    equiv apply observe tr (serialise tr).
Proof. exact serialise_correct. Qed.
Print Assumptions C15_serialise_correct.

(* "equivalent to some sequential interleaving of atomic steps": for a run that ends with the lock free the
   serial witness is a list of steps, each by one thread, each starting and ending with the lock free (a single
   lock-free event, or a whole outermost Acq..Rel section), and the run's effect is the fold of their effects *)
Theorem C15_serial_atomic_steps :
  forall (X state : Type) (apply : state -> thread -> X -> state) (tr : list (event X)),
    well_locked tr -> disciplined tr -> lock_after None tr = None ->
    serialise tr = concat (atomic_steps tr) /\
    Forall (fun b => b <> [] /\ single_thread b /\ closed b) (atomic_steps tr) /\
    forall s, exec apply s tr = fold_left (fun s b => exec apply s b) (atomic_steps tr) s.
Proof. exact serial_atomic_steps. Qed.
Print Assumptions C15_serial_atomic_steps.

(* every invariant that each atomic step preserves (C11's Idx, the Monitor invariants, ...) holds at every
   point of the INTERLEAVED run at which no thread owns the lock *)
Theorem C15_invariant_at_lock_free_points :
  forall (X state : Type) (apply : state -> thread -> X -> state) (Inv : state -> Prop)
         (tr : list (event X)) (s0 : state),
    well_locked tr -> disciplined tr -> Inv s0 ->
    (forall b, In b (atomic_steps tr) -> closed b -> step_preserves apply Inv b) ->
    forall p q, tr = p ++ q -> lock_after None p = None -> Inv (exec apply s0 p).
Proof. exact invariant_at_lock_free_points. Qed.
Print Assumptions C15_invariant_at_lock_free_points.

(* the acceptors the harness runs are exactly the predicates (reflection: sound and complete) *)
Theorem C15_check_trace_decides_disciplined :
  forall (X : Type) (tr : list (event X)), check_trace tr = None <-> disciplined tr.
Proof. exact check_trace_none_iff. Qed.
Print Assumptions C15_check_trace_decides_disciplined.

Theorem C15_check_trace_first :
  forall (X : Type) (tr : list (event X)) (i : N), check_trace tr = Some i ->
    exists p e q, tr = p ++ e :: q /\ N.of_nat (length p) = i /\ disciplined p /\
                  is_access e = true /\ owns (lock_after None p) (tid e) = false.
Proof. exact check_trace_first. Qed.
Print Assumptions C15_check_trace_first.

Theorem C15_violations_exact :
  forall (X : Type) (tr : list (event X)) (i : N),
    In i (violations tr) <->
    exists p e q, tr = p ++ e :: q /\ N.of_nat (length p) = i /\
                  is_access e = true /\ owns (lock_after None p) (tid e) = false.
Proof. exact violations_spec. Qed.
Print Assumptions C15_violations_exact.

Theorem C15_check_locked_decides_well_locked :
  forall (X : Type) (tr : list (event X)), check_locked tr = None <-> well_locked tr.
Proof. exact check_locked_none_iff. Qed.
Print Assumptions C15_check_locked_decides_well_locked.

Theorem C15_lock_errors_exact :
  forall (X : Type) (tr : list (event X)) (i : N),
    In i (lock_errors tr) <->
    exists p e q, tr = p ++ e :: q /\ N.of_nat (length p) = i /\ lock_ok (lock_after None p) e = false.
Proof. exact lock_errors_spec. Qed.
Print Assumptions C15_lock_errors_exact.

(* the discipline hypothesis is what matters: without it the statement is false.  Thread 1 increments a counter
   under the lock (load, store), thread 2 increments it without taking the lock in between: the update of thread 2
   is lost, and no serial trace with the same per-thread events reaches that state. *)
Theorem C15_undisciplined_refuted : ~ serialisable_without_discipline.
Proof. exact undisciplined_refuted. Qed.
Print Assumptions C15_undisciplined_refuted.

Theorem C15_lost_update :
  fst (exec rapply rinit tr_lost) = 1%N /\ fst (exec rapply rinit tr_atomic) = 2%N /\ check_trace tr_lost = Some 0%N.
Proof. exact lost_update. Qed.
Print Assumptions C15_lost_update.

(* ------------------------------------------------------------------ non-vacuity *)
(* an interleaved run: thread 1 holds the lock re-entrantly and mutates; threads 2 and 3 do lock-free things
   meanwhile; then thread 2 takes the lock.  It is well locked and disciplined but NOT serial; its
   serialisation is, and has the same accesses in the same order. *)
Definition ex_tr : list (event N) :=
  [Tau 2 7; Acq 1; Read 1 0; Tau 2 8; Acq 1; Mut 1 1; Tau 3 9; Rel 1; Mut 1 2; Rel 1; Tau 3 9; Acq 2; Mut 2 3; Rel 2]%N.

Example ex_accepted : check_locked ex_tr = None /\ check_trace ex_tr = None.
Proof. vm_compute. split; reflexivity. Qed.

Example ex_hypotheses_hold : well_locked ex_tr /\ disciplined ex_tr.
Proof. split; [apply check_locked_none_iff | apply check_trace_none_iff]; vm_compute; reflexivity. Qed.

Example ex_not_serial : ~ serial ex_tr.
Proof.
  unfold serial, serial_from, ex_tr. simpl. unfold ok_serial. simpl. intros H.
  repeat match goal with H : _ /\ _ |- _ => destruct H end. discriminate.
Qed.

Example ex_serialised :
  serialise ex_tr =
  [Tau 2 7; Tau 2 8; Tau 3 9; Acq 1; Read 1 0; Acq 1; Mut 1 1; Rel 1; Mut 1 2; Rel 1; Tau 3 9; Acq 2; Mut 2 3; Rel 2]%N
  /\ atomic_steps ex_tr =
  [[Tau 2 7]; [Tau 2 8]; [Tau 3 9]; [Acq 1; Read 1 0; Acq 1; Mut 1 1; Rel 1; Mut 1 2; Rel 1]; [Tau 3 9];
   [Acq 2; Mut 2 3; Rel 2]]%N.
Proof. vm_compute. split; reflexivity. Qed.

(* the acceptors reject: an access by a thread that does not own the lock (position 3), a release by a
   non-owner (position 2), an acquisition while another thread holds the lock (position 1) *)
Example ex_rejected_access : violations [Acq 1; Mut 1 0; Rel 1; Mut 1 0; Acq 2; Read 1 5; Rel 2]%N = [3; 5]%N.
Proof. vm_compute. reflexivity. Qed.
Example ex_rejected_lock : lock_errors ([Acq 1; Acq 2; Rel 2; Rel 1; Rel 1] : list (event N))%N = [1; 2; 4]%N.
Proof. vm_compute. reflexivity. Qed.

(* the refutation's witness is well locked, and the acceptor points at thread 2's unlocked increment *)
Example ex_unlocked_witness : check_locked tr_unlocked = None /\ check_trace tr_unlocked = Some 2%N /\
  fst (exec rapply rinit tr_unlocked) = 1%N.
Proof. vm_compute. repeat split; reflexivity. Qed.
