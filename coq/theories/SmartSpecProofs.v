(* SmartSpecProofs.v — C20: the big-step specification [sstep] of SmartModel.v.  An invariant of every reachable
   state, for ALL action sequences and ALL auto-sync predicates, and the six laws derived from it. *)
From Coq Require Import NArith List Bool Lia.
From CS Require Import Sx TreeModel TreePaths TreeLookup SmartModel SmartProofs.
Import ListNotations.

Lemma is_file_iff t p : is_file t p = true <-> exists c, lookup t p = Some (File c).
Proof.
  unfold is_file. destruct (lookup t p) as [[|c]|]; split; intros H; try discriminate; try reflexivity.
  - destruct H as [c H]. discriminate.
  - exists c. reflexivity.
  - destruct H as [c H]. discriminate.
Qed.
Lemma isnone_iff {T} (o : option T) : isnone o = true <-> o = None.
Proof. destruct o; simpl; split; intros H; congruence. Qed.

Record sinv (s : sstate) : Prop := {
  i_ndR : NoDup (map fst (sR s));
  i_ndL : NoDup (map fst (sL s));
  (* folders are mirrored *)
  i_dirs : forall p, lookup (sR s) p = Some Dir <-> lookup (sL s) p = Some Dir;
  (* every local file is the remote file (uploaded / kept in sync) *)
  i_sub : forall p c, lookup (sL s) p = Some (File c) -> lookup (sR s) p = Some (File c);
  (* a local file is there because it was requested (or matched) or was created locally *)
  i_just : forall p c, lookup (sL s) p = Some (File c) -> pmem p (sQ s) = true \/ pmem p (sB s) = true;
  (* a requested file is present on both sides with the same content *)
  i_req : forall p, pmem p (sQ s) = true -> exists c, lookup (sR s) p = Some (File c) /\ lookup (sL s) p = Some (File c);
  (* an un-requested file exists remotely, not locally, and is not requested *)
  i_exc : forall p, pmem p (sX s) = true -> is_file (sR s) p = true /\ lookup (sL s) p = None /\ pmem p (sQ s) = false
}.

Lemma sinv_init : sinv sinit.
Proof.
  constructor; simpl; try constructor; try (intros; discriminate).
Qed.

Lemma sub_all s : sinv s -> forall p n, lookup (sL s) p = Some n -> lookup (sR s) p = Some n.
Proof.
  intros I p [|c] H; [apply (i_dirs s I); exact H|apply (i_sub s I); exact H].
Qed.

(* case analysis on the touched path *)
Ltac peq p q := destruct (path_eqb p q) eqn:?E;
                [apply path_eqb_eq in E; subst q; rewrite ?path_eqb_refl in * |
                 try rewrite (path_eqb_sym q p) in *; rewrite ?E in *].

Section SpecThms.
Variable auto : path -> bool.

Lemma free_none s p : free s p = true -> lookup (sR s) p = None /\ lookup (sL s) p = None.
Proof. unfold free. intros H. apply andb_true_iff in H as [H1 H2]. split; apply isnone_iff; assumption. Qed.

(* ---- set on both sides (remote create matched by the predicate, local create, mkdir on either side) *)
Lemma inv_set_both s p n q' b' :
  sinv s -> free s p = true ->
  (forall q, pmem q (sQ s) = true -> pmem q q' = true) ->
  (forall q, pmem q (sB s) = true -> pmem q b' = true) ->
  (forall q, pmem q q' = true -> q = p \/ pmem q (sQ s) = true) ->
  (match n with File _ => pmem p q' = true \/ pmem p b' = true | Dir => pmem p q' = false end) ->
  sinv {| sR := set (sR s) p n; sL := set (sL s) p n; sQ := q'; sX := sX s; sB := b' |}.
Proof.
  intros I Hfree HQ HB HQ' Hn. destruct (free_none s p Hfree) as [HR HL].
  constructor; simpl.
  - apply nodup_set. apply (i_ndR s I).
  - apply nodup_set. apply (i_ndL s I).
  - intros q. rewrite !lookup_set. peq p q; [tauto|apply (i_dirs s I)].
  - intros q c. rewrite !lookup_set. peq p q; [tauto|apply (i_sub s I)].
  - intros q c. rewrite lookup_set. peq p q.
    + intros H. inversion H; subst n. exact Hn.
    + intros H. destruct (i_just s I q c H) as [H1|H1]; [left; apply HQ; exact H1|right; apply HB; exact H1].
  - intros q Hq. rewrite !lookup_set. peq p q.
    + destruct n as [|c]; [congruence|]. exists c. split; reflexivity.
    + destruct (HQ' q Hq) as [H|H]; [subst q; rewrite path_eqb_refl in E; discriminate|apply (i_req s I); exact H].
  - intros q Hq. destruct (i_exc s I q Hq) as [H1 [H2 H3]].
    assert (Hne: path_eqb p q = false).
    { apply path_eqb_neq. intros ->. apply is_file_iff in H1. destruct H1 as [c H1]. congruence. }
    unfold is_file in *. rewrite !lookup_set, Hne. split; [exact H1|]. split; [exact H2|].
    destruct (pmem q q') eqn:Hm; [|reflexivity].
    destruct (HQ' q Hm) as [H|H]; [subst q; rewrite path_eqb_refl in Hne; discriminate|congruence].
Qed.

Lemma inv_step s a s' : sinv s -> sstep auto s a = Some s' -> sinv s'.
Proof.
  intros I H. destruct a as [p c|p|p c|p|p c|p|p c|p|p|p c]; simpl in H.
  - (* RCreate *)
    destruct (free s p && parent_ok (sR s) p) eqn:G; [|discriminate]. apply andb_true_iff in G as [Hfree _].
    destruct (auto p) eqn:Ha; inversion H; subst; clear H.
    + apply inv_set_both; try assumption.
      * intros q Hq. rewrite pmem_padd, Hq. apply orb_true_r.
      * tauto.
      * intros q Hq. rewrite pmem_padd in Hq. apply orb_true_iff in Hq as [Hq|Hq]; [left; apply path_eqb_eq; exact Hq|right; exact Hq].
      * left. apply pmem_padd_same.
    + destruct (free_none s p Hfree) as [HR HL].
      constructor; simpl.
      * apply nodup_set. apply (i_ndR s I).
      * apply (i_ndL s I).
      * intros q. rewrite lookup_set. peq p q; [rewrite HL; split; intros; discriminate|apply (i_dirs s I)].
      * intros q c0 Hq. rewrite lookup_set. peq p q; [congruence|apply (i_sub s I); exact Hq].
      * apply (i_just s I).
      * intros q Hq. destruct (i_req s I q Hq) as [c0 [H1 H2]]. exists c0. rewrite lookup_set.
        peq p q; [congruence|split; assumption].
      * intros q Hq. destruct (i_exc s I q Hq) as [H1 [H2 H3]]. split; [|split; assumption].
        unfold is_file in *. rewrite lookup_set. peq p q; [reflexivity|exact H1].
  - (* RMkdir *)
    destruct (free s p && parent_ok (sR s) p) eqn:G; [|discriminate]. apply andb_true_iff in G as [Hfree _].
    inversion H; subst; clear H. apply inv_set_both; try assumption; try tauto.
    destruct (pmem p (sQ s)) eqn:Hq; [|reflexivity].
    destruct (i_req s I p Hq) as [c [H1 _]]. destruct (free_none s p Hfree) as [HR _]. congruence.
  - (* REdit *)
    destruct (is_file (sR s) p) eqn:Hf; [|discriminate]. inversion H; subst; clear H.
    apply is_file_iff in Hf. destruct Hf as [c0 Hf].
    assert (HLp: lookup (sL s) p = None \/ lookup (sL s) p = Some (File c0)).
    { destruct (lookup (sL s) p) as [[|c1]|] eqn:HL; [|right|left; reflexivity].
      - apply (i_dirs s I) in HL. congruence.
      - pose proof (i_sub s I p c1 HL). congruence. }
    constructor; simpl.
    + apply nodup_set. apply (i_ndR s I).
    + destruct (isnone (lookup (sL s) p)); [apply (i_ndL s I)|apply nodup_set; apply (i_ndL s I)].
    + intros q. rewrite lookup_set. peq p q.
      * split; [discriminate|]. destruct HLp as [HL|HL]; rewrite HL; simpl; [rewrite HL; discriminate|].
        rewrite lookup_set, path_eqb_refl. discriminate.
      * destruct (isnone (lookup (sL s) p)); [apply (i_dirs s I)|rewrite lookup_set, E; apply (i_dirs s I)].
    + intros q c1. rewrite lookup_set. peq p q.
      * destruct HLp as [HL|HL]; rewrite HL; simpl; [rewrite HL; discriminate|].
        rewrite lookup_set, path_eqb_refl. tauto.
      * destruct (isnone (lookup (sL s) p)); [apply (i_sub s I)|rewrite lookup_set, E; apply (i_sub s I)].
    + intros q c1. peq p q.
      * destruct HLp as [HL|HL]; rewrite HL; simpl; [rewrite HL; discriminate|].
        intros _. apply (i_just s I p c0 HL).
      * destruct (isnone (lookup (sL s) p)); [apply (i_just s I)|rewrite lookup_set, E; apply (i_just s I)].
    + intros q Hq. destruct (i_req s I q Hq) as [c1 [H1 H2]]. rewrite lookup_set. peq p q.
      * exists c. split; [reflexivity|]. rewrite H2. simpl. rewrite lookup_set, path_eqb_refl. reflexivity.
      * exists c1. split; [exact H1|].
        destruct (isnone (lookup (sL s) p)); [exact H2|rewrite lookup_set, E; exact H2].
    + intros q Hq. destruct (i_exc s I q Hq) as [H1 [H2 H3]]. split; [|split; [|exact H3]].
      * unfold is_file in *. rewrite lookup_set. peq p q; [reflexivity|exact H1].
      * peq p q; [rewrite H2; simpl; exact H2|].
        destruct (isnone (lookup (sL s) p)); [exact H2|rewrite lookup_set, E; exact H2].
  - (* RDelete *)
    assert (Hrm: forall q' x' b',
              (forall q, pmem q q' = true -> pmem q (sQ s) = true /\ q <> p) ->
              (forall q, q <> p -> pmem q (sQ s) = true -> pmem q q' = true) ->
              (forall q, pmem q x' = true -> pmem q (sX s) = true /\ q <> p) ->
              (forall q, q <> p -> pmem q (sB s) = true -> pmem q b' = true) ->
              sinv {| sR := remove (sR s) p; sL := remove (sL s) p; sQ := q'; sX := x'; sB := b' |}).
    { intros q' x' b' HQ HQ2 HX HB. constructor; simpl.
      - apply nodup_remove. apply (i_ndR s I).
      - apply nodup_remove. apply (i_ndL s I).
      - intros q. rewrite !lookup_remove. peq p q; [tauto|apply (i_dirs s I)].
      - intros q c. rewrite !lookup_remove. peq p q; [discriminate|apply (i_sub s I)].
      - intros q c. rewrite lookup_remove. peq p q; [discriminate|].
        intros Hq. assert (Hne: q <> p) by (apply path_eqb_neq; rewrite path_eqb_sym; exact E).
        destruct (i_just s I q c Hq) as [H1|H1]; [left; apply HQ2; assumption|right; apply HB; assumption].
      - intros q Hq. destruct (HQ q Hq) as [H1 Hne]. rewrite !lookup_remove.
        assert (E: path_eqb p q = false) by (apply path_eqb_neq; congruence). rewrite E. apply (i_req s I); exact H1.
      - intros q Hq. destruct (HX q Hq) as [H1 Hne]. destruct (i_exc s I q H1) as [G1 [G2 G3]].
        assert (E: path_eqb p q = false) by (apply path_eqb_neq; congruence).
        unfold is_file in *. rewrite !lookup_remove, E. split; [exact G1|]. split; [exact G2|].
        destruct (pmem q q') eqn:Hm; [|reflexivity]. destruct (HQ q Hm) as [H2 _]. congruence. }
    assert (Hpd: forall l q, pmem q (pdel p l) = true -> pmem q l = true /\ q <> p).
    { intros l q Hq. rewrite pmem_pdel in Hq. apply andb_true_iff in Hq as [H1 H2]. split; [exact H2|].
      apply negb_true_iff in H1. apply path_eqb_neq in H1. congruence. }
    assert (Hpd2: forall l q, q <> p -> pmem q l = true -> pmem q (pdel p l) = true).
    { intros l q Hne Hq. rewrite pmem_pdel, Hq. rewrite andb_true_r. apply negb_true_iff. apply path_eqb_neq. congruence. }
    destruct (lookup (sR s) p) as [[|c0]|] eqn:HRp; [|inversion H; subst; clear H|discriminate].
    + destruct (has_children (sR s) p); [discriminate|]. inversion H; subst; clear H.
      apply Hrm.
      * intros q Hq. split; [exact Hq|]. intros ->. destruct (i_req s I p Hq) as [c [H1 _]]. congruence.
      * intros q _ Hq. exact Hq.
      * intros q Hq. split; [exact Hq|]. intros ->. destruct (i_exc s I p Hq) as [H1 _].
        apply is_file_iff in H1. destruct H1 as [c H1]. congruence.
      * intros q _ Hq. exact Hq.
    + apply Hrm; auto.
  - (* LCreate *)
    destruct (free s p && parent_ok (sL s) p) eqn:G; [|discriminate]. apply andb_true_iff in G as [Hfree _].
    inversion H; subst; clear H. apply inv_set_both; try assumption; try tauto.
    + intros q Hq. rewrite pmem_padd, Hq. apply orb_true_r.
    + right. apply pmem_padd_same.
  - (* LMkdir *)
    destruct (free s p && parent_ok (sL s) p) eqn:G; [|discriminate]. apply andb_true_iff in G as [Hfree _].
    inversion H; subst; clear H. apply inv_set_both; try assumption; try tauto.
    destruct (pmem p (sQ s)) eqn:Hq; [|reflexivity].
    destruct (i_req s I p Hq) as [c [H1 _]]. destruct (free_none s p Hfree) as [HR _]. congruence.
  - (* LEdit *)
    destruct (is_file (sL s) p) eqn:Hf; [|discriminate]. inversion H; subst; clear H.
    apply is_file_iff in Hf. destruct Hf as [c0 HL]. pose proof (i_sub s I p c0 HL) as HR.
    constructor; simpl.
    + apply nodup_set. apply (i_ndR s I).
    + apply nodup_set. apply (i_ndL s I).
    + intros q. rewrite !lookup_set. peq p q; [tauto|apply (i_dirs s I)].
    + intros q c1. rewrite !lookup_set. peq p q; [tauto|apply (i_sub s I)].
    + intros q c1. rewrite lookup_set. peq p q; [intros _; apply (i_just s I p c0 HL)|apply (i_just s I)].
    + intros q Hq. rewrite !lookup_set. peq p q; [exists c; split; reflexivity|apply (i_req s I); exact Hq].
    + intros q Hq. destruct (i_exc s I q Hq) as [H1 [H2 H3]].
      assert (E: path_eqb p q = false) by (apply path_eqb_neq; intros ->; congruence).
      unfold is_file in *. rewrite !lookup_set, E. repeat split; assumption.
  - (* Request *)
    destruct (lookup (sR s) p) as [[|c]|] eqn:HRp; inversion H; subst; clear H; try exact I.
    constructor; simpl.
    + apply (i_ndR s I).
    + apply nodup_set. apply (i_ndL s I).
    + intros q. rewrite lookup_set. peq p q; [rewrite HRp; split; discriminate|apply (i_dirs s I)].
    + intros q c1. rewrite lookup_set. peq p q; [intros H; inversion H; subst; exact HRp|apply (i_sub s I)].
    + intros q c1. rewrite lookup_set, pmem_padd. peq p q; [intros _; left; reflexivity|].
      intros Hq. destruct (i_just s I q c1 Hq) as [H1|H1]; [left; rewrite H1; apply orb_true_r|right; exact H1].
    + intros q Hq. rewrite pmem_padd in Hq. rewrite lookup_set. peq p q.
      * exists c. split; [exact HRp|reflexivity].
      * simpl in Hq. apply (i_req s I); exact Hq.
    + intros q Hq. rewrite pmem_pdel in Hq. apply andb_true_iff in Hq as [Hne Hq]. apply negb_true_iff in Hne.
      destruct (i_exc s I q Hq) as [H1 [H2 H3]]. rewrite lookup_set, pmem_padd, Hne.
      rewrite (path_eqb_sym q p), Hne. simpl. repeat split; assumption.
  - (* Unrequest *)
    destruct (pmem p (sQ s) && is_file (sR s) p) eqn:G; inversion H; subst; clear H; [|exact I].
    apply andb_true_iff in G as [HQp HFp].
    constructor; simpl.
    + apply (i_ndR s I).
    + apply nodup_remove. apply (i_ndL s I).
    + intros q. rewrite lookup_remove. peq p q; [|apply (i_dirs s I)].
      apply is_file_iff in HFp. destruct HFp as [c HFp]. rewrite HFp. split; discriminate.
    + intros q c1. rewrite lookup_remove. peq p q; [discriminate|apply (i_sub s I)].
    + intros q c1. rewrite lookup_remove, !pmem_pdel. peq p q; [discriminate|]. simpl. apply (i_just s I).
    + intros q Hq. rewrite pmem_pdel in Hq. apply andb_true_iff in Hq as [Hne Hq]. apply negb_true_iff in Hne.
      rewrite lookup_remove, Hne. apply (i_req s I); exact Hq.
    + intros q Hq. rewrite pmem_padd in Hq. rewrite lookup_remove, pmem_pdel. peq p q.
      * simpl. split; [exact HFp|split; reflexivity].
      * simpl in Hq. simpl. apply (i_exc s I); exact Hq.
  - (* EditUnrequest *)
    destruct (is_file (sL s) p) eqn:Hf; [|discriminate].
    apply is_file_iff in Hf. destruct Hf as [c0 HL]. pose proof (i_sub s I p c0 HL) as HR.
    destruct (pmem p (sQ s) && is_file (sR s) p) eqn:G; inversion H; subst; clear H.
    + constructor; simpl.
      * apply nodup_set. apply (i_ndR s I).
      * apply nodup_remove. apply (i_ndL s I).
      * intros q. rewrite lookup_set, lookup_remove. peq p q; [split; discriminate|apply (i_dirs s I)].
      * intros q c1. rewrite lookup_set, lookup_remove. peq p q; [discriminate|apply (i_sub s I)].
      * intros q c1. rewrite lookup_remove, !pmem_pdel. peq p q; [discriminate|]. simpl. apply (i_just s I).
      * intros q Hq. rewrite pmem_pdel in Hq. apply andb_true_iff in Hq as [Hne Hq]. apply negb_true_iff in Hne.
        rewrite lookup_set, lookup_remove, Hne. apply (i_req s I); exact Hq.
      * intros q Hq. rewrite pmem_padd in Hq. unfold is_file. rewrite lookup_set, lookup_remove, pmem_pdel. peq p q.
        -- simpl. repeat split; reflexivity.
        -- simpl in Hq. simpl. apply (i_exc s I); exact Hq.
    + constructor; simpl.
      * apply nodup_set. apply (i_ndR s I).
      * apply nodup_set. apply (i_ndL s I).
      * intros q. rewrite !lookup_set. peq p q; [tauto|apply (i_dirs s I)].
      * intros q c1. rewrite !lookup_set. peq p q; [tauto|apply (i_sub s I)].
      * intros q c1. rewrite lookup_set. peq p q; [intros _; apply (i_just s I p c0 HL)|apply (i_just s I)].
      * intros q Hq. rewrite !lookup_set. peq p q; [exists c; split; reflexivity|apply (i_req s I); exact Hq].
      * intros q Hq. destruct (i_exc s I q Hq) as [H1 [H2 H3]].
        assert (E: path_eqb p q = false) by (apply path_eqb_neq; intros ->; congruence).
        unfold is_file in *. rewrite !lookup_set, E. repeat split; assumption.
Qed.

Theorem inv_reachable l : forall s s', sinv s -> srun auto s l = Some s' -> sinv s'.
Proof.
  induction l as [|a l IH]; intros s s' I H; simpl in H; [inversion H; subst; exact I|].
  destruct (sstep auto s a) as [s1|] eqn:Hs; [|discriminate].
  eapply IH; [eapply inv_step; eassumption|exact H].
Qed.
End SpecThms.

(* ================================================================== the laws, for every action sequence *)
Section Laws.
Variable auto : path -> bool.

Lemma reach_inv l s : srun auto sinit l = Some s -> sinv s.
Proof. apply inv_reachable. apply sinv_init. Qed.

(* ---- 1. folders are always mirrored *)
Theorem folders_always_mirrored l s :
  srun auto sinit l = Some s -> forall p, lookup (sR s) p = Some Dir <-> lookup (sL s) p = Some Dir.
Proof. intros H. apply (i_dirs s (reach_inv l s H)). Qed.

Theorem remote_mkdir_mirrored s p s' :
  sstep auto s (RMkdir p) = Some s' -> lookup (sL s') p = Some Dir /\ lookup (sR s') p = Some Dir.
Proof.
  simpl. destruct (free s p && parent_ok (sR s) p); [|discriminate]. intros H; inversion H; subst; simpl.
  rewrite !lookup_set, path_eqb_refl. split; reflexivity.
Qed.

(* ---- 2. local creations (and local edits) are always uploaded; the local tree is part of the remote tree *)
Theorem local_tree_uploaded l s :
  srun auto sinit l = Some s -> forall p n, lookup (sL s) p = Some n -> lookup (sR s) p = Some n.
Proof. intros H. apply sub_all. exact (reach_inv l s H). Qed.

Theorem local_creations_uploaded s s' :
  (forall p c, sstep auto s (LCreate p c) = Some s' -> lookup (sR s') p = Some (File c) /\ lookup (sL s') p = Some (File c)) /\
  (forall p, sstep auto s (LMkdir p) = Some s' -> lookup (sR s') p = Some Dir /\ lookup (sL s') p = Some Dir) /\
  (forall p c, sstep auto s (LEdit p c) = Some s' -> lookup (sR s') p = Some (File c) /\ lookup (sL s') p = Some (File c)).
Proof.
  repeat split; simpl in *.
  all: try (destruct (free s p && parent_ok (sL s) p); [|discriminate]).
  all: try (destruct (is_file (sL s) p); [|discriminate]).
  all: inversion H; subst; simpl; rewrite lookup_set, path_eqb_refl; reflexivity.
Qed.

(* ---- 3. a file that exists only remotely is never downloaded unless requested / matched / created locally *)
Theorem never_download_unrequested l s p :
  srun auto sinit l = Some s ->
  is_file (sR s) p = true -> pmem p (sQ s) = false -> pmem p (sB s) = false -> lookup (sL s) p = None.
Proof.
  intros H Hf Hq Hb. pose proof (reach_inv l s H) as I.
  destruct (lookup (sL s) p) as [[|c]|] eqn:HL; [| |reflexivity].
  - apply (i_dirs s I) in HL. unfold is_file in Hf. rewrite HL in Hf. discriminate.
  - destruct (i_just s I p c HL); congruence.
Qed.

(* what membership in the requested / locally-born sets means in terms of the actions performed *)
Lemma Q_step s a s' p :
  sstep auto s a = Some s' -> pmem p (sQ s') = true ->
  pmem p (sQ s) = true \/ a = Request p \/ (auto p = true /\ exists c, a = RCreate p c).
Proof.
  intros H Hq. destruct a as [p0 c|p0|p0 c|p0|p0 c|p0|p0 c|p0|p0|p0 c]; simpl in H.
  - destruct (free s p0 && parent_ok (sR s) p0); [|discriminate].
    destruct (auto p0) eqn:Ha; inversion H; subst; simpl in Hq; [|left; exact Hq].
    rewrite pmem_padd in Hq. apply orb_true_iff in Hq as [Hq|Hq]; [|left; exact Hq].
    apply path_eqb_eq in Hq. subst p0. right. right. split; [exact Ha|exists c; reflexivity].
  - destruct (free s p0 && parent_ok (sR s) p0); [|discriminate]. inversion H; subst. left. exact Hq.
  - destruct (is_file (sR s) p0); [|discriminate]. inversion H; subst. left. exact Hq.
  - destruct (lookup (sR s) p0) as [[|c0]|]; [destruct (has_children (sR s) p0); [discriminate|]| |discriminate];
      inversion H; subst; simpl in Hq; left; [exact Hq|].
    rewrite pmem_pdel in Hq. apply andb_true_iff in Hq as [_ Hq]. exact Hq.
  - destruct (free s p0 && parent_ok (sL s) p0); [|discriminate]. inversion H; subst. left. exact Hq.
  - destruct (free s p0 && parent_ok (sL s) p0); [|discriminate]. inversion H; subst. left. exact Hq.
  - destruct (is_file (sL s) p0); [|discriminate]. inversion H; subst. left. exact Hq.
  - destruct (lookup (sR s) p0) as [[|c0]|]; inversion H; subst; try (left; exact Hq).
    simpl in Hq. rewrite pmem_padd in Hq. apply orb_true_iff in Hq as [Hq|Hq]; [|left; exact Hq].
    apply path_eqb_eq in Hq. subst p0. right. left. reflexivity.
  - destruct (pmem p0 (sQ s) && is_file (sR s) p0); inversion H; subst; [|left; exact Hq].
    simpl in Hq. rewrite pmem_pdel in Hq. apply andb_true_iff in Hq as [_ Hq]. left. exact Hq.
  - destruct (is_file (sL s) p0); [|discriminate].
    destruct (pmem p0 (sQ s) && is_file (sR s) p0); inversion H; subst; [|left; exact Hq].
    simpl in Hq. rewrite pmem_pdel in Hq. apply andb_true_iff in Hq as [_ Hq]. left. exact Hq.
Qed.

Lemma B_step s a s' p :
  sstep auto s a = Some s' -> pmem p (sB s') = true -> pmem p (sB s) = true \/ exists c, a = LCreate p c.
Proof.
  intros H Hq. destruct a as [p0 c|p0|p0 c|p0|p0 c|p0|p0 c|p0|p0|p0 c]; simpl in H.
  - destruct (free s p0 && parent_ok (sR s) p0); [|discriminate].
    destruct (auto p0); inversion H; subst; left; exact Hq.
  - destruct (free s p0 && parent_ok (sR s) p0); [|discriminate]. inversion H; subst. left. exact Hq.
  - destruct (is_file (sR s) p0); [|discriminate]. inversion H; subst. left. exact Hq.
  - destruct (lookup (sR s) p0) as [[|c0]|]; [destruct (has_children (sR s) p0); [discriminate|]| |discriminate];
      inversion H; subst; simpl in Hq; left; [exact Hq|].
    rewrite pmem_pdel in Hq. apply andb_true_iff in Hq as [_ Hq]. exact Hq.
  - destruct (free s p0 && parent_ok (sL s) p0); [|discriminate]. inversion H; subst. simpl in Hq.
    rewrite pmem_padd in Hq. apply orb_true_iff in Hq as [Hq|Hq]; [|left; exact Hq].
    apply path_eqb_eq in Hq. subst p0. right. exists c. reflexivity.
  - destruct (free s p0 && parent_ok (sL s) p0); [|discriminate]. inversion H; subst. left. exact Hq.
  - destruct (is_file (sL s) p0); [|discriminate]. inversion H; subst. left. exact Hq.
  - destruct (lookup (sR s) p0) as [[|c0]|]; inversion H; subst; left; exact Hq.
  - destruct (pmem p0 (sQ s) && is_file (sR s) p0); inversion H; subst; [|left; exact Hq].
    simpl in Hq. rewrite pmem_pdel in Hq. apply andb_true_iff in Hq as [_ Hq]. left. exact Hq.
  - destruct (is_file (sL s) p0); [|discriminate].
    destruct (pmem p0 (sQ s) && is_file (sR s) p0); inversion H; subst; [|left; exact Hq].
    simpl in Hq. rewrite pmem_pdel in Hq. apply andb_true_iff in Hq as [_ Hq]. left. exact Hq.
Qed.

Lemma Q_history l : forall s s' p,
  srun auto s l = Some s' -> pmem p (sQ s') = true ->
  pmem p (sQ s) = true \/ In (Request p) l \/ (auto p = true /\ exists c, In (RCreate p c) l).
Proof.
  induction l as [|a l IH]; intros s s' p H Hq; simpl in H; [inversion H; subst; left; exact Hq|].
  destruct (sstep auto s a) as [s1|] eqn:Hs; [|discriminate].
  destruct (IH s1 s' p H Hq) as [H1|[H1|[Ha [c H1]]]].
  - destruct (Q_step s a s1 p Hs H1) as [H2|[H2|[Ha [c H2]]]].
    + left. exact H2.
    + right. left. left. exact H2.
    + right. right. split; [exact Ha|]. exists c. left. exact H2.
  - right. left. right. exact H1.
  - right. right. split; [exact Ha|]. exists c. right. exact H1.
Qed.

Lemma B_history l : forall s s' p,
  srun auto s l = Some s' -> pmem p (sB s') = true -> pmem p (sB s) = true \/ exists c, In (LCreate p c) l.
Proof.
  induction l as [|a l IH]; intros s s' p H Hq; simpl in H; [inversion H; subst; left; exact Hq|].
  destruct (sstep auto s a) as [s1|] eqn:Hs; [|discriminate].
  destruct (IH s1 s' p H Hq) as [H1|[c H1]].
  - destruct (B_step s a s1 p Hs H1) as [H2|[c H2]]; [left; exact H2|right; exists c; left; exact H2].
  - right. exists c. right. exact H1.
Qed.

(* trace form: a file is present locally only if the sequence contains a request of its path, or a remote
   creation of it matched by the predicate, or a local creation of it *)
Theorem downloaded_only_if_requested l s p c :
  srun auto sinit l = Some s -> lookup (sL s) p = Some (File c) ->
  In (Request p) l \/ (auto p = true /\ exists c', In (RCreate p c') l) \/ exists c', In (LCreate p c') l.
Proof.
  intros H HL. pose proof (reach_inv l s H) as I.
  destruct (i_just s I p c HL) as [Hq|Hb].
  - destruct (Q_history l sinit s p H Hq) as [H1|[H1|H1]]; [discriminate|left; exact H1|right; left; exact H1].
  - destruct (B_history l sinit s p H Hb) as [H1|H1]; [discriminate|right; right; exact H1].
Qed.

(* ---- 4. once requested a file is downloaded and kept in sync in both directions *)
Theorem requested_kept_in_sync l s p :
  srun auto sinit l = Some s -> pmem p (sQ s) = true ->
  exists c, lookup (sR s) p = Some (File c) /\ lookup (sL s) p = Some (File c).
Proof. intros H. apply (i_req s (reach_inv l s H)). Qed.

Theorem request_downloads s p c s' :
  lookup (sR s) p = Some (File c) -> sstep auto s (Request p) = Some s' ->
  pmem p (sQ s') = true /\ lookup (sL s') p = Some (File c) /\ sR s' = sR s.
Proof.
  intros HR. simpl. rewrite HR. intros H; inversion H; subst; simpl.
  rewrite pmem_padd_same, lookup_set, path_eqb_refl. repeat split; reflexivity.
Qed.

Theorem requested_persists s a s' p :
  sstep auto s a = Some s' -> pmem p (sQ s) = true ->
  a <> Unrequest p -> a <> RDelete p -> (forall c, a <> EditUnrequest p c) -> pmem p (sQ s') = true.
Proof.
  intros H Hq N1 N2 N3.
  assert (Hpd: forall p0, p0 <> p -> pmem p (pdel p0 (sQ s)) = true).
  { intros p0 Hne. rewrite pmem_pdel, Hq, andb_true_r. apply negb_true_iff. apply path_eqb_neq. exact Hne. }
  destruct a as [p0 c|p0|p0 c|p0|p0 c|p0|p0 c|p0|p0|p0 c]; simpl in H.
  - destruct (free s p0 && parent_ok (sR s) p0); [|discriminate].
    destruct (auto p0); inversion H; subst; simpl; [rewrite pmem_padd, Hq; apply orb_true_r|exact Hq].
  - destruct (free s p0 && parent_ok (sR s) p0); [|discriminate]. inversion H; subst. exact Hq.
  - destruct (is_file (sR s) p0); [|discriminate]. inversion H; subst. exact Hq.
  - destruct (lookup (sR s) p0) as [[|c0]|]; [destruct (has_children (sR s) p0); [discriminate|]| |discriminate];
      inversion H; subst; simpl; [exact Hq|]. apply Hpd. congruence.
  - destruct (free s p0 && parent_ok (sL s) p0); [|discriminate]. inversion H; subst. exact Hq.
  - destruct (free s p0 && parent_ok (sL s) p0); [|discriminate]. inversion H; subst. exact Hq.
  - destruct (is_file (sL s) p0); [|discriminate]. inversion H; subst. exact Hq.
  - destruct (lookup (sR s) p0) as [[|c0]|]; inversion H; subst; simpl; try exact Hq.
    rewrite pmem_padd, Hq. apply orb_true_r.
  - destruct (pmem p0 (sQ s) && is_file (sR s) p0); inversion H; subst; simpl; [|exact Hq]. apply Hpd. congruence.
  - destruct (is_file (sL s) p0); [|discriminate].
    destruct (pmem p0 (sQ s) && is_file (sR s) p0); inversion H; subst; simpl; [|exact Hq].
    apply Hpd. intros ->. apply (N3 c). reflexivity.
Qed.

(* both directions, step form: an edit on either side of a requested file is on both sides at the next quiescence *)
Theorem requested_edits_propagate s p c s' :
  sinv s -> pmem p (sQ s) = true ->
  (sstep auto s (REdit p c) = Some s' \/ sstep auto s (LEdit p c) = Some s') ->
  lookup (sR s') p = Some (File c) /\ lookup (sL s') p = Some (File c) /\ pmem p (sQ s') = true.
Proof.
  intros I Hq H. destruct (i_req s I p Hq) as [c0 [HR HL]].
  destruct H as [H|H]; simpl in H; unfold is_file in H; rewrite ?HR, ?HL in H; simpl in H;
    inversion H; subst; simpl; rewrite !lookup_set, path_eqb_refl; repeat split; try reflexivity; exact Hq.
Qed.

(* ---- 5. un-request: the remote tree is unchanged, except for the upload of a newer local edit; only the local
        copy goes; the remote object is never removed *)
Theorem unrequest_keeps_remote s p s' : sstep auto s (Unrequest p) = Some s' -> sR s' = sR s.
Proof. simpl. destruct (pmem p (sQ s) && is_file (sR s) p); intros H; inversion H; reflexivity. Qed.

Theorem edit_unrequest_keeps_remote s p c s' :
  sstep auto s (EditUnrequest p c) = Some s' ->
  sR s' = set (sR s) p (File c) /\ forall q, lookup (sR s) q <> None -> lookup (sR s') q <> None.
Proof.
  simpl. destruct (is_file (sL s) p); [|discriminate].
  assert (G: forall q, lookup (sR s) q <> None -> lookup (set (sR s) p (File c)) q <> None).
  { intros q Hq. rewrite lookup_set. destruct (path_eqb p q); [discriminate|exact Hq]. }
  destruct (pmem p (sQ s) && is_file (sR s) p); intros H; inversion H; subst; simpl; split; try reflexivity; exact G.
Qed.

Theorem unrequest_removes_local_only s p s' :
  sinv s -> pmem p (sQ s) = true -> sstep auto s (Unrequest p) = Some s' ->
  lookup (sL s') p = None /\ (forall q, q <> p -> lookup (sL s') q = lookup (sL s) q) /\
  pmem p (sQ s') = false /\ pmem p (sX s') = true /\ is_file (sR s') p = true.
Proof.
  intros I Hq. destruct (i_req s I p Hq) as [c [HR HL]]. simpl. unfold is_file. rewrite Hq, HR. simpl.
  intros H; inversion H; subst; simpl. rewrite lookup_remove, path_eqb_refl, pmem_pdel_same, pmem_padd_same, HR.
  repeat split; try reflexivity.
  intros q Hne. rewrite lookup_remove. assert (E: path_eqb p q = false) by (apply path_eqb_neq; congruence).
  rewrite E. reflexivity.
Qed.

Lemma remove_set_same t p n : remove (set t p n) p = remove t p.
Proof.
  unfold set, remove. rewrite filter_app. simpl. rewrite path_eqb_refl. simpl. rewrite app_nil_r.
  induction t as [|[k m] t IH]; simpl; [reflexivity|].
  destruct (negb (path_eqb k p)) eqn:E; simpl; [rewrite E, IH; reflexivity|exact IH].
Qed.

(* the compound action is exactly: the local edit (uploaded), then the un-request *)
Theorem edit_unrequest_is_edit_then_unrequest s p c :
  sinv s ->
  sstep auto s (EditUnrequest p c) =
  match sstep auto s (LEdit p c) with Some s1 => sstep auto s1 (Unrequest p) | None => None end.
Proof.
  intros I. simpl. destruct (is_file (sL s) p) eqn:Hf; [|reflexivity]. simpl.
  apply is_file_iff in Hf. destruct Hf as [c0 HL]. pose proof (i_sub s I p c0 HL) as HR.
  unfold is_file. rewrite HR, lookup_set, path_eqb_refl. rewrite !andb_true_r.
  destruct (pmem p (sQ s)); [|reflexivity]. rewrite remove_set_same. reflexivity.
Qed.

(* an un-requested file stays remote-only, predicate or not, until it is requested again *)
Theorem unrequested_stays_remote l s p :
  srun auto sinit l = Some s -> pmem p (sX s) = true ->
  is_file (sR s) p = true /\ lookup (sL s) p = None /\ pmem p (sQ s) = false.
Proof. intros H. apply (i_exc s (reach_inv l s H)). Qed.

(* ---- 6. the merged listing *)
Lemma child_of_spec d : forall p x, child_of d p = Some x <-> p = d ++ [x].
Proof.
  induction d as [|a d IH]; intros p x; simpl.
  - destruct p as [|y [|z p]]; split; intros H; try discriminate; try (inversion H; reflexivity).
  - destruct p as [|b p]; [split; discriminate|].
    destruct (N.eqb a b) eqn:E.
    + apply N.eqb_eq in E. subst b. rewrite IH. split; intros H; [subst; reflexivity|inversion H; reflexivity].
    + split; [discriminate|]. intros H. inversion H; subst. rewrite N.eqb_refl in E. discriminate.
Qed.

Theorem listing_law s d x k :
  NoDup (map fst (sL s)) -> NoDup (map fst (sR s)) ->
  (In {| i_name := x; i_isdir := k; i_synced := true |} (listing s d) <->
   exists n, lookup (sL s) (d ++ [x]) = Some n /\ node_isdir n = k) /\
  (In {| i_name := x; i_isdir := k; i_synced := false |} (listing s d) <->
   exists n, lookup (sR s) (d ++ [x]) = Some n /\ node_isdir n = k /\ lookup (sL s) (d ++ [x]) = None).
Proof.
  intros NL NR. unfold listing. split; rewrite in_app_iff, !in_flat_map; split.
  - intros [[e [He Hit]]|[e [He Hit]]].
    + destruct e as [p n]. simpl in Hit. destruct (child_of d p) as [y|] eqn:Hc; [|destruct Hit].
      destruct Hit as [Hit|[]]. inversion Hit; subst. apply child_of_spec in Hc. subst p.
      exists n. split; [apply In_lookup; assumption|reflexivity].
    + destruct (child_of d (fst e)); [|destruct Hit]. destruct (isnone (lookup (sL s) (fst e))); [|destruct Hit].
      destruct Hit as [Hit|[]]. discriminate.
  - intros [n [Hn Hk]]. left. exists (d ++ [x], n). split; [apply lookup_In; exact Hn|].
    simpl. rewrite (proj2 (child_of_spec d (d ++ [x]) x) eq_refl). left. subst k. reflexivity.
  - intros [[e [He Hit]]|[e [He Hit]]].
    + destruct (child_of d (fst e)); [|destruct Hit]. destruct Hit as [Hit|[]]. discriminate.
    + destruct e as [p n]. simpl in Hit. destruct (child_of d p) as [y|] eqn:Hc; [|destruct Hit].
      destruct (isnone (lookup (sL s) p)) eqn:Hn; [|destruct Hit].
      destruct Hit as [Hit|[]]. inversion Hit; subst. apply child_of_spec in Hc. subst p.
      exists n. split; [apply In_lookup; assumption|]. split; [reflexivity|apply isnone_iff; exact Hn].
  - intros [n [Hn [Hk HL]]]. right. exists (d ++ [x], n). split; [apply lookup_In; exact Hn|].
    simpl. rewrite (proj2 (child_of_spec d (d ++ [x]) x) eq_refl), HL. simpl. left. subst k. reflexivity.
Qed.

(* in every reachable state: every local object is listed as synced, every remote file without a local copy as
   not synced; what is listed as not synced is a file that is not requested; nothing else is listed *)
Theorem listing_law_reachable l s d :
  srun auto sinit l = Some s ->
  (forall x n, lookup (sL s) (d ++ [x]) = Some n ->
               In {| i_name := x; i_isdir := node_isdir n; i_synced := true |} (listing s d)) /\
  (forall x c, lookup (sR s) (d ++ [x]) = Some (File c) -> lookup (sL s) (d ++ [x]) = None ->
               In {| i_name := x; i_isdir := false; i_synced := false |} (listing s d)) /\
  (forall it, In it (listing s d) ->
              if i_synced it then exists n, lookup (sL s) (d ++ [i_name it]) = Some n /\ node_isdir n = i_isdir it
              else i_isdir it = false /\ is_file (sR s) (d ++ [i_name it]) = true /\
                   lookup (sL s) (d ++ [i_name it]) = None /\ pmem (d ++ [i_name it]) (sQ s) = false).
Proof.
  intros H. pose proof (reach_inv l s H) as I.
  pose proof (fun x k => listing_law s d x k (i_ndL s I) (i_ndR s I)) as LL.
  split; [|split].
  - intros x n Hn. apply (proj1 (LL x (node_isdir n))). exists n. split; [exact Hn|reflexivity].
  - intros x c HR HL. apply (proj2 (LL x false)). exists (File c). repeat split; assumption.
  - intros [x k [|]] Hit; simpl.
    + apply (proj1 (LL x k)). exact Hit.
    + apply (proj2 (LL x k)) in Hit. destruct Hit as [n [HR [Hk HL]]].
      destruct n as [|c].
      * apply (i_dirs s I) in HR. congruence.
      * simpl in Hk. subst k. split; [reflexivity|]. split; [unfold is_file; rewrite HR; reflexivity|].
        split; [exact HL|]. destruct (pmem (d ++ [x]) (sQ s)) eqn:Hq; [|reflexivity].
        destruct (i_req s I _ Hq) as [c1 [_ H1]]. congruence.
Qed.
End Laws.
