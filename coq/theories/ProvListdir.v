(* ProvListdir.v — in a state satisfying INV (ProvWf.v), listdir of a live folder returns exactly the
   live objects whose parent path is that folder, each once. *)
From Coq Require Import NArith List Bool Lia Arith.
From CS Require Import Sx Str PathLaws ProvModel ProvProofs ProvWf.
Import ListNotations.

Lemma live_oid_inj s q1 q2 x1 x2 : S_inv s -> W_inv s ->
  nth_error (p_heap s) q1 = Some x1 -> o_exists x1 = true ->
  nth_error (p_heap s) q2 = Some x2 -> o_exists x2 = true -> o_oid x1 = o_oid x2 -> q1 = q2.
Proof.
  intros HS HW H1 L1 H2 L2 E.
  pose proof (get_live_oid s q1 x1 HS HW H1 L1) as G1. pose proof (get_live_oid s q2 x2 HS HW H2 L2) as G2.
  rewrite E in G1. congruence.
Qed.

Lemma children_oids_nodup s P refs : S_inv s -> W_inv s -> NoDup refs ->
  NoDup (map i_oid (flat_map (fun r => match nth_error (p_heap s) r with
                                       | Some x => if o_exists x && is_child (p_cfg s) P (o_path x) then [info_of x] else []
                                       | None => []
                                       end) refs)).
Proof.
  intros HS HW. induction refs as [|q t IH]; intros Hn; simpl; [constructor|].
  inversion Hn as [|? ? Hq Ht]; subst. rewrite map_app. specialize (IH Ht).
  destruct (nth_error (p_heap s) q) as [x|] eqn:Hx; [|exact IH].
  destruct (o_exists x && is_child (p_cfg s) P (o_path x)) eqn:B; [|exact IH].
  apply andb_true_iff in B as [B1 B2]. simpl. constructor; [|exact IH].
  intros Hin. apply in_map_iff in Hin as [i [Hi Hin]]. apply in_flat_map in Hin as [q' [Hq' Hin]].
  destruct (nth_error (p_heap s) q') as [x'|] eqn:Hx'; [|destruct Hin].
  destruct (o_exists x' && is_child (p_cfg s) P (o_path x')) eqn:B'; [|destruct Hin].
  apply andb_true_iff in B' as [B1' B2']. destruct Hin as [<-|[]]. simpl in Hi.
  assert (q' = q) by (eapply live_oid_inj; eassumption). subst q'. contradiction.
Qed.

Theorem listdir_exact_wf s k l : INV s -> listdir s k = Ok l ->
  exists r o, get_live s k = Some (r, o) /\ o_kind o = KDir /\
    (forall i, In i l <-> exists q x, nth_error (p_heap s) q = Some x /\ o_exists x = true /\
                                      is_child (p_cfg s) (o_path o) (o_path x) = true /\ i = info_of x) /\
    NoDup (map i_oid l) /\ NoDup l.
Proof.
  intros [HS HW] H. destruct (listdir_spec s k l H) as [r [o [G [K Hl]]]].
  exists r, o. split; [exact G|]. split; [exact K|].
  assert (ND : NoDup (map i_oid l)).
  { unfold listdir in H. rewrite G, K in H. inversion H. unfold children.
    apply children_oids_nodup; auto. apply INV_fs_refs_nodup. exact HS. }
  split; [|split; [exact ND|eapply NoDup_map_inv; exact ND]].
  intros i. rewrite Hl. split.
  - intros [q [x [_ [A [B [C D]]]]]]. exists q, x. auto.
  - intros [q [x [A [B [C D]]]]]. exists q, x. split; [eapply live_in_fs_refs; eassumption|auto].
Qed.
