(* EventStamps.v — change stamps: nothing but mark_changed moves the clock; an event makes its entry due for a re-read. *)
From Coq Require Import NArith List Bool Arith Lia.
From CS Require Import Sx Str PathModel PathLaws StateModel StateProofs StatePathProofs EventModel EventProofs EventLaws.
Import ListNotations.

(* ---------------------------------------------------------------- I. change stamps and the re-read *)
Definition clock (s : state) : N * N := (now s, lastch s).
Lemma clock_raw_side s e sd f : clock (raw_side s e sd f) = clock s.
Proof. unfold raw_side. destruct (nth_error (ents s) e); reflexivity. Qed.
Lemma clock_st_oids s sd v : clock (st_oids s sd v) = clock s. Proof. destruct sd; reflexivity. Qed.
Lemma clock_st_paths s sd v : clock (st_paths s sd v) = clock s. Proof. destruct sd; reflexivity. Qed.
Lemma clock_slot_set s sd p o e : clock (slot_set s sd p o e) = clock s. Proof. unfold slot_set. apply clock_st_paths. Qed.
Lemma clock_slot_pop s sd p k : clock (slot_pop s sd p k) = clock s.
Proof.
  unfold slot_pop. destruct (al_get p (paths s sd)) as [d|]; [|reflexivity].
  destruct (match k with Some k0 => al_del k0 d | None => d end); apply clock_st_paths.
Qed.

Ltac binv H :=
  match type of H with
  | bind ?r _ = Ok _ => let x := fresh "x" in let E := fresh "E" in destruct r as [x|] eqn:E; cbn [bind] in H; [|discriminate]
  end.

Lemma kid_step_clock E rec e sd pp p sub s s' :
  (forall c a b, rec c a = Ok b -> clock b = clock a) -> kid_step E rec e sd pp p sub s = Ok s' -> clock s' = clock s.
Proof.
  intros Hrec H. unfold kid_step in H. binv H.
  destruct (s_path (gs x sd)) as [sp|]; [|injection H as <-; reflexivity].
  destruct (tstr (Some sp)); [|injection H as <-; reflexivity].
  destruct (is_subpath (cvs E sd) pp sp true) as [|[|c0 rel0]]; try (injection H as <-; reflexivity).
  destruct (negb (legacy E) && Nat.eqb sub e)%bool; [injection H as <-; reflexivity|].
  cbv zeta in H. binv H.
  assert (H5: clock x0 = clock s).
  { destruct (oip E sd); [|injection E1 as <-; reflexivity].
    destruct (info E sd (join (cvs E sd) [p; c0 :: rel0])); [|injection E1 as <-; reflexivity].
    apply (Hrec _ _ _ E1). }
  binv H. assert (H6: clock x1 = clock s) by (rewrite (Hrec _ _ _ E2); exact H5).
  binv H.
  destruct (s_spath (gs x2 sd)) as [sy|]; [|injection H as <-; exact H6].
  destruct (tstr (Some sy)); [|injection H as <-; exact H6].
  destruct (is_subpath (cvs E sd) pp sy false) as [|[|c1 r1]]; try (injection H as <-; exact H6).
  injection H as <-. rewrite clock_raw_side. exact H6.
Qed.
Lemma kids_loop_clock E rec e sd pp p : forall l s s',
  (forall c a b, rec c a = Ok b -> clock b = clock a) -> kids_loop E rec e sd pp p l s = Ok s' -> clock s' = clock s.
Proof.
  induction l as [|sub r IH]; intros s s' Hrec H; simpl in H; [injection H as <-; reflexivity|].
  binv H. rewrite (IH _ _ Hrec H). eapply kid_step_clock; eassumption.
Qed.

Lemma clock_dirty_add s e : clock (dirty_add s e) = clock s. Proof. reflexivity. Qed.
Lemma clock_cs_add s e : clock (cs_add s e) = clock s. Proof. reflexivity. Qed.
Lemma clock_cs_del s e : clock (cs_del s e) = clock s. Proof. reflexivity. Qed.
Lemma oid_finish_clock fin e sd v s1 s' : oid_finish fin e sd v s1 = Ok s' -> clock s' = clock s1.
Proof.
  unfold oid_finish. intros H. binv H. injection H as <-.
  destruct fin; rewrite ?clock_raw_side, clock_dirty_add; destruct v as [o|].
  all: try (destruct (tchg (s_chg (gs x sd)) || tchg (s_chg (gs x (negb sd))))%bool; rewrite ?clock_cs_add;
            destruct (s_path (gs x sd)) as [[|c p]|]; cbn [tstr]; rewrite ?clock_slot_set, ?clock_st_oids, ?clock_raw_side; reflexivity).
  all: destruct (tchg (s_chg (gs x sd)) && negb (tchg (s_chg (gs x (negb sd)))))%bool; rewrite ?clock_cs_del; reflexivity.
Qed.

Lemma exec_clock E f : forall c s s', exec E f c s = Ok s' -> clock s' = clock s.
Proof.
  induction f as [|f IH]; intros c s s' H; [discriminate|].
  destruct c as [fin e sd v|fin e sd v|fin e sd v|e v].
  - (* CPath *)
    rewrite exec_path_eq in H. bind_inv H. cbv zeta in H.
    destruct (tstr v && negb (tstr (s_oid (gs x sd))))%bool; [discriminate|].
    bind_inv H. injection H as <-.
    assert (Hm: clock x0 = clock s).
    { unfold path_main in E1. destruct (ostr_eqb (s_path (gs x sd)) v); [injection E1 as <-; reflexivity|].
      set (sa := match s_path (gs x sd) with
                 | Some pp => if tstr (s_path (gs x sd)) then slot_pop s sd pp (s_oid (gs x sd)) else s
                 | None => s end) in *.
      assert (Hsa: clock sa = clock s) by (unfold sa; destruct (s_path (gs x sd)) as [pp|]; [destruct (tstr (Some pp)); [apply clock_slot_pop|]|]; reflexivity).
      destruct v as [p|]; [|injection E1 as <-; exact Hsa].
      destruct (s_oid (gs x sd)) as [o|]; [|injection E1 as <-; exact Hsa].
      destruct (tstr (Some p)); [|injection E1 as <-; exact Hsa].
      bind_inv E1.
      assert (Hsb: clock x1 = clock s).
      { destruct (slot_get sa sd p o) as [e'|]; [|injection E2 as <-; exact Hsa].
        destruct (Nat.eqb e' e); [discriminate|]. injection E2 as <-. rewrite clock_raw_side. exact Hsa. }
      bind_inv E1.
      assert (Hsc: clock x2 = clock s).
      { set (sc := raw_side (slot_set x1 sd p o e) e sd (fun y => w_path y (Some p))) in *.
        assert (Hc: clock sc = clock s) by (unfold sc; rewrite clock_raw_side, clock_slot_set; exact Hsb).
        match type of E3 with (if ?c then _ else _) = _ => destruct c end; [|injection E3 as <-; exact Hc].
        destruct (s_path (gs x sd)) as [pp|]; [|injection E3 as <-; exact Hc].
        bind_inv E3. destruct x3 as [order s0].
        assert (H0: clock s0 = clock s).
        { unfold get_all_ordered in E4. bind_inv E4. destruct x3 as [l0 sx]. unfold pop_order in E5.
          destruct (tape sc) as [|[b|l1] r]; try discriminate. injection E5 as <- <-.
          destruct (_ && _)%bool; [|discriminate]. injection E4 as <- <-. exact Hc. }
        rewrite (kids_loop_clock _ _ _ _ _ _ _ _ _ (IH) E3). exact H0. }
      rewrite (IH _ _ _ E1). exact Hsc. }
    destruct fin; [rewrite clock_raw_side|]; exact Hm.
  - (* COid *)
    rewrite exec_oid_eq in H. bind_inv H. bind_inv H.
    assert (Hstep: forall r sa sb, oid_step (exec E f) e sd r sa = Ok sb -> clock sb = clock sa).
    { intros r sa sb Hs. unfold oid_step in Hs. destruct r as [ro|]; [|injection Hs as <-; reflexivity].
      destruct (al_get ro (oids sa sd)) as [pe|]; [|injection Hs as <-; reflexivity].
      bind_inv Hs.
      set (s2 := match s_path (gs x1 sd) with
                 | Some pp => if tstr (Some pp) then slot_pop (st_oids sa sd (al_del ro (oids sa sd))) sd pp (Some ro) else st_oids sa sd (al_del ro (oids sa sd))
                 | None => st_oids sa sd (al_del ro (oids sa sd)) end) in *.
      assert (H2: clock s2 = clock sa) by (unfold s2; destruct (s_path (gs x1 sd)) as [pp|]; [destruct (tstr (Some pp)); [rewrite clock_slot_pop|]|]; apply clock_st_oids).
      destruct (Nat.eqb pe e); [injection Hs as <-; exact H2|]. rewrite (IH _ _ _ Hs). exact H2. }
    assert (H1: clock x0 = clock s).
    { unfold oid_loop in E1. destruct (ostr_eqb (s_oid (gs x sd)) v); [apply (Hstep _ _ _ E1)|].
      bind_inv E1. destruct x1 as [sw s0]. unfold pop_swap in E2. destruct (tape s) as [|[b|l] r]; try discriminate. injection E2 as <- <-.
      destruct b; bind_inv E1; rewrite (Hstep _ _ _ E1), (Hstep _ _ _ E2); reflexivity. }
    rewrite (oid_finish_clock _ _ _ _ _ _ H). exact H1.
  - (* CChg *)
    rewrite exec_chg_eq in H. bind_inv H. cbv zeta in H. bind_inv H. injection H as <-.
    assert (H1: clock x0 = clock s).
    { destruct (_ || _)%bool; [injection E1 as <-; reflexivity|].
      destruct (_ && _)%bool; [|injection E1 as <-; reflexivity].
      destruct (legacy E); [rewrite (IH _ _ _ E1); reflexivity|injection E1 as <-; rewrite clock_raw_side; reflexivity]. }
    destruct fin; [rewrite clock_raw_side|]; exact H1.
  - (* CPrio *)
    rewrite exec_prio_eq in H. bind_inv H. destruct (N.eqb (e_prio x) v); [injection H as <-; reflexivity|].
    bind_inv H.
    assert (H1: clock x0 = clock s).
    { destruct (_ && _)%bool; [|injection E1 as <-; reflexivity].
      bind_inv E1. assert (Ha: clock x1 = clock s) by (destruct (tchg (s_chg (e_l x))); [apply (IH _ _ _ E2)|injection E2 as <-; reflexivity]).
      bind_inv E1. destruct (tchg (s_chg (e_r x2))); [rewrite (IH _ _ _ E1); exact Ha|injection E1 as <-; exact Ha]. }
    cbv zeta in H. match type of H with match ?X with _ => _ end = _ => destruct X end; [|discriminate]. injection H as <-. exact H1.
Qed.

Lemma run_cmd_clock E c s s' : run_cmd E c s = Ok s' -> clock s' = clock s.
Proof. apply exec_clock. Qed.
Lemma set_plain_clock s e sd f s' : set_plain s e sd f = Ok s' -> clock s' = clock s.
Proof. unfold set_plain. intros H. binv H. injection H as <-. rewrite clock_raw_side. reflexivity. Qed.
Lemma clock_lastch s s' : clock s' = clock s -> lastch s' = lastch s.
Proof. unfold clock. intros H. injection H as _ H. exact H. Qed.

Lemma set_changed_result E s e sd v s' en' : set_changed E s e sd v = Ok s' -> nth_error (ents s') e = Some en' -> s_chg (gs en' sd) = v.
Proof.
  unfold set_changed, run_cmd. rewrite fuel_S, exec_chg_eq. intros H Hn. binv H. cbv zeta in H. binv H. injection H as <-.
  rewrite ents_raw_side in Hn. destruct (nth_error (ents (dirty_add x0 e)) e) as [en2|] eqn:E2.
  - rewrite (nth_upd_eq _ _ _ _ E2) in Hn. injection Hn as <-. rewrite gs_ss_same. reflexivity.
  - rewrite E2 in Hn. discriminate.
Qed.

Lemma mark_changed_stamp E s e sd s' : mark_changed E s e sd = Ok s' ->
  exists en' n, nth_error (ents s') e = Some en' /\ s_chg (gs en' sd) = CNum n /\ lastch s' = n /\ N.lt (lastch s) n.
Proof.
  unfold mark_changed. intros H. binv H. binv H. binv H. apply get_ent_ok in E2.
  destruct (s_chg (gs x1 sd)) as [| |n] eqn:Ec; try discriminate. injection H as <-.
  exists x1, n. split; [exact E2|]. split; [exact Ec|]. split; [reflexivity|].
  pose proof (clock_lastch _ _ (run_cmd_clock _ _ _ _ E0)) as L1. cbn [lastch st_now] in L1.
  destruct (N.leb (now s + 1000) (lastch x)) eqn:El.
  - rewrite (set_changed_result _ _ _ _ _ _ _ E1 E2) in Ec. injection Ec as <-. rewrite L1. lia.
  - injection E1 as <-. rewrite (set_changed_result _ _ _ _ _ _ _ E0 E2) in Ec. injection Ec as <-.
    apply N.leb_gt in El. rewrite L1 in El. exact El.
Qed.

(* update_entry = some writes that do not touch the clock, then mark_changed *)
Lemma update_entry_pre E s e sd oid path h ex ot s1 :
  oip E sd = false -> update_entry E s e sd oid path h ex true ot = Ok s1 ->
  exists s5, lastch s5 = lastch s /\ mark_changed E s5 e sd = Ok s1.
Proof.
  intros Hoip H. unfold update_entry in H. binv H. binv H. destruct x0 as [sa ea].
  assert (Ha: lastch sa = lastch s /\ ea = e).
  { destruct oid as [o|]; [|injection E1 as <- <-; split; reflexivity].
    rewrite Hoip, andb_false_r in E1. cbn [andb] in E1. binv E1. injection E1 as <- <-.
    split; [apply clock_lastch; apply (run_cmd_clock _ _ _ _ E2)|reflexivity]. }
  destruct Ha as [La ->]. binv H. binv H.
  assert (Lb: lastch x1 = lastch s).
  { destruct ot as [t|]; [|injection E3 as <-; exact La].
    destruct (otype_eqb t (s_otype (gs x0 sd))); [injection E3 as <-; exact La|].
    rewrite (clock_lastch _ _ (set_plain_clock _ _ _ _ _ E3)). exact La. }
  match type of H with (if ?c then _ else _) = _ => destruct c end; [discriminate|].
  binv H.
  assert (Lc: lastch x2 = lastch s).
  { destruct path as [p|]; [|injection E4 as <-; exact Lb]. binv E4.
    destruct (ostr_eqb _ _); [injection E4 as <-; exact Lb|].
    rewrite (clock_lastch _ _ (run_cmd_clock _ _ _ _ E4)). exact Lb. }
  binv H. binv H.
  assert (Ld: lastch x4 = lastch s).
  { destruct h as [hv|]; [|injection E6 as <-; exact Lc].
    destruct (oN_eqb _ _); [injection E6 as <-; exact Lc|].
    rewrite (clock_lastch _ _ (set_plain_clock _ _ _ _ _ E6)). exact Lc. }
  binv H.
  assert (Le: lastch x5 = lastch s).
  { destruct (s_ex (gs x3 sd)); try (rewrite (clock_lastch _ _ (set_plain_clock _ _ _ _ _ E7)); exact Ld).
    destruct ex as [[|]|]; rewrite (clock_lastch _ _ (set_plain_clock _ _ _ _ _ E7)); exact Ld. }
  binv H. destruct (_ || _)%bool; [|discriminate].
  exists x5. split; [exact Le|exact H].
Qed.

Lemma update_stamp E s sd ot (o : str) path h ex s1 :
  oip E sd = false -> update E s sd ot (Some o) path h ex None = Ok s1 ->
  exists en' n, nth_error (ents s1) (upd_target s sd o) = Some en' /\ s_chg (gs en' sd) = CNum n /\ lastch s1 = n /\ N.lt (lastch s) n.
Proof.
  intros Hoip H. unfold update in H. cbn [tstr andb bind] in H. cbv beta iota zeta in H. unfold lookup_oid in H.
  unfold upd_target. destruct (al_get o (oids s sd)) as [e|]; cbn [bind] in H.
  - destruct (update_entry_pre _ _ _ _ _ _ _ _ _ _ Hoip H) as [s5 [L5 M]].
    destruct (mark_changed_stamp _ _ _ _ _ M) as [en' [n [A [B [C D]]]]]. exists en', n. rewrite L5 in D. auto.
  - destruct ot as [t|]; [|discriminate]. cbn [bind] in H. cbv beta iota zeta in H.
    destruct (update_entry_pre _ _ _ _ _ _ _ _ _ _ Hoip H) as [s5 [L5 M]].
    destruct (mark_changed_stamp _ _ _ _ _ M) as [en' [n [A [B [C D]]]]]. exists en', n. rewrite L5 in D. auto.
Qed.

(* an event leaves its entry due for a re-read on BOTH sides, provided no _last_gotten is ahead of the last change
   stamp (true of every state reached without a priority punt; see the refutation for the unconditional statement) *)
Definition gotten_bounded (es : estate) : Prop := forall e sd, N.le (g_get (gotten es) e sd) (lastch (st es)).

Lemma g_get_pad g n e sd : g_get (g_pad g n) e sd = g_get g e sd.
Proof.
  unfold g_get, g_pad. destruct (Nat.lt_ge_cases e (length g)) as [Hl|Hl].
  - rewrite nth_error_app1 by exact Hl. reflexivity.
  - rewrite nth_error_app2 by exact Hl. rewrite (proj2 (nth_error_None g e) Hl).
    destruct (nth_error (repeat (0%N, 0%N) (n - length g)) (e - length g)) as [[a b]|] eqn:En; [|reflexivity].
    apply nth_error_In, repeat_spec in En. injection En as -> ->. destruct sd; reflexivity.
Qed.

Theorem event_forces_reread_thm E es sd ot (o : str) path h ex s1 :
  oip E sd = false -> gotten_bounded es ->
  update E (st es) sd ot (Some o) path h ex None = Ok s1 ->
  forall sd', is_latest_side (mkES s1 (g_pad (gotten es) (length (ents s1)))) (upd_target (st es) sd o) sd' = false.
Proof.
  intros Hoip Hb H sd'. destruct (update_stamp _ _ _ _ _ _ _ _ _ Hoip H) as [en' [n [A [B [C D]]]]].
  unfold is_latest_side. cbn [st gotten]. rewrite A, g_get_pad. apply N.leb_gt.
  pose proof (Hb (upd_target (st es) sd o) sd') as Hg.
  assert (Hmax: N.le n (N.max (nchg (s_chg (e_l en'))) (nchg (s_chg (e_r en'))))).
  { destruct sd; cbn [gs] in B; rewrite B; cbn [nchg]; lia. }
  lia.
Qed.
