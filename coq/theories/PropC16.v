(* PropC16.v — property theorems for C16 (offline providers honour the provider contract). *)
From Coq Require Import NArith List Bool.
From CS Require Import Sx Str ProvModel ProvProofs.
Import ListNotations.

Theorem C16_path_eqb_eq : forall a b, path_eqb a b = true <-> a = b.
Proof. exact path_eqb_eq. Qed.
Print Assumptions C16_path_eqb_eq.
