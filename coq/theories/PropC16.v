(* PropC16.v — property theorems for C16 (offline providers honour the provider contract).
   All statements are about ProvModel.v, the model tied to MockProvider by harness/checks/c16.py. *)
From Coq Require Import NArith List Bool.
From CS Require Import Sx Str ProvModel ProvProofs ProvBounded.
Import ListNotations.

(* ---- object ids: for EVERY call sequence and every flavour, heap cell r (one MockFSObject) has
   oid = KId r for id-style (so it never changes, whatever is renamed) and oid = its path for path-style *)
Theorem C16_oid_invariant : forall c ops r x,
  nth_error (p_heap (fst (run_ops (init c) ops))) r = Some x ->
  o_oid x = if c_oidpath (p_cfg (fst (run_ops (init c) ops))) then KPath (o_path x) else KId (N.of_nat r).
Proof. exact (fun c ops => oid_inv_all c ops). Qed.
Print Assumptions C16_oid_invariant.

Theorem C16_cfg_constant : forall s o, p_cfg (fst (step s o)) = p_cfg s.
Proof. exact cfg_step. Qed.
Print Assumptions C16_cfg_constant.

(* ---- info / exists / hash_oid / download / listdir agree *)
Theorem C16_info_exists_agree : forall s,
  (forall p, (exists i, info_path s p = Some i) <-> exists_path s p = true) /\
  (forall k, (exists i, info_oid s k = Some i) <-> exists_oid s k = true) /\
  (forall p i, info_path s p = Some i -> info_oid s (pkey s p) = Some i) /\
  (forall k, hash_oid s k = match info_oid s k with Some i => i_data i | None => None end) /\
  (forall k d, download s k = Ok d <-> exists i, info_oid s k = Some i /\ i_data i = Some d).
Proof.
  exact (fun s => conj (info_exists_path s) (conj (info_exists_oid s) (conj (info_path_oid s)
          (conj (hash_oid_info s) (download_info s))))).
Qed.
Print Assumptions C16_info_exists_agree.

(* listdir of a live folder = exactly the live objects filed under a path key whose path is a child *)
Theorem C16_listdir_exact : forall s k l, listdir s k = Ok l ->
  exists r o, get_live s k = Some (r, o) /\ o_kind o = KDir /\
  forall i, In i l <-> exists q x, In q (fs_refs s) /\ nth_error (p_heap s) q = Some x /\
                                   o_exists x = true /\ is_child (p_cfg s) (o_path o) (o_path x) = true /\ i = info_of x.
Proof. exact listdir_spec. Qed.
Print Assumptions C16_listdir_exact.

(* ---- error classes: which precondition gives which error; failing calls leave the state alone *)
Theorem C16_error_create : forall s p d,
  (has_forbidden (p_cfg s) p = true -> create s p d = (s, Err ENameError)) /\
  (forall i, has_forbidden (p_cfg s) p = false -> info_path s p = Some i -> create s p d = (s, Err EExists)) /\
  (forall e, has_forbidden (p_cfg s) p = false -> info_path s p = None -> verify_parent s p = Some e ->
             create s p d = (s, Err e)).
Proof. exact (fun s p d => conj (create_name_error s p d) (conj (create_exists s p d) (create_parent_error s p d))). Qed.
Print Assumptions C16_error_create.

Theorem C16_error_parent : forall s p a b,
  (info_path s (removelast (a :: b :: p)) = None -> verify_parent s (a :: b :: p) = Some ENotFound) /\
  (forall i, info_path s (removelast (a :: b :: p)) = Some i -> i_kind i = KFile ->
             verify_parent s (a :: b :: p) = Some EExists).
Proof. exact (fun s p a b => conj (verify_parent_missing s p a b) (verify_parent_file s p a b)). Qed.
Print Assumptions C16_error_parent.

Theorem C16_error_mkdir : forall s p,
  (forall e, verify_parent s p = Some e -> mkdir s p = (s, Err e)) /\
  (forall i, verify_parent s p = None -> has_forbidden (p_cfg s) p = false -> info_path s p = Some i ->
             i_kind i = KFile -> mkdir s p = (s, Err EExists)) /\
  (forall i, verify_parent s p = None -> has_forbidden (p_cfg s) p = false -> info_path s p = Some i ->
             i_kind i = KDir -> mkdir s p = (s, Ok (i_oid i))).
Proof. exact (fun s p => conj (mkdir_parent_error s p) (conj (mkdir_over_file s p) (mkdir_existing_folder s p))). Qed.
Print Assumptions C16_error_mkdir.

Theorem C16_error_missing_oid : forall s k, get_live s k = None ->
  delete s k = (s, Ok tt) /\ (forall d, upload s k d = (s, Err ENotFound)) /\ download s k = Err ENotFound /\
  listdir s k = Err ENotFound /\ (forall p, rename s k p = (s, Err ENotFound)) /\ info_oid s k = None.
Proof.
  exact (fun s k H => conj (delete_missing s k H) (conj (fun d => upload_missing s k d H) (conj (download_missing s k H)
          (conj (listdir_missing s k H) (conj (fun p => rename_missing s k p H)
          (info_oid_missing s k H)))))).
Qed.
Print Assumptions C16_error_missing_oid.

Theorem C16_error_delete_not_empty : forall s k r o i l, get_live s k = Some (r, o) -> o_kind o = KDir ->
  listdir s (o_oid o) = Ok (i :: l) -> delete s k = (s, Err ENotEmpty) /\ err_class ENotEmpty = CExists.
Proof. exact (fun s k r o i l H1 H2 H3 => conj (delete_not_empty s k r o i l H1 H2 H3) eq_refl). Qed.
Print Assumptions C16_error_delete_not_empty.

Theorem C16_error_upload_folder : forall s k d r o, get_live s k = Some (r, o) -> o_kind o = KDir ->
  upload s k d = (s, Err EExists).
Proof. exact upload_folder. Qed.
Print Assumptions C16_error_upload_folder.

Theorem C16_error_rename : forall s k p r o, get_live s k = Some (r, o) ->
  (forall e, verify_parent s p = Some e -> rename s k p = (s, Err e)) /\
  (forall x, verify_parent s p = None -> conflict_at s k p = Some x -> okind_eqb (o_kind x) (o_kind o) = false ->
             rename s k p = (s, Err EExists)) /\
  (forall x, verify_parent s p = None -> conflict_at s k p = Some x -> o_kind x = KFile -> o_kind o = KFile ->
             rename s k p = (s, Err EExists)) /\
  (forall x i l, verify_parent s p = None -> conflict_at s k p = Some x -> o_kind x = KDir -> o_kind o = KDir ->
             listdir s (o_oid x) = Ok (i :: l) -> rename s k p = (s, Err ENotEmpty)).
Proof.
  exact (fun s k p r o H => conj (fun e => rename_parent_error s k p r o e H)
          (conj (fun x => rename_conflict_kind s k p r o x H)
          (conj (fun x => rename_over_file s k p r o x H) (fun x i l => rename_over_nonempty s k p r o x i l H)))).
Qed.
Print Assumptions C16_error_rename.

(* ---- hash law, for an arbitrary hash function H on content tokens *)
Theorem C16_hash_law : forall (hash : Type) (H : N -> hash) s k i d,
  info_oid s k = Some i -> download s k = Ok d ->
  info_hash hash H i = Some (H d) /\ option_map H (hash_oid s k) = Some (H d).
Proof. exact (fun hash H s k i d A B => conj (hash_law hash H s k i d A B) (hash_oid_law hash H s k d B)). Qed.
Print Assumptions C16_hash_law.

Theorem C16_hash_equal_iff_bytes_equal : forall (hash : Type) (H : N -> hash),
  (forall a b, H a = H b -> a = b) ->
  forall s1 s2 k1 k2 i1 i2 d1 d2,
  info_oid s1 k1 = Some i1 -> download s1 k1 = Ok d1 -> info_oid s2 k2 = Some i2 -> download s2 k2 = Ok d2 ->
  (info_hash hash H i1 = info_hash hash H i2 <-> d1 = d2).
Proof. exact hash_eq_iff. Qed.
Print Assumptions C16_hash_equal_iff_bytes_equal.

(* ---- events *)
Theorem C16_events_log_append_only : forall s o,
  p_log (fst (step s o)) = p_log s ++ skipn (length (p_log s)) (p_log (fst (step s o))).
Proof. exact reported_events. Qed.
Print Assumptions C16_events_log_append_only.

Theorem C16_events_cursor : forall s, p_cursor s <= length (p_log s) ->
  snd (read_events s) = skipn (p_cursor s) (p_log s) /\
  p_cursor (fst (read_events s)) = length (p_log s) /\
  p_log (fst (read_events s)) = p_log s /\
  firstn (p_cursor s) (p_log s) ++ snd (read_events s) = p_log s /\
  snd (read_events (fst (read_events s))) = [].
Proof. exact read_events_spec. Qed.
Print Assumptions C16_events_cursor.

Theorem C16_events_complete_create : forall s p d s' i, create s p d = (s', Ok i) ->
  exists e, p_log s' = p_log s ++ [e] /\ e_kind e = EvCreate /\ e_oid e = i_oid i /\ e_path e = p /\
            i_path i = p /\ e_exists e = true /\ i_data i = Some d.
Proof. exact create_event. Qed.
Print Assumptions C16_events_complete_create.

Theorem C16_events_complete_mkdir : forall s p s' k, mkdir s p = (s', Ok k) ->
  (s' = s /\ exists i, info_path s p = Some i /\ i_kind i = KDir /\ i_oid i = k) \/
  exists e, p_log s' = p_log s ++ [e] /\ e_kind e = EvCreate /\ e_oid e = k /\ e_path e = p /\ e_exists e = true.
Proof. exact mkdir_event. Qed.
Print Assumptions C16_events_complete_mkdir.

Theorem C16_events_complete_upload : forall s k d s' i, upload s k d = (s', Ok i) ->
  exists e, p_log s' = p_log s ++ [e] /\ e_kind e = EvUpdate /\ e_oid e = i_oid i /\ e_exists e = true /\
            i_data i = Some d.
Proof. exact upload_event. Qed.
Print Assumptions C16_events_complete_upload.

Theorem C16_events_complete_delete : forall s k s', delete s k = (s', Ok tt) ->
  (s' = s /\ get_live s k = None) \/
  exists r o e, get_live s k = Some (r, o) /\ p_log s' = p_log s ++ [e] /\ e_kind e = EvDelete /\
                e_oid e = o_oid o /\ e_exists e = false /\
                nth_error (p_heap s') r = Some (set_exists o false).
Proof. exact delete_event. Qed.
Print Assumptions C16_events_complete_delete.

Theorem C16_events_complete_rename : forall s k p s' k', rename s k p = (s', Ok k') ->
  (k' = k /\ (p_log s' = p_log s \/ exists e, p_log s' = p_log s ++ [e] /\ e_kind e = EvDelete /\ e_exists e = false)) \/
  exists l e r o', p_log s' = p_log s ++ l ++ [e] /\ length l <= 1 /\
                   e_kind e = EvRename /\ e_oid e = k' /\ e_path e = p /\ e_exists e = o_exists o' /\
                   nth_error (p_heap s') r = Some o' /\ o_oid o' = k' /\ o_path o' = p.
Proof. exact rename_event. Qed.
Print Assumptions C16_events_complete_rename.

(* ---- connect: credentials of another identity are refused, the provider ends up disconnected and
   stays bound to its identity *)
Theorem C16_connect_identity : forall ident c creds i, cn_id c = Some i -> ident creds <> i ->
  snd (connect ident c (Some creds)) = CRToken /\ connected (fst (connect ident c (Some creds))) = false /\
  cn_id (fst (connect ident c (Some creds))) = Some i.
Proof. exact connect_refuses_other_identity. Qed.
Print Assumptions C16_connect_identity.

Theorem C16_connect_same_identity : forall ident c creds i, cn_id c = Some i -> ident creds = i ->
  snd (connect ident c (Some creds)) = CROk /\ connected (fst (connect ident c (Some creds))) = true.
Proof. exact connect_accepts_same_identity. Qed.
Print Assumptions C16_connect_same_identity.

Theorem C16_connect_identity_sticks : forall ident c o i, cn_id c = Some i -> (forall j, o <> CSetId j) ->
  cn_id (fst (cstep ident c o)) = Some i.
Proof. exact identity_sticks. Qed.
Print Assumptions C16_connect_identity_sticks.

(* ---- well-formedness of the tree *)
Definition n_a : name := [97%N].   Definition n_A : name := [65%N].   Definition n_b : name := [98%N].
Definition cfg_of (oidpath cs : bool) : cfg := {| c_oidpath := oidpath; c_cs := cs; c_forbidden := [] |}.

(* full strength, every call sequence: false — a folder can be renamed into itself, which orphans it *)
Definition wf_every_sequence_full : Prop :=
  forall c ops, wfb (fst (run_ops (init c) ops)) = true.
Theorem C16_prov_wf_refuted : ~ wf_every_sequence_full.
Proof.
  intros H. specialize (H (cfg_of false true) [OMkdir [n_a]; ORename (KId 1%N) [n_a; n_b]]).
  vm_compute in H. discriminate.
Qed.
Print Assumptions C16_prov_wf_refuted.

(* restricted to the calls an engine makes (clean_run), every flavour: still false — with
   oid_is_path and case-insensitive, one create of a name with an upper-case letter is enough *)
Definition wf_clean_sequence_full : Prop :=
  forall c ops, clean_run (init c) ops = true -> wfb (fst (run_ops (init c) ops)) = true.
Theorem C16_prov_wf_clean_refuted : ~ wf_clean_sequence_full.
Proof.
  intros H. specialize (H (cfg_of true false) [OCreate [n_A] 1%N] eq_refl).
  vm_compute in H. discriminate.
Qed.
Print Assumptions C16_prov_wf_clean_refuted.

(* what is proved about wf: for the three flavours other than (oid_is_path, case-insensitive), EVERY clean
   sequence of at most 3 calls over the alphabet ProvBounded.balpha (create/mkdir/rename/delete/upload on
   the paths /a /A /b /a/b and the first three oids) ends in a well-formed state.  The bound is part of the
   statement; beyond it wf is only monitored (the check evaluates wfb after every call of every explored
   clean sequence).  Missing: an inductive proof that clean calls preserve wf (folder renames move dead
   dictionary entries too, which makes the invariant large). *)
Theorem C16_prov_wf_partial : forall c ops, In c bcfgs -> In ops (seqs (balpha c) 3) ->
  clean_run (init c) ops = true -> wfb (fst (run_ops (init c) ops)) = true.
Proof. exact wf_bounded. Qed.
Print Assumptions C16_prov_wf_partial.

Example wf_partial_nonvacuous :
  In [OMkdir [bn_a]; OCreate [bn_a; bn_b] 1%N; ORename (KId 1%N) [bn_b]] (seqs (balpha (bcfg false true)) 3) /\
  clean_run (init (bcfg false true)) [OMkdir [bn_a]; OCreate [bn_a; bn_b] 1%N; ORename (KId 1%N) [bn_b]] = true.
Proof.
  split; [|vm_compute; reflexivity].
  repeat (apply in_seqs_cons; [vm_compute; tauto|]). apply in_seqs_nil.
Qed.

Example wf_init_all_flavours :
  forallb (fun c => wfb (init c)) [cfg_of false true; cfg_of false false; cfg_of true true; cfg_of true false] = true.
Proof. vm_compute. reflexivity. Qed.

(* non-vacuity: a clean sequence with nested folders, a folder move and a case-only rename keeps wf *)
Example wf_clean_example :
  let ops := [OMkdir [n_a]; OCreate [n_a; n_b] 7%N; OMkdir [n_b]; ORename (KId 1%N) [n_b; n_A];
              ORename (KId 2%N) [n_b; n_A; n_A]; ODelete (KId 2%N)] in
  clean_run (init (cfg_of false false)) ops = true /\ wfb (fst (run_ops (init (cfg_of false false)) ops)) = true.
Proof. vm_compute. auto. Qed.
