(* PropC16.v — property theorems for C16 (offline providers honour the provider contract).
   All statements are about ProvModel.v, the model tied to MockProvider by harness/checks/c16.py. *)
From Coq Require Import NArith List Bool.
From CS Require Import Sx Str ProvModel ProvProofs ProvBounded ProvWf ProvMove ProvRename ProvSubtree ProvListdir ProvSpecified.
Import ListNotations.

(* ---- object ids: for EVERY call sequence and every flavour, heap cell r (one MockFSObject) has
   oid = KId r for id-style (so it never changes, whatever is renamed) and oid = its path for path-style *)
Theorem C16_oid_invariant : forall c ops r x,
  nth_error (p_heap (fst (run_ops (init c) ops))) r = Some x ->
  o_oid x = if c_oidpath (p_cfg (fst (run_ops (init c) ops))) then KPath (o_path x) else KId (N.of_nat r).
Proof. exact (fun c ops => oid_inv_all c ops). Qed.
Print Assumptions C16_oid_invariant.

Theorem C16_cfg_constant : forall s o, p_cfg (fst (step s o)) = p_cfg s.
Proof. exact cfg_step. Qed.
Print Assumptions C16_cfg_constant.

(* ---- info / exists / hash_oid / download / listdir agree *)
Theorem C16_info_exists_agree : forall s,
  (forall p, (exists i, info_path s p = Some i) <-> exists_path s p = true) /\
  (forall k, (exists i, info_oid s k = Some i) <-> exists_oid s k = true) /\
  (forall p i, info_path s p = Some i -> info_oid s (pkey s p) = Some i) /\
  (forall k, hash_oid s k = match info_oid s k with Some i => i_data i | None => None end) /\
  (forall k d, download s k = Ok d <-> exists i, info_oid s k = Some i /\ i_data i = Some d).
Proof.
  exact (fun s => conj (info_exists_path s) (conj (info_exists_oid s) (conj (info_path_oid s)
          (conj (hash_oid_info s) (download_info s))))).
Qed.
Print Assumptions C16_info_exists_agree.

(* listdir of a live folder = exactly the live objects filed under a path key whose path is a child *)
Theorem C16_listdir_exact : forall s k l, listdir s k = Ok l ->
  exists r o, get_live s k = Some (r, o) /\ o_kind o = KDir /\
  forall i, In i l <-> exists q x, In q (fs_refs s) /\ nth_error (p_heap s) q = Some x /\
                                   o_exists x = true /\ is_child (p_cfg s) (o_path o) (o_path x) = true /\ i = info_of x.
Proof. exact listdir_spec. Qed.
Print Assumptions C16_listdir_exact.

(* ---- error classes: which precondition gives which error; failing calls leave the state alone *)
Theorem C16_error_create : forall s p d,
  (has_forbidden (p_cfg s) p = true -> create s p d = (s, Err ENameError)) /\
  (forall i, has_forbidden (p_cfg s) p = false -> info_path s p = Some i -> create s p d = (s, Err EExists)) /\
  (forall e, has_forbidden (p_cfg s) p = false -> info_path s p = None -> verify_parent s p = Some e ->
             create s p d = (s, Err e)).
Proof. exact (fun s p d => conj (create_name_error s p d) (conj (create_exists s p d) (create_parent_error s p d))). Qed.
Print Assumptions C16_error_create.

Theorem C16_error_parent : forall s p a b,
  (info_path s (removelast (a :: b :: p)) = None -> verify_parent s (a :: b :: p) = Some ENotFound) /\
  (forall i, info_path s (removelast (a :: b :: p)) = Some i -> i_kind i = KFile ->
             verify_parent s (a :: b :: p) = Some EExists).
Proof. exact (fun s p a b => conj (verify_parent_missing s p a b) (verify_parent_file s p a b)). Qed.
Print Assumptions C16_error_parent.

Theorem C16_error_mkdir : forall s p,
  (forall e, verify_parent s p = Some e -> mkdir s p = (s, Err e)) /\
  (forall i, verify_parent s p = None -> has_forbidden (p_cfg s) p = false -> info_path s p = Some i ->
             i_kind i = KFile -> mkdir s p = (s, Err EExists)) /\
  (forall i, verify_parent s p = None -> has_forbidden (p_cfg s) p = false -> info_path s p = Some i ->
             i_kind i = KDir -> mkdir s p = (s, Ok (i_oid i))).
Proof. exact (fun s p => conj (mkdir_parent_error s p) (conj (mkdir_over_file s p) (mkdir_existing_folder s p))). Qed.
Print Assumptions C16_error_mkdir.

Theorem C16_error_missing_oid : forall s k, get_live s k = None ->
  delete s k = (s, Ok tt) /\ (forall d, upload s k d = (s, Err ENotFound)) /\ download s k = Err ENotFound /\
  listdir s k = Err ENotFound /\ (forall p, rename s k p = (s, Err ENotFound)) /\ info_oid s k = None.
Proof.
  exact (fun s k H => conj (delete_missing s k H) (conj (fun d => upload_missing s k d H) (conj (download_missing s k H)
          (conj (listdir_missing s k H) (conj (fun p => rename_missing s k p H)
          (info_oid_missing s k H)))))).
Qed.
Print Assumptions C16_error_missing_oid.

Theorem C16_error_delete_not_empty : forall s k r o i l, get_live s k = Some (r, o) -> o_kind o = KDir ->
  listdir s (o_oid o) = Ok (i :: l) -> delete s k = (s, Err ENotEmpty) /\ err_class ENotEmpty = CExists.
Proof. exact (fun s k r o i l H1 H2 H3 => conj (delete_not_empty s k r o i l H1 H2 H3) eq_refl). Qed.
Print Assumptions C16_error_delete_not_empty.

Theorem C16_error_upload_folder : forall s k d r o, get_live s k = Some (r, o) -> o_kind o = KDir ->
  upload s k d = (s, Err EExists).
Proof. exact upload_folder. Qed.
Print Assumptions C16_error_upload_folder.

Theorem C16_error_rename : forall s k p r o, get_live s k = Some (r, o) ->
  (forall e, verify_parent s p = Some e -> rename s k p = (s, Err e)) /\
  (forall x, verify_parent s p = None -> conflict_at s k p = Some x -> okind_eqb (o_kind x) (o_kind o) = false ->
             rename s k p = (s, Err EExists)) /\
  (forall x, verify_parent s p = None -> conflict_at s k p = Some x -> o_kind x = KFile -> o_kind o = KFile ->
             rename s k p = (s, Err EExists)) /\
  (forall x i l, verify_parent s p = None -> conflict_at s k p = Some x -> o_kind x = KDir -> o_kind o = KDir ->
             listdir s (o_oid x) = Ok (i :: l) -> rename s k p = (s, Err ENotEmpty)).
Proof.
  exact (fun s k p r o H => conj (fun e => rename_parent_error s k p r o e H)
          (conj (fun x => rename_conflict_kind s k p r o x H)
          (conj (fun x => rename_over_file s k p r o x H) (fun x i l => rename_over_nonempty s k p r o x i l H)))).
Qed.
Print Assumptions C16_error_rename.

(* ---- hash law, for an arbitrary hash function H on content tokens *)
Theorem C16_hash_law : forall (hash : Type) (H : N -> hash) s k i d,
  info_oid s k = Some i -> download s k = Ok d ->
  info_hash hash H i = Some (H d) /\ option_map H (hash_oid s k) = Some (H d).
Proof. exact (fun hash H s k i d A B => conj (hash_law hash H s k i d A B) (hash_oid_law hash H s k d B)). Qed.
Print Assumptions C16_hash_law.

Theorem C16_hash_equal_iff_bytes_equal : forall (hash : Type) (H : N -> hash),
  (forall a b, H a = H b -> a = b) ->
  forall s1 s2 k1 k2 i1 i2 d1 d2,
  info_oid s1 k1 = Some i1 -> download s1 k1 = Ok d1 -> info_oid s2 k2 = Some i2 -> download s2 k2 = Ok d2 ->
  (info_hash hash H i1 = info_hash hash H i2 <-> d1 = d2).
Proof. exact hash_eq_iff. Qed.
Print Assumptions C16_hash_equal_iff_bytes_equal.

(* ---- events *)
Theorem C16_events_log_append_only : forall s o,
  p_log (fst (step s o)) = p_log s ++ skipn (length (p_log s)) (p_log (fst (step s o))).
Proof. exact reported_events. Qed.
Print Assumptions C16_events_log_append_only.

Theorem C16_events_cursor : forall s, p_cursor s <= length (p_log s) ->
  snd (read_events s) = skipn (p_cursor s) (p_log s) /\
  p_cursor (fst (read_events s)) = length (p_log s) /\
  p_log (fst (read_events s)) = p_log s /\
  firstn (p_cursor s) (p_log s) ++ snd (read_events s) = p_log s /\
  snd (read_events (fst (read_events s))) = [].
Proof. exact read_events_spec. Qed.
Print Assumptions C16_events_cursor.

Theorem C16_events_complete_create : forall s p d s' i, create s p d = (s', Ok i) ->
  exists e, p_log s' = p_log s ++ [e] /\ e_kind e = EvCreate /\ e_oid e = i_oid i /\ e_path e = p /\
            i_path i = p /\ e_exists e = true /\ i_data i = Some d.
Proof. exact create_event. Qed.
Print Assumptions C16_events_complete_create.

Theorem C16_events_complete_mkdir : forall s p s' k, mkdir s p = (s', Ok k) ->
  (s' = s /\ exists i, info_path s p = Some i /\ i_kind i = KDir /\ i_oid i = k) \/
  exists e, p_log s' = p_log s ++ [e] /\ e_kind e = EvCreate /\ e_oid e = k /\ e_path e = p /\ e_exists e = true.
Proof. exact mkdir_event. Qed.
Print Assumptions C16_events_complete_mkdir.

Theorem C16_events_complete_upload : forall s k d s' i, upload s k d = (s', Ok i) ->
  exists e, p_log s' = p_log s ++ [e] /\ e_kind e = EvUpdate /\ e_oid e = i_oid i /\ e_exists e = true /\
            i_data i = Some d.
Proof. exact upload_event. Qed.
Print Assumptions C16_events_complete_upload.

Theorem C16_events_complete_delete : forall s k s', delete s k = (s', Ok tt) ->
  (s' = s /\ get_live s k = None) \/
  exists r o e, get_live s k = Some (r, o) /\ p_log s' = p_log s ++ [e] /\ e_kind e = EvDelete /\
                e_oid e = o_oid o /\ e_exists e = false /\
                nth_error (p_heap s') r = Some (set_exists o false).
Proof. exact delete_event. Qed.
Print Assumptions C16_events_complete_delete.

Theorem C16_events_complete_rename : forall s k p s' k', rename s k p = (s', Ok k') ->
  (k' = k /\ (p_log s' = p_log s \/ exists e, p_log s' = p_log s ++ [e] /\ e_kind e = EvDelete /\ e_exists e = false)) \/
  exists l e r o', p_log s' = p_log s ++ l ++ [e] /\ length l <= 1 /\
                   e_kind e = EvRename /\ e_oid e = k' /\ e_path e = p /\ e_exists e = o_exists o' /\
                   nth_error (p_heap s') r = Some o' /\ o_oid o' = k' /\ o_path o' = p.
Proof. exact rename_event. Qed.
Print Assumptions C16_events_complete_rename.

(* ---- connect: credentials of another identity are refused, the provider ends up disconnected and
   stays bound to its identity *)
Theorem C16_connect_identity : forall ident c creds i, cn_id c = Some i -> ident creds <> i ->
  snd (connect ident c (Some creds)) = CRToken /\ connected (fst (connect ident c (Some creds))) = false /\
  cn_id (fst (connect ident c (Some creds))) = Some i.
Proof. exact connect_refuses_other_identity. Qed.
Print Assumptions C16_connect_identity.

Theorem C16_connect_same_identity : forall ident c creds i, cn_id c = Some i -> ident creds = i ->
  snd (connect ident c (Some creds)) = CROk /\ connected (fst (connect ident c (Some creds))) = true.
Proof. exact connect_accepts_same_identity. Qed.
Print Assumptions C16_connect_same_identity.

Theorem C16_connect_identity_sticks : forall ident c o i, cn_id c = Some i -> (forall j, o <> CSetId j) ->
  cn_id (fst (cstep ident c o)) = Some i.
Proof. exact identity_sticks. Qed.
Print Assumptions C16_connect_identity_sticks.

(* ---- well-formedness of the tree (wfb: the root is a live folder; every live object is filed under
   its own normalised path and under its oid, has the oid its flavour prescribes and a live FOLDER as
   parent — so files are leaves —; no live object is listed twice).

   HEADLINE: wfb holds in every state reachable by a call sequence of ANY length that satisfies the
   guard guard_op (ProvModel.v), in every flavour with sane_cfg.  The guard is a decidable predicate on
   the call and the state it meets, and has three parts, each one a defect class of the mock and each
   one shown necessary below:
     (G1) flavour: not (oid_is_path and case-insensitive)                              [finding C16-F4]
     (G2) no rename whose target lies strictly inside the renamed object's own subtree [finding C16-F5]
     (G3) the root folder is not removed: no delete of the root, "/" is no rename target [finding C16-F7]
   Nothing is asked of the keys: a path string used as an oid (C16-F6) is allowed. *)
Definition n_a : name := [97%N].   Definition n_A : name := [65%N].   Definition n_b : name := [98%N].
Definition n_c : name := [99%N].
Definition cfg_of (oidpath cs : bool) : cfg := {| c_oidpath := oidpath; c_cs := cs; c_forbidden := [] |}.

Theorem C16_wf_reachable_guarded : forall c ops,
  sane_cfg c = true -> guarded_run (init c) ops = true -> wfb (fst (run_ops (init c) ops)) = true.
Proof. exact wf_reachable_guarded. Qed.
Print Assumptions C16_wf_reachable_guarded.

(* the invariant behind it (ProvWf.v), and its two halves: the dictionary structure S_inv needs no guard *)
Theorem C16_inv_reachable_guarded : forall c ops,
  sane_cfg c = true -> guarded_run (init c) ops = true -> INV (fst (run_ops (init c) ops)).
Proof. exact INV_reachable_guarded. Qed.
Print Assumptions C16_inv_reachable_guarded.

Theorem C16_inv_step_guarded : forall s o, INV s -> guard_op s o = true -> INV (fst (step s o)).
Proof. exact INV_step. Qed.
Print Assumptions C16_inv_step_guarded.

Theorem C16_inv_wf : forall s, INV s -> wfb s = true.
Proof. exact INV_wfb. Qed.
Print Assumptions C16_inv_wf.

Theorem C16_structure_every_sequence : forall c ops, sane_cfg c = true -> S_inv (fst (run_ops (init c) ops)).
Proof. exact S_run. Qed.
Print Assumptions C16_structure_every_sequence.

(* the calls an engine makes (clean_run: additionally genuine oids, see ProvModel.clean_op) are guarded *)
Theorem C16_wf_reachable_clean : forall c ops,
  sane_cfg c = true -> clean_run (init c) ops = true -> wfb (fst (run_ops (init c) ops)) = true.
Proof. exact wf_reachable_clean. Qed.
Print Assumptions C16_wf_reachable_clean.

(* ---- rename moves the subtree, and nothing else.  For a successful guarded rename of the live object
   o (found under key k, at path old) to the different path p, in a state satisfying INV:
   the oid returned is o's (id-style) or the new path (path-style);
   (1) for EVERY relative path rel, the object that was found at old ++ rel is found at p ++ rel: the same
       heap cell, with the same kind, contents and existence, the same oid (id-style) or oid = new path
       (path-style), and the path p ++ <its own display suffix> (mv);
   (2) the old paths old ++ rel are free (unless only the case of the name changed: np old = np p);
   (3) every live object outside the subtree, except an empty folder that was at p, is found unchanged
       under its path;
   (4) every live object found afterwards is one of (1) or (3). *)
Theorem C16_rename_moves_subtree : forall s k p s' k' r o,
  INV s -> guard_op s (ORename k p) = true ->
  get_live s k = Some (r, o) -> rename s k p = (s', Ok k') -> path_eqb (o_path o) p = false ->
  let c := p_cfg s in let old := o_path o in
  p_cfg s' = c /\
  k' = (if c_oidpath c then KPath p else o_oid o) /\
  (forall rel q x, get_live s (pkey s (old ++ rel)) = Some (q, x) ->
     get_live s' (pkey s' (p ++ rel)) = Some (q, mv c old p x)) /\
  (np c old <> np c p -> forall rel, get_live s' (pkey s' (old ++ rel)) = None) /\
  (forall P q y, get_live s (pkey s P) = Some (q, y) -> ~ at_under c old P -> np c P <> np c p ->
     get_live s' (pkey s' P) = Some (q, y)) /\
  (forall P q y', get_live s' (pkey s' P) = Some (q, y') ->
     (exists rel x, np c P = np c (p ++ rel) /\ get_live s (pkey s (old ++ rel)) = Some (q, x) /\
                    y' = mv c old p x) \/
     (get_live s (pkey s P) = Some (q, y') /\ ~ at_under c old P)).
Proof. exact rename_moves_subtree. Qed.
Print Assumptions C16_rename_moves_subtree.

(* what mv keeps and what it sets *)
Theorem C16_moved_cell : forall c old p x,
  o_kind (mv c old p x) = o_kind x /\ o_data (mv c old p x) = o_data x /\ o_exists (mv c old p x) = o_exists x /\
  o_path (mv c old p x) = p ++ skipn (length old) (o_path x) /\
  o_oid (mv c old p x) = (if c_oidpath c then KPath (p ++ skipn (length old) (o_path x)) else o_oid x).
Proof. exact (fun c old p x => conj eq_refl (conj eq_refl (conj eq_refl (conj eq_refl eq_refl)))). Qed.
Print Assumptions C16_moved_cell.

(* ---- listdir from well-formedness: exactly the live objects whose parent path is the folder, each once *)
Theorem C16_listdir_exact_wf : forall s k l, INV s -> listdir s k = Ok l ->
  exists r o, get_live s k = Some (r, o) /\ o_kind o = KDir /\
    (forall i, In i l <-> exists q x, nth_error (p_heap s) q = Some x /\ o_exists x = true /\
                                      is_child (p_cfg s) (o_path o) (o_path x) = true /\ i = info_of x) /\
    NoDup (map i_oid l) /\ NoDup l.
Proof. exact listdir_exact_wf. Qed.
Print Assumptions C16_listdir_exact_wf.

(* ---- the loop of MockProvider.rename runs over a Python set; where its result would depend on the
   iteration order the model answers EUnspecified (ProvModel.move_specified).  From a state satisfying
   INV a guarded call never meets that case (nor the "" path, nor a vanished heap cell): for guarded
   sequences the model is a total description of the mock *)
Theorem C16_guarded_never_unspecified : forall s o, INV s -> guard_op s o = true ->
  snd (step s o) <> Err EUnspecified.
Proof. exact step_specified. Qed.
Print Assumptions C16_guarded_never_unspecified.

(* ---- the unguarded statements are false of the faithful model; each part of the guard is necessary *)
(* full strength, every call sequence: false — a folder can be renamed into itself, which orphans it *)
Definition wf_every_sequence_full : Prop :=
  forall c ops, wfb (fst (run_ops (init c) ops)) = true.
Theorem C16_prov_wf_refuted : ~ wf_every_sequence_full.
Proof.
  intros H. specialize (H (cfg_of false true) [OMkdir [n_a]; ORename (KId 1%N) [n_a; n_b]]).
  vm_compute in H. discriminate.
Qed.
Print Assumptions C16_prov_wf_refuted.

(* restricted to the calls an engine makes (clean_run), every flavour: still false — with
   oid_is_path and case-insensitive, one create of a name with an upper-case letter is enough *)
Definition wf_clean_sequence_full : Prop :=
  forall c ops, clean_run (init c) ops = true -> wfb (fst (run_ops (init c) ops)) = true.
Theorem C16_prov_wf_clean_refuted : ~ wf_clean_sequence_full.
Proof.
  intros H. specialize (H (cfg_of true false) [OCreate [n_A] 1%N] eq_refl).
  vm_compute in H. discriminate.
Qed.
Print Assumptions C16_prov_wf_clean_refuted.

(* (G1) dropped: the guarded statement for every flavour — same witness (C16-F4) *)
Definition wf_guarded_every_flavour_full : Prop :=
  forall c ops, guarded_run (init c) ops = true -> wfb (fst (run_ops (init c) ops)) = true.
Theorem C16_wf_guard_flavour_needed : ~ wf_guarded_every_flavour_full.
Proof.
  intros H. specialize (H (cfg_of true false) [OCreate [n_A] 1%N] eq_refl).
  vm_compute in H. discriminate.
Qed.
Print Assumptions C16_wf_guard_flavour_needed.

(* (G2) dropped: only the root clauses of the guard — mkdir /a; rename /a -> /a/b (C16-F5) *)
Definition guard_root_only (s : prov) (o : op) : bool :=
  match o with
  | ORename _ p => nonroot p
  | ODelete k => match get_live s k with Some (_, x) => nonroot (o_path x) | None => true end
  | _ => true
  end.
Fixpoint run_guarded_by (g : prov -> op -> bool) (s : prov) (ops : list op) : bool :=
  match ops with
  | [] => true
  | o :: t => g s o && run_guarded_by g (fst (step s o)) t
  end.
Definition wf_root_guard_only_full : Prop :=
  forall c ops, sane_cfg c = true -> run_guarded_by guard_root_only (init c) ops = true ->
                wfb (fst (run_ops (init c) ops)) = true.
Theorem C16_wf_guard_subtree_needed : ~ wf_root_guard_only_full.
Proof.
  intros H. specialize (H (cfg_of false true) [OMkdir [n_a]; ORename (KId 1%N) [n_a; n_b]] eq_refl eq_refl).
  vm_compute in H. discriminate.
Qed.
Print Assumptions C16_wf_guard_subtree_needed.

(* (G3) dropped: only the subtree clause of the guard — delete of the (empty) root succeeds and leaves
   a tree without root, below which objects can still be created (C16-F7) *)
Definition guard_subtree_only (s : prov) (o : op) : bool :=
  match o with
  | ORename k p => match get_live s k with
                   | Some (_, x) => negb (is_under (p_cfg s) (o_path x) p)
                   | None => true
                   end
  | _ => true
  end.
Definition wf_subtree_guard_only_full : Prop :=
  forall c ops, sane_cfg c = true -> run_guarded_by guard_subtree_only (init c) ops = true ->
                wfb (fst (run_ops (init c) ops)) = true.
Theorem C16_prov_wf_root_removed_refuted : ~ wf_subtree_guard_only_full.
Proof.
  intros H. specialize (H (cfg_of false true) [ODelete (KId 0%N); OCreate [n_a] 1%N] eq_refl eq_refl).
  vm_compute in H. discriminate.
Qed.
Print Assumptions C16_prov_wf_root_removed_refuted.

(* the earlier, bounded statement (ProvBounded.v) — still true, now a special case of
   C16_wf_reachable_clean: the three sane flavours, every clean sequence of at most 3 calls over the
   alphabet ProvBounded.balpha, by vm_compute *)
Theorem C16_prov_wf_partial : forall c ops, In c bcfgs -> In ops (seqs (balpha c) 3) ->
  clean_run (init c) ops = true -> wfb (fst (run_ops (init c) ops)) = true.
Proof. exact wf_bounded. Qed.
Print Assumptions C16_prov_wf_partial.

(* ---- non-vacuity *)
Example wf_partial_nonvacuous :
  In [OMkdir [bn_a]; OCreate [bn_a; bn_b] 1%N; ORename (KId 1%N) [bn_b]] (seqs (balpha (bcfg false true)) 3) /\
  clean_run (init (bcfg false true)) [OMkdir [bn_a]; OCreate [bn_a; bn_b] 1%N; ORename (KId 1%N) [bn_b]] = true.
Proof.
  split; [|vm_compute; reflexivity].
  repeat (apply in_seqs_cons; [vm_compute; tauto|]). apply in_seqs_nil.
Qed.

Example wf_init_all_flavours :
  forallb (fun c => wfb (init c)) [cfg_of false true; cfg_of false false; cfg_of true true; cfg_of true false] = true.
Proof. vm_compute. reflexivity. Qed.

Example sane_flavours : map sane_cfg [cfg_of false true; cfg_of false false; cfg_of true true; cfg_of true false]
                        = [true; true; true; false].
Proof. reflexivity. Qed.

(* a clean sequence with nested folders, a folder move and a case-only rename keeps wf *)
Example wf_clean_example :
  let ops := [OMkdir [n_a]; OCreate [n_a; n_b] 7%N; OMkdir [n_b]; ORename (KId 1%N) [n_b; n_A];
              ORename (KId 2%N) [n_b; n_A; n_A]; ODelete (KId 2%N)] in
  clean_run (init (cfg_of false false)) ops = true /\ wfb (fst (run_ops (init (cfg_of false false)) ops)) = true.
Proof. vm_compute. auto. Qed.

(* a guarded sequence that is not clean (a path string used as oid, a dead oid, a rename over an empty
   folder, a folder moved with a dead entry below it), nine calls, in each sane flavour: the guard holds *)
Example guarded_not_clean_example :
  let ops := [OMkdir [n_a]; OCreate [n_a; n_b] 7%N; OMkdir [n_c]; ODelete (KPath [n_a; n_b]);
              OCreate [n_a; n_A] 3%N; ORename (KPath [n_a]) [n_c]; ODelete (KId 2%N);
              ORename (KPath [n_c; n_A]) [n_b]; OUpload (KPath [n_b]) 9%N] in
  forallb (fun c => guarded_run (init c) ops && negb (clean_run (init c) ops))
          [cfg_of false true; cfg_of false false; cfg_of true true] = true.
Proof. vm_compute. reflexivity. Qed.

(* the hypotheses of C16_rename_moves_subtree are satisfiable: a folder with a file and a sub-folder
   is moved into another folder (both id styles); the call is guarded, succeeds and is no no-op *)
Example rename_moves_subtree_nonvacuous :
  forallb (fun oidpath =>
    let c := cfg_of oidpath true in
    let s := fst (run_ops (init c) [OMkdir [n_a]; OCreate [n_a; n_b] 7%N; OMkdir [n_a; n_c]; OMkdir [n_b]]) in
    let k := if oidpath then KPath [n_a] else KId 1%N in
    guarded_run (init c) [OMkdir [n_a]; OCreate [n_a; n_b] 7%N; OMkdir [n_a; n_c]; OMkdir [n_b]]
    && guard_op s (ORename k [n_b; n_a])
    && match get_live s k with Some (_, o) => negb (path_eqb (o_path o) [n_b; n_a]) | None => false end
    && match rename s k [n_b; n_a] with
       | (s', Ok _) => exists_path s' [n_b; n_a; n_b] && exists_path s' [n_b; n_a; n_c]
                       && negb (exists_path s' [n_a; n_b]) && negb (exists_path s' [n_a])
       | _ => false
       end) [false; true] = true.
Proof. vm_compute. reflexivity. Qed.
