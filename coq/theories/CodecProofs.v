(* CodecProofs.v — C08: proofs about the codec of CodecModel.v. *)
From Coq Require Import NArith ZArith List Bool Lia.
From CS Require Import Sx Str CodecModel.
Import ListNotations.
Local Open Scope N_scope.

(* ---------------------------------------------------------------- induction on values *)
Section MpInd.
  Variable P : mp -> Prop.
  Hypothesis HNil : P MNil.
  Hypothesis HBool : forall b, P (MBool b).
  Hypothesis HInt : forall z, P (MInt z).
  Hypothesis HFloat : forall t, P (MFloat t).
  Hypothesis HStr : forall s, P (MStr s).
  Hypothesis HBin : forall s, P (MBin s).
  Hypothesis HTup : forall l, Forall P l -> P (MTup l).
  Hypothesis HList : forall l, Forall P l -> P (MList l).
  Hypothesis HMap : forall kvs, Forall (fun kv => P (fst kv) /\ P (snd kv)) kvs -> P (MMap kvs).

  Fixpoint mp_induct (v : mp) : P v :=
    match v with
    | MNil => HNil
    | MBool b => HBool b
    | MInt z => HInt z
    | MFloat t => HFloat t
    | MStr s => HStr s
    | MBin s => HBin s
    | MTup l =>
      HTup l ((fix go (l : list mp) : Forall P l :=
                 match l with
                 | [] => Forall_nil _
                 | x :: r => Forall_cons x (mp_induct x) (go r)
                 end) l)
    | MList l =>
      HList l ((fix go (l : list mp) : Forall P l :=
                  match l with
                  | [] => Forall_nil _
                  | x :: r => Forall_cons x (mp_induct x) (go r)
                  end) l)
    | MMap kvs =>
      HMap kvs ((fix go (l : list (mp * mp)) : Forall (fun kv => P (fst kv) /\ P (snd kv)) l :=
                   match l with
                   | [] => Forall_nil _
                   | kv :: r =>
                     Forall_cons kv
                       (match kv as kv0 return P (fst kv0) /\ P (snd kv0) with
                        | (k, x) => conj (mp_induct k) (mp_induct x)
                        end) (go r)
                   end) kvs)
    end.
End MpInd.

Lemma map_id_forall : forall {T} (f : T -> T) (l : list T),
  Forall (fun x => f x = x) l -> map f l = l.
Proof.
  intros T f l H. induction H as [|x r Hx Hr IH]; simpl; [reflexivity|]. now rewrite Hx, IH.
Qed.

(* a value without lists is unchanged by the wire *)
Lemma listfree_tuplify : forall v, listfree v = true -> tuplify v = v.
Proof.
  induction v as [| | | | | |l IH|l IH|kvs IH] using mp_induct; simpl; intros H; try reflexivity.
  - f_equal. apply map_id_forall. rewrite forallb_forall in H. rewrite Forall_forall in *.
    intros x Hx. apply IH; [exact Hx|]. now apply H.
  - discriminate.
  - f_equal. apply map_id_forall. rewrite forallb_forall in H. rewrite Forall_forall in *.
    intros [k x] Hx. specialize (IH _ Hx). specialize (H _ Hx). simpl in *.
    apply andb_true_iff in H. destruct H as [Hk Hv]. destruct IH as [IHk IHv].
    now rewrite IHk, IHv.
Qed.

Lemma truthy_tuplify : forall v, truthy (tuplify v) = truthy v.
Proof. destruct v as [| | | | | |l|l|l]; simpl; try reflexivity; now destruct l. Qed.

Lemma is_nil_tuplify : forall v, is_nil (tuplify v) = is_nil v.
Proof. now destruct v. Qed.

Lemma mtime_ok_tuplify : forall v, mtime_ok (tuplify v) = mtime_ok v.
Proof. now destruct v. Qed.

Lemma tuplify_idem : forall v, tuplify (tuplify v) = tuplify v.
Proof.
  induction v as [| | | | | |l IH|l IH|kvs IH] using mp_induct; simpl; try reflexivity.
  - f_equal. rewrite map_map. apply map_ext_in. rewrite Forall_forall in IH. exact IH.
  - f_equal. rewrite map_map. apply map_ext_in. rewrite Forall_forall in IH. exact IH.
  - f_equal. rewrite map_map. apply map_ext_in. rewrite Forall_forall in IH.
    intros [k x] Hx. destruct (IH _ Hx) as [Hk Hv]. simpl in *. now rewrite Hk, Hv.
Qed.

Lemma mp_eqb_refl : forall v, mp_eqb v v = true.
Proof.
  induction v as [| |z|t|s|s|l IH|l IH|kvs IH] using mp_induct; simpl; try reflexivity.
  - now destruct b.
  - apply Z.eqb_refl.
  - apply N.eqb_refl.
  - induction s as [|c r IHs]; simpl; [reflexivity|]. now rewrite N.eqb_refl.
  - induction s as [|c r IHs]; simpl; [reflexivity|]. now rewrite N.eqb_refl.
  - induction IH as [|x r Hx Hr IHr]; [reflexivity|]. now rewrite Hx, IHr.
  - induction IH as [|x r Hx Hr IHr]; [reflexivity|]. now rewrite Hx, IHr.
  - induction IH as [|[k x] r [Hk Hx] Hr IHr]; [reflexivity|]. simpl in *. now rewrite Hk, Hx, IHr.
Qed.

(* ---------------------------------------------------------------- enums *)
Lemma otype_parse : forall o, parse_otype (MStr (otype_val o)) = Some o.
Proof. now destruct o. Qed.
Lemma exists_parse : forall x, parse_exists (MStr (exi_val x)) = Some x.
Proof. now destruct x. Qed.
Lemma saved_parse : forall o,
  parse_saved (match o with None => MNil | Some x => MStr (exi_val x) end) = o.
Proof. destruct o as [x|]; [now destruct x | reflexivity]. Qed.

(* ---------------------------------------------------------------- one side *)
Definition tup_side (s : side) : side :=
  mkSide (s_otype s) (tuplify (s_side s)) (tuplify (s_hash s)) (tuplify (s_changed s))
         (tuplify (s_sync_hash s)) (tuplify (s_sync_path s)) (tuplify (s_path s)) (tuplify (s_oid s))
         (s_exists s) (tuplify (s_temp_file s)) (tuplify (s_size s)) (tuplify (s_mtime s))
         (s_saved s) (s_force_sync s) (s_last_gotten s).
Definition strip_side (s : side) : side :=
  mkSide (s_otype s) (s_side s) (s_hash s) (s_changed s) (s_sync_hash s) (s_sync_path s) (s_path s)
         (s_oid s) (s_exists s) (s_temp_file s) (s_size s) (s_mtime s) (s_saved s) false (MFloat 0).

Lemma norm_side_eq : forall s, norm_side s = strip_side (tup_side s).
Proof. reflexivity. Qed.

Lemma tuplify_ser_side : forall s, tuplify (ser_side s) = ser_side (tup_side s).
Proof.
  intros s. unfold ser_side, side_kvs, KV. cbn [tuplify map tup_side s_otype s_side s_hash s_changed
    s_sync_hash s_sync_path s_path s_oid s_exists s_temp_file s_size s_mtime s_saved].
  now destruct (s_saved s).
Qed.

Lemma deser_ser_side : forall s,
  deser_side (ser_side s) = if mtime_ok (s_mtime s) then Some (strip_side s) else None.
Proof.
  intros [ot sd h ch sh sp p oid ex tf sz mt sv fs lg].
  unfold ser_side, side_kvs, deser_side, KV.
  cbn [s_otype s_side s_hash s_changed s_sync_hash s_sync_path s_path s_oid s_exists s_temp_file
       s_size s_mtime s_saved].
  change (lookup k_otype _) with (Some (MStr (otype_val ot))).
  cbn [bind]. rewrite otype_parse.
  change (lookup k_side _) with (Some sd).
  change (lookup k_hash _) with (Some h).
  change (lookup k_changed _) with (Some ch).
  change (lookup k_sync_hash _) with (Some sh).
  change (lookup k_sync_path _) with (Some sp).
  change (lookup k_oid _) with (Some oid).
  change (lookup k_path _) with (Some p).
  change (lookup k_exists _) with (Some (MStr (exi_val ex))).
  change (lookup k_temp_file _) with (Some tf).
  cbn [bind]. rewrite exists_parse.
  change (get_default k_size MNil _) with sz.
  change (get_default k_mtime MNil _) with mt.
  change (get_default k_saved MNil _) with (match sv with None => MNil | Some x => MStr (exi_val x) end).
  rewrite saved_parse. reflexivity.
Qed.

(* ---------------------------------------------------------------- the entry *)
Definition tup_entry (e : entry) : entry :=
  mkEntry (tup_side (e_s0 e)) (tup_side (e_s1 e)) (e_ignored e) (tuplify (e_priority e)) (e_sid e).

Lemma tuplify_ser_entry : forall e, tuplify (ser_entry e) = ser_entry (tup_entry e).
Proof.
  intros e. unfold ser_entry, entry_kvs, KV.
  cbn [tuplify map tup_entry e_s0 e_s1 e_ignored e_priority].
  change (MMap (map (fun kv : mp * mp => let (k, x) := kv in (tuplify k, tuplify x)) (side_kvs (e_s0 e))))
    with (tuplify (ser_side (e_s0 e))).
  change (MMap (map (fun kv : mp * mp => let (k, x) := kv in (tuplify k, tuplify x)) (side_kvs (e_s1 e))))
    with (tuplify (ser_side (e_s1 e))).
  now rewrite !tuplify_ser_side.
Qed.

Lemma parse_ignored_ser : forall e, parse_ignored (entry_kvs e) = e_ignored e.
Proof. intros e. unfold parse_ignored, entry_kvs, KV. now destruct (e_ignored e). Qed.

Lemma deser_ser_entry : forall sid e,
  deser_entry sid (ser_entry e) =
  if mtime_ok (s_mtime (e_s0 e)) && mtime_ok (s_mtime (e_s1 e))
  then Some (mkEntry (strip_side (e_s0 e)) (strip_side (e_s1 e)) (e_ignored e) (MInt 0%Z) (Some sid))
  else None.
Proof.
  intros sid e. unfold deser_entry, ser_entry.
  rewrite parse_ignored_ser.
  unfold entry_kvs, KV.
  change (lookup k_side0 _) with (Some (ser_side (e_s0 e))).
  change (lookup k_side1 _) with (Some (ser_side (e_s1 e))).
  cbn [bind]. rewrite !deser_ser_side.
  destruct (mtime_ok (s_mtime (e_s0 e))); [|reflexivity].
  destruct (mtime_ok (s_mtime (e_s1 e))); reflexivity.
Qed.

(* the complete characterisation of serialize -> dumps -> loads -> deserialize *)
Definition survives (e : entry) : bool :=
  ints_ok (ser_entry e) && keys_ok (tuplify (ser_entry e))
  && mtime_ok (s_mtime (e_s0 e)) && mtime_ok (s_mtime (e_s1 e)).

Lemma roundtrip_char : forall sid e,
  roundtrip sid e = if survives e then Some (norm_entry sid e) else None.
Proof.
  intros sid e. unfold roundtrip, survives, pack, load_row, unpack.
  destruct (ints_ok (ser_entry e)); [|reflexivity]. cbn [bind andb].
  destruct (keys_ok (tuplify (ser_entry e))); [|reflexivity]. cbn [bind andb].
  rewrite tuplify_ser_entry, deser_ser_entry.
  cbn [tup_entry e_s0 e_s1 tup_side s_mtime e_ignored]. rewrite !mtime_ok_tuplify.
  destruct (mtime_ok (s_mtime (e_s0 e)) && mtime_ok (s_mtime (e_s1 e))); reflexivity.
Qed.

(* the fields the property lists *)
Definition same_side (a b : side) : Prop :=
  s_otype a = s_otype b /\ s_side a = s_side b /\ s_hash a = s_hash b /\ s_changed a = s_changed b /\
  s_sync_hash a = s_sync_hash b /\ s_sync_path a = s_sync_path b /\ s_path a = s_path b /\
  s_oid a = s_oid b /\ s_exists a = s_exists b /\ s_temp_file a = s_temp_file b /\
  s_size a = s_size b /\ s_mtime a = s_mtime b /\ s_saved a = s_saved b.
Definition same_synced (a b : entry) : Prop :=
  same_side (e_s0 a) (e_s0 b) /\ same_side (e_s1 a) (e_s1 b) /\ e_ignored a = e_ignored b.

(* well-formed field shapes: 64-bit integers, str/bytes dict keys, no Python lists, numeric mtime *)
Definition wf_entry (e : entry) : bool :=
  ints_ok (ser_entry e) && keys_ok (ser_entry e) && listfree (ser_entry e)
  && mtime_ok (s_mtime (e_s0 e)) && mtime_ok (s_mtime (e_s1 e)).

Lemma listfree_side_fields : forall s, listfree (ser_side s) = true -> same_side s (norm_side s).
Proof.
  intros [ot sd h ch sh sp p oid ex tf sz mt sv fs lg] H.
  unfold ser_side, side_kvs, KV in H. cbn [listfree forallb s_otype s_side s_hash s_changed
    s_sync_hash s_sync_path s_path s_oid s_exists s_temp_file s_size s_mtime s_saved] in H.
  repeat (apply andb_true_iff in H; destruct H as [?H H]).
  repeat match goal with
         | Hx : (true && _)%bool = true |- _ => cbn [andb] in Hx
         end.
  unfold same_side, norm_side. cbn.
  repeat split; symmetry; apply listfree_tuplify; assumption.
Qed.

Lemma listfree_entry_sides : forall e, listfree (ser_entry e) = true ->
  listfree (ser_side (e_s0 e)) = true /\ listfree (ser_side (e_s1 e)) = true.
Proof.
  intros e H. unfold ser_entry, entry_kvs, KV in H. cbn [listfree forallb] in H.
  repeat (apply andb_true_iff in H; destruct H as [?H H]).
  cbn [andb] in *. split; assumption.
Qed.

Lemma codec_roundtrip : forall sid e, wf_entry e = true ->
  exists e', roundtrip sid e = Some e' /\ same_synced e e' /\ e_sid e' = Some sid.
Proof.
  intros sid e H. unfold wf_entry in H.
  apply andb_true_iff in H. destruct H as [H Hm1].
  apply andb_true_iff in H. destruct H as [H Hm0].
  apply andb_true_iff in H. destruct H as [H Hl].
  apply andb_true_iff in H. destruct H as [Hi Hk].
  exists (norm_entry sid e). rewrite roundtrip_char. unfold survives.
  rewrite (listfree_tuplify _ Hl), Hi, Hk, Hm0, Hm1. cbn [andb]. split; [reflexivity|].
  destruct (listfree_entry_sides e Hl) as [L0 L1].
  split; [|reflexivity]. unfold same_synced, norm_entry. cbn [e_s0 e_s1 e_ignored].
  split; [now apply listfree_side_fields|]. split; [now apply listfree_side_fields|reflexivity].
Qed.

(* what is NOT preserved *)
Lemma volatile_reset : forall sid e e', roundtrip sid e = Some e' ->
  e_priority e' = MInt 0%Z /\
  s_force_sync (e_s0 e') = false /\ s_force_sync (e_s1 e') = false /\
  s_last_gotten (e_s0 e') = MFloat 0 /\ s_last_gotten (e_s1 e') = MFloat 0.
Proof.
  intros sid e e' H. rewrite roundtrip_char in H. destruct (survives e); [|discriminate].
  injection H as <-. repeat split.
Qed.

(* corrupt marker with its saved existence *)
Lemma corrupt_marker_roundtrip : forall sid e e', roundtrip sid e = Some e' ->
  s_exists (e_s0 e') = s_exists (e_s0 e) /\ s_saved (e_s0 e') = s_saved (e_s0 e) /\
  s_exists (e_s1 e') = s_exists (e_s1 e) /\ s_saved (e_s1 e') = s_saved (e_s1 e) /\
  e_ignored e' = e_ignored e.
Proof.
  intros sid e e' H. rewrite roundtrip_char in H. destruct (survives e); [|discriminate].
  injection H as <-. repeat split.
Qed.

(* is_trash and membership of the change set survive a round trip *)
Lemma roundtrip_trash_pending : forall sid e e', roundtrip sid e = Some e' ->
  is_trash e' = is_trash e /\ pending e' = pending e.
Proof.
  intros sid e e' H. rewrite roundtrip_char in H. destruct (survives e); [|discriminate].
  injection H as <-. unfold is_trash, pending, pending_side, norm_entry, norm_side. cbn.
  now rewrite !is_nil_tuplify, !truthy_tuplify.
Qed.

(* ---------------------------------------------------------------- legacy rows *)
(* a side as releases before 10/21/19 wrote it: boolean/None existence, no size/mtime/_saved_exists *)
Definition legacy_side_kvs (s : side) (lex : mp) : list (mp * mp) :=
  [ KV k_otype (MStr (otype_val (s_otype s)));
    KV k_side (s_side s);
    KV k_hash (s_hash s);
    KV k_changed (s_changed s);
    KV k_sync_hash (s_sync_hash s);
    KV k_path (s_path s);
    KV k_sync_path (s_sync_path s);
    KV k_oid (s_oid s);
    KV k_exists lex;
    KV k_temp_file (s_temp_file s) ].

Inductive legacy_tail :=
| LtNothing                  (* neither 'ignored' nor 'priority' *)
| LtDiscardedKey             (* 'discarded': True *)
| LtConflictedKey            (* 'conflicted': True *)
| LtTrashedReason            (* 'ignored': 'trashed' *)
| LtReason (i : ign)         (* 'ignored': a current value, no 'priority' *)
| LtBadReason.               (* 'ignored': an unknown string *)

Definition legacy_tail_kvs (t : legacy_tail) : list (mp * mp) :=
  match t with
  | LtNothing => []
  | LtDiscardedKey => [KV k_discarded (MBool true)]
  | LtConflictedKey => [KV k_conflicted (MBool true)]
  | LtTrashedReason => [KV k_ignored (MStr v_trashed)]
  | LtReason i => [KV k_ignored (MStr (ign_val i))]
  | LtBadReason => [KV k_ignored (MStr k_otype)]
  end.
Definition legacy_tail_ign (t : legacy_tail) : ign :=
  match t with
  | LtNothing => INone
  | LtDiscardedKey => IDiscarded
  | LtConflictedKey => IConflict
  | LtTrashedReason => IDiscarded
  | LtReason i => i
  | LtBadReason => INone
  end.

Definition legacy_row (s0 s1 : side) (lex0 lex1 : mp) (t : legacy_tail) : mp :=
  MMap (KV k_side0 (MMap (legacy_side_kvs s0 lex0)) :: KV k_side1 (MMap (legacy_side_kvs s1 lex1))
        :: legacy_tail_kvs t).

Definition legacy_side_loaded (s : side) (x : exi) : side :=
  mkSide (s_otype s) (s_side s) (s_hash s) (s_changed s) (s_sync_hash s) (s_sync_path s) (s_path s)
         (s_oid s) x (s_temp_file s) MNil MNil None false (MFloat 0).

Lemma deser_legacy_side : forall s lex x, parse_exists lex = Some x ->
  deser_side (MMap (legacy_side_kvs s lex)) = Some (legacy_side_loaded s x).
Proof.
  intros [ot sd h ch sh sp p oid ex tf sz mt sv fs lg] lex x Hx.
  unfold legacy_side_kvs, deser_side, KV.
  cbn [s_otype s_side s_hash s_changed s_sync_hash s_sync_path s_path s_oid s_exists s_temp_file].
  change (lookup k_otype _) with (Some (MStr (otype_val ot))).
  cbn [bind]. rewrite otype_parse.
  change (lookup k_side _) with (Some sd).
  change (lookup k_hash _) with (Some h).
  change (lookup k_changed _) with (Some ch).
  change (lookup k_sync_hash _) with (Some sh).
  change (lookup k_sync_path _) with (Some sp).
  change (lookup k_oid _) with (Some oid).
  change (lookup k_path _) with (Some p).
  change (lookup k_exists _) with (Some lex).
  change (lookup k_temp_file _) with (Some tf).
  cbn [bind]. rewrite Hx. reflexivity.
Qed.

Lemma legacy_loads : forall sid s0 s1 lex0 lex1 x0 x1 t,
  keys_ok (legacy_row s0 s1 lex0 lex1 t) = true ->
  parse_exists lex0 = Some x0 -> parse_exists lex1 = Some x1 ->
  load_row sid (legacy_row s0 s1 lex0 lex1 t) =
  Some (mkEntry (legacy_side_loaded s0 x0) (legacy_side_loaded s1 x1) (legacy_tail_ign t) (MInt 0%Z) (Some sid)).
Proof.
  intros sid s0 s1 lex0 lex1 x0 x1 t Hk H0 H1. unfold load_row, unpack. rewrite Hk. cbn [bind].
  unfold legacy_row, deser_entry.
  assert (Hi : parse_ignored (KV k_side0 (MMap (legacy_side_kvs s0 lex0))
                 :: KV k_side1 (MMap (legacy_side_kvs s1 lex1)) :: legacy_tail_kvs t) = legacy_tail_ign t).
  { unfold KV. destruct t as [| | | |i|]; try reflexivity. now destruct i. }
  rewrite Hi.
  assert (L0 : lookup k_side0 (KV k_side0 (MMap (legacy_side_kvs s0 lex0))
                 :: KV k_side1 (MMap (legacy_side_kvs s1 lex1)) :: legacy_tail_kvs t)
               = Some (MMap (legacy_side_kvs s0 lex0))).
  { unfold KV. destruct t as [| | | |i|]; reflexivity. }
  assert (L1 : lookup k_side1 (KV k_side0 (MMap (legacy_side_kvs s0 lex0))
                 :: KV k_side1 (MMap (legacy_side_kvs s1 lex1)) :: legacy_tail_kvs t)
               = Some (MMap (legacy_side_kvs s1 lex1))).
  { unfold KV. destruct t as [| | | |i|]; reflexivity. }
  rewrite L0, L1. cbn [bind].
  rewrite (deser_legacy_side s0 lex0 x0 H0), (deser_legacy_side s1 lex1 x1 H1). reflexivity.
Qed.

Lemma legacy_exists_values :
  parse_exists (MBool true) = Some XExists /\ parse_exists (MBool false) = Some XTrashed /\
  parse_exists MNil = Some XUnknown /\ forall x, parse_exists (MStr (exi_val x)) = Some x.
Proof. repeat split. apply exists_parse. Qed.
