(* AlgoLatest.v — SyncEntry.get_latest keeps the invariant and leaves the refreshed sides agreeing with their
   providers (or with an event still pending). *)
From Coq Require Import NArith List Bool Arith Lia.
From CS Require Import Sx Str PathModel PathLaws StateModel StateProofs ProvModel ProvProofs
     AlgoModel AlgoCheck AlgoState AlgoProv AlgoPath AlgoInv AlgoIntake AlgoSync.
Import ListNotations.
Local Open Scope N_scope.

(* side sd of entry e is current: an event is pending, or the state's picture is the provider's *)
Definition ReadyS (evl : evlist) (w : world) (e : nat) (sd : bool) : Prop :=
  forall en k ob, nth_error (ents (w_st w)) e = Some en -> s_oid (gs en sd) = Some (ostr_k k) ->
    obj_at w sd k = Some ob -> pd evl sd k = true \/ freshP (gs en sd) ob.

Definition set_lg (mx : N) (x : xside) : xside := mkX mx (x_tname x) (x_tfile x).

(* the three cases of unconditionally_get_latest, uniformly *)
Lemma uget_latest_spec evl g w e sd en :
  InvP evl g w -> (2 <= e)%nat -> nth_error (ents (w_st w)) e = Some en ->
  exists w' en' m, uget_latest w e sd = ROk w' /\ weff w w' e en' m /\ prog en en' sd (now (w_st w')) m /\
    s_otype (gs en' sd) = File /\
    (forall k ob, s_oid (gs en sd) = Some (ostr_k k) -> obj_at w sd k = Some ob ->
       freshP (gs en' sd) ob /\ popt (s_path (gs en' sd)) (pstr (ProvModel.o_path ob)) /\
       (ProvModel.o_exists ob = false -> s_ex (gs en' sd) = ExTrashed /\ s_hash (gs en' sd) = s_hash (gs en sd) /\ s_path (gs en' sd) = s_path (gs en sd)) /\
       (ProvModel.o_exists ob = true -> s_ex (gs en' sd) = ExExists /\ s_hash (gs en' sd) = Some (ProvModel.o_data ob) /\
                                       s_path (gs en' sd) = Some (pstr (ProvModel.o_path ob)))) /\
    (s_oid (gs en sd) = None -> s_path (gs en' sd) = s_path (gs en sd) /\ s_hash (gs en' sd) = s_hash (gs en sd) /\
                                s_chg (gs en' sd) = s_chg (gs en sd) /\
                                (is_discarded (e_ign en) = false -> s_ex (gs en' sd) = ExUnknown)).
Proof.
  intros I He Hn. pose proof (i_cfg _ _ _ I) as Hcfg. pose proof (i_tape _ _ _ I) as Ht.
  pose proof (i_ents _ _ _ I e en He Hn) as EO. destruct (eo_side _ _ _ _ _ EO sd) as [c1 c2 c3 c5 c4].
  destruct (s_oid (gs en sd)) as [o|] eqn:Eo.
  - destruct (c4 o eq_refl) as (k & ob & -> & Hob & Hk & F).
    destruct (sh_files _ _ (i_shape _ _ _ I sd) k ob Hk Hob) as (Hkf & n & Hp & Hnok).
    destruct (ProvModel.o_exists ob) eqn:El.
    + (* alive *)
      destruct (uget_latest_live w e sd en k ob n Hcfg Ht (i_idx _ _ _ I) (i_pwf _ _ _ I sd) Hn Eo Hob El Hkf Hp Hnok c1 (fo_path _ _ _ _ _ _ _ _ F))
        as (w' & en' & m & H1 & W1 & P1 & F1 & F2 & F3 & F4).
      exists w', en', m. split; [exact H1|]. split; [exact W1|]. split; [exact P1|]. split; [exact F1|]. split; [|intros; discriminate].
      intros k0 ob0 Hk0 Hob0. assert (k0 = k) by (apply ostr_k_inj; congruence). subst k0. assert (ob0 = ob) by congruence. subst ob0.
      split; [unfold freshP; rewrite El; auto|]. split; [right; exact F4|]. split; [intros; congruence|auto].
    + (* gone *)
      unfold uget_latest, get_e, lift, get_ent. rewrite Hn. cbn [rbind]. rewrite Eo.
      rewrite (key_of_std w sd k Hcfg). cbn [rbind]. unfold obj_at in Hob.
      rewrite (info_oid_kid _ _ _ (i_pwf _ _ _ I sd) Hob), El. unfold get_no_info. rewrite Hcfg.
      assert (Hoip: oip_of (cfg_std 1) sd = false) by (destruct sd; reflexivity). rewrite Hoip.
      destruct (plain_w w Ht e sd (fun y => w_ex y ExTrashed) en Hn) as (w' & H1 & W1); [intros; split; reflexivity|].
      exists w', (ss en sd (w_ex (gs en sd) ExTrashed)), None. split; [exact H1|]. split; [exact W1|].
      split; [apply (prog_plain en sd (fun y => w_ex y ExTrashed)); intros; repeat split; reflexivity|].
      rewrite gs_ss_same. cbn [w_ex s_otype s_ex s_hash s_path s_chg]. split; [exact c1|]. split; [|intros; discriminate].
      intros k0 ob0 Hk0 Hob0. assert (k0 = k) by (apply ostr_k_inj; congruence). subst k0. assert (ob0 = ob) by (unfold obj_at in Hob0; congruence). subst ob0.
      split; [unfold freshP; rewrite El; reflexivity|]. split; [apply (fo_path _ _ _ _ _ _ _ _ F)|]. split; [auto|intros; congruence].
  - (* no id on this side *)
    unfold uget_latest, get_e, lift, get_ent. rewrite Hn. cbn [rbind]. rewrite Eo.
    destruct (ex_in_gone (s_ex (gs en sd))) eqn:Eg.
    + exists w, en, None. split; [reflexivity|]. split; [apply weff_refl; assumption|]. split; [apply prog_refl|].
      split; [exact c1|]. split; [intros; discriminate|]. intros _. repeat (split; [reflexivity|]). intros Hd. apply (c5 eq_refl Hd).
    + destruct (plain_w w Ht e sd (fun y => w_ex y ExUnknown) en Hn) as (w' & H1 & W1); [intros; split; reflexivity|].
      exists w', (ss en sd (w_ex (gs en sd) ExUnknown)), None. split; [exact H1|]. split; [exact W1|].
      split; [apply (prog_plain en sd (fun y => w_ex y ExUnknown)); intros; repeat split; reflexivity|].
      rewrite gs_ss_same. cbn [w_ex s_otype s_ex s_hash s_path s_chg]. split; [exact c1|]. split; [intros; discriminate|]. intros _. auto.
Qed.

Lemma flagged_prog en en' sd nw m : prog en en' sd nw m ->
  (m = None /\ flagged en' = flagged en) \/ m = Some true.
Proof.
  intros (A & _ & C & _ & _ & _ & G). destruct G as [(G & Hm)|(t & _ & _ & _ & _ & Hm)]; subst m; [left|right; reflexivity].
  split; [reflexivity|]. unfold flagged. destruct sd; simpl in *; rewrite A, C, G; reflexivity.
Qed.

(* refresh of one side followed by the new refresh stamp *)
Lemma refresh_side_pres evl g w e sd en mx w1 :
  InvP evl g w -> (2 <= e)%nat -> nth_error (ents (w_st w)) e = Some en -> mx <= now (w_st w) + 1 ->
  uget_latest w e sd = ROk w1 ->
  let w2 := setx w1 e sd (set_lg mx) in
  InvP evl g w2 /\ ReadyS evl w2 e sd /\
  (forall sd0, prov_of w2 sd0 = prov_of w sd0) /\
  (exists en2, nth_error (ents (w_st w2)) e = Some en2 /\ gs en2 (negb sd) = gs en (negb sd) /\
               s_oid (gs en2 sd) = s_oid (gs en sd) /\ maxchg en <= maxchg en2 /\
               e_ign en2 = e_ign en /\ maxchg en2 <= N.max (maxchg en) (now (w_st w2))) /\
  (forall x sd0, x <> e -> getx w2 x sd0 = getx w x sd0) /\ getx w2 e (negb sd) = getx w e (negb sd) /\
  now (w_st w) <= now (w_st w2) /\ x_tfile (getx w2 e sd) = x_tfile (getx w e sd) /\
  length (ents (w_st w2)) = length (ents (w_st w)) /\
  (forall x, set_mem x (cset (w_st w)) = true -> set_mem x (cset (w_st w2)) = true) /\
  (forall en2, nth_error (ents (w_st w2)) e = Some en2 -> s_oid (gs en2 sd) <> None -> ShapeS (gs en2 sd)).
Proof.
  intros I He Hn Hmx H w2.
  destruct (uget_latest_spec evl g w e sd en I He Hn) as (w' & en' & m & H1 & W1 & P1 & Hot & Hfull & Hnone).
  rewrite H1 in H. injection H as <-.
  pose proof W1 as (Wcfg & WpL & WpR & Wx & (SA & SB & SC & SD & SJ) & WT).
  pose proof P1 as (Pother & Pign & Poid & Pspath & Pshash & Pforce & Pchg).
  assert (Hprov: forall sd0, prov_of w2 sd0 = prov_of w sd0).
  { intros sd0. unfold w2. rewrite prov_of_setx. apply (weff_prov _ _ _ _ _ sd0 W1). }
  assert (Hobj: forall sd0 k0, obj_at w2 sd0 k0 = obj_at w sd0 k0) by (intros; unfold obj_at; rewrite Hprov; reflexivity).
  assert (Hst: w_st w2 = w_st w') by reflexivity.
  assert (Hgo: forall x sd0, x <> e -> getx w2 x sd0 = getx w x sd0).
  { intros x sd0 Hne. unfold w2. rewrite getx_setx_other by exact Hne. apply (weff_getx _ _ _ _ _ x sd0 W1). }
  assert (Hgs: getx w2 e (negb sd) = getx w e (negb sd)).
  { unfold w2. rewrite getx_setx_other_side. apply (weff_getx _ _ _ _ _ e (negb sd) W1). }
  assert (Hgsd: getx w2 e sd = set_lg mx (getx w e sd)).
  { unfold w2. rewrite getx_setx_same. f_equal. apply (weff_getx _ _ _ _ _ e sd W1). }
  pose proof (i_ents _ _ _ I e en He Hn) as EO.
  destruct (i_clke _ _ _ I e en Hn) as (Hmaxo & Hlgo).
  assert (Hmax': maxchg en' <= now (w_st w') + 1).
  { unfold maxchg, chgv in *. destruct Pchg as [(G & _)|(t & G & _ & _ & Ht & _)].
    - destruct sd; simpl in *; rewrite Pother, G; lia.
    - destruct sd; simpl in *; rewrite Pother, G; simpl; lia. }
  assert (Hshape: s_oid (gs en' sd) <> None -> ShapeS (gs en' sd)).
  { intros Hoid. rewrite Poid in Hoid. destruct (s_oid (gs en sd)) as [o|] eqn:Eo; [|contradiction].
    destruct (so_full _ _ _ _ _ _ (eo_side _ _ _ _ _ EO sd) o Eo) as (k0 & ob0 & -> & Hob0 & _).
    destruct (Hfull k0 ob0 eq_refl Hob0) as (_ & _ & Fdead & Flive).
    destruct (ProvModel.o_exists ob0) eqn:El.
    - destruct (Flive eq_refl) as (X1 & _ & X3). left. split; [exact X1|rewrite X3; discriminate].
    - destruct (Fdead eq_refl) as (X1 & _). right. rewrite X1. reflexivity. }
  assert (HI: InvP evl g w2).
  { apply (inv_master evl evl g g w w2 e en' I); rewrite ?Hst.
    - unfold w2. rewrite w_cfg_setx. exact Wcfg.
    - intros sd0. rewrite Hprov. split; [apply (i_pwf _ _ _ I)|]. split; [apply (ShapeOk_ext w w2 sd0 (Hobj sd0) (i_shape _ _ _ I sd0))|].
      apply (LogOk_ext evl evl w w2 sd0 (Hobj sd0)); [auto|apply (i_log _ _ _ I)].
    - exact He.
    - rewrite SA. eapply nth_list_upd_eq; eauto.
    - rewrite SA, length_list_upd. apply Nat.le_refl.
    - intros x Hx Hne. rewrite SA, nth_list_upd_neq by congruence. apply nth_error_None. exact Hx.
    - intros x xn Hne Hxn. exists xn. split; [rewrite SA, nth_list_upd_neq by congruence; exact Hxn|apply same_but_prio_refl].
    - intros x Hne. rewrite SB. destruct m; [destruct (Nat.eqb_spec x e); [contradiction|reflexivity]|reflexivity].
    - intros Hfl. rewrite SB. destruct (flagged_prog _ _ _ _ _ P1) as [(Hm & Hf)|Hm]; subst m; [|rewrite Nat.eqb_refl; reflexivity].
      apply (i_csc _ _ _ I e en Hn). rewrite <- Hf. exact Hfl.
    - intros Hm. rewrite SB in Hm. destruct P1 as (Pother' & _ & Poid' & _ & _ & _ & [(Hc0 & Hm0)|(t & Hc0 & Ht0 & _ & _ & Hm0)]); subst m.
      + assert (Hfe: flagged en' = flagged en) by (unfold flagged; destruct sd; simpl in *; rewrite Pother', Poid', Hc0; reflexivity).
        rewrite Hfe. apply (i_cse _ _ _ I e en Hn Hm).
      + apply (flagged_side en' sd); [rewrite Hc0; exact Ht0|]. rewrite Poid'.
        destruct (s_oid (gs en sd)) as [o|] eqn:Eo.
        * destruct (so_full _ _ _ _ _ _ (eo_side _ _ _ _ _ EO sd) o Eo) as (k0 & ob0 & -> & _). reflexivity.
        * exfalso. destruct (Hnone eq_refl) as (_ & _ & Hcs0 & _).
          destruct (so_empty _ _ _ _ _ _ (eo_side _ _ _ _ _ EO sd) Eo) as (Hf0 & _). rewrite Hcs0 in Hc0. rewrite Hc0 in Hf0. rewrite Ht0 in Hf0. discriminate.
    - exact SC.
    - rewrite SD. pose proof (i_clk _ _ _ I). lia.
    - exact Hmax'.
    - intros sd0. destruct (Bool.bool_dec sd0 sd) as [->|Hne].
      + rewrite Hgsd. simpl. lia.
      + assert (sd0 = negb sd) by (destruct sd0, sd; try reflexivity; contradiction). subst sd0. rewrite Hgs. specialize (Hlgo (negb sd)). lia.
    - exact WT.
    - apply SJ. apply (i_idx _ _ _ I).
    - intros x sd0 Hne. apply Hgo. exact Hne.
    - intros x xn Hne Hx2 Hxn sd0 k0 Hk0. split; [apply Hobj|]. split; [auto|reflexivity].
    - intros sd0 k0 Hk0 Hlt. rewrite Hprov in Hlt. destruct (i_cov _ _ _ I sd0 k0 Hk0 Hlt) as [(x & xn & Hxn & Hox)|Hp]; [left|right; exact Hp].
      destruct (Nat.eq_dec x e) as [->|Hne].
      + exists e, en'. split; [rewrite SA; eapply nth_list_upd_eq; eauto|]. assert (xn = en) by congruence. subst xn.
        destruct (Bool.bool_dec sd0 sd) as [->|Hns]; [rewrite Poid; exact Hox|].
        assert (sd0 = negb sd) by (destruct sd0, sd; try reflexivity; contradiction). subst sd0. rewrite Pother. exact Hox.
      + exists x, xn. split; [rewrite SA, nth_list_upd_neq by congruence; exact Hxn|exact Hox].
    - intros sd0 k0 Hk0 Hlt Hg. rewrite Hprov in Hlt. destruct (i_cove _ _ _ I sd0 k0 Hk0 Hlt Hg) as (x & xn & Hxn & Hox).
      destruct (Nat.eq_dec x e) as [->|Hne].
      + exists e, en'. split; [rewrite SA; eapply nth_list_upd_eq; eauto|]. assert (xn = en) by congruence. subst xn.
        destruct (Bool.bool_dec sd0 sd) as [->|Hns]; [rewrite Poid; exact Hox|].
        assert (sd0 = negb sd) by (destruct sd0, sd; try reflexivity; contradiction). subst sd0. rewrite Pother. exact Hox.
      + exists x, xn. split; [rewrite SA, nth_list_upd_neq by congruence; exact Hxn|exact Hox].
    - intros sd0 k0 cs Hg. rewrite Hobj. apply (i_ghost _ _ _ I sd0 k0 cs Hg).
    - apply (EntOk_side evl evl g w w2 e en en' sd (now (w_st w')) m EO P1 Hot Hobj).
      + rewrite Hgs. reflexivity.
      + auto.
      + intros k ob Ho Hob. destruct (Hfull k ob Ho Hob) as (Fr & Fp & Fdead & Flive).
        destruct (so_full _ _ _ _ _ _ (eo_side _ _ _ _ _ EO sd) _ Ho) as (k1 & ob1 & Hk1 & Hob1 & _ & FO).
        apply ostr_k_inj in Hk1. subst k1. assert (ob1 = ob) by congruence. subst ob1.
        split.
        { intros Hex. destruct (ProvModel.o_exists ob) eqn:El; [|reflexivity]. destruct (Flive eq_refl) as (X & _). congruence. }
        split; [intros _; right; right; exact Fr|]. split; [exact Fp|]. split.
        * intros Hd cs Hcs. destruct (fo_owner _ _ _ _ _ _ _ _ FO Hd cs Hcs) as (Q1 & Q2 & (r & Q3) & Q4 & _).
          destruct (fo_owner2 _ _ _ _ _ _ _ _ FO Hd cs Hcs) as (_ & Q6).
          destruct (ProvModel.o_exists ob) eqn:El.
          -- destruct (Flive eq_refl) as (_ & Xh & Xp). rewrite Xh, Xp.
             split; [right; exists (ProvModel.o_data ob); split; [reflexivity|rewrite Q3; left; reflexivity]|]. split; intros; discriminate.
          -- destruct (Fdead eq_refl) as (_ & Xh & Xp). rewrite Xh, Xp. split; [exact Q1|]. split; [exact Q4|exact Q6].
        * intros Hd Hcs. destruct (fo_mirror _ _ _ _ _ _ _ _ FO Hd Hcs) as (Ml & _). apply (Flive Ml).
      + intros Hno. destruct (Hnone Hno) as (X1 & X2 & X3 & X4). destruct (so_empty _ _ _ _ _ _ (eo_side _ _ _ _ _ EO sd) Hno) as (Y1 & Y2 & Y3 & _).
        rewrite X1, X2, X3. auto.
    - intros sd0 Hoid Hd Hp. destruct (Bool.bool_dec sd0 sd) as [->|Hne]; [apply Hshape; exact Hoid|].
      assert (sd0 = negb sd) by (destruct sd0, sd; try reflexivity; contradiction). subst sd0.
      rewrite Pother in *. rewrite Hgs in Hp. rewrite Pign in Hd.
      apply (i_seen _ _ _ I e en (negb sd) He Hn Hoid Hd). pose proof (prog_maxchg _ _ _ _ _ P1). lia. }
  split; [exact HI|]. split.
  - intros en2 k ob Hen2 Ho2 Hob2. rewrite Hst, SA in Hen2. rewrite (nth_list_upd_eq _ _ _ _ Hn) in Hen2. injection Hen2 as <-.
    rewrite Poid in Ho2. rewrite Hobj in Hob2. right. apply (Hfull k ob Ho2 Hob2).
  - split; [exact Hprov|]. split.
    + exists en'. split; [rewrite Hst, SA; eapply nth_list_upd_eq; eauto|]. split; [exact Pother|]. split; [exact Poid|]. split; [apply (prog_maxchg _ _ _ _ _ P1)|]. split; [exact Pign|].
      rewrite Hst. clear - Pother Pchg. unfold maxchg, chgv in *. destruct sd; cbn [gs negb] in *; rewrite ?Pother;
        (destruct Pchg as [(Pc & _)|(t & Pc & _ & _ & Pt & _)]; rewrite Pc; cbn [chgval]; lia).
    + split; [exact Hgo|]. split; [exact Hgs|]. split; [rewrite Hst; exact SC|]. split; [rewrite Hgsd; reflexivity|].
      split; [rewrite Hst, SA; apply length_list_upd|]. split.
      * intros x Hm. rewrite Hst, SB. destruct (flagged_prog _ _ _ _ _ P1) as [(Hm0 & _)|Hm0]; subst m; [exact Hm|].
        destruct (Nat.eqb x e); [reflexivity|exact Hm].
      * intros en2 Hen2. rewrite Hst, SA in Hen2. rewrite (nth_list_upd_eq _ _ _ _ Hn) in Hen2. injection Hen2 as <-. exact Hshape.
Qed.

(* ------------------------------------------------------------------ get_latest *)
Lemma get_latest_loop_pres evl g e force mx : forall sides w w',
  InvP evl g w -> (2 <= e)%nat -> (exists en, nth_error (ents (w_st w)) e = Some en) -> mx <= now (w_st w) + 1 ->
  get_latest_loop w e force mx sides = ROk w' ->
  InvP evl g w' /\ (forall sd0, prov_of w' sd0 = prov_of w sd0) /\
  (forall x sd0, x <> e -> getx w' x sd0 = getx w x sd0) /\ now (w_st w) <= now (w_st w') /\
  (exists en', nth_error (ents (w_st w')) e = Some en') /\ (forall sd0, x_tfile (getx w' e sd0) = x_tfile (getx w e sd0)) /\
  length (ents (w_st w')) = length (ents (w_st w)) /\
  (forall x, set_mem x (cset (w_st w)) = true -> set_mem x (cset (w_st w')) = true).
Proof.
  induction sides as [|sd r IH]; intros w w' I He (en & Hn) Hmx H.
  - simpl in H. injection H as <-. split; [exact I|]. split; [auto|]. split; [auto|]. split; [apply N.le_refl|]. split; [eauto|auto].
  - simpl in H. destruct (force || N.ltb (x_lg (getx w e sd)) mx)%bool.
    + destruct (uget_latest w e sd) as [wa|c] eqn:Eu; [|discriminate]. cbn [rbind] in H.
      destruct (refresh_side_pres evl g w e sd en mx wa I He Hn Hmx Eu) as (I2 & _ & Hp2 & (en2 & Hn2 & _) & Hg2 & Hgo2 & Hnow2 & Htf2 & Hlen2 & Hmono2 & _).
      change (setx wa e sd (fun x => mkX mx (x_tname x) (x_tfile x))) with (setx wa e sd (set_lg mx)) in H.
      destruct (IH _ _ I2 He (ex_intro _ en2 Hn2) ltac:(lia) H) as (I3 & Hp3 & Hg3 & Hnow3 & Hen3 & Htf3 & Hlen3 & Hmono3).
      split; [exact I3|]. split; [intros; rewrite Hp3; apply Hp2|]. split; [intros; rewrite Hg3 by assumption; apply Hg2; assumption|]. split; [lia|]. split; [exact Hen3|].
      split; [|split; [congruence|intros x Hm; apply Hmono3; apply Hmono2; exact Hm]].
      intros sd0. rewrite Htf3. destruct (Bool.bool_dec sd0 sd) as [->|Hne]; [exact Htf2|].
      assert (sd0 = negb sd) by (destruct sd0, sd; try reflexivity; contradiction). subst sd0. rewrite Hgo2. reflexivity.
    + cbn [rbind] in H. apply (IH _ _ I He (ex_intro _ en Hn) Hmx H).
Qed.

Lemma maxchg_fold en : fold_right (fun sd m => N.max (chgval (s_chg (gs en sd))) m) 0 [false; true] = maxchg en.
Proof. unfold maxchg, chgv. simpl. lia. Qed.

Theorem get_latest_pres evl g w e force sides w' :
  InvP evl g w -> (2 <= e)%nat -> get_latest w e force sides = ROk w' ->
  InvP evl g w' /\ (forall sd0, prov_of w' sd0 = prov_of w sd0) /\
  (forall x sd0, x <> e -> getx w' x sd0 = getx w x sd0) /\ now (w_st w) <= now (w_st w') /\
  (forall sd0, x_tfile (getx w' e sd0) = x_tfile (getx w e sd0)) /\ length (ents (w_st w')) = length (ents (w_st w)) /\
  (forall x, set_mem x (cset (w_st w)) = true -> set_mem x (cset (w_st w')) = true).
Proof.
  intros I He H. unfold get_latest, get_e, lift, get_ent in H.
  destruct (nth_error (ents (w_st w)) e) as [en|] eqn:Hn; [|discriminate]. cbn [rbind] in H.
  set (mx := fold_right _ 0 sides) in H.
  assert (Hmx: mx <= now (w_st w) + 1).
  { destruct (i_clke _ _ _ I e en Hn) as (Hm & _). unfold mx. clear H mx. unfold maxchg, chgv in Hm.
    induction sides as [|sd r IHs]; simpl; [lia|]. destruct sd; simpl; lia. }
  destruct (get_latest_loop_pres evl g e force mx sides w w' I He (ex_intro _ en Hn) Hmx H) as (A & B & C & D & _ & F & G & M). auto 12.
Qed.

(* the refresh of both sides before an entry is synchronised *)
Theorem get_latest_both evl g w e w' :
  InvP evl g w -> (2 <= e)%nat -> (forall en, nth_error (ents (w_st w)) e = Some en -> is_discarded (e_ign en) = false) ->
  get_latest w e false [false; true] = ROk w' ->
  InvP evl g w' /\ ReadyS evl w' e false /\ ReadyS evl w' e true /\ (forall sd0, prov_of w' sd0 = prov_of w sd0) /\
  (forall x sd0, x <> e -> getx w' x sd0 = getx w x sd0) /\
  (exists en en', nth_error (ents (w_st w)) e = Some en /\ nth_error (ents (w_st w')) e = Some en' /\ e_ign en' = e_ign en /\
                  maxchg en' <= N.max (maxchg en) (now (w_st w'))) /\
  now (w_st w) <= now (w_st w') /\
  (forall en' sd, nth_error (ents (w_st w')) e = Some en' -> s_oid (gs en' sd) <> None -> ShapeS (gs en' sd)).
Proof.
  intros I He Hnd H. unfold get_latest, get_e, lift, get_ent in H.
  destruct (nth_error (ents (w_st w)) e) as [en|] eqn:Hn; [|discriminate]. cbn [rbind] in H.
  specialize (Hnd en eq_refl).
  rewrite maxchg_fold in H.
  destruct (i_clke _ _ _ I e en Hn) as (Hmx & _).
  pose proof (i_ents _ _ _ I e en He Hn) as EO.
  (* what K says at the start about a side that will not be refreshed *)
  assert (HK: forall sd, N.ltb (x_lg (getx w e sd)) (maxchg en) = false ->
              forall k ob, s_oid (gs en sd) = Some (ostr_k k) -> obj_at w sd k = Some ob -> pd evl sd k = true \/ freshP (gs en sd) ob).
  { intros sd Hlt k ob Ho Hob. destruct (so_full _ _ _ _ _ _ (eo_side _ _ _ _ _ EO sd) _ Ho) as (k1 & ob1 & Hk1 & Hob1 & _ & FO).
    apply ostr_k_inj in Hk1. subst k1. assert (ob1 = ob) by congruence. subst ob1.
    destruct (fo_K _ _ _ _ _ _ _ _ FO Hnd) as [X|[X|X]]; [left; exact X| |right; exact X]. apply N.ltb_ge in Hlt. lia. }
  cbn [get_latest_loop orb] in H.
  (* side LOCAL *)
  assert (H1: exists w1 en1, (if N.ltb (x_lg (getx w e false)) (maxchg en)
                              then (wa <- uget_latest w e false ;; ROk (setx wa e false (fun x => mkX (maxchg en) (x_tname x) (x_tfile x))))
                              else ROk w) = ROk w1 /\
              InvP evl g w1 /\ ReadyS evl w1 e false /\ (forall sd0, prov_of w1 sd0 = prov_of w sd0) /\
              nth_error (ents (w_st w1)) e = Some en1 /\ gs en1 true = gs en true /\ getx w1 e true = getx w e true /\
              (forall x sd0, x <> e -> getx w1 x sd0 = getx w x sd0) /\ now (w_st w) <= now (w_st w1) /\
              e_ign en1 = e_ign en /\ maxchg en1 <= N.max (maxchg en) (now (w_st w1)) /\
              (s_oid (gs en1 false) <> None -> ShapeS (gs en1 false))).
  { destruct (N.ltb (x_lg (getx w e false)) (maxchg en)) eqn:El.
    - destruct (uget_latest w e false) as [wa|c] eqn:Eu; [|discriminate]. cbn [rbind].
      destruct (refresh_side_pres evl g w e false en (maxchg en) wa I He Hn Hmx Eu) as (I2 & R2 & Hp2 & (en2 & Hn2 & Ho2 & _ & _ & Hi2 & Hm2) & Hg2 & Hgs2 & Hnow2 & _ & _ & _ & Hsh2).
      eexists. exists en2. split; [reflexivity|]. repeat (split; [assumption|]). apply (Hsh2 en2 Hn2).
    - exists w, en. split; [reflexivity|]. split; [exact I|]. split.
      + intros en0 k ob Hen0 Ho Hob. assert (en0 = en) by congruence. subst en0. apply (HK false El k ob Ho Hob).
      + repeat (split; [first [assumption|reflexivity|apply N.le_refl|lia|auto]|]).
        intros Hoid. apply (i_seen _ _ _ I e en false He Hn Hoid Hnd). apply N.ltb_ge in El. exact El. }
  destruct H1 as (w1 & en1 & E1 & I1 & R1 & Hp1 & Hn1 & Ho1 & Hg1 & Hgx1 & Hnow1 & Hi1 & Hm1 & Hsh1). rewrite E1 in H. cbn [rbind] in H.
  rewrite Hg1 in H.
  (* side REMOTE *)
  destruct (N.ltb (x_lg (getx w e true)) (maxchg en)) eqn:Er.
  - destruct (uget_latest w1 e true) as [wa|c] eqn:Eu; [|discriminate]. cbn [rbind] in H.
    change (setx wa e true (fun x => mkX (maxchg en) (x_tname x) (x_tfile x))) with (setx wa e true (set_lg (maxchg en))) in H.
    injection H as <-.
    destruct (refresh_side_pres evl g w1 e true en1 (maxchg en) wa I1 He Hn1 ltac:(lia) Eu) as (I2 & R2 & Hp2 & (en2 & Hn2 & Ho2 & _ & _ & Hi2 & Hm2) & Hg2 & _ & Hnow2 & _ & _ & _ & Hsh2).
    split; [exact I2|]. split.
    + intros en0 k ob Hen0 Ho Hob. assert (en0 = en2) by congruence. subst en0. cbn [negb] in Ho2. rewrite Ho2 in *.
      unfold obj_at in Hob. rewrite Hp2 in Hob. apply (R1 en1 k ob Hn1 Ho Hob).
    + split; [exact R2|]. split; [intros; rewrite Hp2; apply Hp1|]. split; [intros x sd0 Hne; rewrite Hg2 by exact Hne; apply Hgx1; exact Hne|].
      split; [|split; [lia|]].
      * exists en, en2. split; [reflexivity|]. split; [exact Hn2|]. split; [congruence|lia].
      * intros en0 sd0 Hen0 Hoid. assert (en0 = en2) by congruence. subst en0. destruct sd0; [apply (Hsh2 en2 Hn2 Hoid)|].
        cbn [negb] in Ho2. rewrite Ho2 in *. apply Hsh1. exact Hoid.
  - injection H as <-. split; [exact I1|]. split; [exact R1|]. split.
    + intros en0 k ob Hen0 Ho Hob. assert (en0 = en1) by congruence. subst en0. rewrite Ho1 in *.
      unfold obj_at in Hob. rewrite Hp1 in Hob. apply (HK true Er k ob Ho Hob).
    + split; [exact Hp1|]. split; [exact Hgx1|]. split; [|split; [exact Hnow1|]].
      * exists en, en1. split; [reflexivity|]. split; [exact Hn1|]. split; [exact Hi1|exact Hm1].
      * intros en0 sd0 Hen0 Hoid. assert (en0 = en1) by congruence. subst en0. destruct sd0; [|apply Hsh1; exact Hoid].
        rewrite Ho1 in *. apply (i_seen _ _ _ I e en true He Hn Hoid Hnd). apply N.ltb_ge in Er. exact Er.
Qed.
