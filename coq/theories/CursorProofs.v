(* CursorProofs.v — the cursor acceptor keeps "a restart never skips an unapplied event" invariant. *)
From Coq Require Import Arith NArith List Bool Lia.
From CS Require Import CursorModel.
Import ListNotations.

Lemma cinv_init : cinv cinit.
Proof. unfold cinv, cinit; simpl. split; [lia|]. intros c Hc. discriminate. Qed.

Lemma cinv_step s a s' : cinv s -> cstep s a = Some s' -> cinv s'.
Proof.
  unfold cinv. intros (Ha & Hs) H.
  destruct a as [|e|c| | | |]; simpl in H.
  - inversion H; subst; clear H; simpl. split; [lia|].
    intros c Hc. destruct (Hs c Hc) as [H1 H2]. split; [lia|exact H2].
  - destruct (Nat.leb_spec e (latest s)) as [Hle|]; [|discriminate].
    inversion H; subst; clear H; simpl.
    destruct (Nat.eqb_spec e (S (applied s))) as [He|He].
    + split; [lia|]. intros c Hc. destruct (Hs c Hc) as [H1 [H2|H2]]; split; try exact H1; [left; lia|right; exact H2].
    + split; [lia|]. exact Hs.
  - destruct (Nat.leb c (latest s) && (Nat.leb c (applied s) || (need_walk s && negb (walked s)))) eqn:G; [|discriminate].
    apply andb_true_iff in G as [G1 G2]. apply Nat.leb_le in G1.
    inversion H; subst; clear H; simpl. split; [lia|].
    intros c' Hc'. inversion Hc'; subst c'. split; [exact G1|].
    apply orb_true_iff in G2 as [G2|G2].
    + apply Nat.leb_le in G2. left. exact G2.
    + apply andb_true_iff in G2 as [_ G2]. apply negb_true_iff in G2. right. exact G2.
  - destruct (need_walk s) eqn:Hn; [|discriminate].
    inversion H; subst; clear H; simpl. unfold stored_or0.
    destruct (stored s) as [c0|] eqn:Hst.
    + destruct (Hs c0 eq_refl) as [H1 H2]. split; [lia|].
      intros c Hc. inversion Hc; subst c. split; [exact H1|left; lia].
    + split; [lia|]. intros c Hc. discriminate.
  - inversion H; subst; clear H; simpl. split; [exact Ha|exact Hs].
  - inversion H; subst; clear H; simpl. split; [exact Ha|]. intros c Hc. discriminate.
  - inversion H; subst; clear H; simpl. split; [exact Ha|].
    intros c Hc. destruct (Hs c Hc) as [H1 _]. split; [exact H1|right; reflexivity].
Qed.

Lemma cinv_run l : forall s i s', cinv s -> crun s l i = inl s' -> cinv s'.
Proof.
  induction l as [|a r IH]; simpl; intros s i s' Hi H.
  - inversion H; subst. exact Hi.
  - destruct (cstep s a) as [s1|] eqn:Hs; [|discriminate]. eapply IH; [|exact H]. eapply cinv_step; eassumption.
Qed.

(* C06: for every accepted sequence of cursor actions — arbitrary restarts, lost or rejected cursors included —
   the state right after any further restart is resume-safe: no existing event is both unreflected and skipped,
   unless a full walk is pending (which re-discovers every object that still exists). *)
Theorem restart_never_skips l s :
  crun cinit l 0 = inl s ->
  forall s', cstep s CRestart = Some s' -> resume_safe s'.
Proof.
  intros Hr s' Hs. pose proof (cinv_run l cinit 0 s cinv_init Hr) as (Ha & Hst).
  simpl in Hs. inversion Hs; subst; clear Hs. unfold resume_safe, stored_or0; simpl.
  intros e He. destruct (stored s) as [c|] eqn:Hc.
  - destruct (Hst c eq_refl) as [_ [H|H]].
    + destruct (le_lt_dec e c); [left; lia|right; left; assumption].
    + right. right. rewrite H. reflexivity.
  - right. right. reflexivity.
Qed.

(* the stored cursor itself is never ahead of the applied prefix unless storage also records that a walk is due *)
Theorem stored_cursor_never_ahead l s c :
  crun cinit l 0 = inl s -> stored s = Some c -> c <= applied s \/ walked s = false.
Proof.
  intros Hr Hc. pose proof (cinv_run l cinit 0 s cinv_init Hr) as (_ & Hs).
  destruct (Hs c Hc) as [_ H]. exact H.
Qed.

(* a finished walk covers everything up to the stored cursor and is recorded in storage *)
Theorem walk_covers s s' :
  cstep s CWalk = Some s' -> stored_or0 s' <= applied s' /\ need_walk s' = false /\ walked s' = true.
Proof.
  simpl. destruct (need_walk s); [|discriminate]. intros H; inversion H; subst; simpl.
  unfold stored_or0; simpl. repeat split; lia.
Qed.

(* the behaviour before fix 3f7683c (cursor reset without dropping the 'walked' marker) is rejected:
   event 1 applied and stored, two more events, the cursor is lost, restart, the engine stores the latest cursor *)
Example legacy_reset_rejected :
  crun cinit [CNew; CStore 0; CWalk; CApplied 1; CStore 1; CNew; CNew; CLoseCursor; CRestart; CStore 3] 0 = inr 9.
Proof. vm_compute. reflexivity. Qed.

Example fixed_reset_accepted :
  exists s, crun cinit [CNew; CStore 0; CWalk; CApplied 1; CStore 1; CNew; CNew; CLoseCursor; CRestart;
                        CReset; CStore 3; CRestart; CWalk] 0 = inl s /\ applied s = 3.
Proof. eexists. vm_compute. split; reflexivity. Qed.
