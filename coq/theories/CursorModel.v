(* CursorModel.v — C06: the event cursor of one side across stops and restarts.
   Provider events are numbered 1, 2, ...; [latest] of them exist.  [applied] is the contiguous prefix of
   events whose effect is reflected in storage (applied by the event manager, or covered by a finished full
   walk).  A restart keeps only what is in storage: the stored cursor and the 'walked' marker; it resumes
   delivery after the stored cursor, and walks first when the cursor is missing or no walk was recorded.
   [cstep] is the acceptor of the cursor-relevant actions observed on the real event manager
   (harness CursorWatch): it rejects a cursor store that is ahead of the applied prefix unless a walk is
   pending AND storage records that it is (no 'walked' marker). *)
From Coq Require Import Arith NArith List Bool.
From CS Require Import Sx.
Import ListNotations.

Record cstate := {
  latest : nat;         (* events that exist at the provider *)
  applied : nat;        (* events 1..applied are reflected in storage *)
  stored : option nat;  (* cursor in storage *)
  need_walk : bool;     (* in memory: a full walk is pending *)
  walked : bool         (* in storage: the 'walked' marker *)
}.

Inductive cact :=
| CNew                  (* the provider produces one more event *)
| CApplied (e : nat)    (* event e was applied (state update + commit); duplicates and gaps are possible *)
| CStore (c : nat)      (* c is written to storage as the cursor *)
| CWalk                 (* a pending full walk ran to its end *)
| CRestart              (* stop, and start over the same storage *)
| CLoseCursor           (* the stored cursor is removed, or replaced by one the provider will reject *)
| CReset.               (* the engine noticed the missing/rejected cursor: 'walked' is dropped from storage, a walk is due *)

Definition stored_or0 (s : cstate) : nat := match stored s with Some c => c | None => 0 end.

Definition cstep (s : cstate) (a : cact) : option cstate :=
  match a with
  | CNew => Some {| latest := S (latest s); applied := applied s; stored := stored s;
                    need_walk := need_walk s; walked := walked s |}
  | CApplied e =>
    if Nat.leb e (latest s) then
      Some {| latest := latest s;
              applied := if Nat.eqb e (S (applied s)) then e else applied s;
              stored := stored s; need_walk := need_walk s; walked := walked s |}
    else None
  | CStore c =>
    if Nat.leb c (latest s) && (Nat.leb c (applied s) || (need_walk s && negb (walked s))) then
      Some {| latest := latest s; applied := applied s; stored := Some c;
              need_walk := need_walk s; walked := walked s |}
    else None
  | CWalk =>
    if need_walk s then
      (* the walk sees the provider as it is now, which includes every event up to the stored cursor *)
      Some {| latest := latest s; applied := Nat.max (applied s) (stored_or0 s); stored := stored s;
              need_walk := false; walked := true |}
    else None
  | CRestart =>
    Some {| latest := latest s; applied := applied s; stored := stored s;
            need_walk := match stored s with Some _ => negb (walked s) | None => true end;
            walked := walked s |}
  | CLoseCursor =>
    Some {| latest := latest s; applied := applied s; stored := None;
            need_walk := need_walk s; walked := walked s |}
  | CReset =>
    Some {| latest := latest s; applied := applied s; stored := stored s; need_walk := true; walked := false |}
  end.

Fixpoint crun (s : cstate) (l : list cact) (i : nat) : cstate + nat :=
  match l with
  | [] => inl s
  | a :: r => match cstep s a with Some s' => crun s' r (S i) | None => inr i end
  end.

Definition cinit : cstate :=
  {| latest := 0; applied := 0; stored := None; need_walk := true; walked := false |}.

(* the safety invariant *)
Definition cinv (s : cstate) : Prop :=
  applied s <= latest s /\
  (forall c, stored s = Some c -> c <= latest s /\ (c <= applied s \/ walked s = false)).

(* what a restart must guarantee: every existing event is reflected in storage, or lies after the position
   delivery resumes from, or a full walk is pending *)
Definition resume_safe (s : cstate) : Prop :=
  forall e, 1 <= e <= latest s -> e <= applied s \/ stored_or0 s < e \/ need_walk s = true.

(* ------------------------------------------------------------------ wire *)
Definition un_cact (x : sx) : option cact :=
  match x with
  | L [A 0%N] => Some CNew
  | L [A 1%N; A e] => Some (CApplied (N.to_nat e))
  | L [A 2%N; A c] => Some (CStore (N.to_nat c))
  | L [A 3%N] => Some CWalk
  | L [A 4%N] => Some CRestart
  | L [A 5%N] => Some CLoseCursor
  | L [A 6%N] => Some CReset
  | _ => None
  end.
(* ((acts)...) one list per side -> () accepted | (side index) first rejected action *)
Fixpoint run_sides (l : list sx) (k : N) : sx :=
  match l with
  | [] => L []
  | x :: r =>
    match un_list un_cact x with
    | None => sx_malformed
    | Some acts => match crun cinit acts 0 with
                   | inl _ => run_sides r (k + 1)%N
                   | inr i => L [A k; A (N.of_nat i)]
                   end
    end
  end.
Definition run (x : sx) : sx := match x with L l => run_sides l 0%N | _ => sx_malformed end.
