(* EntryPredModel.v — hand-written executable model of the pure decision predicates of
   cloudsync/sync/state.py on which the engine's algorithm rests:
     SideState.is_corrupt / corrupt_exists / corrupt_gone / needs_sync,
     SyncEntry.paths_match / paths_differ / hash_conflict / is_path_change / is_deletion / is_creation /
     is_rename / needs_sync / is_discarded / is_irrelevant / is_conflicted / is_trash / is_temp_rename /
     is_latest / is_latest_side.
   Definitions only; GenEntryPred.v is the translation of the CURRENT source of the same functions
   (harness/entry_translator.py), EntryPredGenEq.v proves the two equal, EntryPredLaws.v proves the laws.

   Python values and truthiness.  Several of these functions do not return a bool: `a and b and c` returns the
   first falsy operand or the last one, `a or b` the first truthy operand or the last one.  So
   SideState.needs_sync() returns None / False / 0 / 0.0 / '' (the falsy `changed` stamp or the falsy `oid`) or
   True / False; SyncEntry.is_deletion(side) returns False or the `changed` STAMP of the side (a float when
   truthy, never True); is_path_change / is_rename return None or '' (the falsy sync_path / path) or a bool.
   Every caller in cloudsync/ uses these results in `if` / `not` / `and` / `assert` / a comprehension filter
   only, i.e. through truthiness.  The model therefore computes, for every predicate, the CLASS of the Python
   value returned ([pyres]: True, False, None, another falsy value (0, 0.0, '', b''), another truthy value),
   and [truth] maps a class to the truthiness callers see.  The correspondence check compares classes, the
   laws are about [truth].

   Fields.  Per side (SideState): force_sync (a Python bool), changed (None / False / a number: exact
   rational; NaN is not modelled), oid, path, sync_path (Optional[str] as far as they are read: None / '' /
   non-empty), hash, sync_hash (Optional[bytes]; only `!=` and truthiness are used), exists (the Exists enum),
   _saved_exists (Optional[Exists]), _last_gotten (a number).  Per entry: ignored (IgnoreReason), the two sides
   and, for each side, ONE abstract boolean [e_pmL]/[e_pmR]: the result of
   providers[side].paths_match(self[side].sync_path, self[side].path, for_display=True).  The path comparison
   itself is C13's subject; here it is a free input, so every law holds whatever the provider answers. *)
From Coq Require Import QArith List Bool NArith ZArith.
From CS Require Import Sx LoopModel.
Import ListNotations.
Open Scope Q_scope.

(* ------------------------------------------------------------------ classes of Python values *)
Inductive pyres :=
| RTrue           (* True *)
| RFalse          (* False *)
| RNone           (* None *)
| RZero           (* a falsy value that is neither False nor None: 0, 0.0, '', b'' *)
| RObj.           (* a truthy value that is not True: a non-zero number, a non-empty str / bytes *)

Definition truth (r : pyres) : bool := match r with RTrue | RObj => true | _ => false end.
Definition rb (b : bool) : pyres := if b then RTrue else RFalse.
Definition pand (a b : pyres) : pyres := if truth a then b else a.      (* a and b *)
Definition por (a b : pyres) : pyres := if truth a then a else b.       (* a or b *)
Definition pnot (a : pyres) : pyres := rb (negb (truth a)).             (* not a *)

(* ------------------------------------------------------------------ field values *)
Inductive exv := XUnknown | XExists | XTrashed | XMissing | XLikelyTrashed | XCorrupt.
Inductive ignv := INone | IDiscarded | IConflict | ITempRename | IIrrelevant.
Inductive strv := SNone | SEmpty | SFull.                 (* Optional[str]: None, '', non-empty *)
Inductive chv := CNone | CFalse | CNum (q : Q).           (* the `changed` stamp: None, False, a number *)
Definition hashv := option (list N).                      (* Optional[bytes] *)

Definition ex_eqb (a b : exv) : bool :=
  match a, b with
  | XUnknown, XUnknown | XExists, XExists | XTrashed, XTrashed | XMissing, XMissing
  | XLikelyTrashed, XLikelyTrashed | XCorrupt, XCorrupt => true
  | _, _ => false
  end.
Definition oex_eqb (a b : option exv) : bool :=
  match a, b with Some x, Some y => ex_eqb x y | None, None => true | _, _ => false end.
Definition ign_eqb (a b : ignv) : bool :=
  match a, b with
  | INone, INone | IDiscarded, IDiscarded | IConflict, IConflict | ITempRename, ITempRename
  | IIrrelevant, IIrrelevant => true
  | _, _ => false
  end.
Fixpoint bytes_eqb (a b : list N) : bool :=
  match a, b with
  | [], [] => true
  | x :: a', y :: b' => N.eqb x y && bytes_eqb a' b'
  | _, _ => false
  end.
Definition hash_eqb (a b : hashv) : bool :=
  match a, b with Some x, Some y => bytes_eqb x y | None, None => true | _, _ => false end.

Definition cls_ch (c : chv) : pyres :=
  match c with CNone => RNone | CFalse => RFalse | CNum q => if Qeq_bool q 0 then RZero else RObj end.
Definition cls_str (s : strv) : pyres := match s with SNone => RNone | SEmpty => RZero | SFull => RObj end.
Definition cls_hash (h : hashv) : pyres :=
  match h with None => RNone | Some [] => RZero | Some (_ :: _) => RObj end.
Definition ch_orz (c : chv) : Q := match c with CNum q => q | _ => 0 end.       (* `changed or 0`, as a number *)
Definition str_is_none (s : strv) : bool := match s with SNone => true | _ => false end.

Inductive side := SL | SR.                                (* LOCAL = 0, REMOTE = 1 *)
Definition other (s : side) : side := match s with SL => SR | SR => SL end.     (* OTHER_SIDE[s] *)

Record sidest := {
  s_force : bool;             (* _force_sync *)
  s_changed : chv;            (* _changed *)
  s_oid : strv;               (* _oid *)
  s_hash : hashv;             (* _hash *)
  s_sync_hash : hashv;        (* _sync_hash *)
  s_path : strv;              (* _path *)
  s_sync_path : strv;         (* _sync_path *)
  s_exists : exv;             (* _exists *)
  s_saved : option exv;       (* _saved_exists *)
  s_last_gotten : Q           (* _last_gotten *)
}.
Record entry := {
  e_ignored : ignv;           (* _ignored *)
  e_local : sidest;           (* self[LOCAL] *)
  e_remote : sidest;          (* self[REMOTE] *)
  e_pmL : bool;               (* providers[LOCAL].paths_match(self[LOCAL].sync_path, self[LOCAL].path, for_display=True) *)
  e_pmR : bool
}.
Definition sd (e : entry) (s : side) : sidest := match s with SL => e_local e | SR => e_remote e end.
Definition pm (e : entry) (s : side) : bool := match s with SL => e_pmL e | SR => e_pmR e end.

(* ------------------------------------------------------------------ the predicates (hand model) *)
Definition ex_gone (x : exv) : bool :=                    (* in (TRASHED, LIKELY_TRASHED, MISSING) *)
  match x with XTrashed | XLikelyTrashed | XMissing => true | _ => false end.
Definition ex_deleted (x : exv) : bool :=                 (* in (TRASHED, MISSING) *)
  match x with XTrashed | XMissing => true | _ => false end.
Definition hash_changed (x : sidest) : bool := negb (hash_eqb (s_hash x) (s_sync_hash x)).   (* hash != sync_hash *)

Definition is_corrupt (e : entry) (s : side) : pyres :=
  match s_exists (sd e s) with XCorrupt => RTrue | _ => RFalse end.
Definition corrupt_exists (e : entry) (s : side) : pyres :=
  match s_exists (sd e s), s_saved (sd e s) with XCorrupt, Some XExists => RTrue | _, _ => RFalse end.
Definition corrupt_gone (e : entry) (s : side) : pyres :=
  match s_exists (sd e s), s_saved (sd e s) with
  | XCorrupt, Some y => rb (ex_gone y)
  | _, _ => RFalse
  end.

Definition paths_match (e : entry) (s : side) : pyres := rb (pm e s).
Definition paths_differ (e : entry) (s : side) : pyres := rb (negb (pm e s)).

(* SideState.needs_sync: True when forced; else the falsy stamp, else the falsy oid, else a bool *)
Definition side_needs_sync (e : entry) (s : side) : pyres :=
  let x := sd e s in
  if s_force x then RTrue
  else match s_changed x with
       | CNone => RNone
       | CFalse => RFalse
       | CNum q =>
         if Qeq_bool q 0 then RZero
         else match s_oid x with
              | SNone => RNone
              | SEmpty => RZero
              | SFull => rb (hash_changed x || negb (pm e s) || ex_gone (s_exists x))
              end
       end.

Definition hash_conflict (e : entry) : pyres :=
  let l := e_local e in
  let r := e_remote e in
  match cls_hash (s_hash l), cls_hash (s_hash r), s_path l, s_path r with
  | RObj, RObj, SFull, SFull => rb (hash_changed l && hash_changed r)
  | _, _, _, _ => RFalse
  end.

Definition is_path_change (e : entry) (s : side) : pyres :=
  match s_sync_path (sd e s) with
  | SNone => RNone
  | SEmpty => RZero
  | SFull => rb (negb (pm e s))
  end.

(* returns the STAMP of the side (its class) when the other side exists and this one is trashed / missing *)
Definition is_deletion (e : entry) (s : side) : pyres :=
  match s_exists (sd e (other s)) with
  | XExists => if ex_deleted (s_exists (sd e s)) then cls_ch (s_changed (sd e s)) else RFalse
  | _ => RFalse
  end.

Definition is_creation (e : entry) (s : side) : pyres :=
  let x := sd e s in
  let o := sd e (other s) in
  match s_path x, s_exists x with
  | SFull, XExists =>
    if truth (side_needs_sync e s)
    then rb (match s_oid o with SFull => false | _ => true end
             || ex_deleted (s_exists o)
             || truth (corrupt_gone e (other s)))
    else RFalse
  | _, _ => RFalse
  end.

Definition is_rename (e : entry) (s : side) : pyres :=
  match s_sync_path (sd e s) with
  | SNone => RNone
  | SEmpty => RZero
  | SFull => match s_path (sd e s) with
             | SNone => RNone
             | SEmpty => RZero
             | SFull => rb (negb (pm e s))
             end
  end.

Definition needs_sync (e : entry) : pyres :=
  let l := side_needs_sync e SL in
  if truth l then l else side_needs_sync e SR.

Definition is_discarded (e : entry) : pyres :=
  match e_ignored e with IDiscarded | IIrrelevant => RTrue | _ => RFalse end.
Definition is_irrelevant (e : entry) : pyres := match e_ignored e with IIrrelevant => RTrue | _ => RFalse end.
Definition is_conflicted (e : entry) : pyres := match e_ignored e with IConflict => RTrue | _ => RFalse end.
Definition is_temp_rename (e : entry) : pyres := match e_ignored e with ITempRename => RTrue | _ => RFalse end.
Definition is_trash (e : entry) : pyres :=
  match s_oid (e_local e), s_oid (e_remote e) with SNone, SNone => RTrue | _, _ => RFalse end.

(* max(self[LOCAL].changed or 0, self[REMOTE].changed or 0) *)
Definition max_changed (e : entry) : Q := py_max (ch_orz (s_changed (e_local e))) (ch_orz (s_changed (e_remote e))).
Definition is_latest_side (e : entry) (s : side) : pyres := rb (Qle_bool (max_changed e) (s_last_gotten (sd e s))).
Definition is_latest (e : entry) : pyres :=
  rb (Qle_bool (max_changed e) (s_last_gotten (e_local e)) && Qle_bool (max_changed e) (s_last_gotten (e_remote e))).

(* ------------------------------------------------------------------ wire protocol *)
Definition res_code (r : pyres) : sx :=
  A (match r with RTrue => 1 | RFalse => 0 | RNone => 2 | RZero => 3 | RObj => 4 end)%N.

Definition un_ex (x : sx) : option exv :=
  match x with
  | A 0%N => Some XUnknown | A 1%N => Some XExists | A 2%N => Some XTrashed | A 3%N => Some XMissing
  | A 4%N => Some XLikelyTrashed | A 5%N => Some XCorrupt | _ => None
  end.
Definition un_ign (x : sx) : option ignv :=
  match x with
  | A 0%N => Some INone | A 1%N => Some IDiscarded | A 2%N => Some IConflict | A 3%N => Some ITempRename
  | A 4%N => Some IIrrelevant | _ => None
  end.
Definition un_strv (x : sx) : option strv :=
  match x with A 0%N => Some SNone | A 1%N => Some SEmpty | A 2%N => Some SFull | _ => None end.
Definition un_chv (x : sx) : option chv :=
  match x with
  | L [] => Some CNone
  | L [A 0%N] => Some CFalse
  | L [A 1%N; q] => match un_q q with Some q => Some (CNum q) | None => None end
  | _ => None
  end.
Definition un_hash : sx -> option hashv := un_opt un_str.

Definition un_side (x : sx) : option sidest :=
  match x with
  | L [f; c; o; h; sh; p; sp; ex; sv; lg] =>
    match un_bool f, un_chv c, un_strv o, un_hash h, un_hash sh with
    | Some f, Some c, Some o, Some h, Some sh =>
      match un_strv p, un_strv sp, un_ex ex, un_opt un_ex sv, un_q lg with
      | Some p, Some sp, Some ex, Some sv, Some lg =>
        Some {| s_force := f; s_changed := c; s_oid := o; s_hash := h; s_sync_hash := sh; s_path := p;
                s_sync_path := sp; s_exists := ex; s_saved := sv; s_last_gotten := lg |}
      | _, _, _, _, _ => None
      end
    | _, _, _, _, _ => None
    end
  | _ => None
  end.
Definition un_entry (x : sx) : option entry :=
  match x with
  | L [ig; l; r; a; b] =>
    match un_ign ig, un_side l, un_side r, un_bool a, un_bool b with
    | Some ig, Some l, Some r, Some a, Some b =>
      Some {| e_ignored := ig; e_local := l; e_remote := r; e_pmL := a; e_pmR := b |}
    | _, _, _, _, _ => None
    end
  | _ => None
  end.

(* every predicate, in the fixed order the harness knows (harness/entrypred.py PRED_ORDER) *)
Definition both (f : entry -> side -> pyres) (e : entry) : list sx := [res_code (f e SL); res_code (f e SR)].
Definition all_preds (e : entry) : sx :=
  L (both is_corrupt e ++ both corrupt_exists e ++ both corrupt_gone e ++ both paths_match e ++ both paths_differ e
     ++ both side_needs_sync e ++ [res_code (hash_conflict e)] ++ both is_path_change e ++ both is_deletion e
     ++ both is_creation e ++ both is_rename e
     ++ [res_code (needs_sync e); res_code (is_discarded e); res_code (is_irrelevant e); res_code (is_conflicted e);
         res_code (is_trash e); res_code (is_temp_rename e); res_code (is_latest e)]
     ++ both is_latest_side e).

Definition run (x : sx) : sx :=
  match x with
  | L [A 0%N; en] =>                             (* all predicates of one entry *)
    match un_entry en with Some e => all_preds e | None => sx_malformed end
  | L [A 1%N; ps; b; o] =>                       (* Runnable: in_backoff after one do(), and the sleep requested *)
    match un_params ps, un_q b, un_outcome o with
    | Some p, Some b, Some o => L [sx_q (after_do p b o); sx_q (sleep_of p (after_do p b o))]
    | _, _, _ => sx_malformed
    end
  | _ => sx_malformed
  end.
