(* CacheTame.v — the tame states (all stored names normalised and non-empty) are closed under
   the regular operations: no empty path component and no insertion at the root path.  In particular [step] never answers
   RUnmodelled along a regular sequence. *)
From Coq Require Import NArith List Bool Lia.
From CS Require Import Sx Str CacheModel CacheProofs CacheInv CacheLaws.
Import ListNotations.

Definition fold_ok (cf : cfg) : Prop :=
  (forall n, cf_fold cf (cf_fold cf n) = cf_fold cf n) /\ (forall n, n <> 0%N -> cf_fold cf n <> 0%N).

Lemma fold_ok_id tm : fold_ok {| cf_fold := fun n => n; cf_tmpl := tm |}.
Proof. split; simpl; auto. Qed.

Lemma fold_ok_std tm : fold_ok {| cf_fold := fold_std; cf_tmpl := tm |}.
Proof.
  split; simpl; intros n; unfold fold_std.
  - destruct (N.leb_spec 65 n), (N.leb_spec n 90), (N.leb_spec 192 n), (N.leb_spec n 222), (N.eqb_spec n 215);
      cbn [andb negb];
      repeat (match goal with
              | |- context [N.leb ?a ?b] => destruct (N.leb_spec a b)
              | |- context [N.eqb ?a ?b] => destruct (N.eqb_spec a b)
              end; cbn [andb negb]); try reflexivity; lia.
  - intros Hn.
    destruct (N.leb_spec 65 n), (N.leb_spec n 90), (N.leb_spec 192 n), (N.leb_spec n 222), (N.eqb_spec n 215);
      cbn [andb negb]; lia.
Qed.

Definition path_ok (p : list N) : bool := forallb (fun n => negb (N.eqb n 0)) p.
Definition nonnil (p : list N) : bool := match p with [] => false | _ => true end.

Definition op_regular (cf : cfg) (x : op) : bool :=
  match x with
  | OCreate p _ _ | OMkdir p _ _ | OSetOid p _ _ | OUpdate p _ _ _ _ => path_ok p && nonnil p
  | ORename _ q => path_ok q && nonnil q
  | ODelete _ _ | OSetMeta _ _ _ => true
  end.

Section Tame.
  Variable cf : cfg.
  Hypothesis Hfold : fold_ok cf.
  Let fold := cf_fold cf.

  Lemma keys_ok_add_kid n c t :
    name_ok fold n = true -> keys_ok fold t = true -> keys_ok fold c = true ->
    keys_ok fold (add_kid n c t) = true.
  Proof.
    destruct t as [d i m kids]. unfold keys_ok. simpl. intros Hn H Hc.
    apply andb_true_iff in H as [H1 H2]. apply andb_true_iff. split; [|apply forallb_aset; assumption].
    destruct (aget n kids) as [c0|] eqn:E.
    - rewrite (keys_aset_in _ _ _ _ E). exact H1.
    - rewrite (keys_aset_none _ _ _ E), forallb_app, H1. simpl. rewrite Hn. reflexivity.
  Qed.

  Lemma tame_path_ok t : forall rp nd,
    keys_ok fold t = true -> lookup rp t = Some nd -> forallb (name_ok fold) rp = true.
  Proof.
    intros rp. revert t. induction rp as [|n rp IH]; intros t nd Ht Hl; [reflexivity|].
    simpl in Hl. destruct (aget n (n_kids t)) as [c|] eqn:E; [|discriminate].
    assert (Hc : keys_ok fold c = true) by (eapply all_nodes_kid; eauto).
    simpl. rewrite (IH c nd Hc Hl), andb_true_r.
    destruct t as [d i m kids]. unfold keys_ok in Ht. simpl in Ht. apply andb_true_iff in Ht as [Hk _].
    rewrite forallb_forall in Hk. apply Hk. apply aget_in in E. apply in_map_iff. exists (n, c). auto.
  Qed.

  Lemma name_ok_fold n : n <> 0%N -> name_ok fold (fold n) = true.
  Proof.
    intros Hn. destruct Hfold as [Hi Hz]. unfold name_ok, fold. rewrite Hi, N.eqb_refl. simpl.
    apply negb_true_iff. apply N.eqb_neq. apply Hz. exact Hn.
  Qed.

  Lemma name_ok_nz n : name_ok fold n = true -> n <> 0%N.
  Proof. unfold name_ok. intros H. apply andb_true_iff in H as [_ H]. apply negb_true_iff in H. apply N.eqb_neq. exact H. Qed.

  Lemma in_removelast (x : N) l : In x (removelast l) -> In x l.
  Proof.
    induction l as [|a l IH]; simpl; [tauto|]. destruct l as [|b l]; [simpl; tauto|].
    intros [H|H]; [auto|right; apply IH; exact H].
  Qed.

  Lemma last_in (l : list N) d : l <> [] -> In (last l d) l.
  Proof.
    induction l as [|a l IH]; [congruence|]. intros _. destruct l as [|b l]; [left; reflexivity|].
    right. apply IH. discriminate.
  Qed.

  Lemma delete_loc_tame c l : tame cf c = true -> tame cf (snd (delete_loc c l)) = true.
  Proof.
    unfold tame. intros H. destruct l as [|rp|o g]; try exact H.
    destruct rp as [|n rp]; cbn [delete_loc snd with_root c_root].
    - apply all_nodes_clear; [intros; reflexivity|exact H].
    - apply all_nodes_remove; [apply PN_del|exact H].
  Qed.

  (* raw: every component non-empty, the last one already normalised *)
  Lemma insert_node_tame c nd raw :
    Inv c -> tame cf c = true -> keys_ok fold nd = true ->
    path_ok raw = true -> raw <> [] -> fold (last raw 0%N) = last raw 0%N ->
    tame cf (snd (insert_node cf c nd raw)) = true.
  Proof.
    intros HI Ht Hnd Hp Hne Hlast. unfold insert_node, insert_tail.
    assert (Hpar : Forall (fun n => name_ok fold n = true) (map (cf_fold cf) (removelast raw))).
    { apply Forall_forall. intros x Hx. apply in_map_iff in Hx as [y [<- Hy]].
      apply name_ok_fold. apply in_removelast in Hy. unfold path_ok in Hp. rewrite forallb_forall in Hp.
      specialize (Hp y Hy). apply negb_true_iff in Hp. apply N.eqb_neq. exact Hp. }
    assert (Hnm : name_ok fold (last raw 0%N) = true).
    { unfold name_ok. rewrite Hlast, N.eqb_refl. simpl.
      unfold path_ok in Hp. rewrite forallb_forall in Hp. apply Hp. apply last_in. exact Hne. }
    remember (map (cf_fold cf) (removelast raw)) as par eqn:Epar0. clear Epar0.
    set (c1 := with_root c (mkdirp par (c_root c))).
    assert (Ht1 : tame cf c1 = true).
    { unfold tame, c1. simpl.
      apply (all_nodes_mkdirp (PN fold) (fun n => name_ok fold n = true) (PN_del fold) (PN_add fold) (PN_nil fold));
        [exact Hpar|apply HI|exact Ht]. }
    assert (Ht2 := delete_loc_tame c1 (loc_path cf c1 raw) Ht1).
    set (c2 := snd (delete_loc c1 (loc_path cf c1 raw))) in *.
    assert (Hatt : forall c3, tame cf c3 = true -> tame cf (snd (attach_node par (last raw 0%N) nd c3)) = true).
    { intros c3 Ht3. unfold attach_node. destruct (lookup par (c_root c3)) as [P|].
      - unfold tame. simpl. apply all_nodes_modify; [exact Ht3|]. intros x _ Hx.
        apply keys_ok_add_kid; assumption.
      - destruct (n_id nd); exact Ht3. }
    destruct (n_id nd) as [o|]; [|apply Hatt; exact Ht2].
    destruct (loc_oid c2 o) as [|rp|g gn] eqn:El; [| |exact Ht2].
    - cbn [delete_loc snd]. destruct (oid_is _ o); [exact Ht2|]. apply Hatt. exact Ht2.
    - assert (Ht3 := delete_loc_tame c2 (LTree rp) Ht2).
      destruct (oid_is _ o); [exact Ht3|]. apply Hatt. exact Ht3.
  Qed.

  Lemma path_ok_map p : path_ok p = true -> path_ok (map fold p) = true.
  Proof.
    unfold path_ok. rewrite !forallb_forall. intros H x Hx. apply in_map_iff in Hx as [y [<- Hy]].
    specialize (H y Hy). apply negb_true_iff in H. apply N.eqb_neq in H.
    apply negb_true_iff. apply N.eqb_neq. apply Hfold. exact H.
  Qed.

  Lemma last_map (f : N -> N) (l : list N) d : l <> [] -> last (map f l) d = f (last l d).
  Proof.
    induction l as [|a l IH]; [congruence|]. intros _. destruct l as [|b l]; [reflexivity|].
    change (last (f a :: map f (b :: l)) d = f (last (b :: l) d)).
    transitivity (last (map f (b :: l)) d); [reflexivity|]. apply IH. discriminate.
  Qed.

  Lemma make_node_tame c d p o m :
    Inv c -> tame cf c = true -> path_ok p = true -> p <> [] ->
    tame cf (snd (make_node cf c d p o m)) = true.
  Proof.
    intros HI Ht Hp Hne. unfold make_node. destruct (negb (md_ok_opt cf m)); [exact Ht|].
    apply insert_node_tame; auto.
    - apply path_ok_map. exact Hp.
    - destruct p; [congruence|discriminate].
    - rewrite last_map by exact Hne. apply Hfold.
  Qed.

  Lemma edit_tame rp f c :
    (forall nd, n_kids (f nd) = n_kids nd) -> (forall nd, n_dir (f nd) = n_dir nd) ->
    tame cf c = true -> tame cf (with_root c (modify rp f (c_root c))) = true.
  Proof.
    intros Hk Hd Ht. unfold tame. simpl. apply all_nodes_modify; [exact Ht|].
    intros nd _ H. unfold keys_ok. rewrite (all_nodes_fields _ _ nd); auto.
  Qed.

  Lemma path_ok_of_names rp : forallb (name_ok fold) rp = true -> path_ok rp = true.
  Proof.
    unfold path_ok. rewrite !forallb_forall. intros H x Hx. specialize (H x Hx).
    unfold name_ok in H. apply andb_true_iff in H as [_ H]. exact H.
  Qed.

  Lemma set_oid_node_tame c rp o :
    Inv c -> tame cf c = true -> rp <> [] -> tame cf (snd (fst (set_oid_node cf c rp o))) = true.
  Proof.
    intros HI Ht Hne. unfold set_oid_node.
    destruct (lookup rp (c_root c)) as [[d i m k]|] eqn:El; [|exact Ht].
    assert (Hrp : path_ok rp = true) by (apply path_ok_of_names; eapply tame_path_ok; eauto).
    destruct (oid_is i o); [exact Ht|].
    assert (Hgen : forall l, Inv (snd (delete_loc c l)) -> tame cf (snd (delete_loc c l)) = true ->
                   tame cf (snd (fst (set_oid_after cf (snd (delete_loc c l)) rp o d i m))) = true).
    { intros l HI1 Ht1. unfold set_oid_after. destruct i as [k0|].
      - destruct (opt_is (lookup rp (c_root (snd (delete_loc c l))))); [|exact Ht1].
        pose proof (make_node_tame (snd (delete_loc c l)) d rp (Some o) None HI1 Ht1 Hrp Hne) as H.
        destruct (make_node cf (snd (delete_loc c l)) d rp (Some o) None) as [r c2]. exact H.
      - destruct (opt_is (lookup rp (c_root (snd (delete_loc c l))))); [|exact Ht1].
        apply edit_tame; [intros []; reflexivity|intros []; reflexivity|exact Ht1]. }
    destruct (loc_oid c o) as [|rp'|g gn]; [| |exact Ht].
    - apply Hgen; [apply delete_loc_spec; exact HI|apply delete_loc_tame; exact Ht].
    - apply Hgen; [apply delete_loc_spec; exact HI|apply delete_loc_tame; exact Ht].
  Qed.

  Lemma map_nonnil (p : list N) : p <> [] -> map fold p <> [].
  Proof. destruct p; [congruence|discriminate]. Qed.

  Lemma regular_split p : path_ok p && nonnil p = true -> path_ok p = true /\ p <> [].
  Proof. intros H. apply andb_true_iff in H as [H1 H2]. split; [exact H1|]. destruct p; [discriminate|discriminate]. Qed.

  Theorem step_tame c x :
    Inv c -> tame cf c = true -> op_regular cf x = true -> tame cf (snd (step cf c x)) = true.
  Proof.
    intros HI Ht Hr. unfold step. rewrite Ht. cbn [negb].
    destruct x as [p o m|p o m|p q|o p|p o d|p d o m keep|m o p]; simpl in Hr.
    - apply regular_split in Hr as [H1 H2]. apply make_node_tame; auto.
    - apply regular_split in Hr as [H1 H2]. apply make_node_tame; auto.
    - apply regular_split in Hr as [H1 H2].
      unfold op_rename. destruct (loc_path cf c p) as [|rp|g gn] eqn:Ep.
      + apply delete_loc_tame. exact Ht.
      + destruct rp as [|n rp]; [exact Ht|].
        destruct (lookup (n :: rp) (c_root c)) as [nd|] eqn:El; [|exact Ht].
        set (c1 := with_root c (remove (n :: rp) (c_root c))).
        assert (HI1 : Inv c1).
        { pose proof (delete_loc_spec c (LTree (n :: rp))) as [_ [_ H]]. apply H. exact HI. }
        assert (Ht1 : tame cf c1 = true) by (apply (delete_loc_tame c (LTree (n :: rp))); exact Ht).
        apply insert_node_tame.
        * apply delete_loc_spec. exact HI1.
        * apply delete_loc_tame. exact Ht1.
        * exact (all_nodes_lookup _ _ _ _ Ht El).
        * apply path_ok_map. exact H1.
        * apply map_nonnil. exact H2.
        * rewrite last_map by exact H2. apply Hfold.
      + apply delete_loc_tame. exact Ht.
    - destruct (get_node cf c o p); [|exact Ht]. apply delete_loc_tame. exact Ht.
    - apply regular_split in Hr as [H1 H2]. unfold op_set_oid.
      destruct o as [o|]; [|exact Ht]. destruct d as [d|]; [|exact Ht].
      unfold loc_path. destruct (lookup (map (cf_fold cf) p) (c_root c)); [|apply make_node_tame; auto].
      pose proof (set_oid_node_tame c (map (cf_fold cf) p) o HI Ht (map_nonnil p H2)) as H.
      destruct (set_oid_node cf c (map (cf_fold cf) p) o) as [[r c1] ft]. exact H.
    - apply regular_split in Hr as [H1 H2]. unfold op_update.
      destruct (negb (md_ok cf (md_or m))); [exact Ht|].
      unfold loc_path at 1. cbv zeta.
      destruct (map (cf_fold cf) p) as [|n rp] eqn:Ep; [exfalso; eapply map_nonnil; eauto|].
      destruct (lookup (n :: rp) (c_root c)) as [nd|] eqn:El; [|apply make_node_tame; auto].
      cbv iota beta. rewrite El.
      destruct (negb (Bool.eqb (n_dir nd) d)).
      + apply make_node_tame; auto.
        * pose proof (delete_loc_spec c (LTree (n :: rp))) as [_ [_ H]]. apply H. exact HI.
        * apply (delete_loc_tame c (LTree (n :: rp))). exact Ht.
      + assert (Hs : forall x, tame cf (snd (fst x)) = true ->
                 tame cf (snd (let '(r, c1, ft) := x in
                   match r with
                   | ROk =>
                     if keep then
                       match ft with
                       | FSame => (ROk, with_root c1 (modify (n :: rp) (upd_md (md_or m)) (c_root c1)))
                       | FGone => (ROk, c1)
                       | FGhost =>
                         match o with
                         | Some o0 => match aget o0 (c_ghosts c1) with
                                      | Some g => (ROk, with_ghost c1 o0 (upd_md (md_or m) g))
                                      | None => (ROk, c1)
                                      end
                         | None => (ROk, c1)
                         end
                       end
                     else
                       match loc_path cf c1 p with
                       | LTree rp' => (ROk, with_root c1 (modify rp' (set_md (md_or m)) (c_root c1)))
                       | _ => (ROk, c1)
                       end
                   | _ => (r, c1)
                   end)) = true).
        { intros [[r c1] ft] H. simpl in H. destruct r; try exact H.
          destruct keep.
          - destruct ft; [apply edit_tame; [intros []; reflexivity|intros []; reflexivity|exact H]|exact H|].
            destruct o as [o0|]; [|exact H]. destruct (aget o0 (c_ghosts c1)); exact H.
          - destruct (loc_path cf c1 p); try exact H.
            apply edit_tame; [intros []; reflexivity|intros []; reflexivity|exact H]. }
        destruct o as [o0|].
        * apply (Hs (set_oid_node cf c (n :: rp) o0)).
          apply set_oid_node_tame; auto. discriminate.
        * apply (Hs (ROk, c, FSame)). exact Ht.
    - unfold op_set_meta. destruct (negb (md_ok_opt cf m)); [exact Ht|].
      destruct (get_node cf c o p) as [[|rp|g gn]|]; try exact Ht.
      apply edit_tame; [intros []; reflexivity|intros []; reflexivity|exact Ht].
  Qed.

  Theorem exec_regular_from ops : forall c,
    Inv c -> tame cf c = true -> forallb (op_regular cf) ops = true ->
    tame cf (exec cf c ops) = true /\ Inv (exec cf c ops).
  Proof.
    unfold exec. induction ops as [|x ops IH]; intros c HI Ht Hr; simpl; [auto|].
    simpl in Hr. apply andb_true_iff in Hr as [Hx Hr].
    apply IH; [apply step_inv; exact HI|apply step_tame; assumption|exact Hr].
  Qed.
End Tame.

Theorem exec_regular cf ops r m :
  fold_ok cf -> forallb (op_regular cf) ops = true ->
  tame cf (exec cf (init r m) ops) = true /\ Inv (exec cf (init r m) ops).
Proof.
  intros Hf Hr. apply exec_regular_from; [exact Hf|apply inv_init|reflexivity|exact Hr].
Qed.


(* ------------------------------------------------------------------ RUnmodelled only comes from the tame test *)
Lemma delete_loc_modelled c l : fst (delete_loc c l) <> RUnmodelled.
Proof. destruct l as [|[|n rp]|o g]; simpl; discriminate. Qed.

Lemma attach_node_modelled par nm nd c3 : fst (attach_node par nm nd c3) <> RUnmodelled.
Proof. unfold attach_node. destruct (lookup par (c_root c3)); [simpl; discriminate|]. destruct (n_id nd); simpl; discriminate. Qed.

Lemma insert_node_modelled cf c nd raw : fst (insert_node cf c nd raw) <> RUnmodelled.
Proof.
  unfold insert_node, insert_tail. destruct (n_id nd) as [o|]; [|apply attach_node_modelled].
  destruct (loc_oid _ o); try (simpl; discriminate);
    (destruct (oid_is _ o); [simpl; discriminate|apply attach_node_modelled]).
Qed.

Lemma make_node_modelled cf c d p o m : fst (make_node cf c d p o m) <> RUnmodelled.
Proof. unfold make_node. destruct (negb (md_ok_opt cf m)); [simpl; discriminate|apply insert_node_modelled]. Qed.

Lemma set_oid_node_modelled cf c rp o : fst (fst (set_oid_node cf c rp o)) <> RUnmodelled.
Proof.
  unfold set_oid_node. destruct (lookup rp (c_root c)) as [[d i m k]|]; [|simpl; discriminate].
  destruct (oid_is i o); [simpl; discriminate|].
  assert (H : forall c1, fst (fst (set_oid_after cf c1 rp o d i m)) <> RUnmodelled).
  { intros c1. unfold set_oid_after. destruct i.
    - destruct (opt_is (lookup rp (c_root c1))); [|simpl; discriminate].
      pose proof (make_node_modelled cf c1 d rp (Some o) None) as Hm.
      destruct (make_node cf c1 d rp (Some o) None) as [r c2]. exact Hm.
    - destruct (opt_is (lookup rp (c_root c1))); simpl; discriminate. }
  destruct (loc_oid c o); try apply H. simpl. discriminate.
Qed.

Theorem tame_step_modelled cf c x : tame cf c = true -> fst (step cf c x) <> RUnmodelled.
Proof.
  intros Ht. unfold step. rewrite Ht. cbn [negb].
  destruct x as [p o m|p o m|p q|o p|p o d|p d o m keep|m o p].
  - apply make_node_modelled.
  - apply make_node_modelled.
  - unfold op_rename. destruct (loc_path cf c p) as [|[|n rp]|g gn]; try (simpl; discriminate).
    destruct (lookup (n :: rp) (c_root c)); [apply insert_node_modelled|simpl; discriminate].
  - destruct (get_node cf c o p); [apply delete_loc_modelled|simpl; discriminate].
  - unfold op_set_oid. destruct o as [o|]; [|simpl; discriminate]. destruct d as [d|]; [|simpl; discriminate].
    destruct (loc_path cf c p) as [|rp|g gn]; try apply make_node_modelled.
    pose proof (set_oid_node_modelled cf c rp o) as H.
    destruct (set_oid_node cf c rp o) as [[r c1] ft]. exact H.
  - unfold op_update. destruct (negb (md_ok cf (md_or m))); [simpl; discriminate|].
    destruct (loc_path cf c p) as [|rp|g gn]; try apply make_node_modelled.
    destruct (lookup rp (c_root c)) as [nd|]; [|simpl; discriminate].
    destruct (negb (Bool.eqb (n_dir nd) d)); [apply make_node_modelled|].
    assert (Hs : forall x : outcome * cache * fate, fst (fst x) <> RUnmodelled ->
             fst (let '(r, c1, ft) := x in
                  match r with
                  | ROk =>
                    if keep then
                      match ft with
                      | FSame => (ROk, with_root c1 (modify rp (upd_md (md_or m)) (c_root c1)))
                      | FGone => (ROk, c1)
                      | FGhost =>
                        match o with
                        | Some o0 => match aget o0 (c_ghosts c1) with
                                     | Some g => (ROk, with_ghost c1 o0 (upd_md (md_or m) g))
                                     | None => (ROk, c1)
                                     end
                        | None => (ROk, c1)
                        end
                      end
                    else
                      match loc_path cf c1 p with
                      | LTree rp' => (ROk, with_root c1 (modify rp' (set_md (md_or m)) (c_root c1)))
                      | _ => (ROk, c1)
                      end
                  | _ => (r, c1)
                  end) <> RUnmodelled).
    { intros [[r c1] ft] H. simpl in H. destruct r; try exact H.
      destruct keep.
      - destruct ft; try (simpl; discriminate). destruct o as [o0|]; [|simpl; discriminate].
        destruct (aget o0 (c_ghosts c1)); simpl; discriminate.
      - destruct (loc_path cf c1 p); simpl; discriminate. }
    destruct o as [o0|].
    + apply (Hs (set_oid_node cf c rp o0)). apply set_oid_node_modelled.
    + apply (Hs (ROk, c, FSame)). simpl. discriminate.
  - unfold op_set_meta. destruct (negb (md_ok_opt cf m)); [simpl; discriminate|].
    destruct (get_node cf c o p) as [[|rp|g gn]|]; simpl; discriminate.
Qed.

(* along a regular sequence the model never leaves its fragment *)
Theorem regular_never_unmodelled cf ops r m x :
  fold_ok cf -> forallb (op_regular cf) ops = true ->
  fst (step cf (exec cf (init r m) ops) x) <> RUnmodelled.
Proof.
  intros Hf Hr. destruct (exec_regular cf ops r m Hf Hr) as [Ht _]. apply tame_step_modelled. exact Ht.
Qed.
