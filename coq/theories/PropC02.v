(* PropC02.v — C02: no silent data loss. *)
From Coq Require Import NArith List Bool.
From CS Require Import Sx TreeModel Monitor MonitorProofs MonitorExamples.
Import ListNotations.

Theorem C02_quiet_nothing_lost : forall cfg l r tr m',
  accept cfg l r tr = inl m' ->
  forall pre x post, tr = pre ++ x :: post -> o_ev x = EQuiet ->
    exists ma, run_of cfg (init_state cfg l r) pre ma /\
      forall c, In c (cov ma) -> In c (contents (o_L x)) \/ In c (contents (o_R x)).
Proof. exact quiet_nothing_lost. Qed.
Print Assumptions C02_quiet_nothing_lost.

Theorem C02_no_engine_action_loses_a_version : forall cfg l r tr m',
  cov_every_step cfg = true -> accept cfg l r tr = inl m' ->
  forall pre x post s ts, tr = pre ++ x :: post -> o_ev x = EEng s ts ->
    exists ma, run_of cfg (init_state cfg l r) pre ma /\
      forall c, In c (cov ma) -> In c (contents (o_L x)) \/ In c (contents (o_R x)).
Proof. exact step_nothing_lost. Qed.
Print Assumptions C02_no_engine_action_loses_a_version.

(* what "covered" means: written by a user and not since overwritten or deleted by a user *)
Theorem C02_covered_meaning : forall t o cv c,
  In c (cov_after t o cv) <->
  match o with
  | Create p d => (lookup t p = None /\ parent_ok t p = true /\ c = d) \/ In c cv
  | Write p d => match lookup t p with
                 | Some (File old) => c = d \/ (In c cv /\ c <> old)
                 | _ => In c cv
                 end
  | Delete p => match lookup t p with
                | Some (File old) => In c cv /\ c <> old
                | _ => In c cv
                end
  | Mkdir _ | Rename _ _ => In c cv
  end.
Proof. exact cov_after_spec. Qed.
Print Assumptions C02_covered_meaning.

Theorem C02_example_rejected_when_last_copy_deleted :
  accept (ex_cfg None) ex_l0 ex_r0
    [ {| o_ev := EUser false (Create [1; 3] 7)%N; o_L := ex_l1; o_R := ex_r0 |};
      {| o_ev := EEng false [[1; 3]%N]; o_L := ex_l0; o_R := ex_r0 |} ] = inr (1%nat, G_COVERED_STEP).
Proof. exact ex_rejected_lost. Qed.
Print Assumptions C02_example_rejected_when_last_copy_deleted.
