From Coq Require Import ExtrOcamlBasic.
From CS Require Import Sx StateGuardModel.
Definition run := StateGuardModel.run.
Extraction "extract/stateguard/model.ml" run.
