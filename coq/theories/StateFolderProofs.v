(* StateFolderProofs.v — folder path assignment (_change_path + _update_kids, recursion through the
   children) keeps the index invariant, provided the new path is not strictly below the folder's own
   previous path (the class of C11-F4, for which the setters do not even terminate).
   Proof: induction on the fuel with a frame statement ("which entries may have been re-pathed by a
   call"): a nested call for a child only re-paths entries whose path was below the child's old path,
   hence below the folder's old path; the folder itself (now at the new path) is not among them. *)
From Coq Require Import NArith List Bool Arith Lia.
From CS Require Import Sx Str PathModel PathLaws StateModel StateProofs StatePathProofs StateGuardModel.
Import ListNotations.

(* ------------------------------------------------------------------ paths as component lists *)

Lemma strs_eqb_eq a b : strs_eqb a b = true <-> a = b.
Proof.
  revert b. induction a as [|x a IH]; intros [|y b]; simpl; split; intros H; try discriminate; try reflexivity.
  - apply andb_prop in H as [H1 H2]. apply str_eqb_eq in H1. apply IH in H2. congruence.
  - injection H as -> ->. rewrite str_eqb_refl. apply IH. reflexivity.
Qed.
Lemma belowb_spec cv a b : belowb cv a b = true <-> below cv a b.
Proof.
  unfold belowb, below. split.
  - intros H. apply andb_prop in H as [H1 H2]. apply Nat.ltb_lt in H1. apply strs_eqb_eq in H2.
    exists (skipn (length (Kc cv a)) (Kc cv b)). split.
    + intros Hn. pose proof (firstn_skipn (length (Kc cv a)) (Kc cv b)) as Hs. rewrite Hn, app_nil_r, H2 in Hs.
      rewrite <- Hs in H1. lia.
    + pose proof (firstn_skipn (length (Kc cv a)) (Kc cv b)) as Hs. rewrite H2 in Hs. symmetry. exact Hs.
  - intros [r [Hr H]]. rewrite H. rewrite app_length. apply andb_true_intro. split.
    + apply Nat.ltb_lt. destruct r; [contradiction|simpl; lia].
    + rewrite firstn_len_app. apply strs_eqb_eq. reflexivity.
Qed.

Lemma lowk_nil_iff cv l : lowk cv l = [] <-> l = [].
Proof. unfold lowk. destruct (cv_cs cv); [reflexivity|]. split; [apply map_eq_nil|intros ->; reflexivity]. Qed.

Lemma Kc_join cv p rel : Kc cv (join cv [p; rel]) = Kc cv p ++ Kc cv rel.
Proof. unfold Kc. rewrite pc_join. simpl. rewrite app_nil_r. apply lowk_app. Qed.
Lemma Kc_sub cv (Hok : conv_ok cv) f t st r : is_subpath cv f t st = Rel r -> Kc cv t = Kc cv f ++ Kc cv r.
Proof. apply is_subpath_components. exact Hok. Qed.
Lemma Kc_nps cv p : Kc cv (nps cv p) = Kc cv p.
Proof. unfold Kc. rewrite pc_nps. reflexivity. Qed.

Lemma comps_nil_repeat c s : comps c s = [] -> s = repeat c (length s).
Proof.
  induction s as [|x s IH]; intros H; [reflexivity|]. simpl in H.
  destruct (N.eqb_spec x c) as [->|Hx].
  - simpl. f_equal. apply IH. exact H.
  - destruct (starts_comp c s); [destruct (comps c s)|]; discriminate.
Qed.

Lemma relpart_comps cv rel : relpart cv rel -> pc cv rel <> [].
Proof.
  intros [r' [E [Hr [Hna Hrs]]]] Hc. rewrite (pc_noalt cv _ Hna) in Hc.
  apply comps_nil_repeat in Hc. rewrite Hc, rstrip_repeat in Hrs. subst rel. discriminate.
Qed.

(* a strict sub-path answer has a non-empty target ... *)
Lemma sub_strict_target cv f t r : is_subpath cv f t true = Rel r -> nps cv t <> [].
Proof.
  intros H Hn. assert (Hne : is_subpath cv f t true <> NotSub) by (rewrite H; discriminate).
  apply is_subpath_args in Hne as [Hf Ht]. rewrite is_subpath_eq in H by assumption. cbv zeta in H.
  rewrite Hn in H. destruct (str_eqb _ _); [discriminate|].
  assert (Hl : lowc cv [] = []) by (unfold lowc; destruct (cv_cs cv); reflexivity).
  rewrite Hl in H. simpl firstn in H. cbn [str_eqb] in H. rewrite andb_false_r in H.
  simpl length in H. destruct (Nat.ltb_spec (length (nps cv f)) 0) as [Hlt|_]; [lia|discriminate].
Qed.

(* ... and, below a folder whose own path is not blank, a non-empty relative part *)
Lemma sub_strict_rel cv (Hok : conv_ok cv) f t r :
  is_subpath cv f t true = Rel r -> nps cv f <> [] -> Kc cv r <> [].
Proof.
  intros H Hnf Hk. apply lowk_nil_iff in Hk.
  destruct (is_subpath_rel_shape cv Hok _ _ _ _ H) as [Hr|Hr]; [|exact (relpart_comps cv r Hr Hk)].
  subst r. assert (Hne : is_subpath cv f t true <> NotSub) by (rewrite H; discriminate).
  apply is_subpath_args in Hne as [Hf Ht]. rewrite is_subpath_eq in H by assumption. cbv zeta in H.
  destruct (str_eqb_spec (lowc cv (nps cv f)) (lowc cv (nps cv t))) as [Eq|Eq]; [discriminate|].
  destruct (andb _ _) eqn:Ea in H.
  - injection H as H. apply andb_true_iff in Ea as [E1 _]. apply str_eqb_eq in E1.
    apply Eq. rewrite H, E1. symmetry. apply (lowc_sep_iff cv Hok). reflexivity.
  - destruct (Nat.ltb_spec (length (nps cv f)) (length (nps cv t))) as [Hl|Hl]; [|discriminate].
    destruct (nth_error (nps cv t) (length (nps cv f))) as [y|]; [|discriminate].
    destruct (N.eqb y (cv_sep cv)); [|discriminate].
    destruct (startswith _ _); [|discriminate]. injection H as H.
    pose proof (firstn_skipn (length (nps cv f)) (nps cv t)) as Hsplit. rewrite H in Hsplit.
    destruct (nps_shape cv t) as [Hs|Hs].
    + rewrite Hs in Hl. simpl in Hl. destruct (nps cv f); [apply Hnf; reflexivity|simpl in Hl; lia].
    + rewrite <- Hsplit in Hs. rewrite rstrip_app_drop in Hs.
      * pose proof (rstrip_length_le (cv_sep cv) (firstn (length (nps cv f)) (nps cv t))) as Hle.
        rewrite Hs, app_length in Hle. simpl in Hle. lia.
      * change [cv_sep cv] with (repeat (cv_sep cv) 1). apply rstrip_repeat.
Qed.

(* the guard is inherited by the children: they move from pp/R to p/R *)
Lemma below_cancel {T} (A B R : list T) :
  (exists r, r <> [] /\ B ++ R = (A ++ R) ++ r) -> exists t, t <> [] /\ B = A ++ t.
Proof.
  intros [r [Hr H]]. rewrite <- app_assoc in H. apply app_eq_app in H as [a [[H1 H2]|[H1 H2]]].
  - exists a. split; [|exact H1]. intros ->. simpl in H2. apply (f_equal (@length T)) in H2.
    rewrite app_length in H2. destruct r; [contradiction|simpl in H2; lia].
  - exfalso. apply (f_equal (@length T)) in H2. rewrite !app_length in H2. destruct r; [contradiction|simpl in H2; lia].
Qed.

(* ------------------------------------------------------------------ what _change_oid leaves alone: paths and object types *)

Lemma pview_eq s s' : pview s = pview s' ->
  forall e sd, path_of s e sd = path_of s' e sd /\ otype_of s e sd = otype_of s' e sd.
Proof.
  unfold pview. intros H e sd. unfold path_of, otype_of.
  assert (Hn: nth_error (map pkey (ents s)) e = nth_error (map pkey (ents s')) e) by (rewrite H; reflexivity).
  rewrite !nth_error_map in Hn.
  destruct (nth_error (ents s) e) as [a|], (nth_error (ents s') e) as [b|]; simpl in Hn; try discriminate; [|split; reflexivity].
  injection Hn as Ha Hb Hc Hd. unfold gs. destruct sd; split; congruence.
Qed.
Lemma pview_ents s s' : ents s = ents s' -> pview s = pview s'.
Proof. unfold pview. intros ->. reflexivity. Qed.
Lemma pview_raw_side s e sd f :
  (forall x, s_path (f x) = s_path x /\ s_otype (f x) = s_otype x) -> pview (raw_side s e sd f) = pview s.
Proof.
  intros Hf. unfold raw_side. destruct (nth_error (ents s) e) as [en|] eqn:En; [|reflexivity].
  unfold pview, put_ent. simpl. apply (map_list_upd pkey _ _ _ _ En).
  unfold pkey, ss, gs. destruct sd; simpl; [destruct (Hf (e_r en)) as [-> ->]|destruct (Hf (e_l en)) as [-> ->]]; reflexivity.
Qed.

Lemma oid_finish_pview fin e sd v s1 s' : oid_finish fin e sd v s1 = Ok s' -> pview s' = pview s1.
Proof.
  unfold oid_finish. intros H. bind_inv H. cbv zeta in H.
  match type of H with Ok (if fin then raw_side (dirty_add ?S2 e) e sd ?F else _) = _ => set (s2 := S2) in *; assert (H2: pview s2 = pview s1) end.
  { unfold s2. destruct v as [o|].
    - match goal with |- pview (if ?c then cs_add ?SB e else _) = _ => set (sb := SB); transitivity (pview sb); [destruct c; reflexivity|] end.
      transitivity (pview (raw_side s1 e sd (fun y => w_oid y (Some o)))).
      + apply pview_ents. unfold sb. destruct (s_path (gs x sd)) as [[|c pp]|]; [|rewrite ents_slot_set|]; apply ents_st_oids.
      + apply pview_raw_side. intros y; split; reflexivity.
    - destruct (_ && _)%bool; reflexivity. }
  injection H as <-. destruct fin; [|exact H2].
  rewrite pview_raw_side; [exact H2|intros y; split; reflexivity].
Qed.

Lemma oid_step_pview rec e sd r s s' :
  (forall fin e sd v s s', rec (COid fin e sd v) s = Ok s' -> pview s' = pview s) ->
  oid_step rec e sd r s = Ok s' -> pview s' = pview s.
Proof.
  intros Hrec H. unfold oid_step in H. destruct r as [ro|]; [|injection H as <-; reflexivity].
  destruct (al_get ro (oids s sd)) as [pe|]; [|injection H as <-; reflexivity].
  bind_inv H.
  match type of H with (if _ then Ok ?S2 else _) = _ => assert (H2: pview S2 = pview s) end.
  { apply pview_ents. destruct (s_path (gs x sd)) as [[|c pp]|]; [|cbn [tstr]; rewrite ents_slot_pop|]; apply ents_st_oids. }
  destruct (Nat.eqb pe e); [injection H as <-; exact H2|]. apply Hrec in H. rewrite H. exact H2.
Qed.

Lemma exec_oid_pview E f : forall fin e sd v s s', exec E f (COid fin e sd v) s = Ok s' -> pview s' = pview s.
Proof.
  induction f as [|f IH]; intros fin e sd v s s' H; [discriminate|].
  rewrite exec_oid_eq in H. bind_inv H. bind_inv H.
  apply oid_finish_pview in H. rewrite H. clear H.
  assert (Hst: forall r a b, oid_step (exec E f) e sd r a = Ok b -> pview b = pview a).
  { intros r a b. apply oid_step_pview. exact IH. }
  unfold oid_loop in E1. destruct (ostr_eqb (s_oid (gs x sd)) v); [eapply Hst; exact E1|].
  bind_inv E1. destruct x1 as [sw s0]. unfold pop_swap in E2.
  destruct (tape s) as [|[b|l] r]; try discriminate. injection E2 as <- <-.
  destruct b; bind_inv E1; apply Hst in E1; apply Hst in E2; rewrite E1, E2; reflexivity.
Qed.

Lemma get_all_ordered_view s l s' : get_all_ordered s = Ok (l, s') -> iview s' = iview s.
Proof.
  unfold get_all_ordered, pop_order. destruct (tape s) as [|[b|l0] r]; simpl; try discriminate.
  destruct (_ && _)%bool; [|discriminate]. intros H. injection H as _ <-. reflexivity.
Qed.

Lemma path_of_some_ent s e sd p : path_of s e sd = Some p -> exists en, get_ent s e = Ok en /\ s_path (gs en sd) = Some p.
Proof. unfold path_of, get_ent. destruct (nth_error (ents s) e) as [en|]; [|discriminate]. intros H. exists en. split; [reflexivity|exact H]. Qed.

Lemma raw_side_dirty_add s e sd f k : raw_side (dirty_add s k) e sd f = dirty_add (raw_side s e sd f) k.
Proof. unfold raw_side, dirty_add. simpl. destruct (nth_error (ents s) e); reflexivity. Qed.

(* ------------------------------------------------------------------ the frame of a path assignment *)
Section Folder.
Variable E : env.
Hypothesis Hleg : legacy E = false.
Hypothesis Hok : forall sd, conv_ok (cvs E sd).

(* entry x (path px in state s) lies below the old path q of the folder being moved *)
Definition moved (sd : bool) (q : option str) (s : state) (x : eid) : Prop :=
  exists qq px r, q = Some qq /\ path_of s x sd = Some px /\
    Kc (cvs E sd) px = Kc (cvs E sd) qq ++ r /\ (nps (cvs E sd) qq <> [] -> r <> []).
(* the only paths that differ between s and s': entry k itself, and entries that were below q *)
Definition touch (s s' : state) (sd : bool) (k : eid) (q : option str) : Prop :=
  forall x sd', path_of s' x sd' = path_of s x sd' \/ (sd' = sd /\ (x = k \/ moved sd q s x)).
(* the guard: a folder does not go strictly below its own previous path *)
Definition gd (sd : bool) (ot : otype) (q v : option str) : Prop :=
  ot = Dir -> forall qq p, q = Some qq -> v = Some p -> ~ below (cvs E sd) qq p.

(* no id changes hands, unless the side takes its ids from the provider (oid_is_path) and children are re-filed *)
Definition okeep (s s' : state) (sd : bool) (ot : otype) (q : option str) : Prop :=
  (oip E sd = false \/ ot <> Dir \/ q = None) -> forall x sd', oid_of s' x sd' = oid_of s x sd'.

Definition RecOK (rec : cmd -> state -> res state) : Prop :=
  (forall k sd v s s' en, IdxJ s -> get_ent s k = Ok en -> gd sd (s_otype (gs en sd)) (s_path (gs en sd)) v ->
     rec (CPath true k sd v) s = Ok s' ->
     IdxJ s' /\ touch s s' sd k (s_path (gs en sd)) /\ okeep s s' sd (s_otype (gs en sd)) (s_path (gs en sd))) /\
  (forall e sd v s s', IdxJ s -> rec (COid true e sd v) s = Ok s' -> IdxJ s' /\ pview s' = pview s) /\
  (forall c s s', flag_cmd c = true -> rec c s = Ok s' -> iview s' = iview s).

(* loop invariant of _update_kids for folder e moving from pp to p; s0 = state at loop entry *)
Definition LInv (e : eid) (sd : bool) (pp p : str) (s0 si : state) : Prop :=
  IdxJ si /\ path_of si e sd = Some p /\
  (forall x sd', path_of si x sd' = path_of s0 x sd' \/ (sd' = sd /\ moved sd (Some pp) s0 x)) /\
  (oip E sd = false -> forall x sd', oid_of si x sd' = oid_of s0 x sd').

Lemma kid_step_spec rec e sd pp p sub s0 si si' :
  RecOK rec -> ~ below (cvs E sd) pp p -> LInv e sd pp p s0 si ->
  kid_step E rec e sd pp p sub si = Ok si' -> LInv e sd pp p s0 si'.
Proof.
  intros [R1 [R2 R3]] Hg [HJ [Hpe [Hfr Hok0]]] H. unfold kid_step in H. bind_inv H. rename x into sn.
  destruct (s_path (gs sn sd)) as [sp|] eqn:Esp; [|injection H as <-; split; [exact HJ|split; [assumption|split; assumption]]].
  destruct sp as [|ch sp']; [injection H as <-; split; [exact HJ|split; [assumption|split; assumption]]|].
  set (sp := ch :: sp') in *.
  destruct (is_subpath (cvs E sd) pp sp true) as [|[|c0 rel0]] eqn:Esub;
    try (injection H as <-; split; [exact HJ|split; [assumption|split; assumption]]).
  rewrite Hleg in H. cbn [negb andb] in H.
  destruct (Nat.eqb_spec sub e) as [->|Hne]; [injection H as <-; split; [exact HJ|split; [assumption|split; assumption]]|].
  set (rel := c0 :: rel0) in *. set (np := join (cvs E sd) [p; rel]) in *.
  bind_inv H. rename x into s1. bind_inv H. rename x into s2. bind_inv H. rename x into sn2.
  apply get_ent_ok in E0.
  assert (Hsub: path_of si sub sd = Some sp) by (unfold path_of; rewrite E0; exact Esp).
  (* facts about the three paths *)
  pose proof (Kc_sub _ (Hok sd) _ _ _ _ Esub) as Ksp.
  pose proof (sub_strict_target _ _ _ _ Esub) as Hnsp.
  pose proof (sub_strict_rel _ (Hok sd) _ _ _ Esub) as HR.
  (* the id taken from the provider *)
  assert (H1: IdxJ s1 /\ pview s1 = pview si).
  { destruct (oip E sd); [|injection E1 as <-; split; [exact HJ|reflexivity]].
    destruct (info E sd np) as [o'|]; [|injection E1 as <-; split; [exact HJ|reflexivity]].
    eapply R2; eassumption. }
  destruct H1 as [HJ1 Hpv1].
  assert (Hp1: forall x sd', path_of s1 x sd' = path_of si x sd') by (intros; apply (pview_eq _ _ Hpv1)).
  assert (Hsub1: path_of s1 sub sd = Some sp) by (rewrite Hp1; exact Hsub).
  destruct (path_of_some_ent _ _ _ _ Hsub1) as [sn1 [Hsn1 Hsp1]].
  (* the child's own path assignment *)
  assert (Hgd: gd sd (s_otype (gs sn1 sd)) (s_path (gs sn1 sd)) (Some np)).
  { intros _ qq p0 Hq Hp0. rewrite Hsp1 in Hq. injection Hq as <-. injection Hp0 as <-.
    intros Hb. apply Hg. unfold below in *. unfold np in Hb. rewrite Kc_join, Ksp in Hb.
    apply (below_cancel _ _ (Kc (cvs E sd) rel)). exact Hb. }
  destruct (R1 _ _ _ _ _ _ HJ1 Hsn1 Hgd E2) as [HJ2 [Ht Hk2]]. rewrite Hsp1 in Ht.
  assert (Hs1: oip E sd = false -> s1 = si) by (intros Hoip; rewrite Hoip in E1; injection E1 as <-; reflexivity).
  (* the sync_path write *)
  assert (Hv: iview si' = iview s2).
  { destruct (s_spath (gs sn2 sd)) as [sy|]; [|injection H as <-; reflexivity].
    destruct sy as [|c2 sy']; [injection H as <-; reflexivity|].
    destruct (is_subpath (cvs E sd) pp (c2 :: sy') false) as [|[|c1 r1]]; injection H as <-; try reflexivity.
    rewrite iview_raw_side; [reflexivity|intros y; split; reflexivity]. }
  assert (Hfin: forall x sd', path_of si' x sd' = path_of s2 x sd').
  { intros x sd'. apply iview_eq in Hv as [He _]. apply (proj2 (He x sd')). }
  split; [apply (IdxJ_view s2); [symmetry; exact Hv|exact HJ2]|]. split; [|split].
  3:{ intros Hoip x sd'. apply iview_eq in Hv as [He _]. rewrite (proj1 (He x sd')).
      rewrite (Hk2 (or_introl Hoip)). rewrite (Hs1 Hoip). apply Hok0. exact Hoip. }
  - rewrite Hfin. destruct (Ht e sd) as [Heq|[_ [Hes|Hmv]]].
    + rewrite Heq, Hp1. exact Hpe.
    + exfalso. apply Hne. symmetry. exact Hes.
    + exfalso. destruct Hmv as [qq [px [r [Hq [Hpx [HK Hr]]]]]]. injection Hq as <-.
      rewrite Hp1, Hpe in Hpx. injection Hpx as <-. apply Hg. exists (Kc (cvs E sd) rel ++ r). split.
      * specialize (Hr Hnsp). destruct (Kc (cvs E sd) rel); [exact Hr|discriminate].
      * rewrite HK, Ksp, app_assoc. reflexivity.
  - intros x sd'. rewrite Hfin. destruct (Ht x sd') as [Heq|[-> Hc]].
    + rewrite Heq, Hp1. apply Hfr.
    + destruct (Hfr x sd) as [Hx0|Hm]; [|right; exact Hm]. right. split; [reflexivity|].
      destruct Hc as [->|Hmv].
      * exists pp, sp, (Kc (cvs E sd) rel). split; [reflexivity|]. split; [rewrite <- Hx0; exact Hsub|].
        split; [exact Ksp|exact HR].
      * destruct Hmv as [qq [px [r [Hq [Hpx [HK Hr]]]]]]. injection Hq as <-.
        exists pp, px, (Kc (cvs E sd) rel ++ r). split; [reflexivity|]. split; [rewrite <- Hx0, <- Hp1; exact Hpx|].
        split; [rewrite HK, Ksp, app_assoc; reflexivity|].
        intros _. specialize (Hr Hnsp). destruct (Kc (cvs E sd) rel); [exact Hr|discriminate].
Qed.

Lemma kids_loop_spec rec e sd pp p s0 : RecOK rec -> ~ below (cvs E sd) pp p ->
  forall l si si', LInv e sd pp p s0 si -> kids_loop E rec e sd pp p l si = Ok si' -> LInv e sd pp p s0 si'.
Proof.
  intros HR Hg. induction l as [|sub l IH]; intros si si' HI H; simpl in H.
  - injection H as <-. exact HI.
  - bind_inv H. apply (IH x); [|exact H]. eapply kid_step_spec; eassumption.
Qed.

(* _change_path for any entry, with [rec] standing for the nested intercepted writes *)
Lemma path_main_spec rec e sd v s s1 en :
  RecOK rec -> IdxJ s -> get_ent s e = Ok en ->
  (tstr v && negb (tstr (s_oid (gs en sd))))%bool = false ->
  gd sd (s_otype (gs en sd)) (s_path (gs en sd)) v ->
  path_main E rec e sd v (gs en sd) s = Ok s1 ->
  IdxJ (raw_side s1 e sd (fun y => w_path y v)) /\
  touch s (raw_side s1 e sd (fun y => w_path y v)) sd e (s_path (gs en sd)) /\
  (tstr v = true -> path_of s1 e sd = v) /\
  okeep s (raw_side s1 e sd (fun y => w_path y v)) sd (s_otype (gs en sd)) (s_path (gs en sd)).
Proof.
  intros HR HJ Hen Eas Hgd Em. apply get_ent_ok in Hen.
  assert (Hkeep: forall t, (forall x sd', oid_of t x sd' = oid_of s x sd') ->
            forall x sd', oid_of (raw_side t e sd (fun y => w_path y v)) x sd' = oid_of s x sd').
  { intros t Ht x sd'. rewrite oid_of_raw_side.
    destruct (Nat.eqb_spec x e) as [->|]; simpl; [|apply Ht].
    destruct (Bool.eqb_spec sd' sd) as [->|]; [|apply Ht].
    rewrite <- Ht. unfold oid_of. destruct (nth_error (ents t) e); reflexivity. }
  assert (Hoe: oid_of s e sd = s_oid (gs en sd)) by (unfold oid_of; rewrite Hen; reflexivity).
  assert (Hpe: path_of s e sd = s_path (gs en sd)) by (unfold path_of; rewrite Hen; reflexivity).
  unfold path_main in Em.
  destruct (ostr_eqb (s_path (gs en sd)) v) eqn:Eeq.
  { (* same path *)
    injection Em as <-. apply ostr_eqb_eq in Eeq.
    assert (Hv: iview (raw_side s e sd (fun y => w_path y v)) = iview s).
    { apply (iview_raw_side_at _ _ _ _ en); [exact Hen|reflexivity|simpl; symmetry; exact Eeq]. }
    split; [apply (IdxJ_view s); [symmetry; exact Hv|exact HJ]|]. split; [|split].
    - intros x sd'. left. apply iview_eq in Hv as [He _]. apply (proj2 (He x sd')).
    - intros _. rewrite Hpe. exact Eeq.
    - intros _. apply Hkeep. reflexivity. }
  set (prior := s_path (gs en sd)) in *.
  set (sa := match prior with
             | Some pp => if tstr prior then slot_pop s sd pp (s_oid (gs en sd)) else s
             | None => s end) in *.
  assert (Hne: prior <> v) by (intros Hc; apply ostr_eqb_eq in Hc; congruence).
  assert (Hsa_o: forall sd' k, al_get k (oids sa sd') = al_get k (oids s sd')).
  { intros. unfold sa. destruct prior as [pp|]; [destruct (tstr (Some pp)); [rewrite oids_slot_pop|]|]; reflexivity. }
  assert (Hsa_e: ents sa = ents s).
  { unfold sa. destruct prior as [pp|]; [destruct (tstr (Some pp)); [apply ents_slot_pop|]|]; reflexivity. }
  assert (Hsa_p: forall sd' p' o', slot_get sa sd' p' o' =
            if Bool.eqb sd' sd && ostr_eqb (Some p') prior && ostr_eqb (Some o') (s_oid (gs en sd)) then None
            else slot_get s sd' p' o').
  { intros sd' p' o'. unfold sa. destruct prior as [pp|] eqn:Epr.
    - destruct (tstr (Some pp)) eqn:Et.
      + rewrite slot_pop_get_opt. reflexivity.
      + destruct (Bool.eqb_spec sd' sd) as [->|]; cbn [andb]; [|reflexivity].
        destruct (ostr_eqb (Some p') (Some pp)) eqn:Ep; cbn [andb]; [|reflexivity].
        destruct (ostr_eqb (Some o') (s_oid (gs en sd))) eqn:Eo; [|reflexivity].
        apply ostr_eqb_eq in Ep. injection Ep as ->. destruct pp; [|discriminate].
        destruct (slot_get s sd [] o') eqn:Es; [|reflexivity].
        destruct HJ as [_ [_ Hsp]]. apply Hsp in Es as [_ [_ Hc]]. exfalso. apply Hc. reflexivity.
    - rewrite andb_false_r. reflexivity. }
  assert (Hfalsy: tstr v = false -> s1 = sa).
  { intros Hv. destruct v as [p|]; [|destruct (s_oid (gs en sd)); injection Em as <-; reflexivity].
    destruct (s_oid (gs en sd)); [|injection Em as <-; reflexivity].
    rewrite Hv in Em. injection Em as <-. reflexivity. }
  (* paths after the final write, in terms of the state before it *)
  assert (Hpw: forall t, nth_error (ents t) e <> None -> forall x sd',
            path_of (raw_side t e sd (fun y => w_path y v)) x sd' = if Nat.eqb x e && Bool.eqb sd' sd then v else path_of t x sd').
  { intros t Ht x sd'. rewrite path_of_raw_side. destruct (nth_error (ents t) e); [reflexivity|contradiction]. }
  destruct (tstr v) eqn:Ev.
  2:{ rewrite (Hfalsy eq_refl). split; [|split; [|split; [discriminate|]]].
      3:{ intros _. apply Hkeep. intros x sd'. unfold oid_of. rewrite Hsa_e. reflexivity. }
      - apply (idx_path_falsy s _ e sd v prior HJ Hpe Ev).
        + intros sd' k. rewrite oids_raw_side. apply Hsa_o.
        + intros e' sd'. rewrite oid_of_raw_side. simpl. rewrite Hsa_e, Hen. simpl.
          destruct (Nat.eqb_spec e' e) as [->|]; simpl; [|unfold oid_of; simpl; rewrite Hsa_e; reflexivity].
          destruct (Bool.eqb_spec sd' sd) as [->|]; [symmetry; exact Hoe|unfold oid_of; simpl; rewrite Hsa_e; reflexivity].
        + intros e' sd'. rewrite path_of_raw_side. simpl. rewrite Hsa_e, Hen. simpl.
          destruct (Nat.eqb e' e && Bool.eqb sd' sd)%bool; [reflexivity|unfold path_of; simpl; rewrite Hsa_e; reflexivity].
        + intros sd' p' o'. rewrite slot_get_raw_side. rewrite Hoe.
          transitivity (slot_get sa sd' p' o'); [reflexivity|apply Hsa_p].
      - intros x sd'. rewrite Hpw by (rewrite Hsa_e, Hen; discriminate).
        destruct (Nat.eqb_spec x e) as [->|]; simpl; [|left; unfold path_of; rewrite Hsa_e; reflexivity].
        destruct (Bool.eqb_spec sd' sd) as [->|]; [right; split; [reflexivity|left; reflexivity]|left; unfold path_of; rewrite Hsa_e; reflexivity]. }
  (* re-filed under a non-empty path *)
  destruct v as [p|]; [|discriminate].
  cbn [andb] in Eas. apply negb_false_iff in Eas.
  destruct (s_oid (gs en sd)) as [o|] eqn:Eo; [|discriminate].
  cbv beta iota in Em.
  assert (Hnone: slot_get sa sd p o = None).
  { destruct (slot_get sa sd p o) as [e'|] eqn:Es; [|reflexivity]. exfalso.
    rewrite Hsa_p in Es.
    destruct (Bool.eqb sd sd && ostr_eqb (Some p) prior && ostr_eqb (Some o) (Some o))%bool; [discriminate|].
    destruct HJ as [Hf [_ Hsp]]. destruct (Hsp _ _ _ _ Es) as [Ha [Hb _]].
    destruct (Hf _ _ _ Ha) as [Hc _]. destruct (Hf _ _ _ Hoe) as [Hd _]. assert (e' = e) by congruence. subst e'.
    apply Hne. rewrite <- Hpe, Hb. reflexivity. }
  rewrite Hnone in Em. cbn [bind] in Em.
  set (sc := raw_side (slot_set sa sd p o e) e sd (fun y => w_path y (Some p))) in *.
  assert (Hpn: p <> []) by (destruct p; [discriminate|discriminate]).
  assert (Hensc: nth_error (ents (slot_set sa sd p o e)) e = Some en) by (rewrite ents_slot_set, Hsa_e; exact Hen).
  assert (Hpsc: forall x sd', path_of sc x sd' = if Nat.eqb x e && Bool.eqb sd' sd then Some p else path_of s x sd').
  { intros x sd'. unfold sc. rewrite path_of_raw_side, Hensc. simpl.
    destruct (Nat.eqb x e && Bool.eqb sd' sd)%bool; [reflexivity|unfold path_of; rewrite ents_slot_set, Hsa_e; reflexivity]. }
  assert (HJc: IdxJ sc).
  { apply (idx_path_truthy s sc e sd o p prior HJ Hoe Hpe Hne Hpn).
    - intros sd' k. unfold sc. rewrite oids_raw_side, oids_slot_set. apply Hsa_o.
    - intros e' sd'. unfold sc. rewrite oid_of_raw_side, Hensc. simpl.
      destruct (Nat.eqb_spec e' e) as [->|]; simpl; [|unfold oid_of; rewrite ents_slot_set, Hsa_e; reflexivity].
      destruct (Bool.eqb_spec sd' sd) as [->|]; [rewrite Hoe; exact Eo|unfold oid_of; rewrite ents_slot_set, Hsa_e; reflexivity].
    - exact Hpsc.
    - intros sd' p' o'. unfold sc. rewrite slot_get_raw_side, slot_get_slot_set.
      destruct (Bool.eqb sd' sd && str_eqb p' p && str_eqb o' o)%bool; [reflexivity|].
      rewrite Hsa_p. reflexivity. }
  bind_inv Em. rename x into sk.
  (* the children *)
  assert (Hosc: forall x sd', oid_of sc x sd' = oid_of s x sd').
  { intros e' sd'. unfold sc. rewrite oid_of_raw_side, Hensc. simpl.
    destruct (Nat.eqb_spec e' e) as [->|]; simpl; [|unfold oid_of; rewrite ents_slot_set, Hsa_e; reflexivity].
    destruct (Bool.eqb_spec sd' sd) as [->|]; [rewrite Hoe; exact Eo|unfold oid_of; rewrite ents_slot_set, Hsa_e; reflexivity]. }
  assert (Hloop: IdxJ sk /\ path_of sk e sd = Some p /\
                 (forall x sd', path_of sk x sd' = path_of sc x sd' \/ (sd' = sd /\ moved sd prior sc x)) /\
                 ((oip E sd = false \/ s_otype (gs en sd) <> Dir \/ prior = None) -> forall x sd', oid_of sk x sd' = oid_of sc x sd')).
  { assert (Hsc0: IdxJ sc /\ path_of sc e sd = Some p /\
                  (forall x sd', path_of sc x sd' = path_of sc x sd' \/ (sd' = sd /\ moved sd prior sc x)) /\
                  ((oip E sd = false \/ s_otype (gs en sd) <> Dir \/ prior = None) -> forall x sd', oid_of sc x sd' = oid_of sc x sd')).
    { split; [exact HJc|]. split; [rewrite Hpsc, Nat.eqb_refl, bool_eqb_refl; reflexivity|]. split; intros; [left|]; reflexivity. }
    destruct (otype_eqb (s_otype (gs en sd)) Dir && negb false)%bool eqn:Ed; [|injection E0 as <-; exact Hsc0].
    destruct prior as [pp|] eqn:Epr; [|injection E0 as <-; exact Hsc0].
    bind_inv E0. destruct x as [order s0].
    apply andb_prop in Ed as [Ed _].
    assert (Hdir: s_otype (gs en sd) = Dir) by (destruct (s_otype (gs en sd)); try discriminate; reflexivity).
    assert (Hg: ~ below (cvs E sd) pp p) by (apply (Hgd Hdir); reflexivity).
    pose proof (get_all_ordered_view _ _ _ E1) as Hv0.
    destruct (iview_eq _ _ Hv0) as [He0 _].
    assert (HI0: LInv e sd pp p s0 s0).
    { split; [apply (IdxJ_view sc); [symmetry; exact Hv0|exact HJc]|]. split.
      - rewrite (proj2 (He0 e sd)). rewrite Hpsc, Nat.eqb_refl, bool_eqb_refl. reflexivity.
      - split; intros; [left|]; reflexivity. }
    destruct (kids_loop_spec _ _ _ _ _ _ HR Hg _ _ _ HI0 E0) as [A [B [C D]]].
    split; [exact A|]. split; [exact B|]. split.
    2:{ intros [Hoip|[Hnd|Hnp]] x sd'; [|contradiction|discriminate].
        rewrite (D Hoip). apply (proj1 (He0 x sd')). }
    intros x sd'. destruct (C x sd') as [C1|[-> C2]].
    - left. rewrite C1. apply (proj2 (He0 x sd')).
    - right. split; [reflexivity|]. destruct C2 as [qq [px [r [Hq [Hpx HK]]]]].
      exists qq, px, r. split; [exact Hq|]. split; [rewrite <- (proj2 (He0 x sd)); exact Hpx|exact HK]. }
  destruct Hloop as [HJk [Hpk [Hfk Hkk]]].
  destruct HR as [_ [_ R3]]. apply R3 in Em; [|reflexivity].
  destruct (iview_eq _ _ Em) as [He1 _].
  assert (HJ1: IdxJ s1) by (apply (IdxJ_view sk); [symmetry; exact Em|exact HJk]).
  assert (Hp1: path_of s1 e sd = Some p) by (rewrite (proj2 (He1 e sd)); exact Hpk).
  destruct (path_of_some_ent _ _ _ _ Hp1) as [en1 [Hen1 Hpen1]]. apply get_ent_ok in Hen1.
  assert (Hvf: iview (raw_side s1 e sd (fun y => w_path y (Some p))) = iview s1).
  { apply (iview_raw_side_at _ _ _ _ en1); [exact Hen1|reflexivity|simpl; symmetry; exact Hpen1]. }
  split; [apply (IdxJ_view s1); [symmetry; exact Hvf|exact HJ1]|]. split; [|split; [intros _; exact Hp1|]].
  2:{ intros Hc. apply Hkeep. intros x sd'. rewrite (proj1 (He1 x sd')), (Hkk Hc). apply Hosc. }
  intros x sd'. destruct (iview_eq _ _ Hvf) as [Hef _]. rewrite (proj2 (Hef x sd')), (proj2 (He1 x sd')).
  destruct (Nat.eqb_spec x e) as [->|Hxe].
  - destruct (Bool.eqb_spec sd' sd) as [->|Hns]; [right; split; [reflexivity|left; reflexivity]|].
    destruct (Hfk e sd') as [C1|[C2 _]]; [|contradiction]. left. rewrite C1, Hpsc.
    destruct (Bool.eqb_spec sd' sd); [contradiction|rewrite andb_false_r; reflexivity].
  - assert (Hxs: forall sd0, path_of sc x sd0 = path_of s x sd0).
    { intros sd0. rewrite Hpsc. destruct (Nat.eqb_spec x e); [contradiction|reflexivity]. }
    destruct (Hfk x sd') as [C1|[-> C2]]; [left; rewrite C1; apply Hxs|].
    right. split; [reflexivity|right]. destruct C2 as [qq [px [r [Hq [Hpx HK]]]]].
    exists qq, px, r. split; [exact Hq|]. split; [rewrite <- Hxs; exact Hpx|exact HK].
Qed.

(* every amount of fuel: the nested writes behave as path_main_spec assumes *)
Lemma exec_rec_ok : forall f, RecOK (exec E f).
Proof.
  induction f as [|f IH].
  - split; [|split]; intros; discriminate.
  - split; [|split].
    + intros k sd v s s' en HJ Hen Hgd H. rewrite exec_path_eq, Hen in H. cbn [bind] in H. cbv zeta in H.
      destruct (tstr v && negb (tstr (s_oid (gs en sd))))%bool eqn:Eas; [discriminate|].
      destruct (path_main E (exec E f) k sd v (gs en sd) s) as [s1|] eqn:Em; cbn [bind] in H; [|discriminate].
      injection H as <-.
      destruct (path_main_spec _ _ _ _ _ _ _ IH HJ Hen Eas Hgd Em) as [A [B [_ D]]].
      rewrite raw_side_dirty_add. split; [apply (IdxJ_view _ _ (eq_refl _) A)|]. split; [exact B|exact D].
    + intros e sd v s s' HJ H. split; [eapply exec_oid_pres; eassumption|eapply exec_oid_pview; eassumption].
    + intros c s s' Hc H. apply exec_flag_view in H; [apply H|exact Hc].
Qed.

(* ent[side].path = v through the intercepted setter *)
Lemma exec_path_true_pres f k sd v s s' en :
  IdxJ s -> get_ent s k = Ok en -> gd sd (s_otype (gs en sd)) (s_path (gs en sd)) v ->
  exec E f (CPath true k sd v) s = Ok s' ->
  IdxJ s' /\ touch s s' sd k (s_path (gs en sd)) /\ okeep s s' sd (s_otype (gs en sd)) (s_path (gs en sd)).
Proof. apply (proj1 (exec_rec_ok f)). Qed.

(* updated(side, "path", v) without the field write (SyncEntry.__setitem__): the invariant holds once
   the field is written; for a non-empty v it has been written already *)
Lemma exec_path_false_pres f k sd v s s' en :
  IdxJ s -> get_ent s k = Ok en -> gd sd (s_otype (gs en sd)) (s_path (gs en sd)) v ->
  exec E f (CPath false k sd v) s = Ok s' ->
  IdxJ (raw_side s' k sd (fun y => w_path y v)) /\
  touch s (raw_side s' k sd (fun y => w_path y v)) sd k (s_path (gs en sd)) /\
  (tstr v = true -> path_of s' k sd = v) /\
  okeep s (raw_side s' k sd (fun y => w_path y v)) sd (s_otype (gs en sd)) (s_path (gs en sd)).
Proof.
  intros HJ Hen Hgd H. destruct f as [|f]; [discriminate|].
  rewrite exec_path_eq, Hen in H. cbn [bind] in H. cbv zeta in H.
  destruct (tstr v && negb (tstr (s_oid (gs en sd))))%bool eqn:Eas; [discriminate|].
  destruct (path_main E (exec E f) k sd v (gs en sd) s) as [s1|] eqn:Em; cbn [bind] in H; [|discriminate].
  injection H as <-.
  destruct (path_main_spec _ _ _ _ _ _ _ (exec_rec_ok f) HJ Hen Eas Hgd Em) as [A [B [C D]]].
  rewrite raw_side_dirty_add. split; [apply (IdxJ_view _ _ (eq_refl _) A)|]. split; [exact B|]. split; [exact C|exact D].
Qed.
End Folder.

(* ------------------------------------------------------------------ the guard as a boolean on the state *)
Definition env_ok (E : env) : Prop := legacy E = false /\ forall sd, conv_ok (cvs E sd).


Lemma path_guardb_gd E s e sd v en :
  path_guardb E s e sd v = true -> get_ent s e = Ok en -> gd E sd (s_otype (gs en sd)) (s_path (gs en sd)) v.
Proof.
  intros Hg Hen Hd qq p Hq Hv Hb. apply get_ent_ok in Hen. unfold path_guardb in Hg. rewrite Hen, Hv, Hd, Hq in Hg.
  apply belowb_spec in Hb. rewrite Hb in Hg. discriminate.
Qed.

Lemma set_path_pres E s e sd v s' :
  env_ok E -> IdxJ s -> path_guardb E s e sd v = true -> set_path E s e sd v = Ok s' -> IdxJ s'.
Proof.
  intros [Hl Hok] HJ Hg H. unfold set_path, run_cmd in H.
  destruct (get_ent s e) as [en|] eqn:Hen.
  - eapply (exec_path_true_pres E Hl Hok); [exact HJ|exact Hen|eapply path_guardb_gd; eassumption|exact H].
  - destruct (fuel_of s); [discriminate|]. simpl in H. rewrite Hen in H. discriminate.
Qed.
