(* ResolverProofs.v — what the specified outcome guarantees, clause by clause of C05. *)
From Coq Require Import NArith List Bool.
From CS Require Import Sx TreeModel ResolverSpec.
Import ListNotations.

Lemma lookup_at_same dir n c : lookup (at_ dir n c) (dir ++ [n]) = Some (File c).
Proof.
  unfold at_. simpl.
  assert (H: path_eqb (dir ++ [n]) (dir ++ [n]) = true).
  { induction (dir ++ [n]) as [|x l IH]; simpl; [reflexivity|]. rewrite N.eqb_refl. exact IH. }
  rewrite H. reflexivity.
Qed.

Lemma path_eqb_snoc_neq dir n m : n <> m -> path_eqb (dir ++ [n]) (dir ++ [m]) = false.
Proof.
  intros Hn. induction dir as [|x l IH]; simpl.
  - destruct (N.eqb_spec n m); [contradiction|reflexivity].
  - rewrite N.eqb_refl. exact IH.
Qed.

(* identical content on both sides is merged without calling the resolver *)
Theorem same_content_no_call dir n nc a ans :
  n <> nc ->
  exists r, outcome dir n nc a a ans = Some r /\ r_calls r = 0 /\ r_seen r = None /\
            lookup (r_local r) (dir ++ [n]) = Some (File a) /\ lookup (r_remote r) (dir ++ [n]) = Some (File a) /\
            lookup (r_local r) (dir ++ [nc]) = None /\ lookup (r_remote r) (dir ++ [nc]) = None.
Proof.
  intros Hn. unfold outcome. rewrite N.eqb_refl. eexists. split; [reflexivity|]. simpl.
  rewrite (path_eqb_snoc_neq dir n nc Hn).
  assert (Hrefl: forall p : path, path_eqb p p = true).
  { induction p as [|x l IH]; simpl; [reflexivity|]. rewrite N.eqb_refl. exact IH. }
  rewrite !Hrefl. auto 10.
Qed.

(* the resolver is called exactly once, with the true bytes of both sides, iff the contents differ *)
Theorem called_once_with_true_bytes dir n nc a b ans r :
  outcome dir n nc a b ans = Some r ->
  (a = b -> r_calls r = 0 /\ r_seen r = None) /\ (a <> b -> r_calls r = 1 /\ r_seen r = Some (a, b)).
Proof.
  unfold outcome. destruct (N.eqb_spec a b) as [->|Hne]; intros H.
  - inversion H; subst; simpl. split; [auto|]. intros Hc. contradiction.
  - split; [intros Hc; contradiction|]. intros _.
    destruct ans as [k|k|c [|]|]; inversion H; subst; simpl; auto.
Qed.

(* picking a handle: both sides end with that side's content; the other version survives as the
   '.conflicted' sibling on the losing side exactly when keep is true *)
Theorem pick_local_outcome dir n nc a b keep r :
  a <> b -> n <> nc -> outcome dir n nc a b (PickLocal keep) = Some r ->
  lookup (r_local r) (dir ++ [n]) = Some (File a) /\ lookup (r_remote r) (dir ++ [n]) = Some (File a) /\
  lookup (r_local r) (dir ++ [nc]) = None /\
  lookup (r_remote r) (dir ++ [nc]) = (if keep then Some (File b) else None).
Proof.
  intros Hab Hn. unfold outcome. destruct (N.eqb_spec a b); [contradiction|]. intros H; inversion H; subst; simpl.
  rewrite (path_eqb_snoc_neq dir n nc Hn).
  assert (Hrefl: forall p : path, path_eqb p p = true).
  { induction p as [|x l IH]; simpl; [reflexivity|]. rewrite N.eqb_refl. exact IH. }
  rewrite !Hrefl. destruct keep; simpl; rewrite ?(path_eqb_snoc_neq dir n nc Hn), ?Hrefl; auto.
Qed.

Theorem pick_remote_outcome dir n nc a b keep r :
  a <> b -> n <> nc -> outcome dir n nc a b (PickRemote keep) = Some r ->
  lookup (r_local r) (dir ++ [n]) = Some (File b) /\ lookup (r_remote r) (dir ++ [n]) = Some (File b) /\
  lookup (r_remote r) (dir ++ [nc]) = None /\
  lookup (r_local r) (dir ++ [nc]) = (if keep then Some (File a) else None).
Proof.
  intros Hab Hn. unfold outcome. destruct (N.eqb_spec a b); [contradiction|]. intros H; inversion H; subst; simpl.
  rewrite (path_eqb_snoc_neq dir n nc Hn).
  assert (Hrefl: forall p : path, path_eqb p p = true).
  { induction p as [|x l IH]; simpl; [reflexivity|]. rewrite N.eqb_refl. exact IH. }
  rewrite !Hrefl. destruct keep; simpl; rewrite ?(path_eqb_snoc_neq dir n nc Hn), ?Hrefl; auto.
Qed.

(* merged data with keep = false: both sides end with the merged data, nothing else *)
Theorem merged_nokeep_outcome dir n nc a b c r :
  a <> b -> n <> nc -> outcome dir n nc a b (Merged c false) = Some r ->
  lookup (r_local r) (dir ++ [n]) = Some (File c) /\ lookup (r_remote r) (dir ++ [n]) = Some (File c) /\
  lookup (r_local r) (dir ++ [nc]) = None /\ lookup (r_remote r) (dir ++ [nc]) = None.
Proof.
  intros Hab Hn. unfold outcome. destruct (N.eqb_spec a b); [contradiction|]. intros H; inversion H; subst; simpl.
  rewrite (path_eqb_snoc_neq dir n nc Hn).
  assert (Hrefl: forall p : path, path_eqb p p = true).
  { induction p as [|x l IH]; simpl; [reflexivity|]. rewrite N.eqb_refl. exact IH. }
  rewrite !Hrefl. auto.
Qed.

(* nothing / exception / garbage: the remote version wins and the local one is kept as '.conflicted' *)
Theorem fallback_remote_wins dir n nc a b :
  outcome dir n nc a b Fallback = outcome dir n nc a b (PickRemote true).
Proof. unfold outcome. destruct (N.eqb a b); reflexivity. Qed.

(* the specified outcome has no schedule argument: acceptance of every explored schedule against it is
   exactly "the outcome never depends on how engine steps interleave" *)
Theorem accept_conflict_sound dir n nc a b ans calls vl vr :
  accept_conflict dir n nc a b ans calls vl vr = true ->
  exists r, outcome dir n nc a b ans = Some r /\ calls_ok r calls = true /\
            same_tree vl (r_local r) = true /\ same_tree vr (r_remote r) = true.
Proof.
  unfold accept_conflict. destruct (outcome dir n nc a b ans) as [r|]; [|discriminate].
  intros H. apply andb_true_iff in H as [H H3]. apply andb_true_iff in H as [H1 H2].
  exists r. auto.
Qed.

Lemma calls_ok_meaning r calls :
  calls_ok r calls = true ->
  match r_seen r with
  | None => calls = []
  | Some (a, b) => calls = [(a, b)]
  end.
Proof.
  unfold calls_ok. destruct (r_seen r) as [[a b]|]; destruct calls as [|[x y] [|z l]]; try discriminate; auto.
  intros H. apply andb_true_iff in H as [H1 H2]. apply N.eqb_eq in H1, H2. subst. reflexivity.
Qed.
