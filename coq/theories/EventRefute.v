(* EventRefute.v — a decidable check of the index invariant (for concrete witnesses), the full-strength C14 statements that
   are FALSE of the faithful model with their witnesses, and the remaining partial theorems. *)
From Coq Require Import NArith List Bool Arith Lia.
From CS Require Import Sx Str PathModel PathLaws StateModel StateProofs StatePathProofs EventModel EventProofs EventLaws EventCommute EventStamps.
Import ListNotations.

(* ---------------------------------------------------------------- J. a checker for the index invariant (for the concrete witnesses) *)
Definition ostr_is (a : option str) (b : str) : bool := match a with Some x => str_eqb x b | None => false end.
Definition chk_found_side (s : state) (e : eid) (sd : bool) (x : sidest) : bool :=
  match s_oid x with
  | None => true
  | Some o =>
    (match al_get o (oids s sd) with Some e' => Nat.eqb e' e | None => false end) &&
    (match s_path x with
     | Some p => match p with [] => true | _ => match slot_get s sd p o with Some e' => Nat.eqb e' e | None => false end end
     | None => true
     end)
  end.
Fixpoint chk_found (s : state) (l : list entry) (e : eid) : bool :=
  match l with
  | [] => true
  | en :: r => chk_found_side s e false (e_l en) && chk_found_side s e true (e_r en) && chk_found s r (S e)
  end.
Definition chk_oids (s : state) (sd : bool) : bool :=
  forallb (fun k => match al_get k (oids s sd) with
                    | Some e => ostr_is (oid_of s e sd) k
                    | None => true end) (map fst (oids s sd)).
Definition chk_slots (s : state) (sd : bool) : bool :=
  forallb (fun pd =>
    forallb (fun k => match slot_get s sd (fst pd) k with
                      | Some e => ostr_is (oid_of s e sd) k && ostr_is (path_of s e sd) (fst pd) && nonempty (fst pd)
                      | None => true end) (map fst (snd pd))) (paths s sd).
Definition idxj_check (s : state) : bool :=
  chk_found s (ents s) 0 && chk_oids s false && chk_oids s true && chk_slots s false && chk_slots s true.

Lemma al_get_in {V} k (l : list (str * V)) v : al_get k l = Some v -> exists k', In k' (map fst l) /\ k' = k.
Proof.
  induction l as [|[k0 v0] l IH]; simpl; [discriminate|].
  destruct (str_eqb k k0) eqn:E; intros H.
  - apply str_eqb_eq in E. exists k0. split; [left; reflexivity|congruence].
  - destruct (IH H) as [k' [A B]]. exists k'. split; [right; exact A|exact B].
Qed.
Lemma al_get_in_pair {V} k (l : list (str * V)) v : al_get k l = Some v -> In (k, v) l \/ exists k', In (k', v) l /\ k' = k.
Proof.
  induction l as [|[k0 v0] l IH]; simpl; [discriminate|].
  destruct (str_eqb k k0) eqn:E; intros H.
  - apply str_eqb_eq in E. injection H as <-. subst k0. left. left. reflexivity.
  - destruct (IH H) as [A|[k' [A B]]]; [left; right; exact A|right; exists k'; split; [right; exact A|exact B]].
Qed.
Lemma ostr_is_eq a b : ostr_is a b = true -> a = Some b.
Proof. destruct a as [x|]; simpl; [|discriminate]. intros H. apply str_eqb_eq in H. congruence. Qed.

Lemma chk_found_sound s : forall l e0, chk_found s l e0 = true ->
  forall k en, nth_error l k = Some en ->
    chk_found_side s (e0 + k) false (e_l en) = true /\ chk_found_side s (e0 + k) true (e_r en) = true.
Proof.
  induction l as [|a l IH]; intros e0 H k en Hn; [destruct k; discriminate|].
  simpl in H. apply andb_prop in H as [H H3]. apply andb_prop in H as [H1 H2].
  destruct k as [|k]; simpl in Hn.
  - injection Hn as <-. rewrite Nat.add_0_r. split; assumption.
  - replace (e0 + S k) with (S e0 + k) by lia. apply (IH _ H3 _ _ Hn).
Qed.

Lemma idxj_check_sound s : idxj_check s = true -> IdxJ s.
Proof.
  unfold idxj_check. intros H. apply andb_prop in H as [H H5]. apply andb_prop in H as [H H4].
  apply andb_prop in H as [H H3]. apply andb_prop in H as [H1 H2].
  split; [|split].
  - intros e sd o Ho. unfold oid_of in Ho. destruct (nth_error (ents s) e) as [en|] eqn:En; [|discriminate].
    destruct (chk_found_sound s _ 0 H1 e en En) as [A B]. simpl in A, B.
    assert (C: chk_found_side s e sd (gs en sd) = true) by (destruct sd; assumption).
    unfold chk_found_side in C. rewrite Ho in C. apply andb_prop in C as [C1 C2].
    split.
    + destruct (al_get o (oids s sd)) as [e'|]; [|discriminate]. apply Nat.eqb_eq in C1. congruence.
    + intros p Hp Hpn. unfold path_of in Hp. rewrite En in Hp. rewrite Hp in C2.
      destruct p as [|c p]; [contradiction|].
      destruct (slot_get s sd (c :: p) o) as [e'|]; [|discriminate]. apply Nat.eqb_eq in C2. congruence.
  - intros sd o e Ha.
    assert (Hc: chk_oids s sd = true) by (destruct sd; assumption).
    unfold chk_oids in Hc. rewrite forallb_forall in Hc.
    destruct (al_get_in _ _ _ Ha) as [k' [Hin ->]]. specialize (Hc _ Hin). rewrite Ha in Hc. apply ostr_is_eq. exact Hc.
  - intros sd p o e Hs.
    assert (Hc: chk_slots s sd = true) by (destruct sd; assumption).
    unfold chk_slots in Hc. rewrite forallb_forall in Hc.
    unfold slot_get in Hs. destruct (al_get p (paths s sd)) as [d|] eqn:Ed; [|discriminate].
    destruct (al_get_in_pair _ _ _ Ed) as [Hin|[p' [Hin ->]]].
    + specialize (Hc _ Hin). cbn [fst snd] in Hc. rewrite forallb_forall in Hc.
      destruct (al_get_in _ _ _ Hs) as [k' [Hk ->]]. specialize (Hc _ Hk).
      unfold slot_get in Hc. rewrite Ed, Hs in Hc. apply andb_prop in Hc as [Hc Hn]. apply andb_prop in Hc as [Ha Hb].
      split; [apply ostr_is_eq; exact Ha|]. split; [apply ostr_is_eq; exact Hb|]. destruct p; [discriminate|discriminate].
    + specialize (Hc _ Hin). cbn [fst snd] in Hc. rewrite forallb_forall in Hc.
      destruct (al_get_in _ _ _ Hs) as [k' [Hk ->]]. specialize (Hc _ Hk).
      unfold slot_get in Hc. rewrite Ed, Hs in Hc. apply andb_prop in Hc as [Hc Hn]. apply andb_prop in Hc as [Ha Hb].
      split; [apply ostr_is_eq; exact Ha|]. split; [apply ostr_is_eq; exact Hb|]. destruct p; [discriminate|discriminate].
Qed.

(* ---------------------------------------------------------------- K. refuted full-strength statements (witnesses by vm_compute) *)
Definition ok (r : res state) : state := match r with Ok s => s | Err _ => init_state end.
Definition w_pax : str := [47;97;47;120]%N.
Definition w_pay : str := [47;97;47;121]%N.
Definition E_path : env := mkEnv (fun _ => true) (fun _ => mk_conv true) (fun _ => 1000%N) (fun _ p => Some p) false.

(* every concrete fact about a witness is a top-level lemma closed by vm_compute (keeps Qed of the refutations cheap) *)

(* K1: the same event twice = once, at full strength (no condition on the stored `exists`) *)
Definition update_idempotent_full : Prop :=
  forall E s sd ot (o : str) path h ex t1 t2 s1 s2,
  IdxJ s -> oip E sd = false -> ot <> Dir -> o <> [] ->
  update E (st_tape s t1) sd (Some ot) (Some o) path h ex None = Ok s1 ->
  update E (st_tape s1 t2) sd (Some ot) (Some o) path h ex None = Ok s2 -> eqv s1 s2.
(* a deletion event, then the (late) creation event twice: LIKELY_TRASHED after one copy, EXISTS after two *)
Definition k1_s0 := ok (update E_id (st_tape init_state [TSwap false]) false (Some File) (Some w_o1) (Some w_pbx) None (Some false) None).
Definition k1_s1 := ok (update E_id (st_tape k1_s0 []) false (Some File) (Some w_o1) (Some w_pbx) None (Some true) None).
Definition k1_s2 := ok (update E_id (st_tape k1_s1 []) false (Some File) (Some w_o1) (Some w_pbx) None (Some true) None).
Lemma k1_J : IdxJ k1_s0. Proof. apply idxj_check_sound. vm_compute. reflexivity. Qed.
Lemma k1_E1 : update E_id (st_tape k1_s0 []) false (Some File) (Some w_o1) (Some w_pbx) None (Some true) None = Ok k1_s1.
Proof. vm_compute. reflexivity. Qed.
Lemma k1_E2 : update E_id (st_tape k1_s1 []) false (Some File) (Some w_o1) (Some w_pbx) None (Some true) None = Ok k1_s2.
Proof. vm_compute. reflexivity. Qed.
Lemma k1_diff : map abs_entry (ents k1_s1) <> map abs_entry (ents k1_s2).
Proof. vm_compute. discriminate. Qed.
Lemma update_idempotent_refuted : ~ update_idempotent_full.
Proof.
  intros H. assert (Hne: w_o1 <> []) by discriminate. assert (Hf: File <> Dir) by discriminate.
  destruct (H E_id k1_s0 false File w_o1 (Some w_pbx) None (Some true) [] [] k1_s1 k1_s2 k1_J eq_refl Hf Hne k1_E1 k1_E2) as [A _].
  exact (k1_diff A).
Qed.

(* K2: commutation at full strength (folder events included) *)
Definition events_commute_full : Prop :=
  forall E s sd otA (oA : str) pA hA exA otB (oB : str) pB hB exB tA tB tA' tB' sA sAB sB sBA,
  IdxJ s -> oip E sd = false -> oA <> [] -> oB <> [] -> oA <> oB ->
  update E (st_tape s tA) sd (Some otA) (Some oA) pA hA exA None = Ok sA ->
  update E (st_tape sA tB) sd (Some otB) (Some oB) pB hB exB None = Ok sAB ->
  update E (st_tape s tB') sd (Some otB) (Some oB) pB hB exB None = Ok sB ->
  update E (st_tape sB tA') sd (Some otA) (Some oA) pA hA exA None = Ok sBA ->
  eqv_obs sAB sBA.
(* folder o1 at /a with child o2 at /a/x; A = folder event "o1 is at /b", B = stale event "o2 is at /a/y":
   A then B leaves the child at /a/y, B then A re-files it under /b/y *)
Definition k2_s := ok (update E_id (st_tape (ok (update E_id (st_tape init_state [TSwap false]) false (Some File) (Some w_o1) (Some w_pa) None (Some true) None)) [TSwap false])
                               false (Some File) (Some w_o2) (Some w_pax) None (Some true) None).
Definition k2_A (s : state) := update E_id (st_tape s [TOrder [0; 1]]) false (Some Dir) (Some w_o1) (Some w_pb) None (Some true) None.
Definition k2_B (s : state) := update E_id (st_tape s []) false (Some File) (Some w_o2) (Some w_pay) None (Some true) None.
Lemma k2_J : IdxJ k2_s. Proof. apply idxj_check_sound. vm_compute. reflexivity. Qed.
Lemma k2_E1 : update E_id (st_tape k2_s [TOrder [0; 1]]) false (Some Dir) (Some w_o1) (Some w_pb) None (Some true) None = Ok (ok (k2_A k2_s)).
Proof. vm_compute. reflexivity. Qed.
Lemma k2_E2 : update E_id (st_tape (ok (k2_A k2_s)) []) false (Some File) (Some w_o2) (Some w_pay) None (Some true) None = Ok (ok (k2_B (ok (k2_A k2_s)))).
Proof. vm_compute. reflexivity. Qed.
Lemma k2_E3 : update E_id (st_tape k2_s []) false (Some File) (Some w_o2) (Some w_pay) None (Some true) None = Ok (ok (k2_B k2_s)).
Proof. vm_compute. reflexivity. Qed.
Lemma k2_E4 : update E_id (st_tape (ok (k2_B k2_s)) [TOrder [0; 1]]) false (Some Dir) (Some w_o1) (Some w_pb) None (Some true) None = Ok (ok (k2_A (ok (k2_B k2_s)))).
Proof. vm_compute. reflexivity. Qed.
Lemma orel_lpath a b : orel a b ->
  option_map (fun xm : entry * bool => s_path (e_l (fst xm))) a = option_map (fun xm : entry * bool => s_path (e_l (fst xm))) b.
Proof.
  destruct a as [[x m]|], b as [[y n]|]; simpl; intros H; try contradiction; [|reflexivity].
  destruct H as [A _]. unfold abs_entry, abs_side in A. inversion A. reflexivity.
Qed.
Lemma k2_diff : option_map (fun xm : entry * bool => s_path (e_l (fst xm))) (obsc (ok (k2_B (ok (k2_A k2_s)))) false w_o2) <>
                option_map (fun xm : entry * bool => s_path (e_l (fst xm))) (obsc (ok (k2_A (ok (k2_B k2_s)))) false w_o2).
Proof. vm_compute. discriminate. Qed.
Lemma events_commute_refuted : ~ events_commute_full.
Proof.
  intros H.
  assert (H1: w_o1 <> []) by discriminate. assert (H2: w_o2 <> []) by discriminate. assert (H3: w_o1 <> w_o2) by discriminate.
  pose proof (H E_id k2_s false Dir w_o1 (Some w_pb) None (Some true) File w_o2 (Some w_pay) None (Some true)
                [TOrder [0; 1]] [] [TOrder [0; 1]] [] _ _ _ _ k2_J eq_refl H1 H2 H3 k2_E1 k2_E2 k2_E3 k2_E4 false w_o2) as P.
  exact (k2_diff (orel_lpath _ _ P)).
Qed.

(* K3: the re-read makes the outcome independent of the payload, priority included *)
Definition same_oid_any_delivery_full : Prop :=
  forall E s sd (o : str) ev1 l1 ev2 l2 s1 s2 i s1' s2',
  IdxJ s -> oip E sd = false -> o <> [] -> i_ot i <> Dir ->
  Forall (fun ev => fe_ot ev <> Dir) (ev1 :: l1) -> Forall (fun ev => fe_ot ev <> Dir) (ev2 :: l2) ->
  (al_get o (oids s sd) = None -> fe_ot ev1 = fe_ot ev2) ->
  run_events E s sd o (ev1 :: l1) = Ok s1 -> run_events E s sd o (ev2 :: l2) = Ok s2 ->
  get_latest_side E s1 (upd_target s sd o) sd (Some i) = Ok s1' ->
  get_latest_side E s2 (upd_target s sd o) sd (Some i) = Ok s2' ->
  eqv s1' s2'.
(* an entry that was punted twice (priority 2); the event with a stale path resets the punt count, the one without keeps it *)
Definition k3_s := ok (set_priority E_id (ok (update E_id (st_tape init_state [TSwap false]) false (Some File) (Some w_o1) (Some w_pa) (Some 1%N) (Some true) None)) 0 2%N).
Definition k3_e1 := mkFe File None None (Some true) [].
Definition k3_e2 := mkFe File (Some w_pb) None (Some true) [].
Definition k3_i := mkInfo File (Some 1%N) w_pa None.
Definition k3_r1 := ok (run_events E_id k3_s false w_o1 [k3_e1]).
Definition k3_r2 := ok (run_events E_id k3_s false w_o1 [k3_e2]).
Definition k3_g1 := ok (get_latest_side E_id k3_r1 0 false (Some k3_i)).
Definition k3_g2 := ok (get_latest_side E_id k3_r2 0 false (Some k3_i)).
Lemma k3_J : IdxJ k3_s. Proof. apply idxj_check_sound. vm_compute. reflexivity. Qed.
Lemma k3_E1 : run_events E_id k3_s false w_o1 [k3_e1] = Ok k3_r1. Proof. vm_compute. reflexivity. Qed.
Lemma k3_E2 : run_events E_id k3_s false w_o1 [k3_e2] = Ok k3_r2. Proof. vm_compute. reflexivity. Qed.
Lemma k3_T : upd_target k3_s false w_o1 = 0. Proof. vm_compute. reflexivity. Qed.
Lemma k3_G1 : get_latest_side E_id k3_r1 (upd_target k3_s false w_o1) false (Some k3_i) = Ok k3_g1. Proof. vm_compute. reflexivity. Qed.
Lemma k3_G2 : get_latest_side E_id k3_r2 (upd_target k3_s false w_o1) false (Some k3_i) = Ok k3_g2. Proof. vm_compute. reflexivity. Qed.
Lemma k3_diff : map abs_entry (ents k3_g1) <> map abs_entry (ents k3_g2). Proof. vm_compute. discriminate. Qed.
Lemma same_oid_any_delivery_refuted : ~ same_oid_any_delivery_full.
Proof.
  intros H.
  assert (Hne: w_o1 <> []) by discriminate. assert (Hi: i_ot k3_i <> Dir) by discriminate.
  assert (F1: Forall (fun ev => fe_ot ev <> Dir) [k3_e1]) by (repeat constructor; discriminate).
  assert (F2: Forall (fun ev => fe_ot ev <> Dir) [k3_e2]) by (repeat constructor; discriminate).
  assert (Hs: al_get w_o1 (oids k3_s false) = None -> fe_ot k3_e1 = fe_ot k3_e2) by (intros _; reflexivity).
  destruct (H E_id k3_s false w_o1 k3_e1 [] k3_e2 [] k3_r1 k3_r2 k3_i k3_g1 k3_g2 k3_J eq_refl Hne Hi F1 F2 Hs k3_E1 k3_E2 k3_G1 k3_G2) as [A _].
  exact (k3_diff A).
Qed.

(* K4: an object that has vanished: the re-read fixes `exists` (see vanished_exists_trashed), but hash and path stay what the
   last event said, and SyncEntry.hash_conflict reads them *)
Definition hash_conflict (en : entry) : bool :=
  thash (s_hash (e_l en)) && thash (s_hash (e_r en)) && tstr (s_path (e_l en)) && tstr (s_path (e_r en)) &&
  negb (oN_eqb (s_hash (e_l en)) (s_shash (e_l en))) && negb (oN_eqb (s_hash (e_r en)) (s_shash (e_r en))).
Definition vanished_decision_full : Prop :=
  forall E s sd (o : str) ev1 l1 ev2 l2 s1 s2 s1' s2',
  IdxJ s -> oip E sd = false -> o <> [] ->
  Forall (fun ev => fe_ot ev <> Dir) (ev1 :: l1) -> Forall (fun ev => fe_ot ev <> Dir) (ev2 :: l2) ->
  (al_get o (oids s sd) = None -> fe_ot ev1 = fe_ot ev2) ->
  run_events E s sd o (ev1 :: l1) = Ok s1 -> run_events E s sd o (ev2 :: l2) = Ok s2 ->
  get_latest_side E s1 (upd_target s sd o) sd None = Ok s1' ->
  get_latest_side E s2 (upd_target s sd o) sd None = Ok s2' ->
  map hash_conflict (ents s1') = map hash_conflict (ents s2').
(* a synced pair (hash 1 on both sides), the peer then edited (hash 2, flagged); the local object is deleted.
   Delivery 1: the deletion event.  Delivery 2: a stale modification event carrying hash 3. *)
Definition w_r1 : str := [114;49]%N.
Definition k4_s :=
  let s0 := ok (update E_id (st_tape init_state [TSwap false]) false (Some File) (Some w_o1) (Some w_pa) (Some 1%N) (Some true) None) in
  let s1 := ok (set_oid E_id (st_tape s0 [TSwap false]) 0 true (Some w_r1)) in
  let s2 := ok (set_path E_id s1 0 true (Some w_pa)) in
  let s3 := ok (set_plain s2 0 true (fun y => w_hash y (Some 2%N))) in
  let s4 := ok (set_plain s3 0 true (fun y => w_shash y (Some 1%N))) in
  let s5 := ok (set_plain s4 0 false (fun y => w_shash y (Some 1%N))) in
  let s6 := ok (set_plain s5 0 true (fun y => w_ex y ExExists)) in
  st_tape (ok (set_changed E_id s6 0 true (CNum 5000%N))) [].
Definition k4_e1 := mkFe File None None (Some false) [].
Definition k4_e2 := mkFe File None (Some 3%N) (Some true) [].
Definition k4_r1 := ok (run_events E_id k4_s false w_o1 [k4_e1]).
Definition k4_r2 := ok (run_events E_id k4_s false w_o1 [k4_e2]).
Definition k4_g1 := ok (get_latest_side E_id k4_r1 0 false None).
Definition k4_g2 := ok (get_latest_side E_id k4_r2 0 false None).
Lemma k4_J : IdxJ k4_s. Proof. apply idxj_check_sound. vm_compute. reflexivity. Qed.
Lemma k4_E1 : run_events E_id k4_s false w_o1 [k4_e1] = Ok k4_r1. Proof. vm_compute. reflexivity. Qed.
Lemma k4_E2 : run_events E_id k4_s false w_o1 [k4_e2] = Ok k4_r2. Proof. vm_compute. reflexivity. Qed.
Lemma k4_G1 : get_latest_side E_id k4_r1 (upd_target k4_s false w_o1) false None = Ok k4_g1. Proof. vm_compute. reflexivity. Qed.
Lemma k4_G2 : get_latest_side E_id k4_r2 (upd_target k4_s false w_o1) false None = Ok k4_g2. Proof. vm_compute. reflexivity. Qed.
Lemma k4_diff : map hash_conflict (ents k4_g1) <> map hash_conflict (ents k4_g2). Proof. vm_compute. discriminate. Qed.
Lemma vanished_decision_refuted : ~ vanished_decision_full.
Proof.
  intros H.
  assert (Hne: w_o1 <> []) by discriminate.
  assert (F1: Forall (fun ev => fe_ot ev <> Dir) [k4_e1]) by (repeat constructor; discriminate).
  assert (F2: Forall (fun ev => fe_ot ev <> Dir) [k4_e2]) by (repeat constructor; discriminate).
  assert (Hs: al_get w_o1 (oids k4_s false) = None -> fe_ot k4_e1 = fe_ot k4_e2) by (intros _; reflexivity).
  exact (k4_diff (H E_id k4_s false w_o1 k4_e1 [] k4_e2 [] k4_r1 k4_r2 k4_g1 k4_g2 k4_J eq_refl Hne F1 F2 Hs k4_E1 k4_E2 k4_G1 k4_G2)).
Qed.

(* what does hold for a vanished object of an id-stable provider: whatever was delivered, the re-read says TRASHED *)
Theorem vanished_exists_trashed_thm E s sd (o : str) ev1 l1 s1 s1' :
  IdxJ s -> oip E sd = false -> o <> [] -> Forall (fun ev => fe_ot ev <> Dir) (ev1 :: l1) ->
  run_events E s sd o (ev1 :: l1) = Ok s1 ->
  get_latest_side E s1 (upd_target s sd o) sd None = Ok s1' ->
  IdxJ s1' /\ exists en', nth_error (ents s1') (upd_target s sd o) = Some en' /\ s_ex (gs en' sd) = ExTrashed /\
    s_oid (gs en' sd) = Some o /\ tchg (s_chg (gs en' sd)) = true /\
    forall e', e' <> upd_target s sd o -> nth_error (ents s1') e' = nth_error (ents s) e'.
Proof.
  intros HJ Hoip Hne Hall R G. simpl in R.
  destruct (update E (st_tape s (fe_tape ev1)) sd (Some (fe_ot ev1)) (Some o) (fe_path ev1) (fe_hash ev1) (fe_ex ev1) None) as [sa|] eqn:Ua; cbn [bind] in R; [|discriminate].
  inversion Hall as [|? ? Hev1 Hall']; subst.
  destruct (touched_first _ _ _ _ _ _ HJ Hoip Hev1 Hne Ua) as [ena [Hna [_ Hta]]].
  pose proof (touched_run _ _ _ _ _ _ _ _ _ _ Hta Hoip Hne Hall' R) as [HJ1 [en1 [Hn1 [He1 [_ [_ [_ [_ [_ [Ho1 [Hc1 _]]]]]]]]]]].
  destruct (get_latest_side_none_spec _ _ _ _ _ _ _ Hn1 Ho1 G) as [A [_ C]].
  split; [exact (C HJ1)|]. eexists. split; [rewrite A; apply (nth_upd_eq _ _ _ _ Hn1)|].
  rewrite gs_ss_same, Hoip. cbn. split; [destruct (s_ex (gs en1 sd)); reflexivity|]. split; [exact Ho1|]. split; [exact Hc1|].
  intros e' Hne'. rewrite A, nth_list_upd. destruct (Nat.eqb_spec e' (upd_target s sd o)); [contradiction|].
  rewrite He1, nth_list_upd. destruct (Nat.eqb_spec e' (upd_target s sd o)); [contradiction|]. apply nth_base_lt; assumption.
Qed.

(* K5: an event always forces a re-read - false once a priority punt has pushed a change stamp, and with it _last_gotten,
   ahead of the clock *)
Definition event_forces_reread_full : Prop :=
  forall E es sd ot (o : str) path h ex s1,
  oip E sd = false -> update E (st es) sd ot (Some o) path h ex None = Ok s1 ->
  forall sd', is_latest_side (mkES s1 (g_pad (gotten es) (length (ents s1)))) (upd_target (st es) sd o) sd' = false.
Definition okE (r : res (outcome * estate)) : estate := match r with Ok (_, es) => es | Err _ => init_estate end.
Definition k5_ev := mkEv (Some File) (Some w_o1) None None (Some true) None false.
Definition k5_es :=
  let nr := fun _ : bool => @None (str * str) in
  let e1 := okE (estep E_id nr init_estate (EEvent false k5_ev false None, [TSwap false])) in
  let e2 := okE (estep E_id nr e1 (EState (OPrio 0 1%N), [])) in
  let e3 := okE (estep E_id nr e2 (EState (OPrio 0 2%N), [])) in
  let e4 := okE (estep E_id nr e3 (EState (OPrio 0 3%N), [])) in
  okE (estep E_id nr e4 (ELatest 0 false [false; true] (Some (mkInfo File (Some 1%N) w_pa None)) None, [])).
Definition k5_s1 := ok (update E_id (st k5_es) false (Some File) (Some w_o1) None None (Some true) None).
Lemma k5_E1 : update E_id (st k5_es) false (Some File) (Some w_o1) None None (Some true) None = Ok k5_s1.
Proof. vm_compute. reflexivity. Qed.
Lemma k5_diff : is_latest_side (mkES k5_s1 (g_pad (gotten k5_es) (length (ents k5_s1)))) (upd_target (st k5_es) false w_o1) false <> false.
Proof. vm_compute. discriminate. Qed.
Lemma event_forces_reread_refuted : ~ event_forces_reread_full.
Proof. intros H. exact (k5_diff (H E_id k5_es false (Some File) w_o1 None None (Some true) k5_s1 eq_refl k5_E1 false)). Qed.

(* K6: a re-delivered event does not make the state forget an id - false for path-style ids *)
Definition late_duplicate_keeps_ids_full : Prop :=
  forall E s sd ot (o : str) path h ex prior t s1,
  IdxJ s -> o <> [] -> lookup_oid s sd (Some o) <> None ->
  update E (st_tape s t) sd (Some ot) (Some o) path h ex prior = Ok s1 ->
  forall o' : str, lookup_oid s1 sd (Some o') = None <-> lookup_oid s sd (Some o') = None.
(* create /a; rename /a -> /b; create /a again (all unsynced); then the rename event once more: the entry of the
   new /a is taken for the renamed object, /a is known to nobody any more *)
Definition k6_s :=
  let s1 := ok (update E_path (st_tape init_state [TSwap false]) false (Some File) (Some w_pa) (Some w_pa) None (Some true) None) in
  let s2 := ok (update E_path (st_tape s1 [TSwap false]) false (Some File) (Some w_pb) (Some w_pb) None (Some true) (Some w_pa)) in
  st_tape (ok (update E_path (st_tape s2 [TSwap false]) false (Some File) (Some w_pa) (Some w_pa) None (Some true) None)) [].
Definition k6_s1 := ok (update E_path (st_tape k6_s [TSwap false; TSwap false]) false (Some File) (Some w_pb) (Some w_pb) None (Some true) (Some w_pa)).
Lemma k6_J : IdxJ k6_s. Proof. apply idxj_check_sound. vm_compute. reflexivity. Qed.
Lemma k6_K : lookup_oid k6_s false (Some w_pb) <> None. Proof. vm_compute. discriminate. Qed.
Lemma k6_E1 : update E_path (st_tape k6_s [TSwap false; TSwap false]) false (Some File) (Some w_pb) (Some w_pb) None (Some true) (Some w_pa) = Ok k6_s1.
Proof. vm_compute. reflexivity. Qed.
Lemma k6_after : lookup_oid k6_s1 false (Some w_pa) = None. Proof. vm_compute. reflexivity. Qed.
Lemma k6_before : lookup_oid k6_s false (Some w_pa) <> None. Proof. vm_compute. discriminate. Qed.
Lemma late_duplicate_keeps_ids_refuted : ~ late_duplicate_keeps_ids_full.
Proof.
  intros H. assert (Hne: w_pb <> []) by discriminate.
  destruct (H E_path k6_s false File w_pb (Some w_pb) None (Some true) (Some w_pa) [TSwap false; TSwap false] k6_s1 k6_J Hne k6_K k6_E1 w_pa) as [A _].
  exact (k6_before (A k6_after)).
Qed.

(* ... and true for id-stable providers (non-folder events) *)
Theorem late_duplicate_keeps_ids_thm E s sd ot (o : str) path h ex t s1 :
  IdxJ s -> oip E sd = false -> ot <> Dir -> o <> [] -> al_get o (oids s sd) <> None ->
  update E (st_tape s t) sd (Some ot) (Some o) path h ex None = Ok s1 ->
  forall sd' (o' : str), obsc s1 sd' o' = None <-> obsc s sd' o' = None.
Proof.
  intros HJ Hoip Hot Hne Hk H sd' o'.
  destruct (obsc_update _ _ _ _ _ _ _ _ _ (IdxJ_st_tape _ t HJ) Hoip Hot Hne H) as [_ [c [_ F]]]. cbv zeta in F.
  rewrite F, !obsc_st_tape.
  destruct (Bool.eqb sd' sd && str_eqb o' o)%bool eqn:Ek.
  - apply andb_prop in Ek as [Es Eo]. apply Bool.eqb_prop in Es. apply str_eqb_eq in Eo. subst sd' o'.
    split; [discriminate|]. intros Hn. exfalso. unfold obsc in Hn.
    destruct (al_get o (oids s sd)) as [e|] eqn:Ea; [|apply Hk; reflexivity].
    destruct HJ as [_ [Ho _]]. apply Ho in Ea. unfold oid_of in Ea. destruct (nth_error (ents s) e); discriminate.
  - destruct (obsc s sd' o') as [[en m]|]; [|split; reflexivity].
    destruct (ostr_eqb (s_oid (gs en sd)) (Some o)); split; discriminate.
Qed.

(* the deletion of an object nobody has seen (id-stable provider): one new entry, trashed on the event's side, with no
   counterpart - SyncManager.delete_synced only writes when `sync[synced].oid` is set *)
Definition delete_synced_target (en : entry) (changed : bool) : option str :=
  if tstr (s_oid (gs en (negb changed))) then s_oid (gs en (negb changed)) else None.
Lemma list_upd_app_last {T} (l : list T) x y : list_upd (l ++ [x]) (length l) y = l ++ [y].
Proof. induction l as [|a l IH]; simpl; [reflexivity|]. rewrite IH. reflexivity. Qed.
Theorem vanished_event_harmless_thm E s sd ot (o : str) path h t s1 :
  IdxJ s -> oip E sd = false -> ot <> Dir -> o <> [] -> al_get o (oids s sd) = None ->
  update E (st_tape s t) sd (Some ot) (Some o) path h (Some false) None = Ok s1 ->
  IdxJ s1 /\ exists en1, ents s1 = ents s ++ [en1] /\ s_ex (gs en1 sd) = ExTrashed /\ s_oid (gs en1 sd) = Some o /\
    gs en1 (negb sd) = new_side ot /\ e_ign en1 = INone /\ delete_synced_target en1 sd = None.
Proof.
  intros HJ Hoip Hot Hne Hk H.
  destruct (update_spec _ _ _ _ _ _ _ _ _ (IdxJ_st_tape _ t HJ) Hoip Hot Hne H) as [en [c [Hn [Hc [Hnew [_ [He [_ HJ1]]]]]]]].
  assert (Hk': al_get o (oids (st_tape s t) sd) = None) by (destruct sd; exact Hk).
  rewrite (Hnew Hk') in *. unfold upd_base, upd_target in He. rewrite Hk' in He. cbn [ents st_tape] in He.
  split; [exact HJ1|]. eexists. split.
  - rewrite He. apply list_upd_app_last.
  - unfold ev_entry, delete_synced_target. rewrite !gs_with_prio, !gs_ss_same, !gs_ss_other, ign_with_prio, ign_ss.
    repeat split; destruct sd; reflexivity.
Qed.
