(* PropC14.v — property theorems for C14 (events are hints) about EventModel.v / StateModel.v.
   Only statements closed by [exact], each followed by Print Assumptions.
   Quantification: EVERY provider environment E, EVERY state satisfying the C11 index invariant IdxJ (not only reachable
   ones), every event payload, every recorded set order on the tape.  "id-stable" = oip E sd = false; events of such
   providers carry no prior_oid.  What the equivalences compare (EventLaws.abs_entry / eqv): per entry and side otype, id,
   path, hash, sync markers, exists, whether the side is flagged changed, force_sync; ignore reason; priority; the change
   set; both indexes as finite maps.  Forgotten: the NUMERIC change stamps, the dirty set, the clock.  The engine reads the
   numeric stamps in three places only: SyncState.change (which pending entry is eligible first - when, not what),
   SyncEntry.get_latest (whether to re-read: C14_event_forces_reread), SyncManager.sync (which side of an entry flagged on
   BOTH sides is handled first: the event's side always gets the newest stamp, C14_update_stamp_newest). *)
From Coq Require Import NArith List Bool.
From CS Require Import Sx Str PathModel StateModel StateProofs EventModel EventProofs EventLaws EventCommute EventStamps EventRefute.
Import ListNotations.

(* ---- EventManager._process_event ---- *)

(* an event without an id is dropped: the state is returned unchanged (unless it is a folder deletion with a known path) *)
Theorem C14_idless_event_dropped : forall E roots es sd ev fw ri,
  ev_oid ev = None ->
  (ev_ex ev <> Some false \/ ev_ot ev <> Some Dir \/ tstr (ev_path ev) = false \/
   lookup_path_live (st es) sd (ev_path ev) = []) ->
  process_event E roots es sd ev fw ri = Ok (ODropped, es).
Proof. exact idless_event_dropped. Qed.
Print Assumptions C14_idless_event_dropped.

(* an id-less folder deletion is handled exactly as if it carried the id of the first live entry filed under its path *)
Theorem C14_folder_delete_by_path : forall E roots es sd ev fw ri e r x,
  ev_oid ev = None -> ev_ex ev = Some false -> ev_ot ev = Some Dir -> tstr (ev_path ev) = true ->
  lookup_path_live (st es) sd (ev_path ev) = e :: r -> side_of (st es) e sd = Some x ->
  process_event E roots es sd ev fw ri =
  process_event E roots es sd (ev_with ev (s_oid x) (ev_path ev)) fw ri.
Proof. exact folder_delete_by_path. Qed.
Print Assumptions C14_folder_delete_by_path.

(* a walk event whose hash and path equal the stored entry (whatever its exists / otype say) changes nothing and marks
   nothing changed *)
Theorem C14_walk_event_noop_if_equal : forall E roots es sd ev ri o e x,
  ev_oid ev = Some o -> lookup_oid (st es) sd (Some o) = Some e -> side_of (st es) e sd = Some x ->
  s_hash x = ev_hash ev -> s_path x = ev_path ev ->
  process_event E roots es sd ev true ri = Ok (OWalkSame, es).
Proof. exact walk_event_noop_if_equal. Qed.
Print Assumptions C14_walk_event_noop_if_equal.

(* ---- SyncState.update: one non-folder event of an id-stable provider touches exactly one entry ---- *)
Theorem C14_update_spec : forall E s sd ot (o : str) path h ex s1,
  IdxJ s -> oip E sd = false -> ot <> Dir -> o <> [] ->
  update E s sd (Some ot) (Some o) path h ex None = Ok s1 ->
  exists en c, nth_error (upd_base s sd o ot) (upd_target s sd o) = Some en /\ tchg c = true /\
    (al_get o (oids s sd) = None -> en = new_entry ot) /\
    (al_get o (oids s sd) <> None -> s_oid (gs en sd) = Some o) /\
    ents s1 = list_upd (upd_base s sd o ot) (upd_target s sd o) (ev_entry en sd ot o (omap (nps (cvs E sd)) path) h ex c) /\
    (forall e', set_mem e' (cset s1) = Nat.eqb e' (upd_target s sd o) || set_mem e' (cset s)) /\ IdxJ s1.
Proof. exact update_spec. Qed.
Print Assumptions C14_update_spec.

(* ---- duplicates ---- *)

(* full strength is FALSE of the faithful model: a creation event after a deletion event gives LIKELY_TRASHED when it
   arrives once and EXISTS when it arrives twice (SyncState.update_entry) *)
Theorem C14_update_idempotent_refuted : ~ update_idempotent_full.
Proof. exact update_idempotent_refuted. Qed.
Print Assumptions C14_update_idempotent_refuted.

(* what holds: applying the same event twice equals applying it once, unless the stored side is TRASHED and the event says
   exists ... *)
Theorem C14_update_idempotent_partial : forall E s sd ot (o : str) path h ex t1 t2 s1 s2,
  IdxJ s -> oip E sd = false -> ot <> Dir -> o <> [] ->
  ~ (ex = Some true /\ stored_ex s sd o = Some ExTrashed) ->
  update E (st_tape s t1) sd (Some ot) (Some o) path h ex None = Ok s1 ->
  update E (st_tape s1 t2) sd (Some ot) (Some o) path h ex None = Ok s2 ->
  eqv s1 s2.
Proof. exact update_idempotent_partial_thm. Qed.
Print Assumptions C14_update_idempotent_partial.

(* ... and in that case too the difference does not survive the re-read of the truth by id *)
Theorem C14_dup_exists_resolved_by_get_latest : forall E s sd ot (o : str) path h ex t1 t2 s1 s2 info s1' s2',
  IdxJ s -> oip E sd = false -> ot <> Dir -> o <> [] ->
  (forall i, info = Some i -> i_ot i <> Dir) ->
  update E (st_tape s t1) sd (Some ot) (Some o) path h ex None = Ok s1 ->
  update E (st_tape s1 t2) sd (Some ot) (Some o) path h ex None = Ok s2 ->
  get_latest_side E s1 (upd_target s sd o) sd info = Ok s1' ->
  get_latest_side E s2 (upd_target s sd o) sd info = Ok s2' ->
  eqv s1' s2'.
Proof. exact dup_exists_resolved_by_get_latest_thm. Qed.
Print Assumptions C14_dup_exists_resolved_by_get_latest.

(* a re-delivered event never makes the state learn or forget an id (id-stable) ... *)
Theorem C14_late_duplicate_keeps_ids_partial : forall E s sd ot (o : str) path h ex t s1,
  IdxJ s -> oip E sd = false -> ot <> Dir -> o <> [] -> al_get o (oids s sd) <> None ->
  update E (st_tape s t) sd (Some ot) (Some o) path h ex None = Ok s1 ->
  forall sd' (o' : str), obsc s1 sd' o' = None <-> obsc s sd' o' = None.
Proof. exact late_duplicate_keeps_ids_thm. Qed.
Print Assumptions C14_late_duplicate_keeps_ids_partial.

(* ... FALSE for path-style ids: a late copy of a rename event (prior_oid) re-files the entry of a file re-created at the
   old path; the new file's id is then known to nobody (witness replayed on the real SyncState: corpus/C14) *)
Theorem C14_late_duplicate_keeps_ids_refuted : ~ late_duplicate_keeps_ids_full.
Proof. exact late_duplicate_keeps_ids_refuted. Qed.
Print Assumptions C14_late_duplicate_keeps_ids_refuted.

(* ---- delay and permutation (id-stable providers) ---- *)

(* events for DIFFERENT ids commute (what can be seen through the id indexes is the same in both orders) *)
Theorem C14_events_commute_distinct_oids_partial : forall E s sd otA (oA : str) pA hA exA otB (oB : str) pB hB exB tA tB tA' tB' sA sAB sB sBA,
  IdxJ s -> oip E sd = false -> otA <> Dir -> otB <> Dir -> oA <> [] -> oB <> [] -> oA <> oB ->
  update E (st_tape s tA) sd (Some otA) (Some oA) pA hA exA None = Ok sA ->
  update E (st_tape sA tB) sd (Some otB) (Some oB) pB hB exB None = Ok sAB ->
  update E (st_tape s tB') sd (Some otB) (Some oB) pB hB exB None = Ok sB ->
  update E (st_tape sB tA') sd (Some otA) (Some oA) pA hA exA None = Ok sBA ->
  IdxJ sAB /\ IdxJ sBA /\ eqv_obs sAB sBA.
Proof. exact events_commute_distinct_oids_thm. Qed.
Print Assumptions C14_events_commute_distinct_oids_partial.

(* FALSE with folder events: a folder event re-files the children the state knows at that moment (_update_kids), so a
   stale child event before or after it leaves the child under different paths *)
Theorem C14_events_commute_refuted : ~ events_commute_full.
Proof. exact events_commute_refuted. Qed.
Print Assumptions C14_events_commute_refuted.

(* events for the SAME id: after the re-read (provider still has the object) the state does not depend on which events were
   delivered, how often, in which order, with which payload - priority excepted *)
Theorem C14_decision_independent_of_event_payload_partial : forall E s sd (o : str) ev1 l1 ev2 l2 s1 s2 i s1' s2',
  IdxJ s -> oip E sd = false -> o <> [] -> i_ot i <> Dir ->
  Forall (fun ev => fe_ot ev <> Dir) (ev1 :: l1) -> Forall (fun ev => fe_ot ev <> Dir) (ev2 :: l2) ->
  (al_get o (oids s sd) = None -> fe_ot ev1 = fe_ot ev2) ->
  run_events E s sd o (ev1 :: l1) = Ok s1 -> run_events E s sd o (ev2 :: l2) = Ok s2 ->
  get_latest_side E s1 (upd_target s sd o) sd (Some i) = Ok s1' ->
  get_latest_side E s2 (upd_target s sd o) sd (Some i) = Ok s2' ->
  eqv_noprio s1' s2'.
Proof. exact same_oid_any_delivery_thm. Qed.
Print Assumptions C14_decision_independent_of_event_payload_partial.

(* FALSE with the priority included: an event carrying a stale path resets the punt count of the entry *)
Theorem C14_decision_independent_of_event_payload_refuted : ~ same_oid_any_delivery_full.
Proof. exact same_oid_any_delivery_refuted. Qed.
Print Assumptions C14_decision_independent_of_event_payload_refuted.

(* ---- objects that have vanished ---- *)

(* whatever was delivered for an id the provider no longer has: the re-read says TRASHED, the side stays flagged, no other
   entry is touched *)
Theorem C14_vanished_exists_trashed : forall E s sd (o : str) ev1 l1 s1 s1',
  IdxJ s -> oip E sd = false -> o <> [] -> Forall (fun ev => fe_ot ev <> Dir) (ev1 :: l1) ->
  run_events E s sd o (ev1 :: l1) = Ok s1 ->
  get_latest_side E s1 (upd_target s sd o) sd None = Ok s1' ->
  IdxJ s1' /\ exists en', nth_error (ents s1') (upd_target s sd o) = Some en' /\ s_ex (gs en' sd) = ExTrashed /\
    s_oid (gs en' sd) = Some o /\ tchg (s_chg (gs en' sd)) = true /\
    forall e', e' <> upd_target s sd o -> nth_error (ents s1') e' = nth_error (ents s) e'.
Proof. exact vanished_exists_trashed_thm. Qed.
Print Assumptions C14_vanished_exists_trashed.

(* hash and path of a vanished object stay what the last event said, and SyncEntry.hash_conflict reads them: a stale
   modification event turns "deleted here, edited there" into an edit/edit conflict *)
Theorem C14_vanished_decision_refuted : ~ vanished_decision_full.
Proof. exact vanished_decision_refuted. Qed.
Print Assumptions C14_vanished_decision_refuted.

(* the deletion of an object never seen creates one entry, trashed, without counterpart: nothing delete_synced could delete *)
Theorem C14_vanished_event_harmless : forall E s sd ot (o : str) path h t s1,
  IdxJ s -> oip E sd = false -> ot <> Dir -> o <> [] -> al_get o (oids s sd) = None ->
  update E (st_tape s t) sd (Some ot) (Some o) path h (Some false) None = Ok s1 ->
  IdxJ s1 /\ exists en1, ents s1 = ents s ++ [en1] /\ s_ex (gs en1 sd) = ExTrashed /\ s_oid (gs en1 sd) = Some o /\
    gs en1 (negb sd) = new_side ot /\ e_ign en1 = INone /\ delete_synced_target en1 sd = None.
Proof. exact vanished_event_harmless_thm. Qed.
Print Assumptions C14_vanished_event_harmless.

(* ---- the re-read is forced ---- *)

(* nothing but mark_changed moves the clock; the event's side gets a stamp newer than every stamp handed out before *)
Theorem C14_update_stamp_newest : forall E s sd ot (o : str) path h ex s1,
  oip E sd = false -> update E s sd ot (Some o) path h ex None = Ok s1 ->
  exists en' n, nth_error (ents s1) (upd_target s sd o) = Some en' /\ s_chg (gs en' sd) = CNum n /\ lastch s1 = n /\ N.lt (lastch s) n.
Proof. exact update_stamp. Qed.
Print Assumptions C14_update_stamp_newest.

(* every event (folders included) leaves its entry due for a re-read on both sides, if no _last_gotten is ahead of the last
   change stamp *)
Theorem C14_event_forces_reread_partial : forall E es sd ot (o : str) path h ex s1,
  oip E sd = false -> gotten_bounded es ->
  update E (st es) sd ot (Some o) path h ex None = Ok s1 ->
  forall sd', is_latest_side (mkES s1 (g_pad (gotten es) (length (ents s1)))) (upd_target (st es) sd o) sd' = false.
Proof. exact event_forces_reread_thm. Qed.
Print Assumptions C14_event_forces_reread_partial.

(* FALSE without that hypothesis: three priority punts push the change stamp, and get_latest pushes _last_gotten, ahead of
   the clock; the next event is stamped earlier and is NOT re-read (witness replayed on the real code: corpus/C14) *)
Theorem C14_event_forces_reread_refuted : ~ event_forces_reread_full.
Proof. exact event_forces_reread_refuted. Qed.
Print Assumptions C14_event_forces_reread_refuted.

(* ---- non-vacuity: the hypotheses are satisfiable and the conclusions are not trivially true ---- *)
Example C14_nonvacuous_idempotent :
  exists s1 s2, IdxJ k1_s0 /\
    update E_id (st_tape k1_s0 []) false (Some File) (Some w_o1) (Some w_pbx) None (Some false) None = Ok s1 /\
    update E_id (st_tape s1 []) false (Some File) (Some w_o1) (Some w_pbx) None (Some false) None = Ok s2 /\
    stored_ex k1_s0 false w_o1 = Some ExTrashed /\ ents s1 <> ents s2.
Proof.
  eexists. eexists. split; [exact k1_J|]. split; [vm_compute; reflexivity|]. split; [vm_compute; reflexivity|].
  split; [vm_compute; reflexivity|]. vm_compute. discriminate.
Qed.
Example C14_nonvacuous_commute :
  exists sA sAB sB sBA,
    update E_id (st_tape k2_s []) false (Some File) (Some w_o1) (Some w_pb) None (Some true) None = Ok sA /\
    update E_id (st_tape sA []) false (Some File) (Some w_o2) (Some w_pay) None (Some true) None = Ok sAB /\
    update E_id (st_tape k2_s []) false (Some File) (Some w_o2) (Some w_pay) None (Some true) None = Ok sB /\
    update E_id (st_tape sB []) false (Some File) (Some w_o1) (Some w_pb) None (Some true) None = Ok sBA /\
    ents sAB <> ents sBA.
Proof.
  do 4 eexists. split; [vm_compute; reflexivity|]. split; [vm_compute; reflexivity|]. split; [vm_compute; reflexivity|].
  split; [vm_compute; reflexivity|]. vm_compute. discriminate.
Qed.
Example C14_nonvacuous_reread : gotten_bounded init_estate /\
  exists s1, update E_id (st_tape init_state [TSwap false]) false (Some File) (Some w_o1) None None (Some true) None = Ok s1.
Proof. split; [intros e sd; destruct e; vm_compute; discriminate|]. eexists. vm_compute. reflexivity. Qed.
