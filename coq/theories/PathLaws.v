(* PathLaws.v — lemmas about PathModel: the helpers read through "components of a path".
     pc cv p       the components of p (alt separators replaced, blanks dropped)
     render cv l   the canonical string of a component list
   normalize_path is [render (pc p)] (case-folded as the convention asks); everything else follows. *)
From Coq Require Import NArith List Bool Lia Arith.
From CS Require Import Sx Str StrLemmas PathModel.
Import ListNotations.

(* ------------------------------------------------------------------ hypotheses on the case fold *)
Record fold_ok (cv : conv) : Prop := {
  fo_idem : forall c, cv_fold cv (cv_fold cv c) = cv_fold cv c;
  fo_sep : forall c, cv_fold cv c = cv_sep cv <-> c = cv_sep cv;
  fo_alt : forall a, cv_alt cv = Some a -> forall c, cv_fold cv c = a <-> c = a;
  fo_colon : cv_win cv = true -> forall c, cv_fold cv c = 58%N <-> c = 58%N
}.

(* the fold only matters for case-insensitive conventions *)
Definition conv_ok (cv : conv) : Prop := cv_cs cv = false -> fold_ok cv.

(* ------------------------------------------------------------------ alt separators *)
Definition rp (cv : conv) (p : str) : str :=
  match cv_alt cv with Some a => replace_char a (cv_sep cv) p | None => p end.

Definition noalt (cv : conv) (s : str) : Prop :=
  forall a, cv_alt cv = Some a -> a <> cv_sep cv -> ~ In a s.

Lemma rp_noalt cv s : noalt cv s -> rp cv s = s.
Proof.
  unfold rp, noalt. intros H. destruct (cv_alt cv) as [a|]; [|reflexivity].
  destruct (N.eq_dec a (cv_sep cv)) as [->|Hne]; [apply replace_char_same|].
  apply replace_char_no. apply (H a eq_refl Hne).
Qed.

Lemma noalt_rp cv s : noalt cv (rp cv s).
Proof.
  unfold rp, noalt. intros a Ha Hne. rewrite Ha. apply replace_char_out. exact Hne.
Qed.

Lemma noalt_incl cv s t : incl t s -> noalt cv s -> noalt cv t.
Proof. intros Hi Hs a Ha Hne Hin. apply (Hs a Ha Hne). apply Hi. exact Hin. Qed.

Lemma noalt_app cv a b : noalt cv (a ++ b) <-> noalt cv a /\ noalt cv b.
Proof.
  split.
  - intros H. split; eapply noalt_incl; try exact H; [apply incl_appl|apply incl_appr]; apply incl_refl.
  - intros [Ha Hb] x Hx Hne Hin. apply in_app_or in Hin as [Hin|Hin]; [apply (Ha x Hx Hne Hin)|apply (Hb x Hx Hne Hin)].
Qed.

Lemma noalt_sep cv : noalt cv [cv_sep cv].
Proof. intros a Ha Hne [H|[]]. congruence. Qed.

Lemma noalt_nil cv : noalt cv [].
Proof. intros a Ha Hne []. Qed.

Lemma noalt_cons cv x s : noalt cv [x] -> noalt cv s -> noalt cv (x :: s).
Proof. intros Hx Hs. apply (proj2 (noalt_app cv [x] s)). split; assumption. Qed.

Lemma rp_app cv a b : rp cv (a ++ b) = rp cv a ++ rp cv b.
Proof. unfold rp. destruct (cv_alt cv); [apply replace_char_app|reflexivity]. Qed.

Lemma rp_idem cv s : rp cv (rp cv s) = rp cv s.
Proof. apply rp_noalt. apply noalt_rp. Qed.

Lemma rp_nil cv : rp cv [] = [].
Proof. unfold rp. destruct (cv_alt cv); reflexivity. Qed.

Lemma rp_length cv s : length (rp cv s) = length s.
Proof. unfold rp. destruct (cv_alt cv); [apply map_length|reflexivity]. Qed.

(* ------------------------------------------------------------------ nps *)
Lemma nps_eq cv p :
  nps cv p = if str_eqb (rp cv p) [cv_sep cv] then [cv_sep cv] else rstrip (cv_sep cv) (rp cv p).
Proof.
  destruct p as [|x p].
  - rewrite rp_nil. reflexivity.
  - unfold nps. fold (rp cv (x :: p)).
    destruct (str_eqb_spec (rp cv (x :: p)) [cv_sep cv]) as [E|E]; [exact E|reflexivity].
Qed.

Lemma nps_noalt cv p : noalt cv (nps cv p).
Proof.
  rewrite nps_eq. destruct (str_eqb (rp cv p) [cv_sep cv]); [apply noalt_sep|].
  eapply noalt_incl; [apply rstrip_incl|apply noalt_rp].
Qed.

Lemma nps_shape cv p : nps cv p = [cv_sep cv] \/ rstrip (cv_sep cv) (nps cv p) = nps cv p.
Proof.
  rewrite nps_eq. destruct (str_eqb (rp cv p) [cv_sep cv]); [left; reflexivity|right; apply rstrip_idem].
Qed.

Lemma nps_fix cv x : noalt cv x -> (x = [cv_sep cv] \/ rstrip (cv_sep cv) x = x) -> nps cv x = x.
Proof.
  intros Hn Hs. rewrite nps_eq, (rp_noalt cv x Hn).
  destruct (str_eqb_spec x [cv_sep cv]) as [E|E]; [symmetry; exact E|].
  destruct Hs as [Hs|Hs]; [contradiction|exact Hs].
Qed.

Lemma nps_idem cv p : nps cv (nps cv p) = nps cv p.
Proof. apply nps_fix; [apply nps_noalt|apply nps_shape]. Qed.

Lemma nps_nil cv : nps cv [] = [].
Proof. reflexivity. Qed.

Lemma nps_sep cv : nps cv [cv_sep cv] = [cv_sep cv].
Proof. apply nps_fix; [apply noalt_sep|left; reflexivity]. Qed.

(* components of a path *)
Definition pc (cv : conv) (p : str) : list str := comps (cv_sep cv) (rp cv p).

Lemma comps_nps cv p : comps (cv_sep cv) (nps cv p) = pc cv p.
Proof.
  unfold pc. rewrite nps_eq. destruct (str_eqb_spec (rp cv p) [cv_sep cv]) as [E|E].
  - rewrite E. reflexivity.
  - apply comps_rstrip.
Qed.

Lemma pc_nps cv p : pc cv (nps cv p) = pc cv p.
Proof. unfold pc at 1. rewrite (rp_noalt cv _ (nps_noalt cv p)). apply comps_nps. Qed.

Lemma pc_noalt cv s : noalt cv s -> pc cv s = comps (cv_sep cv) s.
Proof. intros H. unfold pc. rewrite (rp_noalt cv s H). reflexivity. Qed.

Lemma comps_incl c s q : In q (comps c s) -> incl q s.
Proof.
  revert q. induction s as [|x s IH]; intros q Hq; simpl in Hq; [destruct Hq|].
  destruct (N.eqb x c).
  - apply incl_tl. apply IH. exact Hq.
  - destruct (starts_comp c s).
    + destruct (comps c s) as [|h t].
      * destruct Hq as [<-|[]]. intros y [Hy|[]]. left. exact Hy.
      * destruct Hq as [<-|Hq].
        -- intros y [Hy|Hy]; [left; exact Hy|right; apply (IH h); [left; reflexivity|exact Hy]].
        -- apply incl_tl. apply IH. right. exact Hq.
    + destruct Hq as [<-|Hq].
      * intros y [Hy|[]]. left. exact Hy.
      * apply incl_tl. apply IH. exact Hq.
Qed.

(* a component: non-empty, no separator, no alt separator *)
Definition gcomp (cv : conv) (q : str) : Prop := good (cv_sep cv) q /\ noalt cv q.

Lemma pc_gcomp cv p : Forall (gcomp cv) (pc cv p).
Proof.
  unfold pc. apply Forall_forall. intros q Hq. split.
  - pose proof (comps_good (cv_sep cv) (rp cv p)) as H. rewrite Forall_forall in H. apply H. exact Hq.
  - eapply noalt_incl; [apply (comps_incl _ _ _ Hq)|apply noalt_rp].
Qed.

Lemma gcomp_good cv l : Forall (gcomp cv) l -> Forall (good (cv_sep cv)) l.
Proof. apply Forall_impl. intros q [H _]. exact H. Qed.

Lemma nps_gcomp cv q : gcomp cv q -> nps cv q = q.
Proof. intros [[_ Hs] Hn]. apply nps_fix; [exact Hn|right; apply rstrip_no; exact Hs]. Qed.

Lemma noalt_intercalate cv l : Forall (gcomp cv) l -> noalt cv (intercalate (cv_sep cv) l).
Proof.
  induction 1 as [|p l [_ Hp] Hl IH]; [apply noalt_nil|].
  rewrite intercalate_cons. destruct l as [|q l]; [exact Hp|].
  apply noalt_app. split; [exact Hp|]. apply noalt_cons; [apply noalt_sep|exact IH].
Qed.

(* ------------------------------------------------------------------ join *)
(* the drive-letter test of Provider.join: win_paths and joined_path[1:2] == ':' *)
Definition dl (cv : conv) (j : str) : bool :=
  cv_win cv && match j with _ :: y :: _ => N.eqb y 58 | _ => false end.

Definition fin (cv : conv) (j : str) : str := if dl cv j then j else add_sep cv j.

Lemma join_eq cv paths :
  join cv paths =
  match strip_list cv (norm_list cv paths) with
  | [] => [cv_sep cv]
  | l => fin cv (intercalate (cv_sep cv) l)
  end.
Proof.
  unfold join, fin, dl. destruct (strip_list cv (norm_list cv paths)) as [|p l]; [reflexivity|].
  generalize (intercalate (cv_sep cv) (p :: l)). intros j.
  destruct (cv_win cv); [|reflexivity]. cbn [andb].
  destruct j as [|x [|y j]]; reflexivity.
Qed.

Lemma comps_add_sep cv j : comps (cv_sep cv) (add_sep cv j) = comps (cv_sep cv) j.
Proof.
  unfold add_sep. destruct j as [|x j]; [reflexivity|].
  destruct (N.eqb x (cv_sep cv)); [reflexivity|apply comps_cons_sep].
Qed.

Lemma comps_fin cv j : comps (cv_sep cv) (fin cv j) = comps (cv_sep cv) j.
Proof. unfold fin. destruct (dl cv j); [reflexivity|apply comps_add_sep]. Qed.

Lemma noalt_add_sep cv j : noalt cv j -> noalt cv (add_sep cv j).
Proof.
  intros H. unfold add_sep. destruct j as [|x j]; [exact H|].
  destruct (N.eqb x (cv_sep cv)); [exact H|]. apply noalt_cons; [apply noalt_sep|exact H].
Qed.

Lemma noalt_fin cv j : noalt cv j -> noalt cv (fin cv j).
Proof. intros H. unfold fin. destruct (dl cv j); [exact H|apply noalt_add_sep; exact H]. Qed.

Lemma filter_nonempty_comps c (L : list str) :
  concat (map (comps c) (filter nonempty L)) = concat (map (comps c) L).
Proof.
  induction L as [|p L IH]; [reflexivity|]. simpl.
  destruct p as [|x p]; simpl; [exact IH|]. rewrite IH. reflexivity.
Qed.

Lemma strip_list_comps cv L :
  concat (map (comps (cv_sep cv)) (strip_list cv L)) = concat (map (comps (cv_sep cv)) L).
Proof.
  destruct L as [|p r]; [reflexivity|]. unfold strip_list.
  rewrite map_app, concat_app, !filter_nonempty_comps. simpl. rewrite app_nil_r, comps_rstrip. f_equal.
  induction r as [|q r IH]; [reflexivity|]. simpl. rewrite comps_strip, IH. reflexivity.
Qed.

Lemma norm_list_comps cv l :
  concat (map (comps (cv_sep cv)) (norm_list cv l)) = concat (map (pc cv) l).
Proof.
  unfold norm_list. rewrite filter_nonempty_comps.
  induction l as [|p l IH]; [reflexivity|]. simpl. rewrite comps_nps, IH. reflexivity.
Qed.

Lemma noalt_strip_list cv L : Forall (noalt cv) L -> Forall (noalt cv) (strip_list cv L).
Proof.
  intros H. destruct L as [|p r]; [constructor|]. unfold strip_list.
  inversion H as [|p' r' Hp Hr]; subst. apply Forall_app. split.
  - simpl. destruct (nonempty (rstrip (cv_sep cv) p)); [|constructor].
    constructor; [|constructor]. eapply noalt_incl; [apply rstrip_incl|exact Hp].
  - apply Forall_forall. intros q Hq. apply filter_In in Hq as [Hq _]. apply in_map_iff in Hq as [z [<- Hz]].
    rewrite Forall_forall in Hr. eapply noalt_incl; [apply strip_incl|apply Hr; exact Hz].
Qed.

Lemma noalt_norm_list cv l : Forall (noalt cv) (norm_list cv l).
Proof.
  unfold norm_list. apply Forall_forall. intros q Hq. apply filter_In in Hq as [Hq _].
  apply in_map_iff in Hq as [z [<- _]]. apply nps_noalt.
Qed.

Lemma noalt_intercalate_gen cv L : Forall (noalt cv) L -> noalt cv (intercalate (cv_sep cv) L).
Proof.
  induction 1 as [|p l Hp Hl IH]; [apply noalt_nil|].
  rewrite intercalate_cons. destruct l as [|q l]; [exact Hp|].
  apply noalt_app. split; [exact Hp|]. apply noalt_cons; [apply noalt_sep|exact IH].
Qed.

Lemma noalt_join cv l : noalt cv (join cv l).
Proof.
  rewrite join_eq. pose proof (noalt_strip_list cv _ (noalt_norm_list cv l)) as H.
  destruct (strip_list cv (norm_list cv l)) as [|p r]; [apply noalt_sep|].
  apply noalt_fin. apply noalt_intercalate_gen. exact H.
Qed.

(* the components of a join are the components of its arguments, in order *)
Lemma pc_join cv l : pc cv (join cv l) = concat (map (pc cv) l).
Proof.
  rewrite (pc_noalt cv _ (noalt_join cv l)). rewrite join_eq.
  rewrite <- norm_list_comps, <- strip_list_comps.
  destruct (strip_list cv (norm_list cv l)) as [|p r] eqn:E.
  - simpl. rewrite N.eqb_refl. reflexivity.
  - rewrite comps_fin. apply comps_intercalate.
Qed.

(* ------------------------------------------------------------------ render *)
Definition render (cv : conv) (l : list str) : str :=
  match l with [] => [cv_sep cv] | _ => fin cv (intercalate (cv_sep cv) l) end.

Lemma strip_list_good cv l : Forall (good (cv_sep cv)) l -> strip_list cv l = l.
Proof.
  intros H. destruct l as [|p r]; [reflexivity|]. unfold strip_list.
  inversion H as [|p' r' [Hp1 Hp2] Hr]; subst.
  rewrite rstrip_no by exact Hp2. simpl. destruct p as [|x p]; [contradiction|]. simpl. f_equal.
  induction Hr as [|q r [Hq1 Hq2] Hr IH]; [reflexivity|]. simpl.
  rewrite strip_no by exact Hq2. destruct q as [|y q]; [contradiction|]. simpl. f_equal. apply IH.
  constructor; [split; assumption|exact Hr].
Qed.

Lemma norm_list_gcomp cv l : Forall (gcomp cv) l -> norm_list cv l = l.
Proof.
  unfold norm_list. induction 1 as [|p l Hp Hl IH]; [reflexivity|]. simpl.
  rewrite (nps_gcomp cv p Hp). destruct Hp as [[Hp1 _] _]. destruct p; [contradiction|]. simpl. f_equal. exact IH.
Qed.

Lemma join_gcomp cv l : Forall (gcomp cv) l -> join cv l = render cv l.
Proof.
  intros H. rewrite join_eq, (norm_list_gcomp cv l H), (strip_list_good cv l (gcomp_good cv l H)).
  destruct l; reflexivity.
Qed.

Lemma noalt_render cv l : Forall (gcomp cv) l -> noalt cv (render cv l).
Proof. intros H. rewrite <- join_gcomp by exact H. apply noalt_join. Qed.

Lemma pc_render cv l : Forall (gcomp cv) l -> pc cv (render cv l) = l.
Proof.
  intros H. rewrite (pc_noalt cv _ (noalt_render cv l H)). unfold render.
  destruct l as [|p r]; [simpl; rewrite N.eqb_refl; reflexivity|].
  rewrite comps_fin. apply comps_intercalate_good. apply gcomp_good. exact H.
Qed.

(* the pieces of re.split on the separator of an nps-normal string are already components *)
Lemma split_runs_aux_all (P : N -> Prop) c s cur b :
  (forall x, In x cur -> P x) -> (forall x, In x s -> x <> c -> P x) ->
  Forall (fun q => forall x, In x q -> P x) (split_runs_aux c s cur b).
Proof.
  revert cur b. induction s as [|x s IH]; intros cur b Hc Hs; simpl.
  - constructor; [|constructor]. intros y Hy. apply in_rev in Hy. apply Hc. exact Hy.
  - assert (Hs' : forall y, In y s -> y <> c -> P y) by (intros y Hy; apply Hs; right; exact Hy).
    destruct (N.eqb_spec x c) as [->|Hx].
    + destruct b; [apply IH; assumption|]. constructor; [|apply IH; [intros y []|exact Hs']].
      intros y Hy. apply in_rev in Hy. apply Hc. exact Hy.
    + apply IH; [|exact Hs']. intros y [<-|Hy]; [apply Hs; [left; reflexivity|exact Hx]|apply Hc; exact Hy].
Qed.

Lemma norm_list_split_runs cv s : noalt cv s ->
  norm_list cv (split_runs (cv_sep cv) s) = comps (cv_sep cv) s.
Proof.
  intros Hn. rewrite <- split_runs_comps. unfold norm_list. f_equal.
  rewrite <- (map_id (split_runs (cv_sep cv) s)) at 2. apply map_ext_in. intros q Hq.
  apply nps_fix.
  - intros a Ha Hne Hin.
    pose proof (split_runs_aux_all (fun x => x <> a) (cv_sep cv) s [] false) as H.
    rewrite Forall_forall in H. refine (H _ _ q Hq a Hin eq_refl).
    + intros x [].
    + intros x Hx _ ->. apply (Hn a Ha Hne Hx).
  - right. apply rstrip_no. pose proof (split_runs_nosep (cv_sep cv) s) as H.
    rewrite Forall_forall in H. apply H. exact Hq.
Qed.

Lemma join_split_runs cv p : join cv (split_runs (cv_sep cv) (nps cv p)) = render cv (pc cv p).
Proof.
  rewrite join_eq, (norm_list_split_runs cv _ (nps_noalt cv p)), comps_nps.
  rewrite (strip_list_good cv _ (gcomp_good cv _ (pc_gcomp cv p))). destruct (pc cv p); reflexivity.
Qed.
