(* PathLaws.v — lemmas about PathModel. *)
From Coq Require Import NArith List Bool Lia.
From CS Require Import Sx Str PathModel.
Import ListNotations.

Lemma str_eqb_eq a b : str_eqb a b = true <-> a = b.
Proof.
  revert b; induction a as [|x a IH]; intros [|y b]; simpl; split; intros H; try congruence; try reflexivity.
  - apply andb_true_iff in H as [H1 H2]. apply N.eqb_eq in H1. apply IH in H2. congruence.
  - inversion H; subst. rewrite N.eqb_refl. simpl. apply IH. reflexivity.
Qed.

Lemma lstrip_idem c s : lstrip c (lstrip c s) = lstrip c s.
Proof.
  induction s as [|x s IH]; simpl; [reflexivity|].
  destruct (N.eqb x c) eqn:E; [exact IH|]. simpl. rewrite E. reflexivity.
Qed.

Lemma rstrip_idem c s : rstrip c (rstrip c s) = rstrip c s.
Proof. unfold rstrip. rewrite rev_involutive, lstrip_idem. reflexivity. Qed.

Lemma replace_char_idem a b s : replace_char a b (replace_char a b s) = replace_char a b s.
Proof.
  unfold replace_char. rewrite map_map. apply map_ext. intros x.
  destruct (N.eqb x a) eqn:E; [|rewrite E; reflexivity].
  destruct (N.eqb b a) eqn:E2; [|reflexivity]. reflexivity.
Qed.

Lemma lstrip_no c s : (forall x, In x s -> x <> c) -> lstrip c s = s.
Proof. destruct s as [|x s]; simpl; intros H; [reflexivity|]. destruct (N.eqb_spec x c); [exfalso; apply (H x); auto|reflexivity]. Qed.

Lemma replace_char_rstrip_comm a b s : a <> b ->
  replace_char a b (rstrip b (replace_char a b s)) = rstrip b (replace_char a b s).
Proof.
  intros Hab. unfold rstrip.
  assert (H: forall l, (forall x, In x l -> x <> a) -> replace_char a b l = l).
  { induction l as [|x l IH]; simpl; intros Hl; [reflexivity|].
    destruct (N.eqb_spec x a); [exfalso; apply (Hl x); auto|]. f_equal. apply IH. intros y Hy. apply Hl. auto. }
  apply H. intros x Hx. apply in_rev in Hx.
  assert (Hin: forall l y, In y (lstrip b l) -> In y l).
  { induction l as [|z l IH]; simpl; intros y Hy; [exact Hy|]. destruct (N.eqb z b); auto. }
  apply Hin in Hx. apply in_rev in Hx. unfold replace_char in Hx. apply in_map_iff in Hx as [z [Hz _]].
  destruct (N.eqb_spec z a); subst; auto.
Qed.

Lemma nps_idem cv p : nps cv (nps cv p) = nps cv p.
Proof.
  unfold nps. destruct p as [|x p]; [reflexivity|].
  set (p1 := match cv_alt cv with Some a => replace_char a (cv_sep cv) (x :: p) | None => x :: p end).
  destruct (str_eqb p1 [cv_sep cv]) eqn:E1.
  - apply str_eqb_eq in E1. rewrite E1.
    destruct (cv_alt cv) as [a|]; simpl.
    + destruct (N.eqb (cv_sep cv) a); simpl; rewrite N.eqb_refl; reflexivity.
    + rewrite N.eqb_refl. reflexivity.
  - destruct (rstrip (cv_sep cv) p1) as [|y q] eqn:E2; [reflexivity|].
    rewrite <- E2.
    assert (Hrep: match cv_alt cv with Some a => replace_char a (cv_sep cv) (rstrip (cv_sep cv) p1) | None => rstrip (cv_sep cv) p1 end = rstrip (cv_sep cv) p1).
    { unfold p1. destruct (cv_alt cv) as [a|]; [|reflexivity].
      destruct (N.eqb_spec a (cv_sep cv)) as [->|Hne].
      - unfold replace_char. rewrite map_ext with (g := fun x => x); [apply map_id|]. intros z. destruct (N.eqb z (cv_sep cv)) eqn:Ez; [apply N.eqb_eq in Ez; auto|reflexivity].
      - apply replace_char_rstrip_comm. exact Hne. }
    rewrite Hrep. rewrite rstrip_idem.
    destruct (str_eqb (rstrip (cv_sep cv) p1) [cv_sep cv]); reflexivity.
Qed.
