(* PathLaws.v — lemmas about PathModel: the helpers read through "components of a path".
     pc cv p       the components of p (alt separators replaced, blanks dropped)
     render cv l   the canonical string of a component list
   normalize_path is [render (pc p)] (case-folded as the convention asks); everything else follows. *)
From Coq Require Import NArith List Bool Lia Arith.
From CS Require Import Sx Str PathModel.
From CS Require Export StrLemmas.
Import ListNotations.

(* ------------------------------------------------------------------ hypotheses on the case fold *)
Record fold_ok (cv : conv) : Prop := {
  fo_idem : forall c, cv_fold cv (cv_fold cv c) = cv_fold cv c;
  fo_sep : forall c, cv_fold cv c = cv_sep cv <-> c = cv_sep cv;
  fo_alt : forall a, cv_alt cv = Some a -> forall c, cv_fold cv c = a <-> c = a;
  fo_colon : cv_win cv = true -> forall c, cv_fold cv c = 58%N <-> c = 58%N
}.

(* the fold only matters for case-insensitive conventions *)
Definition conv_ok (cv : conv) : Prop := cv_cs cv = false -> fold_ok cv.

(* ------------------------------------------------------------------ alt separators *)
Definition rp (cv : conv) (p : str) : str :=
  match cv_alt cv with Some a => replace_char a (cv_sep cv) p | None => p end.

Definition noalt (cv : conv) (s : str) : Prop :=
  forall a, cv_alt cv = Some a -> a <> cv_sep cv -> ~ In a s.

Lemma rp_noalt cv s : noalt cv s -> rp cv s = s.
Proof.
  unfold rp, noalt. intros H. destruct (cv_alt cv) as [a|]; [|reflexivity].
  destruct (N.eq_dec a (cv_sep cv)) as [->|Hne]; [apply replace_char_same|].
  apply replace_char_no. apply (H a eq_refl Hne).
Qed.

Lemma noalt_rp cv s : noalt cv (rp cv s).
Proof.
  unfold rp, noalt. intros a Ha Hne. rewrite Ha. apply replace_char_out. exact Hne.
Qed.

Lemma noalt_incl cv s t : incl t s -> noalt cv s -> noalt cv t.
Proof. intros Hi Hs a Ha Hne Hin. apply (Hs a Ha Hne). apply Hi. exact Hin. Qed.

Lemma noalt_app cv a b : noalt cv (a ++ b) <-> noalt cv a /\ noalt cv b.
Proof.
  split.
  - intros H. split; eapply noalt_incl; try exact H; [apply incl_appl|apply incl_appr]; apply incl_refl.
  - intros [Ha Hb] x Hx Hne Hin. apply in_app_or in Hin as [Hin|Hin]; [apply (Ha x Hx Hne Hin)|apply (Hb x Hx Hne Hin)].
Qed.

Lemma noalt_sep cv : noalt cv [cv_sep cv].
Proof. intros a Ha Hne [H|[]]. congruence. Qed.

Lemma noalt_nil cv : noalt cv [].
Proof. intros a Ha Hne []. Qed.

Lemma noalt_cons cv x s : noalt cv [x] -> noalt cv s -> noalt cv (x :: s).
Proof. intros Hx Hs. apply (proj2 (noalt_app cv [x] s)). split; assumption. Qed.

Lemma rp_app cv a b : rp cv (a ++ b) = rp cv a ++ rp cv b.
Proof. unfold rp. destruct (cv_alt cv); [apply replace_char_app|reflexivity]. Qed.

Lemma rp_idem cv s : rp cv (rp cv s) = rp cv s.
Proof. apply rp_noalt. apply noalt_rp. Qed.

Lemma rp_nil cv : rp cv [] = [].
Proof. unfold rp. destruct (cv_alt cv); reflexivity. Qed.

Lemma rp_length cv s : length (rp cv s) = length s.
Proof. unfold rp. destruct (cv_alt cv); [apply map_length|reflexivity]. Qed.

(* ------------------------------------------------------------------ nps *)
Lemma nps_eq cv p :
  nps cv p = if str_eqb (rp cv p) [cv_sep cv] then [cv_sep cv] else rstrip (cv_sep cv) (rp cv p).
Proof.
  destruct p as [|x p].
  - rewrite rp_nil. reflexivity.
  - unfold nps. fold (rp cv (x :: p)).
    destruct (str_eqb_spec (rp cv (x :: p)) [cv_sep cv]) as [E|E]; [exact E|reflexivity].
Qed.

Lemma nps_noalt cv p : noalt cv (nps cv p).
Proof.
  rewrite nps_eq. destruct (str_eqb (rp cv p) [cv_sep cv]); [apply noalt_sep|].
  eapply noalt_incl; [apply rstrip_incl|apply noalt_rp].
Qed.

Lemma nps_shape cv p : nps cv p = [cv_sep cv] \/ rstrip (cv_sep cv) (nps cv p) = nps cv p.
Proof.
  rewrite nps_eq. destruct (str_eqb (rp cv p) [cv_sep cv]); [left; reflexivity|right; apply rstrip_idem].
Qed.

Lemma nps_fix cv x : noalt cv x -> (x = [cv_sep cv] \/ rstrip (cv_sep cv) x = x) -> nps cv x = x.
Proof.
  intros Hn Hs. rewrite nps_eq, (rp_noalt cv x Hn).
  destruct (str_eqb_spec x [cv_sep cv]) as [E|E]; [symmetry; exact E|].
  destruct Hs as [Hs|Hs]; [contradiction|exact Hs].
Qed.

Lemma nps_idem cv p : nps cv (nps cv p) = nps cv p.
Proof. apply nps_fix; [apply nps_noalt|apply nps_shape]. Qed.

Lemma nps_nil cv : nps cv [] = [].
Proof. reflexivity. Qed.

Lemma nps_sep cv : nps cv [cv_sep cv] = [cv_sep cv].
Proof. apply nps_fix; [apply noalt_sep|left; reflexivity]. Qed.

(* components of a path *)
Definition pc (cv : conv) (p : str) : list str := comps (cv_sep cv) (rp cv p).

Lemma comps_nps cv p : comps (cv_sep cv) (nps cv p) = pc cv p.
Proof.
  unfold pc. rewrite nps_eq. destruct (str_eqb_spec (rp cv p) [cv_sep cv]) as [E|E].
  - rewrite E. reflexivity.
  - apply comps_rstrip.
Qed.

Lemma pc_nps cv p : pc cv (nps cv p) = pc cv p.
Proof. unfold pc at 1. rewrite (rp_noalt cv _ (nps_noalt cv p)). apply comps_nps. Qed.

Lemma pc_noalt cv s : noalt cv s -> pc cv s = comps (cv_sep cv) s.
Proof. intros H. unfold pc. rewrite (rp_noalt cv s H). reflexivity. Qed.

Lemma comps_incl c s q : In q (comps c s) -> incl q s.
Proof.
  revert q. induction s as [|x s IH]; intros q Hq; simpl in Hq; [destruct Hq|].
  destruct (N.eqb x c).
  - apply incl_tl. apply IH. exact Hq.
  - destruct (starts_comp c s).
    + destruct (comps c s) as [|h t].
      * destruct Hq as [<-|[]]. intros y [Hy|[]]. left. exact Hy.
      * destruct Hq as [<-|Hq].
        -- intros y [Hy|Hy]; [left; exact Hy|right; apply (IH h); [left; reflexivity|exact Hy]].
        -- apply incl_tl. apply IH. right. exact Hq.
    + destruct Hq as [<-|Hq].
      * intros y [Hy|[]]. left. exact Hy.
      * apply incl_tl. apply IH. exact Hq.
Qed.

(* a component: non-empty, no separator, no alt separator *)
Definition gcomp (cv : conv) (q : str) : Prop := good (cv_sep cv) q /\ noalt cv q.

Lemma pc_gcomp cv p : Forall (gcomp cv) (pc cv p).
Proof.
  unfold pc. apply Forall_forall. intros q Hq. split.
  - pose proof (comps_good (cv_sep cv) (rp cv p)) as H. rewrite Forall_forall in H. apply H. exact Hq.
  - eapply noalt_incl; [apply (comps_incl _ _ _ Hq)|apply noalt_rp].
Qed.

Lemma gcomp_good cv l : Forall (gcomp cv) l -> Forall (good (cv_sep cv)) l.
Proof. apply Forall_impl. intros q [H _]. exact H. Qed.

Lemma nps_gcomp cv q : gcomp cv q -> nps cv q = q.
Proof. intros [[_ Hs] Hn]. apply nps_fix; [exact Hn|right; apply rstrip_no; exact Hs]. Qed.

Lemma noalt_intercalate cv l : Forall (gcomp cv) l -> noalt cv (intercalate (cv_sep cv) l).
Proof.
  induction 1 as [|p l [_ Hp] Hl IH]; [apply noalt_nil|].
  rewrite intercalate_cons. destruct l as [|q l]; [exact Hp|].
  apply noalt_app. split; [exact Hp|]. apply noalt_cons; [apply noalt_sep|exact IH].
Qed.

(* ------------------------------------------------------------------ join *)
(* the drive-letter test of Provider.join: win_paths and joined_path[1:2] == ':' *)
Definition dl (cv : conv) (j : str) : bool :=
  cv_win cv && match j with _ :: y :: _ => N.eqb y 58 | _ => false end.

Definition fin (cv : conv) (j : str) : str := if dl cv j then j else add_sep cv j.

Lemma join_eq cv paths :
  join cv paths =
  match strip_list cv (norm_list cv paths) with
  | [] => [cv_sep cv]
  | l => fin cv (intercalate (cv_sep cv) l)
  end.
Proof.
  unfold join, fin, dl. destruct (strip_list cv (norm_list cv paths)) as [|p l]; [reflexivity|].
  generalize (intercalate (cv_sep cv) (p :: l)). intros j.
  destruct (cv_win cv); [|reflexivity]. cbn [andb].
  destruct j as [|x [|y j]]; reflexivity.
Qed.

Lemma comps_add_sep cv j : comps (cv_sep cv) (add_sep cv j) = comps (cv_sep cv) j.
Proof.
  unfold add_sep. destruct j as [|x j]; [reflexivity|].
  destruct (N.eqb x (cv_sep cv)); [reflexivity|apply comps_cons_sep].
Qed.

Lemma comps_fin cv j : comps (cv_sep cv) (fin cv j) = comps (cv_sep cv) j.
Proof. unfold fin. destruct (dl cv j); [reflexivity|apply comps_add_sep]. Qed.

Lemma noalt_add_sep cv j : noalt cv j -> noalt cv (add_sep cv j).
Proof.
  intros H. unfold add_sep. destruct j as [|x j]; [exact H|].
  destruct (N.eqb x (cv_sep cv)); [exact H|]. apply noalt_cons; [apply noalt_sep|exact H].
Qed.

Lemma noalt_fin cv j : noalt cv j -> noalt cv (fin cv j).
Proof. intros H. unfold fin. destruct (dl cv j); [exact H|apply noalt_add_sep; exact H]. Qed.

Lemma filter_nonempty_comps c (L : list str) :
  concat (map (comps c) (filter nonempty L)) = concat (map (comps c) L).
Proof.
  induction L as [|p L IH]; [reflexivity|]. simpl.
  destruct p as [|x p]; simpl; [exact IH|]. rewrite IH. reflexivity.
Qed.

Lemma strip_list_comps cv L :
  concat (map (comps (cv_sep cv)) (strip_list cv L)) = concat (map (comps (cv_sep cv)) L).
Proof.
  destruct L as [|p r]; [reflexivity|]. unfold strip_list.
  rewrite map_app, concat_app, !filter_nonempty_comps. simpl. rewrite app_nil_r, comps_rstrip. f_equal.
  induction r as [|q r IH]; [reflexivity|]. simpl. rewrite comps_strip, IH. reflexivity.
Qed.

Lemma norm_list_comps cv l :
  concat (map (comps (cv_sep cv)) (norm_list cv l)) = concat (map (pc cv) l).
Proof.
  unfold norm_list. rewrite filter_nonempty_comps.
  induction l as [|p l IH]; [reflexivity|]. simpl. rewrite comps_nps, IH. reflexivity.
Qed.

Lemma noalt_strip_list cv L : Forall (noalt cv) L -> Forall (noalt cv) (strip_list cv L).
Proof.
  intros H. destruct L as [|p r]; [constructor|]. unfold strip_list.
  inversion H as [|p' r' Hp Hr]; subst. apply Forall_app. split.
  - simpl. destruct (nonempty (rstrip (cv_sep cv) p)); [|constructor].
    constructor; [|constructor]. eapply noalt_incl; [apply rstrip_incl|exact Hp].
  - apply Forall_forall. intros q Hq. apply filter_In in Hq as [Hq _]. apply in_map_iff in Hq as [z [<- Hz]].
    rewrite Forall_forall in Hr. eapply noalt_incl; [apply strip_incl|apply Hr; exact Hz].
Qed.

Lemma noalt_norm_list cv l : Forall (noalt cv) (norm_list cv l).
Proof.
  unfold norm_list. apply Forall_forall. intros q Hq. apply filter_In in Hq as [Hq _].
  apply in_map_iff in Hq as [z [<- _]]. apply nps_noalt.
Qed.

Lemma noalt_intercalate_gen cv L : Forall (noalt cv) L -> noalt cv (intercalate (cv_sep cv) L).
Proof.
  induction 1 as [|p l Hp Hl IH]; [apply noalt_nil|].
  rewrite intercalate_cons. destruct l as [|q l]; [exact Hp|].
  apply noalt_app. split; [exact Hp|]. apply noalt_cons; [apply noalt_sep|exact IH].
Qed.

Lemma noalt_join cv l : noalt cv (join cv l).
Proof.
  rewrite join_eq. pose proof (noalt_strip_list cv _ (noalt_norm_list cv l)) as H.
  destruct (strip_list cv (norm_list cv l)) as [|p r]; [apply noalt_sep|].
  apply noalt_fin. apply noalt_intercalate_gen. exact H.
Qed.

(* the components of a join are the components of its arguments, in order *)
Lemma pc_join cv l : pc cv (join cv l) = concat (map (pc cv) l).
Proof.
  rewrite (pc_noalt cv _ (noalt_join cv l)). rewrite join_eq.
  rewrite <- norm_list_comps, <- strip_list_comps.
  destruct (strip_list cv (norm_list cv l)) as [|p r] eqn:E.
  - simpl. rewrite N.eqb_refl. reflexivity.
  - rewrite comps_fin. apply comps_intercalate.
Qed.

(* ------------------------------------------------------------------ render *)
Definition render (cv : conv) (l : list str) : str :=
  match l with [] => [cv_sep cv] | _ => fin cv (intercalate (cv_sep cv) l) end.

Lemma strip_list_good cv l : Forall (good (cv_sep cv)) l -> strip_list cv l = l.
Proof.
  intros H. destruct l as [|p r]; [reflexivity|]. unfold strip_list.
  inversion H as [|p' r' [Hp1 Hp2] Hr]; subst.
  rewrite rstrip_no by exact Hp2. simpl. destruct p as [|x p]; [contradiction|]. simpl. f_equal.
  induction Hr as [|q r [Hq1 Hq2] Hr IH]; [reflexivity|]. simpl.
  rewrite strip_no by exact Hq2. destruct q as [|y q]; [contradiction|]. simpl. f_equal. apply IH.
  constructor; [split; assumption|exact Hr].
Qed.

Lemma norm_list_gcomp cv l : Forall (gcomp cv) l -> norm_list cv l = l.
Proof.
  unfold norm_list. induction 1 as [|p l Hp Hl IH]; [reflexivity|]. simpl.
  rewrite (nps_gcomp cv p Hp). destruct Hp as [[Hp1 _] _]. destruct p; [contradiction|]. simpl. f_equal. exact IH.
Qed.

Lemma join_gcomp cv l : Forall (gcomp cv) l -> join cv l = render cv l.
Proof.
  intros H. rewrite join_eq, (norm_list_gcomp cv l H), (strip_list_good cv l (gcomp_good cv l H)).
  destruct l; reflexivity.
Qed.

Lemma noalt_render cv l : Forall (gcomp cv) l -> noalt cv (render cv l).
Proof. intros H. rewrite <- join_gcomp by exact H. apply noalt_join. Qed.

Lemma pc_render cv l : Forall (gcomp cv) l -> pc cv (render cv l) = l.
Proof.
  intros H. rewrite (pc_noalt cv _ (noalt_render cv l H)). unfold render.
  destruct l as [|p r]; [simpl; rewrite N.eqb_refl; reflexivity|].
  rewrite comps_fin. apply comps_intercalate_good. apply gcomp_good. exact H.
Qed.

(* the pieces of re.split on the separator of an nps-normal string are already components *)
Lemma split_runs_aux_all (P : N -> Prop) c s cur b :
  (forall x, In x cur -> P x) -> (forall x, In x s -> x <> c -> P x) ->
  Forall (fun q => forall x, In x q -> P x) (split_runs_aux c s cur b).
Proof.
  revert cur b. induction s as [|x s IH]; intros cur b Hc Hs; simpl.
  - constructor; [|constructor]. intros y Hy. apply in_rev in Hy. apply Hc. exact Hy.
  - assert (Hs' : forall y, In y s -> y <> c -> P y) by (intros y Hy; apply Hs; right; exact Hy).
    destruct (N.eqb_spec x c) as [->|Hx].
    + destruct b; [apply IH; assumption|]. constructor; [|apply IH; [intros y []|exact Hs']].
      intros y Hy. apply in_rev in Hy. apply Hc. exact Hy.
    + apply IH; [|exact Hs']. intros y [<-|Hy]; [apply Hs; [left; reflexivity|exact Hx]|apply Hc; exact Hy].
Qed.

Lemma norm_list_split_runs cv s : noalt cv s ->
  norm_list cv (split_runs (cv_sep cv) s) = comps (cv_sep cv) s.
Proof.
  intros Hn. rewrite <- split_runs_comps. unfold norm_list. f_equal.
  rewrite <- (map_id (split_runs (cv_sep cv) s)) at 2. apply map_ext_in. intros q Hq.
  apply nps_fix.
  - intros a Ha Hne Hin.
    pose proof (split_runs_aux_all (fun x => x <> a) (cv_sep cv) s [] false) as H.
    rewrite Forall_forall in H. refine (H _ _ q Hq a Hin eq_refl).
    + intros x [].
    + intros x Hx _ ->. apply (Hn a Ha Hne Hx).
  - right. apply rstrip_no. pose proof (split_runs_nosep (cv_sep cv) s) as H.
    rewrite Forall_forall in H. apply H. exact Hq.
Qed.

Lemma join_split_runs cv p : join cv (split_runs (cv_sep cv) (nps cv p)) = render cv (pc cv p).
Proof.
  rewrite join_eq, (norm_list_split_runs cv _ (nps_noalt cv p)), comps_nps.
  rewrite (strip_list_good cv _ (gcomp_good cv _ (pc_gcomp cv p))). destruct (pc cv p); reflexivity.
Qed.

(* ------------------------------------------------------------------ case fold *)
Lemma lower_length cv s : length (lower cv s) = length s.
Proof. apply map_length. Qed.

Lemma lower_app cv a b : lower cv (a ++ b) = lower cv a ++ lower cv b.
Proof. apply map_app. Qed.

Lemma lower_idem cv (Hf : fold_ok cv) s : lower cv (lower cv s) = lower cv s.
Proof. unfold lower. rewrite map_map. apply map_ext. intros x. apply (fo_idem cv Hf). Qed.

Lemma fold_sep cv (Hf : fold_ok cv) : cv_fold cv (cv_sep cv) = cv_sep cv.
Proof. apply (proj2 (fo_sep cv Hf _)). reflexivity. Qed.

Lemma fold_sep_inv cv (Hf : fold_ok cv) c : cv_fold cv c = cv_sep cv -> c = cv_sep cv.
Proof. apply (proj1 (fo_sep cv Hf c)). Qed.

Lemma fold_alt cv (Hf : fold_ok cv) a : cv_alt cv = Some a -> cv_fold cv a = a.
Proof. intros Ha. apply (proj2 (fo_alt cv Hf a Ha a)). reflexivity. Qed.

Lemma fold_alt_inv cv (Hf : fold_ok cv) a c : cv_alt cv = Some a -> cv_fold cv c = a -> c = a.
Proof. intros Ha. apply (proj1 (fo_alt cv Hf a Ha c)). Qed.

Lemma fold_colon cv (Hf : fold_ok cv) : cv_win cv = true -> cv_fold cv 58%N = 58%N.
Proof. intros Hw. apply (proj2 (fo_colon cv Hf Hw _)). reflexivity. Qed.

Lemma fold_colon_inv cv (Hf : fold_ok cv) c : cv_win cv = true -> cv_fold cv c = 58%N -> c = 58%N.
Proof. intros Hw. apply (proj1 (fo_colon cv Hf Hw c)). Qed.

Lemma lower_sep_iff cv (Hf : fold_ok cv) s : lower cv s = [cv_sep cv] <-> s = [cv_sep cv].
Proof.
  destruct s as [|x [|y s]]; simpl; split; intros H; try discriminate.
  - injection H as H. apply (fold_sep_inv cv Hf) in H. subst. reflexivity.
  - injection H as H. subst. rewrite (fold_sep cv Hf). reflexivity.
Qed.

Lemma lower_in cv s y : In y (lower cv s) -> exists x, In x s /\ cv_fold cv x = y.
Proof. intros H. apply in_map_iff in H as [x [Hx Hi]]. exists x. split; assumption. Qed.

Lemma lower_nosep cv (Hf : fold_ok cv) s : ~ In (cv_sep cv) s -> ~ In (cv_sep cv) (lower cv s).
Proof.
  intros H Hin. apply lower_in in Hin as [x [Hx Hfx]]. apply (fold_sep_inv cv Hf) in Hfx. subst. contradiction.
Qed.

Lemma lower_noalt cv (Hf : fold_ok cv) s : noalt cv s -> noalt cv (lower cv s).
Proof.
  intros H a Ha Hne Hin. apply lower_in in Hin as [x [Hx Hfx]].
  apply (fold_alt_inv cv Hf a x Ha) in Hfx. subst. apply (H a Ha Hne Hx).
Qed.

Lemma gcomp_lower cv (Hf : fold_ok cv) q : gcomp cv q -> gcomp cv (lower cv q).
Proof.
  intros [[H1 H2] H3]. split; [split|].
  - destruct q; [contradiction|discriminate].
  - apply lower_nosep; assumption.
  - apply lower_noalt; assumption.
Qed.

Lemma gcomp_map_lower cv (Hf : fold_ok cv) l : Forall (gcomp cv) l -> Forall (gcomp cv) (map (lower cv) l).
Proof. induction 1; simpl; constructor; [apply gcomp_lower; assumption|assumption]. Qed.

Lemma rp_lower cv (Hf : fold_ok cv) s : rp cv (lower cv s) = lower cv (rp cv s).
Proof.
  unfold rp. destruct (cv_alt cv) as [a|] eqn:Ea; [|reflexivity].
  unfold replace_char, lower. rewrite !map_map. apply map_ext. intros x.
  destruct (N.eqb_spec x a) as [->|Hx].
  - replace (N.eqb (cv_fold cv a) a) with true; [symmetry; apply (fold_sep cv Hf)|].
    symmetry. apply N.eqb_eq. apply (fold_alt cv Hf a Ea).
  - replace (N.eqb (cv_fold cv x) a) with false; [reflexivity|].
    symmetry. apply N.eqb_neq. intros H. apply (fold_alt_inv cv Hf a x Ea) in H. contradiction.
Qed.

Lemma pc_lower cv (Hf : fold_ok cv) s : pc cv (lower cv s) = map (lower cv) (pc cv s).
Proof. unfold pc. rewrite rp_lower by exact Hf. apply comps_map. intros x. apply (fo_sep cv Hf). Qed.

Lemma dl_lower cv (Hf : fold_ok cv) j : dl cv (lower cv j) = dl cv j.
Proof.
  unfold dl. destruct (cv_win cv) eqn:Ew; [|reflexivity]. simpl.
  destruct j as [|x [|y j]]; try reflexivity. simpl.
  destruct (N.eqb_spec y 58) as [->|Hy].
  - apply N.eqb_eq. apply (fold_colon cv Hf Ew).
  - apply N.eqb_neq. intros H. apply (fold_colon_inv cv Hf y Ew) in H. contradiction.
Qed.

Lemma add_sep_lower cv (Hf : fold_ok cv) j : lower cv (add_sep cv j) = add_sep cv (lower cv j).
Proof.
  destruct j as [|x j]; [reflexivity|]. simpl.
  destruct (N.eqb_spec x (cv_sep cv)) as [->|Hx].
  - rewrite (fold_sep cv Hf), N.eqb_refl. simpl. rewrite (fold_sep cv Hf). reflexivity.
  - replace (N.eqb (cv_fold cv x) (cv_sep cv)) with false.
    + simpl. rewrite (fold_sep cv Hf). reflexivity.
    + symmetry. apply N.eqb_neq. intros H. apply (fold_sep_inv cv Hf) in H. contradiction.
Qed.

Lemma fin_lower cv (Hf : fold_ok cv) j : lower cv (fin cv j) = fin cv (lower cv j).
Proof.
  unfold fin. rewrite dl_lower by exact Hf. destruct (dl cv j); [reflexivity|apply add_sep_lower; exact Hf].
Qed.

Lemma lower_intercalate cv (Hf : fold_ok cv) l :
  lower cv (intercalate (cv_sep cv) l) = intercalate (cv_sep cv) (map (lower cv) l).
Proof. unfold lower. rewrite intercalate_map. rewrite (fold_sep cv Hf). reflexivity. Qed.

Lemma lower_render cv (Hf : fold_ok cv) l : lower cv (render cv l) = render cv (map (lower cv) l).
Proof.
  destruct l as [|p l]; [simpl; rewrite (fold_sep cv Hf); reflexivity|].
  unfold render. simpl map at 2. rewrite fin_lower, lower_intercalate by exact Hf. reflexivity.
Qed.

(* ------------------------------------------------------------------ split of a rendered path *)
Lemma intercalate_good_fix c L : Forall (good c) L -> L <> [] ->
  rstrip c (intercalate c L) = intercalate c L /\ intercalate c L <> [].
Proof.
  induction 1 as [|p l [Hp1 Hp2] Hl IH]; intros Hne; [contradiction|].
  rewrite intercalate_cons. destruct l as [|q l].
  - split; [apply rstrip_no; exact Hp2|exact Hp1].
  - destruct IH as [IH1 IH2]; [discriminate|]. split.
    + rewrite rstrip_app_keep.
      * f_equal. rewrite rstrip_cons, IH1. destruct (intercalate c (q :: l)); [contradiction|reflexivity].
      * rewrite rstrip_cons, IH1. destruct (intercalate c (q :: l)); [contradiction|discriminate].
    + destruct p; discriminate.
Qed.

Lemma nps_intercalate cv L : Forall (gcomp cv) L -> L <> [] ->
  nps cv (intercalate (cv_sep cv) L) = intercalate (cv_sep cv) L.
Proof.
  intros H Hne. apply nps_fix; [apply noalt_intercalate; exact H|].
  right. apply intercalate_good_fix; [apply gcomp_good; exact H|exact Hne].
Qed.

Lemma nps_sep_intercalate cv L : Forall (gcomp cv) L -> L <> [] ->
  nps cv (cv_sep cv :: intercalate (cv_sep cv) L) = cv_sep cv :: intercalate (cv_sep cv) L.
Proof.
  intros H Hne. destruct (intercalate_good_fix (cv_sep cv) L (gcomp_good cv L H) Hne) as [H1 H2].
  apply nps_fix; [apply noalt_cons; [apply noalt_sep|apply noalt_intercalate; exact H]|].
  right. rewrite rstrip_cons, H1. destruct (intercalate (cv_sep cv) L); [contradiction|reflexivity].
Qed.

Lemma split_nosep cv s : nps cv s = s -> ~ In (cv_sep cv) s -> split cv s = ([], s).
Proof. intros Hn Hs. unfold split. rewrite Hn, (rfind_none _ _ Hs). reflexivity. Qed.

Lemma split_at cv a b : nps cv (a ++ cv_sep cv :: b) = a ++ cv_sep cv :: b -> ~ In (cv_sep cv) b ->
  split cv (a ++ cv_sep cv :: b) = (match a with [] => [cv_sep cv] | _ => a end, b).
Proof.
  intros Hn Hb. unfold split. rewrite Hn, (rfind_last _ a b Hb).
  destruct a as [|x a]; [reflexivity|].
  remember (x :: a) as a' eqn:Ea. destruct a' as [|x' a'']; [discriminate|].
  rewrite Ea. rewrite firstn_len_app, skipn_S_len_app. reflexivity.
Qed.

Lemma join_pair cv d b : nps cv d = d -> gcomp cv b ->
  join cv [d; b] =
  fin cv (match rstrip (cv_sep cv) d with [] => b | d' => d' ++ cv_sep cv :: b end).
Proof.
  intros Hd Hb. rewrite join_eq. unfold norm_list. cbn [map]. rewrite Hd, (nps_gcomp cv b Hb).
  destruct Hb as [[Hb1 Hb2] _].
  destruct b as [|y b]; [contradiction|].
  destruct d as [|x d].
  - cbn [filter nonempty]. unfold strip_list. cbn [map filter app].
    rewrite rstrip_no by exact Hb2. reflexivity.
  - cbn [filter nonempty]. unfold strip_list. cbn [map].
    rewrite strip_no by exact Hb2.
    destruct (rstrip (cv_sep cv) (x :: d)) as [|z d']; reflexivity.
Qed.

(* list with its last element singled out *)
Lemma dl_lower_app cv (Hf : fold_ok cv) X Z : X <> [] ->
  dl cv (lower cv X ++ cv_sep cv :: Z) = dl cv (X ++ cv_sep cv :: Z).
Proof.
  intros HX. unfold dl. destruct (cv_win cv) eqn:Ew; [|reflexivity]. cbn [andb].
  destruct X as [|x [|y X]]; [contradiction|reflexivity|]. simpl.
  destruct (N.eqb_spec y 58) as [->|Hy].
  - apply N.eqb_eq. apply (fold_colon cv Hf Ew).
  - apply N.eqb_neq. intros H. apply (fold_colon_inv cv Hf y Ew) in H. contradiction.
Qed.

Lemma head_intercalate_good c L : Forall (good c) L ->
  match intercalate c L with x :: _ => x <> c | [] => True end.
Proof.
  intros H. destruct H as [|p l [Hp1 Hp2] Hl]; [exact I|].
  rewrite intercalate_cons. destruct p as [|x p]; [contradiction|].
  assert (x <> c) by (intros ->; apply Hp2; left; reflexivity).
  destruct l; assumption.
Qed.

Lemma fin_nodl cv j : dl cv j = false -> match j with x :: _ => x <> cv_sep cv | [] => False end ->
  fin cv j = cv_sep cv :: j.
Proof.
  intros Hd Hj. unfold fin. rewrite Hd. destruct j as [|x j]; [contradiction|]. simpl.
  destruct (N.eqb_spec x (cv_sep cv)); [contradiction|reflexivity].
Qed.

Lemma fin_sep cv j : fin cv (cv_sep cv :: j) = cv_sep cv :: j.
Proof. unfold fin. destruct (dl cv (cv_sep cv :: j)); [reflexivity|]. simpl. rewrite N.eqb_refl. reflexivity. Qed.

(* normalize_path, the three readings *)
Lemma normalize_eq cv p d :
  normalize_path cv p d =
  let n := render cv (pc cv p) in
  if cv_cs cv then n
  else if d then join cv [lower cv (dirname cv n); basename cv n]
  else lower cv n.
Proof. unfold normalize_path. rewrite join_split_runs. reflexivity. Qed.

Lemma normalize_cs cv p d : cv_cs cv = true -> normalize_path cv p d = render cv (pc cv p).
Proof. intros H. rewrite normalize_eq. cbv zeta. rewrite H. reflexivity. Qed.

Lemma normalize_ci cv (Hf : fold_ok cv) p : cv_cs cv = false ->
  normalize_path cv p false = render cv (map (lower cv) (pc cv p)).
Proof. intros H. rewrite normalize_eq. cbv zeta. rewrite H. apply lower_render. exact Hf. Qed.

(* display form of a component list: everything but the leaf is folded *)
Definition disp (cv : conv) (l : list str) : list str :=
  match l with [] => [] | _ => map (lower cv) (removelast l) ++ [last l []] end.

Lemma disp_snoc cv l b : disp cv (l ++ [b]) = map (lower cv) l ++ [b].
Proof.
  unfold disp. destruct (l ++ [b]) eqn:E; [destruct l; discriminate|]. rewrite <- E.
  rewrite removelast_last, last_last. reflexivity.
Qed.

Lemma display_join cv (Hf : fold_ok cv) l b : Forall (gcomp cv) l -> gcomp cv b ->
  let n := render cv (l ++ [b]) in
  join cv [lower cv (dirname cv n); basename cv n] = render cv (map (lower cv) l ++ [b]).
Proof.
  intros Hl Hb n.
  assert (Hr : render cv (l ++ [b]) = fin cv (intercalate (cv_sep cv) (l ++ [b]))) by (destruct l; reflexivity).
  assert (Hr' : render cv (map (lower cv) l ++ [b]) = fin cv (intercalate (cv_sep cv) (map (lower cv) l ++ [b])))
    by (destruct l; reflexivity).
  pose proof Hb as [[Hb1 Hb2] Hb3].
  assert (Hnb : nps cv b = b) by (apply nps_gcomp; exact Hb).
  destruct l as [|p l].
  - (* single component *)
    subst n. rewrite Hr, Hr'. cbn [app map intercalate].
    unfold fin at 1 2. destruct (dl cv b) eqn:Ed.
    + unfold dirname, basename. rewrite (split_nosep cv b Hnb Hb2). cbn [fst snd lower map].
      rewrite join_pair by (try apply nps_nil; exact Hb). reflexivity.
    + assert (Ha : add_sep cv b = [] ++ cv_sep cv :: b).
      { destruct b as [|x b]; [contradiction|]. simpl.
        destruct (N.eqb_spec x (cv_sep cv)) as [->|]; [exfalso; apply Hb2; left; reflexivity|reflexivity]. }
      rewrite Ha. unfold dirname, basename. rewrite split_at.
      * cbn [fst snd]. rewrite join_pair; [|apply nps_fix; [apply lower_noalt; [exact Hf|apply noalt_sep]|left; simpl; rewrite (fold_sep cv Hf); reflexivity]|exact Hb].
        simpl lower. rewrite (fold_sep cv Hf). rewrite rstrip_cons. simpl. rewrite N.eqb_refl. reflexivity.
      * change ([] ++ cv_sep cv :: b) with (cv_sep cv :: b).
        apply nps_fix; [apply noalt_cons; [apply noalt_sep|exact Hb3]|].
        right. rewrite rstrip_cons, (rstrip_no _ _ Hb2). destruct b; [contradiction|reflexivity].
      * exact Hb2.
  - (* at least one directory component *)
    set (L := p :: l) in *. assert (HL : L <> []) by discriminate.
    assert (HLl : map (lower cv) L <> []) by discriminate.
    pose proof (gcomp_map_lower cv Hf L Hl) as Hl'.
    subst n. rewrite Hr, Hr'. rewrite !intercalate_snoc by assumption.
    set (X := intercalate (cv_sep cv) L).
    destruct (intercalate_good_fix (cv_sep cv) L (gcomp_good cv L Hl) HL) as [HX1 HX2]. fold X in HX1, HX2.
    destruct (intercalate_good_fix (cv_sep cv) _ (gcomp_good cv _ Hl') HLl) as [HY1 HY2].
    assert (HlX : lower cv X = intercalate (cv_sep cv) (map (lower cv) L)) by (apply lower_intercalate; exact Hf).
    rewrite <- HlX in *.
    assert (HnXb : nps cv (X ++ cv_sep cv :: b) = X ++ cv_sep cv :: b).
    { apply nps_fix; [apply noalt_app; split; [apply noalt_intercalate; exact Hl|apply noalt_cons; [apply noalt_sep|exact Hb3]]|].
      right. rewrite rstrip_app_keep; [f_equal|]; rewrite rstrip_cons, (rstrip_no _ _ Hb2); destruct b; try contradiction; try reflexivity; discriminate. }
    destruct (dl cv (X ++ cv_sep cv :: b)) eqn:Ed.
    + assert (Hfj : fin cv (X ++ cv_sep cv :: b) = X ++ cv_sep cv :: b) by (unfold fin; rewrite Ed; reflexivity).
      rewrite Hfj.
      unfold dirname, basename. rewrite split_at by assumption. cbn [fst snd].
      replace (match X with [] => [cv_sep cv] | _ :: _ => X end) with X by (destruct X; [contradiction|reflexivity]).
      rewrite join_pair; [|rewrite HlX; apply nps_intercalate; assumption|exact Hb].
      rewrite HY1. destruct (lower cv X); [contradiction|reflexivity].
    + assert (Hhead : match X with x :: _ => x <> cv_sep cv | [] => True end)
        by (apply head_intercalate_good; apply gcomp_good; exact Hl).
      assert (Ha : add_sep cv (X ++ cv_sep cv :: b) = (cv_sep cv :: X) ++ cv_sep cv :: b).
      { destruct X as [|x X]; [contradiction|]. simpl.
        destruct (N.eqb_spec x (cv_sep cv)); [contradiction|reflexivity]. }
      assert (Hfj : fin cv (X ++ cv_sep cv :: b) = add_sep cv (X ++ cv_sep cv :: b)) by (unfold fin; rewrite Ed; reflexivity).
      rewrite Hfj, Ha. unfold dirname, basename. rewrite split_at.
      * cbn [fst snd].
        assert (Hls : lower cv (cv_sep cv :: X) = cv_sep cv :: lower cv X) by (simpl; rewrite (fold_sep cv Hf); reflexivity).
        rewrite Hls. rewrite join_pair; [|rewrite HlX; apply nps_sep_intercalate; assumption|exact Hb].
        rewrite rstrip_cons, HY1. destruct (lower cv X) as [|y Y] eqn:EY; [contradiction|]. rewrite <- EY.
        change ((cv_sep cv :: lower cv X) ++ cv_sep cv :: b) with (cv_sep cv :: (lower cv X ++ cv_sep cv :: b)).
        rewrite fin_sep. symmetry. apply fin_nodl.
        -- rewrite dl_lower_app by assumption. exact Ed.
        -- rewrite EY. simpl. destruct X as [|x X]; [discriminate|]. simpl in EY. injection EY as <- _.
           intros H. apply (fold_sep_inv cv Hf) in H. contradiction.
      * change ((cv_sep cv :: X) ++ cv_sep cv :: b) with (cv_sep cv :: (X ++ cv_sep cv :: b)).
        apply nps_fix; [apply noalt_cons; [apply noalt_sep|rewrite <- HnXb; apply nps_noalt]|].
        right. rewrite rstrip_cons.
        assert (Hrs : rstrip (cv_sep cv) (X ++ cv_sep cv :: b) = X ++ cv_sep cv :: b).
        { rewrite rstrip_app_keep; [f_equal|]; rewrite rstrip_cons, (rstrip_no _ _ Hb2); destruct b; try contradiction; try reflexivity; discriminate. }
        rewrite Hrs. destruct (X ++ cv_sep cv :: b) eqn:E; [destruct X; discriminate|reflexivity].
      * exact Hb2.
Qed.

(* ------------------------------------------------------------------ normalize_path = render of a key *)
Lemma snoc_cases {T} (l : list T) : l = [] \/ exists l' b, l = l' ++ [b].
Proof.
  destruct l as [|x l]; [left; reflexivity|right].
  destruct (exists_last (l := x :: l)) as [l' [b E]]; [discriminate|]. exists l', b. exact E.
Qed.

Lemma join_sep_nil cv : join cv [[cv_sep cv]; []] = [cv_sep cv].
Proof.
  rewrite join_eq. unfold norm_list. cbn [map]. rewrite nps_sep, nps_nil. cbn [filter nonempty].
  unfold strip_list. rewrite rstrip_cons, rstrip_nil, N.eqb_refl. reflexivity.
Qed.

Lemma split_sep cv : split cv [cv_sep cv] = ([cv_sep cv], []).
Proof.
  change [cv_sep cv] with ([] ++ cv_sep cv :: []) at 1. rewrite split_at; [reflexivity| |intros []].
  apply nps_sep.
Qed.

Lemma normalize_disp cv (Hf : fold_ok cv) p : cv_cs cv = false ->
  normalize_path cv p true = render cv (disp cv (pc cv p)).
Proof.
  intros Hc. rewrite normalize_eq. cbv zeta. rewrite Hc.
  pose proof (pc_gcomp cv p) as Hg.
  destruct (snoc_cases (pc cv p)) as [E|[l [b E]]]; rewrite E in *.
  - cbn [render disp]. unfold dirname, basename. rewrite split_sep. cbn [fst snd].
    simpl lower. rewrite (fold_sep cv Hf). apply join_sep_nil.
  - apply Forall_app in Hg as [Hl Hb]. inversion Hb as [|b' r Hb' _]; subst.
    rewrite disp_snoc. apply (display_join cv Hf l b Hl Hb').
Qed.

Definition key (cv : conv) (d : bool) (l : list str) : list str :=
  if cv_cs cv then l else if d then disp cv l else map (lower cv) l.

Lemma normalize_render cv (Hok : conv_ok cv) p d :
  normalize_path cv p d = render cv (key cv d (pc cv p)).
Proof.
  unfold key. destruct (cv_cs cv) eqn:Hc; [apply normalize_cs; exact Hc|].
  destruct d; [apply normalize_disp|apply normalize_ci]; auto.
Qed.

Lemma gcomp_disp cv (Hf : fold_ok cv) l : Forall (gcomp cv) l -> Forall (gcomp cv) (disp cv l).
Proof.
  intros H. destruct (snoc_cases l) as [->|[l' [b ->]]]; [constructor|].
  rewrite disp_snoc. apply Forall_app in H as [Hl Hb]. apply Forall_app. split; [|exact Hb].
  apply gcomp_map_lower; assumption.
Qed.

Lemma gcomp_key cv (Hok : conv_ok cv) d l : Forall (gcomp cv) l -> Forall (gcomp cv) (key cv d l).
Proof.
  intros H. unfold key. destruct (cv_cs cv) eqn:Hc; [exact H|].
  destruct d; [apply gcomp_disp|apply gcomp_map_lower]; auto.
Qed.

Lemma map_lower_idem cv (Hf : fold_ok cv) l : map (lower cv) (map (lower cv) l) = map (lower cv) l.
Proof. rewrite map_map. apply map_ext. intros q. apply lower_idem. exact Hf. Qed.

Lemma disp_idem cv (Hf : fold_ok cv) l : disp cv (disp cv l) = disp cv l.
Proof.
  destruct (snoc_cases l) as [->|[l' [b ->]]]; [reflexivity|].
  rewrite !disp_snoc. rewrite map_lower_idem by exact Hf. reflexivity.
Qed.

Lemma key_idem cv (Hok : conv_ok cv) d l : key cv d (key cv d l) = key cv d l.
Proof.
  unfold key. destruct (cv_cs cv) eqn:Hc; [reflexivity|].
  destruct d; [apply disp_idem|apply map_lower_idem]; auto.
Qed.

Theorem normalize_idem cv (Hok : conv_ok cv) p d :
  normalize_path cv (normalize_path cv p d) d = normalize_path cv p d.
Proof.
  rewrite (normalize_render cv Hok p d).
  rewrite (normalize_render cv Hok (render cv _) d).
  rewrite pc_render by (apply gcomp_key; [exact Hok|apply pc_gcomp]).
  rewrite key_idem by exact Hok. reflexivity.
Qed.

Lemma render_inj cv l1 l2 : Forall (gcomp cv) l1 -> Forall (gcomp cv) l2 ->
  render cv l1 = render cv l2 -> l1 = l2.
Proof.
  intros H1 H2 E. rewrite <- (pc_render cv l1 H1), <- (pc_render cv l2 H2), E. reflexivity.
Qed.

(* ------------------------------------------------------------------ paths_match *)
Lemma match_iff_norm cv a b d :
  paths_match cv a b d = true <-> normalize_path cv a d = normalize_path cv b d.
Proof. unfold paths_match. apply str_eqb_eq. Qed.

Lemma match_refl cv a d : paths_match cv a a d = true.
Proof. apply match_iff_norm. reflexivity. Qed.

Lemma match_sym cv a b d : paths_match cv a b d = paths_match cv b a d.
Proof. unfold paths_match. apply str_eqb_sym. Qed.

Lemma match_trans cv a b c d :
  paths_match cv a b d = true -> paths_match cv b c d = true -> paths_match cv a c d = true.
Proof. rewrite !match_iff_norm. congruence. Qed.

Lemma match_iff_key cv (Hok : conv_ok cv) a b d :
  paths_match cv a b d = true <-> key cv d (pc cv a) = key cv d (pc cv b).
Proof.
  rewrite match_iff_norm, !(normalize_render cv Hok). split; [|congruence].
  apply render_inj; apply gcomp_key; try exact Hok; apply pc_gcomp.
Qed.

Lemma match_case cv (Hf : fold_ok cv) p : cv_cs cv = false ->
  paths_match cv p (lower cv p) false = true.
Proof.
  intros Hc. apply match_iff_key; [intros _; exact Hf|].
  unfold key. rewrite Hc. rewrite pc_lower, map_lower_idem by exact Hf. reflexivity.
Qed.

(* normalisation does not change the class *)
Lemma match_normalize cv (Hok : conv_ok cv) p d : paths_match cv (normalize_path cv p d) p d = true.
Proof. apply match_iff_norm. apply normalize_idem. exact Hok. Qed.

(* display mode is finer than plain matching and folds to it *)
Lemma lower_disp cv (Hf : fold_ok cv) l : map (lower cv) (disp cv l) = map (lower cv) l.
Proof.
  destruct (snoc_cases l) as [->|[l' [b ->]]]; [reflexivity|].
  rewrite disp_snoc, !map_app, map_lower_idem by exact Hf. reflexivity.
Qed.

Lemma display_same_class cv (Hf : fold_ok cv) p : cv_cs cv = false ->
  lower cv (normalize_path cv p true) = normalize_path cv p false.
Proof.
  intros Hc. rewrite normalize_disp, normalize_ci by assumption.
  rewrite lower_render, lower_disp by exact Hf. reflexivity.
Qed.

Lemma match_display_plain cv (Hok : conv_ok cv) a b :
  paths_match cv a b true = true -> paths_match cv a b false = true.
Proof.
  destruct (cv_cs cv) eqn:Hc.
  - rewrite !match_iff_norm, !normalize_cs by exact Hc. auto.
  - pose proof (Hok Hc) as Hf. rewrite !match_iff_norm. intros H.
    rewrite <- !(display_same_class cv Hf) by exact Hc. rewrite H. reflexivity.
Qed.

(* the case-sensitive twin of a convention *)
Definition cs_twin (cv : conv) : conv :=
  {| cv_sep := cv_sep cv; cv_alt := cv_alt cv; cv_cs := true; cv_win := cv_win cv; cv_fold := cv_fold cv |}.

Lemma nps_render cv l : Forall (gcomp cv) l -> nps cv (render cv l) = render cv l.
Proof.
  intros H. destruct l as [|p l]; [apply nps_sep|]. unfold render, fin.
  destruct (dl cv _); [apply nps_intercalate; [exact H|discriminate]|].
  pose proof (head_intercalate_good _ _ (gcomp_good cv _ H)) as Hh.
  unfold add_sep. destruct (intercalate (cv_sep cv) (p :: l)) as [|x j] eqn:E; [reflexivity|].
  destruct (N.eqb_spec x (cv_sep cv)); [contradiction|].
  rewrite <- E. apply nps_sep_intercalate; [exact H|discriminate].
Qed.

Lemma basename_render cv l b : Forall (gcomp cv) l -> gcomp cv b ->
  basename cv (render cv (l ++ [b])) = b.
Proof.
  intros Hl Hb.
  assert (Hall : Forall (gcomp cv) (l ++ [b])) by (apply Forall_app; split; [exact Hl|constructor; [exact Hb|constructor]]).
  pose proof (nps_render cv _ Hall) as Hn.
  pose proof Hb as [[Hb1 Hb2] Hb3].
  assert (Hform : render cv (l ++ [b]) = b \/ exists a, render cv (l ++ [b]) = a ++ cv_sep cv :: b).
  { assert (Hr : render cv (l ++ [b]) = fin cv (intercalate (cv_sep cv) (l ++ [b]))) by (destruct l; reflexivity).
    rewrite Hr.
    assert (HJ : intercalate (cv_sep cv) (l ++ [b]) = b \/ exists a, intercalate (cv_sep cv) (l ++ [b]) = a ++ cv_sep cv :: b).
    { destruct l as [|p l]; [left; reflexivity|right]. rewrite intercalate_snoc by discriminate. eexists. reflexivity. }
    unfold fin. destruct (dl cv _); [exact HJ|].
    unfold add_sep. destruct HJ as [HJ|[a HJ]]; rewrite HJ.
    - destruct b as [|x b']; [contradiction|]. destruct (N.eqb x (cv_sep cv)); [left; reflexivity|].
      right. exists []. reflexivity.
    - destruct (a ++ cv_sep cv :: b) as [|x j] eqn:E; [destruct a; discriminate|].
      destruct (N.eqb x (cv_sep cv)); [right; exists a; symmetry; exact E|].
      right. exists (cv_sep cv :: a). rewrite <- E. reflexivity. }
  unfold basename. destruct Hform as [E|[a E]]; rewrite E in *.
  - rewrite split_nosep by assumption. reflexivity.
  - rewrite split_at by assumption. reflexivity.
Qed.

Lemma basename_cs_twin cv s : basename (cs_twin cv) s = basename cv s.
Proof. reflexivity. Qed.

Lemma pc_cs_twin cv s : pc (cs_twin cv) s = pc cv s.
Proof. reflexivity. Qed.

Lemma render_cs_twin cv l : render (cs_twin cv) l = render cv l.
Proof. reflexivity. Qed.

Lemma display_keeps_leaf cv (Hf : fold_ok cv) p : cv_cs cv = false ->
  basename cv (normalize_path cv p true) = basename cv (normalize_path (cs_twin cv) p false).
Proof.
  intros Hc. rewrite normalize_disp by assumption.
  rewrite (normalize_cs (cs_twin cv) p false eq_refl), pc_cs_twin, render_cs_twin.
  pose proof (pc_gcomp cv p) as Hg.
  destruct (snoc_cases (pc cv p)) as [E|[l [b E]]]; rewrite E in *; [reflexivity|].
  rewrite disp_snoc. apply Forall_app in Hg as [Hl Hb]. inversion Hb as [|b' r Hb' _]; subst.
  rewrite !basename_render; auto. apply gcomp_map_lower; assumption.
Qed.

(* ------------------------------------------------------------------ is_subpath *)
Definition lowc (cv : conv) (s : str) : str := if cv_cs cv then s else lower cv s.

Lemma lowc_length cv s : length (lowc cv s) = length s.
Proof. unfold lowc. destruct (cv_cs cv); [reflexivity|apply lower_length]. Qed.

Lemma lowc_app cv a b : lowc cv (a ++ b) = lowc cv a ++ lowc cv b.
Proof. unfold lowc. destruct (cv_cs cv); [reflexivity|apply lower_app]. Qed.

Lemma lowc_sep_iff cv (Hok : conv_ok cv) s : lowc cv s = [cv_sep cv] <-> s = [cv_sep cv].
Proof.
  unfold lowc. destruct (cv_cs cv) eqn:Hc; [reflexivity|]. apply lower_sep_iff. apply Hok. exact Hc.
Qed.

Lemma lowc_cons_sep cv (Hok : conv_ok cv) s : lowc cv (cv_sep cv :: s) = cv_sep cv :: lowc cv s.
Proof.
  unfold lowc. destruct (cv_cs cv) eqn:Hc; [reflexivity|]. simpl. rewrite (fold_sep cv (Hok Hc)). reflexivity.
Qed.

Lemma is_subpath_eq cv f t st : f <> [] -> t <> [] ->
  is_subpath cv f t st =
  let ff := nps cv f in
  let tf := nps cv t in
  let fc := lowc cv ff in
  let tc := lowc cv tf in
  if str_eqb fc tc then (if st then NotSub else Rel [cv_sep cv])
  else if (str_eqb fc [cv_sep cv] && str_eqb (firstn 1 tc) [cv_sep cv])%bool then Rel tf
  else if Nat.ltb (length ff) (length tf) then
    match nth_error tf (length ff) with
    | Some y => if N.eqb y (cv_sep cv)
                then (if startswith tc fc then Rel (skipn (length ff) tf) else NotSub)
                else NotSub
    | None => NotSub
    end
  else NotSub.
Proof. intros Hf Ht. destruct f; [contradiction|]. destruct t; [contradiction|]. reflexivity. Qed.

Lemma is_subpath_nil_l cv t st : is_subpath cv [] t st = NotSub.
Proof. reflexivity. Qed.

Lemma is_subpath_nil_r cv f st : is_subpath cv f [] st = NotSub.
Proof. destruct f; reflexivity. Qed.

Lemma is_subpath_args cv f t st : is_subpath cv f t st <> NotSub -> f <> [] /\ t <> [].
Proof.
  intros H. split; intros ->; apply H; [apply is_subpath_nil_l|apply is_subpath_nil_r].
Qed.

(* the relative part is never the empty string (so Python's truthiness test is exact) *)
Lemma is_subpath_rel_nonempty cv f t st r : is_subpath cv f t st = Rel r -> r <> [].
Proof.
  intros H. assert (Hne : is_subpath cv f t st <> NotSub) by (rewrite H; discriminate).
  apply is_subpath_args in Hne as [Hf Ht]. rewrite is_subpath_eq in H by assumption. cbv zeta in H.
  destruct (str_eqb _ _) in H.
  - destruct st; [discriminate|]. injection H as <-. discriminate.
  - destruct (andb _ _) eqn:E in H.
    + injection H as <-. apply andb_true_iff in E as [_ E]. apply str_eqb_eq in E.
      intros En. rewrite En in E. unfold lowc in E. destruct (cv_cs cv); discriminate.
    + destruct (Nat.ltb_spec (length (nps cv f)) (length (nps cv t))) as [Hl|Hl]; [|discriminate].
      destruct (nth_error _ _); [|discriminate]. destruct (N.eqb _ _); [|discriminate].
      destruct (startswith _ _); [|discriminate]. injection H as <-.
      intros En. apply (f_equal (@length N)) in En. rewrite skipn_length in En. simpl in En.
      exact (nat_sub_0_lt _ _ Hl En).
Qed.

(* shape of a relative part *)
Definition relpart (cv : conv) (rel : str) : Prop :=
  exists r', rel = cv_sep cv :: r' /\ r' <> [] /\ noalt cv rel /\ rstrip (cv_sep cv) rel = rel.

Lemma rstrip_suffix_fix c a b : rstrip c (a ++ b) = a ++ b -> b <> [] -> rstrip c b = b.
Proof.
  intros H Hb. destruct (rstrip c b) eqn:E.
  - rewrite rstrip_app_drop in H by exact E. exfalso.
    pose proof (rstrip_length_le c a) as Hle. rewrite H, app_length in Hle.
    destruct b; [contradiction|]. simpl in Hle. exact (nat_add_S_le _ _ Hle).
  - rewrite rstrip_app_keep in H by (rewrite E; discriminate). apply app_inv_head in H. congruence.
Qed.

Lemma is_subpath_rel_shape cv (Hok : conv_ok cv) f t st rel :
  is_subpath cv f t st = Rel rel -> rel = [cv_sep cv] \/ relpart cv rel.
Proof.
  intros H. assert (Hne : is_subpath cv f t st <> NotSub) by (rewrite H; discriminate).
  apply is_subpath_args in Hne as [Hf Ht]. rewrite is_subpath_eq in H by assumption. cbv zeta in H.
  destruct (str_eqb_spec (lowc cv (nps cv f)) (lowc cv (nps cv t))) as [Eq|Eq].
  - destruct st; [discriminate|]. injection H as <-. left. reflexivity.
  - destruct (andb _ _) eqn:E in H.
    + injection H as <-. apply andb_true_iff in E as [E1 E2]. apply str_eqb_eq in E1, E2. right.
      assert (Hnr : nps cv t <> [cv_sep cv]).
      { intros Hs. apply Eq. rewrite E1, Hs. symmetry. apply lowc_sep_iff; [exact Hok|reflexivity]. }
      assert (Hhd : exists r', nps cv t = cv_sep cv :: r').
      { destruct (nps cv t) as [|x r'].
        - unfold lowc in E2. destruct (cv_cs cv); discriminate.
        - exists r'. f_equal. unfold lowc in E2. destruct (cv_cs cv) eqn:Hc; simpl in E2; injection E2 as E2; [exact E2|].
          apply (fold_sep_inv cv (Hok Hc)). exact E2. }
      destruct Hhd as [r' Hr']. exists r'. split; [exact Hr'|]. split.
      * intros ->. contradiction.
      * split; [apply nps_noalt|]. destruct (nps_shape cv t) as [Hs|Hs]; [contradiction|exact Hs].
    + destruct (Nat.ltb_spec (length (nps cv f)) (length (nps cv t))) as [Hl|Hl]; [|discriminate].
      destruct (nth_error (nps cv t) (length (nps cv f))) as [y|] eqn:En; [|discriminate].
      destruct (N.eqb_spec y (cv_sep cv)) as [->|]; [|discriminate].
      destruct (startswith _ _); [|discriminate]. injection H as <-.
      pose proof (firstn_skipn (length (nps cv f)) (nps cv t)) as Hsplit.
      set (n := length (nps cv f)) in *. set (tf := nps cv t) in *.
      assert (Hsk : exists r', skipn n tf = cv_sep cv :: r').
      { clearbody n tf. clear -En. revert n En. induction tf as [|z tf IH]; intros [|n] En; simpl in *; try discriminate.
        - injection En as ->. eexists. reflexivity.
        - apply IH. exact En. }
      destruct Hsk as [r' Hr']. destruct r' as [|z r'']; [left; exact Hr'|right].
      exists (z :: r''). split; [exact Hr'|]. split; [discriminate|]. split.
      * eapply noalt_incl; [|apply (nps_noalt cv t)]. fold tf. rewrite <- Hsplit at 2. apply incl_appr, incl_refl.
      * destruct (nps_shape cv t) as [Hs|Hs]; fold tf in Hs.
        -- exfalso. assert (Hlen : length (skipn n tf) <= length tf) by (rewrite skipn_length; apply Nat.le_sub_l).
           rewrite Hr', Hs in Hlen. simpl in Hlen. apply le_S_n in Hlen. inversion Hlen.
        -- rewrite <- Hsplit in Hs. apply rstrip_suffix_fix in Hs; [exact Hs|rewrite Hr'; discriminate].
Qed.

(* the core: below a non-root folder, and below the root *)
Lemma nps_app_relpart cv ff rel : noalt cv ff -> relpart cv rel -> nps cv (ff ++ rel) = ff ++ rel.
Proof.
  intros Hn [r' [-> [Hr [Hna Hrs]]]]. apply nps_fix; [apply noalt_app; split; assumption|].
  right. rewrite rstrip_app_keep by (rewrite Hrs; discriminate). rewrite Hrs. reflexivity.
Qed.

Lemma is_subpath_under cv (Hok : conv_ok cv) f rel st :
  f <> [] -> nps cv f <> [cv_sep cv] -> relpart cv rel ->
  is_subpath cv f (nps cv f ++ rel) st = Rel rel.
Proof.
  intros Hf Hroot Hrel. pose proof Hrel as [r' [E [Hr [Hna Hrs]]]].
  rewrite is_subpath_eq; [|exact Hf|subst rel; destruct (nps cv f); discriminate]. cbv zeta.
  rewrite (nps_app_relpart cv _ _ (nps_noalt cv f) Hrel). rewrite lowc_app.
  destruct (str_eqb_spec (lowc cv (nps cv f)) (lowc cv (nps cv f) ++ lowc cv rel)) as [Eq|_].
  { exfalso. apply (f_equal (@length N)) in Eq. rewrite app_length, !lowc_length in Eq. subst rel. simpl in Eq.
    exact (nat_add_S_neq _ _ Eq). }
  destruct (str_eqb_spec (lowc cv (nps cv f)) [cv_sep cv]) as [Eq|_].
  { exfalso. apply Hroot. apply (lowc_sep_iff cv Hok). exact Eq. }
  cbn [andb].
  destruct (Nat.ltb_spec (length (nps cv f)) (length (nps cv f ++ rel))) as [_|Hl];
    [|rewrite app_length in Hl; subst rel; simpl in Hl; exfalso; exact (nat_add_S_le _ _ Hl)].
  rewrite E at 1. rewrite nth_error_len_app, N.eqb_refl, startswith_app, skipn_len_app. reflexivity.
Qed.

Lemma is_subpath_root cv (Hok : conv_ok cv) f rel st :
  nps cv f = [cv_sep cv] -> relpart cv rel -> is_subpath cv f rel st = Rel rel.
Proof.
  intros Hroot Hrel. pose proof Hrel as [r' [E [Hr [Hna Hrs]]]].
  assert (Hnr : nps cv rel = rel) by (apply nps_fix; [exact Hna|right; exact Hrs]).
  rewrite is_subpath_eq; [|intros ->; discriminate|subst rel; discriminate]. cbv zeta.
  rewrite Hroot, Hnr.
  assert (Hls : lowc cv [cv_sep cv] = [cv_sep cv]) by (apply lowc_sep_iff; [exact Hok|reflexivity]).
  rewrite Hls.
  destruct (str_eqb_spec [cv_sep cv] (lowc cv rel)) as [Eq|_].
  { exfalso. apply (f_equal (@length N)) in Eq. rewrite lowc_length in Eq. subst rel. destruct r'; [contradiction|discriminate]. }
  rewrite str_eqb_refl. rewrite E at 1. rewrite lowc_cons_sep by exact Hok. simpl firstn. rewrite str_eqb_refl.
  reflexivity.
Qed.

(* ------------------------------------------------------------------ prefix sibling *)
Lemma prefix_sibling cv (Hok : conv_ok cv) f c s st :
  nps cv f <> [] -> nps cv f <> [cv_sep cv] -> c <> cv_sep cv -> cv_alt cv <> Some c ->
  is_subpath cv f (nps cv f ++ c :: s) st = NotSub.
Proof.
  intros Hne Hroot Hc Hca. set (ff := nps cv f) in *.
  assert (Hf : f <> []) by (intros ->; apply Hne; reflexivity).
  assert (Hcn : noalt cv [c]) by (intros a Ha _ [<-|[]]; apply Hca; exact Ha).
  assert (Htf : exists s', nps cv (ff ++ c :: s) = ff ++ c :: s').
  { rewrite nps_eq. rewrite rp_app. change (c :: s) with ([c] ++ s). rewrite rp_app.
    rewrite (rp_noalt cv ff (nps_noalt cv f)), (rp_noalt cv [c] Hcn).
    destruct (str_eqb_spec (ff ++ [c] ++ rp cv s) [cv_sep cv]) as [E|_].
    { exfalso. destruct ff as [|x [|y ff']]; [contradiction| |]; simpl in E; discriminate. }
    exists (rstrip (cv_sep cv) (rp cv s)). simpl app.
    assert (Hk : rstrip (cv_sep cv) (c :: rp cv s) = c :: rstrip (cv_sep cv) (rp cv s)) by (apply rstrip_head; exact Hc).
    rewrite rstrip_app_keep by (rewrite Hk; discriminate). rewrite Hk. reflexivity. }
  destruct Htf as [s' Htf].
  rewrite is_subpath_eq; [|exact Hf|destruct ff; discriminate]. cbv zeta. fold ff. rewrite Htf, lowc_app.
  destruct (str_eqb_spec (lowc cv ff) (lowc cv ff ++ lowc cv (c :: s'))) as [Eq|_].
  { exfalso. apply (f_equal (@length N)) in Eq. rewrite app_length, !lowc_length in Eq. simpl in Eq.
    exact (nat_add_S_neq _ _ Eq). }
  destruct (str_eqb_spec (lowc cv ff) [cv_sep cv]) as [Eq|_].
  { exfalso. apply Hroot. apply (lowc_sep_iff cv Hok). exact Eq. }
  cbn [andb]. rewrite nth_error_len_app.
  destruct (N.eqb_spec c (cv_sep cv)); [contradiction|].
  destruct (Nat.ltb _ _); reflexivity.
Qed.

(* ------------------------------------------------------------------ replace_path *)
Lemma replace_moves_rel cv f p t rel :
  is_subpath cv f p false = Rel rel ->
  replace_path cv p f t = RepOk (nps cv t ++ (if str_eqb rel [cv_sep cv] then [] else rel)).
Proof.
  intros H. unfold replace_path. rewrite H. pose proof (is_subpath_rel_nonempty _ _ _ _ _ H) as Hne.
  destruct rel; [contradiction|reflexivity].
Qed.

Lemma replace_iff_sub cv f p t :
  replace_path cv p f t = RepValueError <-> is_subpath cv f p false = NotSub.
Proof.
  unfold replace_path. destruct (is_subpath cv f p false) as [|rel] eqn:H.
  - split; reflexivity.
  - pose proof (is_subpath_rel_nonempty _ _ _ _ _ H) as Hne.
    destruct rel; [contradiction|]. split; discriminate.
Qed.

Lemma replace_lands_inside cv (Hok : conv_ok cv) f p t rel out :
  is_subpath cv f p false = Rel rel -> rel <> [cv_sep cv] ->
  t <> [] -> nps cv t <> [cv_sep cv] ->
  replace_path cv p f t = RepOk out ->
  is_subpath cv t out false = Rel rel.
Proof.
  intros H Hrel Ht Hroot Hrep. rewrite (replace_moves_rel _ _ _ _ _ H) in Hrep. injection Hrep as <-.
  destruct (str_eqb_spec rel [cv_sep cv]) as [E|_]; [contradiction|].
  destruct (is_subpath_rel_shape cv Hok _ _ _ _ H) as [E|Hs]; [contradiction|].
  apply is_subpath_under; assumption.
Qed.

(* ------------------------------------------------------------------ join puts the relative part inside *)
Definition abs_path (cv : conv) (f : str) : Prop := exists g, nps cv f = cv_sep cv :: g.

Lemma strip_head_ne c s : match strip c s with x :: _ => x <> c | [] => True end.
Proof. rewrite <- strip_idem_l. apply lstrip_head_ne. Qed.

Lemma join_two cv f r ff r' :
  nps cv f = ff -> ff <> [] -> strip (cv_sep cv) (nps cv r) = r' -> r' <> [] ->
  join cv [f; r] = fin cv (match rstrip (cv_sep cv) ff with [] => r' | d => d ++ cv_sep cv :: r' end).
Proof.
  intros Hf Hff Hr Hr'. rewrite join_eq. unfold norm_list. cbn [map]. rewrite Hf.
  destruct (nps cv r) as [|y rr] eqn:Er; [exfalso; apply Hr'; rewrite <- Hr; reflexivity|].
  destruct ff as [|x ff']; [contradiction|]. cbn [filter nonempty]. unfold strip_list. cbn [map].
  rewrite Hr. destruct r' as [|z r'']; [contradiction|]. cbn [filter nonempty].
  destruct (rstrip (cv_sep cv) (x :: ff')); reflexivity.
Qed.

Lemma join_blank cv f r : abs_path cv f -> strip (cv_sep cv) (nps cv r) = [] -> join cv [f; r] = nps cv f.
Proof.
  intros [g Hg] Hr. rewrite join_eq. unfold norm_list. cbn [map]. rewrite Hg.
  set (L := strip_list cv _).
  assert (Hl : L = filter nonempty [rstrip (cv_sep cv) (cv_sep cv :: g)]).
  { subst L. unfold strip_list. destruct (nps cv r) as [|y rr] eqn:Er; cbn [filter nonempty map]; [apply app_nil_r|].
    rewrite Hr. apply app_nil_r. }
  rewrite Hl. clear Hl.
  destruct (nps_shape cv f) as [Hs|Hs]; rewrite Hg in Hs.
  - injection Hs as ->. rewrite rstrip_cons, rstrip_nil, N.eqb_refl. reflexivity.
  - rewrite Hs. cbn [filter nonempty intercalate]. apply fin_sep.
Qed.

Lemma relpart_of_strip cv r : strip (cv_sep cv) (nps cv r) <> [] ->
  relpart cv (cv_sep cv :: strip (cv_sep cv) (nps cv r)).
Proof.
  intros Hr. exists (strip (cv_sep cv) (nps cv r)). split; [reflexivity|]. split; [exact Hr|]. split.
  - apply noalt_cons; [apply noalt_sep|]. eapply noalt_incl; [apply strip_incl|apply nps_noalt].
  - rewrite rstrip_cons, strip_idem_r. destruct (strip (cv_sep cv) (nps cv r)); [contradiction|reflexivity].
Qed.

Lemma join_inside_eq cv (Hok : conv_ok cv) f r st :
  abs_path cv f -> strip (cv_sep cv) (nps cv r) <> [] -> dl cv (join cv [f; r]) = false ->
  is_subpath cv f (join cv [f; r]) st = Rel (cv_sep cv :: strip (cv_sep cv) (nps cv r)).
Proof.
  intros [g Hg] Hr Hdl. pose proof (relpart_of_strip cv r Hr) as Hrel.
  set (r' := strip (cv_sep cv) (nps cv r)) in *.
  assert (Hj : join cv [f; r] = fin cv (match rstrip (cv_sep cv) (cv_sep cv :: g) with [] => r' | d => d ++ cv_sep cv :: r' end)).
  { apply join_two; [exact Hg|discriminate|reflexivity|exact Hr]. }
  assert (Hf : f <> []) by (intros ->; discriminate).
  destruct (nps_shape cv f) as [Hs|Hs]; rewrite Hg in Hs.
  - (* the folder is the root *)
    injection Hs as ->. rewrite rstrip_cons, rstrip_nil, N.eqb_refl in Hj.
    rewrite Hj in Hdl |- *. unfold fin in Hdl |- *. destruct (dl cv r') eqn:Ed; [congruence|].
    pose proof (strip_head_ne (cv_sep cv) (nps cv r)) as Hh. fold r' in Hh.
    assert (Ha : add_sep cv r' = cv_sep cv :: r').
    { unfold add_sep. destruct r' as [|x r'']; [contradiction|]. destruct (N.eqb_spec x (cv_sep cv)); [contradiction|reflexivity]. }
    rewrite Ha. apply is_subpath_root; assumption.
  - rewrite Hs in Hj. change ((cv_sep cv :: g) ++ cv_sep cv :: r') with (cv_sep cv :: (g ++ cv_sep cv :: r')) in Hj.
    rewrite fin_sep in Hj. rewrite Hj.
    change (cv_sep cv :: g ++ cv_sep cv :: r') with ((cv_sep cv :: g) ++ cv_sep cv :: r'). rewrite <- Hg.
    apply is_subpath_under; try assumption. rewrite Hg. intros E. injection E as ->.
    rewrite rstrip_cons, rstrip_nil, N.eqb_refl in Hs. discriminate.
Qed.

Lemma pc_sep_strip cv r : pc cv (cv_sep cv :: strip (cv_sep cv) (nps cv r)) = pc cv r.
Proof.
  rewrite pc_noalt.
  - rewrite comps_cons_sep, comps_strip. apply comps_nps.
  - apply noalt_cons; [apply noalt_sep|]. eapply noalt_incl; [apply strip_incl|apply nps_noalt].
Qed.

Theorem join_inside cv (Hok : conv_ok cv) f r st d :
  abs_path cv f -> strip (cv_sep cv) (nps cv r) <> [] -> dl cv (join cv [f; r]) = false ->
  exists rel, is_subpath cv f (join cv [f; r]) st = Rel rel /\ paths_match cv rel r d = true.
Proof.
  intros Ha Hr Hdl. eexists. split; [apply join_inside_eq; assumption|].
  apply match_iff_key; [exact Hok|]. rewrite pc_sep_strip. reflexivity.
Qed.

(* ------------------------------------------------------------------ split then join *)
Lemma split_nps cv p : split cv (nps cv p) = split cv p.
Proof. unfold split. rewrite nps_idem. reflexivity. Qed.

Lemma pc_nil cv : pc cv [] = [].
Proof. unfold pc. rewrite rp_nil. reflexivity. Qed.

Lemma pc_sep cv : pc cv [cv_sep cv] = [].
Proof. rewrite (pc_noalt cv _ (noalt_sep cv)). simpl. rewrite N.eqb_refl. reflexivity. Qed.

Lemma pc_split cv p : pc cv (dirname cv p) ++ pc cv (basename cv p) = pc cv p.
Proof.
  unfold dirname, basename. rewrite <- split_nps.
  destruct (in_dec N.eq_dec (cv_sep cv) (nps cv p)) as [Hin|Hnin].
  - destruct (last_occurrence _ _ Hin) as [a [b [E Hb]]].
    assert (Hn : nps cv (a ++ cv_sep cv :: b) = a ++ cv_sep cv :: b) by (rewrite <- E; apply nps_idem).
    rewrite E, split_at by assumption. cbn [fst snd].
    pose proof (nps_noalt cv p) as Hna. rewrite E in Hna. apply noalt_app in Hna as [Ha Hb'].
    assert (Hb'' : noalt cv b) by (eapply noalt_incl; [|exact Hb']; apply incl_tl, incl_refl).
    rewrite <- (comps_nps cv p), E, comps_app_sep, (pc_noalt cv b Hb''). f_equal.
    destruct a; [apply pc_sep|apply pc_noalt; exact Ha].
  - rewrite split_nosep; [|apply nps_idem|exact Hnin]. cbn [fst snd]. rewrite pc_nil, pc_nps. reflexivity.
Qed.

Theorem split_join cv (Hok : conv_ok cv) p d :
  paths_match cv (join cv [dirname cv p; basename cv p]) p d = true.
Proof.
  apply match_iff_key; [exact Hok|]. rewrite pc_join. cbn [map concat]. rewrite app_nil_r, pc_split. reflexivity.
Qed.

(* ------------------------------------------------------------------ is_subpath splits the components *)
Definition lowk (cv : conv) (l : list str) : list str := if cv_cs cv then l else map (lower cv) l.

Lemma lowk_app cv a b : lowk cv (a ++ b) = lowk cv a ++ lowk cv b.
Proof. unfold lowk. destruct (cv_cs cv); [reflexivity|apply map_app]. Qed.

Lemma lowk_key cv l : lowk cv l = key cv false l.
Proof. reflexivity. Qed.

Lemma lowk_pc_lowc cv (Hok : conv_ok cv) a b : lowc cv a = lowc cv b -> lowk cv (pc cv a) = lowk cv (pc cv b).
Proof.
  unfold lowc, lowk. destruct (cv_cs cv) eqn:Hc; [congruence|]. intros H.
  rewrite <- !(pc_lower cv (Hok Hc)). rewrite H. reflexivity.
Qed.

Lemma lowc_firstn cv n s : lowc cv (firstn n s) = firstn n (lowc cv s).
Proof. unfold lowc. destruct (cv_cs cv); [reflexivity|]. unfold lower. symmetry. apply firstn_map. Qed.

Lemma is_subpath_components cv (Hok : conv_ok cv) f p st r :
  is_subpath cv f p st = Rel r ->
  lowk cv (pc cv p) = lowk cv (pc cv f) ++ lowk cv (pc cv r).
Proof.
  intros H. assert (Hne : is_subpath cv f p st <> NotSub) by (rewrite H; discriminate).
  apply is_subpath_args in Hne as [Hf Hp]. rewrite is_subpath_eq in H by assumption. cbv zeta in H.
  destruct (str_eqb_spec (lowc cv (nps cv f)) (lowc cv (nps cv p))) as [Eq|Eq].
  - destruct st; [discriminate|]. injection H as <-. rewrite pc_sep.
    apply (lowk_pc_lowc cv Hok) in Eq. rewrite !pc_nps in Eq. rewrite Eq.
    unfold lowk at 3. destruct (cv_cs cv); simpl; rewrite app_nil_r; reflexivity.
  - destruct (andb _ _) eqn:E in H.
    + injection H as <-. apply andb_true_iff in E as [E1 _]. apply str_eqb_eq in E1.
      apply (proj1 (lowc_sep_iff cv Hok _)) in E1.
      rewrite <- (pc_nps cv f), E1, pc_sep, pc_nps.
      unfold lowk at 2. destruct (cv_cs cv); reflexivity.
    + destruct (Nat.ltb_spec (length (nps cv f)) (length (nps cv p))) as [Hl|Hl]; [|discriminate].
      destruct (nth_error (nps cv p) (length (nps cv f))) as [y|] eqn:En; [|discriminate].
      destruct (N.eqb_spec y (cv_sep cv)) as [->|]; [|discriminate].
      destruct (startswith _ _) eqn:Es; [|discriminate]. injection H as <-.
      set (n := length (nps cv f)) in *. set (tf := nps cv p) in *.
      pose proof (firstn_skipn n tf) as Hsplit.
      assert (Hsk : exists r', skipn n tf = cv_sep cv :: r').
      { clearbody n tf. clear -En. revert n En. induction tf as [|z tf IH]; intros [|n] En; simpl in *; try discriminate.
        - injection En as ->. eexists. reflexivity.
        - apply IH. exact En. }
      destruct Hsk as [r' Hr'].
      pose proof (nps_noalt cv p) as Hna. fold tf in Hna. rewrite <- Hsplit in Hna. apply noalt_app in Hna as [Hna1 Hna2].
      assert (Hpre : lowc cv (firstn n tf) = lowc cv (nps cv f)).
      { apply startswith_spec in Es as [x Hx]. rewrite lowc_firstn, Hx.
        replace n with (length (lowc cv (nps cv f))) by apply lowc_length. apply firstn_len_app. }
      apply (lowk_pc_lowc cv Hok) in Hpre. rewrite pc_nps in Hpre. rewrite <- Hpre.
      rewrite <- (pc_nps cv p). fold tf. rewrite <- Hsplit at 1.
      rewrite (pc_noalt cv (firstn n tf ++ skipn n tf)) by (apply noalt_app; split; assumption).
      rewrite Hr' in *. rewrite comps_app_sep, lowk_app.
      rewrite (pc_noalt cv _ Hna1), (pc_noalt cv _ Hna2), comps_cons_sep. reflexivity.
Qed.

Lemma is_subpath_self cv f : f <> [] -> nps cv f <> [] -> is_subpath cv f (nps cv f) false = Rel [cv_sep cv].
Proof.
  intros Hf Hn. rewrite is_subpath_eq by assumption. cbv zeta. rewrite nps_idem, str_eqb_refl. reflexivity.
Qed.

(* ------------------------------------------------------------------ translate *)
(* one direction: from convention cf / root rf to convention ct / root rt *)
Definition trans1 (cf ct : conv) (rf rt p : str) : option str :=
  match is_subpath cf rf p false with
  | NotSub => None
  | Rel [] => None
  | Rel r => Some (join ct [rt; r])
  end.

Definition cv_of (cv0 cv1 : conv) (side : bool) : conv := if side then cv1 else cv0.
Definition root_of (r0 r1 : str) (side : bool) : str := if side then r1 else r0.

Lemma translate_trans1 cv0 cv1 r0 r1 side p :
  translate cv0 cv1 r0 r1 side p =
  trans1 (cv_of cv0 cv1 (negb side)) (cv_of cv0 cv1 side) (root_of r0 r1 (negb side)) (root_of r0 r1 side) p.
Proof. destruct side; reflexivity. Qed.

Lemma trans1_outside cf ct rf rt p : is_subpath cf rf p false = NotSub <-> trans1 cf ct rf rt p = None.
Proof.
  unfold trans1. destruct (is_subpath cf rf p false) as [|r] eqn:H; [split; reflexivity|].
  pose proof (is_subpath_rel_nonempty _ _ _ _ _ H). destruct r; [contradiction|]. split; discriminate.
Qed.

Lemma trans1_inside cf ct rf rt p r : is_subpath cf rf p false = Rel r -> trans1 cf ct rf rt p = Some (join ct [rt; r]).
Proof.
  intros H. unfold trans1. rewrite H. pose proof (is_subpath_rel_nonempty _ _ _ _ _ H).
  destruct r; [contradiction|reflexivity].
Qed.

Lemma trans1_lands_inside cf ct (Hok : conv_ok ct) rf rt p q :
  abs_path ct rt -> trans1 cf ct rf rt p = Some q -> dl ct q = false ->
  is_subpath ct rt q false <> NotSub.
Proof.
  intros Ha Ht Hdl. unfold trans1 in Ht. destruct (is_subpath cf rf p false) as [|r]; [discriminate|].
  destruct r as [|x r]; [discriminate|]. injection Ht as <-.
  destruct (strip (cv_sep ct) (nps ct (x :: r))) eqn:Es.
  - rewrite (join_blank ct rt (x :: r) Ha Es). destruct Ha as [g Hg].
    rewrite is_subpath_self; [discriminate|intros ->; discriminate|rewrite Hg; discriminate].
  - rewrite join_inside_eq; try assumption; [discriminate|rewrite Es; discriminate].
Qed.

Definition same_syntax (a b : conv) : Prop := cv_sep a = cv_sep b /\ cv_alt a = cv_alt b.

Lemma nps_syn a b s : same_syntax a b -> nps a s = nps b s.
Proof. intros [H1 H2]. unfold nps. rewrite H1, H2. reflexivity. Qed.

Lemma pc_syn a b s : same_syntax a b -> pc a s = pc b s.
Proof. intros [H1 H2]. unfold pc, rp. rewrite H1, H2. reflexivity. Qed.

Lemma abs_syn a b s : same_syntax a b -> abs_path a s -> abs_path b s.
Proof. intros Hs [g Hg]. exists g. rewrite <- (nps_syn a b s Hs). destruct Hs as [<- _]. exact Hg. Qed.

Lemma dl_nowin cv j : cv_win cv = false -> dl cv j = false.
Proof. intros H. unfold dl. rewrite H. reflexivity. Qed.

Lemma trans1_roundtrip cf ct (Hokf : conv_ok cf) (Hokt : conv_ok ct) rf rt p :
  same_syntax cf ct -> abs_path cf rf -> abs_path ct rt ->
  is_subpath cf rf p false <> NotSub ->
  exists q, trans1 cf ct rf rt p = Some q /\
    (dl ct q = false ->
     exists back, trans1 ct cf rt rf q = Some back /\ paths_match cf back p false = true).
Proof.
  intros Hsyn Haf Hat Hin.
  destruct (is_subpath cf rf p false) as [|r] eqn:Hr; [contradiction|]. clear Hin.
  pose proof (is_subpath_components cf Hokf _ _ _ _ Hr) as Hcomp.
  exists (join ct [rt; r]). rewrite (trans1_inside _ _ _ _ _ _ Hr). split; [reflexivity|]. intros Hdl.
  assert (Hrf : rf <> []) by (destruct Haf as [g Hg]; intros ->; discriminate).
  assert (Hrt : rt <> []) by (destruct Hat as [g Hg]; intros ->; discriminate).
  assert (Hnrf : nps cf rf <> []) by (destruct Haf as [g Hg]; rewrite Hg; discriminate).
  assert (Hnrt : nps ct rt <> []) by (destruct Hat as [g Hg]; rewrite Hg; discriminate).
  destruct (strip (cv_sep ct) (nps ct r)) as [|z w] eqn:Es.
  - (* blank relative part: the path is the root *)
    rewrite (join_blank ct rt r Hat Es).
    exists (nps cf rf). split.
    + rewrite (trans1_inside _ _ _ _ _ _ (is_subpath_self ct rt Hrt Hnrt)).
      f_equal. apply join_blank; [exact Haf|].
      rewrite <- (proj1 Hsyn), nps_sep. unfold strip. simpl lstrip. rewrite N.eqb_refl. reflexivity.
    + apply match_iff_key; [exact Hokf|]. rewrite <- !lowk_key, Hcomp, pc_nps.
      assert (Hpr : pc cf r = []).
      { rewrite (pc_syn cf ct r Hsyn). rewrite <- comps_nps, <- comps_strip, Es. reflexivity. }
      rewrite Hpr. unfold lowk at 3. destruct (cv_cs cf); simpl; rewrite app_nil_r; reflexivity.
  - assert (Hne : strip (cv_sep ct) (nps ct r) <> []) by (rewrite Es; discriminate).
    pose proof (join_inside_eq ct Hokt rt r false Hat Hne Hdl) as Hback.
    eexists. split; [apply (trans1_inside _ _ _ _ _ _ Hback)|].
    apply match_iff_key; [exact Hokf|]. rewrite <- !lowk_key, Hcomp, pc_join. cbn [map concat].
    rewrite app_nil_r, lowk_app. f_equal. f_equal.
    rewrite (pc_syn cf ct _ Hsyn), pc_sep_strip. symmetry. apply pc_syn. exact Hsyn.
Qed.

(* translate, both sides *)
Theorem translate_outside cv0 cv1 r0 r1 side p :
  is_subpath (cv_of cv0 cv1 (negb side)) (root_of r0 r1 (negb side)) p false = NotSub <->
  translate cv0 cv1 r0 r1 side p = None.
Proof. rewrite translate_trans1. apply trans1_outside. Qed.

Theorem translate_inside cv0 cv1 r0 r1 side p r :
  is_subpath (cv_of cv0 cv1 (negb side)) (root_of r0 r1 (negb side)) p false = Rel r ->
  translate cv0 cv1 r0 r1 side p = Some (join (cv_of cv0 cv1 side) [root_of r0 r1 side; r]).
Proof. rewrite translate_trans1. apply trans1_inside. Qed.

Theorem translate_lands_inside cv0 cv1 r0 r1 side p q :
  conv_ok (cv_of cv0 cv1 side) -> abs_path (cv_of cv0 cv1 side) (root_of r0 r1 side) ->
  translate cv0 cv1 r0 r1 side p = Some q -> dl (cv_of cv0 cv1 side) q = false ->
  is_subpath (cv_of cv0 cv1 side) (root_of r0 r1 side) q false <> NotSub.
Proof. intros Hok Ha. rewrite translate_trans1. apply trans1_lands_inside; assumption. Qed.

Theorem translate_roundtrip cv0 cv1 r0 r1 side p :
  conv_ok cv0 -> conv_ok cv1 -> same_syntax cv0 cv1 -> abs_path cv0 r0 -> abs_path cv1 r1 ->
  is_subpath (cv_of cv0 cv1 (negb side)) (root_of r0 r1 (negb side)) p false <> NotSub ->
  exists q,
    translate cv0 cv1 r0 r1 side p = Some q /\
    (dl (cv_of cv0 cv1 side) q = false ->
     exists back,
       translate cv0 cv1 r0 r1 (negb side) q = Some back /\
       paths_match (cv_of cv0 cv1 (negb side)) back p false = true).
Proof.
  intros H0 H1 Hs Ha0 Ha1.
  assert (Hs' : same_syntax cv1 cv0) by (destruct Hs; split; symmetry; assumption).
  destruct side; cbn [negb cv_of root_of]; intros Hin.
  - destruct (trans1_roundtrip cv0 cv1 H0 H1 r0 r1 p Hs Ha0 Ha1 Hin) as [q [A B]].
    exists q. rewrite translate_trans1. cbn [negb cv_of root_of]. split; [exact A|]. intros Hdl.
    destruct (B Hdl) as [back [B1 B2]]. exists back. rewrite translate_trans1. cbn [negb cv_of root_of]. auto.
  - destruct (trans1_roundtrip cv1 cv0 H1 H0 r1 r0 p Hs' Ha1 Ha0 Hin) as [q [A B]].
    exists q. rewrite translate_trans1. cbn [negb cv_of root_of]. split; [exact A|]. intros Hdl.
    destruct (B Hdl) as [back [B1 B2]]. exists back. rewrite translate_trans1. cbn [negb cv_of root_of]. auto.
Qed.

(* replace_path lands inside the new folder, with an equivalent relative part, also for the root *)
Lemma replace_lands_inside_equiv cv (Hok : conv_ok cv) f p t rel out :
  is_subpath cv f p false = Rel rel -> rel <> [cv_sep cv] -> t <> [] ->
  replace_path cv p f t = RepOk out ->
  exists rel', is_subpath cv t out false = Rel rel' /\ pc cv rel' = pc cv rel.
Proof.
  intros H Hrel Ht Hrep.
  destruct (str_eqb_spec (nps cv t) [cv_sep cv]) as [Hroot|Hroot].
  - rewrite (replace_moves_rel _ _ _ _ _ H) in Hrep. injection Hrep as <-.
    destruct (str_eqb_spec rel [cv_sep cv]) as [E|_]; [contradiction|].
    destruct (is_subpath_rel_shape cv Hok _ _ _ _ H) as [E|Hs]; [contradiction|].
    rewrite Hroot. exists ([cv_sep cv] ++ rel). split.
    + apply is_subpath_root; [exact Hok|exact Hroot|]. destruct Hs as [r' [E [Hr [Hna Hrs]]]].
      exists rel. split; [reflexivity|]. split; [subst rel; discriminate|]. split.
      * apply noalt_cons; [apply noalt_sep|exact Hna].
      * simpl. rewrite rstrip_cons, Hrs. destruct rel; [discriminate|reflexivity].
    + destruct Hs as [r' [E [Hr [Hna Hrs]]]].
      rewrite !pc_noalt; [apply comps_cons_sep|exact Hna|apply noalt_cons; [apply noalt_sep|exact Hna]].
  - exists rel. split; [|reflexivity]. eapply replace_lands_inside; eassumption.
Qed.

(* ------------------------------------------------------------------ the concrete fold of the executable model *)
Definition cv_std (cs win : bool) : conv :=
  {| cv_sep := 47; cv_alt := Some 92%N; cv_cs := cs; cv_win := win; cv_fold := fold_std |}.

Lemma fold_std_cases c :
  (fold_std c = c /\ ~ (65 <= c <= 90)%N /\ ~ ((192 <= c <= 222)%N /\ c <> 215%N)) \/
  (fold_std c = (c + 32)%N /\ ((65 <= c <= 90)%N \/ ((192 <= c <= 222)%N /\ c <> 215%N))).
Proof.
  unfold fold_std.
  destruct (N.leb_spec 65 c), (N.leb_spec c 90), (N.leb_spec 192 c), (N.leb_spec c 222), (N.eqb_spec c 215);
    cbn [andb negb]; lia.
Qed.

Lemma fold_std_ok cs win : fold_ok (cv_std cs win).
Proof.
  constructor; cbn [cv_fold cv_sep cv_alt cv_win cv_std].
  - intros c. destruct (fold_std_cases c) as [[E _]|[E H]]; rewrite E; [exact E|].
    destruct (fold_std_cases (c + 32)) as [[E2 _]|[_ H2]]; [exact E2|lia].
  - intros c. destruct (fold_std_cases c) as [[E _]|[E H]]; rewrite E; [reflexivity|lia].
  - intros a Ha c. injection Ha as <-. destruct (fold_std_cases c) as [[E _]|[E H]]; rewrite E; [reflexivity|lia].
  - intros _ c. destruct (fold_std_cases c) as [[E _]|[E H]]; rewrite E; [reflexivity|lia].
Qed.

Lemma cv_std_ok cs win : conv_ok (cv_std cs win).
Proof. intros _. apply fold_std_ok. Qed.

(* strict only removes the "same path" answer *)
Lemma subpath_strict cv f t r : is_subpath cv f t true = Rel r -> is_subpath cv f t false = Rel r.
Proof.
  intros H. assert (Hne : is_subpath cv f t true <> NotSub) by (rewrite H; discriminate).
  apply is_subpath_args in Hne as [Hf Ht]. rewrite is_subpath_eq in * by assumption. cbv zeta in *.
  destruct (str_eqb _ _); [discriminate|exact H].
Qed.

Lemma subpath_nonstrict cv f t r : is_subpath cv f t false = Rel r ->
  is_subpath cv f t true = Rel r \/ (is_subpath cv f t true = NotSub /\ r = [cv_sep cv]).
Proof.
  intros H. assert (Hne : is_subpath cv f t false <> NotSub) by (rewrite H; discriminate).
  apply is_subpath_args in Hne as [Hf Ht]. rewrite is_subpath_eq in * by assumption. cbv zeta in *.
  destruct (str_eqb _ _); [right; split; [reflexivity|congruence]|left; exact H].
Qed.

Lemma match_cs cv a b d : cv_cs cv = true -> (paths_match cv a b d = true <-> pc cv a = pc cv b).
Proof.
  intros Hc. rewrite match_iff_key by (intros H; congruence). unfold key. rewrite Hc. reflexivity.
Qed.

(* witnesses for refutations that need no arithmetic: a case-sensitive convention needs no fold
   hypothesis at all, and a fold that only lowers 'A' satisfies fold_ok by case analysis *)
Lemma conv_ok_cs cv : cv_cs cv = true -> conv_ok cv.
Proof. intros Hc H. congruence. Qed.

Definition fold_A (c : N) : N := if N.eqb c 65 then 97%N else c.
Definition cv_A : conv :=
  {| cv_sep := 47; cv_alt := None; cv_cs := false; cv_win := false; cv_fold := fold_A |}.

Lemma fold_A_ok : fold_ok cv_A.
Proof.
  constructor; cbn [cv_fold cv_sep cv_alt cv_win cv_A].
  - intros c. unfold fold_A. destruct (N.eqb_spec c 65) as [->|H]; [reflexivity|].
    destruct (N.eqb_spec c 65); [contradiction|reflexivity].
  - intros c. unfold fold_A. destruct (N.eqb_spec c 65) as [->|H]; split; intros E; try discriminate; exact E.
  - intros a Ha. discriminate.
  - intros Hw. discriminate.
Qed.
