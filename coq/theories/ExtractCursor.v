From Coq Require Import ExtrOcamlBasic.
From CS Require Import Sx CursorModel.
Definition run := CursorModel.run.
Extraction "extract/cursor/model.ml" run.
