(* Extraction of the C09 models.  ExtrOcamlBasic only: bool, option, unit, prod, list, sumbool, sumor
   map to OCaml's; N / positive / nat stay the extracted inductive types. *)
From Coq Require Import ExtrOcamlBasic.
From CS Require Import Sx StoreModel.
Definition run := StoreModel.run.
Extraction "extract/store/model.ml" run.
