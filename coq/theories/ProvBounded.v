(* ProvBounded.v — bounded exhaustive check of the executable well-formedness predicate, and the
   event of a successful rename. *)
From Coq Require Import NArith List Bool Lia Arith.
From CS Require Import Sx Str PathLaws ProvModel ProvProofs.
Import ListNotations.

(* all call sequences of length <= n over an alphabet *)
Fixpoint seqs (alpha : list op) (n : nat) : list (list op) :=
  match n with
  | O => [[]]
  | S m => [] :: flat_map (fun o => map (cons o) (seqs alpha m)) alpha
  end.

Lemma in_seqs_nil alpha m : In [] (seqs alpha m).
Proof. destruct m; simpl; auto. Qed.

Lemma in_seqs_cons alpha m o t : In o alpha -> In t (seqs alpha m) -> In (o :: t) (seqs alpha (S m)).
Proof. intros Ho Ht. simpl. right. apply in_flat_map. exists o. split; [exact Ho|]. apply in_map. exact Ht. Qed.

Definition bn_a : name := [97%N].
Definition bn_A : name := [65%N].
Definition bn_b : name := [98%N].
Definition bpaths : list path := [[bn_a]; [bn_A]; [bn_b]; [bn_a; bn_b]].
Definition bcfg (oidpath cs : bool) : cfg := {| c_oidpath := oidpath; c_cs := cs; c_forbidden := [] |}.

Definition bkeys (c : cfg) : list key :=
  if c_oidpath c then map KPath bpaths else [KId 1%N; KId 2%N; KId 3%N].

Definition balpha (c : cfg) : list op :=
  map (fun p => OCreate p 1%N) bpaths ++ map OMkdir bpaths
  ++ flat_map (fun k => map (ORename k) bpaths) (bkeys c)
  ++ map ODelete (bkeys c) ++ [OUpload (hd (KId 1%N) (bkeys c)) 2%N].

Definition bcfgs : list cfg := [bcfg false true; bcfg false false; bcfg true true].

Definition wf_bounded_check (n : nat) : bool :=
  forallb (fun c => forallb (fun ops => implb (clean_run (init c) ops) (wfb (fst (run_ops (init c) ops))))
                            (seqs (balpha c) n)) bcfgs.

Lemma wf_bounded_3 : wf_bounded_check 3 = true.
Proof. vm_compute. reflexivity. Qed.

Lemma wf_bounded c ops : In c bcfgs -> In ops (seqs (balpha c) 3) ->
  clean_run (init c) ops = true -> wfb (fst (run_ops (init c) ops)) = true.
Proof.
  intros Hc Ho Hcl. pose proof wf_bounded_3 as H. unfold wf_bounded_check in H.
  rewrite forallb_forall in H. specialize (H c Hc). rewrite forallb_forall in H. specialize (H ops Ho).
  rewrite Hcl in H. exact H.
Qed.

(* ------------------------------------------------------------------ the event of a successful rename *)
Lemma rename_single_noevent_log s r dest s2 : rename_single s r dest false = Some s2 -> p_log s2 = p_log s.
Proof.
  unfold rename_single. destruct (nth_error (p_heap s) r) as [o|]; [|discriminate].
  destruct (unstore (p_cfg s) (p_dict s) o) as [d1|]; [|discriminate].
  intros H; inversion H; subst. reflexivity.
Qed.

Lemma move_all_log refs : forall s old dest s2, move_all s refs old dest = Some s2 -> p_log s2 = p_log s.
Proof.
  induction refs as [|q t IH]; intros s old dest s2; simpl.
  - intros H; inversion H; reflexivity.
  - destruct (nth_error (p_heap s) q) as [x|]; [|discriminate].
    destruct (rename_single s q (new_path old dest x) false) as [s1|] eqn:E; [|discriminate].
    intros H. rewrite (IH _ _ _ _ H). eapply rename_single_noevent_log; eassumption.
Qed.

Lemma rename_single_event s r dest s2 : rename_single s r dest true = Some s2 ->
  exists o' e, nth_error (p_heap s2) r = Some o' /\ p_log s2 = p_log s ++ [e] /\
               e_kind e = EvRename /\ e_oid e = o_oid o' /\ e_path e = dest /\ o_path o' = dest /\
               e_exists e = o_exists o'.
Proof.
  unfold rename_single. destruct (nth_error (p_heap s) r) as [o|] eqn:E; [|discriminate].
  destruct (unstore (p_cfg s) (p_dict s) o) as [d1|]; [|discriminate].
  intros H; inversion H; subst; clear H. simpl.
  eexists. eexists. split; [apply nth_hset_same; apply nth_error_Some; congruence|].
  repeat split; reflexivity.
Qed.

Lemma delete_log s k s1 u : delete s k = (s1, Ok u) ->
  p_log s1 = p_log s \/ exists e, p_log s1 = p_log s ++ [e] /\ e_kind e = EvDelete /\ e_exists e = false.
Proof.
  destruct u. intros H. apply delete_event in H as [[-> _]|[r [o [e [_ [Hl [Hk [_ [Hx _]]]]]]]]]; [left; reflexivity|].
  right. exists e. auto.
Qed.

(* a successful rename either found the object already at that very path (nothing moves; at most the
   empty folder found there is deleted), or its last event is the rename event carrying the oid the
   call returns and the new path, and the object now has that oid and path *)
Lemma rename_event s k p s' k' : rename s k p = (s', Ok k') ->
  (k' = k /\ (p_log s' = p_log s \/ exists e, p_log s' = p_log s ++ [e] /\ e_kind e = EvDelete /\ e_exists e = false)) \/
  exists l e r o', p_log s' = p_log s ++ l ++ [e] /\ length l <= 1 /\
                   e_kind e = EvRename /\ e_oid e = k' /\ e_path e = p /\ e_exists e = o_exists o' /\
                   nth_error (p_heap s') r = Some o' /\ o_oid o' = k' /\ o_path o' = p.
Proof.
  unfold rename.
  destruct (get_live s k) as [[r o]|] eqn:E; [|discriminate].
  set (pc := match get s (pkey s p) with
             | Some (_, x) => if key_eqb (o_oid x) k then None else if o_exists x then Some x else None
             | None => None end).
  destruct (verify_parent s p); [discriminate|].
  match goal with |- context [match ?c with Some e => (s, Err e) | None => _ end] => destruct c end; [discriminate|].
  destruct (match pc with Some x => delete s (o_oid x) | None => (s, Ok tt) end) as [s1 [u|e]] eqn:D; [|discriminate].
  assert (Hd : p_log s1 = p_log s \/ exists e, p_log s1 = p_log s ++ [e] /\ e_kind e = EvDelete /\ e_exists e = false).
  { destruct pc; [eapply delete_log; eassumption|]. inversion D; subst. left; reflexivity. }
  destruct (path_eqb (o_path o) p).
  { intros H; inversion H; subst. left. split; [reflexivity|exact Hd]. }
  destruct p as [|n p']; [discriminate|].
  assert (Hfin : forall s2, (exists o' e, nth_error (p_heap s2) r = Some o' /\ p_log s2 = p_log s1 ++ [e] /\
               e_kind e = EvRename /\ e_oid e = o_oid o' /\ e_path e = n :: p' /\ o_path o' = n :: p' /\
               e_exists e = o_exists o') ->
     match nth_error (p_heap s2) r with
     | None => (s2, Err EUnspecified)
     | Some o2 =>
       if c_oidpath (p_cfg s)
       then (if key_eqb (o_oid o2) (o_oid o) then (s2, Err EAssert) else (s2, Ok (o_oid o2)))
       else (if key_eqb (o_oid o2) k then (s2, Ok (o_oid o2)) else (s2, Err EAssert))
     end = (s', Ok k') ->
     exists l e r o', p_log s' = p_log s ++ l ++ [e] /\ length l <= 1 /\
                   e_kind e = EvRename /\ e_oid e = k' /\ e_path e = n :: p' /\ e_exists e = o_exists o' /\
                   nth_error (p_heap s') r = Some o' /\ o_oid o' = k' /\ o_path o' = n :: p').
  { intros s2 [o' [e [Hn [Hl [Hk [Ho [Hp [Hop Hx]]]]]]]]. rewrite Hn.
    assert (G : (s2, @Ok key (o_oid o')) = (s', Ok k') ->
      exists l e r o'0, p_log s' = p_log s ++ l ++ [e] /\ length l <= 1 /\
                   e_kind e = EvRename /\ e_oid e = k' /\ e_path e = n :: p' /\ e_exists e = o_exists o'0 /\
                   nth_error (p_heap s') r = Some o'0 /\ o_oid o'0 = k' /\ o_path o'0 = n :: p').
    { intros X; inversion X; subst.
      destruct Hd as [Hd|[e0 [Hd _]]].
      - exists [], e, r, o'. rewrite Hl, Hd. simpl. repeat split; auto.
      - exists [e0], e, r, o'. rewrite Hl, Hd, <- app_assoc. simpl. repeat split; auto. }
    destruct (c_oidpath (p_cfg s)).
    - destruct (key_eqb (o_oid o') (o_oid o)); [discriminate|exact G].
    - destruct (key_eqb (o_oid o') k); [exact G|discriminate]. }
  intros H. right. revert H.
  destruct (o_kind o).
  - destruct (rename_single s1 r (n :: p') true) as [s2|] eqn:R; [|discriminate].
    apply Hfin. apply rename_single_event in R. exact R.
  - destruct (negb (move_specified s1 r (o_path o) (n :: p'))); [discriminate|].
    destruct (move_all s1 (moved_refs s1 (o_path o)) (o_path o) (n :: p')) as [s2|] eqn:M; [|discriminate].
    destruct (rename_single s2 r (n :: p') true) as [s3|] eqn:R; [|discriminate].
    apply Hfin. apply rename_single_event in R. apply move_all_log in M. rewrite M in R. exact R.
Qed.
