(* PathGenLaws.v — the definitions generated from the current source of cloudsync/provider.py (GenPath.v)
   are equal to the hand-written model (PathModel.v).  If an edit of the source changes a generated
   definition, either these proofs still go through (harmless edit) or this file no longer compiles. *)
From Coq Require Import NArith ZArith List Bool Arith.
From CS Require Import Sx Str StrLemmas PathModel GenPrims GenPath.
Import ListNotations.

(* ------------------------------------------------------------------ primitives *)
Lemma firstn_min_len {T} n (s : list T) : firstn (Nat.min n (length s)) s = firstn n s.
Proof. rewrite <- firstn_firstn, firstn_all. reflexivity. Qed.

Lemma skipn_min_len {T} n (s : list T) : skipn (Nat.min n (length s)) s = skipn n s.
Proof.
  destruct (Nat.le_ge_cases n (length s)) as [H|H].
  - rewrite Nat.min_l by exact H. reflexivity.
  - rewrite Nat.min_r by exact H. rewrite skipn_all. symmetry. apply skipn_all2. exact H.
Qed.

Lemma py_norm_idx_nonneg s i : (0 <= i)%Z -> py_norm_idx s i = Nat.min (Z.to_nat i) (length s).
Proof.
  intros H. unfold py_norm_idx, py_len. destruct (Z.ltb_spec i 0) as [Hlt|_].
  - exfalso. exact (Z.lt_irrefl _ (Z.le_lt_trans _ _ _ H Hlt)).
  - rewrite Z2Nat.inj_min, Nat2Z.id. reflexivity.
Qed.

Lemma py_slice_from s i : (0 <= i)%Z -> py_slice s (Some i) None = skipn (Z.to_nat i) s.
Proof.
  intros H. unfold py_slice. rewrite py_norm_idx_nonneg by exact H.
  rewrite firstn_all2 by (rewrite skipn_length; apply le_n). apply skipn_min_len.
Qed.

Lemma py_slice_to s i : (0 <= i)%Z -> py_slice s None (Some i) = firstn (Z.to_nat i) s.
Proof.
  intros H. unfold py_slice. rewrite py_norm_idx_nonneg by exact H. rewrite Nat.sub_0_r. simpl skipn.
  apply firstn_min_len.
Qed.

Lemma py_slice_0_1 s : py_slice s (Some 0%Z) (Some 1%Z) = firstn 1 s.
Proof.
  unfold py_slice. rewrite !py_norm_idx_nonneg by (apply Z.leb_le; reflexivity). simpl skipn.
  change (Z.to_nat 0) with 0. change (Z.to_nat 1) with 1. rewrite Nat.min_0_l, Nat.sub_0_r. apply firstn_min_len.
Qed.

Lemma py_len_gtb a b : Z.gtb (py_len a) (py_len b) = Nat.ltb (length b) (length a).
Proof.
  unfold py_len. rewrite Z.gtb_ltb.
  destruct (Nat.ltb_spec (length b) (length a)) as [H|H]; destruct (Z.ltb_spec (Z.of_nat (length b)) (Z.of_nat (length a))) as [H'|H'];
    try reflexivity; exfalso.
  - apply Nat2Z.inj_lt in H. exact (Z.lt_irrefl _ (Z.lt_le_trans _ _ _ H H')).
  - apply Nat2Z.inj_lt in H'. exact (Nat.lt_irrefl _ (Nat.lt_le_trans _ _ _ H' H)).
Qed.

Lemma py_index_eqb_len s f c :
  py_index_eqb s (py_len f) c = match nth_error s (length f) with Some y => N.eqb y c | None => false end.
Proof. unfold py_index_eqb, py_len. rewrite Nat2Z.id. reflexivity. Qed.

Lemma py_slice_from_len s f : py_slice s (Some (py_len f)) None = skipn (length f) s.
Proof. unfold py_len. rewrite py_slice_from by apply Nat2Z.is_nonneg. rewrite Nat2Z.id. reflexivity. Qed.

(* ------------------------------------------------------------------ generated = hand-written *)
Theorem gen_nps_eq cv p : gen_nps cv p = nps cv p.
Proof.
  unfold gen_nps, nps. destruct p as [|x p]; [reflexivity|]. cbn [nonempty].
  destruct (str_eqb _ _); reflexivity.
Qed.

Theorem gen_split_eq cv p : gen_split cv p = split cv p.
Proof.
  unfold gen_split, split, py_rfind. rewrite gen_nps_eq.
  destruct (rfind (cv_sep cv) (nps cv p)) as [[|i]|].
  - cbn [Z.of_nat Z.eqb]. rewrite py_slice_from by (apply Z.leb_le; reflexivity). reflexivity.
  - assert (H1 : Z.eqb (Z.of_nat (S i)) (-1) = false) by reflexivity.
    assert (H2 : Z.eqb (Z.of_nat (S i)) 0 = false) by reflexivity.
    rewrite H1, H2.
    rewrite py_slice_to by apply Nat2Z.is_nonneg.
    rewrite py_slice_from by (apply Z.add_nonneg_nonneg; [apply Nat2Z.is_nonneg|apply Z.leb_le; reflexivity]).
    rewrite Z.add_1_r, <- Nat2Z.inj_succ, !Nat2Z.id. reflexivity.
  - reflexivity.
Qed.

Theorem gen_is_subpath_eq cv f t st : gen_is_subpath cv f t st = is_subpath cv f t st.
Proof.
  unfold gen_is_subpath, is_subpath.
  destruct f as [|x f]; [reflexivity|]. destruct t as [|y t]; [reflexivity|].
  cbn [nonempty negb orb]. rewrite !gen_nps_eq.
  set (ff := nps cv (x :: f)). set (tf := nps cv (y :: t)).
  destruct (cv_cs cv); cbn [negb]; cbv zeta;
    rewrite py_slice_0_1, py_len_gtb, py_index_eqb_len, py_slice_from_len;
    destruct (str_eqb _ _); try reflexivity;
    destruct (andb (str_eqb _ _) (str_eqb _ _)); try reflexivity;
    destruct (Nat.ltb _ _); try reflexivity;
    destruct (nth_error tf (length ff)) as [z|]; try reflexivity;
    cbn [andb]; destruct (N.eqb z (cv_sep cv)); try reflexivity.
Qed.

Theorem gen_replace_path_eq cv p f t : gen_replace_path cv p f t = replace_path cv p f t.
Proof.
  unfold gen_replace_path, replace_path. rewrite gen_is_subpath_eq, gen_nps_eq.
  destruct (is_subpath cv f p false) as [|[|x r]]; try reflexivity.
  destruct (str_eqb _ _); reflexivity.
Qed.
