(* PropC07.v — C07: crash consistency: dying at any storage or provider write loses nothing.
   Model: CrashModel.v (the commit discipline as a machine of individual writes).  Proofs: CrashProofs.v (part A),
   CrashRecover.v (part B), CrashThms.v.  Outcome level: Monitor.v (a crash and the restart are invisible in the
   observation trace; acceptance of a run with a crash is acceptance of its trace). *)
From Coq Require Import NArith List Bool Arith.
From CS Require Import Sx CrashModel CrashProofs CrashRecover CrashThms.
From CS Require CodecModel TreeModel Monitor MonitorProofs.
Import ListNotations.

(* ---------------------------------------------------------------- (a) durable never ahead *)
(* after EVERY sequence of guarded micro operations (provider writes, memory updates, row commits, cursor
   stores), user operations and crashes — so at every write boundary of every run — every stored row that
   records a side as synced is reflected by both providers (now or before a user changed the object), and every
   object whose events the stored cursor covers is accounted for by a stored row *)
Theorem C07_durable_never_ahead : forall ls x, lrun init ls = Some x -> never_ahead x = true.
Proof. exact durable_never_ahead. Qed.
Print Assumptions C07_durable_never_ahead.

Theorem C07_durable_never_ahead_after_crash : forall ls x, lrun init ls = Some x -> never_ahead (crash x) = true.
Proof. exact durable_never_ahead_after_crash. Qed.
Print Assumptions C07_durable_never_ahead_after_crash.

(* the same for the engine's own plans: at every state of a plan-driven run, at every crash point k of every
   step m from there, and after the recovery *)
Theorem C07_never_ahead_every_crash_point : forall g ls c, erun g cfg0 ls = Some c ->
  never_ahead (c_st c) = true /\ never_ahead (recover (c_st c)) = true /\
  forall m k, never_ahead (crash (do_plan (c_st c) (firstn k (plan_of true (c_st c) m)))) = true.
Proof. exact never_ahead_every_crash_point. Qed.
Print Assumptions C07_never_ahead_every_crash_point.

(* the engine's plans obey the discipline: no guard of a planned operation fails (provider write first, memory
   update after it, commit last; the cursor only past committed marks) *)
Theorem C07_plans_never_blocked : forall ls c i, erun true cfg0 ls = Some c -> i < length (slots (c_st c)) ->
  run_ops (c_st c) (plan_of true (c_st c) (KMark i)) <> None /\
  run_ops (c_st c) (plan_of true (c_st c) (KSync i)) <> None.
Proof. exact plans_never_blocked. Qed.
Print Assumptions C07_plans_never_blocked.

(* write order of the plans = the language the observed write order of every real step is checked against *)
Theorem C07_sync_plan_write_order : forall adopt x i, shape_ok true (writes_of (plan_sync adopt x i)) = true.
Proof. exact sync_plan_write_order. Qed.
Print Assumptions C07_sync_plan_write_order.

Theorem C07_intake_plan_write_order : forall s x, shape_ok false (writes_of (plan_intake s x)) = true.
Proof. exact intake_plan_write_order. Qed.
Print Assumptions C07_intake_plan_write_order.

(* ---------------------------------------------------------------- (b) a half-recorded transfer is recognised *)
(* from EVERY state of a plan-driven run in which no user acts between a crash and the next quiet state — every
   step sequence, every crash point (ECrash m k for all m, k) — the recovery (restart, event intake from the stored
   cursors, sync of every entry with adoption of an equal-content peer at the translated path) ends settled,
   with equal views, no ".conflicted" name, at most one live peer per object, the origin objects untouched *)
Theorem C07_half_recorded_recoverable_partial : forall ls c, erun true cfg0 ls = Some c ->
  settled (recover (c_st c)) = true /\
  view false (recover (c_st c)) = view true (recover (c_st c)) /\
  has_conflicted (recover (c_st c)) = false /\ no_duplicate (recover (c_st c)) = true /\
  origins (recover (c_st c)) = origins (c_st c).
Proof. exact half_recorded_recoverable_partial. Qed.
Print Assumptions C07_half_recorded_recoverable_partial.

(* full strength (users may act between the crash and the end of the recovery) is false of the model: the user
   rewrites the file whose peer was created but not recorded -> ".conflicted" copy *)
Theorem C07_half_recorded_recoverable_refuted : ~ half_recorded_recoverable_full.
Proof. exact half_recorded_recoverable_refuted. Qed.
Print Assumptions C07_half_recorded_recoverable_refuted.

Theorem C07_witness_user_write_after_crash :
  exists c, erun false cfg0 witness_user_write_after_crash = Some c /\ has_conflicted (recover (c_st c)) = true.
Proof. exact witness1_conflicted. Qed.
Print Assumptions C07_witness_user_write_after_crash.

Theorem C07_witness_user_revert_after_crash :
  exists c, erun false cfg0 witness_user_revert_after_crash = Some c /\ settled (recover (c_st c)) = false.
Proof. exact witness2_not_settled. Qed.
Print Assumptions C07_witness_user_revert_after_crash.

(* the adoption rule is what makes (b) true: without it the crash after the create alone ends with a conflict copy *)
Theorem C07_recoverable_without_adoption_refuted : ~ recoverable_without_adoption.
Proof. exact recoverable_without_adoption_refuted. Qed.
Print Assumptions C07_recoverable_without_adoption_refuted.

(* ---------------------------------------------------------------- (c) rows that fail to load are dropped *)
Theorem C07_bad_rows_dropped_not_fatal : forall rs,
  (forall e, In e (fst (CodecModel.load_rows rs)) <-> exists i w, In (i, w) rs /\ CodecModel.load_row i w = Some e) /\
  (forall i, In i (snd (CodecModel.load_rows rs)) <-> exists w, In (i, w) rs /\ CodecModel.load_row i w = None).
Proof. exact bad_rows_dropped_not_fatal. Qed.
Print Assumptions C07_bad_rows_dropped_not_fatal.

(* ---------------------------------------------------------------- outcome: acceptance of the observed trace *)
(* a crash and the restart leave no mark in the observation trace (user operations, engine provider writes, step
   and quiet markers, both trees): an accepted run with a crash has, at every quiet report, both views equal to
   the base tree with every user operation applied (convergence to the uninterrupted outcome) *)
Theorem C07_crash_transparent : forall cfg l r tr m',
  Monitor.check_spec cfg = true -> Monitor.accept cfg l r tr = inl m' ->
  forall pre x post, tr = pre ++ x :: post -> Monitor.o_ev x = Monitor.EQuiet ->
    TreeModel.same_tree (TreeModel.view (Monitor.rootL cfg) (Monitor.o_L x))
                        (TreeModel.apply_ops (TreeModel.view (Monitor.rootL cfg) l) (MonitorProofs.rel_user_ops cfg pre)) = true /\
    TreeModel.same_tree (TreeModel.view (Monitor.rootR cfg) (Monitor.o_R x))
                        (TreeModel.apply_ops (TreeModel.view (Monitor.rootL cfg) l) (MonitorProofs.rel_user_ops cfg pre)) = true.
Proof. exact MonitorProofs.quiet_views_are_history. Qed.
Print Assumptions C07_crash_transparent.

(* no user content lost: every version written by a user and not destroyed by a user is in a live file *)
Theorem C07_nothing_lost : forall cfg l r tr m',
  Monitor.accept cfg l r tr = inl m' ->
  forall pre x post, tr = pre ++ x :: post -> Monitor.o_ev x = Monitor.EQuiet ->
    exists ma, MonitorProofs.run_of cfg (Monitor.init_state cfg l r) pre ma /\
      forall c, In c (Monitor.cov ma) -> In c (Monitor.contents (Monitor.o_L x)) \/ In c (Monitor.contents (Monitor.o_R x)).
Proof. exact MonitorProofs.quiet_nothing_lost. Qed.
Print Assumptions C07_nothing_lost.

(* one-sided histories: no ".conflicted" artefact, and the engine never changes the origin side *)
Theorem C07_no_conflicted_artefact : forall cfg l r tr m',
  Monitor.no_conflicted cfg = true -> Monitor.accept cfg l r tr = inl m' ->
  forall pre x post, tr = pre ++ x :: post -> Monitor.o_ev x = Monitor.EQuiet ->
    Monitor.has_conflicted cfg (TreeModel.view (Monitor.rootL cfg) (Monitor.o_L x)) = false /\
    Monitor.has_conflicted cfg (TreeModel.view (Monitor.rootR cfg) (Monitor.o_R x)) = false.
Proof. exact MonitorProofs.quiet_no_conflicted. Qed.
Print Assumptions C07_no_conflicted_artefact.

Theorem C07_origin_untouched_no_retransfer : forall cfg l r tr m' s0,
  Monitor.origin cfg = Some s0 -> Monitor.accept cfg l r tr = inl m' ->
  forall pre x post s ts, tr = pre ++ x :: post -> Monitor.o_ev x = Monitor.EEng s ts ->
    exists ma, MonitorProofs.run_of cfg (Monitor.init_state cfg l r) pre ma /\ Monitor.quiet ma = false /\
      (s = s0 -> TreeModel.same_tree (TreeModel.view (Monitor.root_of cfg s) (Monitor.tree_of ma s))
                                     (TreeModel.view (Monitor.root_of cfg s) (if s then Monitor.o_R x else Monitor.o_L x)) = true).
Proof. exact MonitorProofs.origin_untouched_no_echo. Qed.
Print Assumptions C07_origin_untouched_no_retransfer.

(* ---------------------------------------------------------------- non-vacuity *)
(* every Example is one closed boolean computation, checked by the VM *)
Definition on_run (g : bool) (ls : list elabel) (f : cfg -> bool) : bool :=
  match erun g cfg0 ls with Some c => f c | None => false end.
Definition view_eqb (a b : list (pth * kind * bool)) : bool :=
  Nat.eqb (length a) (length b) &&
  forallb (fun ab => N.eqb (fst (fst (fst ab))) (fst (fst (snd ab))) && kind_eqb (snd (fst (fst ab))) (snd (fst (snd ab))) &&
                     Bool.eqb (snd (fst ab)) (snd (snd ab))) (combine a b).
Fixpoint sx_eqb (a b : sx) : bool :=
  match a, b with
  | A x, A y => N.eqb x y
  | L l, L m => (fix go (l m : list sx) : bool :=
                   match l, m with [] , [] => true | x :: r, y :: q => sx_eqb x y && go r q | _, _ => false end) l m
  | _, _ => false
  end.

(* a run: create, intake, the sync dies right after the provider create (peer exists, row does not know it) *)
Definition ex_half_recorded : list elabel :=
  [EUser (UNew false 1%N (KFile 7%N)); EStep (KMark 0); EStep (KEnd false); ECrash (KSync 0) 2].

Example C07_ex_crash_state_has_unrecorded_peer :
  on_run true ex_half_recorded (fun c =>
    c_rec c && view_eqb (view false (c_st c)) [(1%N, KFile 7%N, false)] && view_eqb (view true (c_st c)) [(1%N, KFile 7%N, false)] &&
    negb (settled (c_st c)) &&
    match slots (c_st c) with [sl] => match sl_row sl with Some r => negb (s_has (e_peer r)) | None => false end | _ => false end) = true.
Proof. vm_compute. reflexivity. Qed.

(* its recovery writes nothing to a provider (the peer is adopted), and without the adoption rule it would
   (6 = rename to ".conflicted", 2 = create) *)
Example C07_ex_recovery_adopts :
  on_run true ex_half_recorded (fun c =>
    sx_eqb (L (recovery_writes true (c_st c))) (L [L []]) &&
    sx_eqb (L (recovery_writes false (c_st c))) (L [L [L [A 6%N; A 0%N]; L [A 2%N]]]) &&
    view_eqb (view true (recover (c_st c))) [(1%N, KFile 7%N, false)] && settled (recover (c_st c))) = true.
Proof. vm_compute. reflexivity. Qed.

(* a longer run: rename + write, the sync dies between the rename and the upload; the recovery plan renames again
   (to the path the peer already has: no effect at the provider) and uploads (4 = rename, 3 = upload) *)
Example C07_ex_half_rename_upload :
  on_run true [EUser (UNew false 1%N (KFile 7%N)); EStep (KMark 0); EStep (KEnd false); EStep (KSync 0);
               EStep (KEnd true); EUser (URename 0 2%N); EUser (UWrite 0 8%N); EStep (KMark 0); EStep (KEnd false);
               ECrash (KSync 0) 2]
    (fun c =>
       view_eqb (view true (c_st c)) [(2%N, KFile 7%N, false)] &&
       match slots (c_st c) with
       | [sl] => sx_eqb (L (map sx_sop (plan_sync_slot true true sl))) (L [L [A 1%N]; L [A 4%N; A 0%N]; L [A 3%N; A 0%N]; L [A 7%N; A 0%N]; L [A 9%N]])
       | _ => false
       end &&
       sx_eqb (L (recovery_writes true (c_st c))) (L [L [L [A 3%N; A 0%N]]]) &&
       view_eqb (view true (recover (c_st c))) [(2%N, KFile 8%N, false)] && settled (recover (c_st c))) = true.
Proof. vm_compute. reflexivity. Qed.

(* the guards reject the reordered writes: recording the link before the provider write, moving the cursor before the
   event is committed *)
Example C07_ex_link_before_write_rejected :
  lrun init [LUser (UNew false 1%N (KFile 7%N)); LOp (MSlot 0 SMark); LOp (MSlot 0 SRow); LOp (MSlot 0 SRefresh);
             LOp (MSlot 0 (SLink 0))] = None.
Proof. vm_compute. reflexivity. Qed.

Example C07_ex_cursor_before_commit_rejected :
  lrun init [LUser (UNew false 1%N (KFile 7%N)); LOp (MSlot 0 SMark); LOp (MAdv false)] = None.
Proof. vm_compute. reflexivity. Qed.

(* the shape language rejects a commit before the provider write and a cursor store before a row commit *)
Example C07_ex_shapes : shape_ok true [WProv; WRow; WRow] = true /\ shape_ok true [WRow; WProv] = false /\
                         shape_ok false [WRow; WRow; WCursor] = true /\ shape_ok false [WCursor; WRow] = false /\
                         shape_ok false [WProv] = false.
Proof. repeat split; reflexivity. Qed.

(* never_ahead is not trivially true: a row that records a synced peer nobody created is ahead *)
Example C07_ex_ahead_detected :
  na_row (synced_side {| os_path := 1%N; os_kind := KFile 7%N; os_live := true; os_conf := false |}) no_side
         (Some {| o_now := {| os_path := 1%N; os_kind := KFile 7%N; os_live := true; os_conf := false |}; o_past := []; o_ev := 1 |})
         None false = false /\
  na_obj false {| o_now := {| os_path := 1%N; os_kind := KFile 7%N; os_live := true; os_conf := false |}; o_past := []; o_ev := 1 |} [] = false.
Proof. split; reflexivity. Qed.
