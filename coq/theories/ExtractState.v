From Coq Require Import ExtrOcamlBasic.
From CS Require Import Sx StateModel.
Definition run := StateModel.run.
Extraction "extract/state/model.ml" run.
