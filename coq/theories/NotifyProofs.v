(* NotifyProofs.v — proofs about NotifyModel.v (property C18). *)
From Coq Require Import QArith List Bool NArith.
From CS Require Import Sx LoopModel NotifyModel.
Import ListNotations.

Lemma delivered_spec : forall p q b, delivered (n_evs (nm_run p b q)) = before_marker q.
Proof.
  intros p q. induction q as [|[[n h]|] r IH]; intro b; cbn; auto.
  rewrite IH. reflexivity.
Qed.

Lemma rest_spec : forall p q b, n_rest (nm_run p b q) = after_marker q.
Proof.
  intros p q. induction q as [|[[n h]|] r IH]; intro b; cbn; auto.
Qed.

Fixpoint before_ids (l : list (option N)) : list N :=
  match l with
  | [] => [] | None :: _ => [] | Some n :: r => n :: before_ids r
  end.

Lemma before_marker_ids : forall q, before_marker q = before_ids (ids q).
Proof.
  induction q as [|[[n h]|] r IH]; cbn; auto. unfold ids in IH. rewrite IH. reflexivity.
Qed.

(* delivery does not depend on what the handler does, nor on the backoff parameters *)
Lemma handler_independent : forall p p' b b' q q',
  ids q = ids q' -> delivered (n_evs (nm_run p b q)) = delivered (n_evs (nm_run p' b' q')).
Proof.
  intros. rewrite !delivered_spec, !before_marker_ids. congruence.
Qed.

Definition no_marker (q : list item) : Prop := Forall (fun i => i <> None) q.

Fixpoint all_ids (q : list item) : list N :=
  match q with [] => [] | None :: r => all_ids r | Some (n, _) :: r => n :: all_ids r end.

Lemma before_marker_all : forall q, no_marker q -> before_marker q = all_ids q.
Proof.
  induction q as [|[[n h]|] r IH]; intro H; cbn; auto.
  - inversion H; subst. rewrite IH; auto.
  - inversion H; subst. congruence.
Qed.

(* every notification raised before the stop marker is delivered exactly once, in order; with no marker: all *)
Lemma fifo_exactly_once_in_order : forall p b q,
  delivered (n_evs (nm_run p b q)) = before_marker q /\
  (no_marker q -> delivered (n_evs (nm_run p b q)) = all_ids q /\ n_blocked (nm_run p b q) = true).
Proof.
  intros p b q. split; [apply delivered_spec|]. intro H. split.
  - rewrite delivered_spec. apply before_marker_all; auto.
  - revert b. induction q as [|[[n h]|] r IH]; intro b; cbn; auto.
    + inversion H; subst. apply IH; auto.
    + inversion H; subst. congruence.
Qed.

(* nothing is lost across the marker: the queue is what was delivered, the marker, and what remains *)
Lemma queue_split : forall p b q, n_blocked (nm_run p b q) = false ->
  exists pre, q = pre ++ None :: n_rest (nm_run p b q) /\ no_marker pre /\
              delivered (n_evs (nm_run p b q)) = all_ids pre.
Proof.
  intros p b q. rewrite delivered_spec, rest_spec. revert b.
  induction q as [|[[n h]|] r IH]; intros b H; cbn [nm_run n_blocked] in H.
  - discriminate.
  - destruct (IH _ H) as [pre [E [Hn Hd]]]. exists (Some (n, h) :: pre). split; [|split].
    + cbn. rewrite <- E. reflexivity.
    + constructor; [discriminate | exact Hn].
    + cbn. rewrite Hd. reflexivity.
  - exists []. repeat split; auto. constructor.
Qed.

(* a handler that raises (Exception or BaseException) does not stop later deliveries *)
Lemma handler_exception_does_not_stop : forall p b q1 n h q2,
  no_marker q1 ->
  exists es1 es2, n_evs (nm_run p b (q1 ++ Some (n, h) :: q2)) = es1 ++ NDeliver n :: es2
                  /\ delivered es1 = all_ids q1.
Proof.
  intros p b q1. revert b. induction q1 as [|[[m g]|] r IH]; intros b n h q2 H.
  - exists [], (NSleep (sleep_of p (after_do p b (outcome_of h))) :: n_evs (nm_run p (after_do p b (outcome_of h)) q2)).
    split; reflexivity.
  - inversion H; subst. destruct (IH (after_do p b (outcome_of g)) n h q2 H3) as [es1 [es2 [E D]]].
    exists (NDeliver m :: NSleep (sleep_of p (after_do p b (outcome_of g))) :: es1), es2. split.
    + cbn [app nm_run n_evs]. rewrite E. reflexivity.
    + cbn [delivered flat_map app all_ids]. f_equal. exact D.
  - inversion H; subst. congruence.
Qed.
