From Coq Require Import ExtrOcamlBasic.
From CS Require Import Sx ProvModel.
Definition run := ProvModel.run.
Extraction "extract/prov/model.ml" run.
