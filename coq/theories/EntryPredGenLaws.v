(* EntryPredGenLaws.v — the laws of EntryPredLaws.v (proved about the hand model) restated about the definitions
   GENERATED from the current source (GenEntryPred.v, GenBackoff.v): each proof rewrites with the generated = model
   equalities of EntryPredGenEq.v / BackoffGenEq.v and applies the model-level lemma. *)
From Coq Require Import QArith Qminmax Bool List NArith.
From CS Require Import LoopModel LoopProofs EntryPredModel GenEntryPred GenBackoff EntryPredGenEq BackoffGenEq EntryPredLaws.
Import ListNotations.
Open Scope Q_scope.

Lemma g_side_needs_sync_iff : forall e s,
  truth (gen_side_needs_sync e s) = true <->
  s_force (sd e s) = true \/
  (changed_truthy (sd e s) = true /\ has_oid (sd e s) = true /\
   (s_hash (sd e s) <> s_sync_hash (sd e s) \/ pm e s = false \/ ex_gone (s_exists (sd e s)) = true)).
Proof.
  intros e s. rewrite gen_side_needs_sync_eq. exact (side_needs_sync_iff e s).
Qed.

Lemma g_side_needs_sync_false : forall e s,
  truth (gen_side_needs_sync e s) = false ->
  s_force (sd e s) = false /\
  (changed_truthy (sd e s) = false \/ has_oid (sd e s) = false \/
   (s_hash (sd e s) = s_sync_hash (sd e s) /\ pm e s = true /\ ex_gone (s_exists (sd e s)) = false)).
Proof.
  intros e s. rewrite gen_side_needs_sync_eq. exact (side_needs_sync_false e s).
Qed.

Lemma g_finished_side_quiet : forall e s,
  changed_truthy (sd e s) = false -> s_force (sd e s) = false -> truth (gen_side_needs_sync e s) = false.
Proof.
  intros e s. rewrite gen_side_needs_sync_eq. exact (finished_side_quiet e s).
Qed.

Lemma g_forced_needs_sync : forall e s, s_force (sd e s) = true -> gen_side_needs_sync e s = RTrue.
Proof.
  intros e s. rewrite gen_side_needs_sync_eq. exact (forced_needs_sync e s).
Qed.

Lemma g_needs_sync_iff : forall e,
  truth (gen_needs_sync e) = true <->
  truth (gen_side_needs_sync e SL) = true \/ truth (gen_side_needs_sync e SR) = true.
Proof.
  intros e. rewrite gen_needs_sync_eq, !gen_side_needs_sync_eq. exact (needs_sync_iff e).
Qed.

Lemma g_side_needs_sync_truthy_is_True : forall e s,
  truth (gen_side_needs_sync e s) = true -> gen_side_needs_sync e s = RTrue.
Proof.
  intros e s. rewrite gen_side_needs_sync_eq. exact (side_needs_sync_truthy_is_True e s).
Qed.

Lemma g_is_creation_iff : forall e s,
  truth (gen_is_creation e s) = true <->
  s_path (sd e s) = SFull /\ s_exists (sd e s) = XExists /\ truth (gen_side_needs_sync e s) = true /\
  (has_oid (sd e (other s)) = false \/ ex_deleted (s_exists (sd e (other s))) = true \/
   (s_exists (sd e (other s)) = XCorrupt /\ exists y, s_saved (sd e (other s)) = Some y /\ ex_gone y = true)).
Proof.
  intros e s. rewrite gen_is_creation_eq, gen_side_needs_sync_eq. exact (is_creation_iff e s).
Qed.

Lemma g_is_creation_bool : forall e s, is_bool (gen_is_creation e s).
Proof.
  intros e s. rewrite gen_is_creation_eq. exact (is_creation_bool e s).
Qed.

Lemma g_creation_needs_sync : forall e s,
  truth (gen_is_creation e s) = true ->
  truth (gen_side_needs_sync e s) = true /\ truth (gen_needs_sync e) = true.
Proof.
  intros e s. rewrite gen_is_creation_eq, gen_side_needs_sync_eq, gen_needs_sync_eq. exact (creation_needs_sync e s).
Qed.

Lemma g_is_deletion_iff : forall e s,
  truth (gen_is_deletion e s) = true <->
  s_exists (sd e (other s)) = XExists /\ (s_exists (sd e s) = XTrashed \/ s_exists (sd e s) = XMissing) /\
  changed_truthy (sd e s) = true.
Proof.
  intros e s. rewrite gen_is_deletion_eq. exact (is_deletion_iff e s).
Qed.

Lemma g_is_deletion_truthy_is_stamp : forall e s,
  truth (gen_is_deletion e s) = true -> gen_is_deletion e s = RObj.
Proof.
  intros e s. rewrite gen_is_deletion_eq. exact (is_deletion_truthy_is_stamp e s).
Qed.

Lemma g_deletion_with_id_needs_sync : forall e s,
  truth (gen_is_deletion e s) = true -> has_oid (sd e s) = true -> truth (gen_side_needs_sync e s) = true.
Proof.
  intros e s. rewrite gen_is_deletion_eq, gen_side_needs_sync_eq. exact (deletion_with_id_needs_sync e s).
Qed.

Lemma g_creation_deletion_exclusive : forall e s,
  truth (gen_is_creation e s) = true -> truth (gen_is_deletion e s) = false.
Proof.
  intros e s. rewrite gen_is_creation_eq, gen_is_deletion_eq. exact (creation_deletion_exclusive e s).
Qed.

Lemma g_deletion_both_sides_exclusive : forall e s,
  truth (gen_is_deletion e s) = true -> truth (gen_is_deletion e (other s)) = false.
Proof.
  intros e s. rewrite !gen_is_deletion_eq. exact (deletion_both_sides_exclusive e s).
Qed.

Lemma g_creation_both_sides_forced : forall e s,
  truth (gen_is_creation e s) = true -> truth (gen_is_creation e (other s)) = true ->
  s_force (sd e s) = true /\ s_force (sd e (other s)) = true.
Proof.
  intros e s. rewrite !gen_is_creation_eq. exact (creation_both_sides_forced e s).
Qed.

Lemma g_creation_one_side_unless_forced : forall e s,
  s_force (sd e s) = false -> truth (gen_is_creation e s) = true -> truth (gen_is_creation e (other s)) = false.
Proof.
  intros e s. rewrite !gen_is_creation_eq. exact (creation_one_side_unless_forced e s).
Qed.

Lemma g_is_rename_iff : forall e s,
  truth (gen_is_rename e s) = true <-> truth (gen_is_path_change e s) = true /\ has_path (sd e s) = true.
Proof.
  intros e s. rewrite gen_is_rename_eq, gen_is_path_change_eq. exact (is_rename_iff e s).
Qed.

Lemma g_is_path_change_iff : forall e s,
  truth (gen_is_path_change e s) = true <-> s_sync_path (sd e s) = SFull /\ pm e s = false.
Proof.
  intros e s. rewrite gen_is_path_change_eq. exact (is_path_change_iff e s).
Qed.

Lemma g_path_change_needs_sync : forall e s,
  truth (gen_is_path_change e s) = true -> changed_truthy (sd e s) = true -> has_oid (sd e s) = true ->
  truth (gen_side_needs_sync e s) = true.
Proof.
  intros e s. rewrite gen_is_path_change_eq, gen_side_needs_sync_eq. exact (path_change_needs_sync e s).
Qed.

Lemma g_hash_conflict_iff : forall e,
  truth (gen_hash_conflict e) = true <->
  has_hash (e_local e) = true /\ has_hash (e_remote e) = true /\
  s_path (e_local e) = SFull /\ s_path (e_remote e) = SFull /\
  s_hash (e_local e) <> s_sync_hash (e_local e) /\ s_hash (e_remote e) <> s_sync_hash (e_remote e).
Proof.
  intros e. rewrite gen_hash_conflict_eq. exact (hash_conflict_iff e).
Qed.

Lemma g_hash_conflict_bool : forall e, is_bool (gen_hash_conflict e).
Proof.
  intros e. rewrite gen_hash_conflict_eq. exact (hash_conflict_bool e).
Qed.

Lemma g_hash_conflict_needs_sync : forall e s,
  truth (gen_hash_conflict e) = true -> changed_truthy (sd e s) = true -> has_oid (sd e s) = true ->
  truth (gen_side_needs_sync e s) = true.
Proof.
  intros e s. rewrite gen_hash_conflict_eq, gen_side_needs_sync_eq. exact (hash_conflict_needs_sync e s).
Qed.

Lemma g_is_discarded_iff : forall e,
  gen_is_discarded e = RTrue <-> e_ignored e = IDiscarded \/ e_ignored e = IIrrelevant.
Proof.
  intros e. rewrite gen_is_discarded_eq. exact (is_discarded_iff e).
Qed.

Lemma g_ignore_flags_bool : forall e,
  is_bool (gen_is_discarded e) /\ is_bool (gen_is_irrelevant e) /\ is_bool (gen_is_conflicted e) /\
  is_bool (gen_is_temp_rename e).
Proof.
  intros e. rewrite gen_is_discarded_eq, gen_is_irrelevant_eq, gen_is_conflicted_eq, gen_is_temp_rename_eq.
  exact (ignore_flags_bool e).
Qed.

Lemma g_irrelevant_is_discarded : forall e, gen_is_irrelevant e = RTrue -> gen_is_discarded e = RTrue.
Proof.
  intros e. rewrite gen_is_irrelevant_eq, gen_is_discarded_eq. exact (irrelevant_is_discarded e).
Qed.

Lemma g_ignore_flags_exclusive : forall e,
  (gen_is_discarded e = RTrue -> gen_is_conflicted e = RFalse /\ gen_is_temp_rename e = RFalse) /\
  (gen_is_conflicted e = RTrue -> gen_is_discarded e = RFalse /\ gen_is_temp_rename e = RFalse) /\
  (gen_is_temp_rename e = RTrue -> gen_is_discarded e = RFalse /\ gen_is_conflicted e = RFalse).
Proof.
  intros e. rewrite gen_is_discarded_eq, gen_is_conflicted_eq, gen_is_temp_rename_eq. exact (ignore_flags_exclusive e).
Qed.

Lemma g_is_trash_iff : forall e,
  gen_is_trash e = RTrue <-> s_oid (e_local e) = SNone /\ s_oid (e_remote e) = SNone.
Proof.
  intros e. rewrite gen_is_trash_eq. exact (is_trash_iff e).
Qed.

Lemma g_trash_needs_sync_only_forced : forall e s,
  gen_is_trash e = RTrue -> truth (gen_side_needs_sync e s) = s_force (sd e s).
Proof.
  intros e s. rewrite gen_is_trash_eq, gen_side_needs_sync_eq. exact (trash_needs_sync_only_forced e s).
Qed.

Lemma g_is_latest_iff : forall e,
  truth (gen_is_latest e) = true <->
  truth (gen_is_latest_side e SL) = true /\ truth (gen_is_latest_side e SR) = true.
Proof.
  intros e. rewrite gen_is_latest_eq, !gen_is_latest_side_eq. exact (is_latest_iff e).
Qed.

Lemma g_is_latest_side_iff : forall e s,
  truth (gen_is_latest_side e s) = true <-> max_changed e <= s_last_gotten (sd e s).
Proof.
  intros e s. rewrite gen_is_latest_side_eq. exact (is_latest_side_iff e s).
Qed.

Lemma g_corrupt_gone_is_corrupt : forall e s,
  truth (gen_corrupt_gone e s) = true -> gen_is_corrupt e s = RTrue /\ gen_corrupt_exists e s = RFalse.
Proof.
  intros e s. rewrite gen_corrupt_gone_eq, gen_is_corrupt_eq, gen_corrupt_exists_eq. intros H.
  exact (conj (corrupt_gone_is_corrupt e s H) (corrupt_gone_exists_exclusive e s H)).
Qed.

Lemma g_corrupt_alone_quiet : forall e s,
  s_exists (sd e s) = XCorrupt -> s_force (sd e s) = false -> s_hash (sd e s) = s_sync_hash (sd e s) -> pm e s = true ->
  truth (gen_side_needs_sync e s) = false.
Proof.
  intros e s. rewrite gen_side_needs_sync_eq. exact (corrupt_alone_quiet e s).
Qed.

Lemma g_backoff_every_failure_increments : forall p b o,
  is_failure o = true -> gen_after_do p b o = gen_increment_backoff b (p_mult p) (p_min p) (p_max p).
Proof.
  intros p b o H. rewrite gen_after_do_eq. exact (LoopProofs.after_do_failure p b o H).
Qed.
