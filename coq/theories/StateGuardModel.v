(* StateGuardModel.v — the guards of the C11 preservation theorems as executable boolean functions of the state
   BEFORE an operation, and [run]: the guard bit of every step of a run (extracted to coq/bin/stateguard, so that the
   check can measure which part of the generated runs lies inside the domain of C11_idx_reachable).
   Definitions only.  Uses the component view of paths (pc, lowk: PathLaws) and oid_of / path_of (StateProofs). *)
From Coq Require Import NArith List Bool Arith.
From CS Require Import Sx Str PathModel PathLaws StateModel StateProofs.
Import ListNotations.

(* the case-folded components of a path: what is_subpath / join compare *)
Definition Kc (cv : conv) (p : str) : list str := lowk cv (pc cv p).

(* b is strictly below a *)
Definition below (cv : conv) (a b : str) : Prop := exists r, r <> [] /\ Kc cv b = Kc cv a ++ r.

Fixpoint strs_eqb (a b : list str) : bool :=
  match a, b with
  | [], [] => true
  | x :: a', y :: b' => str_eqb x y && strs_eqb a' b'
  | _, _ => false
  end.

(* the decidable form of [below] *)
Definition belowb (cv : conv) (a b : str) : bool :=
  Nat.ltb (length (Kc cv a)) (length (Kc cv b)) && strs_eqb (firstn (length (Kc cv a)) (Kc cv b)) (Kc cv a).

Definition pkey (en : entry) := (s_path (e_l en), s_path (e_r en), s_otype (e_l en), s_otype (e_r en)).

Definition pview (s : state) := map pkey (ents s).

Definition otype_of (s : state) (e : eid) (sd : bool) : option otype :=
  match nth_error (ents s) e with Some en => Some (s_otype (gs en sd)) | None => None end.

Definition path_guardb (E : env) (s : state) (e : eid) (sd : bool) (v : option str) : bool :=
  match nth_error (ents s) e, v with
  | Some en, Some p =>
    match s_otype (gs en sd), s_path (gs en sd) with
    | Dir, Some pp => negb (belowb (cvs E sd) pp p)
    | _, _ => true
    end
  | _, _ => true
  end.

(* the guard of the path assignment inside update_entry, read off the state before the call:
   (the entry is replaced by a fresh one) or not (a folder after the call, going strictly below its own path) *)
Definition ue_guardb (E : env) (s : state) (e : eid) (sd : bool) (oid path : option str) (ot : option otype) : bool :=
  match path, nth_error (ents s) e with
  | Some p, Some en =>
    if (match oid, ot with Some _, Some _ => is_discarded (e_ign en) && oip E sd && tstr path | _, _ => false end)%bool then true
    else match (match ot with Some t => t | None => s_otype (gs en sd) end), s_path (gs en sd) with
         | Dir, Some pp => negb (belowb (cvs E sd) pp (nps (cvs E sd) p))
         | _, _ => true
         end
  | _, _ => true
  end.

(* the guard: if dst is a folder that already has a path on that side, the incoming path is not strictly
   below it and, when an id comes along, the side does not take its ids from the provider (oid_is_path):
   there a child re-keyed by _update_kids can take the incoming id, which __setitem__ then writes back *)
Definition mv_guardb (E : env) (s : state) (dst src : eid) (sd : bool) : bool :=
  Nat.eqb dst src ||
  match otype_of s dst sd, path_of s dst sd with
  | Some Dir, Some pp =>
      (match path_of s src sd with Some p => negb (belowb (cvs E sd) pp p) | None => true end) &&
      (match oid_of s src sd with Some _ => negb (oip E sd) | None => true end)
  | _, _ => true
  end.

(* the guard of an event, read off the state before it: for every entry the event can land on (the holder of
   the id, the holder of the prior id, the entries filed under the path) the new path is not strictly below the
   entry's current path if the event says "folder"; and the guard of the side move of the merge branch *)
Definition candb (E : env) (s : state) (sd : bool) (ot : option otype) (path : option str) (e : eid) : bool :=
  match path_of s e sd, path with
  | Some pp, Some p =>
    negb ((match ot with Some t => otype_eqb t Dir | None => true end) && belowb (cvs E sd) pp (nps (cvs E sd) p))
  | _, _ => true
  end.

Definition ocandb (E : env) (s : state) (sd : bool) (ot : option otype) (path : option str) (x : option eid) : bool :=
  match x with Some e => candb E s sd ot path e | None => true end.

Definition upd_guardb (E : env) (s : state) (sd : bool) (ot : option otype) (oid path prior : option str) : bool :=
  ocandb E s sd ot path (lookup_oid s sd oid) && ocandb E s sd ot path (lookup_oid s sd prior) &&
  forallb (candb E s sd ot path) (lookup_path_stale s sd path) &&
  match lookup_oid s sd prior, lookup_oid s sd oid with
  | Some pe, Some e1 => mv_guardb E s pe e1 (negb sd)
  | _, _ => true
  end.

(* forget_oid (no caller in the engine) is outside: it detaches an entry that keeps its id, see forget_refuted *)
Definition op_guardb (E : env) (s : state) (o : op) : bool :=
  match o with
  | OUpdate sd ot oid path h ex prior => upd_guardb E s sd ot oid path prior
  | OSet e sd (FPath v) => path_guardb E s e sd v
  | OMove d sr sd => mv_guardb E s d sr sd
  | OUpdEnt e sd oid path h ex c ot => ue_guardb E s e sd oid path ot
  | OForget _ _ => false
  | _ => true
  end.

(* every operation of the run satisfies its guard in the state it is applied to *)
Fixpoint guardedb (E : env) (s : state) (l : list (op * list titem)) : bool :=
  match l with
  | [] => true
  | o :: r => op_guardb E s (fst o) && match step E s o with Ok s' => guardedb E s' r | Err _ => true end
  end.

(* the guard bit of every executed step (1 = the operation satisfies its guard in the state it is applied to) *)
Fixpoint guard_trace (E : env) (s : state) (l : list (op * list titem)) : list N :=
  match l with
  | [] => []
  | o :: r => (if op_guardb E s (fst o) then 1%N else 0%N) ::
              match step E s o with Ok s' => guard_trace E s' r | Err _ => [] end
  end.

(* run: L [env; L ops-with-tapes]  ->  L [guard bit of each executed step] *)
Definition run (x : sx) : sx :=
  match x with
  | L [e; ops] =>
    match un_env e, un_list un_optape ops with
    | Some E, Some ops => L (map A (guard_trace E init_state ops))
    | _, _ => sx_malformed
    end
  | _ => sx_malformed
  end.
