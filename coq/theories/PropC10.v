(* PropC10.v — property theorems for C10 (transient provider faults: survive, report, retry, still converge).
   Only statements closed by [exact], each followed by Print Assumptions; Examples show that hypotheses are
   satisfiable; refuted full-strength statements stay visible.

   Reading guide.  [cls] = an exception class: one of the 15 of cloudsync/exceptions.py (+ Exception) or any class
   derived from one of them by single inheritance ([Sub]); [isinst c k] = isinstance(e, k) for e of class c.
   [notify] = NotificationManager.notify_from_exception as an if/elif chain.  [smgr_step] / [emgr_step] = what one
   call of SyncManager.do / EventManager.do does, given what happened inside (sres / einput); their handler tables,
   the chain and the class order are regenerated from the current source on every run (GenNotify.v) and proved equal
   to the model here.  [outcome], [after_do], [seq_loop], [lstep] are LoopModel's (C18); [pick_sorted], [punt],
   [eligible] are SchedModel's (C17); [accept] is the Monitor (C01/C02). *)
From Coq Require Import QArith Qminmax Qround List Bool NArith ZArith.
From CS Require Import Sx TreeModel Monitor MonitorProofs LoopModel LoopProofs SchedModel SchedProofs
  FaultModel FaultProofs FaultSched FaultMonitor GenNotify FaultGenEq.
Import ListNotations.
Open Scope Q_scope.

(* ================================================================== (a) the notification map *)
(* every subclass of each reportable class maps to its kind; temporary covers what is not out-of-space *)
Theorem C10_notify_kind_matches : forall c,
  (isinst c KDisconnected = true -> notify c = Some NDisconnected) /\
  (isinst c KOutOfSpace = true -> notify c = Some NOutOfSpace) /\
  (isinst c KFileName = true -> notify c = Some NFileName) /\
  (isinst c KNamespace = true -> notify c = Some NNamespace) /\
  (isinst c KRootMissing = true -> notify c = Some NRootMissing) /\
  (isinst c KTemporary = true -> isinst c KOutOfSpace = false -> notify c = Some NTemporary).
Proof. exact notify_kind_matches. Qed.
Print Assumptions C10_notify_kind_matches.

(* CloudOutOfSpaceError IS a CloudTemporaryError and is still reported as out of space: not shadowed *)
Theorem C10_out_of_space_not_shadowed : forall c,
  isinst c KOutOfSpace = true -> isinst c KTemporary = true /\ notify c = Some NOutOfSpace.
Proof. exact out_of_space_not_shadowed. Qed.
Print Assumptions C10_out_of_space_not_shadowed.

(* the order of the chain is what makes that true: with the temporary test first it is shadowed *)
Example C10_temporary_first_would_shadow :
  notify_chain ((KTemporary, NTemporary) :: chain) (K KOutOfSpace) = Some NTemporary /\
  notify (K KOutOfSpace) = Some NOutOfSpace.
Proof. split; reflexivity. Qed.

Theorem C10_notify_table : forall c,
  notify c = match kbase c with
             | KDisconnected => Some NDisconnected
             | KOutOfSpace => Some NOutOfSpace
             | KFileName => Some NFileName
             | KNamespace => Some NNamespace
             | KRootMissing => Some NRootMissing
             | KTemporary | KResourceModified => Some NTemporary
             | _ => None
             end.
Proof. exact notify_table. Qed.
Print Assumptions C10_notify_table.

Theorem C10_chain_no_dead_branch : forall p, In p chain -> notify (K (fst p)) = Some (snd p).
Proof. exact chain_no_dead_branch. Qed.
Print Assumptions C10_chain_no_dead_branch.

Theorem C10_not_reported_iff : forall c,
  notify c = None <->
  isinst c KDisconnected = false /\ isinst c KFileName = false /\ isinst c KNamespace = false /\
  isinst c KRootMissing = false /\ isinst c KTemporary = false.
Proof. exact notify_none_iff. Qed.
Print Assumptions C10_not_reported_iff.

(* isinstance follows the class order: reflexive, transitive, inherited by foreign subclasses *)
Theorem C10_isinstance_laws : forall c a b,
  isinst (K a) a = true /\ isinst (Sub c) a = isinst c a /\ isinst c KException = true /\
  (isinst c a = true -> isinst (K a) b = true -> isinst c b = true).
Proof. exact (fun c a b => conj (isinst_refl a) (conj (isinst_sub c a) (conj (isinst_exception c) (isinst_trans c a b)))). Qed.
Print Assumptions C10_isinstance_laws.

(* ---- second tie: what the translator regenerated from the CURRENT source is the model *)
Theorem C10_gen_class_order_is_model : forall k,
  gen_kparent k = kparent k /\ gen_kmro k = kmro k /\
  gen_kmro k = k :: match gen_kparent k with Some p => gen_kmro p | None => [] end.
Proof. exact (fun k => conj (gen_kparent_eq k) (conj (gen_kmro_eq k) (gen_kmro_unfolds k))). Qed.
Print Assumptions C10_gen_class_order_is_model.

Theorem C10_gen_chain_is_model : gen_chain = chain.
Proof. exact gen_chain_eq. Qed.
Print Assumptions C10_gen_chain_is_model.

Theorem C10_gen_handlers_are_model :
  gen_smgr_handlers = smgr_handlers /\ gen_roots_handlers = roots_handlers /\ gen_emgr_handlers = emgr_handlers /\
  gen_change_handlers = change_handlers.
Proof. exact (conj gen_smgr_handlers_eq (conj gen_roots_handlers_eq (conj gen_emgr_handlers_eq gen_change_handlers_eq))). Qed.
Print Assumptions C10_gen_handlers_are_model.

(* ================================================================== (b) the sync loop *)
(* every exception class raised by pre_sync/sync is caught by one of the two clauses *)
Theorem C10_smgr_every_exception_caught : forall c,
  dispatch smgr_handlers c = Some (if isany c transient then [ANotify; APunt; ABackoff]
                                   else [ANotifyIfCloud; APunt; ACommit; ABackoff]).
Proof. exact smgr_dispatch_total. Qed.
Print Assumptions C10_smgr_every_exception_caught.

(* ... with this effect, for EVERY class: reported per the chain, entry punted, backoff requested *)
Theorem C10_smgr_raise_effect : forall c,
  let s := smgr_step (SRaise c) in
  s_out s = OBackoff /\ f_punt (s_eff s) = true /\ f_note (s_eff s) = notify c /\
  f_commit (s_eff s) = negb (isany c transient) /\ f_auth (s_eff s) = false /\ f_cursor (s_eff s) = false.
Proof. exact smgr_raise_effect. Qed.
Print Assumptions C10_smgr_raise_effect.

Theorem C10_smgr_reports_matching_kind : forall c,
  let e := s_eff (smgr_step (SRaise c)) in
  (isinst c KDisconnected = true -> f_note e = Some NDisconnected) /\
  (isinst c KOutOfSpace = true -> f_note e = Some NOutOfSpace) /\
  (isinst c KFileName = true -> f_note e = Some NFileName) /\
  (isinst c KNamespace = true -> f_note e = Some NNamespace) /\
  (isinst c KRootMissing = true -> f_note e = Some NRootMissing) /\
  (isinst c KTemporary = true -> isinst c KOutOfSpace = false -> f_note e = Some NTemporary).
Proof. exact smgr_reports_matching_kind. Qed.
Print Assumptions C10_smgr_reports_matching_kind.

Theorem C10_smgr_roots_effect : forall c,
  let s := smgr_step (SRoots c) in
  s_out s = OBackoff /\ f_punt (s_eff s) = false /\ f_note (s_eff s) = notify c /\ f_commit (s_eff s) = false.
Proof. exact smgr_roots_effect. Qed.
Print Assumptions C10_smgr_roots_effect.

(* how do() ends, by what happened inside: a plain Exception leaves do() only when state.change() raised something
   that is not a CloudException *)
Theorem C10_smgr_outcome_classes : forall r,
  match r with
  | SIdle | SDone false => s_out (smgr_step r) = ONoop
  | SDone true => s_out (smgr_step r) = ODid
  | SRaise _ | SRoots _ => s_out (smgr_step r) = OBackoff
  | SChange c => s_out (smgr_step r) = if isinst c KCloud then OBackoff else OExc
  end.
Proof. exact smgr_outcome_classes. Qed.
Print Assumptions C10_smgr_outcome_classes.

Theorem C10_smgr_change_effect : forall c,
  let s := smgr_step (SChange c) in
  s_out s = (if isinst c KCloud then OBackoff else OExc) /\ f_punt (s_eff s) = false /\ f_commit (s_eff s) = false /\
  f_note (s_eff s) = notify c.
Proof. exact smgr_change_effect. Qed.
Print Assumptions C10_smgr_change_effect.

(* every temporary / disconnected / invalid-name condition raised anywhere in a sync step — pre_sync/sync, root
   validation, state.change() (guarded since the fix of finding E-15) — is reported with the kind the chain gives *)
Theorem C10_smgr_every_fault_notified : forall r c,
  raised r c ->
  isinst c KTemporary = true \/ isinst c KDisconnected = true \/ isinst c KFileName = true ->
  f_note (s_eff (smgr_step r)) = notify c /\ notify c <> None.
Proof. exact smgr_every_fault_notified. Qed.
Print Assumptions C10_smgr_every_fault_notified.

(* ================================================================== (b) the event loops *)
Theorem C10_emgr_reportable_notified : forall auth i c,
  emgr_exc auth i = RRaise c -> isany c emgr_reported = true ->
  let x := emgr_step auth i in
  x_out x = OBackoff /\ f_note (x_eff x) = notify c /\ notify c <> None /\ f_auth (x_eff x) = false.
Proof. exact emgr_reportable_notified. Qed.
Print Assumptions C10_emgr_reportable_notified.

Theorem C10_emgr_token_sets_need_auth : forall auth i c,
  emgr_exc auth i = RRaise c -> isinst c KToken = true ->
  let x := emgr_step auth i in x_out x = OBackoff /\ x_auth x = true /\ f_note (x_eff x) = None.
Proof. exact emgr_token_sets_need_auth. Qed.
Print Assumptions C10_emgr_token_sets_need_auth.

Theorem C10_emgr_reauthenticates : forall i c,
  i_conn i = false -> i_reconnect i = RRaise c -> isinst c KToken = true ->
  let x := emgr_step true i in
  x_reconnect x = true /\ x_reauth x = true /\
  (i_reauth i = Some ROk -> x_auth x = (match i_body i with RRaise c2 => isinst c2 KToken | ROk => false end)) /\
  (i_reauth i = None -> x_out x = OBackoff /\ x_auth x = true).
Proof. exact emgr_reauthenticates. Qed.
Print Assumptions C10_emgr_reauthenticates.

Theorem C10_emgr_reconnects : forall auth i,
  (i_conn i = true -> x_reconnect (emgr_step auth i) = false /\ x_reauth (emgr_step auth i) = false) /\
  (i_conn i = false -> x_reconnect (emgr_step auth i) = true).
Proof. exact emgr_reconnects. Qed.
Print Assumptions C10_emgr_reconnects.

Theorem C10_emgr_cursor_resets : forall auth i c,
  emgr_exc auth i = RRaise c -> isinst c KCursor = true ->
  let x := emgr_step auth i in x_out x = OBackoff /\ f_cursor (x_eff x) = true /\ f_note (x_eff x) = None.
Proof. exact emgr_cursor_resets. Qed.
Print Assumptions C10_emgr_cursor_resets.

(* which classes the event loop's own clauses take; everything else leaves do() as a plain Exception *)
Theorem C10_emgr_dispatch_table : forall c,
  dispatch emgr_handlers c =
  match kbase c with
  | KTemporary | KOutOfSpace | KResourceModified | KDisconnected | KNamespace => Some [ANotify; ABackoff]
  | KCursor => Some [ACursorReset; ABackoff]
  | KToken => Some [ANeedAuth; ABackoff]
  | _ => None
  end.
Proof. exact emgr_dispatch_table. Qed.
Print Assumptions C10_emgr_dispatch_table.

Theorem C10_emgr_escapes : forall auth i c,
  emgr_exc auth i = RRaise c -> dispatch emgr_handlers c = None ->
  let x := emgr_step auth i in x_out x = OExc /\ f_note (x_eff x) = None.
Proof. exact emgr_escapes. Qed.
Print Assumptions C10_emgr_escapes.

(* full strength "every kind the chain knows is reported by the event loop": false — CloudRootMissingError (called a
   temporary error by the comment in EventManager.do, a plain CloudException in exceptions.py) and
   CloudFileNameError are not named by the except clause and leave do() un-notified *)
Theorem C10_emgr_all_kinds_notified_refuted : ~ emgr_all_kinds_notified_full.
Proof. exact emgr_all_kinds_notified_refuted. Qed.
Print Assumptions C10_emgr_all_kinds_notified_refuted.

(* ================================================================== the loops keep running *)
(* any finite sequence of step results, any exception classes: do() is called once per step, the final backoff is
   LoopModel's fold — nothing a provider raises ends a loop *)
Theorem C10_loops_survive : forall p b,
  (forall rs, count_do (fst (seq_loop p b (plain (smgr_outs rs)))) = length rs /\
              snd (seq_loop p b (plain (smgr_outs rs))) = backoff_after p b (smgr_outs rs)) /\
  (forall auth is, count_do (fst (seq_loop p b (plain (emgr_outs auth is)))) = length is /\
                   snd (seq_loop p b (plain (emgr_outs auth is))) = backoff_after p b (emgr_outs auth is)).
Proof. exact (fun p b => conj (smgr_loop_survives p b) (emgr_loop_survives p b)). Qed.
Print Assumptions C10_loops_survive.

(* in C18's two-thread machine: after ANY manager step the loop thread proceeds to its flag tests (it can only
   leave the loop through a stop flag or until(): C18_loop_exit_only_by_flags) *)
Theorem C10_manager_step_continues : forall p s u,
  lp s = LDoRet ->
  (forall r, lp (lstep p s (s_out (smgr_step r)) u) = LC1) /\
  (forall auth i, lp (lstep p s (x_out (emgr_step auth i)) u) = LC1).
Proof. exact manager_step_continues. Qed.
Print Assumptions C10_manager_step_continues.

(* k consecutive faulty sync steps from "not in backoff" wait min(max, min * mult^(k-1)) *)
Theorem C10_backoff_under_faults : forall p rs,
  1 <= p_mult p -> 0 < p_min p -> p_min p <= p_max p -> rs <> [] -> all_faulty rs ->
  backoff_after p 0 (smgr_outs rs) == Qmin (p_max p) (p_min p * qpow (p_mult p) (length rs - 1)).
Proof. exact smgr_backoff_under_faults. Qed.
Print Assumptions C10_backoff_under_faults.

Example C10_backoff_under_faults_nonvacuous :
  all_faulty [SRaise (K KTemporary); SChange (Sub (K KDisconnected)); SRoots (K KToken)] /\
  smgr_outs [SRaise (K KTemporary); SChange (Sub (K KDisconnected)); SRoots (K KToken)] = [OBackoff; OBackoff; OBackoff].
Proof.
  split; [|reflexivity]. intros r [<-|[<-|[<-|[]]]]; eexists; [left|right; right|right; left]; reflexivity.
Qed.

(* the first step that gets something done after the faults stopped resets the backoff (both loops) *)
Theorem C10_backoff_resets_after_faults : forall p b,
  0 <= b ->
  after_do p b (s_out (smgr_step (SDone true))) == 0 /\
  sleep_of p (after_do p b (s_out (smgr_step (SDone true)))) = p_sleep p /\
  (forall auth i, emgr_exc auth i = ROk ->
     after_do p b (x_out (emgr_step auth i)) == 0 /\ sleep_of p (after_do p b (x_out (emgr_step auth i))) = p_sleep p).
Proof. exact backoff_resets_after_faults. Qed.
Print Assumptions C10_backoff_resets_after_faults.

(* full strength "it resets as soon as the faults stop": false for the sync loop (an idle step keeps it) *)
Theorem C10_backoff_resets_when_idle_refuted : ~ smgr_backoff_resets_when_idle_full.
Proof. exact smgr_backoff_resets_when_idle_refuted. Qed.
Print Assumptions C10_backoff_resets_when_idle_refuted.

Theorem C10_idle_keeps_backoff : forall p b,
  after_do p b (s_out (smgr_step SIdle)) = b /\ after_do p b (s_out (smgr_step (SDone false))) = b.
Proof. exact smgr_idle_keeps_backoff. Qed.
Print Assumptions C10_idle_keeps_backoff.

(* ================================================================== (c) a failing entry does not stop the others *)
(* every table, every set of failing entries, every sequence of clock readings: a good entry that stays eligible
   is picked within budget + 1 calls of change(); budget = for every other entry, how often it can go first
   (a failing entry with priority q <= ph: floor(ph - q) + 1 times, it is punted each time; a good one: once) *)
Theorem C10_good_entry_served : forall c failing, exact c ->
  forall ets l h eh,
  NoDup (tags l) -> In (h, eh) l -> failing h = false ->
  (forall et, In et ets -> eligible et eh = true) ->
  (budget failing h (pri eh) l < length ets)%nat ->
  In (PGood h) (fst (sched_run c failing ets l)).
Proof. exact good_entry_served. Qed.
Print Assumptions C10_good_entry_served.

(* default priorities (0 for new work): served within |change set| calls, however many entries fail for ever *)
Theorem C10_good_entry_served_default : forall c failing ets l h eh, exact c ->
  NoDup (tags l) -> In (h, eh) l -> failing h = false -> pri eh == 0 ->
  (forall x, In x l -> 0 <= pri (snd x)) ->
  (forall et, In et ets -> eligible et eh = true) ->
  (length l <= length ets)%nat ->
  In (PGood h) (fst (sched_run c failing ets l)).
Proof. exact good_entry_served_default. Qed.
Print Assumptions C10_good_entry_served_default.

Example C10_good_entry_served_nonvacuous :
  exact (cfg_exact (1 # 1000) (1 # 1000)) /\ NoDup (tags demo_table) /\
  fst (sched_run (cfg_exact (1 # 1000) (1 # 1000)) (fun i => Nat.eqb i 0) [20; 20; 20; 20] demo_table)
  = [PFail 0; PGood 1; PGood 2; PFail 0]%nat.
Proof.
  split; [exact (exact_cfg_exact _ _)|]. split; [|exact demo_run].
  repeat constructor; simpl; intuition discriminate.
Qed.

Theorem C10_failing_behind_good : forall et (l : table) i e h eh,
  In (h, eh) l -> eligible et eh = true -> pri eh < pri e -> pick_sorted et l <> Some (i, e).
Proof. exact failing_behind_good. Qed.
Print Assumptions C10_failing_behind_good.

(* once it stops failing: after k punts it is eligible again as soon as stamp + k * punt_secs + age <= now ... *)
Theorem C10_eligible_again_after_punt_delay : forall c k e s now age, exact c -> 0 <= c_pL c -> 0 <= c_pR c ->
  healthy e -> 0 <= pri e -> truthy (ch s e) = true ->
  orz (ch s e) + inject_Z (Z.of_nat k) * c_punt c s + age <= now ->
  exists e', punts c k e = Ok e' /\ pri e' == pri e + inject_Z (Z.of_nat k) /\
    orz (ch s e') == orz (ch s e) + inject_Z (Z.of_nat k) * c_punt c s /\
    eligible (earlier_than c now age) e' = true.
Proof. exact punt_bounded_delay. Qed.
Print Assumptions C10_eligible_again_after_punt_delay.

(* ... and it is then picked as soon as nothing eligible has a smaller key *)
Theorem C10_picked_when_smallest : forall et l x, In x l -> eligible et (snd x) = true ->
  (forall y, In y l -> y <> x -> eligible et (snd y) = true -> key_lt (snd x) (snd y)) ->
  NoDup l -> pick_sorted et l = Some x.
Proof. exact picked_when_smallest. Qed.
Print Assumptions C10_picked_when_smallest.

(* the scheduler machine never reports the impossible result: punt is total *)
Theorem C10_sched_run_no_bad : forall c failing ets l, ~ In PBad (fst (sched_run c failing ets l)).
Proof. exact sched_run_no_bad. Qed.
Print Assumptions C10_sched_run_no_bad.

(* ================================================================== (d) outcome: converge, nothing lost *)
(* a provider call that failed changes neither tree: for the acceptor it is a stutter — faults are invisible in the
   observation trace except as engine actions without effect *)
Theorem C10_failed_action_is_stutter : forall cfg m s ts,
  forallb (is_prefix (root_of cfg s)) ts = true -> existsb (has_declined cfg) ts = false -> quiet m = false ->
  (cov_every_step cfg = true -> all_live (cov m) (tL m) (tR m) = true) ->
  mstep cfg m {| o_ev := EEng s ts; o_L := tL m; o_R := tR m |} =
  inl {| tL := tL m; tR := tR m; spec := spec m; cov := cov m; Monitor.steps := Monitor.steps m; quiet := quiet m |}.
Proof. exact failed_action_is_stutter. Qed.
Print Assumptions C10_failed_action_is_stutter.

(* hence, for an accepted run with faults: at every quiet report after the faults stopped the sides have converged *)
Theorem C10_converged_after_faults : forall cfg l r tr m',
  accept cfg l r tr = inl m' ->
  forall pre x post, tr = pre ++ x :: post -> o_ev x = EQuiet ->
    same_tree (strip_conflicted cfg (view (rootL cfg) (o_L x))) (strip_conflicted cfg (view (rootR cfg) (o_R x))) = true.
Proof. exact quiet_converged. Qed.
Print Assumptions C10_converged_after_faults.

(* ... no version written by a user and not since overwritten/deleted by a user is missing at a quiet report ... *)
Theorem C10_nothing_lost_after_faults : forall cfg l r tr m',
  accept cfg l r tr = inl m' ->
  forall pre x post, tr = pre ++ x :: post -> o_ev x = EQuiet ->
    exists ma, run_of cfg (init_state cfg l r) pre ma /\
      forall c, In c (cov ma) -> In c (contents (o_L x)) \/ In c (contents (o_R x)).
Proof. exact quiet_nothing_lost. Qed.
Print Assumptions C10_nothing_lost_after_faults.

(* ... nor after any single engine action in between (a step torn by a fault included) *)
Theorem C10_faulty_step_loses_nothing : forall cfg l r tr m',
  cov_every_step cfg = true -> accept cfg l r tr = inl m' ->
  forall pre x post s ts, tr = pre ++ x :: post -> o_ev x = EEng s ts ->
    exists ma, run_of cfg (init_state cfg l r) pre ma /\
      forall c, In c (cov ma) -> In c (contents (o_L x)) \/ In c (contents (o_R x)).
Proof. exact step_nothing_lost. Qed.
Print Assumptions C10_faulty_step_loses_nothing.

(* and, for one-sided/disjoint histories, both views equal the history applied to the base tree: the outcome with
   faults is the outcome without *)
Theorem C10_faults_transparent : forall cfg l r tr m',
  check_spec cfg = true -> accept cfg l r tr = inl m' ->
  forall pre x post, tr = pre ++ x :: post -> o_ev x = EQuiet ->
    same_tree (view (rootL cfg) (o_L x)) (apply_ops (view (rootL cfg) l) (rel_user_ops cfg pre)) = true /\
    same_tree (view (rootR cfg) (o_R x)) (apply_ops (view (rootL cfg) l) (rel_user_ops cfg pre)) = true.
Proof. exact quiet_views_are_history. Qed.
Print Assumptions C10_faults_transparent.
