From Coq Require Import ExtrOcamlBasic.
From CS Require Import Sx ThreadModel.
Definition run := ThreadModel.run.
Extraction "extract/thread/model.ml" run.
