(* Sx.v — the wire format shared by every executable model.
   A model exposes [run : sx -> sx]; the OCaml driver (coq/ocaml/driver.ml) and the
   vm_compute path (harness/modelproc.py, "cases.v") both feed it the same terms.
   Atoms are naturals (binary N); strings are lists of code points. *)
From Coq Require Import NArith List Bool.
Import ListNotations.

Inductive sx : Type :=
| A (n : N)
| L (l : list sx).

(* conventional encodings used by all decoders *)
Definition sx_bool (b : bool) : sx := A (if b then 1 else 0)%N.
Definition sx_nat (n : nat) : sx := A (N.of_nat n).
Definition sx_str (s : list N) : sx := L (map A s).
Definition sx_opt {T} (f : T -> sx) (o : option T) : sx :=
  match o with None => L [] | Some x => L [f x] end.
Definition sx_list {T} (f : T -> sx) (l : list T) : sx := L (map f l).

(* decoders return None on malformed input; [run] maps that to the error term *)
Definition un_atom (x : sx) : option N := match x with A n => Some n | L _ => None end.
Definition un_bool (x : sx) : option bool :=
  match x with A 0%N => Some false | A 1%N => Some true | _ => None end.
Fixpoint un_all {T} (f : sx -> option T) (l : list sx) : option (list T) :=
  match l with
  | [] => Some []
  | x :: r => match f x, un_all f r with
              | Some a, Some b => Some (a :: b)
              | _, _ => None
              end
  end.
Definition un_list {T} (f : sx -> option T) (x : sx) : option (list T) :=
  match x with L l => un_all f l | A _ => None end.
Definition un_str (x : sx) : option (list N) := un_list un_atom x.
Definition un_opt {T} (f : sx -> option T) (x : sx) : option (option T) :=
  match x with
  | L [] => Some None
  | L [y] => match f y with Some v => Some (Some v) | None => None end
  | _ => None
  end.

(* the term every [run] returns for input it cannot decode: never a normal-looking value *)
Definition sx_malformed : sx := L [A 999999%N; A 999999%N].
