(* AlgoCalls.v — which provider calls the engine issues: every call of SyncManager.sync on behalf of side s goes
   to the OTHER side (no invariant needed), and only a side holding a user's object makes calls (from the invariant). *)
From Coq Require Import NArith List Bool Arith Lia.
From CS Require Import Sx Str PathModel PathLaws StateModel StateProofs ProvModel ProvProofs
     AlgoModel AlgoCheck AlgoState AlgoProv AlgoPath AlgoInv AlgoIntake AlgoSync AlgoLatest AlgoFinish AlgoSyncEntry AlgoStep.
Import ListNotations.
Local Open Scope N_scope.

Definition on_side (t : bool) (cs : list call) : Prop := Forall (fun c => cl_side c = t) cs.
Lemma on_nil t : on_side t []. Proof. constructor. Qed.
Lemma on_one t op ok tg : on_side t [mkCall t op ok tg]. Proof. constructor; [reflexivity|constructor]. Qed.
Lemma on_app t a b : on_side t a -> on_side t b -> on_side t (a ++ b). Proof. apply Forall_app_2 || (intros; apply Forall_app; auto). Qed.
#[local] Hint Resolve on_nil on_one on_app : calls.

Ltac crunch H :=
  repeat (cbn [rbind] in H;
    match type of H with
    | ROk _ = ROk _ => first [injection H as <- <- <-|injection H as <- <-]
    | OutOfFragment _ = ROk _ => discriminate H
    | rbind ?A _ = _ => let E := fresh "E" in destruct A eqn:E; [|discriminate H]
    | (if ?B then _ else _) = _ => destruct B
    | (let '(_, _) := ?X in _) = _ => destruct X
    | match ?X with _ => _ end = _ => destruct X
    end).

Lemma create_calls w e s tp w' cs rs : create_synced w e s tp = ROk (w', cs, rs) -> on_side (negb s) cs.
Proof.
  unfold create_synced, gate, handle_fnf. intros H. crunch H; auto with calls.
Qed.

Lemma upload_calls w e s w' cs up : upload_synced w e s = ROk (w', cs, up) -> on_side (negb s) cs.
Proof. unfold upload_synced. intros H. crunch H; auto with calls. Qed.

Lemma delete_calls w e s w' cs rs : delete_synced w e s = ROk (w', cs, rs) -> on_side (negb s) cs.
Proof.
  unfold delete_synced. intros H. unfold get_e, lift in H. destruct (get_ent (w_st w) e) as [en|]; [|discriminate]. cbn [rbind] in H.
  match type of H with (if ?B then _ else _) = _ => destruct B; [discriminate|] end.
  match type of H with (if ?B then _ else _) = _ => destruct B; [discriminate|] end.
  match type of H with (rbind ?A _) = _ => destruct A as [[w1 cs0]|] eqn:E; [|discriminate] end.
  assert (X: on_side (negb s) cs0).
  { clear H. destruct (s_oid (gs en (negb s))) as [o|]; [|injection E as <- <-; auto with calls].
    destruct (tstr (Some o)); [|injection E as <- <-; auto with calls].
    destruct (key_of w (negb s) o) as [k|]; [|discriminate]. cbn [rbind] in E.
    destruct (ProvModel.delete (prov_of w (negb s)) k) as [pv r]. destruct r; [|discriminate].
    match type of E with (rbind ?A _) = _ => destruct A; [|discriminate] end. cbn [rbind] in E. injection E as <- <-. auto with calls. }
  cbn [rbind] in H.
  match type of H with (rbind ?A _) = _ => destruct A; [|discriminate] end. cbn [rbind] in H.
  match type of H with (rbind ?A _) = _ => destruct A; [|discriminate] end. cbn [rbind] in H.
  match type of H with (rbind ?A _) = _ => destruct A; [|discriminate] end. cbn [rbind] in H.
  injection H as <- <- <-. exact X.
Qed.

Lemma rename_calls w e s tp w' cs rs : handle_rename w e s tp = ROk (w', cs, rs) -> on_side (negb s) cs.
Proof. unfold handle_rename, gate, handle_fnf. intros H. crunch H; auto with calls. Qed.

Lemma mkdirs_calls t : forall fuel p path p' r cs, mkdirs fuel p t path = (p', r, cs) -> on_side t cs.
Proof.
  induction fuel as [|f IH]; intros p path p' r cs H; simpl in H.
  - destruct (ProvModel.mkdir p path) as [p1 r1]. destruct r1 as [k|er]; [injection H as <- <- <-; auto with calls|].
    destruct er; injection H as <- <- <-; auto with calls.
  - destruct (ProvModel.mkdir p path) as [p1 r1]. destruct r1 as [k|er]; [injection H as <- <- <-; auto with calls|].
    destruct er; try (injection H as <- <- <-; auto with calls).
    destruct path as [|a path']; [injection H as <- <- <-; auto with calls|].
    destruct (mkdirs f p t (removelast (a :: path'))) as [[p2 r2] cs2] eqn:E2. pose proof (IH _ _ _ _ _ E2) as X.
    destruct r2 as [k2|].
    + destruct (ProvModel.mkdir p2 (a :: path')) as [p3 r3]. destruct r3; injection H as <- <- <-;
        (constructor; [reflexivity|apply on_app; [exact X|auto with calls]]).
    + injection H as <- <- <-. constructor; [reflexivity|exact X].
Qed.

Lemma mkdir_synced_calls w e s tp w' cs rs : mkdir_synced w e s tp = ROk (w', cs, rs) -> on_side (negb s) cs.
Proof.
  unfold mkdir_synced. intros H. unfold get_e, lift in H. destruct (get_ent (w_st w) e) as [en|]; [|discriminate]. cbn [rbind] in H.
  match type of H with (match ?A with _ => _ end) = _ => destruct A; [|discriminate] end.
  match type of H with (match ?A with _ => _ end) = _ => destruct A; [|discriminate] end.
  destruct (mkdirs _ _ _ _) as [[pv r] cs0] eqn:Em. pose proof (mkdirs_calls _ _ _ _ _ _ _ Em) as X.
  destruct r as [k|]; [|discriminate]. crunch H; exact X.
Qed.

Lemma hash_diff_calls w e s w' cs rs : handle_hash_diff w e s = ROk (w', cs, rs) -> on_side (negb s) cs.
Proof.
  unfold handle_hash_diff. intros H. unfold get_e, lift in H. destruct (get_ent (w_st w) e) as [en|]; [|discriminate]. cbn [rbind] in H.
  destruct (s_path (gs en s)); [|injection H as <- <- <-; auto with calls].
  match type of H with (if ?B then _ else _) = _ => destruct B; [discriminate|] end.
  destruct (download_changed w e s) as [[w1 ok]|]; [|discriminate]. cbn [rbind] in H.
  destruct ok; cbn [negb] in H; [|injection H as <- <- <-; auto with calls].
  destruct (upload_synced w1 e s) as [[[w2 cs2] up]|] eqn:Eu; [|discriminate]. cbn [rbind] in H. injection H as <- <- <-.
  apply (upload_calls _ _ _ _ _ _ Eu).
Qed.

Lemma hpcoc_calls w e s w' cs rs : handle_path_change_or_creation w e s = ROk (w', cs, rs) -> on_side (negb s) cs.
Proof.
  unfold handle_path_change_or_creation. intros H. unfold get_e, lift in H. destruct (get_ent (w_st w) e) as [en|]; [|discriminate]. cbn [rbind] in H.
  match type of H with (match ?A with _ => _ end) = _ => destruct A; [|injection H as <- <- <-; auto with calls] end.
  match type of H with (if ?B then _ else _) = _ => destruct B; [discriminate|] end.
  match type of H with (if ?B then _ else _) = _ => destruct B; [injection H as <- <- <-; auto with calls|] end.
  match type of H with (if ?B then _ else _) = _ => destruct B; [|apply (rename_calls _ _ _ _ _ _ _ H)] end.
  destruct (check_disjoint_create w e s s0) as [dj|]; [|discriminate]. cbn [rbind] in H.
  destruct dj; [injection H as <- <- <-; auto with calls|].
  match type of H with (if ?B then _ else _) = _ => destruct B end.
  - unfold gate in H. destruct (Nat.leb 3 (lvl w)); [apply (mkdir_synced_calls _ _ _ _ _ _ _ H)|discriminate].
  - destruct (download_changed w e s) as [[w1 ok]|]; [|discriminate]. cbn [rbind] in H.
    destruct ok; cbn [negb] in H; [apply (create_calls _ _ _ _ _ _ _ H)|injection H as <- <- <-; auto with calls].
Qed.

Lemma embrace_calls w e s w' cs rs : embrace_change w e s = ROk (w', cs, rs) -> on_side (negb s) cs.
Proof.
  unfold embrace_change. intros H. unfold get_e, lift in H. destruct (get_ent (w_st w) e) as [en|] eqn:En; [|discriminate]. cbn [rbind] in H.
  match type of H with (rbind ?A _) = _ => destruct A as [[]|]; [|discriminate] end. cbn [rbind] in H.
  match type of H with (if ?B then _ else _) = _ => destruct B; [injection H as <- <- <-; auto with calls|] end.
  match type of H with (if ?B then _ else _) = _ => destruct B; [discriminate|] end.
  match type of H with (rbind ?A _) = _ => destruct A as [pc|]; [|discriminate] end. cbn [rbind] in H.
  destruct pc as [ce|].
  { unfold gate in H. destruct (Nat.leb 3 (lvl w)); [|discriminate]. crunch H; auto with calls. }
  match type of H with (if ?B then _ else _) = _ => destruct B; [discriminate|] end.
  match type of H with (if ?B then _ else _) = _ => destruct B end.
  { match type of H with (if ?B then _ else _) = _ => destruct B; [injection H as <- <- <-; auto with calls|apply (delete_calls _ _ _ _ _ _ H)] end. }
  match type of H with (if ?B then _ else _) = _ => destruct B; [discriminate|] end.
  match type of H with (rbind ?A _) = _ => destruct A as [[[w1 cs1] early]|] eqn:Er; [|discriminate] end. cbn [rbind] in H.
  assert (X1: on_side (negb s) cs1).
  { clear H. match type of Er with (if ?B then _ else _) = _ => destruct B; [|injection Er as <- <- <-; auto with calls] end.
    destruct (handle_path_change_or_creation w e s) as [[[wa csa] rsa]|] eqn:Eh; [|discriminate]. cbn [rbind] in Er.
    pose proof (hpcoc_calls _ _ _ _ _ _ Eh) as X. destruct rsa; crunch Er; exact X. }
  destruct early as [rs0|]; [injection H as <- <- <-; exact X1|].
  match type of H with (rbind ?A _) = _ => destruct A as [en1|]; [|discriminate] end. cbn [rbind] in H.
  match type of H with (if ?B then _ else _) = _ => destruct B; [|injection H as <- <- <-; exact X1] end.
  destruct (handle_hash_diff w1 e s) as [[[w2 cs2] rs2]|] eqn:Ed; [|discriminate]. cbn [rbind] in H. injection H as <- <- <-.
  apply on_app; [exact X1|apply (hash_diff_calls _ _ _ _ _ _ Ed)].
Qed.

Lemma sync_side_calls w e s w' cs fl : sync_side w e s = ROk (w', cs, fl) -> on_side (negb s) cs.
Proof.
  unfold sync_side. intros H. unfold get_e, lift in H. destruct (get_ent (w_st w) e) as [en|]; [|discriminate]. cbn [rbind] in H.
  match type of H with (if ?B then _ else _) = _ => destruct B; [crunch H; auto with calls|] end.
  match type of H with (if ?B then _ else _) = _ => destruct B; [crunch H; auto with calls|] end.
  match type of H with (if ?B then _ else _) = _ => destruct B; [crunch H; auto with calls|] end.
  match type of H with (if ?B then _ else _) = _ => destruct B; [crunch H; auto with calls|] end.
  match type of H with (if ?B then _ else _) = _ => destruct B; [discriminate|] end.
  destruct (embrace_change w e s) as [[[w1 cs1] rs]|] eqn:Ee; [|discriminate]. cbn [rbind] in H.
  pose proof (embrace_calls _ _ _ _ _ _ Ee) as X. destruct rs; crunch H; exact X.
Qed.

(* ------------------------------------------------------------------ only a side holding a user's object makes calls *)
Definition CallsOk (g : ghost) (cs : list call) : Prop :=
  Forall (fun c => exists k c0, g_get k (g_of g (negb (cl_side c))) = Some c0) cs.

Lemma CallsOk_nil g : CallsOk g []. Proof. constructor. Qed.
Lemma CallsOk_app g a b : CallsOk g a -> CallsOk g b -> CallsOk g (a ++ b). Proof. intros; apply Forall_app; auto. Qed.
Lemma CallsOk_side g s cs : on_side (negb s) cs -> (cs = [] \/ exists k c0, g_get k (g_of g s) = Some c0) -> CallsOk g cs.
Proof.
  intros H [->|(k & c0 & Hg)]; [constructor|]. unfold CallsOk. eapply Forall_impl; [|exact H].
  intros c Hc. simpl in Hc. rewrite Hc, negb_involutive. eauto.
Qed.

Lemma sync_side_owner g w e en s w' cs fl :
  SCtx g w e en -> e_ign en = INone -> sync_side w e s = ROk (w', cs, fl) ->
  cs = [] \/ exists k c0, g_get k (g_of g s) = Some c0.
Proof.
  intros SC Hign H. pose proof (sc_inv _ _ _ _ SC) as I. pose proof (sc_en _ _ _ _ SC) as Hn.
  destruct (needs_sync (cfg_std 1) s (gs en s)) eqn:Hns.
  - right. destruct (needs_sync_parts g w e en SC s Hns) as (_ & o & Ho).
    destruct (side_obj g w e en SC s o Ho) as (k & ob & n & -> & Hob & _ & FO & _).
    destruct (opt_dec (g_get k (g_of g s))) as [(c0 & Eg)|Eg]; [eauto|].
    rewrite (mirror_no_sync g w e en SC Hign s k ob Ho Hob FO Eg) in Hns. discriminate.
  - left. unfold sync_side in H. unfold get_e, lift, get_ent in H. rewrite Hn in H. cbn [rbind] in H.
    rewrite (i_cfg _ _ _ I), Hns in H. cbn [negb] in H. crunch H; reflexivity.
Qed.

Lemma sync_entry_calls g w e en w' cs :
  SCtx g w e en -> e_ign en = INone -> notmp w e -> maxchg en <= now (w_st w) ->
  sync_entry w e = ROk (w', cs) -> CallsOk g cs.
Proof.
  intros SC Hign Htmp Hmax H.
  pose proof (sc_en _ _ _ _ SC) as Hn.
  unfold sync_entry in H. unfold get_e, lift, get_ent in H. rewrite Hn in H. cbn [rbind] in H.
  match type of H with (if ?B then _ else _) = _ => destruct B; [discriminate|] end.
  destruct (hash_conflict en); [discriminate|].
  set (first := N.ltb (chgval (s_chg (e_r en))) (chgval (s_chg (e_l en)))) in H.
  destruct (sync_side w e first) as [[[w1 cs1] f1]|c] eqn:E1; [|discriminate]. cbn [rbind] in H.
  destruct (sync_side_pres g w e en first w1 cs1 f1 SC Hign Htmp Hmax E1) as (Hgx1 & Ht1 & Hown1 & Hres1).
  pose proof (CallsOk_side g first cs1 (sync_side_calls _ _ _ _ _ _ E1) (sync_side_owner g w e en first w1 cs1 f1 SC Hign E1)) as C1.
  destruct f1.
  - destruct Hres1 as (en1 & SC1 & Hi1 & Hm1).
    destruct (sync_side w1 e (negb first)) as [[[w2 cs2] f2]|c] eqn:E2; [|discriminate]. cbn [rbind] in H. injection H as <- <-.
    apply CallsOk_app; [exact C1|].
    apply (CallsOk_side g (negb first) cs2 (sync_side_calls _ _ _ _ _ _ E2) (sync_side_owner g w1 e en1 (negb first) w2 cs2 f2 SC1 Hi1 E2)).
  - injection H as <- <-. exact C1.
Qed.

Theorem sync_step_calls g w order w' cs :
  Inv g w -> NoTmp w -> sync_step w order = ROk (w', cs) -> CallsOk g cs.
Proof.
  intros I T H. unfold sync_step in H.
  destruct (cset (w_st w)) as [|c0 cr] eqn:Ecs; [injection H as <- <-; constructor|]. rewrite <- Ecs in H.
  set (ord := norm_order order (cset (w_st w))) in H.
  assert (Hord: Forall (fun e => (2 <= e)%nat) ord).
  { apply Forall_forall. intros x Hx. apply norm_order_mem in Hx.
    destruct (i_roots _ _ _ I) as (e0 & e1 & _ & _ & _ & _ & _ & _ & _ & _ & _ & _ & _ & _ & _ & M0 & M1).
    destruct x as [|[|x]]; [congruence|congruence|lia]. }
  destruct (fill_paths w ord) as [w1|c] eqn:Ef; [|discriminate]. cbn [rbind] in H.
  destruct (fill_paths_pres g ord w w1 I Hord Ef) as (I1 & T1 & P1 & _).
  assert (Htick: tick w1 = (fst (tick w1), now (w_st w1) + 1000)) by reflexivity.
  rewrite Htick in H.
  pose proof (Inv_tick g w1 I1) as I2. set (w2 := fst (tick w1)) in *.
  assert (Hnow2: now (w_st w2) = now (w_st w1) + 1000) by reflexivity.
  assert (T2: NoTmp w2) by (intros x sd0; change (getx w2 x sd0) with (getx w1 x sd0); rewrite T1; apply T).
  destruct (pick (w_st w2) ord (now (w_st w1) + 1000)) as [e|] eqn:Ep; [|injection H as <- <-; constructor].
  assert (He: (2 <= e)%nat) by (apply (proj1 (Forall_forall _ _) Hord); apply (pick_in _ _ _ _ Ep)).
  destruct (pre_sync w2 e) as [[w3 done]|c] eqn:Eps; [|discriminate]. cbn [rbind] in H.
  destruct (nth_error (ents (w_st w2)) e) as [en|] eqn:Hn.
  2:{ unfold pre_sync, get_e, lift, get_ent in Eps. rewrite Hn in Eps. discriminate. }
  assert (Hmax: maxchg en <= now (w_st w2)).
  { assert (Hn1: nth_error (ents (w_st w1)) e = Some en) by exact Hn.
    destruct (i_clke _ _ _ I1 e en Hn1) as (A & _). lia. }
  destruct (pre_sync_pres g w2 e en w3 done I2 He Hn (T2 e) Hmax Eps) as (Hgx3 & Ht3 & P3 & Hres).
  destruct done.
  - injection H as <- <-. constructor.
  - destruct Hres as (en3 & SC3 & Hi3 & Hm3).
    destruct (sync_entry w3 e) as [[w4 cs4]|c] eqn:Ese; [|discriminate]. cbn [rbind] in H. injection H as <- <-.
    apply (sync_entry_calls g w3 e en3 w4 cs4 SC3 Hi3 Ht3 Hm3 Ese).
Qed.

Theorem engine_step_calls g w a w' cs :
  Inv g w -> NoTmp w -> algo_step w a = ROk (w', cs) -> CallsOk g cs.
Proof.
  intros I T H. destruct a as [sd o|sd clk|order clk].
  - simpl in H. injection H as <- <-. constructor.
  - simpl in H. destruct (intake (at_clock w clk) sd) as [w1|c]; [|discriminate]. cbn [rbind] in H. injection H as <- <-. constructor.
  - simpl in H. apply (sync_step_calls g _ order w' cs (Inv_at_clock g w clk I)); [|exact H]. intros x sd0. apply T.
Qed.

(* ------------------------------------------------------------------ echo: the engine's own objects cause no call *)
(* sync() on behalf of a side whose object the engine made itself (a mirror: its events are the echo of the engine's
   own create / upload) issues no provider call *)
Theorem mirror_side_no_calls g w e en s k w' cs fl :
  SCtx g w e en -> e_ign en = INone -> s_oid (gs en s) = Some (ostr_k k) -> g_get k (g_of g s) = None ->
  sync_side w e s = ROk (w', cs, fl) -> cs = [].
Proof.
  intros SC Hign Ho Hg H. pose proof (sc_inv _ _ _ _ SC) as I. pose proof (sc_en _ _ _ _ SC) as Hn.
  destruct (side_obj g w e en SC s _ Ho) as (k1 & ob & n & Hk1 & Hob & _ & FO & _). apply ostr_k_inj in Hk1. subst k1.
  pose proof (mirror_no_sync g w e en SC Hign s k ob Ho Hob FO Hg) as Hns.
  unfold sync_side in H. unfold get_e, lift, get_ent in H. rewrite Hn in H. cbn [rbind] in H.
  rewrite (i_cfg _ _ _ I), Hns in H. cbn [negb] in H. crunch H; reflexivity.
Qed.
