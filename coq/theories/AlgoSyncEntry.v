(* AlgoSyncEntry.v — SyncManager.sync on one entry (fragment F1): every branch the model takes keeps the
   invariant. *)
From Coq Require Import NArith List Bool Arith Lia.
From CS Require Import Sx Str PathModel PathLaws StateModel StateProofs ProvModel ProvProofs
     AlgoModel AlgoCheck AlgoState AlgoProv AlgoPath AlgoInv AlgoIntake AlgoSync AlgoLatest AlgoFinish.
Import ListNotations.
Local Open Scope N_scope.

(* ------------------------------------------------------------------ what the invariant says about one entry *)
Section Facts.
Variables (evl : evlist) (g : ghost) (w : world) (e : nat) (en : StateModel.entry).
Hypothesis EO : EntOk evl g w e en.

Lemma ent_chg_oid sd : tchg (s_chg (gs en sd)) = true -> tstr (s_oid (gs en sd)) = true.
Proof.
  intros Hc. destruct (s_oid (gs en sd)) as [o|] eqn:Eo.
  - destruct (so_full _ _ _ _ _ _ (eo_side _ _ _ _ _ EO sd) o Eo) as (k & ob & -> & _). reflexivity.
  - destruct (so_empty _ _ _ _ _ _ (eo_side _ _ _ _ _ EO sd) Eo) as (X & _). congruence.
Qed.
Lemma ent_force sd : s_force (gs en sd) = false.
Proof. apply (so_nofrc _ _ _ _ _ _ (eo_side _ _ _ _ _ EO sd)). Qed.
Lemma ent_file sd : s_otype (gs en sd) = File.
Proof. apply (so_file _ _ _ _ _ _ (eo_side _ _ _ _ _ EO sd)). Qed.
Lemma ent_not_conflicted : is_conflicted (e_ign en) = false.
Proof. destruct (eo_ign _ _ _ _ _ EO) as [H|H]; rewrite H; reflexivity. Qed.

(* needs_sync without the force flag *)
Lemma needs_sync_eq c sd :
  needs_sync c sd (gs en sd) =
  (tchg (s_chg (gs en sd)) && tstr (s_oid (gs en sd)) &&
   (negb (oN_eqb (s_hash (gs en sd)) (s_shash (gs en sd))) || paths_differ c sd (gs en sd) ||
    match s_ex (gs en sd) with ExTrashed | ExLikely | ExMissing => true | _ => false end))%bool.
Proof. unfold needs_sync. rewrite ent_force. reflexivity. Qed.
End Facts.

Lemma oN_eqb_eq a b : oN_eqb a b = true <-> a = b.
Proof.
  destruct a as [x|], b as [y|]; simpl; split; intros H; try discriminate; try reflexivity.
  - apply N.eqb_eq in H. congruence.
  - injection H as ->. apply N.eqb_refl.
Qed.

(* paths of the fragment never differ from their sync markers once both are known *)
Lemma paths_differ_same sd x q : s_spath x = Some q -> s_path x = Some q -> paths_differ (cfg_std 1) sd x = false.
Proof. intros A B. unfold paths_differ, opaths_match. rewrite A, B, match_refl. reflexivity. Qed.

(* ------------------------------------------------------------------ the context of a sync step on entry e *)
Record SCtx (g : ghost) (w : world) (e : nat) (en : StateModel.entry) : Prop := {
  sc_inv : Inv g w;
  sc_e : (2 <= e)%nat;
  sc_en : nth_error (ents (w_st w)) e = Some en;
  sc_ready : ReadyAll (real_evl w) w e en
}.

(* B1: the side does not need sync and its stamp is cleared *)
Lemma clear_changed_pres g w e en side w1 :
  SCtx g w e en -> needs_sync (cfg_std 1) side (gs en side) = false -> tchg (s_chg (gs en side)) = true ->
  AlgoModel.set_changed w e side (CNum 0) = ROk w1 ->
  SCtx g w1 e (clr en side).
Proof.
  intros [I He Hn Hr] Hns Hc H.
  pose proof (i_ents _ _ _ I e en He Hn) as EO.
  destruct (set_changed_w w (i_cfg _ _ _ I) (i_tape _ _ _ I) e side (CNum 0) en Hn) as (w' & H' & W').
  rewrite H' in H. injection H as <-.
  assert (Hw1: tchg (s_chg (gs en (negb side))) = true -> tstr (s_oid (gs en (negb side))) = true) by (apply (ent_chg_oid (real_evl w) g w e en EO)).
  destruct (chg_entry_clear en side Hw1) as (Hce & Hcp). rewrite Hce, Hcp in W'.
  pose proof W' as (Wcfg & WpL & WpR & Wx & (SA & SB & SC & SD & SJ) & WT).
  assert (Hprov: forall sd0, prov_of w' sd0 = prov_of w sd0) by (intros sd0; apply (weff_prov _ _ _ _ _ sd0 W')).
  assert (Hgx: forall x sd0, getx w' x sd0 = getx w x sd0) by (intros; apply (weff_getx _ _ _ _ _ x sd0 W')).
  assert (Hen1: nth_error (ents (w_st w')) e = Some (clr en side)) by (rewrite SA; eapply nth_list_upd_eq; eauto).
  assert (HI: Inv g w').
  { unfold Inv. apply (InvP_ext (real_evl w)); [intros sd0; unfold real_evl; rewrite Hprov; reflexivity|].
    apply (inv_clear (real_evl w) g w w' e en (clr en side) side I He Hn Hr).
    - (* justification from "does not need sync" *)
      intros k ob cs Ho Hob Hpd Hfr Hd Hg.
      rewrite (needs_sync_eq (real_evl w) g w e en EO) in Hns. rewrite Hc, Ho in Hns. cbn [tstr ostr_k andb] in Hns.
      apply orb_false_elim in Hns as [Hns Hex]. apply orb_false_elim in Hns as [Hh Hpdiff].
      apply negb_false_iff in Hh. apply oN_eqb_eq in Hh.
      destruct (so_full _ _ _ _ _ _ (eo_side _ _ _ _ _ EO side) _ Ho) as (k1 & ob1 & Hk1 & Hob1 & _ & FO).
      apply ostr_k_inj in Hk1. subst k1. assert (ob1 = ob) by congruence. subst ob1.
      assert (Hl: ProvModel.o_exists ob = true).
      { destruct (ProvModel.o_exists ob) eqn:El; [reflexivity|]. unfold freshP in Hfr. rewrite El in Hfr.
        destruct (s_ex (gs en side)); simpl in Hfr, Hex; congruence. }
      split; [|split; [exact Hl|exact Hh]].
      intros Hno. destruct (fo_owner2 _ _ _ _ _ _ _ _ FO Hd cs Hg) as (X & _). destruct (X Hno) as (_ & Xs).
      unfold freshP in Hfr. rewrite Hl in Hfr. destruct Hfr as (_ & Fh & _). congruence.
    - exact Wcfg.
    - exact Hprov.
    - exact Hen1.
    - apply same_but_prio_refl.
    - rewrite SA. apply length_list_upd.
    - intros x xn Hne Hxn. exists xn. split; [rewrite SA, nth_list_upd_neq by congruence; exact Hxn|apply same_but_prio_refl].
    - intros x Hne. rewrite SB. destruct (Nat.eqb_spec x e); [contradiction|reflexivity].
    - rewrite SB, Nat.eqb_refl. reflexivity.
    - exact SC.
    - exact SD.
    - exact WT.
    - exact SJ.
    - intros; apply Hgx.
    - intros; rewrite Hgx; reflexivity. }
  constructor; [exact HI|exact He|exact Hen1|].
  intros sd0 k ob Ho Hob. rewrite oid_clr in Ho. unfold obj_at in Hob. rewrite Hprov in Hob.
  assert (Hp: pd (real_evl w') sd0 k = pd (real_evl w) sd0 k) by (unfold pd, real_evl; rewrite Hprov; reflexivity).
  rewrite Hp. destruct (Hr sd0 k ob Ho Hob) as [X|X]; [left; exact X|right].
  unfold clr. destruct (Bool.bool_dec sd0 side) as [Heq|Hne].
  - subst sd0. rewrite gs_ss_same. exact X.
  - assert (sd0 = negb side) by (destruct sd0, side; try reflexivity; contradiction). subst sd0. rewrite gs_ss_other. exact X.
Qed.

(* finished(side, sync) on an entry whose fields need no further change *)
Lemma finished_pres g w e en side w' :
  SCtx g w e en ->
  (forall k ob cs, s_oid (gs en side) = Some (ostr_k k) -> obj_at w side k = Some ob -> pd (real_evl w) side k = false ->
     freshP (gs en side) ob -> is_discarded (e_ign en) = false -> g_get k (g_of g side) = Some cs ->
     s_oid (gs en (negb side)) <> None /\ ProvModel.o_exists ob = true /\ s_hash (gs en side) = s_shash (gs en side)) ->
  AlgoModel.finished w e side = ROk w' ->
  Inv g w' /\ (forall x sd0, x <> e -> getx w' x sd0 = getx w x sd0) /\ (forall sd0, x_tfile (getx w' e sd0) = None).
Proof.
  intros [I He Hn Hr] Hjust H.
  pose proof (i_ents _ _ _ I e en He Hn) as EO.
  assert (HfL: s_force (e_l en) = false) by apply (ent_force (real_evl w) g w e en EO false).
  assert (HfR: s_force (e_r en) = false) by apply (ent_force (real_evl w) g w e en EO true).
  destruct (finished_w w e side en (i_cfg _ _ _ I) (i_tape _ _ _ I) Hn (i_csb _ _ _ I)
              (ent_chg_oid (real_evl w) g w e en EO (negb side)) HfL HfR)
    as (w2 & en' & H2 & Wcfg & Hprov & Hen' & Ssbp & Hlen & Hoth & Hcs & Hmem & Hnow & Hlast & Htape & HJ & Hx & Hxe).
  rewrite H2 in H. injection H as <-.
  split; [|split; [exact Hx|intros sd0; rewrite Hxe; reflexivity]].
  unfold Inv. apply (InvP_ext (real_evl w)); [intros sd0; unfold real_evl; rewrite Hprov; reflexivity|].
  apply (inv_clear (real_evl w) g w w2 e en en' side I He Hn Hr Hjust Wcfg Hprov Hen' Ssbp Hlen Hoth Hcs Hmem Hnow Hlast Htape HJ Hx).
  intros sd0. rewrite Hxe. reflexivity.
Qed.

(* ------------------------------------------------------------------ a provider call on side t plus changes of entry e *)
Lemma events_from_app p p' ev : ProvModel.p_cursor p' = ProvModel.p_cursor p -> ProvModel.p_log p' = ProvModel.p_log p ++ [ev] ->
  (ProvModel.p_cursor p <= length (ProvModel.p_log p))%nat ->
  ProvModel.events_from p' = ProvModel.events_from p ++ [ev].
Proof.
  intros Hc Hl Hle. unfold ProvModel.events_from. rewrite Hc, Hl, skipn_app.
  replace (ProvModel.p_cursor p - length (ProvModel.p_log p))%nat with 0%nat by lia. reflexivity.
Qed.

Lemma inv_prov_step g w w3 e en3 t kt ob' ev :
  Inv g w -> (2 <= e)%nat ->
  w_cfg w3 = w_cfg w ->
  prov_of w3 (negb t) = prov_of w (negb t) ->
  PWF (prov_of w3 t) ->
  ProvModel.p_cursor (prov_of w3 t) = ProvModel.p_cursor (prov_of w t) ->
  ProvModel.p_log (prov_of w3 t) = ProvModel.p_log (prov_of w t) ++ [ev] ->
  ProvModel.e_oid ev = kid_of kt -> (2 <= kt)%nat ->
  obj_at w3 t kt = Some ob' -> ProvModel.e_otype ev = ProvModel.o_kind ob' ->
  (ProvModel.e_exists ev = false -> ProvModel.o_exists ob' = false) ->
  ProvModel.o_kind ob' = ProvModel.KFile -> (exists n, ProvModel.o_path ob' = [root_name t; n] /\ name_ok n = true) ->
  (forall k, k <> kt -> obj_at w3 t k = obj_at w t k) ->
  (forall ob, obj_at w t kt = Some ob -> ProvModel.o_exists ob = false -> ProvModel.o_exists ob' = false) ->
  (length (ProvModel.p_heap (prov_of w3 t)) <= Nat.max (length (ProvModel.p_heap (prov_of w t))) (S kt))%nat ->
  (forall x xn, x <> e -> nth_error (ents (w_st w)) x = Some xn -> s_oid (gs xn t) <> Some (ostr_k kt)) ->
  (forall cs, g_get kt (g_of g t) = Some cs -> exists r, cs = ProvModel.o_data ob' :: r) ->
  (* state *)
  nth_error (ents (w_st w3)) e = Some en3 ->
  length (ents (w_st w3)) = length (ents (w_st w)) ->
  (forall x xn, x <> e -> nth_error (ents (w_st w)) x = Some xn ->
     exists xn', nth_error (ents (w_st w3)) x = Some xn' /\ same_but_prio xn xn') ->
  (forall x, x <> e -> set_mem x (cset (w_st w3)) = set_mem x (cset (w_st w))) ->
  (flagged en3 = true -> set_mem e (cset (w_st w3)) = true) ->
  now (w_st w) <= now (w_st w3) -> lastch (w_st w3) <= now (w_st w3) ->
  maxchg en3 <= now (w_st w3) -> (forall sd, x_lg (getx w3 e sd) <= now (w_st w3)) ->
  tape (w_st w3) = [] -> IdxJ (w_st w3) ->
  (forall x sd, x <> e -> getx w3 x sd = getx w x sd) ->
  (forall sd o, (exists en, nth_error (ents (w_st w)) e = Some en /\ s_oid (gs en sd) = Some o) -> s_oid (gs en3 sd) = Some o) ->
  s_oid (gs en3 t) = Some (ostr_k kt) ->
  EntOk (real_evl w3) g w3 e en3 ->
  Inv g w3.
Proof.
  intros I He Hcfg Hpo HW Hcur Hlog Hevo Hkt2 Hob' Hevk Hevx Hkf Hpath Hobj Hdead Hlen Huniq Hgd
         Hen3 Hlen3 Hoth Hcs Hcse Hnow Hlast Hmax Hlg Htape Hidx Hx Hoids Hokt HE.
  assert (Hev: ProvModel.events_from (prov_of w3 t) = ProvModel.events_from (prov_of w t) ++ [ev]).
  { apply events_from_app; [exact Hcur|exact Hlog|apply (pw_cursor _ (i_pwf _ _ _ I t))]. }
  assert (Hobjo: forall k, obj_at w3 (negb t) k = obj_at w (negb t) k) by (intros; unfold obj_at; rewrite Hpo; reflexivity).
  assert (Hpdm: forall sd0 k0, pd (real_evl w) sd0 k0 = true -> pd (real_evl w3) sd0 k0 = true).
  { intros sd0 k0 Hp. unfold pd, real_evl in *. destruct (Bool.bool_dec sd0 t) as [Heq|Hne].
    - subst sd0. rewrite Hev, existsb_app, Hp. reflexivity.
    - assert (sd0 = negb t) by (destruct sd0, t; try reflexivity; contradiction). subst sd0. rewrite Hpo. exact Hp. }
  assert (Hpdk: pd (real_evl w3) t kt = true).
  { unfold pd, real_evl. rewrite Hev, existsb_app. cbn [existsb]. unfold ev_for at 2. rewrite Hevo, key_eqb_refl. rewrite orb_true_r. reflexivity. }
  apply (inv_master (real_evl w) (real_evl w3) g g w w3 e en3 I Hcfg).
  - intros sd0. destruct (Bool.bool_dec sd0 t) as [Heq|Hne].
    + subst sd0. split; [exact HW|]. split.
      * destruct (i_shape _ _ _ I t) as [S0 S1 S2]. constructor.
        -- rewrite Hobj by lia. exact S0.
        -- rewrite Hobj by lia. exact S1.
        -- intros k ob Hk Hob. destruct (Nat.eq_dec k kt) as [Heq|Hne]; [subst k; assert (ob = ob') by congruence; subst ob; auto|].
           rewrite Hobj in Hob by exact Hne. apply (S2 k ob Hk Hob).
      * intros ev0 Hin. unfold real_evl in Hin. rewrite Hev in Hin. apply in_app_or in Hin as [Hin|[Hin|[]]].
        -- destruct (i_log _ _ _ I t ev0 Hin) as (k & ob & A & B & C & D & F).
           destruct (Nat.eq_dec k kt) as [Heq|Hne].
           ++ subst k. exists kt, ob'. split; [exact A|]. split; [exact B|]. split; [exact Hob'|].
              destruct (sh_files _ _ (i_shape _ _ _ I t) kt ob B C) as (Hk1 & _). split; [congruence|].
              intros Hx0. apply (Hdead ob C (F Hx0)).
           ++ exists k, ob. rewrite Hobj by exact Hne. auto.
        -- subst ev0. exists kt, ob'. auto.
    + assert (sd0 = negb t) by (destruct sd0, t; try reflexivity; contradiction). subst sd0.
      rewrite Hpo. split; [apply (i_pwf _ _ _ I)|]. split; [apply (ShapeOk_ext w w3 (negb t) Hobjo (i_shape _ _ _ I (negb t)))|].
      apply (LogOk_ext (real_evl w) (real_evl w3) w w3 (negb t) Hobjo); [|apply (i_log _ _ _ I)].
      intros ev0 Hin. unfold real_evl in *. rewrite Hpo in Hin. exact Hin.
  - exact He.
  - exact Hen3.
  - rewrite Hlen3. apply Nat.le_refl.
  - intros x Hx0 Hne. apply nth_error_None. rewrite Hlen3. exact Hx0.
  - exact Hoth.
  - exact Hcs.
  - exact Hcse.
  - exact Hnow.
  - exact Hlast.
  - exact Hmax.
  - exact Hlg.
  - exact Htape.
  - exact Hidx.
  - exact Hx.
  - intros x xn Hne Hx2 Hxn sd0 k0 Hk0. split; [|split; [apply Hpdm|reflexivity]].
    destruct (Bool.bool_dec sd0 t) as [Heq|Hnt].
    + subst sd0. apply Hobj. intros Hk. subst k0. apply (Huniq x xn Hne Hxn Hk0).
    + assert (sd0 = negb t) by (destruct sd0, t; try reflexivity; contradiction). subst sd0. apply Hobjo.
  - intros sd0 k0 Hk0 Hlt.
    destruct (Bool.bool_dec sd0 t) as [Heq|Hnt].
    + subst sd0. destruct (Nat.eq_dec k0 kt) as [Hk|Hk]; [subst k0; right; exact Hpdk|].
      assert (Hlt0: (k0 < length (ProvModel.p_heap (prov_of w t)))%nat).
      { assert (Hs: obj_at w3 t k0 <> None) by (unfold obj_at; apply nth_error_Some; exact Hlt).
        rewrite Hobj in Hs by exact Hk. unfold obj_at in Hs. apply nth_error_Some. exact Hs. }
      destruct (i_cov _ _ _ I t k0 Hk0 Hlt0) as [(x & xn & Hxn & Hox)|Hp]; [left|right; apply Hpdm; exact Hp].
      destruct (Nat.eq_dec x e) as [Hxe|Hxe].
      * subst x. exists e, en3. split; [exact Hen3|]. apply (Hoids t). exists xn. auto.
      * destruct (Hoth x xn Hxe Hxn) as (xn' & Hxn' & S). exists x, xn'. split; [exact Hxn'|]. rewrite <- (sbp_gs _ _ t S). exact Hox.
    + assert (sd0 = negb t) by (destruct sd0, t; try reflexivity; contradiction). subst sd0. rewrite Hpo in Hlt.
      destruct (i_cov _ _ _ I (negb t) k0 Hk0 Hlt) as [(x & xn & Hxn & Hox)|Hp]; [left|right; apply Hpdm; exact Hp].
      destruct (Nat.eq_dec x e) as [Hxe|Hxe].
      * subst x. exists e, en3. split; [exact Hen3|]. apply (Hoids (negb t)). exists xn. auto.
      * destruct (Hoth x xn Hxe Hxn) as (xn' & Hxn' & S). exists x, xn'. split; [exact Hxn'|]. rewrite <- (sbp_gs _ _ (negb t) S). exact Hox.
  - intros sd0 k0 Hk0 Hlt Hg.
    destruct (Bool.bool_dec sd0 t) as [Heq|Hnt].
    + subst sd0. destruct (Nat.eq_dec k0 kt) as [Hk|Hk]; [subst k0; exists e, en3; auto|].
      assert (Hlt0: (k0 < length (ProvModel.p_heap (prov_of w t)))%nat).
      { assert (Hs: obj_at w3 t k0 <> None) by (unfold obj_at; apply nth_error_Some; exact Hlt).
        rewrite Hobj in Hs by exact Hk. unfold obj_at in Hs. apply nth_error_Some. exact Hs. }
      destruct (i_cove _ _ _ I t k0 Hk0 Hlt0 Hg) as (x & xn & Hxn & Hox).
      destruct (Nat.eq_dec x e) as [Hxe|Hxe].
      * subst x. exists e, en3. split; [exact Hen3|]. apply (Hoids t). exists xn. auto.
      * destruct (Hoth x xn Hxe Hxn) as (xn' & Hxn' & S). exists x, xn'. split; [exact Hxn'|]. rewrite <- (sbp_gs _ _ t S). exact Hox.
    + assert (sd0 = negb t) by (destruct sd0, t; try reflexivity; contradiction). subst sd0. rewrite Hpo in Hlt.
      destruct (i_cove _ _ _ I (negb t) k0 Hk0 Hlt Hg) as (x & xn & Hxn & Hox).
      destruct (Nat.eq_dec x e) as [Hxe|Hxe].
      * subst x. exists e, en3. split; [exact Hen3|]. apply (Hoids (negb t)). exists xn. auto.
      * destruct (Hoth x xn Hxe Hxn) as (xn' & Hxn' & S). exists x, xn'. split; [exact Hxn'|]. rewrite <- (sbp_gs _ _ (negb t) S). exact Hox.
  - intros sd0 k0 cs Hg. destruct (i_ghost _ _ _ I sd0 k0 cs Hg) as (Hk0 & ob & r & Hob & Hcs0). split; [exact Hk0|].
    destruct (Bool.bool_dec sd0 t) as [Heq|Hnt].
    + subst sd0. destruct (Nat.eq_dec k0 kt) as [Hk|Hk].
      * subst k0. destruct (Hgd cs Hg) as (r' & Hr'). exists ob', r'. auto.
      * exists ob, r. rewrite Hobj by exact Hk. auto.
    + assert (sd0 = negb t) by (destruct sd0, t; try reflexivity; contradiction). subst sd0. exists ob, r. rewrite Hobjo. auto.
  - exact HE.
Qed.

(* ------------------------------------------------------------------ download_changed *)
Definition set_tname (nm : str * option N) (x : xside) : xside := mkX (x_lg x) (Some nm) None.
Definition set_tfile (d : N) (x : xside) : xside := mkX (x_lg x) (x_tname x) (Some d).

(* the world after the temp-file bookkeeping that precedes the download *)
Definition tname_world (w : world) (e : nat) (sd : bool) (en : StateModel.entry) (p : str) : world :=
  let nm := (p, s_hash (gs en sd)) in
  if match x_tname (getx w e sd) with
     | Some (p', h') => str_eqb p p' && oN_eqb (s_hash (gs en sd)) h' && thash (s_hash (gs en sd))
     | None => false
     end
  then w else setx w e sd (fun y => mkX (x_lg y) (Some nm) None).

Lemma tname_world_facts w e sd en p :
  x_tfile (getx w e sd) = None ->
  let w1 := tname_world w e sd en p in
  w_cfg w1 = w_cfg w /\ w_st w1 = w_st w /\ (forall sd0, prov_of w1 sd0 = prov_of w sd0) /\
  (forall x sd0, x <> e -> getx w1 x sd0 = getx w x sd0) /\ getx w1 e (negb sd) = getx w e (negb sd) /\
  x_lg (getx w1 e sd) = x_lg (getx w e sd) /\ x_tfile (getx w1 e sd) = None.
Proof.
  intros Ht w1. unfold w1, tname_world.
  destruct (match x_tname (getx w e sd) with Some (p', h') => _ | None => false end).
  - repeat split; auto.
  - split; [reflexivity|]. split; [reflexivity|]. split; [intros; apply prov_of_setx|].
    split; [intros; apply getx_setx_other; assumption|]. split; [apply getx_setx_other_side|].
    rewrite getx_setx_same. auto.
Qed.

Lemma download_live w e sd en p k ob :
  w_cfg w = cfg_std 1 -> PWF (prov_of w sd) -> x_tfile (getx w e sd) = None ->
  nth_error (ents (w_st w)) e = Some en -> s_path (gs en sd) = Some p -> s_oid (gs en sd) = Some (ostr_k k) ->
  obj_at w sd k = Some ob -> ProvModel.o_exists ob = true -> ProvModel.o_kind ob = ProvModel.KFile ->
  download_changed w e sd = ROk (setx (tname_world w e sd en p) e sd (set_tfile (ProvModel.o_data ob)), true).
Proof.
  intros Hcfg HW Ht Hn Hp Ho Hob Hl Hkf.
  unfold download_changed, get_e, lift, get_ent. rewrite Hn. cbn [rbind]. rewrite Hp, Ho. cbv zeta.
  fold (tname_world w e sd en p).
  destruct (tname_world_facts w e sd en p Ht) as (A & B & C & D & F & G & H). rewrite H.
  assert (Hk: key_of (tname_world w e sd en p) sd (ostr_k k) = ROk (kid_of k)) by (apply key_of_std; congruence).
  rewrite Hk. cbn [rbind]. rewrite C. unfold obj_at in Hob. rewrite (download_kid _ _ _ HW Hob Hkf), Hl. reflexivity.
Qed.

Lemma download_dead w e sd en p k ob :
  w_cfg w = cfg_std 1 -> tape (w_st w) = [] -> PWF (prov_of w sd) -> x_tfile (getx w e sd) = None ->
  nth_error (ents (w_st w)) e = Some en -> s_path (gs en sd) = Some p -> s_oid (gs en sd) = Some (ostr_k k) ->
  obj_at w sd k = Some ob -> ProvModel.o_exists ob = false -> ProvModel.o_kind ob = ProvModel.KFile ->
  exists w2, download_changed w e sd = ROk (w2, false) /\
             weff (tname_world w e sd en p) w2 e (ss en sd (w_ex (gs en sd) ExMissing)) None.
Proof.
  intros Hcfg Htp HW Ht Hn Hp Ho Hob Hl Hkf.
  unfold download_changed, get_e, lift, get_ent. rewrite Hn. cbn [rbind]. rewrite Hp, Ho. cbv zeta.
  fold (tname_world w e sd en p).
  destruct (tname_world_facts w e sd en p Ht) as (A & B & C & D & F & G & H). rewrite H.
  assert (Hk: key_of (tname_world w e sd en p) sd (ostr_k k) = ROk (kid_of k)) by (apply key_of_std; congruence).
  rewrite Hk. cbn [rbind]. rewrite C. unfold obj_at in Hob. rewrite (download_kid _ _ _ HW Hob Hkf), Hl.
  assert (Ht1: tape (w_st (tname_world w e sd en p)) = []) by (rewrite B; exact Htp).
  assert (Hn1: nth_error (ents (w_st (tname_world w e sd en p))) e = Some en) by (rewrite B; exact Hn).
  destruct (plain_w _ Ht1 e sd (fun y => w_ex y ExMissing) en Hn1) as (w2 & H2 & W2); [intros; split; reflexivity|].
  rewrite H2. cbn [rbind]. exists w2. split; [reflexivity|exact W2].
Qed.

(* ------------------------------------------------------------------ SyncManager.update_entry at world level *)
Lemma upd_entry_create_w w e sd o p h en :
  w_cfg w = cfg_std 1 -> tape (w_st w) = [] -> IdxJ (w_st w) ->
  nth_error (ents (w_st w)) e = Some en -> s_oid (gs en sd) = None -> s_path (gs en sd) = None ->
  al_get o (oids (w_st w) sd) = None -> tstr (Some o) = true -> tstr (Some p) = true -> nps (mk_conv true) p = p ->
  s_otype (gs en sd) <> Dir ->
  let en1 := ss en sd (w_oid (gs en sd) (Some o)) in
  let en2 := prio_entry (env_of (cfg_std 1)) (ss en1 sd (w_path (gs en1 sd) (Some p))) 0 in
  let en3 := hash_upd en2 sd h in
  let en4 := ss en3 sd (w_ex (gs en3 sd) (ev_ex (s_ex (gs en2 sd)) true)) in
  exists w', upd_entry w e sd o (Some p) h = ROk w' /\
    weff w w' e en4 (if tchg (s_chg (gs en sd)) || tchg (s_chg (gs en (negb sd))) then Some true else None).
Proof.
  intros Hcfg Ht HI Hn Ho Hp Ha Hto Htp Hnp Hot en1 en2 en3 en4.
  unfold upd_entry, get_e, lift, get_ent. rewrite Hn. cbn [rbind]. rewrite Ho. cbn [rbind].
  set (s0 := st_tape (w_st w) [TSwap false; TSwap false]).
  destruct env_of_std as (Hleg & Hoip & Hcvs).
  assert (Ha0: al_get o (oids s0 sd) = None) by (destruct sd; exact Ha).
  assert (Hnp0: nps (cvs (env_of (cfg_std 1)) sd) p = p) by (rewrite Hcvs; exact Hnp).
  destruct (upd_entry_create_eff (env_of (cfg_std 1)) Hleg Hoip s0 e sd o p h en false [TSwap false]
              (IdxJ_tape _ _ HI) Hn Ho Hp Ha0 Hto Htp Hnp0 Hot eq_refl) as (s' & H1 & F1 & T1).
  rewrite (E_std w Hcfg).
  destruct (st_op_ok w (fun s => update_entry (env_of (cfg_std 1)) s e sd (Some o) (Some p) h (Some true) false None) s' e _ _ Ht H1 F1) as (H2 & W2).
  eexists. split; [exact H2|exact W2].
Qed.

Lemma upd_entry_same_w w e sd o en :
  w_cfg w = cfg_std 1 -> tape (w_st w) = [] ->
  nth_error (ents (w_st w)) e = Some en -> s_oid (gs en sd) = Some o -> al_get o (oids (w_st w) sd) = Some e ->
  (forall p, s_path (gs en sd) = Some p -> nps (mk_conv true) p = p) ->
  exists w', upd_entry w e sd o (s_path (gs en sd)) None = ROk w' /\
    weff w w' e (ss en sd (w_ex (gs en sd) (ev_ex (s_ex (gs en sd)) true)))
         (if tchg (s_chg (gs en sd)) || tchg (s_chg (gs en (negb sd))) then Some true else None).
Proof.
  intros Hcfg Ht Hn Ho Ha Hnp.
  unfold upd_entry, get_e, lift, get_ent. rewrite Hn. cbn [rbind]. rewrite Ho, (proj2 (str_eqb_eq o o) eq_refl). cbn [rbind].
  set (s0 := st_tape (w_st w) [TSwap false; TSwap false]).
  destruct env_of_std as (Hleg & Hoip & Hcvs).
  assert (Ha0: al_get o (oids s0 sd) = Some e) by (destruct sd; exact Ha).
  assert (Hnp0: forall p, s_path (gs en sd) = Some p -> nps (cvs (env_of (cfg_std 1)) sd) p = p) by (intros; rewrite Hcvs; auto).
  destruct (upd_entry_same_eff (env_of (cfg_std 1)) Hoip s0 e sd o en Hn Ho Ha0 Hnp0) as (s' & H1 & F1 & T1).
  rewrite (E_std w Hcfg).
  destruct (st_op_ok w (fun s => update_entry (env_of (cfg_std 1)) s e sd (Some o) (s_path (gs en sd)) None (Some true) false None) s' e _ _ Ht H1 F1) as (H2 & W2).
  eexists. split; [exact H2|exact W2].
Qed.
