(* AlgoSyncEntry.v — SyncManager.sync on one entry (fragment F1): every branch the model takes keeps the
   invariant. *)
From Coq Require Import NArith List Bool Arith Lia.
From CS Require Import Sx Str PathModel PathLaws StateModel StateProofs ProvModel ProvProofs
     AlgoModel AlgoCheck AlgoState AlgoProv AlgoPath AlgoInv AlgoIntake AlgoSync AlgoLatest AlgoFinish.
Import ListNotations.
Local Open Scope N_scope.

(* ------------------------------------------------------------------ what the invariant says about one entry *)
Section Facts.
Variables (evl : evlist) (g : ghost) (w : world) (e : nat) (en : StateModel.entry).
Hypothesis EO : EntOk evl g w e en.

Lemma ent_chg_oid sd : tchg (s_chg (gs en sd)) = true -> tstr (s_oid (gs en sd)) = true.
Proof.
  intros Hc. destruct (s_oid (gs en sd)) as [o|] eqn:Eo.
  - destruct (so_full _ _ _ _ _ _ (eo_side _ _ _ _ _ EO sd) o Eo) as (k & ob & -> & _). reflexivity.
  - destruct (so_empty _ _ _ _ _ _ (eo_side _ _ _ _ _ EO sd) Eo) as (X & _). congruence.
Qed.
Lemma ent_force sd : s_force (gs en sd) = false.
Proof. apply (so_nofrc _ _ _ _ _ _ (eo_side _ _ _ _ _ EO sd)). Qed.
Lemma ent_file sd : s_otype (gs en sd) = File.
Proof. apply (so_file _ _ _ _ _ _ (eo_side _ _ _ _ _ EO sd)). Qed.
Lemma ent_not_conflicted : is_conflicted (e_ign en) = false.
Proof. destruct (eo_ign _ _ _ _ _ EO) as [H|H]; rewrite H; reflexivity. Qed.

(* needs_sync without the force flag *)
Lemma needs_sync_eq c sd :
  needs_sync c sd (gs en sd) =
  (tchg (s_chg (gs en sd)) && tstr (s_oid (gs en sd)) &&
   (negb (oN_eqb (s_hash (gs en sd)) (s_shash (gs en sd))) || paths_differ c sd (gs en sd) ||
    match s_ex (gs en sd) with ExTrashed | ExLikely | ExMissing => true | _ => false end))%bool.
Proof. unfold needs_sync. rewrite ent_force. reflexivity. Qed.
End Facts.

Lemma oN_eqb_eq a b : oN_eqb a b = true <-> a = b.
Proof.
  destruct a as [x|], b as [y|]; simpl; split; intros H; try discriminate; try reflexivity.
  - apply N.eqb_eq in H. congruence.
  - injection H as ->. apply N.eqb_refl.
Qed.

(* paths of the fragment never differ from their sync markers once both are known *)
Lemma paths_differ_same sd x q : s_spath x = Some q -> s_path x = Some q -> paths_differ (cfg_std 1) sd x = false.
Proof. intros A B. unfold paths_differ, opaths_match. rewrite A, B, match_refl. reflexivity. Qed.

(* ------------------------------------------------------------------ the context of a sync step on entry e *)
Record SCtx (g : ghost) (w : world) (e : nat) (en : StateModel.entry) : Prop := {
  sc_inv : Inv g w;
  sc_e : (2 <= e)%nat;
  sc_en : nth_error (ents (w_st w)) e = Some en;
  sc_ready : ReadyAll (real_evl w) w e en;
  sc_shape : forall sd, s_oid (gs en sd) <> None -> ShapeS (gs en sd)
}.

Lemma Seen_of_shape w e en : (forall sd, s_oid (gs en sd) <> None -> ShapeS (gs en sd)) -> forall sd, Seen w e en sd.
Proof. intros H sd Ho _ _. apply (H sd Ho). Qed.

Lemma other_side' sd s : sd <> s -> sd = negb s.
Proof. destruct sd, s; intros H; try reflexivity; contradiction. Qed.

(* B1: the side does not need sync and its stamp is cleared *)
Lemma clear_changed_pres g w e en side w1 :
  SCtx g w e en -> needs_sync (cfg_std 1) side (gs en side) = false -> tchg (s_chg (gs en side)) = true ->
  AlgoModel.set_changed w e side (CNum 0) = ROk w1 ->
  SCtx g w1 e (clr en side).
Proof.
  intros [I He Hn Hr Hsh] Hns Hc H.
  pose proof (i_ents _ _ _ I e en He Hn) as EO.
  destruct (set_changed_w w (i_cfg _ _ _ I) (i_tape _ _ _ I) e side (CNum 0) en Hn) as (w' & H' & W').
  rewrite H' in H. injection H as <-.
  assert (Hw1: tchg (s_chg (gs en (negb side))) = true -> tstr (s_oid (gs en (negb side))) = true) by (apply (ent_chg_oid (real_evl w) g w e en EO)).
  destruct (chg_entry_clear en side Hw1) as (Hce & Hcp). rewrite Hce, Hcp in W'.
  pose proof W' as (Wcfg & WpL & WpR & Wx & (SA & SB & SC & SD & SJ) & WT).
  assert (Hprov: forall sd0, prov_of w' sd0 = prov_of w sd0) by (intros sd0; apply (weff_prov _ _ _ _ _ sd0 W')).
  assert (Hgx: forall x sd0, getx w' x sd0 = getx w x sd0) by (intros; apply (weff_getx _ _ _ _ _ x sd0 W')).
  assert (Hen1: nth_error (ents (w_st w')) e = Some (clr en side)) by (rewrite SA; eapply nth_list_upd_eq; eauto).
  assert (HI: Inv g w').
  { unfold Inv. apply (InvP_ext (real_evl w)); [intros sd0; unfold real_evl; rewrite Hprov; reflexivity|].
    apply (inv_clear (real_evl w) g w w' e en (clr en side) side I He Hn (fun _ => Hr) (fun _ => Hsh)).
    - (* justification from "does not need sync" *)
      intros k ob cs Ho Hob Hpd Hfr Hd Hg.
      rewrite (needs_sync_eq (real_evl w) g w e en EO) in Hns. rewrite Hc, Ho in Hns. cbn [tstr ostr_k andb] in Hns.
      apply orb_false_elim in Hns as [Hns Hex]. apply orb_false_elim in Hns as [Hh Hpdiff].
      apply negb_false_iff in Hh. apply oN_eqb_eq in Hh.
      destruct (so_full _ _ _ _ _ _ (eo_side _ _ _ _ _ EO side) _ Ho) as (k1 & ob1 & Hk1 & Hob1 & _ & FO).
      apply ostr_k_inj in Hk1. subst k1. assert (ob1 = ob) by congruence. subst ob1.
      assert (Hl: ProvModel.o_exists ob = true).
      { destruct (ProvModel.o_exists ob) eqn:El; [reflexivity|]. unfold freshP in Hfr. rewrite El in Hfr.
        destruct (s_ex (gs en side)); simpl in Hfr, Hex; congruence. }
      split; [|split; [exact Hl|exact Hh]].
      intros Hno. destruct (fo_owner2 _ _ _ _ _ _ _ _ FO Hd cs Hg) as (X & _). destruct (X Hno) as (_ & Xs).
      unfold freshP in Hfr. rewrite Hl in Hfr. destruct Hfr as (_ & Fh & _). congruence.
    - exact Wcfg.
    - exact Hprov.
    - exact Hen1.
    - apply same_but_prio_refl.
    - rewrite SA. apply length_list_upd.
    - intros x xn Hne Hxn. exists xn. split; [rewrite SA, nth_list_upd_neq by congruence; exact Hxn|apply same_but_prio_refl].
    - intros x Hne. rewrite SB. destruct (Nat.eqb_spec x e); [contradiction|reflexivity].
    - rewrite SB, Nat.eqb_refl. reflexivity.
    - exact SC.
    - exact SD.
    - exact WT.
    - exact SJ.
    - intros; apply Hgx.
    - intros; rewrite Hgx; reflexivity. }
  constructor; [exact HI|exact He|exact Hen1| |].
  2:{ intros sd0 Hoid. rewrite oid_clr in Hoid. unfold clr. destruct (Bool.bool_dec sd0 side) as [->|Hne].
      - rewrite gs_ss_same. apply (Hsh side Hoid).
      - rewrite (other_side' _ _ Hne) in *. rewrite gs_ss_other. apply (Hsh _ Hoid). }
  intros sd0 k ob Ho Hob. rewrite oid_clr in Ho. unfold obj_at in Hob. rewrite Hprov in Hob.
  assert (Hp: pd (real_evl w') sd0 k = pd (real_evl w) sd0 k) by (unfold pd, real_evl; rewrite Hprov; reflexivity).
  rewrite Hp. destruct (Hr sd0 k ob Ho Hob) as [X|X]; [left; exact X|right].
  unfold clr. destruct (Bool.bool_dec sd0 side) as [Heq|Hne].
  - subst sd0. rewrite gs_ss_same. exact X.
  - assert (sd0 = negb side) by (destruct sd0, side; try reflexivity; contradiction). subst sd0. rewrite gs_ss_other. exact X.
Qed.

(* finished(side, sync) on an entry whose fields need no further change *)
Lemma finished_pres0 g w e en side w' :
  Inv g w -> (2 <= e)%nat -> nth_error (ents (w_st w)) e = Some en -> (is_discarded (e_ign en) = false -> ReadyAll (real_evl w) w e en) ->
  (is_discarded (e_ign en) = false -> forall sd0, s_oid (gs en sd0) <> None -> ShapeS (gs en sd0)) ->
  (forall k ob cs, s_oid (gs en side) = Some (ostr_k k) -> obj_at w side k = Some ob -> pd (real_evl w) side k = false ->
     freshP (gs en side) ob -> is_discarded (e_ign en) = false -> g_get k (g_of g side) = Some cs ->
     s_oid (gs en (negb side)) <> None /\ ProvModel.o_exists ob = true /\ s_hash (gs en side) = s_shash (gs en side)) ->
  AlgoModel.finished w e side = ROk w' ->
  Inv g w' /\ (forall x sd0, x <> e -> getx w' x sd0 = getx w x sd0) /\ (forall sd0, x_tfile (getx w' e sd0) = None) /\
  (forall sd0, prov_of w' sd0 = prov_of w sd0) /\
  exists en', nth_error (ents (w_st w')) e = Some en' /\ same_but_prio (clr en side) en'.
Proof.
  intros I He Hn Hr Hshp Hjust H.
  pose proof (i_ents _ _ _ I e en He Hn) as EO.
  assert (HfL: s_force (e_l en) = false) by apply (ent_force (real_evl w) g w e en EO false).
  assert (HfR: s_force (e_r en) = false) by apply (ent_force (real_evl w) g w e en EO true).
  destruct (finished_w w e side en (i_cfg _ _ _ I) (i_tape _ _ _ I) Hn (i_csb _ _ _ I)
              (ent_chg_oid (real_evl w) g w e en EO (negb side)) HfL HfR)
    as (w2 & en' & H2 & Wcfg & Hprov & Hen' & Ssbp & Hlen & Hoth & Hcs & Hmem & Hnow & Hlast & Htape & HJ & Hx & Hxe).
  rewrite H2 in H. injection H as <-.
  split; [|split; [exact Hx|split; [intros sd0; rewrite Hxe; reflexivity|split; [exact Hprov|exists en'; split; assumption]]]].
  unfold Inv. apply (InvP_ext (real_evl w)); [intros sd0; unfold real_evl; rewrite Hprov; reflexivity|].
  apply (inv_clear (real_evl w) g w w2 e en en' side I He Hn Hr Hshp Hjust Wcfg Hprov Hen' Ssbp Hlen Hoth Hcs Hmem Hnow Hlast Htape HJ Hx).
  intros sd0. rewrite Hxe. reflexivity.
Qed.

Lemma finished_pres g w e en side w' :
  SCtx g w e en ->
  (forall k ob cs, s_oid (gs en side) = Some (ostr_k k) -> obj_at w side k = Some ob -> pd (real_evl w) side k = false ->
     freshP (gs en side) ob -> is_discarded (e_ign en) = false -> g_get k (g_of g side) = Some cs ->
     s_oid (gs en (negb side)) <> None /\ ProvModel.o_exists ob = true /\ s_hash (gs en side) = s_shash (gs en side)) ->
  AlgoModel.finished w e side = ROk w' ->
  Inv g w' /\ (forall x sd0, x <> e -> getx w' x sd0 = getx w x sd0) /\ (forall sd0, x_tfile (getx w' e sd0) = None).
Proof.
  intros [I He Hn Hr Hsh] Hjust H.
  destruct (finished_pres0 g w e en side w' I He Hn (fun _ => Hr) (fun _ => Hsh) Hjust H) as (A & B & C & _). auto.
Qed.

(* ------------------------------------------------------------------ a provider call on side t plus changes of entry e *)
Lemma events_from_app p p' ev : ProvModel.p_cursor p' = ProvModel.p_cursor p -> ProvModel.p_log p' = ProvModel.p_log p ++ [ev] ->
  (ProvModel.p_cursor p <= length (ProvModel.p_log p))%nat ->
  ProvModel.events_from p' = ProvModel.events_from p ++ [ev].
Proof.
  intros Hc Hl Hle. unfold ProvModel.events_from. rewrite Hc, Hl, skipn_app.
  replace (ProvModel.p_cursor p - length (ProvModel.p_log p))%nat with 0%nat by lia. reflexivity.
Qed.

Lemma inv_prov_step g w w3 e en3 t kt ob' ev :
  Inv g w -> (2 <= e)%nat ->
  w_cfg w3 = w_cfg w ->
  prov_of w3 (negb t) = prov_of w (negb t) ->
  PWF (prov_of w3 t) ->
  ProvModel.p_cursor (prov_of w3 t) = ProvModel.p_cursor (prov_of w t) ->
  ProvModel.p_log (prov_of w3 t) = ProvModel.p_log (prov_of w t) ++ [ev] ->
  ProvModel.e_oid ev = kid_of kt -> (2 <= kt)%nat ->
  obj_at w3 t kt = Some ob' -> ProvModel.e_otype ev = ProvModel.o_kind ob' ->
  (ProvModel.e_exists ev = false -> ProvModel.o_exists ob' = false) ->
  ProvModel.o_kind ob' = ProvModel.KFile -> (exists n, ProvModel.o_path ob' = [root_name t; n] /\ name_ok n = true) ->
  (forall k, k <> kt -> obj_at w3 t k = obj_at w t k) ->
  (forall ob, obj_at w t kt = Some ob -> ProvModel.o_exists ob = false -> ProvModel.o_exists ob' = false) ->
  (length (ProvModel.p_heap (prov_of w3 t)) <= Nat.max (length (ProvModel.p_heap (prov_of w t))) (S kt))%nat ->
  (forall x xn, x <> e -> nth_error (ents (w_st w)) x = Some xn -> s_oid (gs xn t) <> Some (ostr_k kt)) ->
  (forall cs, g_get kt (g_of g t) = Some cs -> exists r, cs = ProvModel.o_data ob' :: r) ->
  (* state *)
  nth_error (ents (w_st w3)) e = Some en3 ->
  length (ents (w_st w3)) = length (ents (w_st w)) ->
  (forall x xn, x <> e -> nth_error (ents (w_st w)) x = Some xn ->
     exists xn', nth_error (ents (w_st w3)) x = Some xn' /\ same_but_prio xn xn') ->
  (forall x, x <> e -> set_mem x (cset (w_st w3)) = set_mem x (cset (w_st w))) ->
  (flagged en3 = true -> set_mem e (cset (w_st w3)) = true) ->
  (set_mem e (cset (w_st w3)) = true -> flagged en3 = true) ->
  now (w_st w) <= now (w_st w3) -> lastch (w_st w3) <= now (w_st w3) ->
  maxchg en3 <= now (w_st w3) + 1 -> (forall sd, x_lg (getx w3 e sd) <= now (w_st w3) + 1) ->
  tape (w_st w3) = [] -> IdxJ (w_st w3) ->
  (forall x sd, x <> e -> getx w3 x sd = getx w x sd) ->
  (forall sd o, (exists en, nth_error (ents (w_st w)) e = Some en /\ s_oid (gs en sd) = Some o) -> s_oid (gs en3 sd) = Some o) ->
  s_oid (gs en3 t) = Some (ostr_k kt) ->
  EntOk (real_evl w3) g w3 e en3 ->
  (forall sd, Seen w3 e en3 sd) ->
  Inv g w3.
Proof.
  intros I He Hcfg Hpo HW Hcur Hlog Hevo Hkt2 Hob' Hevk Hevx Hkf Hpath Hobj Hdead Hlen Huniq Hgd
         Hen3 Hlen3 Hoth Hcs Hcse Hcsx Hnow Hlast Hmax Hlg Htape Hidx Hx Hoids Hokt HE Hseen.
  assert (Hev: ProvModel.events_from (prov_of w3 t) = ProvModel.events_from (prov_of w t) ++ [ev]).
  { apply events_from_app; [exact Hcur|exact Hlog|apply (pw_cursor _ (i_pwf _ _ _ I t))]. }
  assert (Hobjo: forall k, obj_at w3 (negb t) k = obj_at w (negb t) k) by (intros; unfold obj_at; rewrite Hpo; reflexivity).
  assert (Hpdm: forall sd0 k0, pd (real_evl w) sd0 k0 = true -> pd (real_evl w3) sd0 k0 = true).
  { intros sd0 k0 Hp. unfold pd, real_evl in *. destruct (Bool.bool_dec sd0 t) as [Heq|Hne].
    - subst sd0. rewrite Hev, existsb_app, Hp. reflexivity.
    - assert (sd0 = negb t) by (destruct sd0, t; try reflexivity; contradiction). subst sd0. rewrite Hpo. exact Hp. }
  assert (Hpdk: pd (real_evl w3) t kt = true).
  { unfold pd, real_evl. rewrite Hev, existsb_app. cbn [existsb]. unfold ev_for at 2. rewrite Hevo, key_eqb_refl. rewrite orb_true_r. reflexivity. }
  apply (inv_master (real_evl w) (real_evl w3) g g w w3 e en3 I Hcfg).
  - intros sd0. destruct (Bool.bool_dec sd0 t) as [Heq|Hne].
    + subst sd0. split; [exact HW|]. split.
      * destruct (i_shape _ _ _ I t) as [S0 S1 S2]. constructor.
        -- rewrite Hobj by lia. exact S0.
        -- rewrite Hobj by lia. exact S1.
        -- intros k ob Hk Hob. destruct (Nat.eq_dec k kt) as [Heq|Hne]; [subst k; assert (ob = ob') by congruence; subst ob; auto|].
           rewrite Hobj in Hob by exact Hne. apply (S2 k ob Hk Hob).
      * intros ev0 Hin. unfold real_evl in Hin. rewrite Hev in Hin. apply in_app_or in Hin as [Hin|[Hin|[]]].
        -- destruct (i_log _ _ _ I t ev0 Hin) as (k & ob & A & B & C & D & F).
           destruct (Nat.eq_dec k kt) as [Heq|Hne].
           ++ subst k. exists kt, ob'. split; [exact A|]. split; [exact B|]. split; [exact Hob'|].
              destruct (sh_files _ _ (i_shape _ _ _ I t) kt ob B C) as (Hk1 & _). split; [congruence|].
              intros Hx0. apply (Hdead ob C (F Hx0)).
           ++ exists k, ob. rewrite Hobj by exact Hne. auto.
        -- subst ev0. exists kt, ob'. auto.
    + assert (sd0 = negb t) by (destruct sd0, t; try reflexivity; contradiction). subst sd0.
      rewrite Hpo. split; [apply (i_pwf _ _ _ I)|]. split; [apply (ShapeOk_ext w w3 (negb t) Hobjo (i_shape _ _ _ I (negb t)))|].
      apply (LogOk_ext (real_evl w) (real_evl w3) w w3 (negb t) Hobjo); [|apply (i_log _ _ _ I)].
      intros ev0 Hin. unfold real_evl in *. rewrite Hpo in Hin. exact Hin.
  - exact He.
  - exact Hen3.
  - rewrite Hlen3. apply Nat.le_refl.
  - intros x Hx0 Hne. apply nth_error_None. rewrite Hlen3. exact Hx0.
  - exact Hoth.
  - exact Hcs.
  - exact Hcse.
  - exact Hcsx.
  - exact Hnow.
  - exact Hlast.
  - exact Hmax.
  - exact Hlg.
  - exact Htape.
  - exact Hidx.
  - exact Hx.
  - intros x xn Hne Hx2 Hxn sd0 k0 Hk0. split; [|split; [apply Hpdm|reflexivity]].
    destruct (Bool.bool_dec sd0 t) as [Heq|Hnt].
    + subst sd0. apply Hobj. intros Hk. subst k0. apply (Huniq x xn Hne Hxn Hk0).
    + assert (sd0 = negb t) by (destruct sd0, t; try reflexivity; contradiction). subst sd0. apply Hobjo.
  - intros sd0 k0 Hk0 Hlt.
    destruct (Bool.bool_dec sd0 t) as [Heq|Hnt].
    + subst sd0. destruct (Nat.eq_dec k0 kt) as [Hk|Hk]; [subst k0; right; exact Hpdk|].
      assert (Hlt0: (k0 < length (ProvModel.p_heap (prov_of w t)))%nat).
      { assert (Hs: obj_at w3 t k0 <> None) by (unfold obj_at; apply nth_error_Some; exact Hlt).
        rewrite Hobj in Hs by exact Hk. unfold obj_at in Hs. apply nth_error_Some. exact Hs. }
      destruct (i_cov _ _ _ I t k0 Hk0 Hlt0) as [(x & xn & Hxn & Hox)|Hp]; [left|right; apply Hpdm; exact Hp].
      destruct (Nat.eq_dec x e) as [Hxe|Hxe].
      * subst x. exists e, en3. split; [exact Hen3|]. apply (Hoids t). exists xn. auto.
      * destruct (Hoth x xn Hxe Hxn) as (xn' & Hxn' & S). exists x, xn'. split; [exact Hxn'|]. rewrite <- (sbp_gs _ _ t S). exact Hox.
    + assert (sd0 = negb t) by (destruct sd0, t; try reflexivity; contradiction). subst sd0. rewrite Hpo in Hlt.
      destruct (i_cov _ _ _ I (negb t) k0 Hk0 Hlt) as [(x & xn & Hxn & Hox)|Hp]; [left|right; apply Hpdm; exact Hp].
      destruct (Nat.eq_dec x e) as [Hxe|Hxe].
      * subst x. exists e, en3. split; [exact Hen3|]. apply (Hoids (negb t)). exists xn. auto.
      * destruct (Hoth x xn Hxe Hxn) as (xn' & Hxn' & S). exists x, xn'. split; [exact Hxn'|]. rewrite <- (sbp_gs _ _ (negb t) S). exact Hox.
  - intros sd0 k0 Hk0 Hlt Hg.
    destruct (Bool.bool_dec sd0 t) as [Heq|Hnt].
    + subst sd0. destruct (Nat.eq_dec k0 kt) as [Hk|Hk]; [subst k0; exists e, en3; auto|].
      assert (Hlt0: (k0 < length (ProvModel.p_heap (prov_of w t)))%nat).
      { assert (Hs: obj_at w3 t k0 <> None) by (unfold obj_at; apply nth_error_Some; exact Hlt).
        rewrite Hobj in Hs by exact Hk. unfold obj_at in Hs. apply nth_error_Some. exact Hs. }
      destruct (i_cove _ _ _ I t k0 Hk0 Hlt0 Hg) as (x & xn & Hxn & Hox).
      destruct (Nat.eq_dec x e) as [Hxe|Hxe].
      * subst x. exists e, en3. split; [exact Hen3|]. apply (Hoids t). exists xn. auto.
      * destruct (Hoth x xn Hxe Hxn) as (xn' & Hxn' & S). exists x, xn'. split; [exact Hxn'|]. rewrite <- (sbp_gs _ _ t S). exact Hox.
    + assert (sd0 = negb t) by (destruct sd0, t; try reflexivity; contradiction). subst sd0. rewrite Hpo in Hlt.
      destruct (i_cove _ _ _ I (negb t) k0 Hk0 Hlt Hg) as (x & xn & Hxn & Hox).
      destruct (Nat.eq_dec x e) as [Hxe|Hxe].
      * subst x. exists e, en3. split; [exact Hen3|]. apply (Hoids (negb t)). exists xn. auto.
      * destruct (Hoth x xn Hxe Hxn) as (xn' & Hxn' & S). exists x, xn'. split; [exact Hxn'|]. rewrite <- (sbp_gs _ _ (negb t) S). exact Hox.
  - intros sd0 k0 cs Hg. destruct (i_ghost _ _ _ I sd0 k0 cs Hg) as (Hk0 & ob & r & Hob & Hcs0). split; [exact Hk0|].
    destruct (Bool.bool_dec sd0 t) as [Heq|Hnt].
    + subst sd0. destruct (Nat.eq_dec k0 kt) as [Hk|Hk].
      * subst k0. destruct (Hgd cs Hg) as (r' & Hr'). exists ob', r'. auto.
      * exists ob, r. rewrite Hobj by exact Hk. auto.
    + assert (sd0 = negb t) by (destruct sd0, t; try reflexivity; contradiction). subst sd0. exists ob, r. rewrite Hobjo. auto.
  - exact HE.
  - exact Hseen.
Qed.

(* ------------------------------------------------------------------ download_changed *)
Definition set_tname (nm : str * option N) (x : xside) : xside := mkX (x_lg x) (Some nm) None.
Definition set_tfile (d : N) (x : xside) : xside := mkX (x_lg x) (x_tname x) (Some d).

(* the world after the temp-file bookkeeping that precedes the download *)
Definition tname_world (w : world) (e : nat) (sd : bool) (en : StateModel.entry) (p : str) : world :=
  let nm := (p, s_hash (gs en sd)) in
  if match x_tname (getx w e sd) with
     | Some (p', h') => str_eqb p p' && oN_eqb (s_hash (gs en sd)) h' && thash (s_hash (gs en sd))
     | None => false
     end
  then w else setx w e sd (fun y => mkX (x_lg y) (Some nm) None).

Lemma tname_world_facts w e sd en p :
  x_tfile (getx w e sd) = None ->
  let w1 := tname_world w e sd en p in
  w_cfg w1 = w_cfg w /\ w_st w1 = w_st w /\ (forall sd0, prov_of w1 sd0 = prov_of w sd0) /\
  (forall x sd0, x <> e -> getx w1 x sd0 = getx w x sd0) /\ getx w1 e (negb sd) = getx w e (negb sd) /\
  x_lg (getx w1 e sd) = x_lg (getx w e sd) /\ x_tfile (getx w1 e sd) = None.
Proof.
  intros Ht w1. unfold w1, tname_world.
  destruct (match x_tname (getx w e sd) with Some (p', h') => _ | None => false end).
  - repeat split; auto.
  - split; [reflexivity|]. split; [reflexivity|]. split; [intros; apply prov_of_setx|].
    split; [intros; apply getx_setx_other; assumption|]. split; [apply getx_setx_other_side|].
    rewrite getx_setx_same. auto.
Qed.

Lemma download_live w e sd en p k ob :
  w_cfg w = cfg_std 1 -> PWF (prov_of w sd) -> x_tfile (getx w e sd) = None ->
  nth_error (ents (w_st w)) e = Some en -> s_path (gs en sd) = Some p -> s_oid (gs en sd) = Some (ostr_k k) ->
  obj_at w sd k = Some ob -> ProvModel.o_exists ob = true -> ProvModel.o_kind ob = ProvModel.KFile ->
  download_changed w e sd = ROk (setx (tname_world w e sd en p) e sd (set_tfile (ProvModel.o_data ob)), true).
Proof.
  intros Hcfg HW Ht Hn Hp Ho Hob Hl Hkf.
  unfold download_changed, get_e, lift, get_ent. rewrite Hn. cbn [rbind]. rewrite Hp, Ho. cbv zeta.
  fold (tname_world w e sd en p).
  destruct (tname_world_facts w e sd en p Ht) as (A & B & C & D & F & G & H). rewrite H.
  assert (Hk: key_of (tname_world w e sd en p) sd (ostr_k k) = ROk (kid_of k)) by (apply key_of_std; congruence).
  rewrite Hk. cbn [rbind]. rewrite C. unfold obj_at in Hob. rewrite (download_kid _ _ _ HW Hob Hkf), Hl. reflexivity.
Qed.

Lemma download_dead w e sd en p k ob :
  w_cfg w = cfg_std 1 -> tape (w_st w) = [] -> PWF (prov_of w sd) -> x_tfile (getx w e sd) = None ->
  nth_error (ents (w_st w)) e = Some en -> s_path (gs en sd) = Some p -> s_oid (gs en sd) = Some (ostr_k k) ->
  obj_at w sd k = Some ob -> ProvModel.o_exists ob = false -> ProvModel.o_kind ob = ProvModel.KFile ->
  exists w2, download_changed w e sd = ROk (w2, false) /\
             weff (tname_world w e sd en p) w2 e (ss en sd (w_ex (gs en sd) ExMissing)) None.
Proof.
  intros Hcfg Htp HW Ht Hn Hp Ho Hob Hl Hkf.
  unfold download_changed, get_e, lift, get_ent. rewrite Hn. cbn [rbind]. rewrite Hp, Ho. cbv zeta.
  fold (tname_world w e sd en p).
  destruct (tname_world_facts w e sd en p Ht) as (A & B & C & D & F & G & H). rewrite H.
  assert (Hk: key_of (tname_world w e sd en p) sd (ostr_k k) = ROk (kid_of k)) by (apply key_of_std; congruence).
  rewrite Hk. cbn [rbind]. rewrite C. unfold obj_at in Hob. rewrite (download_kid _ _ _ HW Hob Hkf), Hl.
  assert (Ht1: tape (w_st (tname_world w e sd en p)) = []) by (rewrite B; exact Htp).
  assert (Hn1: nth_error (ents (w_st (tname_world w e sd en p))) e = Some en) by (rewrite B; exact Hn).
  destruct (plain_w _ Ht1 e sd (fun y => w_ex y ExMissing) en Hn1) as (w2 & H2 & W2); [intros; split; reflexivity|].
  rewrite H2. cbn [rbind]. exists w2. split; [reflexivity|exact W2].
Qed.

(* ------------------------------------------------------------------ SyncManager.update_entry at world level *)
Lemma upd_entry_create_w w e sd o p h en :
  w_cfg w = cfg_std 1 -> tape (w_st w) = [] -> IdxJ (w_st w) ->
  nth_error (ents (w_st w)) e = Some en -> s_oid (gs en sd) = None -> s_path (gs en sd) = None ->
  al_get o (oids (w_st w) sd) = None -> tstr (Some o) = true -> tstr (Some p) = true -> nps (mk_conv true) p = p ->
  s_otype (gs en sd) <> Dir ->
  let en1 := ss en sd (w_oid (gs en sd) (Some o)) in
  let en2 := prio_entry (env_of (cfg_std 1)) (ss en1 sd (w_path (gs en1 sd) (Some p))) 0 in
  let en3 := hash_upd en2 sd h in
  let en4 := ss en3 sd (w_ex (gs en3 sd) (ev_ex (s_ex (gs en2 sd)) true)) in
  exists w', upd_entry w e sd o (Some p) h = ROk w' /\
    weff w w' e en4 (if tchg (s_chg (gs en sd)) || tchg (s_chg (gs en (negb sd))) then Some true else None).
Proof.
  intros Hcfg Ht HI Hn Ho Hp Ha Hto Htp Hnp Hot en1 en2 en3 en4.
  unfold upd_entry, get_e, lift, get_ent. rewrite Hn. cbn [rbind]. rewrite Ho. cbn [rbind].
  set (s0 := st_tape (w_st w) [TSwap false; TSwap false]).
  destruct env_of_std as (Hleg & Hoip & Hcvs).
  assert (Ha0: al_get o (oids s0 sd) = None) by (destruct sd; exact Ha).
  assert (Hnp0: nps (cvs (env_of (cfg_std 1)) sd) p = p) by (rewrite Hcvs; exact Hnp).
  destruct (upd_entry_create_eff (env_of (cfg_std 1)) Hleg Hoip s0 e sd o p h en false [TSwap false]
              (IdxJ_tape _ _ HI) Hn Ho Hp Ha0 Hto Htp Hnp0 Hot eq_refl) as (s' & H1 & F1 & T1).
  rewrite (E_std w Hcfg).
  destruct (st_op_ok w (fun s => update_entry (env_of (cfg_std 1)) s e sd (Some o) (Some p) h (Some true) false None) s' e _ _ Ht H1 F1) as (H2 & W2).
  eexists. split; [exact H2|exact W2].
Qed.

Lemma upd_entry_same_w w e sd o en :
  w_cfg w = cfg_std 1 -> tape (w_st w) = [] ->
  nth_error (ents (w_st w)) e = Some en -> s_oid (gs en sd) = Some o -> al_get o (oids (w_st w) sd) = Some e ->
  (forall p, s_path (gs en sd) = Some p -> nps (mk_conv true) p = p) ->
  exists w', upd_entry w e sd o (s_path (gs en sd)) None = ROk w' /\
    weff w w' e (ss en sd (w_ex (gs en sd) (ev_ex (s_ex (gs en sd)) true)))
         (if tchg (s_chg (gs en sd)) || tchg (s_chg (gs en (negb sd))) then Some true else None).
Proof.
  intros Hcfg Ht Hn Ho Ha Hnp.
  unfold upd_entry, get_e, lift, get_ent. rewrite Hn. cbn [rbind]. rewrite Ho, (proj2 (str_eqb_eq o o) eq_refl). cbn [rbind].
  set (s0 := st_tape (w_st w) [TSwap false; TSwap false]).
  destruct env_of_std as (Hleg & Hoip & Hcvs).
  assert (Ha0: al_get o (oids s0 sd) = Some e) by (destruct sd; exact Ha).
  assert (Hnp0: forall p, s_path (gs en sd) = Some p -> nps (cvs (env_of (cfg_std 1)) sd) p = p) by (intros; rewrite Hcvs; auto).
  destruct (upd_entry_same_eff (env_of (cfg_std 1)) Hoip s0 e sd o en Hn Ho Ha0 Hnp0) as (s' & H1 & F1 & T1).
  rewrite (E_std w Hcfg).
  destruct (st_op_ok w (fun s => update_entry (env_of (cfg_std 1)) s e sd (Some o) (s_path (gs en sd)) None (Some true) false None) s' e _ _ Ht H1 F1) as (H2 & W2).
  eexists. split; [exact H2|exact W2].
Qed.

(* ------------------------------------------------------------------ field algebra *)
Lemma gs_prio0 E0 en sd : gs (prio_entry E0 en 0) sd = gs en sd.
Proof. unfold prio_entry. destruct (N.eqb (e_prio en) 0); [reflexivity|]. rewrite andb_false_r. destruct en, sd; reflexivity. Qed.
Lemma ign_prio0 E0 en : e_ign (prio_entry E0 en 0) = e_ign en.
Proof. unfold prio_entry. destruct (N.eqb (e_prio en) 0); [reflexivity|]. rewrite andb_false_r. reflexivity. Qed.
Lemma ign_hash_upd en sd h : e_ign (hash_upd en sd h) = e_ign en.
Proof. unfold hash_upd. destruct h; [destruct (oN_eqb _ _); [reflexivity|apply ign_ss]|reflexivity]. Qed.
Lemma gs_hash_upd_other en sd h : gs (hash_upd en sd h) (negb sd) = gs en (negb sd).
Proof. unfold hash_upd. destruct h; [destruct (oN_eqb _ _); [reflexivity|apply gs_ss_other]|reflexivity]. Qed.
Lemma gs_hash_upd_same en sd d : gs (hash_upd en sd (Some d)) sd = w_hash (gs en sd) (Some d).
Proof.
  unfold hash_upd. destruct (oN_eqb (Some d) (s_hash (gs en sd))) eqn:E0; [|apply gs_ss_same].
  apply oN_eqb_eq in E0. destruct (gs en sd); simpl in *; subst; reflexivity.
Qed.
Lemma gs_ss_neq en sd sd0 x : sd0 <> sd -> gs (ss en sd x) sd0 = gs en sd0.
Proof. intros H. destruct en, sd, sd0; try reflexivity; contradiction. Qed.

Lemma oid_lt_heap g w x xn sd k : Inv g w -> nth_error (ents (w_st w)) x = Some xn -> s_oid (gs xn sd) = Some (ostr_k k) ->
  (k < length (ProvModel.p_heap (prov_of w sd)))%nat.
Proof.
  intros I Hxn Hox. destruct (Nat.le_gt_cases 2 k) as [Hk|Hk].
  - pose proof (entry_ge2 _ _ _ _ _ _ _ I Hxn Hox Hk) as Hx2.
    destruct (so_full _ _ _ _ _ _ (eo_side _ _ _ _ _ (i_ents _ _ _ I x xn Hx2 Hxn) sd) _ Hox) as (k1 & ob1 & Hk1 & Hob1 & _).
    apply ostr_k_inj in Hk1. subst k1. apply nth_error_Some. unfold obj_at in Hob1. congruence.
  - destruct (sh_root1 _ _ (i_shape _ _ _ I sd)) as (r1 & Hr1 & _). unfold obj_at in Hr1.
    assert (1 < length (ProvModel.p_heap (prov_of w sd)))%nat by (apply nth_error_Some; congruence). lia.
Qed.

Lemma freshP_markers x h p ob : freshP (w_spath (w_shash x h) p) ob <-> freshP x ob.
Proof. unfold freshP. destruct (ProvModel.o_exists ob); reflexivity. Qed.

(* ------------------------------------------------------------------ create_synced *)
Lemma leaf_two (a n : ProvModel.name) : leaf [a; n] = n. Proof. reflexivity. Qed.

Lemma create_pres g w e en s k ob cs n w3 calls rs :
  SCtx g w e en -> e_ign en = INone ->
  s_oid (gs en s) = Some (ostr_k k) -> obj_at w s k = Some ob -> ProvModel.o_exists ob = true ->
  g_get k (g_of g s) = Some cs -> s_oid (gs en (negb s)) = None ->
  ProvModel.o_path ob = [root_name s; n] -> name_ok n = true ->
  s_path (gs en s) = Some (pstr [root_name s; n]) -> tchg (s_chg (gs en s)) = true ->
  x_tfile (getx w e s) = None ->
  create_synced (setx (tname_world w e s en (pstr [root_name s; n])) e s (set_tfile (ProvModel.o_data ob))) e s
                (pstr [root_name (negb s); n]) = ROk (w3, calls, rs) ->
  rs = Finished /\ exists en3, SCtx g w3 e en3 /\
    s_oid (gs en3 s) = Some (ostr_k k) /\ s_oid (gs en3 (negb s)) <> None /\ s_hash (gs en3 s) = s_shash (gs en3 s) /\
    e_ign en3 = INone /\
    prov_of w3 s = prov_of w s /\
    (forall x sd0, x <> e -> getx w3 x sd0 = getx w x sd0) /\ (forall sd0, x_lg (getx w3 e sd0) = x_lg (getx w e sd0)) /\
    (forall sd0 k0 cs0, g_get k0 (g_of g sd0) = Some cs0 -> obj_at w3 sd0 k0 = obj_at w sd0 k0).
Proof.
  intros [I He Hn Hr Hsh] Hign Ho Hob Hl Hg Hot Hpath Hnok Hsp Hc Htf H.
  set (t := negb s) in *. set (p := [root_name t; n]).
  pose proof (i_cfg _ _ _ I) as Hcfg. pose proof (i_ents _ _ _ I e en He Hn) as EO.
  destruct (tname_world_facts w e s en (pstr [root_name s; n]) Htf) as (TA & TB & TC & TD & TF & TG & TH).
  set (w0 := tname_world w e s en (pstr [root_name s; n])) in *.
  set (w1 := setx w0 e s (set_tfile (ProvModel.o_data ob))) in *.
  assert (H1cfg: w_cfg w1 = cfg_std 1) by (unfold w1; rewrite w_cfg_setx; congruence).
  assert (H1st: w_st w1 = w_st w) by (unfold w1; rewrite w_st_setx; exact TB).
  assert (H1prov: forall sd0, prov_of w1 sd0 = prov_of w sd0) by (intros; unfold w1; rewrite prov_of_setx; apply TC).
  unfold create_synced in H.
  assert (Htd: temp_data w1 e s = ROk (ProvModel.o_data ob)) by (unfold temp_data, w1; rewrite getx_setx_same; reflexivity).
  rewrite Htd in H. cbn [rbind] in H.
  assert (Hsp2: spath (pstr [root_name t; n]) = p).
  { apply spath_pstr. constructor; [apply root_name_ok|]. constructor; [exact Hnok|constructor]. }
  fold t in H. rewrite Hsp2 in H. rewrite (H1prov t) in H.
  pose proof (i_pwf _ _ _ I t) as HWt.
  destruct (ProvModel.create (prov_of w t) p (ProvModel.o_data ob)) as [pv r] eqn:Ecr.
  destruct r as [i|er]; [|destruct er; try discriminate; unfold gate, lvl in H; rewrite H1cfg in H; discriminate].
  destruct (create_inv _ _ _ _ _ HWt Ecr) as (Hi & Hheap & Hlog & Hcur & Hpcfg & HWv).
  set (k' := length (ProvModel.p_heap (prov_of w t))) in *.
  set (o' := new_obj (prov_of w t) p ProvModel.KFile (ProvModel.o_data ob)) in *.
  set (w2 := with_prov w1 t pv) in *.
  assert (H2cfg: w_cfg w2 = cfg_std 1) by (unfold w2, with_prov; destruct t; exact H1cfg).
  assert (H2st: w_st w2 = w_st w) by (unfold w2, with_prov; destruct t; exact H1st).
  assert (H2tape: tape (w_st w2) = []) by (rewrite H2st; apply (i_tape _ _ _ I)).
  assert (H2n: nth_error (ents (w_st w2)) e = Some en) by (rewrite H2st; exact Hn).
  unfold get_e, lift, get_ent in H. rewrite H2n in H. cbn [rbind] in H.
  assert (Hid: ProvModel.i_data i = Some (ProvModel.o_data ob)) by (rewrite Hi; reflexivity).
  assert (Hip: ProvModel.i_path i = p) by (rewrite Hi; reflexivity).
  assert (Hio: ProvModel.i_oid i = kid_of k') by (rewrite Hi; reflexivity).
  rewrite Hid, Hip, Hio in H. rewrite kstr_kid in H.
  (* the four marker writes *)
  destruct (plain_w w2 H2tape e t (fun y => w_shash y (Some (ProvModel.o_data ob))) en H2n) as (wa & Ha & Wa); [intros; split; reflexivity|].
  rewrite Ha in H. cbn [rbind] in H. set (ena := ss en t (w_shash (gs en t) (Some (ProvModel.o_data ob)))) in *.
  pose proof (weff_nth _ _ _ _ _ _ Wa H2n) as Hna. assert (Hta: tape (w_st wa) = []) by (destruct Wa as (_ & _ & _ & _ & _ & T); exact T).
  destruct (plain_w wa Hta e t (fun y => w_spath y (Some (pstr p))) ena Hna) as (wb & Hb & Wb); [intros; split; reflexivity|].
  rewrite Hb in H. cbn [rbind] in H. set (enb := ss ena t (w_spath (gs ena t) (Some (pstr p)))) in *.
  pose proof (weff_nth _ _ _ _ _ _ Wb Hna) as Hnb. assert (Htb: tape (w_st wb) = []) by (destruct Wb as (_ & _ & _ & _ & _ & T); exact T).
  destruct (plain_w wb Htb e s (fun y => w_shash y (s_hash (gs en s))) enb Hnb) as (wc & Hcc & Wc); [intros; split; reflexivity|].
  rewrite Hcc in H. cbn [rbind] in H. set (enc := ss enb s (w_shash (gs enb s) (s_hash (gs en s)))) in *.
  pose proof (weff_nth _ _ _ _ _ _ Wc Hnb) as Hnc. assert (Htc: tape (w_st wc) = []) by (destruct Wc as (_ & _ & _ & _ & _ & T); exact T).
  destruct (plain_w wc Htc e s (fun y => w_spath y (s_path (gs en s))) enc Hnc) as (wd & Hd & Wd); [intros; split; reflexivity|].
  rewrite Hd in H. cbn [rbind] in H. set (end_ := ss enc s (w_spath (gs enc s) (s_path (gs en s)))) in *.
  pose proof (weff_nth _ _ _ _ _ _ Wd Hnc) as Hnd. assert (Htd': tape (w_st wd) = []) by (destruct Wd as (_ & _ & _ & _ & _ & T); exact T).
  pose proof (weff_trans _ _ _ _ _ _ _ _ (weff_trans _ _ _ _ _ _ _ _ (weff_trans _ _ _ _ _ _ _ _ Wa Wb) Wc) Wd) as Wad. cbn [mcomp] in Wad.
  assert (Hdcfg: w_cfg wd = cfg_std 1) by (destruct Wad as (A & _); congruence).
  assert (HdI: IdxJ (w_st wd)) by (destruct Wad as (_ & _ & _ & _ & (_ & _ & _ & _ & J) & _); apply J; rewrite H2st; apply (i_idx _ _ _ I)).
  (* side t of the entry is still empty *)
  assert (Hst: t <> s) by (unfold t; destruct s; discriminate).
  assert (Hgt: gs end_ t = w_spath (w_shash (gs en t) (Some (ProvModel.o_data ob))) (Some (pstr p))).
  { unfold end_, enc, enb, ena. unfold t in *. destruct s; simpl; reflexivity. }
  assert (Hgs: gs end_ s = w_spath (w_shash (gs en s) (s_hash (gs en s))) (s_path (gs en s))).
  { unfold end_, enc, enb, ena. unfold t in *. destruct s; simpl; reflexivity. }
  destruct (so_empty _ _ _ _ _ _ (eo_side _ _ _ _ _ EO t) Hot) as (Etc & Etp & Eth & Etsp & Etsh).
  assert (Hfresh: al_get (ostr_k k') (oids (w_st wd) t) = None).
  { destruct (al_get (ostr_k k') (oids (w_st wd) t)) as [x|] eqn:Ea; [|reflexivity]. exfalso.
    destruct (idx_lookup _ _ _ _ HdI Ea) as (xn & Hxn & Hox).
    assert (Hx': exists xn0, nth_error (ents (w_st w)) x = Some xn0 /\ s_oid (gs xn0 t) = Some (ostr_k k')).
    { destruct Wad as (_ & _ & _ & _ & (SA & _) & _). rewrite SA, H2st in Hxn. destruct (Nat.eq_dec x e) as [Hxe|Hxe].
      - subst x. rewrite (nth_list_upd_eq _ _ _ _ Hn) in Hxn. injection Hxn as <-. rewrite Hgt in Hox. cbn [w_spath w_shash s_oid] in Hox. rewrite Hot in Hox. discriminate.
      - rewrite nth_list_upd_neq in Hxn by congruence. eauto. }
    destruct Hx' as (xn0 & Hxn0 & Hox0).
    assert (Hx2: (2 <= x)%nat) by (apply (entry_ge2 _ _ _ _ _ _ _ I Hxn0 Hox0); unfold k'; destruct (sh_root1 _ _ (i_shape _ _ _ I t)) as (r1 & Hr1 & _); unfold obj_at in Hr1;
                                   assert (1 < length (ProvModel.p_heap (prov_of w t)))%nat by (apply nth_error_Some; congruence); lia).
    destruct (so_full _ _ _ _ _ _ (eo_side _ _ _ _ _ (i_ents _ _ _ I x xn0 Hx2 Hxn0) t) _ Hox0) as (k1 & ob1 & Hk1 & Hob1 & _).
    apply ostr_k_inj in Hk1. subst k1. unfold obj_at in Hob1. assert (Hlt: (k' < length (ProvModel.p_heap (prov_of w t)))%nat) by (apply nth_error_Some; congruence). unfold k' in Hlt. lia. }
  assert (Hnpp: nps (mk_conv true) (pstr p) = pstr p).
  { apply nps_pstr. constructor; [apply root_name_ok|]. constructor; [exact Hnok|constructor]. }
  destruct (upd_entry_create_w wd e t (ostr_k k') (pstr p) (Some (ProvModel.o_data ob)) end_ Hdcfg Htd' HdI Hnd)
    as (w4 & H4 & W4).
  { rewrite Hgt. cbn [w_spath w_shash s_oid]. exact Hot. }
  { rewrite Hgt. cbn [w_spath w_shash s_path]. exact Etp. }
  { exact Hfresh. }
  { apply tstr_ostr. }
  { apply tstr_pstr. }
  { exact Hnpp. }
  { rewrite Hgt. cbn [w_spath w_shash s_otype]. rewrite (ent_file (real_evl w) g w e en EO t). discriminate. }
  rewrite H4 in H. cbn [rbind] in H. injection H as <- <- <-. split; [reflexivity|].
  (* the final entry *)
  match type of W4 with weff _ _ _ ?EN _ => set (en3 := EN) in * end.
  pose proof (weff_trans _ _ _ _ _ _ _ _ Wad W4) as W24.
  exists en3.
  set (data := ProvModel.o_data ob) in *.
  assert (Hex_t: s_ex (gs en t) = ExUnknown).
  { apply (so_empty_ex _ _ _ _ _ _ (eo_side _ _ _ _ _ EO t) Hot). rewrite Hign. reflexivity. }
  assert (Hgt0: gs en t = mkSide File None None None None None ExUnknown (s_chg (gs en t)) false).
  { pose proof (ent_file (real_evl w) g w e en EO t) as X1. pose proof (ent_force (real_evl w) g w e en EO t) as X2.
    destruct (gs en t); simpl in *. subst. reflexivity. }
  assert (Hf_t: gs en3 t = mkSide File (Some (ostr_k k')) (Some (pstr p)) (Some data) (Some (pstr p)) (Some data) ExExists (s_chg (gs en t)) false).
  { unfold en3. rewrite gs_ss_same, gs_hash_upd_same, !gs_prio0, !gs_ss_same, Hgt, Hgt0. reflexivity. }
  assert (Hf_s: gs en3 s = w_spath (w_shash (gs en s) (s_hash (gs en s))) (s_path (gs en s))).
  { rewrite <- Hgs. unfold en3. assert (Hs': s = negb t) by (unfold t; destruct s; reflexivity).
    rewrite Hs' at 1. rewrite gs_ss_other, gs_hash_upd_other, gs_prio0, !gs_ss_other, <- Hs'. reflexivity. }
  assert (Hf_i: e_ign en3 = INone).
  { unfold en3. rewrite ign_ss, ign_hash_upd, ign_prio0, !ign_ss. unfold end_, enc, enb, ena. rewrite !ign_ss. exact Hign. }
  assert (Hsh3: forall sd0, s_oid (gs en3 sd0) <> None -> ShapeS (gs en3 sd0)).
  { intros sd0 Hoid. destruct (Bool.bool_dec sd0 s) as [->|Hne].
    - rewrite Hf_s in *. cbn [w_spath w_shash s_oid] in Hoid. apply (Hsh s Hoid).
    - assert (sd0 = t) by (unfold t; destruct sd0, s; try reflexivity; contradiction). subst sd0. rewrite Hf_t. left. split; [reflexivity|discriminate]. }
  assert (H4cfg: w_cfg w4 = w_cfg w) by (destruct W24 as (A & _); rewrite A, H2cfg; symmetry; exact Hcfg).
  assert (H4ps: prov_of w4 s = prov_of w s).
  { rewrite (weff_prov _ _ _ _ _ s W24). assert (X: prov_of w2 s = prov_of w1 s) by (unfold w2, with_prov, t; destruct s; reflexivity).
    rewrite X. apply H1prov. }
  assert (H4pt: prov_of w4 t = pv).
  { rewrite (weff_prov _ _ _ _ _ t W24). unfold w2, with_prov. destruct t; reflexivity. }
  destruct W24 as (_ & _ & _ & W4x & (SA & SB & SC & SD & SJ) & WT). rewrite H2st in SA, SB, SC, SD, SJ.
  assert (H4gx: forall x sd0, getx w4 x sd0 = getx w1 x sd0).
  { intros. unfold getx. rewrite W4x. unfold w2, with_prov. destruct t; reflexivity. }
  assert (Hgx_o: forall x sd0, x <> e -> getx w4 x sd0 = getx w x sd0).
  { intros x sd0 Hne. rewrite H4gx. unfold w1. rewrite getx_setx_other by exact Hne. apply TD. exact Hne. }
  assert (Hlg_e: forall sd0, x_lg (getx w4 e sd0) = x_lg (getx w e sd0)).
  { intros sd0. rewrite H4gx. unfold w1. destruct (Bool.bool_dec sd0 s) as [Heq|Hne].
    - subst sd0. rewrite getx_setx_same. simpl. exact TG.
    - assert (sd0 = negb s) by (destruct sd0, s; try reflexivity; contradiction). subst sd0. rewrite getx_setx_other_side, TF. reflexivity. }
  assert (Hk'2: (2 <= k')%nat).
  { destruct (sh_root1 _ _ (i_shape _ _ _ I t)) as (r1 & Hr1 & _). unfold obj_at in Hr1.
    assert (1 < length (ProvModel.p_heap (prov_of w t)))%nat by (apply nth_error_Some; congruence). unfold k'. lia. }
  assert (Hobt: obj_at w4 t k' = Some o').
  { unfold obj_at. rewrite H4pt, Hheap. unfold k'. rewrite nth_error_app2, Nat.sub_diag by lia. reflexivity. }
  assert (Hobt_o: forall k0, k0 <> k' -> obj_at w4 t k0 = obj_at w t k0).
  { intros k0 Hne. unfold obj_at. rewrite H4pt, Hheap. destruct (Nat.lt_ge_cases k0 k') as [Hlt|Hge].
    - rewrite nth_error_app1 by exact Hlt. reflexivity.
    - assert (Hn1: nth_error (ProvModel.p_heap (prov_of w t) ++ [o']) k0 = None) by (apply nth_error_None; rewrite app_length; simpl; fold k'; lia).
      assert (Hn2: nth_error (ProvModel.p_heap (prov_of w t)) k0 = None) by (apply nth_error_None; fold k'; lia). congruence. }
  assert (Hobs: forall k0, obj_at w4 s k0 = obj_at w s k0) by (intros; unfold obj_at; rewrite H4ps; reflexivity).
  assert (Hgk': g_get k' (g_of g t) = None).
  { destruct (g_get k' (g_of g t)) as [cs'|] eqn:Eg; [|reflexivity]. exfalso.
    destruct (i_ghost _ _ _ I t k' cs' Eg) as (_ & ob2 & r2 & Hob2 & _). unfold obj_at in Hob2.
    assert (k' < length (ProvModel.p_heap (prov_of w t)))%nat by (apply nth_error_Some; congruence). unfold k' in *. lia. }
  assert (Hen4: nth_error (ents (w_st w4)) e = Some en3) by (rewrite SA; eapply nth_list_upd_eq; eauto).
  assert (Hpdt: pd (real_evl w4) t k' = true).
  { unfold pd, real_evl. rewrite H4pt. rewrite (events_from_app _ _ _ Hcur Hlog (pw_cursor _ HWt)), existsb_app. cbn [existsb].
    unfold ev_for at 2. cbn [create_ev snapshot ProvModel.e_oid]. unfold o' at 1. cbn [new_obj ProvModel.o_oid]. fold k'. rewrite key_eqb_refl, orb_true_r. reflexivity. }
  assert (Hpds: forall k0, pd (real_evl w4) s k0 = pd (real_evl w) s k0) by (intros; unfold pd, real_evl; rewrite H4ps; reflexivity).
  destruct (so_full _ _ _ _ _ _ (eo_side _ _ _ _ _ EO s) _ Ho) as (k1 & ob1 & Hk1 & Hob1 & Hk2 & FO).
  apply ostr_k_inj in Hk1. subst k1. assert (ob1 = ob) by congruence. subst ob1.
  destruct FO as [f1 f2 f3 f4 f5 f6 f7 f8 f10 f9].
  assert (Hndisc: is_discarded (e_ign en) = false) by (rewrite Hign; reflexivity).
  destruct (f8 Hndisc cs Hg) as (P1 & P2 & P3 & P4 & P5).
  assert (Hhash: s_hash (gs en s) <> None) by (apply P4; rewrite Hsp; discriminate).
  assert (EO3: EntOk (real_evl w4) g w4 e en3).
  { constructor.
    - left. exact Hf_i.
    - destruct s; [right; change (e_r en3) with (gs en3 true)|left; change (e_l en3) with (gs en3 false)]; rewrite Hf_s; cbn [w_spath w_shash s_oid]; rewrite Ho; discriminate.
    - intros sd0. destruct (Bool.bool_dec sd0 s) as [Heq|Hne].
      + subst sd0. constructor; rewrite Hf_s; cbn [w_spath w_shash s_otype s_force s_oid s_chg s_path s_hash s_spath s_shash s_ex].
        * apply (ent_file (real_evl w) g w e en EO s).
        * apply (ent_force (real_evl w) g w e en EO s).
        * rewrite Ho. discriminate.
        * rewrite Ho. discriminate.
        * intros o0 Ho0. rewrite Ho in Ho0. injection Ho0 as <-. exists k, ob. split; [reflexivity|]. split; [rewrite Hobs; exact Hob|]. split; [exact Hk2|].
          assert (Hfl: flagP (real_evl w4) en3 s k) by (left; rewrite Hf_s; cbn [w_spath w_shash s_chg]; exact Hc).
          constructor; rewrite ?Hf_s, ?Hf_i; fold t; rewrite ?Hf_t; cbn [w_spath w_shash s_ex s_path s_spath s_hash s_shash s_oid s_chg].
          -- exact f1.
          -- destruct (Hr s k ob Ho Hob) as [X|X]; [left; rewrite Hpds; exact X|right; right; exact X].
          -- exact f3.
          -- right. rewrite Hsp, Hpath. reflexivity.
          -- intros X; discriminate.
          -- intros _ X; discriminate.
          -- intros; left; exact Hfl.
          -- intros _ cs0 Hcs0. assert (cs0 = cs) by congruence. subst cs0.
             split; [exact P1|]. split; [exact P1|]. split; [exact P3|]. split; [exact P4|].
             intros _. split; [rewrite Hsp; discriminate|]. split; [exact Hhash|]. split; [left; reflexivity|].
             intros k0 Hk0. injection Hk0 as Hk0. apply Nnat.Nat2N.inj in Hk0. subst k0. exact Hgk'.
          -- intros _ cs0 Hcs0. split; [intros X; discriminate|intros _; rewrite Hsp; discriminate].
          -- intros _ X. congruence.
      + assert (sd0 = t) by (unfold t; destruct sd0, s; try reflexivity; contradiction). subst sd0.
        constructor; rewrite Hf_t; cbn [s_otype s_force s_oid s_chg s_path s_hash s_spath s_shash s_ex]; try reflexivity; try discriminate.
        intros o0 Ho0. injection Ho0 as <-. exists k', o'. split; [reflexivity|]. split; [exact Hobt|]. split; [exact Hk'2|].
        assert (Hs': negb t = s) by (unfold t; destruct s; reflexivity).
        constructor; rewrite ?Hf_t, ?Hf_i, ?Hs', ?Hf_s; cbn [w_spath w_shash s_ex s_path s_spath s_hash s_shash s_oid s_chg].
        * intros X; discriminate.
        * left. exact Hpdt.
        * right. reflexivity.
        * right. reflexivity.
        * intros X; discriminate.
        * rewrite Ho. intros _ X; discriminate.
        * intros; left; right; exact Hpdt.
        * intros _ cs0 Hcs0. congruence.
        * intros _ cs0 Hcs0. congruence.
        * intros _ _. repeat (split; [reflexivity|]). exists k, ob. split; [exact Ho|]. split; [rewrite Hobs; exact Hob|].
          split; [rewrite Hpath; reflexivity|congruence]. }
  split.
  { constructor; [|exact He|exact Hen4| |exact Hsh3].
    - apply (inv_prov_step g w w4 e en3 t k' o' (create_ev o') I He H4cfg).
      + assert (Hs': negb t = s) by (unfold t; destruct s; reflexivity). rewrite Hs'. exact H4ps.
      + rewrite H4pt. exact HWv.
      + rewrite H4pt. exact Hcur.
      + rewrite H4pt. exact Hlog.
      + reflexivity.
      + exact Hk'2.
      + exact Hobt.
      + reflexivity.
      + intros X; discriminate.
      + reflexivity.
      + exists n. split; [reflexivity|exact Hnok].
      + exact Hobt_o.
      + intros ob2 Hob2. exfalso. unfold obj_at in Hob2. assert (k' < length (ProvModel.p_heap (prov_of w t)))%nat by (apply nth_error_Some; congruence). unfold k' in *. lia.
      + rewrite H4pt, Hheap, app_length. simpl. fold k'. lia.
      + intros x xn Hne Hxn Hox. pose proof (oid_lt_heap g w x xn t k' I Hxn Hox). unfold k' in *. lia.
      + intros cs0 Hcs0. congruence.
      + exact Hen4.
      + rewrite SA. apply length_list_upd.
      + intros x xn Hne Hxn. exists xn. split; [rewrite SA, nth_list_upd_neq by congruence; exact Hxn|apply same_but_prio_refl].
      + intros x Hne. rewrite SB. cbn [mcomp]. destruct (tchg (s_chg (gs end_ t)) || tchg (s_chg (gs end_ (negb t))))%bool; [|reflexivity].
        destruct (Nat.eqb_spec x e); [contradiction|reflexivity].
      + intros _. rewrite SB. cbn [mcomp].
        assert (Hcc2: (tchg (s_chg (gs end_ t)) || tchg (s_chg (gs end_ (negb t))))%bool = true).
        { assert (Hs': negb t = s) by (unfold t; destruct s; reflexivity). rewrite Hs', Hgs. cbn [w_spath w_shash s_chg]. rewrite Hc. apply orb_true_r. }
        rewrite Hcc2, Nat.eqb_refl. reflexivity.
      + intros _. apply (flagged_side en3 s); rewrite Hf_s; cbn [w_spath w_shash w_hash w_ex s_chg s_oid]; [exact Hc|rewrite Ho; reflexivity].
      + exact SC.
      + rewrite SD. pose proof (i_clk _ _ _ I). lia.
      + destruct (i_clke _ _ _ I e en Hn) as (Hmx & _). unfold maxchg, chgv in *.
        assert (Xs: s_chg (gs en3 s) = s_chg (gs en s)) by (rewrite Hf_s; reflexivity).
        assert (Xt: s_chg (gs en3 t) = s_chg (gs en t)) by (rewrite Hf_t; reflexivity).
        change (e_l en3) with (gs en3 false). change (e_r en3) with (gs en3 true).
        change (e_l en) with (gs en false) in Hmx. change (e_r en) with (gs en true) in Hmx.
        clear - Xs Xt Hmx SC. unfold t in *. destruct s; cbn [negb] in *; rewrite Xs, Xt; lia.
      + intros sd0. rewrite Hlg_e. destruct (i_clke _ _ _ I e en Hn) as (_ & Hlgs). specialize (Hlgs sd0). lia.
      + exact WT.
      + apply SJ. apply (i_idx _ _ _ I).
      + exact Hgx_o.
      + intros sd0 o0 (en0 & Hen0 & Ho0). assert (en0 = en) by congruence. subst en0.
        destruct (Bool.bool_dec sd0 s) as [Heq|Hne]; [subst sd0; rewrite Hf_s; exact Ho0|].
        assert (sd0 = t) by (unfold t; destruct sd0, s; try reflexivity; contradiction). subst sd0. congruence.
      + rewrite Hf_t. reflexivity.
      + exact EO3.
      + apply (Seen_of_shape _ _ _ Hsh3).
    - intros sd0 k0 ob0 Ho0 Hob0. destruct (Bool.bool_dec sd0 s) as [Heq|Hne].
      + subst sd0. rewrite Hf_s in Ho0. cbn [w_spath w_shash s_oid] in Ho0. rewrite Hobs in Hob0.
        rewrite Hpds, Hf_s. destruct (Hr s k0 ob0 Ho0 Hob0) as [X|X]; [left; exact X|right; apply freshP_markers; exact X].
      + assert (sd0 = t) by (unfold t; destruct sd0, s; try reflexivity; contradiction). subst sd0.
        rewrite Hf_t in Ho0. cbn [s_oid] in Ho0. injection Ho0 as Ho0. apply Nnat.Nat2N.inj in Ho0. subst k0. left. exact Hpdt. }
  change (negb s) with t. rewrite Hf_s, Hf_t. cbn [w_spath w_shash s_oid s_hash s_shash].
  split; [exact Ho|]. split; [discriminate|]. split; [reflexivity|]. split; [exact Hf_i|].
  split; [exact H4ps|]. split; [exact Hgx_o|]. split; [exact Hlg_e|].
  intros sd0 k0 cs0 Hg0. destruct (Bool.bool_dec sd0 s) as [Heq|Hne]; [subst sd0; apply Hobs|].
  assert (sd0 = t) by (unfold t; destruct sd0, s; try reflexivity; contradiction). subst sd0.
  apply Hobt_o. intros Hk. subst k0. congruence.
Qed.

(* ------------------------------------------------------------------ upload_synced *)
Lemma obj_at_hset w t pv k0 k' ob'' :
  prov_of w t = pv -> forall heap0, ProvModel.p_heap pv = ProvModel.hset heap0 k' ob'' -> (k' < length heap0)%nat ->
  nth_error (ProvModel.p_heap pv) k0 = if Nat.eqb k0 k' then Some ob'' else nth_error heap0 k0.
Proof.
  intros _ heap0 H Hlt. rewrite H. destruct (Nat.eqb_spec k0 k') as [Heq|Hne].
  - subst k0. apply nth_hset_same. exact Hlt.
  - apply nth_hset_other. exact Hne.
Qed.

Lemma upload_pres g w e en s k ob cs k' ob' n w3 calls up :
  SCtx g w e en -> e_ign en = INone ->
  s_oid (gs en s) = Some (ostr_k k) -> obj_at w s k = Some ob -> ProvModel.o_exists ob = true ->
  g_get k (g_of g s) = Some cs ->
  s_oid (gs en (negb s)) = Some (ostr_k k') -> obj_at w (negb s) k' = Some ob' ->
  ProvModel.o_path ob = [root_name s; n] ->
  s_path (gs en s) = Some (pstr [root_name s; n]) -> tchg (s_chg (gs en s)) = true ->
  x_tfile (getx w e s) = None ->
  upload_synced (setx (tname_world w e s en (pstr [root_name s; n])) e s (set_tfile (ProvModel.o_data ob))) e s = ROk (w3, calls, up) ->
  up = true /\ exists en3, SCtx g w3 e en3 /\
    s_oid (gs en3 s) = Some (ostr_k k) /\ s_oid (gs en3 (negb s)) <> None /\ s_hash (gs en3 s) = s_shash (gs en3 s) /\
    e_ign en3 = INone /\ prov_of w3 s = prov_of w s /\
    (forall x sd0, x <> e -> getx w3 x sd0 = getx w x sd0) /\ (forall sd0, x_lg (getx w3 e sd0) = x_lg (getx w e sd0)) /\
    (forall sd0 k0 cs0, g_get k0 (g_of g sd0) = Some cs0 -> obj_at w3 sd0 k0 = obj_at w sd0 k0).
Proof.
  intros [I He Hn Hr Hsh] Hign Ho Hob Hl Hg Hot Hobt Hpath Hsp Hc Htf H.
  set (t := negb s) in *.
  pose proof (i_cfg _ _ _ I) as Hcfg. pose proof (i_ents _ _ _ I e en He Hn) as EO.
  assert (Hndisc: is_discarded (e_ign en) = false) by (rewrite Hign; reflexivity).
  (* the peer is the engine's object: alive, and what its markers say *)
  destruct (so_full _ _ _ _ _ _ (eo_side _ _ _ _ _ EO s) _ Ho) as (k1 & ob1 & Hk1 & Hob1 & Hk2 & FO).
  apply ostr_k_inj in Hk1. subst k1. assert (ob1 = ob) by congruence. subst ob1.
  destruct (so_full _ _ _ _ _ _ (eo_side _ _ _ _ _ EO t) _ Hot) as (k1 & ob1 & Hk1 & Hob1' & Hk2' & FOt).
  apply ostr_k_inj in Hk1. subst k1. assert (ob1 = ob') by congruence. subst ob1.
  assert (Hot_ne: s_oid (gs en (negb s)) <> None) by (fold t; rewrite Hot; discriminate).
  destruct (fo_owner _ _ _ _ _ _ _ _ FO Hndisc cs Hg) as (P1 & P2 & P3 & P4 & P5).
  destruct (P5 Hot_ne) as (Q1 & Q2 & Q3 & Q4).
  assert (Hgt: g_get k' (g_of g t) = None) by (apply Q4; exact Hot).
  destruct (fo_mirror _ _ _ _ _ _ _ _ FOt Hndisc Hgt) as (M1 & M2 & M3 & M4 & M5 & M6 & (k2 & ob2 & M7 & M8 & M9 & M10)).
  destruct (sh_files _ _ (i_shape _ _ _ I t) k' ob' Hk2' Hobt) as (Hkf' & n' & Hpn' & Hnok').
  destruct (tname_world_facts w e s en (pstr [root_name s; n]) Htf) as (TA & TB & TC & TD & TF & TG & TH).
  set (w0 := tname_world w e s en (pstr [root_name s; n])) in *.
  set (data := ProvModel.o_data ob) in *.
  set (w1 := setx w0 e s (set_tfile data)) in *.
  assert (H1cfg: w_cfg w1 = cfg_std 1) by (unfold w1; rewrite w_cfg_setx; congruence).
  assert (H1st: w_st w1 = w_st w) by (unfold w1; rewrite w_st_setx; exact TB).
  assert (H1prov: forall sd0, prov_of w1 sd0 = prov_of w sd0) by (intros; unfold w1; rewrite prov_of_setx; apply TC).
  unfold upload_synced in H.
  assert (Htd: temp_data w1 e s = ROk data) by (unfold temp_data, w1; rewrite getx_setx_same; reflexivity).
  rewrite Htd in H. cbn [rbind] in H.
  unfold get_e, lift, get_ent in H. rewrite H1st, Hn in H. cbn [rbind] in H. fold t in H. rewrite Hot in H.
  rewrite (key_of_std w1 t k' H1cfg) in H. cbn [rbind] in H. rewrite (H1prov t) in H.
  pose proof (i_pwf _ _ _ I t) as HWt. unfold obj_at in Hobt.
  destruct (upload_spec _ _ _ data HWt Hobt M1 Hkf') as (pv & Eup & Hheap & Hlog & Hcur & Hpcfg & HWv).
  rewrite Eup in H.
  set (ob'' := ProvModel.set_data ob' data) in *.
  set (w2 := with_prov w1 t pv) in *.
  assert (H2cfg: w_cfg w2 = cfg_std 1) by (unfold w2, with_prov; destruct t; exact H1cfg).
  assert (H2st: w_st w2 = w_st w) by (unfold w2, with_prov; destruct t; exact H1st).
  assert (H2tape: tape (w_st w2) = []) by (rewrite H2st; apply (i_tape _ _ _ I)).
  assert (H2n: nth_error (ents (w_st w2)) e = Some en) by (rewrite H2st; exact Hn).
  assert (Hid: ProvModel.i_data (ProvModel.info_of ob'') = Some data) by (unfold ProvModel.info_of, ob''; simpl; rewrite Hkf'; reflexivity).
  rewrite Hid in H.
  destruct (plain_w w2 H2tape e t (fun y => w_hash y (Some data)) en H2n) as (wa & Ha & Wa); [intros; split; reflexivity|].
  rewrite Ha in H. cbn [rbind] in H. set (ena := ss en t (w_hash (gs en t) (Some data))) in *.
  pose proof (weff_nth _ _ _ _ _ _ Wa H2n) as Hna. assert (Hta: tape (w_st wa) = []) by (destruct Wa as (_ & _ & _ & _ & _ & T); exact T).
  destruct (plain_w wa Hta e t (fun y => w_shash y (Some data)) ena Hna) as (wb & Hb & Wb); [intros; split; reflexivity|].
  rewrite Hb in H. cbn [rbind] in H. set (enb := ss ena t (w_shash (gs ena t) (Some data))) in *.
  pose proof (weff_nth _ _ _ _ _ _ Wb Hna) as Hnb. assert (Htb: tape (w_st wb) = []) by (destruct Wb as (_ & _ & _ & _ & _ & T); exact T).
  unfold get_e, lift, get_ent in H. rewrite Hnb in H. cbn [rbind] in H.
  assert (Hsp_t: s_spath (gs enb t) = Some (pstr (ProvModel.o_path ob'))) by (unfold enb, ena; rewrite !gs_ss_same; exact M5).
  rewrite Hsp_t in H. rewrite tstr_pstr in H. cbn [rbind] in H.
  assert (Hs_b: gs enb s = gs en s) by (unfold enb, ena; rewrite !gs_ss_neq by (unfold t; destruct s; discriminate); reflexivity).
  rewrite Hs_b in H.
  destruct (plain_w wb Htb e s (fun y => w_shash y (s_hash (gs en s))) enb Hnb) as (wc & Hcc & Wc); [intros; split; reflexivity|].
  rewrite Hcc in H. cbn [rbind] in H. set (enc := ss enb s (w_shash (gs enb s) (s_hash (gs en s)))) in *.
  pose proof (weff_nth _ _ _ _ _ _ Wc Hnb) as Hnc. assert (Htc: tape (w_st wc) = []) by (destruct Wc as (_ & _ & _ & _ & _ & T); exact T).
  destruct (plain_w wc Htc e s (fun y => w_spath y (s_path (gs en s))) enc Hnc) as (wd & Hd & Wd); [intros; split; reflexivity|].
  rewrite Hd in H. cbn [rbind] in H. set (end_ := ss enc s (w_spath (gs enc s) (s_path (gs en s)))) in *.
  pose proof (weff_nth _ _ _ _ _ _ Wd Hnc) as Hnd. assert (Htd': tape (w_st wd) = []) by (destruct Wd as (_ & _ & _ & _ & _ & T); exact T).
  pose proof (weff_trans _ _ _ _ _ _ _ _ (weff_trans _ _ _ _ _ _ _ _ (weff_trans _ _ _ _ _ _ _ _ Wa Wb) Wc) Wd) as Wad. cbn [mcomp] in Wad.
  assert (Hdcfg: w_cfg wd = cfg_std 1) by (destruct Wad as (A & _); congruence).
  assert (HdI: IdxJ (w_st wd)) by (destruct Wad as (_ & _ & _ & _ & (_ & _ & _ & _ & J) & _); apply J; rewrite H2st; apply (i_idx _ _ _ I)).
  unfold get_e, lift, get_ent in H. rewrite Hnd in H. cbn [rbind] in H.
  assert (Hst: t <> s) by (unfold t; destruct s; discriminate).
  assert (Hgt_d: gs end_ t = w_shash (w_hash (gs en t) (Some data)) (Some data)).
  { unfold end_, enc. rewrite !gs_ss_neq by exact Hst. unfold enb, ena. rewrite !gs_ss_same. reflexivity. }
  assert (Hgs_d: gs end_ s = w_spath (w_shash (gs en s) (s_hash (gs en s))) (s_path (gs en s))).
  { unfold end_, enc. rewrite !gs_ss_same, Hs_b. reflexivity. }
  assert (Hio: kstr (ProvModel.i_oid (ProvModel.info_of ob'')) = ostr_k k').
  { unfold ProvModel.info_of, ob''. simpl. rewrite (pw_oid _ HWt _ _ Hobt). reflexivity. }
  rewrite Hio in H.
  assert (Hpath_d: s_spath (gs end_ t) = s_path (gs end_ t)) by (rewrite Hgt_d; cbn [w_shash w_hash s_spath s_path]; congruence).
  rewrite Hpath_d in H.
  assert (Hal: al_get (ostr_k k') (oids (w_st wd) t) = Some e).
  { apply (idx_found_get _ _ _ _ _ HdI Hnd). rewrite Hgt_d. cbn [w_shash w_hash s_oid]. exact Hot. }
  destruct (upd_entry_same_w wd e t (ostr_k k') end_ Hdcfg Htd' Hnd) as (w4 & H4 & W4).
  { rewrite Hgt_d. cbn [w_shash w_hash s_oid]. exact Hot. }
  { exact Hal. }
  { intros q Hq. rewrite Hgt_d in Hq. cbn [w_shash w_hash s_path] in Hq. rewrite M6 in Hq. injection Hq as <-. rewrite Hpn'.
    apply nps_pstr. constructor; [apply root_name_ok|]. constructor; [exact Hnok'|constructor]. }
  rewrite H4 in H. cbn [rbind] in H. injection H as <- <- <-. split; [reflexivity|].
  match type of W4 with weff _ _ _ ?EN _ => set (en3 := EN) in * end.
  pose proof (weff_trans _ _ _ _ _ _ _ _ Wad W4) as W24.
  exists en3.
  assert (Hf_t: gs en3 t = w_ex (w_shash (w_hash (gs en t) (Some data)) (Some data)) ExExists).
  { unfold en3. rewrite gs_ss_same, Hgt_d. cbn [w_shash w_hash s_ex]. rewrite M2. reflexivity. }
  assert (Hf_s: gs en3 s = w_spath (w_shash (gs en s) (s_hash (gs en s))) (s_path (gs en s))).
  { unfold en3. rewrite gs_ss_neq by (intros X; apply Hst; symmetry; exact X). exact Hgs_d. }
  assert (Hf_i: e_ign en3 = INone) by (unfold en3, end_, enc, enb, ena; rewrite !ign_ss; exact Hign).
  assert (Hsh3: forall sd0, s_oid (gs en3 sd0) <> None -> ShapeS (gs en3 sd0)).
  { intros sd0 Hoid. destruct (Bool.bool_dec sd0 s) as [->|Hne].
    - rewrite Hf_s in *. cbn [w_spath w_shash s_oid] in Hoid. apply (Hsh s Hoid).
    - assert (sd0 = t) by (unfold t; destruct sd0, s; try reflexivity; contradiction). subst sd0. rewrite Hf_t. left.
      cbn [w_ex w_shash w_hash s_ex s_path]. split; [reflexivity|rewrite M6; discriminate]. }
  assert (H4cfg: w_cfg w4 = w_cfg w) by (destruct W24 as (A & _); rewrite A, H2cfg; symmetry; exact Hcfg).
  assert (H4ps: prov_of w4 s = prov_of w s).
  { rewrite (weff_prov _ _ _ _ _ s W24). assert (X: prov_of w2 s = prov_of w1 s) by (unfold w2, with_prov, t; destruct s; reflexivity).
    rewrite X. apply H1prov. }
  assert (H4pt: prov_of w4 t = pv).
  { rewrite (weff_prov _ _ _ _ _ t W24). unfold w2, with_prov. destruct t; reflexivity. }
  destruct W24 as (_ & _ & _ & W4x & (SA & SB & SC & SD & SJ) & WT). rewrite H2st in SA, SB, SC, SD, SJ.
  assert (H4gx: forall x sd0, getx w4 x sd0 = getx w1 x sd0).
  { intros. unfold getx. rewrite W4x. unfold w2, with_prov. destruct t; reflexivity. }
  assert (Hgx_o: forall x sd0, x <> e -> getx w4 x sd0 = getx w x sd0).
  { intros x sd0 Hne. rewrite H4gx. unfold w1. rewrite getx_setx_other by exact Hne. apply TD. exact Hne. }
  assert (Hlg_e: forall sd0, x_lg (getx w4 e sd0) = x_lg (getx w e sd0)).
  { intros sd0. rewrite H4gx. unfold w1. destruct (Bool.bool_dec sd0 s) as [Heq|Hne].
    - subst sd0. rewrite getx_setx_same. simpl. exact TG.
    - assert (sd0 = negb s) by (destruct sd0, s; try reflexivity; contradiction). subst sd0. rewrite getx_setx_other_side, TF. reflexivity. }
  assert (Hlt': (k' < length (ProvModel.p_heap (prov_of w t)))%nat) by (apply nth_error_Some; congruence).
  assert (Hobt4: obj_at w4 t k' = Some ob'') by (unfold obj_at; rewrite H4pt, Hheap; apply nth_hset_same; exact Hlt').
  assert (Hobt_o: forall k0, k0 <> k' -> obj_at w4 t k0 = obj_at w t k0).
  { intros k0 Hne. unfold obj_at. rewrite H4pt, Hheap. apply nth_hset_other. exact Hne. }
  assert (Hobs: forall k0, obj_at w4 s k0 = obj_at w s k0) by (intros; unfold obj_at; rewrite H4ps; reflexivity).
  assert (Hen4: nth_error (ents (w_st w4)) e = Some en3) by (rewrite SA; eapply nth_list_upd_eq; eauto).
  set (ev := ProvModel.snapshot ProvModel.EvUpdate ob'' None) in *.
  assert (Hpdt: pd (real_evl w4) t k' = true).
  { unfold pd, real_evl. rewrite H4pt. rewrite (events_from_app _ _ _ Hcur Hlog (pw_cursor _ HWt)), existsb_app. cbn [existsb].
    unfold ev_for at 2. unfold ev. cbn [ProvModel.snapshot ProvModel.e_oid]. unfold ob''. cbn [ProvModel.set_data ProvModel.o_oid].
    rewrite (pw_oid _ HWt _ _ Hobt), key_eqb_refl, orb_true_r. reflexivity. }
  assert (Hpds: forall k0, pd (real_evl w4) s k0 = pd (real_evl w) s k0) by (intros; unfold pd, real_evl; rewrite H4ps; reflexivity).
  destruct FO as [f1 f2 f3 f4 f5 f6 f7 f8 f10 f9].
  assert (Hhash: s_hash (gs en s) <> None) by (apply P4; rewrite Hsp; discriminate).
  assert (Hs'': negb t = s) by (unfold t; destruct s; reflexivity). rewrite Hs'' in M7, M8, M10.
  assert (Hk2eq: k2 = k) by (apply ostr_k_inj; congruence). subst k2.
  assert (ob2 = ob) by congruence. subst ob2.
  assert (EO3: EntOk (real_evl w4) g w4 e en3).
  { constructor.
    - left. exact Hf_i.
    - destruct s; [right; change (e_r en3) with (gs en3 true)|left; change (e_l en3) with (gs en3 false)]; rewrite Hf_s; cbn [w_spath w_shash s_oid]; rewrite Ho; discriminate.
    - intros sd0. destruct (Bool.bool_dec sd0 s) as [Heq|Hne].
      + subst sd0. constructor; rewrite Hf_s; cbn [w_spath w_shash s_otype s_force s_oid s_chg s_path s_hash s_spath s_shash s_ex].
        * apply (ent_file (real_evl w) g w e en EO s).
        * apply (ent_force (real_evl w) g w e en EO s).
        * rewrite Ho. discriminate.
        * rewrite Ho. discriminate.
        * intros o0 Ho0. rewrite Ho in Ho0. injection Ho0 as <-. exists k, ob. split; [reflexivity|]. split; [rewrite Hobs; exact Hob|]. split; [exact Hk2|].
          assert (Hfl: flagP (real_evl w4) en3 s k) by (left; rewrite Hf_s; cbn [w_spath w_shash s_chg]; exact Hc).
          constructor; rewrite ?Hf_s, ?Hf_i; fold t; rewrite ?Hf_t; cbn [w_spath w_shash w_hash w_ex s_ex s_path s_spath s_hash s_shash s_oid s_chg].
          -- exact f1.
          -- destruct (Hr s k ob Ho Hob) as [X|X]; [left; rewrite Hpds; exact X|right; right; exact X].
          -- exact f3.
          -- right. rewrite Hsp, Hpath. reflexivity.
          -- intros X; discriminate.
          -- rewrite Hot. intros _ X; discriminate.
          -- intros; left; exact Hfl.
          -- intros _ cs0 Hcs0. assert (cs0 = cs) by congruence. subst cs0.
             split; [exact P1|]. split; [exact P1|]. split; [exact P3|]. split; [exact P4|].
             intros _. split; [rewrite Hsp; discriminate|]. split; [exact Hhash|]. split; [left; reflexivity|exact Q4].
          -- intros _ cs0 Hcs0. split; [rewrite Hot; intros X; discriminate|intros _; rewrite Hsp; discriminate].
          -- intros _ X. congruence.
      + assert (sd0 = t) by (unfold t; destruct sd0, s; try reflexivity; contradiction). subst sd0.
        constructor; rewrite Hf_t; cbn [w_ex w_shash w_hash s_otype s_force s_oid s_chg s_path s_hash s_spath s_shash s_ex].
        * apply (ent_file (real_evl w) g w e en EO t).
        * apply (ent_force (real_evl w) g w e en EO t).
        * rewrite Hot. discriminate.
        * rewrite Hot. discriminate.
        * intros o0 Ho0. rewrite Hot in Ho0. injection Ho0 as <-. exists k', ob''. split; [reflexivity|]. split; [exact Hobt4|]. split; [exact Hk2'|].
          assert (Hs': negb t = s) by (unfold t; destruct s; reflexivity).
          destruct FOt as [g1 g2 g3 g4 g5 g6 g7 g8 g10 g9].
          constructor; rewrite ?Hf_t, ?Hf_i, ?Hs', ?Hf_s; cbn [w_spath w_shash w_hash w_ex s_ex s_path s_spath s_hash s_shash s_oid s_chg].
          -- intros X; discriminate.
          -- left. exact Hpdt.
          -- exact g3.
          -- exact g4.
          -- intros X; discriminate.
          -- rewrite Ho. intros _ X; discriminate.
          -- intros; left; right; exact Hpdt.
          -- intros _ cs0 Hcs0. congruence.
          -- intros _ cs0 Hcs0. congruence.
          -- intros _ _. split; [exact M1|]. split; [reflexivity|]. split; [reflexivity|]. split; [reflexivity|]. split; [exact M5|]. split; [exact M6|].
             exists k, ob. split; [exact Ho|]. split; [rewrite Hobs; exact Hob|]. split; [exact M9|exact M10]. }
  split.
  { constructor; [|exact He|exact Hen4| |exact Hsh3].
    - apply (inv_prov_step g w w4 e en3 t k' ob'' ev I He H4cfg).
      + assert (Hs': negb t = s) by (unfold t; destruct s; reflexivity). rewrite Hs'. exact H4ps.
      + rewrite H4pt. exact HWv.
      + rewrite H4pt. exact Hcur.
      + rewrite H4pt. exact Hlog.
      + unfold ev, ob''. cbn [ProvModel.snapshot ProvModel.e_oid ProvModel.set_data ProvModel.o_oid]. apply (pw_oid _ HWt _ _ Hobt).
      + exact Hk2'.
      + exact Hobt4.
      + reflexivity.
      + unfold ev, ob''. cbn [ProvModel.snapshot ProvModel.e_exists ProvModel.set_data ProvModel.o_exists]. rewrite M1. intros X; discriminate.
      + exact Hkf'.
      + exists n'. split; [exact Hpn'|exact Hnok'].
      + exact Hobt_o.
      + intros ob0 Hob0 Hd0. unfold obj_at in Hob0. assert (ob0 = ob') by congruence. subst ob0. congruence.
      + rewrite H4pt, Hheap, hset_length. lia.
      + intros x xn Hne Hxn Hox. apply Hne. apply (idx_unique_ent _ _ _ _ _ _ _ (i_idx _ _ _ I) Hxn Hox Hn Hot).
      + intros cs0 Hcs0. congruence.
      + exact Hen4.
      + rewrite SA. apply length_list_upd.
      + intros x xn Hne Hxn. exists xn. split; [rewrite SA, nth_list_upd_neq by congruence; exact Hxn|apply same_but_prio_refl].
      + intros x Hne. rewrite SB. cbn [mcomp]. destruct (tchg (s_chg (gs end_ t)) || tchg (s_chg (gs end_ (negb t))))%bool; [|reflexivity].
        destruct (Nat.eqb_spec x e); [contradiction|reflexivity].
      + intros _. rewrite SB. cbn [mcomp].
        assert (Hcc2: (tchg (s_chg (gs end_ t)) || tchg (s_chg (gs end_ (negb t))))%bool = true).
        { assert (Hs': negb t = s) by (unfold t; destruct s; reflexivity). rewrite Hs', Hgs_d. cbn [w_spath w_shash s_chg]. rewrite Hc. apply orb_true_r. }
        rewrite Hcc2, Nat.eqb_refl. reflexivity.
      + intros _. apply (flagged_side en3 s); rewrite Hf_s; cbn [w_spath w_shash w_hash w_ex s_chg s_oid]; [exact Hc|rewrite Ho; reflexivity].
      + exact SC.
      + rewrite SD. pose proof (i_clk _ _ _ I). lia.
      + destruct (i_clke _ _ _ I e en Hn) as (Hmx & _). unfold maxchg, chgv in *.
        assert (Xs: s_chg (gs en3 s) = s_chg (gs en s)) by (rewrite Hf_s; reflexivity).
        assert (Xt: s_chg (gs en3 t) = s_chg (gs en t)) by (rewrite Hf_t; reflexivity).
        change (e_l en3) with (gs en3 false). change (e_r en3) with (gs en3 true).
        change (e_l en) with (gs en false) in Hmx. change (e_r en) with (gs en true) in Hmx.
        clear - Xs Xt Hmx SC. unfold t in *. destruct s; cbn [negb] in *; rewrite Xs, Xt; lia.
      + intros sd0. rewrite Hlg_e. destruct (i_clke _ _ _ I e en Hn) as (_ & Hlgs). specialize (Hlgs sd0). lia.
      + exact WT.
      + apply SJ. apply (i_idx _ _ _ I).
      + exact Hgx_o.
      + intros sd0 o0 (en0 & Hen0 & Ho0). assert (en0 = en) by congruence. subst en0.
        destruct (Bool.bool_dec sd0 s) as [Heq|Hne]; [subst sd0; rewrite Hf_s; exact Ho0|].
        assert (sd0 = t) by (unfold t; destruct sd0, s; try reflexivity; contradiction). subst sd0. rewrite Hf_t. exact Ho0.
      + rewrite Hf_t. exact Hot.
      + exact EO3.
      + apply (Seen_of_shape _ _ _ Hsh3).
    - intros sd0 k0 ob0 Ho0 Hob0. destruct (Bool.bool_dec sd0 s) as [Heq|Hne].
      + subst sd0. rewrite Hf_s in Ho0. cbn [w_spath w_shash s_oid] in Ho0. rewrite Hobs in Hob0.
        rewrite Hpds, Hf_s. destruct (Hr s k0 ob0 Ho0 Hob0) as [X|X]; [left; exact X|right; apply freshP_markers; exact X].
      + assert (sd0 = t) by (unfold t; destruct sd0, s; try reflexivity; contradiction). subst sd0.
        rewrite Hf_t in Ho0. cbn [w_ex w_shash w_hash s_oid] in Ho0. rewrite Hot in Ho0. injection Ho0 as Ho0. apply Nnat.Nat2N.inj in Ho0. subst k0. left. exact Hpdt. }
  change (negb s) with t. rewrite Hf_s, Hf_t. cbn [w_spath w_shash w_hash w_ex s_oid s_hash s_shash].
  split; [exact Ho|]. split; [rewrite Hot; discriminate|]. split; [reflexivity|]. split; [exact Hf_i|].
  split; [exact H4ps|]. split; [exact Hgx_o|]. split; [exact Hlg_e|].
  intros sd0 k0 cs0 Hg0. destruct (Bool.bool_dec sd0 s) as [Heq|Hne]; [subst sd0; apply Hobs|].
  assert (sd0 = t) by (unfold t; destruct sd0, s; try reflexivity; contradiction). subst sd0.
  apply Hobt_o. intros Hk. subst k0. congruence.
Qed.

(* ------------------------------------------------------------------ discarded entries *)
Lemma EntOk_disc evl g w e en :
  e_ign en = IDiscarded -> (s_oid (e_l en) <> None \/ s_oid (e_r en) <> None) ->
  (forall sd, s_otype (gs en sd) = File /\ s_force (gs en sd) = false /\
     (s_oid (gs en sd) = None -> tchg (s_chg (gs en sd)) = false /\ s_path (gs en sd) = None /\ s_hash (gs en sd) = None /\
                                 s_spath (gs en sd) = None /\ s_shash (gs en sd) = None) /\
     (forall o, s_oid (gs en sd) = Some o -> exists k ob, o = ostr_k k /\ obj_at w sd k = Some ob /\ (2 <= k)%nat /\
        ProvModel.o_exists ob = false /\
        (pd evl sd k = true \/ x_lg (getx w e sd) < maxchg en \/ freshP (gs en sd) ob) /\
        popt (s_path (gs en sd)) (pstr (ProvModel.o_path ob)) /\ popt (s_spath (gs en sd)) (pstr (ProvModel.o_path ob)))) ->
  EntOk evl g w e en.
Proof.
  intros Hi Hs H. assert (Hd: is_discarded (e_ign en) = true) by (rewrite Hi; reflexivity).
  constructor; [right; exact Hi|exact Hs|]. intros sd. destruct (H sd) as (A & B & C & D).
  constructor; auto.
  - intros _ X. congruence.
  - intros o Ho. destruct (D o Ho) as (k & ob & X1 & X2 & X3 & X4 & X5 & X6 & X7). exists k, ob. repeat (split; [assumption|]).
    constructor; auto; intros X; congruence.
Qed.

(* ------------------------------------------------------------------ delete_synced *)
Lemma ign_entry_disc en : e_ign en = INone ->
  ign_entry en IDiscarded = mkEnt (w_chg (e_l en) CFalse) (w_chg (e_r en) CFalse) IDiscarded (e_prio en) /\
  ign_member en IDiscarded = Some false.
Proof. intros H. unfold ign_entry, ign_member. rewrite H. split; reflexivity. Qed.

Lemma gs_disc2 en i p sd : gs (mkEnt (w_chg (e_l en) CFalse) (w_chg (e_r en) CFalse) i p) sd = w_chg (gs en sd) CFalse.
Proof. destruct sd; reflexivity. Qed.

Lemma delete_pres g w e en s k w3 calls rs :
  SCtx g w e en -> e_ign en = INone -> s_ex (gs en s) = ExTrashed -> s_oid (gs en s) = Some (ostr_k k) ->
  delete_synced w e s = ROk (w3, calls, rs) ->
  rs = Finished /\ exists en3, SCtx g w3 e en3 /\ is_discarded (e_ign en3) = true /\
    (forall x sd0, getx w3 x sd0 = getx w x sd0) /\
    (forall sd0 k0 cs0, g_get k0 (g_of g sd0) = Some cs0 -> obj_at w3 sd0 k0 = obj_at w sd0 k0).
Proof.
  intros [I He Hn Hr Hsh] Hign Hex Ho H.
  set (t := negb s) in *.
  pose proof (i_cfg _ _ _ I) as Hcfg. pose proof (i_tape _ _ _ I) as Htape. pose proof (i_ents _ _ _ I e en He Hn) as EO.
  assert (Hndisc: is_discarded (e_ign en) = false) by (rewrite Hign; reflexivity).
  destruct (so_full _ _ _ _ _ _ (eo_side _ _ _ _ _ EO s) _ Ho) as (k1 & ob & Hk1 & Hob & Hk2 & FO).
  apply ostr_k_inj in Hk1. subst k1.
  assert (Hdead: ProvModel.o_exists ob = false) by (apply (fo_trash _ _ _ _ _ _ _ _ FO Hex)).
  assert (Hgs: exists cs, g_get k (g_of g s) = Some cs).
  { destruct (g_get k (g_of g s)) as [cs|] eqn:Eg; [eauto|]. destruct (fo_mirror _ _ _ _ _ _ _ _ FO Hndisc Eg) as (X & _). congruence. }
  destruct Hgs as (cs & Hg).
  unfold delete_synced in H. unfold get_e, lift, get_ent in H. rewrite Hn in H. cbn [rbind] in H.
  match type of H with context [existsb ?F ?L] => destruct (existsb F L); [discriminate|] end.
  match type of H with context [existsb ?F ?L] => destruct (existsb F L); [discriminate|] end.
  fold t in H.
  destruct (s_oid (gs en t)) as [o'|] eqn:Eot.
  - (* the peer object is deleted *)
    destruct (so_full _ _ _ _ _ _ (eo_side _ _ _ _ _ EO t) _ Eot) as (k' & ob' & Hk1 & Hobt & Hk2' & FOt). subst o'.
    assert (Hot_ne: s_oid (gs en (negb s)) <> None) by (fold t; rewrite Eot; discriminate).
    destruct (fo_owner _ _ _ _ _ _ _ _ FO Hndisc cs Hg) as (P1 & P2 & P3 & P4 & P5).
    destruct (P5 Hot_ne) as (Q1 & Q2 & Q3 & Q4).
    assert (Hgt: g_get k' (g_of g t) = None) by (apply Q4; exact Eot).
    destruct (fo_mirror _ _ _ _ _ _ _ _ FOt Hndisc Hgt) as (M1 & M2 & M3 & M4 & M5 & M6 & _).
    destruct (sh_files _ _ (i_shape _ _ _ I t) k' ob' Hk2' Hobt) as (Hkf' & n' & Hpn' & Hnok').
    rewrite tstr_ostr in H. rewrite (key_of_std w t k' Hcfg) in H. cbn [rbind] in H.
    pose proof (i_pwf _ _ _ I t) as HWt. unfold obj_at in Hobt.
    destruct (delete_spec _ _ _ HWt Hobt M1 Hkf') as (pv & Edel & Hheap & Hlog & Hcur & Hpcfg & HWv).
    rewrite Edel in H.
    set (ob'' := ProvModel.set_exists ob' false) in *.
    set (w2 := with_prov w t pv) in *.
    assert (H2cfg: w_cfg w2 = cfg_std 1) by (unfold w2, with_prov; destruct t; exact Hcfg).
    assert (H2st: w_st w2 = w_st w) by (unfold w2, with_prov; destruct t; reflexivity).
    assert (H2tape: tape (w_st w2) = []) by (rewrite H2st; exact Htape).
    assert (H2n: nth_error (ents (w_st w2)) e = Some en) by (rewrite H2st; exact Hn).
    destruct (plain_w w2 H2tape e s (fun y => w_spath y None) en H2n) as (wa & Ha & Wa); [intros; split; reflexivity|].
    rewrite Ha in H. cbn [rbind] in H. set (ena := ss en s (w_spath (gs en s) None)) in *.
    pose proof (weff_nth _ _ _ _ _ _ Wa H2n) as Hna. assert (Hta: tape (w_st wa) = []) by (destruct Wa as (_ & _ & _ & _ & _ & T); exact T).
    destruct (plain_w wa Hta e t (fun y => w_ex y ExTrashed) ena Hna) as (wb & Hb & Wb); [intros; split; reflexivity|].
    rewrite Hb in H. cbn [rbind] in H. set (enb := ss ena t (w_ex (gs ena t) ExTrashed)) in *.
    pose proof (weff_nth _ _ _ _ _ _ Wb Hna) as Hnb. assert (Htb: tape (w_st wb) = []) by (destruct Wb as (_ & _ & _ & _ & _ & T); exact T).
    unfold get_e, lift, get_ent in H. rewrite Hnb in H. cbn [rbind] in H.
    assert (Hign_b: e_ign enb = INone) by (unfold enb, ena; rewrite !ign_ss; exact Hign).
    rewrite Hign_b in H. cbn [is_conflicted] in H.
    assert (Hbcfg: w_cfg wb = cfg_std 1) by (destruct Wa as (A & _); destruct Wb as (B & _); congruence).
    destruct (set_ignored_w wb Htb e IDiscarded enb Hnb) as (wc & Hc' & Wc).
    rewrite Hc' in H. cbn [rbind] in H. injection H as <- <- <-. split; [reflexivity|].
    destruct (ign_entry_disc enb Hign_b) as (Hie & Him). rewrite Hie, Him in Wc.
    set (en3 := mkEnt (w_chg (e_l enb) CFalse) (w_chg (e_r enb) CFalse) IDiscarded (e_prio enb)) in *.
    pose proof (weff_trans _ _ _ _ _ _ _ _ (weff_trans _ _ _ _ _ _ _ _ Wa Wb) Wc) as W24. cbn [mcomp] in W24.
    exists en3.
    assert (Hst: t <> s) by (unfold t; destruct s; discriminate).
    assert (Hf_s: gs en3 s = w_chg (w_spath (gs en s) None) CFalse).
    { unfold en3. rewrite gs_disc2. unfold enb. rewrite gs_ss_neq by (intros X; apply Hst; symmetry; exact X).
      unfold ena. rewrite gs_ss_same. reflexivity. }
    assert (Hf_t: gs en3 t = w_chg (w_ex (gs en t) ExTrashed) CFalse).
    { unfold en3. rewrite gs_disc2. unfold enb. rewrite gs_ss_same.
      unfold ena. rewrite gs_ss_neq by exact Hst. reflexivity. }
    assert (Hsh3: forall sd0, s_oid (gs en3 sd0) <> None -> ShapeS (gs en3 sd0)).
    { intros sd0 Hoid. right. destruct (Bool.bool_dec sd0 s) as [->|Hne].
      - rewrite Hf_s. cbn [w_chg w_spath s_ex]. rewrite Hex. reflexivity.
      - assert (sd0 = t) by (unfold t; destruct sd0, s; try reflexivity; contradiction). subst sd0. rewrite Hf_t. reflexivity. }
    assert (H4cfg: w_cfg wc = w_cfg w) by (destruct W24 as (A & _); rewrite A, H2cfg; symmetry; exact Hcfg).
    assert (H4ps: prov_of wc s = prov_of w s).
    { rewrite (weff_prov _ _ _ _ _ s W24). unfold w2, with_prov, t. destruct s; reflexivity. }
    assert (H4pt: prov_of wc t = pv) by (rewrite (weff_prov _ _ _ _ _ t W24); unfold w2, with_prov; destruct t; reflexivity).
    assert (Hgx: forall x sd0, getx wc x sd0 = getx w x sd0).
    { intros. rewrite (weff_getx _ _ _ _ _ x sd0 W24). unfold getx, w2, with_prov. destruct t; reflexivity. }
    destruct W24 as (_ & _ & _ & _ & (SA & SB & SC & SD & SJ) & WT). rewrite H2st in SA, SB, SC, SD, SJ.
    assert (Hlt': (k' < length (ProvModel.p_heap (prov_of w t)))%nat) by (apply nth_error_Some; congruence).
    assert (Hobt4: obj_at wc t k' = Some ob'') by (unfold obj_at; rewrite H4pt, Hheap; apply nth_hset_same; exact Hlt').
    assert (Hobt_o: forall k0, k0 <> k' -> obj_at wc t k0 = obj_at w t k0).
    { intros k0 Hne. unfold obj_at. rewrite H4pt, Hheap. apply nth_hset_other. exact Hne. }
    assert (Hobs: forall k0, obj_at wc s k0 = obj_at w s k0) by (intros; unfold obj_at; rewrite H4ps; reflexivity).
    assert (Hen4: nth_error (ents (w_st wc)) e = Some en3) by (rewrite SA; eapply nth_list_upd_eq; eauto).
    set (ev := ProvModel.snapshot ProvModel.EvDelete ob'' None) in *.
    assert (Hpdt: pd (real_evl wc) t k' = true).
    { unfold pd, real_evl. rewrite H4pt. rewrite (events_from_app _ _ _ Hcur Hlog (pw_cursor _ HWt)), existsb_app. cbn [existsb].
      unfold ev_for at 2. unfold ev. cbn [ProvModel.snapshot ProvModel.e_oid]. unfold ob''. cbn [ProvModel.set_exists ProvModel.o_oid].
      rewrite (pw_oid _ HWt _ _ Hobt), key_eqb_refl, orb_true_r. reflexivity. }
    assert (Hpds: forall k0, pd (real_evl wc) s k0 = pd (real_evl w) s k0) by (intros; unfold pd, real_evl; rewrite H4ps; reflexivity).
    assert (Hi3: e_ign en3 = IDiscarded) by reflexivity.
    assert (EO3: EntOk (real_evl wc) g wc e en3).
    { apply EntOk_disc; [exact Hi3| |].
      - destruct s; [right; change (e_r en3) with (gs en3 true)|left; change (e_l en3) with (gs en3 false)]; rewrite Hf_s; cbn [w_chg w_spath s_oid]; rewrite Ho; discriminate.
      - intros sd0. destruct (Bool.bool_dec sd0 s) as [Heq|Hne].
        + subst sd0. rewrite Hf_s. cbn [w_chg w_spath s_otype s_force s_oid s_chg s_path s_hash s_spath s_shash tchg].
          split; [apply (ent_file (real_evl w) g w e en EO s)|]. split; [apply (ent_force (real_evl w) g w e en EO s)|].
          split; [rewrite Ho; discriminate|]. intros o0 Ho0. rewrite Ho in Ho0. injection Ho0 as <-.
          exists k, ob. split; [reflexivity|]. split; [rewrite Hobs; exact Hob|]. split; [exact Hk2|]. split; [exact Hdead|].
          split; [|split; [apply (fo_path _ _ _ _ _ _ _ _ FO)|left; reflexivity]].
          destruct (Hr s k ob Ho Hob) as [X|X]; [left; rewrite Hpds; exact X|right; right; exact X].
        + assert (sd0 = t) by (unfold t; destruct sd0, s; try reflexivity; contradiction). subst sd0.
          rewrite Hf_t. cbn [w_chg w_ex s_otype s_force s_oid s_chg s_path s_hash s_spath s_shash tchg].
          split; [apply (ent_file (real_evl w) g w e en EO t)|]. split; [apply (ent_force (real_evl w) g w e en EO t)|].
          split; [rewrite Eot; discriminate|]. intros o0 Ho0. rewrite Eot in Ho0. injection Ho0 as <-.
          exists k', ob''. split; [reflexivity|]. split; [exact Hobt4|]. split; [exact Hk2'|]. split; [reflexivity|].
          split; [left; exact Hpdt|]. split; [right; exact M6|right; exact M5]. }
    split.
    { constructor; [|exact He|exact Hen4| |exact Hsh3].
      - apply (inv_prov_step g w wc e en3 t k' ob'' ev I He H4cfg).
        + assert (Hs': negb t = s) by (unfold t; destruct s; reflexivity). rewrite Hs'. exact H4ps.
        + rewrite H4pt. exact HWv.
        + rewrite H4pt. exact Hcur.
        + rewrite H4pt. exact Hlog.
        + unfold ev, ob''. cbn [ProvModel.snapshot ProvModel.e_oid ProvModel.set_exists ProvModel.o_oid]. apply (pw_oid _ HWt _ _ Hobt).
        + exact Hk2'.
        + exact Hobt4.
        + reflexivity.
        + intros _. reflexivity.
        + exact Hkf'.
        + exists n'. split; [exact Hpn'|exact Hnok'].
        + exact Hobt_o.
        + intros ob0 _ _. reflexivity.
        + rewrite H4pt, Hheap, hset_length. lia.
        + intros x xn Hne Hxn Hox. apply Hne. apply (idx_unique_ent _ _ _ _ _ _ _ (i_idx _ _ _ I) Hxn Hox Hn Eot).
        + intros cs0 Hcs0. congruence.
        + exact Hen4.
        + rewrite SA. apply length_list_upd.
        + intros x xn Hne Hxn. exists xn. split; [rewrite SA, nth_list_upd_neq by congruence; exact Hxn|apply same_but_prio_refl].
        + intros x Hne. rewrite SB. destruct (Nat.eqb_spec x e); [contradiction|reflexivity].
        + intros Hfl. exfalso. unfold flagged, en3 in Hfl. simpl in Hfl. discriminate.
        + intros Hm. rewrite SB, Nat.eqb_refl in Hm. discriminate.
        + exact SC.
        + rewrite SD. pose proof (i_clk _ _ _ I). lia.
        + unfold maxchg, chgv, en3. simpl. apply N.le_0_l.
        + intros sd0. rewrite Hgx. destruct (i_clke _ _ _ I e en Hn) as (_ & Hlgs). specialize (Hlgs sd0). lia.
        + exact WT.
        + apply SJ. apply (i_idx _ _ _ I).
        + intros; apply Hgx.
        + intros sd0 o0 (en0 & Hen0 & Ho0). assert (en0 = en) by congruence. subst en0.
          destruct (Bool.bool_dec sd0 s) as [Heq|Hne]; [subst sd0; rewrite Hf_s; exact Ho0|].
          assert (sd0 = t) by (unfold t; destruct sd0, s; try reflexivity; contradiction). subst sd0. rewrite Hf_t. exact Ho0.
        + rewrite Hf_t. exact Eot.
        + exact EO3.
        + apply (Seen_of_shape _ _ _ Hsh3).
      - intros sd0 k0 ob0 Ho0 Hob0. destruct (Bool.bool_dec sd0 s) as [Heq|Hne].
        + subst sd0. rewrite Hf_s in Ho0. cbn [w_chg w_spath s_oid] in Ho0. rewrite Hobs in Hob0.
          rewrite Hpds, Hf_s. destruct (Hr s k0 ob0 Ho0 Hob0) as [X|X]; [left; exact X|right; exact X].
        + assert (sd0 = t) by (unfold t; destruct sd0, s; try reflexivity; contradiction). subst sd0.
          rewrite Hf_t in Ho0. cbn [w_chg w_ex s_oid] in Ho0. rewrite Eot in Ho0. injection Ho0 as Ho0. apply Nnat.Nat2N.inj in Ho0. subst k0. left. exact Hpdt. }
    split; [reflexivity|]. split; [exact Hgx|].
    intros sd0 k0 cs0 Hg0. destruct (Bool.bool_dec sd0 s) as [Heq|Hne]; [subst sd0; apply Hobs|].
    assert (sd0 = t) by (unfold t; destruct sd0, s; try reflexivity; contradiction). subst sd0.
    apply Hobt_o. intros Hk. subst k0. congruence.
  - (* never synchronised: nothing to delete *)
    cbn [rbind] in H.
    destruct (plain_w w Htape e t (fun y => w_ex y ExTrashed) en Hn) as (wb & Hb & Wb); [intros; split; reflexivity|].
    rewrite Hb in H. cbn [rbind] in H. set (enb := ss en t (w_ex (gs en t) ExTrashed)) in *.
    pose proof (weff_nth _ _ _ _ _ _ Wb Hn) as Hnb. assert (Htb: tape (w_st wb) = []) by (destruct Wb as (_ & _ & _ & _ & _ & T); exact T).
    unfold get_e, lift, get_ent in H. rewrite Hnb in H. cbn [rbind] in H.
    assert (Hign_b: e_ign enb = INone) by (unfold enb; rewrite !ign_ss; exact Hign).
    rewrite Hign_b in H. cbn [is_conflicted] in H.
    destruct (set_ignored_w wb Htb e IDiscarded enb Hnb) as (wc & Hc' & Wc).
    rewrite Hc' in H. cbn [rbind] in H. injection H as <- <- <-. split; [reflexivity|].
    destruct (ign_entry_disc enb Hign_b) as (Hie & Him). rewrite Hie, Him in Wc.
    set (en3 := mkEnt (w_chg (e_l enb) CFalse) (w_chg (e_r enb) CFalse) IDiscarded (e_prio enb)) in *.
    pose proof (weff_trans _ _ _ _ _ _ _ _ Wb Wc) as W24. cbn [mcomp] in W24.
    exists en3.
    assert (Hst: t <> s) by (unfold t; destruct s; discriminate).
    assert (Hf_s: gs en3 s = w_chg (gs en s) CFalse).
    { unfold en3. rewrite gs_disc2. unfold enb. rewrite gs_ss_neq by (intros X; apply Hst; symmetry; exact X). reflexivity. }
    assert (Hf_t: gs en3 t = w_chg (w_ex (gs en t) ExTrashed) CFalse).
    { unfold en3. rewrite gs_disc2. unfold enb. rewrite gs_ss_same. reflexivity. }
    assert (Hsh3: forall sd0, s_oid (gs en3 sd0) <> None -> ShapeS (gs en3 sd0)).
    { intros sd0 Hoid. right. destruct (Bool.bool_dec sd0 s) as [->|Hne].
      - rewrite Hf_s. cbn [w_chg s_ex]. rewrite Hex. reflexivity.
      - assert (sd0 = t) by (unfold t; destruct sd0, s; try reflexivity; contradiction). subst sd0. rewrite Hf_t. reflexivity. }
    assert (Hprov: forall sd0, prov_of wc sd0 = prov_of w sd0) by (intros; apply (weff_prov _ _ _ _ _ sd0 W24)).
    assert (Hgx: forall x sd0, getx wc x sd0 = getx w x sd0) by (intros; apply (weff_getx _ _ _ _ _ x sd0 W24)).
    assert (Hobj: forall sd0 k0, obj_at wc sd0 k0 = obj_at w sd0 k0) by (intros; unfold obj_at; rewrite Hprov; reflexivity).
    assert (Hpd: forall sd0 k0, pd (real_evl wc) sd0 k0 = pd (real_evl w) sd0 k0) by (intros; unfold pd, real_evl; rewrite Hprov; reflexivity).
    pose proof W24 as (W4cfg & _ & _ & _ & (SA & SB & SC & SD & SJ) & WT).
    assert (Hen4: nth_error (ents (w_st wc)) e = Some en3) by (rewrite SA; eapply nth_list_upd_eq; eauto).
    destruct (so_empty _ _ _ _ _ _ (eo_side _ _ _ _ _ EO t) Eot) as (Etc & Etp & Eth & Etsp & Etsh).
    assert (EO3: EntOk (real_evl wc) g wc e en3).
    { apply EntOk_disc; [reflexivity| |].
      - destruct s; [right; change (e_r en3) with (gs en3 true)|left; change (e_l en3) with (gs en3 false)]; rewrite Hf_s; cbn [w_chg s_oid]; rewrite Ho; discriminate.
      - intros sd0. destruct (Bool.bool_dec sd0 s) as [Heq|Hne].
        + subst sd0. rewrite Hf_s. cbn [w_chg s_otype s_force s_oid s_chg s_path s_hash s_spath s_shash tchg].
          split; [apply (ent_file (real_evl w) g w e en EO s)|]. split; [apply (ent_force (real_evl w) g w e en EO s)|].
          split; [rewrite Ho; discriminate|]. intros o0 Ho0. rewrite Ho in Ho0. injection Ho0 as <-.
          exists k, ob. split; [reflexivity|]. split; [rewrite Hobj; exact Hob|]. split; [exact Hk2|]. split; [exact Hdead|].
          split; [|split; [apply (fo_path _ _ _ _ _ _ _ _ FO)|apply (fo_spath _ _ _ _ _ _ _ _ FO)]].
          destruct (Hr s k ob Ho Hob) as [X|X]; [left; rewrite Hpd; exact X|right; right; exact X].
        + assert (sd0 = t) by (unfold t; destruct sd0, s; try reflexivity; contradiction). subst sd0.
          rewrite Hf_t. cbn [w_chg w_ex s_otype s_force s_oid s_chg s_path s_hash s_spath s_shash tchg].
          split; [apply (ent_file (real_evl w) g w e en EO t)|]. split; [apply (ent_force (real_evl w) g w e en EO t)|].
          split; [intros _; auto|]. intros o0 Ho0. congruence. }
    split.
    { constructor; [|exact He|exact Hen4| |exact Hsh3].
      - unfold Inv. apply (InvP_ext (real_evl w)); [intros sd0; unfold real_evl; rewrite Hprov; reflexivity|].
        apply (inv_master (real_evl w) (real_evl w) g g w wc e en3 I).
        + rewrite W4cfg. reflexivity.
        + intros sd0. rewrite Hprov. split; [apply (i_pwf _ _ _ I)|]. split; [apply (ShapeOk_ext w wc sd0 (Hobj sd0) (i_shape _ _ _ I sd0))|].
          apply (LogOk_ext (real_evl w) (real_evl w) w wc sd0 (Hobj sd0)); [auto|apply (i_log _ _ _ I)].
        + exact He.
        + exact Hen4.
        + rewrite SA, length_list_upd. apply Nat.le_refl.
        + intros x Hx0 Hne. rewrite SA, nth_list_upd_neq by congruence. apply nth_error_None. exact Hx0.
        + intros x xn Hne Hxn. exists xn. split; [rewrite SA, nth_list_upd_neq by congruence; exact Hxn|apply same_but_prio_refl].
        + intros x Hne. rewrite SB. destruct (Nat.eqb_spec x e); [contradiction|reflexivity].
        + intros Hfl. exfalso. unfold flagged, en3 in Hfl. simpl in Hfl. discriminate.
        + intros Hm. rewrite SB, Nat.eqb_refl in Hm. discriminate.
        + exact SC.
        + rewrite SD. pose proof (i_clk _ _ _ I). lia.
        + unfold maxchg, chgv, en3. simpl. apply N.le_0_l.
        + intros sd0. rewrite Hgx. destruct (i_clke _ _ _ I e en Hn) as (_ & Hlgs). specialize (Hlgs sd0). lia.
        + exact WT.
        + apply SJ. apply (i_idx _ _ _ I).
        + intros; apply Hgx.
        + intros x xn Hne Hx2 Hxn sd0 k0 Hk0. split; [apply Hobj|]. split; [auto|reflexivity].
        + intros sd0 k0 Hk0 Hlt. rewrite Hprov in Hlt. destruct (i_cov _ _ _ I sd0 k0 Hk0 Hlt) as [(x & xn & Hxn & Hox)|Hp]; [left|right; exact Hp].
          destruct (Nat.eq_dec x e) as [Hxe|Hxe].
          * subst x. exists e, en3. split; [exact Hen4|]. assert (xn = en) by congruence. subst xn.
            destruct (Bool.bool_dec sd0 s) as [Heq|Hne]; [subst sd0; rewrite Hf_s; exact Hox|].
            assert (sd0 = t) by (unfold t; destruct sd0, s; try reflexivity; contradiction). subst sd0. rewrite Hf_t. exact Hox.
          * exists x, xn. split; [rewrite SA, nth_list_upd_neq by congruence; exact Hxn|exact Hox].
        + intros sd0 k0 Hk0 Hlt Hg0. rewrite Hprov in Hlt. destruct (i_cove _ _ _ I sd0 k0 Hk0 Hlt Hg0) as (x & xn & Hxn & Hox).
          destruct (Nat.eq_dec x e) as [Hxe|Hxe].
          * subst x. exists e, en3. split; [exact Hen4|]. assert (xn = en) by congruence. subst xn.
            destruct (Bool.bool_dec sd0 s) as [Heq|Hne]; [subst sd0; rewrite Hf_s; exact Hox|].
            assert (sd0 = t) by (unfold t; destruct sd0, s; try reflexivity; contradiction). subst sd0. rewrite Hf_t. exact Hox.
          * exists x, xn. split; [rewrite SA, nth_list_upd_neq by congruence; exact Hxn|exact Hox].
        + intros sd0 k0 cs0 Hg0. rewrite Hobj. apply (i_ghost _ _ _ I sd0 k0 cs0 Hg0).
        + apply (EntOk_frame (real_evl wc) (real_evl w) g g wc wc e en3 EO3); [reflexivity|].
          intros sd0 k0 Ho0. split; [reflexivity|]. split; [rewrite Hpd; auto|reflexivity].
        + apply (Seen_of_shape _ _ _ Hsh3).
      - intros sd0 k0 ob0 Ho0 Hob0. destruct (Bool.bool_dec sd0 s) as [Heq|Hne].
        + subst sd0. rewrite Hf_s in Ho0. cbn [w_chg s_oid] in Ho0. rewrite Hobj in Hob0.
          rewrite Hpd, Hf_s. destruct (Hr s k0 ob0 Ho0 Hob0) as [X|X]; [left; exact X|right; exact X].
        + assert (sd0 = t) by (unfold t; destruct sd0, s; try reflexivity; contradiction). subst sd0.
          rewrite Hf_t in Ho0. cbn [w_chg w_ex s_oid] in Ho0. congruence. }
    split; [reflexivity|]. split; [exact Hgx|]. intros sd0 k0 cs0 Hg0. apply Hobj.
Qed.

(* ------------------------------------------------------------------ punt *)
(* only the change stamp of side sd moves (forward) *)
Lemma EntOk_chg_only evl g w w' e en en' sd nw m :
  EntOk evl g w e en -> prog en en' sd nw m ->
  s_otype (gs en' sd) = s_otype (gs en sd) -> s_ex (gs en' sd) = s_ex (gs en sd) ->
  s_hash (gs en' sd) = s_hash (gs en sd) -> s_path (gs en' sd) = s_path (gs en sd) ->
  (s_oid (gs en sd) = None -> s_chg (gs en' sd) = s_chg (gs en sd)) ->
  (forall sd0 k0, obj_at w' sd0 k0 = obj_at w sd0 k0) ->
  (forall sd0, x_lg (getx w' e sd0) = x_lg (getx w e sd0)) ->
  EntOk evl g w' e en'.
Proof.
  intros EO P Hot Hex Hh Hp Hnc Hobj Hlg.
  apply (EntOk_side evl evl g w w' e en en' sd nw m EO P).
  - rewrite Hot. apply (ent_file evl g w e en EO sd).
  - exact Hobj.
  - apply Hlg.
  - auto.
  - intros k ob Ho Hob. destruct (so_full _ _ _ _ _ _ (eo_side _ _ _ _ _ EO sd) _ Ho) as (k1 & ob1 & Hk1 & Hob1 & _ & FO).
    apply ostr_k_inj in Hk1. subst k1. assert (ob1 = ob) by congruence. subst ob1.
    destruct FO as [f1 f2 f3 f4 f5 f6 f7 f8 f10 f9]. rewrite Hex, Hh, Hp.
    split; [exact f1|]. split.
    { intros Hd. destruct (f2 Hd) as [X|[X|X]]; [left; exact X|right; left; rewrite Hlg; pose proof (prog_maxchg _ _ _ _ _ P); lia|right; right].
      unfold freshP in *. rewrite Hex, Hh, Hp. exact X. }
    split; [exact f3|]. split.
    { intros Hd cs Hcs. destruct (f8 Hd cs Hcs) as (P1 & _ & _ & P4 & _). destruct (f10 Hd cs Hcs) as (_ & P6). auto. }
    intros Hd Hcs. destruct (f9 Hd Hcs) as (_ & M2 & _ & M4 & _ & M6 & _). auto.
  - intros Hno. destruct (so_empty _ _ _ _ _ _ (eo_side _ _ _ _ _ EO sd) Hno) as (X1 & X2 & X3 & _).
    rewrite Hh, Hp, Hex. split; [exact X2|]. split; [exact X3|]. split.
    + rewrite (Hnc Hno). exact X1.
    + intros Hd. apply (so_empty_ex _ _ _ _ _ _ (eo_side _ _ _ _ _ EO sd) Hno Hd).
Qed.

Lemma chgv_le_maxchg en sd : chgv (gs en sd) <= maxchg en.
Proof. unfold maxchg. destruct sd; simpl; lia. Qed.

Lemma shift_side_spec en sd :
  (tchg (s_chg (gs en sd)) = true -> tstr (s_oid (gs en sd)) = true) ->
  (tchg (s_chg (gs en sd)) = false /\ shift_side (env_of (cfg_std 1)) en sd = (en, None)) \/
  (exists c, s_chg (gs en sd) = CNum c /\ tchg (CNum c) = true /\
             shift_side (env_of (cfg_std 1)) en sd = (ss en sd (w_chg (gs en sd) (CNum (c + 1))), Some true)).
Proof.
  intros Hw. unfold shift_side. destruct (tchg (s_chg (gs en sd))) eqn:Ec; [right|left; auto].
  destruct (s_chg (gs en sd)) as [| |c] eqn:Es; try discriminate. exists c. split; [reflexivity|]. split; [exact Ec|].
  cbn [chg_add StateModel.punt env_of]. unfold chg_entry, chg_pending.
  assert (Ht: tchg (CNum (c + 1)) = true) by (unfold tchg; destruct (c + 1)%N eqn:E1; [lia|reflexivity]).
  rewrite Ht, (Hw eq_refl). cbn [andb orb negb]. reflexivity.
Qed.

Lemma tchg_succ c : tchg (CNum (c + 1)) = true.
Proof. unfold tchg. destruct (c + 1)%N eqn:E1; [lia|reflexivity]. Qed.

(* SyncEntry.punt: priority one up, every stamp of the entry one unit later *)
Lemma ShapeS_ext x y : s_ex x = s_ex y -> s_path x = s_path y -> ShapeS y -> ShapeS x.
Proof. unfold ShapeS. intros -> ->. auto. Qed.

Lemma punt_pres g w e en w' :
  SCtx g w e en -> maxchg en <= now (w_st w) -> punt w e = ROk w' ->
  Inv g w' /\ (forall x sd0, getx w' x sd0 = getx w x sd0).
Proof.
  intros [I He Hn Hr Hsh] Htight H.
  pose proof (i_cfg _ _ _ I) as Hcfg. pose proof (i_tape _ _ _ I) as Htape. pose proof (i_ents _ _ _ I e en He Hn) as EO.
  unfold punt, get_e, lift, get_ent in H. rewrite Hn in H. cbn [rbind] in H.
  destruct (set_priority_w w Hcfg Htape e (e_prio en + PRIO_ONE) en Hn) as (w2 & H2 & W2). rewrite H2 in H. injection H as <-.
  set (v := e_prio en + PRIO_ONE) in *.
  assert (Hv1: N.eqb (e_prio en) v = false) by (apply N.eqb_neq; unfold v, PRIO_ONE; lia).
  assert (Hv2: (N.ltb (e_prio en) v && N.ltb 0 v)%bool = true).
  { apply andb_true_intro. split; apply N.ltb_lt; unfold v, PRIO_ONE; lia. }
  unfold prio_entry, prio_member in W2. rewrite Hv1, Hv2 in W2.
  (* the two shifts *)
  set (ena := fst (shift_side (env_of (cfg_std 1)) en false)) in *. set (ma := snd (shift_side (env_of (cfg_std 1)) en false)) in *.
  set (enb := fst (shift_side (env_of (cfg_std 1)) ena true)) in *. set (mb := snd (shift_side (env_of (cfg_std 1)) ena true)) in *.
  assert (Pa: prog en ena false (now (w_st w) + 1) ma /\ s_otype (gs ena false) = s_otype (gs en false) /\ s_ex (gs ena false) = s_ex (gs en false) /\
              s_hash (gs ena false) = s_hash (gs en false) /\ s_path (gs ena false) = s_path (gs en false) /\
              (s_oid (gs en false) = None -> s_chg (gs ena false) = s_chg (gs en false)) /\ maxchg ena <= now (w_st w) + 1).
  { unfold ena, ma. destruct (shift_side_spec en false (ent_chg_oid (real_evl w) g w e en EO false)) as [(X & ->)|(c & Hc & Htc & ->)]; cbn [fst snd].
    - split; [apply prog_refl|]. repeat (split; [reflexivity|]). lia.
    - assert (Hcle: c <= now (w_st w)) by (pose proof (chgv_le_maxchg en false) as X; unfold chgv in X; rewrite Hc in X; simpl in X; lia).
      split.
      { unfold prog. rewrite gs_ss_same, gs_ss_other, ign_ss. cbn [w_chg s_oid s_spath s_shash s_force s_chg].
        repeat (split; [reflexivity|]). right. exists (c + 1). split; [reflexivity|]. split; [apply tchg_succ|]. rewrite Hc. simpl. split; [lia|]. split; [lia|reflexivity]. }
      rewrite gs_ss_same. cbn [w_chg s_otype s_ex s_hash s_path s_chg]. repeat (split; [reflexivity|]). split.
      + intros Hno. exfalso. pose proof (ent_chg_oid (real_evl w) g w e en EO false) as X. rewrite Hc, Hno in X. specialize (X Htc). discriminate.
      + pose proof (chgv_le_maxchg en true) as X. unfold maxchg, chgv in *. destruct en as [l r i p]; simpl in *. lia. }
  destruct Pa as (Pa & A1 & A2 & A3 & A4 & A5 & A6).
  assert (EOa: EntOk (real_evl w) g w e ena).
  { apply (EntOk_chg_only (real_evl w) g w w e en ena false _ ma EO Pa A1 A2 A3 A4 A5); reflexivity. }
  assert (Pb: prog ena enb true (now (w_st w) + 1) mb /\ s_otype (gs enb true) = s_otype (gs ena true) /\ s_ex (gs enb true) = s_ex (gs ena true) /\
              s_hash (gs enb true) = s_hash (gs ena true) /\ s_path (gs enb true) = s_path (gs ena true) /\
              (s_oid (gs ena true) = None -> s_chg (gs enb true) = s_chg (gs ena true)) /\ maxchg enb <= now (w_st w) + 1).
  { assert (Htr: chgval (s_chg (gs ena true)) <= now (w_st w)).
    { destruct Pa as (Po & _). cbn [negb] in Po. rewrite Po. pose proof (chgv_le_maxchg en true) as X. unfold chgv in X. lia. }
    unfold enb, mb. destruct (shift_side_spec ena true (ent_chg_oid (real_evl w) g w e ena EOa true)) as [(X & ->)|(c & Hc & Htc & ->)]; cbn [fst snd].
    - split; [apply prog_refl|]. repeat (split; [reflexivity|]). exact A6.
    - rewrite Hc in Htr. simpl in Htr. split.
      { unfold prog. rewrite gs_ss_same, gs_ss_other, ign_ss. cbn [w_chg s_oid s_spath s_shash s_force s_chg].
        repeat (split; [reflexivity|]). right. exists (c + 1). split; [reflexivity|]. split; [apply tchg_succ|]. rewrite Hc. simpl. split; [lia|]. split; [lia|reflexivity]. }
      rewrite gs_ss_same. cbn [w_chg s_otype s_ex s_hash s_path s_chg]. repeat (split; [reflexivity|]). split.
      + intros Hno. exfalso. pose proof (ent_chg_oid (real_evl w) g w e ena EOa true) as X. rewrite Hc, Hno in X. specialize (X Htc). discriminate.
      + unfold maxchg, chgv in *. destruct ena as [l r i p]; simpl in *. lia. }
  destruct Pb as (Pb & B1 & B2 & B3 & B4 & B5 & B6).
  assert (EOb: EntOk (real_evl w) g w e enb).
  { apply (EntOk_chg_only (real_evl w) g w w e ena enb true _ mb EOa Pb B1 B2 B3 B4 B5); reflexivity. }
  set (en3 := mkEnt (e_l enb) (e_r enb) (e_ign enb) v) in *.
  assert (S3: same_but_prio enb en3) by (unfold en3; repeat split).
  pose proof W2 as (Wcfg & WpL & WpR & Wx & (SA & SB & SC & SD & SJ) & WT).
  assert (Hprov: forall sd0, prov_of w2 sd0 = prov_of w sd0) by (intros; apply (weff_prov _ _ _ _ _ sd0 W2)).
  assert (Hgx: forall x sd0, getx w2 x sd0 = getx w x sd0) by (intros; apply (weff_getx _ _ _ _ _ x sd0 W2)).
  assert (Hobj: forall sd0 k0, obj_at w2 sd0 k0 = obj_at w sd0 k0) by (intros; unfold obj_at; rewrite Hprov; reflexivity).
  assert (Hen2: nth_error (ents (w_st w2)) e = Some en3) by (rewrite SA; eapply nth_list_upd_eq; eauto).
  assert (Hoid3: forall sd0, s_oid (gs en3 sd0) = s_oid (gs en sd0)).
  { intros sd0. rewrite <- (sbp_gs _ _ sd0 S3). destruct Pa as (Po & _ & Pi & _). destruct Pb as (Qo & _ & Qi & _).
    destruct sd0; cbn [negb] in *; congruence. }
  split; [|exact Hgx].
  unfold Inv. apply (InvP_ext (real_evl w)); [intros sd0; unfold real_evl; rewrite Hprov; reflexivity|].
  apply (inv_master (real_evl w) (real_evl w) g g w w2 e en3 I).
  - exact Wcfg.
  - intros sd0. rewrite Hprov. split; [apply (i_pwf _ _ _ I)|]. split; [apply (ShapeOk_ext w w2 sd0 (Hobj sd0) (i_shape _ _ _ I sd0))|].
    apply (LogOk_ext (real_evl w) (real_evl w) w w2 sd0 (Hobj sd0)); [auto|apply (i_log _ _ _ I)].
  - exact He.
  - exact Hen2.
  - rewrite SA, length_list_upd. apply Nat.le_refl.
  - intros x Hx0 Hne. rewrite SA, nth_list_upd_neq by congruence. apply nth_error_None. exact Hx0.
  - intros x xn Hne Hxn. exists xn. split; [rewrite SA, nth_list_upd_neq by congruence; exact Hxn|apply same_but_prio_refl].
  - intros x Hne. rewrite SB. destruct (mcomp ma mb); [destruct (Nat.eqb_spec x e); [contradiction|reflexivity]|reflexivity].
  - intros Hfl. rewrite SB.
    rewrite <- (sbp_flagged _ _ S3) in Hfl.
    destruct (flagged_prog _ _ _ _ _ Pb) as [(Hmb & Hfb)|Hmb]; rewrite Hmb; cbn [mcomp]; [|rewrite Nat.eqb_refl; reflexivity].
    destruct (flagged_prog _ _ _ _ _ Pa) as [(Hma & Hfa)|Hma]; rewrite Hma; [|rewrite Nat.eqb_refl; reflexivity].
    apply (i_csc _ _ _ I e en Hn). congruence.
  - intros Hm. rewrite <- (sbp_flagged _ _ S3). rewrite SB in Hm.
    pose proof Pb as (Pbo & _ & Pboid & _ & _ & _ & Pbc). pose proof Pa as (Pao & _ & Paoid & _ & _ & _ & Pac). cbn [negb] in Pbo, Pao.
    destruct Pbc as [(Hcb & Hmb)|(tb & Hcb & Htb & _ & _ & Hmb)].
    + destruct Pac as [(Hca & Hma)|(ta & Hca & Hta & _ & _ & Hma)].
      * rewrite Hma, Hmb in Hm. cbn [mcomp] in Hm. pose proof (i_cse _ _ _ I e en Hn Hm) as F. unfold flagged in F.
        change (e_l en) with (gs en false) in F. change (e_r en) with (gs en true) in F.
        apply orb_prop in F as [F|F]; apply andb_prop in F as [F1 F2].
        -- apply (flagged_side enb false); rewrite Pbo; [rewrite Hca; exact F1|rewrite Paoid; exact F2].
        -- apply (flagged_side enb true); [rewrite Hcb, Pao; exact F1|rewrite Pboid, Pao; exact F2].
      * assert (Hx: tchg (s_chg (gs enb false)) = true) by (rewrite Pbo, Hca; exact Hta).
        apply (flagged_side enb false); [exact Hx|apply (ent_chg_oid (real_evl w) g w e enb EOb false Hx)].
    + assert (Hx: tchg (s_chg (gs enb true)) = true) by (rewrite Hcb; exact Htb).
      apply (flagged_side enb true); [exact Hx|apply (ent_chg_oid (real_evl w) g w e enb EOb true Hx)].
  - exact SC.
  - rewrite SD. pose proof (i_clk _ _ _ I). lia.
  - rewrite <- (sbp_maxchg _ _ S3). lia.
  - intros sd0. rewrite Hgx. destruct (i_clke _ _ _ I e en Hn) as (_ & Hlgs). specialize (Hlgs sd0). lia.
  - exact WT.
  - apply SJ. apply (i_idx _ _ _ I).
  - intros; apply Hgx.
  - intros x xn Hne Hx2 Hxn sd0 k0 Hk0. split; [apply Hobj|]. split; [auto|reflexivity].
  - intros sd0 k0 Hk0 Hlt. rewrite Hprov in Hlt. destruct (i_cov _ _ _ I sd0 k0 Hk0 Hlt) as [(x & xn & Hxn & Hox)|Hp]; [left|right; exact Hp].
    destruct (Nat.eq_dec x e) as [Hxe|Hxe].
    + subst x. exists e, en3. split; [exact Hen2|]. assert (xn = en) by congruence. subst xn. rewrite Hoid3. exact Hox.
    + exists x, xn. split; [rewrite SA, nth_list_upd_neq by congruence; exact Hxn|exact Hox].
  - intros sd0 k0 Hk0 Hlt Hg0. rewrite Hprov in Hlt. destruct (i_cove _ _ _ I sd0 k0 Hk0 Hlt Hg0) as (x & xn & Hxn & Hox).
    destruct (Nat.eq_dec x e) as [Hxe|Hxe].
    + subst x. exists e, en3. split; [exact Hen2|]. assert (xn = en) by congruence. subst xn. rewrite Hoid3. exact Hox.
    + exists x, xn. split; [rewrite SA, nth_list_upd_neq by congruence; exact Hxn|exact Hox].
  - intros sd0 k0 cs0 Hg0. rewrite Hobj. apply (i_ghost _ _ _ I sd0 k0 cs0 Hg0).
  - apply (EntOk_sbp _ _ _ _ enb en3 S3).
    apply (EntOk_frame (real_evl w) (real_evl w) g g w w2 e enb EOb); [intros; rewrite Hgx; reflexivity|].
    intros sd0 k0 Ho0. split; [apply Hobj|]. split; [auto|reflexivity].
  - apply Seen_of_shape. intros sd0 Hoid. rewrite Hoid3 in Hoid. rewrite <- (sbp_gs _ _ sd0 S3).
    pose proof Pa as (Pao & _). pose proof Pb as (Pbo & _). cbn [negb] in Pao, Pbo.
    destruct sd0.
    + apply (ShapeS_ext _ (gs en true)); [rewrite B2, Pao; reflexivity|rewrite B4, Pao; reflexivity|apply (Hsh true Hoid)].
    + rewrite Pbo. apply (ShapeS_ext _ (gs en false)); [exact A2|exact A4|apply (Hsh false Hoid)].
Qed.

(* download failed: the object is gone, exists = MISSING *)
Lemma missing_pres g w e en s k ob p w2 :
  SCtx g w e en -> s_oid (gs en s) = Some (ostr_k k) -> obj_at w s k = Some ob -> ProvModel.o_exists ob = false ->
  x_tfile (getx w e s) = None ->
  weff (tname_world w e s en p) w2 e (ss en s (w_ex (gs en s) ExMissing)) None ->
  SCtx g w2 e (ss en s (w_ex (gs en s) ExMissing)) /\ maxchg (ss en s (w_ex (gs en s) ExMissing)) = maxchg en /\
  now (w_st w) <= now (w_st w2) /\ (forall x sd0, x <> e -> getx w2 x sd0 = getx w x sd0) /\ x_tfile (getx w2 e s) = None /\
  getx w2 e (negb s) = getx w e (negb s).
Proof.
  intros [I He Hn Hr Hsh] Ho Hob Hdead Htf W2.
  destruct (tname_world_facts w e s en p Htf) as (TA & TB & TC & TD & TF & TG & TH).
  set (w0 := tname_world w e s en p) in *. set (en' := ss en s (w_ex (gs en s) ExMissing)).
  pose proof (i_ents _ _ _ I e en He Hn) as EO.
  pose proof W2 as (Wcfg & WpL & WpR & Wx & (SA & SB & SC & SD & SJ) & WT). rewrite TB in SA, SB, SC, SD, SJ.
  assert (Hprov: forall sd0, prov_of w2 sd0 = prov_of w sd0) by (intros; rewrite (weff_prov _ _ _ _ _ sd0 W2); apply TC).
  assert (Hgx: forall x sd0, getx w2 x sd0 = getx w0 x sd0) by (intros; apply (weff_getx _ _ _ _ _ x sd0 W2)).
  assert (Hobj: forall sd0 k0, obj_at w2 sd0 k0 = obj_at w sd0 k0) by (intros; unfold obj_at; rewrite Hprov; reflexivity).
  assert (Hpd: forall sd0 k0, pd (real_evl w2) sd0 k0 = pd (real_evl w) sd0 k0) by (intros; unfold pd, real_evl; rewrite Hprov; reflexivity).
  assert (Hen2: nth_error (ents (w_st w2)) e = Some en') by (rewrite SA; eapply nth_list_upd_eq; eauto).
  assert (Hlg: forall sd0, x_lg (getx w2 e sd0) = x_lg (getx w e sd0)).
  { intros sd0. rewrite Hgx. destruct (Bool.bool_dec sd0 s) as [Heq|Hne]; [subst sd0; exact TG|].
    assert (sd0 = negb s) by (destruct sd0, s; try reflexivity; contradiction). subst sd0. rewrite TF. reflexivity. }
  assert (P: prog en en' s (now (w_st w2)) None) by (apply (prog_plain en s (fun y => w_ex y ExMissing)); intros; repeat split; reflexivity).
  assert (Hmax: maxchg en' = maxchg en) by (unfold en', maxchg, chgv; destruct en as [l r i q], s; reflexivity).
  destruct (so_full _ _ _ _ _ _ (eo_side _ _ _ _ _ EO s) _ Ho) as (k1 & ob1 & Hk1 & Hob1 & Hk2 & FO).
  apply ostr_k_inj in Hk1. subst k1. assert (ob1 = ob) by congruence. subst ob1.
  assert (EO2: EntOk (real_evl w) g w2 e en').
  { apply (EntOk_side (real_evl w) (real_evl w) g w w2 e en en' s (now (w_st w2)) None EO P).
    - unfold en'. rewrite gs_ss_same. cbn [w_ex s_otype]. apply (ent_file (real_evl w) g w e en EO s).
    - exact Hobj.
    - apply Hlg.
    - auto.
    - intros k0 ob0 Ho0 Hob0. assert (k0 = k) by (apply ostr_k_inj; congruence). subst k0. assert (ob0 = ob) by congruence. subst ob0.
      unfold en'. rewrite gs_ss_same. cbn [w_ex s_ex s_hash s_path].
      split; [intros X; discriminate|]. split; [intros _; right; right; unfold freshP; rewrite Hdead; reflexivity|]. split; [apply (fo_path _ _ _ _ _ _ _ _ FO)|]. split.
      + intros Hd cs Hcs. destruct (fo_owner _ _ _ _ _ _ _ _ FO Hd cs Hcs) as (P1 & _ & _ & P4 & _). destruct (fo_owner2 _ _ _ _ _ _ _ _ FO Hd cs Hcs) as (_ & P6). auto.
      + intros Hd Hcs. destruct (fo_mirror _ _ _ _ _ _ _ _ FO Hd Hcs) as (Ml & _). congruence.
    - intros Hno. congruence. }
  assert (Hsh2: forall sd0, s_oid (gs en' sd0) <> None -> ShapeS (gs en' sd0)).
  { intros sd0 Hoid. unfold en' in *. destruct (Bool.bool_dec sd0 s) as [->|Hne].
    - rewrite gs_ss_same. right. reflexivity.
    - rewrite (other_side' _ _ Hne) in *. rewrite gs_ss_other in *. apply (Hsh _ Hoid). }
  split.
  { constructor; [|exact He|exact Hen2| |exact Hsh2].
    - unfold Inv. apply (InvP_ext (real_evl w)); [intros sd0; unfold real_evl; rewrite Hprov; reflexivity|].
      apply (inv_master (real_evl w) (real_evl w) g g w w2 e en' I).
      + rewrite Wcfg. exact TA.
      + intros sd0. rewrite Hprov. split; [apply (i_pwf _ _ _ I)|]. split; [apply (ShapeOk_ext w w2 sd0 (Hobj sd0) (i_shape _ _ _ I sd0))|].
        apply (LogOk_ext (real_evl w) (real_evl w) w w2 sd0 (Hobj sd0)); [auto|apply (i_log _ _ _ I)].
      + exact He.
      + exact Hen2.
      + rewrite SA, length_list_upd. apply Nat.le_refl.
      + intros x Hx0 Hne. rewrite SA, nth_list_upd_neq by congruence. apply nth_error_None. exact Hx0.
      + intros x xn Hne Hxn. exists xn. split; [rewrite SA, nth_list_upd_neq by congruence; exact Hxn|apply same_but_prio_refl].
      + intros x Hne. rewrite SB. reflexivity.
      + intros Hfl. rewrite SB. apply (i_csc _ _ _ I e en Hn). rewrite <- Hfl. unfold flagged, en'. destruct en as [l r i q], s; reflexivity.
      + intros Hm. rewrite SB in Hm. pose proof (i_cse _ _ _ I e en Hn Hm) as F. rewrite <- F. unfold flagged, en'. destruct en as [l r i q], s; reflexivity.
      + exact SC.
      + rewrite SD. pose proof (i_clk _ _ _ I). lia.
      + rewrite Hmax. destruct (i_clke _ _ _ I e en Hn) as (X & _). lia.
      + intros sd0. rewrite Hlg. destruct (i_clke _ _ _ I e en Hn) as (_ & X). specialize (X sd0). lia.
      + exact WT.
      + apply SJ. apply (i_idx _ _ _ I).
      + intros x sd0 Hne. rewrite Hgx. apply TD. exact Hne.
      + intros x xn Hne Hx2 Hxn sd0 k0 Hk0. split; [apply Hobj|]. split; [auto|reflexivity].
      + intros sd0 k0 Hk0 Hlt. rewrite Hprov in Hlt. destruct (i_cov _ _ _ I sd0 k0 Hk0 Hlt) as [(x & xn & Hxn & Hox)|Hp]; [left|right; exact Hp].
        destruct (Nat.eq_dec x e) as [Hxe|Hxe].
        * subst x. exists e, en'. split; [exact Hen2|]. assert (xn = en) by congruence. subst xn.
          destruct P as (Po & _ & Pi & _). destruct (Bool.bool_dec sd0 s) as [Heq|Hne]; [subst sd0; congruence|].
          assert (sd0 = negb s) by (destruct sd0, s; try reflexivity; contradiction). subst sd0. congruence.
        * exists x, xn. split; [rewrite SA, nth_list_upd_neq by congruence; exact Hxn|exact Hox].
      + intros sd0 k0 Hk0 Hlt Hg0. rewrite Hprov in Hlt. destruct (i_cove _ _ _ I sd0 k0 Hk0 Hlt Hg0) as (x & xn & Hxn & Hox).
        destruct (Nat.eq_dec x e) as [Hxe|Hxe].
        * subst x. exists e, en'. split; [exact Hen2|]. assert (xn = en) by congruence. subst xn.
          destruct P as (Po & _ & Pi & _). destruct (Bool.bool_dec sd0 s) as [Heq|Hne]; [subst sd0; congruence|].
          assert (sd0 = negb s) by (destruct sd0, s; try reflexivity; contradiction). subst sd0. congruence.
        * exists x, xn. split; [rewrite SA, nth_list_upd_neq by congruence; exact Hxn|exact Hox].
      + intros sd0 k0 cs0 Hg0. rewrite Hobj. apply (i_ghost _ _ _ I sd0 k0 cs0 Hg0).
      + exact EO2.
      + apply (Seen_of_shape _ _ _ Hsh2).
    - intros sd0 k0 ob0 Ho0 Hob0. rewrite Hobj in Hob0. rewrite Hpd. unfold en' in *.
      destruct (Bool.bool_dec sd0 s) as [Heq|Hne].
      + subst sd0. rewrite gs_ss_same in *. cbn [w_ex s_oid] in Ho0. assert (k0 = k) by (apply ostr_k_inj; congruence). subst k0. assert (ob0 = ob) by congruence. subst ob0.
        right. unfold freshP. rewrite Hdead. reflexivity.
      + assert (sd0 = negb s) by (destruct sd0, s; try reflexivity; contradiction). subst sd0. rewrite gs_ss_other in *. apply (Hr (negb s) k0 ob0 Ho0 Hob0). }
  split; [exact Hmax|]. split; [exact SC|]. split; [intros x sd0 Hne; rewrite Hgx; apply TD; exact Hne|].
  split; [rewrite Hgx; exact TH|rewrite Hgx; exact TF].
Qed.
