(* PropC18.v — property theorems for C18 (service loops: bounded geometric backoff, final stop, ordered
   notifications).  Only statements closed by [exact], each followed by Print Assumptions; Examples show
   that the hypotheses are satisfiable; refuted full-strength statements stay visible (witnesses: LoopRefute.v). *)
From Coq Require Import QArith Qminmax List Bool NArith.
From CS Require Import Sx LoopModel NotifyModel LoopProofs LoopInv LoopThms LoopThms2 LoopRefute NotifyProofs.
Import ListNotations.
Open Scope Q_scope.

(* ================================================================== backoff arithmetic, sequential loop *)
(* after k = length os >= 1 consecutive failures (backoff request, Exception, BaseException) starting from
   "not in backoff", in_backoff and the wait requested are min(max, min * mult^(k-1)): the first failure waits min *)
Theorem C18_backoff_formula : forall p os,
  1 <= p_mult p -> 0 < p_min p -> p_min p <= p_max p ->
  os <> [] -> forallb is_failure os = true ->
  backoff_after p 0 os == Qmin (p_max p) (p_min p * qpow (p_mult p) (length os - 1)).
Proof. exact backoff_formula. Qed.
Print Assumptions C18_backoff_formula.

Theorem C18_backoff_formula_wait : forall p os,
  1 <= p_mult p -> 0 < p_min p -> p_min p <= p_max p ->
  os <> [] -> forallb is_failure os = true ->
  sleep_of p (backoff_after p 0 os) == Qmin (p_max p) (p_min p * qpow (p_mult p) (length os - 1)).
Proof. exact backoff_formula_wait. Qed.
Print Assumptions C18_backoff_formula_wait.

Example C18_backoff_formula_nonvacuous :
  1 <= p_mult p0 /\ 0 < p_min p0 /\ p_min p0 <= p_max p0 /\
  map (fun k => Qred (backoff_after p0 0 (repeat OExc k))) [1; 2; 3; 8; 9]%nat = [1 # 100; 1 # 50; 1 # 25; 1; 1].
Proof. vm_compute. repeat split; discriminate. Qed.

(* without 1 <= mult the formula of the property text is not what the code computes (it stays at min) *)
Definition backoff_formula_full : Prop := forall p os,
  0 < p_min p -> p_min p <= p_max p -> os <> [] -> forallb is_failure os = true ->
  backoff_after p 0 os == Qmin (p_max p) (p_min p * qpow (p_mult p) (length os - 1)).
Theorem C18_backoff_formula_mult_lt_1_refuted : ~ backoff_formula_full.
Proof. exact backoff_formula_any_mult_refuted. Qed.
Print Assumptions C18_backoff_formula_mult_lt_1_refuted.

(* every backoff value is 0 (not in backoff) or within [min, max], for every outcome sequence and every mult *)
Theorem C18_backoff_bounded : forall p os b0,
  0 < p_min p -> p_min p <= p_max p -> in_range p b0 -> in_range p (backoff_after p b0 os).
Proof. exact backoff_bounded. Qed.
Print Assumptions C18_backoff_bounded.

Theorem C18_backoff_bounded_wait : forall p os,
  0 < p_min p -> p_min p <= p_max p ->
  let w := sleep_of p (backoff_after p 0 os) in w = p_sleep p \/ (p_min p <= w /\ w <= p_max p).
Proof. exact backoff_bounded_wait. Qed.
Print Assumptions C18_backoff_bounded_wait.

(* after a successful call that did something the next wait is the regular sleep (no backoff wait) *)
Theorem C18_backoff_reset : forall p b,
  sleep_of p (after_do p b ODid) = p_sleep p /\ (0 <= b -> after_do p b ODid == 0).
Proof. exact (fun p b => conj (backoff_reset p b) (backoff_reset_value p b)). Qed.
Print Assumptions C18_backoff_reset.

(* a successful call that reported "nothing happened" leaves the backoff as it is *)
Theorem C18_noop_keeps_backoff : forall p b, after_do p b ONoop = b.
Proof. exact noop_keeps_backoff. Qed.
Print Assumptions C18_noop_keeps_backoff.

(* sequential loop: whatever the outcomes (incl. BaseException), do() is called once per outcome, the final
   in_backoff is the fold, and the wait after the (|pre|+1)-th call is the one computed from the outcomes so far *)
Theorem C18_loop_survives : forall p os b,
  count_do (fst (seq_loop p b (plain os))) = length os /\ snd (seq_loop p b (plain os)) = backoff_after p b os.
Proof. exact (fun p os b => conj (loop_survives_seq p os b) (seq_final_backoff p os b)). Qed.
Print Assumptions C18_loop_survives.

Theorem C18_loop_waits : forall p pre o post b, post <> [] ->
  exists es1 es2,
    fst (seq_loop p b (plain (pre ++ o :: post))) =
      es1 ++ EDo :: ESleep (sleep_of p (backoff_after p b (pre ++ [o]))) :: es2
    /\ count_do es1 = length pre.
Proof. exact seq_wait. Qed.
Print Assumptions C18_loop_waits.

(* two-thread machine: the loop thread leaves the loop only through a stop flag or until(); any outcome of do()
   (all five classes, BaseException included: run() catches it) continues with the flag tests *)
Theorem C18_loop_exit_only_by_flags : forall p s o u,
  lp (lstep p s o u) = LF1 ->
  (lp s = LH1 /\ sg s = true) \/ (lp s = LH2 /\ sd s = true) \/ (lp s = LC1 /\ sg s = true) \/
  (lp s = LC2 /\ sd s = true) \/ (lp s = LC3 /\ u = true).
Proof. exact loop_exit_only_by_flags. Qed.
Print Assumptions C18_loop_exit_only_by_flags.

Theorem C18_do_outcome_continues : forall p s o u, lp s = LDoRet -> lp (lstep p s o u) = LC1.
Proof. exact do_outcome_continues. Qed.
Print Assumptions C18_do_outcome_continues.

(* ================================================================== all interleavings of loop and caller *)
(* (every variant v of stop()/wake(), every parameter set, every reachable state = every schedule)
   once a waiting stop() or a wait() has returned, the loop thread is dead and, as long as start() is not
   called, nothing is appended to the loop's event log: no do(), no sleep, no done() *)
Theorem C18_no_do_after_stop_returns : forall v p s ls,
  reach v p s -> joined_ret (cp s) = true ->
  forallb (fun l => negb (is_start l)) ls = true ->
  alive (lp s) = false /\ log (exec v p s ls) = log s.
Proof. exact no_do_after_stop_returns. Qed.
Print Assumptions C18_no_do_after_stop_returns.

Example C18_no_do_after_stop_returns_nonvacuous :
  let s := exec faithful p0 init w_swapped_ok in
  reach faithful p0 s /\ joined_ret (cp s) = true /\ count_do (log s) = 1%nat.
Proof. split; [exists w_swapped_ok; reflexivity | vm_compute; split; reflexivity]. Qed.

(* a finally stopped service refuses to start again *)
Definition restart_refused_full : Prop := forall p s ls,
  reach faithful p s -> final_ret (cp s) = true -> started_ok (cp (exec faithful p s ls)) = false.
Theorem C18_restart_refused_after_final_stop_refuted : ~ restart_refused_full.
Proof. exact restart_refused_refuted. Qed.
Print Assumptions C18_restart_refused_after_final_stop_refuted.

(* ... it does as long as no stop(forever=False) is called afterwards (which assigns __shutdown = False) *)
Theorem C18_restart_refused_after_final_stop_partial : forall v p s ls,
  reach v p s -> final_ret (cp s) = true ->
  forallb (fun l => negb (is_stop_false l)) ls = true ->
  sd (exec v p s ls) = true /\ started_ok (cp (exec v p s ls)) = false /\
  startish (cp (exec v p s ls)) = false /\
  (alive (lp s) = false -> alive (lp (exec v p s ls)) = false).
Proof. exact restart_refused_partial. Qed.
Print Assumptions C18_restart_refused_after_final_stop_partial.

(* cleanup at most once *)
Definition cleanup_at_most_once_full : Prop := forall p s,
  reach faithful p s -> (count_done (log s) <= 1)%nat.
Theorem C18_cleanup_at_most_once_refuted : ~ cleanup_at_most_once_full.
Proof. exact cleanup_at_most_once_refuted. Qed.
Print Assumptions C18_cleanup_at_most_once_refuted.

Theorem C18_cleanup_at_most_once_partial : forall v p s,
  reach v p s -> g_unfin s = false -> (count_done (log s) <= 1)%nat.
Proof. exact cleanup_at_most_once_partial. Qed.
Print Assumptions C18_cleanup_at_most_once_partial.

Theorem C18_cleanup_at_most_once_sticky : forall v p s,
  v_sticky v = true -> reach v p s -> (count_done (log s) <= 1)%nat.
Proof. exact (fun v p s Hv Hr => cleanup_at_most_once_sticky v Hv p s Hr). Qed.
Print Assumptions C18_cleanup_at_most_once_sticky.

(* cleanup exactly once when stop(forever=True, wait=True) has returned for a service that was running when
   stop was called (g_live) and whose __shutdown was not reset since (g_unfin = false) *)
Definition cleanup_exactly_once_if_final_full : Prop := forall p s,
  reach faithful p s -> cp s = CIdle (RStopped true true) -> g_live s = true -> g_unfin s = false ->
  count_done (log s) = 1%nat.
Theorem C18_cleanup_exactly_once_if_final_refuted : ~ cleanup_exactly_once_if_final_full.
Proof. exact cleanup_exactly_once_refuted. Qed.
Print Assumptions C18_cleanup_exactly_once_if_final_refuted.

(* proposed fix: assign __shutdown before __stopping *)
Theorem C18_cleanup_exactly_once_if_final_swapped : forall v p s,
  v_swap v = true ->
  reach v p s -> cp s = CIdle (RStopped true true) -> g_live s = true -> g_unfin s = false ->
  count_done (log s) = 1%nat.
Proof. exact (fun v p s Hv => cleanup_exactly_once_swapped_stmt v Hv p s). Qed.
Print Assumptions C18_cleanup_exactly_once_if_final_swapped.

(* the same without reference to the caller: whenever the thread is dead (so also after wait()) *)
Theorem C18_cleanup_exactly_once_when_dead_swapped : forall v p s,
  v_swap v = true -> reach v p s ->
  g_live s = true -> g_unfin s = false -> alive (lp s) = false -> count_done (log s) = 1%nat.
Proof. exact cleanup_exactly_once_swapped. Qed.
Print Assumptions C18_cleanup_exactly_once_when_dead_swapped.

Example C18_cleanup_exactly_once_swapped_nonvacuous :
  let s := exec swapped p0 init w_swapped_ok in
  reach swapped p0 s /\
  (cp s, g_live s, g_unfin s, count_done (log s), count_do (log s)) = (CIdle (RStopped true true), true, false, 1%nat, 1%nat).
Proof. split; [exists w_swapped_ok; reflexivity | exact swapped_example]. Qed.

(* stop() and wake() never raise *)
Definition stop_never_raises_full : Prop := forall p s, reach faithful p s -> raisy (cp s) = false.
Theorem C18_stop_never_raises_refuted : ~ stop_never_raises_full.
Proof. exact never_raises_refuted. Qed.
Print Assumptions C18_stop_never_raises_refuted.

Theorem C18_stop_never_raises_wake1 : forall v p s, v_wake1 v = true -> reach v p s -> raisy (cp s) = false.
Proof. exact stop_wake_never_raise. Qed.
Print Assumptions C18_stop_never_raises_wake1.

(* ================================================================== notifications *)
Theorem C18_fifo_exactly_once_in_order : forall p b q,
  delivered (n_evs (nm_run p b q)) = before_marker q /\
  (no_marker q -> delivered (n_evs (nm_run p b q)) = all_ids q /\ n_blocked (nm_run p b q) = true).
Proof. exact fifo_exactly_once_in_order. Qed.
Print Assumptions C18_fifo_exactly_once_in_order.

Theorem C18_queue_split : forall p b q, n_blocked (nm_run p b q) = false ->
  exists pre, q = pre ++ None :: n_rest (nm_run p b q) /\ no_marker pre /\
              delivered (n_evs (nm_run p b q)) = all_ids pre.
Proof. exact queue_split. Qed.
Print Assumptions C18_queue_split.

Theorem C18_handler_exception_does_not_stop : forall p b q1 n h q2,
  no_marker q1 ->
  exists es1 es2, n_evs (nm_run p b (q1 ++ Some (n, h) :: q2)) = es1 ++ NDeliver n :: es2
                  /\ delivered es1 = all_ids q1.
Proof. exact handler_exception_does_not_stop. Qed.
Print Assumptions C18_handler_exception_does_not_stop.

Theorem C18_delivery_independent_of_handler : forall p p' b b' q q',
  ids q = ids q' -> delivered (n_evs (nm_run p b q)) = delivered (n_evs (nm_run p' b' q')).
Proof. exact handler_independent. Qed.
Print Assumptions C18_delivery_independent_of_handler.

Example C18_notify_nonvacuous :
  delivered (n_evs (nm_run p0 0 [Some (1%N, HRaise); Some (2%N, HRaiseBase); Some (3%N, HOk); None; Some (4%N, HOk)]))
  = [1; 2; 3]%N.
Proof. vm_compute. reflexivity. Qed.
