(* PropC18.v — property theorems for C18 (service loops, notifications). *)
From Coq Require Import QArith List Bool NArith.
From CS Require Import Sx LoopModel NotifyModel LoopProofs.
Import ListNotations.

Theorem C18_noop_keeps_backoff : forall p b, after_do p b ONoop = b.
Proof. exact noop_keeps_backoff. Qed.
Print Assumptions C18_noop_keeps_backoff.
