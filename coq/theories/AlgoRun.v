(* AlgoRun.v — the provider calls of a whole run: with users acting on one side only, every call the engine issues goes
   to the other side (C03: the origin is untouched). *)
From Coq Require Import NArith List Bool Arith Lia.
From CS Require Import Sx Str PathModel PathLaws StateModel StateProofs ProvModel ProvProofs
     AlgoModel AlgoCheck AlgoState AlgoProv AlgoPath AlgoInv AlgoInit AlgoQuiet AlgoIntake AlgoSync AlgoLatest AlgoFinish AlgoSyncEntry AlgoStep
     AlgoUser AlgoCalls.
Import ListNotations.
Local Open Scope N_scope.

(* algo_run, keeping the engine-issued provider calls of every step *)
Fixpoint algo_run_calls (w : world) (l : list action) : result (world * list call) :=
  match l with
  | [] => ROk (w, [])
  | a :: r => '(w1, cs) <- algo_step w a ;; '(w2, cs2) <- algo_run_calls w1 r ;; ROk (w2, cs ++ cs2)
  end.

Lemma algo_run_calls_run : forall l w w' cs, algo_run_calls w l = ROk (w', cs) -> algo_run w l = ROk w'.
Proof.
  induction l as [|a r IH]; intros w w' cs H; simpl in *; [injection H as <- <-; reflexivity|].
  destruct (algo_step w a) as [[w1 cs1]|]; [|discriminate]. cbn [rbind] in *.
  destruct (algo_run_calls w1 r) as [[w2 cs2]|] eqn:E; [|discriminate]. cbn [rbind] in H. injection H as <- <-. apply (IH _ _ _ E).
Qed.

Lemma CallsOk_one_sided g sd cs : (forall k, g_get k (g_of g (negb sd)) = None) -> CallsOk g cs -> on_side (negb sd) cs.
Proof.
  intros Hg H. unfold on_side. eapply Forall_impl; [|exact H]. intros c (k & c0 & Hc). simpl in Hc.
  destruct (Bool.bool_dec (cl_side c) (negb sd)) as [X|X]; [exact X|]. exfalso.
  assert (cl_side c = sd) by (destruct (cl_side c), sd; simpl in *; try reflexivity; contradiction).
  rewrite H0, Hg in Hc. discriminate.
Qed.

Theorem run_calls : forall acts used lvL lvR g w w' cs sd,
  Inv g w -> NoTmp w -> Dom used lvL lvR g w -> (forall k, g_get k (g_of g (negb sd)) = None) ->
  in_F_from 1 used lvL lvR [] [] (history_of acts) = true -> one_sided sd (history_of acts) = true ->
  algo_run_calls w acts = ROk (w', cs) -> on_side (negb sd) cs.
Proof.
  induction acts as [|a r IH]; intros used lvL lvR g w w' cs sd I T D Hg HF H1 H.
  - simpl in H. injection H as <- <-. constructor.
  - simpl in H. destruct (algo_step w a) as [[w1 cs1]|c] eqn:Es; [|discriminate]. cbn [rbind] in H.
    destruct (algo_run_calls w1 r) as [[w2 cs2]|] eqn:Er; [|discriminate]. cbn [rbind] in H. injection H as <- <-.
    destruct a as [sd0 o|sd0 clk|order clk].
    + simpl in Es. injection Es as <- <-. change (history_of (AUser sd0 o :: r)) with ((sd0, o) :: history_of r) in HF, H1.
      simpl in H1. apply andb_prop in H1 as [Hs H1]. apply Bool.eqb_prop in Hs. subst sd0. simpl.
      destruct o as [rel d|rel d|rel|rel rel2|rel].
      * destruct sd; simpl in HF; apply andb_prop in HF as [Hnl HF]; destruct (new_leaf_1 _ _ Hnl) as (n & -> & Hnok & Hnew);
          change (leaf [n]) with n in HF.
        -- destruct (user_create_pres used lvL lvR g w true n d I T D Hnok Hnew) as (g1 & I1 & T1 & G1 & D1).
           apply (IH _ _ _ g1 _ w2 cs2 true I1 T1 D1 ltac:(intros; rewrite G1; apply Hg) HF H1 Er).
        -- destruct (user_create_pres used lvL lvR g w false n d I T D Hnok Hnew) as (g1 & I1 & T1 & G1 & D1).
           apply (IH _ _ _ g1 _ w2 cs2 false I1 T1 D1 ltac:(intros; rewrite G1; apply Hg) HF H1 Er).
      * destruct sd; simpl in HF.
        -- destruct (live_get rel lvR) as [cs|] eqn:El; [|discriminate]. apply andb_prop in HF as [Hf HF]. apply negb_true_iff in Hf.
           destruct (user_write_pres used lvL lvR g w true rel d cs I T D El Hf) as (g1 & I1 & T1 & G1 & D1).
           apply (IH _ _ _ g1 _ w2 cs2 true I1 T1 D1 ltac:(intros; rewrite G1; apply Hg) HF H1 Er).
        -- destruct (live_get rel lvL) as [cs|] eqn:El; [|discriminate]. apply andb_prop in HF as [Hf HF]. apply negb_true_iff in Hf.
           destruct (user_write_pres used lvL lvR g w false rel d cs I T D El Hf) as (g1 & I1 & T1 & G1 & D1).
           apply (IH _ _ _ g1 _ w2 cs2 false I1 T1 D1 ltac:(intros; rewrite G1; apply Hg) HF H1 Er).
      * destruct sd; simpl in HF.
        -- destruct (live_get rel lvR) as [cs|] eqn:El; [|discriminate].
           destruct (user_delete_pres used lvL lvR g w true rel cs I T D El) as (g1 & I1 & T1 & G1 & D1).
           apply (IH _ _ _ g1 _ w2 cs2 true I1 T1 D1 ltac:(intros; rewrite G1; apply Hg) HF H1 Er).
        -- destruct (live_get rel lvL) as [cs|] eqn:El; [|discriminate].
           destruct (user_delete_pres used lvL lvR g w false rel cs I T D El) as (g1 & I1 & T1 & G1 & D1).
           apply (IH _ _ _ g1 _ w2 cs2 false I1 T1 D1 ltac:(intros; rewrite G1; apply Hg) HF H1 Er).
      * simpl in HF. discriminate.
      * simpl in HF. discriminate.
    + destruct (engine_step_pres g w (AIntake sd0 clk) w1 cs1 I T ltac:(intros; discriminate) Es) as (I1 & T1 & O1).
      apply on_app; [apply (CallsOk_one_sided g sd cs1 Hg (engine_step_calls g w _ w1 cs1 I T Es))|].
      apply (IH used lvL lvR g w1 w2 cs2 sd I1 T1 (Dom_frame _ _ _ _ _ _ O1 D) Hg HF H1 Er).
    + destruct (engine_step_pres g w (ASync order clk) w1 cs1 I T ltac:(intros; discriminate) Es) as (I1 & T1 & O1).
      apply on_app; [apply (CallsOk_one_sided g sd cs1 Hg (engine_step_calls g w _ w1 cs1 I T Es))|].
      apply (IH used lvL lvR g w1 w2 cs2 sd I1 T1 (Dom_frame _ _ _ _ _ _ O1 D) Hg HF H1 Er).
Qed.

(* C03, origin untouched: users act on side sd only => every provider call the engine issues in the whole run
   (create / upload / delete / rename / mkdir, successful or refused) goes to the other side *)
Theorem algo_origin_untouched t0 lg0 acts sd w cs :
  lg0 <= t0 + 1 -> in_F1 (cfg_std 1) (history_of acts) = true -> one_sided sd (history_of acts) = true ->
  algo_run_calls (world_init (cfg_std 1) t0 lg0) acts = ROk (w, cs) -> on_side (negb sd) cs.
Proof.
  intros Hlg HF H1 H. unfold in_F1, in_F in HF. cbn in HF.
  apply (run_calls acts [] [] [] g0 _ w cs sd (init_inv t0 lg0 Hlg) (NoTmp_init _ _ _) (Dom_init _ _ _)); [|exact HF|exact H1|exact H].
  intros k. destruct sd; reflexivity.
Qed.
