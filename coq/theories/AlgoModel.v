(* AlgoModel.v — the engine's own closed loop as a total, executable step function, on a growing
   fragment.  World = two ProvModel providers (the ground truth users and engine act on, with their
   event logs and cursors) + the StateModel sync state + a per-entry extension for the two SideState
   fields StateModel leaves out (_last_gotten, the temp file) ; the virtual clock is the [now] field of
   the sync state.  Actions: a user operation on one side, one event-intake step of one side
   (EventManager.do), one sync step (SyncManager.do).

   What is modelled, function by function (cloudsync/event.py, sync/state.py, sync/manager.py):
     EventManager.do/_do_unsafe/_process_event/_fill_event_path/_notify_on_root_change_event   -> [intake]
     MockProvider.events/_translate_event (unfiltered)                                         -> [event_args]
     SyncState.update / update_entry / mark_changed / finished / every intercepted write       -> StateModel (reused)
     SyncState.change (path filling loop + sort + first eligible)                              -> [fill_paths], [pick] (SchedModel.pick_sorted reused)
     SyncEntry.get_latest, SyncState.unconditionally_get_latest / _get_no_info                 -> [get_latest], [uget_latest]
     SideState.needs_sync, SyncEntry.is_creation/is_deletion/is_path_change/is_rename/hash_conflict, SyncManager.path_conflict
     SyncManager.do/_sync_one_entry/pre_sync/check_revivify/sync/finished/embrace_change/delete_synced/
       handle_path_change_or_creation/check_disjoint_create/_get_untrashed_peers/download_changed/make_temp_file/
       create_synced/_create_synced/handle_hash_diff/upload_synced/handle_rename/_get_parent_conflict/
       mkdir_synced/unsafe_mkdir_synced/get_folder_file_conflict/handle_cloud_file_not_found_error/punt
   Every branch that the current fragment level does not exercise answers [OutOfFragment code] — an
   explicit constructor, never a normal-looking world.  The fragment level [lvl] gates the branches:
     1 = files directly in the roots, create / write / delete           (F1)
     2 = + file rename / move                                          (F2)
     3 = + mkdir, parent-first ordering, punting                        (F3)
   Definitions only; proofs are in AlgoInv.v / AlgoProofs.v. *)
From Coq Require Import NArith List Bool Arith QArith.
From CS Require Import Sx Str PathModel.
From CS Require StateModel ProvModel SchedModel.
Import ListNotations.
Local Open Scope N_scope.

Definition eid := nat.

Inductive result (T : Type) : Type :=
| ROk (x : T)
| OutOfFragment (code : N).
Arguments ROk {T} x.
Arguments OutOfFragment {T} code.

Definition rbind {A B} (r : result A) (f : A -> result B) : result B :=
  match r with ROk x => f x | OutOfFragment c => OutOfFragment c end.
Notation "x <- a ;; b" := (rbind a (fun x => b)) (at level 61, a at next level, right associativity).
Notation "' p <- a ;; b" := (rbind a (fun p => b)) (at level 61, p pattern, a at next level, right associativity).

(* OutOfFragment codes (each names the branch of the code that was reached) *)
Definition X_LEVEL : N := 100.        (* + fragment level needed: a branch of a later fragment *)
Definition X_STATE : N := 900.        (* + err: the state operation raised (AssertionError, KeyError, ...) *)
Definition X_OIP : N := 1.            (* path-style ids (F5) *)
Definition X_ROOT_EVENT : N := 2.     (* event for the sync root itself *)
Definition X_HASH_CONFLICT : N := 3.  (* SyncEntry.hash_conflict (F6) *)
Definition X_PATH_CONFLICT : N := 4.  (* SyncManager.path_conflict *)
Definition X_IRRELEVANT : N := 5.     (* translate() = None: outside the roots *)
Definition X_CONFLICTED : N := 6.     (* IgnoreReason.CONFLICT entry changing *)
Definition X_MISSING : N := 7.        (* handle_changed_is_missing *)
Definition X_TRASH_RENAME : N := 8.   (* sync_path set and other side trashed (rename/edit against delete) *)
Definition X_PEERS : N := 9.          (* check_disjoint_create found other entries at the translated path *)
Definition X_CREATE_EXISTS : N := 10. (* create(): CloudFileExistsError *)
Definition X_CREATE_NAME : N := 11.   (* CloudFileNameError *)
Definition X_UPLOAD_ERR : N := 12.    (* upload(): folder in the way / name error *)
Definition X_HASHDIFF_GONE : N := 13. (* handle_hash_diff with the other side trashed/missing/without oid *)
Definition X_DELETE_OTHER : N := 14.  (* delete_synced: another entry on the same path *)
Definition X_DIR_NOT_EMPTY : N := 15. (* _handle_dir_delete_not_empty (F4) *)
Definition X_REVIVIFY : N := 16.      (* check_revivify on an IRRELEVANT entry *)
Definition X_BAD_OID : N := 17.       (* an oid string that is not an id of this flavour *)
Definition X_RENAME_ERR : N := 18.    (* rename(): exists / name error *)
Definition X_OID_CHANGE : N := 19.    (* an entry's oid replaced by a different one (order of a 2-element set) *)
Definition X_NO_HASH : N := 20.       (* file info without hash *)
Definition X_MKDIR_OTHER : N := 21.   (* mkdir_synced: other entries on the path / folder-file conflict *)
Definition X_MKDIR_ERR : N := 22.     (* mkdirs(): error *)
Definition X_FNF_DEEP : N := 23.      (* handle_cloud_file_not_found_error beyond the punting branch *)
Definition X_TOO_MANY : N := 24.      (* CloudTooManyRetriesError *)
Definition X_PARENT_PRIO : N := 25.   (* parent conflict with a negative priority / trashed peer *)
Definition X_DOWNLOAD_ERR : N := 26.  (* download(): not a file *)
Definition X_REUSE : N := 27.         (* SyncState.update prior_oid handling *)
Definition X_MOVED_OUT : N := 28.     (* SyncManager.sync: the other side moved out of the sync root -> SyncState.split *)

(* ------------------------------------------------------------------ configuration *)
Record config := mkCfg {
  c_rootL : ProvModel.path; c_rootR : ProvModel.path;     (* sync roots as component paths *)
  c_oipL : bool; c_oipR : bool;             (* oid_is_path per side *)
  c_csL : bool; c_csR : bool;               (* case_sensitive per side *)
  c_filt : bool;                            (* filter_events *)
  c_lvl : nat                               (* fragment level *)
}.

Definition SEP : N := 47.
(* component path -> provider path string *)
Definition pstr (p : ProvModel.path) : str :=
  match p with [] => [SEP] | _ => flat_map (fun n => SEP :: n) p end.
(* provider path string -> components *)
Definition spath (s : str) : ProvModel.path := filter nonempty (split_runs SEP s).
(* provider object id <-> the oid string held by the state: id n is the one-character string [n] *)
Definition kstr (k : ProvModel.key) : str := match k with ProvModel.KId n => [n] | ProvModel.KPath p => pstr p end.
Definition skey (oip : bool) (s : str) : option ProvModel.key :=
  if oip then Some (ProvModel.KPath (spath s))
  else match s with [n] => Some (ProvModel.KId n) | _ => None end.

Definition cv_of (c : config) (sd : bool) : conv := StateModel.mk_conv (if sd then c_csR c else c_csL c).
Definition oip_of (c : config) (sd : bool) : bool := if sd then c_oipR c else c_oipL c.
Definition root_of (c : config) (sd : bool) : ProvModel.path := if sd then c_rootR c else c_rootL c.
Definition env_of (c : config) : StateModel.env :=
  StateModel.mkEnv (oip_of c) (cv_of c) (fun _ => 1) (fun _ _ => None) false.

(* CloudSync.translate(side, path) wrapped as SyncManager.translate: None for a falsy path *)
Definition translate (c : config) (sd : bool) (p : option str) : option str :=
  match p with
  | Some (x :: r) => PathModel.translate (cv_of c false) (cv_of c true) (pstr (c_rootL c)) (pstr (c_rootR c)) sd (x :: r)
  | _ => None
  end.

(* ------------------------------------------------------------------ the world *)
(* SideState fields that StateModel does not carry *)
Record xside := mkX {
  x_lg : N;                          (* _last_gotten, in 1/1000 *)
  x_tname : option (str * option N); (* temp_file is named for this (path, hash) *)
  x_tfile : option N                 (* the temp file exists on disk and holds this content *)
}.
Definition x0 : xside := mkX 0 None None.

Record world := mkW {
  w_cfg : config;
  w_pL : ProvModel.prov; w_pR : ProvModel.prov;
  w_st : StateModel.state;
  w_x : list (xside * xside)
}.

Definition prov_of (w : world) (sd : bool) : ProvModel.prov := if sd then w_pR w else w_pL w.
Definition with_prov (w : world) (sd : bool) (p : ProvModel.prov) : world :=
  if sd then mkW (w_cfg w) (w_pL w) p (w_st w) (w_x w) else mkW (w_cfg w) p (w_pR w) (w_st w) (w_x w).
Definition with_st (w : world) (s : StateModel.state) : world := mkW (w_cfg w) (w_pL w) (w_pR w) s (w_x w).
Definition with_x (w : world) (x : list (xside * xside)) : world := mkW (w_cfg w) (w_pL w) (w_pR w) (w_st w) x.
Definition E (w : world) : StateModel.env := env_of (w_cfg w).
Definition lvl (w : world) : nat := c_lvl (w_cfg w).

Definition getx (w : world) (e : eid) (sd : bool) : xside :=
  let p := nth e (w_x w) (x0, x0) in if sd then snd p else fst p.
Fixpoint xupd (l : list (xside * xside)) (e : nat) (f : xside * xside -> xside * xside) : list (xside * xside) :=
  match l, e with
  | [], O => [f (x0, x0)]
  | [], S e' => (x0, x0) :: xupd [] e' f
  | p :: r, O => f p :: r
  | p :: r, S e' => p :: xupd r e' f
  end.
Definition setx (w : world) (e : eid) (sd : bool) (f : xside -> xside) : world :=
  with_x w (xupd (w_x w) e (fun p => if sd then (fst p, f (snd p)) else (f (fst p), snd p))).

(* engine-issued provider mutations of one step (the observable behaviour) *)
Inductive pcall :=
| PCreate (p : ProvModel.path) (d : N)
| PUpload (k : ProvModel.key) (d : N)
| PDelete (k : ProvModel.key)
| PRename (k : ProvModel.key) (p : ProvModel.path)
| PMkdir (p : ProvModel.path).
Record call := mkCall { cl_side : bool; cl_op : pcall; cl_ok : bool; cl_targets : list ProvModel.path }.

(* ------------------------------------------------------------------ lifting the state operations *)
Definition err_code (e : StateModel.err) : N :=
  match e with StateModel.ERecursion => 0 | StateModel.EAssert => 1 | StateModel.EKey => 2 | StateModel.ETape => 3 | StateModel.EBad => 4 end.
Definition lift {T} (r : StateModel.res T) : result T :=
  match r with StateModel.Ok x => ROk x | StateModel.Err e => OutOfFragment (X_STATE + err_code e) end.
(* a state operation; the order in which _change_oid visits {old oid, new oid} is irrelevant when one of them
   is None or both are equal (the only cases let through, see [upd_entry]); the tape supplies "as listed" *)
Definition st_op (w : world) (f : StateModel.state -> StateModel.res StateModel.state) : result world :=
  match f (StateModel.st_tape (w_st w) [StateModel.TSwap false; StateModel.TSwap false]) with
  | StateModel.Ok s' => ROk (with_st w (StateModel.st_tape s' []))
  | StateModel.Err e => OutOfFragment (X_STATE + err_code e)
  end.
Definition get_e (w : world) (e : eid) : result StateModel.entry := lift (StateModel.get_ent (w_st w) e).
Definition plain (w : world) (e : eid) (sd : bool) (f : StateModel.sidest -> StateModel.sidest) : result world :=
  st_op w (fun s => StateModel.set_plain s e sd f).
Definition set_changed (w : world) (e : eid) (sd : bool) (v : StateModel.chg) : result world :=
  st_op w (fun s => StateModel.set_changed (E w) s e sd v).
Definition set_path (w : world) (e : eid) (sd : bool) (v : option str) : result world :=
  st_op w (fun s => StateModel.set_path (E w) s e sd v).
Definition set_priority (w : world) (e : eid) (v : N) : result world :=
  st_op w (fun s => StateModel.set_priority (E w) s e v).
Definition set_ignored (w : world) (e : eid) (v : StateModel.ign) : result world :=
  st_op w (fun s => StateModel.set_ignored s e v).
(* SyncState.update_entry as called by the manager (changed=False, otype=None, exists=True) *)
Definition upd_entry (w : world) (e : eid) (sd : bool) (oid : str) (path : option str) (h : option N) : result world :=
  en <- get_e w e ;;
  _ <- match StateModel.s_oid (StateModel.gs en sd) with
       | Some o => if str_eqb o oid then ROk tt else OutOfFragment X_OID_CHANGE
       | None => ROk tt
       end ;;
  st_op w (fun s => StateModel.update_entry (E w) s e sd (Some oid) path h (Some true) false None).

(* time.time(): one tick of the virtual clock *)
Definition tick (w : world) : world * N :=
  let t := StateModel.now (w_st w) + 1000 in (with_st w (StateModel.st_now (w_st w) t), t).
Definition chgval (c : StateModel.chg) : N := match c with StateModel.CNum n => n | _ => 0 end.   (* `changed or 0` *)
(* priorities are kept in tenths (punt = +10, the parent-first nudge = +1) *)
Definition PRIO_ONE : N := 10.

(* fragment gate *)
Definition gate {T} (w : world) (k : nat) (body : result T) : result T :=
  if Nat.leb k (lvl w) then body else OutOfFragment (X_LEVEL + N.of_nat k).

Definition key_of (w : world) (sd : bool) (o : str) : result ProvModel.key :=
  match skey (oip_of (w_cfg w) sd) o with Some k => ROk k | None => OutOfFragment X_BAD_OID end.

(* ------------------------------------------------------------------ predicates of SideState / SyncEntry *)
Definition ex_in_gone (x : StateModel.exst) : bool :=          (* in (TRASHED, MISSING) *)
  match x with StateModel.ExTrashed | StateModel.ExMissing => true | _ => false end.
Definition ex_is (a b : StateModel.exst) : bool :=
  match a, b with
  | StateModel.ExUnknown, StateModel.ExUnknown | StateModel.ExExists, StateModel.ExExists | StateModel.ExTrashed, StateModel.ExTrashed
  | StateModel.ExMissing, StateModel.ExMissing | StateModel.ExLikely, StateModel.ExLikely => true
  | _, _ => false
  end.
(* Provider.paths_match(a, b, for_display=True) on optional paths *)
Definition opaths_match (cv : conv) (a b : option str) : bool :=
  match a, b with
  | None, None => true
  | Some x, Some y => paths_match cv x y true
  | _, _ => false
  end.
Definition paths_differ (c : config) (sd : bool) (x : StateModel.sidest) : bool :=
  negb (opaths_match (cv_of c sd) (StateModel.s_spath x) (StateModel.s_path x)).
(* SideState.needs_sync *)
Definition needs_sync (c : config) (sd : bool) (x : StateModel.sidest) : bool :=
  StateModel.s_force x ||
  (StateModel.tchg (StateModel.s_chg x) && StateModel.tstr (StateModel.s_oid x) &&
   (negb (StateModel.oN_eqb (StateModel.s_hash x) (StateModel.s_shash x)) || paths_differ c sd x ||
    match StateModel.s_ex x with StateModel.ExTrashed | StateModel.ExLikely | StateModel.ExMissing => true | _ => false end)).
Definition is_creation (c : config) (en : StateModel.entry) (sd : bool) : bool :=
  let x := StateModel.gs en sd in
  let y := StateModel.gs en (negb sd) in
  StateModel.tstr (StateModel.s_path x) && ex_is (StateModel.s_ex x) StateModel.ExExists && needs_sync c sd x &&
  (negb (StateModel.tstr (StateModel.s_oid y)) || ex_in_gone (StateModel.s_ex y)).
Definition is_deletion (en : StateModel.entry) (sd : bool) : bool :=
  let x := StateModel.gs en sd in
  let y := StateModel.gs en (negb sd) in
  ex_is (StateModel.s_ex y) StateModel.ExExists && ex_in_gone (StateModel.s_ex x) && StateModel.tchg (StateModel.s_chg x).
Definition is_path_change (c : config) (en : StateModel.entry) (sd : bool) : bool :=
  StateModel.tstr (StateModel.s_spath (StateModel.gs en sd)) && paths_differ c sd (StateModel.gs en sd).
Definition is_rename (c : config) (en : StateModel.entry) (sd : bool) : bool :=
  let x := StateModel.gs en sd in StateModel.tstr (StateModel.s_spath x) && StateModel.tstr (StateModel.s_path x) && paths_differ c sd x.
Definition hash_conflict (en : StateModel.entry) : bool :=
  let l := StateModel.e_l en in
  let r := StateModel.e_r en in
  StateModel.thash (StateModel.s_hash l) && StateModel.thash (StateModel.s_hash r) && StateModel.tstr (StateModel.s_path l) && StateModel.tstr (StateModel.s_path r) &&
  negb (StateModel.oN_eqb (StateModel.s_hash l) (StateModel.s_shash l)) && negb (StateModel.oN_eqb (StateModel.s_hash r) (StateModel.s_shash r)).
Definition is_dir (x : StateModel.sidest) : bool := StateModel.otype_eqb (StateModel.s_otype x) StateModel.Dir.
Definition is_file (x : StateModel.sidest) : bool := StateModel.otype_eqb (StateModel.s_otype x) StateModel.File.
Definition path_conflict (c : config) (en : StateModel.entry) : bool :=
  let l := StateModel.e_l en in
  let r := StateModel.e_r en in
  StateModel.tstr (StateModel.s_path l) && StateModel.tstr (StateModel.s_path r) &&
  ((StateModel.thash (StateModel.s_shash l) && StateModel.thash (StateModel.s_shash r)) || (is_dir l && is_dir r)) &&
  StateModel.tstr (StateModel.s_spath l) && StateModel.tstr (StateModel.s_spath r) &&
  ex_is (StateModel.s_ex l) StateModel.ExExists && ex_is (StateModel.s_ex r) StateModel.ExExists &&
  negb (StateModel.ostr_eqb (StateModel.s_path r) (translate c true (StateModel.s_path l))) &&
  paths_differ c false l && paths_differ c true r &&
  negb (StateModel.ign_eqb (StateModel.e_ign en) StateModel.ITemp).

(* SyncState.lookup_path(side, path) (not stale): the live entries filed under the path, in dict order *)
Definition lookup_path (s : StateModel.state) (sd : bool) (p : option str) : list eid :=
  filter (fun e => negb (StateModel.is_discarded (StateModel.ign_of s e) || StateModel.is_conflicted (StateModel.ign_of s e)))
         (StateModel.lookup_path_stale s sd p).
Definition others (e : eid) (l : list eid) : list eid := filter (fun x => negb (Nat.eqb x e)) l.

(* ------------------------------------------------------------------ get_latest *)
(* SyncState.unconditionally_get_no_info (id-style provider) *)
Definition get_no_info (w : world) (e : eid) (sd : bool) : result world :=
  if oip_of (w_cfg w) sd then OutOfFragment X_OIP
  else plain w e sd (fun y => StateModel.w_ex y StateModel.ExTrashed).

(* `if ent.ignored == NONE and not ent[side].changed: ent[side].changed = time.time()` *)
Definition touch_changed (w : world) (e : eid) (sd : bool) : result world :=
  en <- get_e w e ;;
  if StateModel.ign_eqb (StateModel.e_ign en) StateModel.INone && negb (StateModel.tchg (StateModel.s_chg (StateModel.gs en sd)))
  then let '(w1, t) := tick w in set_changed w1 e sd (StateModel.CNum t)
  else ROk w.

Definition otype_of_kind (k : ProvModel.okind) : StateModel.otype := match k with ProvModel.KFile => StateModel.File | ProvModel.KDir => StateModel.Dir end.

(* SyncState.unconditionally_get_latest *)
Definition uget_latest (w : world) (e : eid) (sd : bool) : result world :=
  en <- get_e w e ;;
  let x := StateModel.gs en sd in
  match StateModel.s_oid x with
  | None => if ex_in_gone (StateModel.s_ex x) then ROk w else plain w e sd (fun y => StateModel.w_ex y StateModel.ExUnknown)
  | Some o =>
    k <- key_of w sd o ;;
    match ProvModel.info_oid (prov_of w sd) k with
    | None => get_no_info w e sd
    | Some i =>
      w1 <- (if StateModel.oN_eqb (StateModel.s_hash x) (ProvModel.i_data i) then ROk w
             else (wa <- plain w e sd (fun y => StateModel.w_hash y (ProvModel.i_data i)) ;; touch_changed wa e sd)) ;;
      w2 <- plain w1 e sd (fun y => StateModel.w_ex y StateModel.ExExists) ;;
      w3 <- plain w2 e sd (fun y => StateModel.w_otype y (otype_of_kind (ProvModel.i_kind i))) ;;
      match ProvModel.i_kind i, ProvModel.i_data i with
      | ProvModel.KFile, None => OutOfFragment X_NO_HASH
      | _, _ =>
        let np := nps (cv_of (w_cfg w) sd) (pstr (ProvModel.i_path i)) in
        en3 <- get_e w3 e ;;
        w4 <- (if StateModel.ostr_eqb (StateModel.s_path (StateModel.gs en3 sd)) (Some np) then ROk w3
               else (wa <- set_path w3 e sd (Some np) ;; touch_changed wa e sd)) ;;
        (* size, mtime: dirty only *)
        plain w4 e sd (fun y => y)
      end
    end
  end.

(* SyncEntry.get_latest(force, sides) *)
Fixpoint get_latest_loop (w : world) (e : eid) (force : bool) (mx : N) (sides : list bool) : result world :=
  match sides with
  | [] => ROk w
  | sd :: r =>
    w1 <- (if force || N.ltb (x_lg (getx w e sd)) mx
           then (wa <- uget_latest w e sd ;; ROk (setx wa e sd (fun x => mkX mx (x_tname x) (x_tfile x))))
           else ROk w) ;;
    get_latest_loop w1 e force mx r
  end.
Definition get_latest (w : world) (e : eid) (force : bool) (sides : list bool) : result world :=
  en <- get_e w e ;;
  let mx := fold_right (fun sd m => N.max (chgval (StateModel.s_chg (StateModel.gs en sd))) m) 0 sides in
  get_latest_loop w e force mx sides.

(* ------------------------------------------------------------------ SyncState.change *)
Fixpoint nodup_nat (l : list nat) : list nat :=
  match l with
  | [] => []
  | x :: r => if existsb (Nat.eqb x) r then nodup_nat r else x :: nodup_nat r
  end.
(* any list is read as an iteration order of the change set: its members first, in the order listed (last
   occurrence), then the members it does not mention *)
Definition norm_order (order cs : list eid) : list eid :=
  let o := filter (fun e => StateModel.set_mem e cs) (nodup_nat order) in
  o ++ filter (fun e => negb (existsb (Nat.eqb e) o)) cs.

(* the "fill in path if needed" loop *)
Definition fill_one (w : world) (e : eid) (sd : bool) : result world :=
  en <- get_e w e ;;
  let x := StateModel.gs en sd in
  if negb (StateModel.tstr (StateModel.s_path x)) && (ex_is (StateModel.s_ex x) StateModel.ExExists || ex_is (StateModel.s_ex x) StateModel.ExUnknown)
  then get_latest w e false [sd] else ROk w.
Fixpoint fill_paths (w : world) (order : list eid) : result world :=
  match order with
  | [] => ROk w
  | e :: r => w1 <- fill_one w e false ;; w2 <- fill_one w1 e true ;; fill_paths w2 r
  end.

Definition qN (n : N) : Q := inject_Z (Z.of_N n).
Definition stamp_of (c : StateModel.chg) : SchedModel.stamp := match c with StateModel.CNum n => Some (qN n) | _ => None end.
Definition to_sc (en : StateModel.entry) : SchedModel.ent :=
  {| SchedModel.pri := qN (StateModel.e_prio en); SchedModel.chL := stamp_of (StateModel.s_chg (StateModel.e_l en)); SchedModel.chR := stamp_of (StateModel.s_chg (StateModel.e_r en));
     SchedModel.oidL := StateModel.tstr (StateModel.s_oid (StateModel.e_l en)); SchedModel.oidR := StateModel.tstr (StateModel.s_oid (StateModel.e_r en)); SchedModel.inset := true;
     SchedModel.ntL := None; SchedModel.ntR := None |}.
Definition tagged (s : StateModel.state) (order : list eid) : list (nat * SchedModel.ent) :=
  map (fun i => (i, match nth_error (StateModel.ents s) i with Some en => to_sc en | None => SchedModel.new_ent end)) order.
(* sorted(change_set, key) + first eligible, ageing interval 0, clock reading [t] *)
Definition pick (s : StateModel.state) (order : list eid) (t : N) : option eid :=
  option_map fst (SchedModel.pick_sorted (SchedModel.threshold (SchedModel.cfg_exact 0 0) (qN t) 0 (qN (StateModel.lastch s))) (tagged s order)).

(* ------------------------------------------------------------------ temp files *)
(* SyncManager.make_temp_file + download_changed.  Ok false = "file not found on download" *)
Definition download_changed (w : world) (e : eid) (sd : bool) : result (world * bool) :=
  en <- get_e w e ;;
  let x := StateModel.gs en sd in
  match StateModel.s_path x, StateModel.s_oid x with
  | Some p, Some o =>
    let nm := (p, StateModel.s_hash x) in
    let xs := getx w e sd in
    let same := match x_tname xs with
                | Some (p', h') => str_eqb p p' && StateModel.oN_eqb (StateModel.s_hash x) h' && StateModel.thash (StateModel.s_hash x)
                | None => false
                end in
    let w1 := if same then w else setx w e sd (fun y => mkX (x_lg y) (Some nm) None) in
    match x_tfile (getx w1 e sd) with
    | Some _ => ROk (w1, true)
    | None =>
      k <- key_of w1 sd o ;;
      match ProvModel.download (prov_of w1 sd) k with
      | ProvModel.Ok d => ROk (setx w1 e sd (fun y => mkX (x_lg y) (x_tname y) (Some d)), true)
      | ProvModel.Err ProvModel.ENotFound =>
        w2 <- plain w1 e sd (fun y => StateModel.w_ex y StateModel.ExMissing) ;; ROk (w2, false)
      | ProvModel.Err _ => OutOfFragment X_DOWNLOAD_ERR
      end
    end
  | _, _ => OutOfFragment (X_STATE + 1)      (* assert sync[changed].oid / bytes(None) *)
  end.
(* SyncManager.clean_temps *)
Definition clean_temps (w : world) (e : eid) : world :=
  let f := fun y => mkX (x_lg y) (x_tname y) None in setx (setx w e false f) e true f.

(* SyncManager.finished(side, sync) *)
Definition finished (w : world) (e : eid) (sd : bool) : result world :=
  w1 <- set_changed w e sd (StateModel.CNum 0) ;;
  w2 <- st_op w1 (fun s => StateModel.finished (E w1) s e) ;;
  ROk (clean_temps w2 e).
(* SyncEntry.punt *)
Definition punt (w : world) (e : eid) : result world :=
  en <- get_e w e ;; set_priority w e (StateModel.e_prio en + PRIO_ONE).

(* ------------------------------------------------------------------ provider calls issued by the engine *)
Definition obj_path (p : ProvModel.prov) (k : ProvModel.key) : list ProvModel.path :=
  match ProvModel.get p k with Some (_, o) => [ProvModel.o_path o] | None => [] end.

Inductive resp := Finished | Punt | Requeue.

(* the content of the entry's temp file: what download() returned when the file was written (a temp file
   that is still there from an earlier attempt is used as it is) *)
Definition temp_data (w : world) (e : eid) (sd : bool) : result N :=
  match x_tfile (getx w e sd) with
  | Some d => ROk d
  | None => OutOfFragment (X_STATE + 1)      (* assert sync[changed].temp_file / open() fails *)
  end.

(* SyncManager.handle_cloud_file_not_found_error: the branches that end in PUNT *)
Definition handle_fnf (w : world) (e : eid) (changed : bool) : result (world * resp) :=
  let c := w_cfg w in
  en <- get_e w e ;;
  if N.ltb (5 * PRIO_ONE) (StateModel.e_prio en) then OutOfFragment X_TOO_MANY
  else
    match StateModel.s_path (StateModel.gs en changed) with
    | None => OutOfFragment (X_STATE + 1)
    | Some p =>
      let parent := dirname (cv_of c changed) p in
      match lookup_path (w_st w) changed (Some parent) with
      | [] =>
        match ProvModel.info_path (prov_of w changed) (spath parent) with
        | Some i =>
          w1 <- st_op w (fun s => StateModel.update (E w) s changed (Some StateModel.Dir) (Some (kstr (ProvModel.i_oid i)))
                                                    (Some parent) None (Some true) None) ;;
          ROk (w1, Punt)
        | None => ROk (w, Punt)
        end
      | pe :: _ =>
        pn <- get_e w pe ;;
        if negb (StateModel.tchg (StateModel.s_chg (StateModel.gs pn changed))) || negb (is_creation c pn changed) then
          if N.leb (StateModel.e_prio en) (2 * PRIO_ONE) then ROk (w, Punt)
          else if ex_is (StateModel.s_ex (StateModel.gs pn changed)) StateModel.ExExists then OutOfFragment X_FNF_DEEP
          else ROk (w, Punt)
        else ROk (w, Punt)
      end
    end.

(* SyncManager._create_synced + create_synced *)
Definition create_synced (w : world) (e : eid) (changed : bool) (tp : str) : result (world * list call * resp) :=
  let synced := negb changed in
  d <- temp_data w e changed ;;
  let p := spath tp in
  let '(pv, r) := ProvModel.create (prov_of w synced) p d in
  match r with
  | ProvModel.Ok i =>
    let w1 := with_prov w synced pv in
    let c := mkCall synced (PCreate p d) true [p] in
    en <- get_e w1 e ;;
    w2 <- plain w1 e synced (fun y => StateModel.w_shash y (ProvModel.i_data i)) ;;
    w3 <- plain w2 e synced (fun y => StateModel.w_spath y (Some (pstr (ProvModel.i_path i)))) ;;
    w4 <- plain w3 e changed (fun y => StateModel.w_shash y (StateModel.s_hash (StateModel.gs en changed))) ;;
    w5 <- plain w4 e changed (fun y => StateModel.w_spath y (StateModel.s_path (StateModel.gs en changed))) ;;
    w6 <- upd_entry w5 e synced (kstr (ProvModel.i_oid i)) (Some (pstr (ProvModel.i_path i))) (ProvModel.i_data i) ;;
    ROk (w6, [c], Finished)
  | ProvModel.Err ProvModel.ENotFound =>
    gate w 3 ('(w1, rs) <- handle_fnf w e changed ;; ROk (w1, [mkCall synced (PCreate p d) false [p]], rs))
  | ProvModel.Err ProvModel.ENameError => OutOfFragment X_CREATE_NAME
  | ProvModel.Err _ => OutOfFragment X_CREATE_EXISTS
  end.

(* SyncManager.upload_synced.  false = PUNT *)
Definition upload_synced (w : world) (e : eid) (changed : bool) : result (world * list call * bool) :=
  let synced := negb changed in
  d <- temp_data w e changed ;;
  en <- get_e w e ;;
  match StateModel.s_oid (StateModel.gs en synced) with
  | None => OutOfFragment (X_STATE + 1)
  | Some o =>
    k <- key_of w synced o ;;
    let tg := obj_path (prov_of w synced) k in
    let '(pv, r) := ProvModel.upload (prov_of w synced) k d in
    match r with
    | ProvModel.Ok i =>
      let w1 := with_prov w synced pv in
      let c := mkCall synced (PUpload k d) true tg in
      w2 <- plain w1 e synced (fun y => StateModel.w_hash y (ProvModel.i_data i)) ;;
      w3 <- plain w2 e synced (fun y => StateModel.w_shash y (ProvModel.i_data i)) ;;
      en3 <- get_e w3 e ;;
      w4 <- (if StateModel.tstr (StateModel.s_spath (StateModel.gs en3 synced)) then ROk w3
             else plain w3 e synced (fun y => StateModel.w_spath y (Some (pstr (ProvModel.i_path i))))) ;;
      w5 <- plain w4 e changed (fun y => StateModel.w_shash y (StateModel.s_hash (StateModel.gs en3 changed))) ;;
      w6 <- plain w5 e changed (fun y => StateModel.w_spath y (StateModel.s_path (StateModel.gs en3 changed))) ;;
      en6 <- get_e w6 e ;;
      w7 <- upd_entry w6 e synced (kstr (ProvModel.i_oid i)) (StateModel.s_spath (StateModel.gs en6 synced)) None ;;
      ROk (w7, [c], true)
    | ProvModel.Err ProvModel.ENotFound =>
      let c := mkCall synced (PUpload k d) false tg in
      match ProvModel.info_oid (prov_of w synced) k with
      | None => w1 <- plain w e synced (fun y => StateModel.w_ex y StateModel.ExMissing) ;; ROk (w1, [c], false)
      | Some _ => ROk (w, [c], false)
      end
    | ProvModel.Err _ => OutOfFragment X_UPLOAD_ERR
    end
  end.

(* SyncManager.handle_hash_diff *)
Definition handle_hash_diff (w : world) (e : eid) (changed : bool) : result (world * list call * resp) :=
  let synced := negb changed in
  en <- get_e w e ;;
  match StateModel.s_path (StateModel.gs en changed) with
  | None => ROk (w, [], Finished)
  | Some _ =>
    let y := StateModel.gs en synced in
    if ex_in_gone (StateModel.s_ex y) || negb (StateModel.tstr (StateModel.s_oid y)) then OutOfFragment X_HASHDIFF_GONE
    else
      '(w1, ok) <- download_changed w e changed ;;
      if negb ok then ROk (w1, [], Punt)
      else
        '(w2, cs, up) <- upload_synced w1 e changed ;;
        ROk (w2, cs, if up then Finished else Punt)
  end.

(* SyncManager.delete_synced (ignore_reason = DISCARDED) *)
Definition delete_synced (w : world) (e : eid) (changed : bool) : result (world * list call * resp) :=
  let synced := negb changed in
  let c := w_cfg w in
  en <- get_e w e ;;
  let s := w_st w in
  let same_path := others e (lookup_path s changed (StateModel.s_path (StateModel.gs en changed))) in
  if existsb (fun x => match nth_error (StateModel.ents s) x with Some xn => is_creation c xn synced | None => false end) same_path
  then OutOfFragment X_DELETE_OTHER
  else
    let tp := if StateModel.tstr (StateModel.s_path (StateModel.gs en changed)) then translate c synced (StateModel.s_path (StateModel.gs en changed)) else None in
    let there := match tp with Some t => others e (lookup_path s synced (Some t)) | None => [] end in
    if existsb (fun x => match nth_error (StateModel.ents s) x with Some xn => is_rename c xn synced | None => false end) there
    then OutOfFragment X_DELETE_OTHER
    else
      r <- match StateModel.s_oid (StateModel.gs en synced) with
           | Some o =>
             if StateModel.tstr (Some o) then
               k <- key_of w synced o ;;
               let tg := obj_path (prov_of w synced) k in
               let '(pv, r) := ProvModel.delete (prov_of w synced) k in
               match r with
               | ProvModel.Ok _ =>
                 w1 <- plain (with_prov w synced pv) e changed (fun y => StateModel.w_spath y None) ;;
                 ROk (w1, [mkCall synced (PDelete k) true tg])
               | ProvModel.Err _ => OutOfFragment X_DIR_NOT_EMPTY
               end
             else ROk (w, [])
           | None => ROk (w, [])
           end ;;
      let '(w1, cs) := r in
      w2 <- plain w1 e synced (fun y => StateModel.w_ex y StateModel.ExTrashed) ;;
      en2 <- get_e w2 e ;;
      w3 <- (if StateModel.is_conflicted (StateModel.e_ign en2) then ROk w2 else set_ignored w2 e StateModel.IDiscarded) ;;
      ROk (w3, cs, Finished).

(* SyncManager.handle_rename *)
Definition handle_rename (w : world) (e : eid) (changed : bool) (tp : str) : result (world * list call * resp) :=
  let synced := negb changed in
  let c := w_cfg w in
  en <- get_e w e ;;
  let y := StateModel.gs en synced in
  if StateModel.ostr_eqb (StateModel.s_spath y) (Some tp) then ROk (w, [], Finished)
  else if negb (StateModel.thash (StateModel.s_shash y) || is_dir y) then OutOfFragment (X_STATE + 1)
  else if opaths_match (cv_of c synced) (Some tp) (StateModel.s_spath y) then ROk (w, [], Finished)
  else
    gate w 2
      match StateModel.s_oid y with
      | None => OutOfFragment (X_STATE + 1)
      | Some o =>
        k <- key_of w synced o ;;
        let p := spath tp in
        let tg := obj_path (prov_of w synced) k ++ [p] in
        let '(pv, r) := ProvModel.rename (prov_of w synced) k p in
        match r with
        | ProvModel.Ok nk =>
          let w1 := with_prov w synced pv in
          w2 <- plain w1 e synced (fun z => StateModel.w_spath z (Some tp)) ;;
          w3 <- plain w2 e changed (fun z => StateModel.w_spath z (StateModel.s_path (StateModel.gs en changed))) ;;
          w4 <- upd_entry w3 e synced (kstr nk) (Some tp) None ;;
          ROk (w4, [mkCall synced (PRename k p) true tg], Finished)
        | ProvModel.Err ProvModel.ENotFound =>
          gate w 3 ('(w1, rs) <- handle_fnf w e changed ;; ROk (w1, [mkCall synced (PRename k p) false tg], rs))
        | ProvModel.Err _ => OutOfFragment X_RENAME_ERR
        end
      end.

(* SyncManager._get_untrashed_peers / check_disjoint_create: anything but "no other entry there" is outside *)
Definition check_disjoint_create (w : world) (e : eid) (changed : bool) (tp : str) : result bool :=
  en <- get_e w e ;;
  if negb (is_file (StateModel.gs en changed)) then ROk false
  else match others e (lookup_path (w_st w) (negb changed) (Some tp)) with
       | [] => ROk false
       | _ => OutOfFragment X_PEERS
       end.

(* Provider.mkdirs: mkdir of the leaf; on "parent not found" the ancestors are made first, then the leaf again.
   None = the call raised *)
Fixpoint mkdirs (fuel : nat) (p : ProvModel.prov) (sd : bool) (path : ProvModel.path) : ProvModel.prov * option ProvModel.key * list call :=
  let '(p1, r) := ProvModel.mkdir p path in
  match r with
  | ProvModel.Ok k => (p1, Some k, [mkCall sd (PMkdir path) true [path]])
  | ProvModel.Err ProvModel.ENotFound =>
    let c0 := mkCall sd (PMkdir path) false [path] in
    match fuel, path with
    | S f, _ :: _ =>
      let '(p2, r2, cs) := mkdirs f p sd (removelast path) in
      match r2 with
      | Some _ =>
        let '(p3, r3) := ProvModel.mkdir p2 path in
        match r3 with
        | ProvModel.Ok k => (p3, Some k, c0 :: cs ++ [mkCall sd (PMkdir path) true [path]])
        | ProvModel.Err _ => (p3, None, c0 :: cs ++ [mkCall sd (PMkdir path) false [path]])
        end
      | None => (p2, None, c0 :: cs)
      end
    | _, _ => (p, None, [c0])
    end
  | ProvModel.Err _ => (p1, None, [mkCall sd (PMkdir path) false [path]])
  end.

(* SyncManager.mkdir_synced + unsafe_mkdir_synced *)
Definition mkdir_synced (w : world) (e : eid) (changed : bool) (tp : str) : result (world * list call * resp) :=
  let synced := negb changed in
  en <- get_e w e ;;
  (* get_folder_file_conflict: live entries at the translated path that exist and are not folders *)
  let ffc := filter (fun x => match nth_error (StateModel.ents (w_st w)) x with
                              | Some xn => ex_is (StateModel.s_ex (StateModel.gs xn synced)) StateModel.ExExists &&
                                           negb (is_dir (StateModel.gs xn synced))
                              | None => false
                              end) (others e (lookup_path (w_st w) synced (Some tp))) in
  match others e (lookup_path (w_st w) changed (StateModel.s_path (StateModel.gs en changed))), ffc with
  | [], [] =>
    let p := spath tp in
    let '(pv, r, cs) := mkdirs (length p) (prov_of w synced) synced p in
    match r with
    | Some k =>
      let w1 := with_prov w synced pv in
      (* already_dir = lookup_oid(synced, oid): the entry the echo of an earlier mkdirs() made for this folder is discarded *)
      w1 <- match StateModel.lookup_oid (w_st w1) synced (Some (kstr k)) with
            | Some e' =>
              if Nat.eqb e' e then ROk w1
              else (en' <- get_e w1 e' ;;
                    if is_dir (StateModel.gs en' synced) then set_ignored w1 e' StateModel.IDiscarded else ROk w1)
            | None => ROk w1
            end ;;
      w2 <- plain w1 e synced (fun z => StateModel.w_spath z (Some tp)) ;;
      w3 <- plain w2 e changed (fun z => StateModel.w_spath z (StateModel.s_path (StateModel.gs en changed))) ;;
      w4 <- upd_entry w3 e synced (kstr k) (Some tp) None ;;
      ROk (w4, cs, Finished)
    | None => OutOfFragment X_MKDIR_ERR
    end
  | _, _ => OutOfFragment X_MKDIR_OTHER
  end.

(* SyncManager.handle_path_change_or_creation *)
Definition handle_path_change_or_creation (w : world) (e : eid) (changed : bool) : result (world * list call * resp) :=
  let synced := negb changed in
  let c := w_cfg w in
  en <- get_e w e ;;
  let x := StateModel.gs en changed in
  let y := StateModel.gs en synced in
  match translate c synced (StateModel.s_path x) with
  | None => ROk (w, [], Finished)
  | Some tp =>
    if StateModel.tstr (StateModel.s_spath x) && ex_is (StateModel.s_ex y) StateModel.ExTrashed then OutOfFragment X_TRASH_RENAME
    else if is_creation c en changed && N.eqb (StateModel.e_prio en) 0 && ex_is (StateModel.s_ex y) StateModel.ExMissing
    then ROk (w, [], Punt)
    else if is_creation c en changed then
      dj <- check_disjoint_create w e changed tp ;;
      if dj then ROk (w, [], Punt)
      else if is_dir x then gate w 3 (mkdir_synced w e changed tp)
      else
        '(w1, ok) <- download_changed w e changed ;;
        if negb ok then ROk (w1, [], Punt) else create_synced w1 e changed tp
    else handle_rename w e changed tp
  end.

(* SyncManager._get_parent_conflict: the last changed+existing entry met while walking up the ancestors *)
Fixpoint parent_conflict_loop (fuel : nat) (cv : conv) (s : StateModel.state) (sd : bool) (path : str) (acc : option eid) : option eid :=
  match fuel with
  | O => acc
  | S f =>
    let parent := dirname cv path in
    if str_eqb path parent then acc
    else
      let hit := fold_left (fun a x =>
                   match nth_error (StateModel.ents s) x with
                   | Some xn => if StateModel.tchg (StateModel.s_chg (StateModel.gs xn sd)) && ex_is (StateModel.s_ex (StateModel.gs xn sd)) StateModel.ExExists then Some x else a
                   | None => a
                   end) (lookup_path s sd (Some parent)) acc in
      parent_conflict_loop f cv s sd parent hit
  end.
Definition parent_conflict (w : world) (sd : bool) (path : str) : option eid :=
  parent_conflict_loop (S (length path)) (cv_of (w_cfg w) sd) (w_st w) sd path None.

(* SyncManager.embrace_change *)
Definition embrace_change (w : world) (e : eid) (changed : bool) : result (world * list call * resp) :=
  let synced := negb changed in
  let c := w_cfg w in
  en <- get_e w e ;;
  let x := StateModel.gs en changed in
  _ <- (if StateModel.tstr (StateModel.s_path x) || ex_is (StateModel.s_ex x) StateModel.ExExists then
          match translate c synced (StateModel.s_path x) with
          | Some _ => ROk tt
          | None => OutOfFragment X_IRRELEVANT
          end
        else ROk tt) ;;
  if StateModel.is_discarded (StateModel.e_ign en) then ROk (w, [], Finished)
  else if StateModel.is_conflicted (StateModel.e_ign en) then OutOfFragment X_CONFLICTED
  else
    pc <- (match StateModel.s_path x with
           | Some p =>
             if StateModel.tstr (Some p) && ex_is (StateModel.s_ex x) StateModel.ExExists && negb (is_deletion en changed)
             then ROk (parent_conflict w changed p) else ROk None
           | None => ROk None
           end) ;;
    match pc with
    | Some ce =>
      gate w 3
        (cn <- get_e w ce ;;
         w1 <- set_changed w ce changed (StateModel.CNum 1000) ;;         (* conflict[changed].set_aged(): changed = 1 *)
         let mn := N.min (StateModel.e_prio en) (StateModel.e_prio cn) in
         (* priorities are never negative in the fragment: sync.priority = min + 0.1; conflict.priority = min *)
         w2 <- set_priority w1 e (mn + 1) ;;
         w3 <- set_priority w2 ce mn ;;
         en3 <- get_e w3 e ;;
         if is_path_change c en3 changed && ex_is (StateModel.s_ex (StateModel.gs en3 synced)) StateModel.ExTrashed && N.ltb (2 * PRIO_ONE) (StateModel.e_prio en3)
         then OutOfFragment X_PARENT_PRIO
         else ROk (w3, [], Requeue))
    | None =>
      if oip_of c changed then OutOfFragment X_OIP       (* check_rename_is_delete_create *)
      else if ex_is (StateModel.s_ex x) StateModel.ExTrashed then
        if is_creation c en synced && is_file (StateModel.gs en synced) && StateModel.tchg (StateModel.s_chg (StateModel.gs en synced))
        then ROk (w, [], Finished)
        else delete_synced w e changed
      else if ex_is (StateModel.s_ex x) StateModel.ExMissing then OutOfFragment X_MISSING
      else
        r <- (if is_path_change c en changed || is_creation c en changed then
                '(w1, cs, rs) <- handle_path_change_or_creation w e changed ;;
                match rs with
                | Punt => ROk (w1, cs, Some Punt)
                | _ =>
                  en1 <- get_e w1 e ;;
                  if StateModel.is_discarded (StateModel.e_ign en1) then ROk (w1, cs, Some Finished) else ROk (w1, cs, None)
                end
              else ROk (w, [], None)) ;;
        let '(w1, cs, early) := r in
        match early with
        | Some rs => ROk (w1, cs, rs)
        | None =>
          en1 <- get_e w1 e ;;
          let x1 := StateModel.gs en1 changed in
          if negb (StateModel.oN_eqb (StateModel.s_hash x1) (StateModel.s_shash x1)) then
            '(w2, cs2, rs) <- handle_hash_diff w1 e changed ;; ROk (w2, cs ++ cs2, rs)
          else ROk (w1, cs, Finished)
        end
    end.

(* ------------------------------------------------------------------ SyncManager.sync *)
Inductive flow := Continue | Break (done : bool).

Definition sync_side (w : world) (e : eid) (side : bool) : result (world * list call * flow) :=
  let c := w_cfg w in
  let other := negb side in
  en <- get_e w e ;;
  let x := StateModel.gs en side in
  let y := StateModel.gs en other in
  if negb (needs_sync c side x) then
    (if StateModel.tchg (StateModel.s_chg x) then (w1 <- set_changed w e side (StateModel.CNum 0) ;; ROk (w1, [], Continue))
     else ROk (w, [], Continue))
  else if negb (StateModel.thash (StateModel.s_hash x)) && is_file x && ex_is (StateModel.s_ex x) StateModel.ExExists then
    (* `hash is None`: hashes are never the empty string *)
    w1 <- finished w e side ;; ROk (w1, [], Break true)
  else if negb (match StateModel.s_oid x with Some _ => true | None => false end) && negb (ex_is (StateModel.s_ex x) StateModel.ExTrashed) then
    w1 <- finished w e side ;; ROk (w1, [], Continue)
  else if StateModel.oN_eqb (StateModel.s_hash x) (StateModel.s_shash x) && StateModel.tchg (StateModel.s_chg y) && negb (StateModel.oN_eqb (StateModel.s_hash y) (StateModel.s_shash y))
  then ROk (w, [], Continue)
  else if path_conflict c en then OutOfFragment X_PATH_CONFLICT
  else
    '(w1, cs, rs) <- embrace_change w e side ;;
    match rs with
    | Finished => w2 <- finished w1 e side ;; ROk (w2, cs, Break true)
    | Punt => w2 <- punt w1 e ;; ROk (w2, cs, Break false)
    | Requeue => ROk (w1, cs, Break false)
    end.

(* SyncManager.moved_out_of_root(sync, side) *)
Definition moved_out_of_root (c : config) (en : StateModel.entry) (sd : bool) : bool :=
  let x := StateModel.gs en sd in
  StateModel.tstr (StateModel.s_oid x) && StateModel.tstr (StateModel.s_path x) && StateModel.tstr (StateModel.s_spath x) &&
  ex_is (StateModel.s_ex x) StateModel.ExExists &&
  match translate c (negb sd) (StateModel.s_path x) with Some _ => false | None => true end.
(* the guard at the top of SyncManager.sync: a side to sync whose peer is now outside the roots -> split *)
Definition split_guard (c : config) (en : StateModel.entry) (sd : bool) : bool :=
  StateModel.tstr (StateModel.s_oid (StateModel.gs en sd)) && needs_sync c sd (StateModel.gs en sd) && moved_out_of_root c en (negb sd).

Definition sync_entry (w : world) (e : eid) : result (world * list call) :=
  en <- get_e w e ;;
  if split_guard (w_cfg w) en false || split_guard (w_cfg w) en true then OutOfFragment X_MOVED_OUT
  else if hash_conflict en then OutOfFragment X_HASH_CONFLICT
  else
    (* sorted((LOCAL, REMOTE), key=changed or 0): stable *)
    let first := N.ltb (chgval (StateModel.s_chg (StateModel.e_r en))) (chgval (StateModel.s_chg (StateModel.e_l en))) in
    '(w1, cs1, f1) <- sync_side w e first ;;
    match f1 with
    | Break _ => ROk (w1, cs1)
    | Continue => '(w2, cs2, _) <- sync_side w1 e (negb first) ;; ROk (w2, cs1 ++ cs2)
    end.

(* SyncManager.check_revivify + pre_sync.  true = the entry was discarded and is finished *)
Definition revivify_side (w : world) (e : eid) (sd : bool) : result unit :=
  en <- get_e w e ;;
  let x := StateModel.gs en sd in
  if negb (StateModel.tchg (StateModel.s_chg x)) || StateModel.tstr (StateModel.s_spath x) || negb (StateModel.tstr (StateModel.s_oid x)) || StateModel.is_conflicted (StateModel.e_ign en)
  then ROk tt
  else match StateModel.lookup_oid (w_st w) sd (StateModel.s_oid x) with
       | Some e' => if Nat.eqb e' e then
                      (* only an IRRELEVANT entry is revived *)
                      if StateModel.ign_eqb (StateModel.e_ign en) StateModel.IIrrelevant then OutOfFragment X_REVIVIFY else ROk tt
                    else ROk tt
       | None => if StateModel.ign_eqb (StateModel.e_ign en) StateModel.IIrrelevant then OutOfFragment X_REVIVIFY else ROk tt
       end.
Definition pre_sync (w : world) (e : eid) : result (world * bool) :=
  en <- get_e w e ;;
  if StateModel.is_discarded (StateModel.e_ign en) then
    _ <- revivify_side w e false ;;
    _ <- revivify_side w e true ;;
    w1 <- finished w e false ;;
    w2 <- finished w1 e true ;;
    ROk (w2, true)
  else
    w1 <- get_latest w e false [false; true] ;;
    ROk (w1, false).

(* SyncState.storage_commit (no storage configured): the dirty set is emptied *)
Definition commit (w : world) : world := with_st w (StateModel.st_dirty (w_st w) []).

(* SyncManager.do: one sync step.  [order] = iteration order of the change set *)
Definition sync_step (w : world) (order : list eid) : result (world * list call) :=
  match StateModel.cset (w_st w) with
  | [] => ROk (w, [])
  | cs =>
    let ord := norm_order order cs in
    w1 <- fill_paths w ord ;;
    let '(w2, t) := tick w1 in
    match pick (w_st w2) ord t with
    | None => ROk (w2, [])
    | Some e =>
      '(w3, done) <- pre_sync w2 e ;;
      if done then ROk (commit w3, [])
      else '(w4, cs) <- sync_entry w3 e ;; ROk (commit w4, cs)
    end
  end.

(* ------------------------------------------------------------------ EventManager.do *)
(* MockProvider._translate_event for an id-style, unfiltered provider + _fill_event_path *)
Definition process_event (w : world) (sd : bool) (ev : ProvModel.event) : result world :=
  let c := w_cfg w in
  if oip_of c sd || c_filt c then OutOfFragment X_OIP
  else
    let oid := kstr (ProvModel.e_oid ev) in
    (* _notify_on_root_change_event *)
    _ <- match ProvModel.info_path (prov_of w sd) (root_of c sd) with
         | Some ri => if ProvModel.key_eqb (ProvModel.i_oid ri) (ProvModel.e_oid ev) then OutOfFragment X_ROOT_EVENT else ROk tt
         | None => OutOfFragment X_ROOT_EVENT
         end ;;
    let path := match StateModel.lookup_oid (w_st w) sd (Some oid) with
                | Some e => match nth_error (StateModel.ents (w_st w)) e with
                            | Some en => StateModel.s_path (StateModel.gs en sd)
                            | None => None
                            end
                | None => None
                end in
    w1 <- st_op w (fun s => StateModel.update (E w) s sd (Some (otype_of_kind (ProvModel.e_otype ev))) (Some oid) path None
                                      (Some (ProvModel.e_exists ev)) None) ;;
    ROk (commit w1).

Fixpoint process_events (w : world) (sd : bool) (l : list ProvModel.event) : result world :=
  match l with
  | [] => ROk w
  | ev :: r => w1 <- process_event w sd ev ;; process_events w1 sd r
  end.

Definition intake (w : world) (sd : bool) : result world :=
  let '(pv, evs) := ProvModel.read_events (prov_of w sd) in
  process_events (with_prov w sd pv) sd evs.

(* ------------------------------------------------------------------ user operations *)
Inductive uop :=
| UCreate (rel : ProvModel.path) (d : N)
| UWrite (rel : ProvModel.path) (d : N)
| UDelete (rel : ProvModel.path)
| URename (rel rel' : ProvModel.path)
| UMkdir (rel : ProvModel.path).

(* what harness/engine.py World.user does: look the path up, then call the provider; a refused call changes nothing *)
Definition user_op (w : world) (sd : bool) (o : uop) : world :=
  let p := prov_of w sd in
  let root := root_of (w_cfg w) sd in
  let by_path (rel : ProvModel.path) (f : ProvModel.key -> ProvModel.prov) : ProvModel.prov :=
    match ProvModel.info_path p (root ++ rel) with Some i => f (ProvModel.i_oid i) | None => p end in
  with_prov w sd
    match o with
    | UCreate rel d => fst (ProvModel.create p (root ++ rel) d)
    | UWrite rel d => by_path rel (fun k => fst (ProvModel.upload p k d))
    | UDelete rel => by_path rel (fun k => fst (ProvModel.delete p k))
    | URename rel rel' => by_path rel (fun k => fst (ProvModel.rename p k (root ++ rel')))
    | UMkdir rel => fst (ProvModel.mkdir p (root ++ rel))
    end.

(* ------------------------------------------------------------------ the step function *)
Inductive action :=
| AUser (sd : bool) (o : uop)
| AIntake (sd : bool) (clk : N)
| ASync (order : list eid) (clk : N).

(* the clock reading at the start of an engine step: never behind the model's own clock *)
Definition at_clock (w : world) (clk : N) : world := with_st w (StateModel.st_now (w_st w) (N.max (StateModel.now (w_st w)) clk)).

Definition algo_step (w : world) (a : action) : result (world * list call) :=
  match a with
  | AUser sd o => ROk (user_op w sd o, [])
  | AIntake sd clk => w1 <- intake (at_clock w clk) sd ;; ROk (w1, [])
  | ASync order clk => sync_step (at_clock w clk) order
  end.

Fixpoint algo_run (w : world) (l : list action) : result world :=
  match l with
  | [] => ROk w
  | a :: r => '(w1, _) <- algo_step w a ;; algo_run w1 r
  end.

(* ------------------------------------------------------------------ the initial world *)
(* Both accounts hold the account root and an empty sync root; the engine has been started and has run to
   quiescence once (EventManager: first cursor, walk of the empty root; SyncManager: the two root folders
   paired).  That state is a constant here and is compared with the real engine's state at the start of every
   run of the tie. *)
Definition root_name (sd : bool) : ProvModel.name := if sd then [114;101;109;111;116;101] else [108;111;99;97;108].
Definition prov_init (oipf cs : bool) (sd : bool) : ProvModel.prov :=
  let p0 := ProvModel.init {| ProvModel.c_oidpath := oipf; ProvModel.c_cs := cs; ProvModel.c_forbidden := [] |} in
  let p1 := fst (ProvModel.mkdir p0 [root_name sd]) in
  ProvModel.with_cursor p1 (length (ProvModel.p_log p1)).

Definition root_side (sd : bool) (chg : StateModel.chg) : StateModel.sidest :=
  StateModel.mkSide StateModel.Dir (Some (kstr (ProvModel.KId 1))) (Some (pstr [root_name sd])) None (Some (pstr [root_name sd])) None
            StateModel.ExExists chg false.
Definition state_init (t0 : N) : StateModel.state :=
  let e0 := StateModel.mkEnt (root_side false (StateModel.CNum 0)) (root_side true StateModel.CNone) StateModel.INone 0 in
  (* the entry first made for the remote root folder; emptied when the pairing gave its id to entry 0 *)
  let e1 := StateModel.mkEnt (StateModel.w_chg (StateModel.new_side StateModel.Dir) StateModel.CFalse)
                     (StateModel.mkSide StateModel.Dir None (Some (pstr [root_name true])) None None None StateModel.ExExists
                                        StateModel.CFalse false) StateModel.IDiscarded 0 in
  StateModel.mkState [e0; e1]
             [(kstr (ProvModel.KId 1), 0%nat)] [(kstr (ProvModel.KId 1), 0%nat)]
             [(pstr [root_name false], [(kstr (ProvModel.KId 1), 0%nat)])] [(pstr [root_name true], [(kstr (ProvModel.KId 1), 0%nat)])]
             [] [] t0 t0 [].

Definition cfg_std (l : nat) : config :=
  mkCfg [root_name false] [root_name true] false false true true false l.

Definition world_init (c : config) (t0 lg0 : N) : world :=
  mkW c (prov_init (c_oipL c) (c_csL c) false) (prov_init (c_oipR c) (c_csR c) true) (state_init t0)
      [(mkX lg0 None None, mkX lg0 None None); (x0, mkX t0 None None)].

(* ------------------------------------------------------------------ the fragment domains, decidable *)
(* a history = the user operations of a run in the order they happen *)
Definition history := list (bool * uop).

Definition flavour_ok (c : config) : bool :=
  negb (c_oipL c) && negb (c_oipR c) && c_csL c && c_csR c && negb (c_filt c).

Definition name_ok (n : ProvModel.name) : bool :=
  nonempty n && forallb (fun ch => negb (N.eqb ch SEP) && negb (N.eqb ch 92)) n.

Definition path_mem (p : ProvModel.path) (l : list ProvModel.path) : bool := existsb (ProvModel.path_eqb p) l.
Definition path_del (p : ProvModel.path) (l : list ProvModel.path) : list ProvModel.path := filter (fun q => negb (ProvModel.path_eqb p q)) l.

(* The domain of fragment level [lvl].  Ghost bookkeeping while reading the history:
     used : every leaf name ever given to an object by a user (new names must be new on both sides);
     lvL/lvR : the files the user of that side created and has not deleted, each with the contents written to it so far;
     dsL/dsR : the folders the user of that side created (files are created / moved only into the root or these).
   F1: create / write / delete of files directly in the root; a written content is new for that file
       (the engine compares content hashes; see the refuted full-strength statement in PropAlgo.v);
   F2: + rename / move of an own file to a new name;  F3: + mkdir under the root or an own folder. *)
Definition leaf (p : ProvModel.path) : ProvModel.name := last p [].
Definition dir_ok (lvl : nat) (ds : list ProvModel.path) (parent : ProvModel.path) : bool :=
  match parent with [] => true | _ => Nat.leb 3 lvl && path_mem parent ds end.
Definition name_mem (n : ProvModel.name) (l : list ProvModel.name) : bool := existsb (str_eqb n) l.
Definition new_leaf (lvl : nat) (used : list ProvModel.name) (ds : list ProvModel.path) (rel : ProvModel.path) : bool :=
  match rel with
  | [] => false
  | _ => name_ok (leaf rel) && negb (name_mem (leaf rel) used) && dir_ok lvl ds (removelast rel)
  end.
Fixpoint live_get (p : ProvModel.path) (l : list (ProvModel.path * list N)) : option (list N) :=
  match l with
  | [] => None
  | (q, cs) :: r => if ProvModel.path_eqb p q then Some cs else live_get p r
  end.
Definition live_del (p : ProvModel.path) (l : list (ProvModel.path * list N)) : list (ProvModel.path * list N) :=
  filter (fun x => negb (ProvModel.path_eqb p (fst x))) l.
Definition n_mem (d : N) (l : list N) : bool := existsb (N.eqb d) l.

Fixpoint in_F_from (lvl : nat) (used : list ProvModel.name) (lvL lvR : list (ProvModel.path * list N))
         (dsL dsR : list ProvModel.path) (h : history) : bool :=
  match h with
  | [] => true
  | (sd, o) :: r =>
    let lv := if sd then lvR else lvL in
    let ds := if sd then dsR else dsL in
    let go used lv' ds' := if sd then in_F_from lvl used lvL lv' dsL ds' r else in_F_from lvl used lv' lvR ds' dsR r in
    match o with
    | UCreate rel d => new_leaf lvl used ds rel && go (leaf rel :: used) ((rel, [d]) :: lv) ds
    | UWrite rel d =>
      match live_get rel lv with
      | Some cs => negb (n_mem d cs) && go used ((rel, d :: cs) :: live_del rel lv) ds
      | None => false
      end
    | UDelete rel =>
      match live_get rel lv with
      | Some _ => go used (live_del rel lv) ds
      | None => false
      end
    | URename rel rel' =>
      Nat.leb 2 lvl &&
      match live_get rel lv with
      | Some cs => new_leaf lvl used ds rel' && go (leaf rel' :: used) ((rel', cs) :: live_del rel lv) ds
      | None => false
      end
    | UMkdir rel => Nat.leb 3 lvl && new_leaf lvl used ds rel && go (leaf rel :: used) lv (rel :: ds)
    end
  end.
Definition in_F (c : config) (h : history) : bool :=
  flavour_ok c && Nat.leb 1 (c_lvl c) && Nat.leb (c_lvl c) 3 && in_F_from (c_lvl c) [] [] [] [] [] h.
Definition in_F1 (c : config) (h : history) : bool := Nat.eqb (c_lvl c) 1 && in_F c h.
Definition in_F2 (c : config) (h : history) : bool := Nat.eqb (c_lvl c) 2 && in_F c h.
Definition in_F3 (c : config) (h : history) : bool := Nat.eqb (c_lvl c) 3 && in_F c h.

Definition history_of (l : list action) : history :=
  flat_map (fun a => match a with AUser sd o => [(sd, o)] | _ => [] end) l.

(* one-sided history: users act on side [sd] only *)
Definition one_sided (sd : bool) (h : history) : bool := forallb (fun x => Bool.eqb (fst x) sd) h.

(* ------------------------------------------------------------------ wire protocol *)
Definition sx_ostr (o : option str) : sx := sx_opt sx_str o.
Definition sx_xside (x : xside) : sx := L [A (x_lg x); sx_bool (match x_tfile x with Some _ => true | None => false end)].
Definition sx_call (c : call) : sx :=
  L [sx_bool (cl_side c);
     match cl_op c with
     | PCreate p d => L [A 0; ProvModel.sx_path p; A d]
     | PUpload k d => L [A 1; ProvModel.sx_key k; A d]
     | PDelete k => L [A 2; ProvModel.sx_key k]
     | PRename k p => L [A 3; ProvModel.sx_key k; ProvModel.sx_path p]
     | PMkdir p => L [A 4; ProvModel.sx_path p]
     end;
     sx_bool (cl_ok c); sx_list ProvModel.sx_path (cl_targets c)].
Definition sx_objs (p : ProvModel.prov) : sx :=
  sx_list (fun o => L [ProvModel.sx_path (ProvModel.o_path o); ProvModel.sx_key (ProvModel.o_oid o); ProvModel.sx_kind (ProvModel.o_kind o); A (ProvModel.o_data o);
                       sx_bool (ProvModel.o_exists o)]) (ProvModel.p_heap p).
Definition sx_world (w : world) (cs : list call) : sx :=
  let s := w_st w in
  L [A 0;
     sx_list StateModel.sx_entry (StateModel.ents s);
     sx_list (fun e => L [sx_xside (getx w e false); sx_xside (getx w e true)]) (seq 0 (length (StateModel.ents s)));
     sx_list sx_nat (StateModel.cset s);
     L [A (StateModel.now s); A (StateModel.lastch s)];
     L [sx_objs (w_pL w); sx_nat (ProvModel.p_cursor (w_pL w)); sx_nat (length (ProvModel.p_log (w_pL w)))];
     L [sx_objs (w_pR w); sx_nat (ProvModel.p_cursor (w_pR w)); sx_nat (length (ProvModel.p_log (w_pR w)))];
     sx_list sx_call cs;
     L [StateModel.sx_oidx (StateModel.oidsL s); StateModel.sx_oidx (StateModel.oidsR s); StateModel.sx_pidx (StateModel.pathsL s); StateModel.sx_pidx (StateModel.pathsR s)]].

Definition un_uop (x : sx) : option uop :=
  match x with
  | L [A 0; p; A d] => StateModel.omap (fun p => UCreate p d) (ProvModel.un_path p)
  | L [A 1; p; A d] => StateModel.omap (fun p => UWrite p d) (ProvModel.un_path p)
  | L [A 2; p] => StateModel.omap UDelete (ProvModel.un_path p)
  | L [A 3; p; q] => StateModel.obind (ProvModel.un_path p) (fun p => StateModel.omap (URename p) (ProvModel.un_path q))
  | L [A 4; p] => StateModel.omap UMkdir (ProvModel.un_path p)
  | _ => None
  end.
Definition un_action (x : sx) : option action :=
  match x with
  | L [A 0; sd; o] => StateModel.obind (un_bool sd) (fun sd => StateModel.omap (AUser sd) (un_uop o))
  | L [A 1; sd; A clk] => StateModel.omap (fun sd => AIntake sd clk) (un_bool sd)
  | L [A 2; ord; A clk] => StateModel.omap (fun ord => ASync ord clk) (un_list StateModel.un_nat ord)
  | _ => None
  end.
Definition un_config (x : sx) : option config :=
  match x with
  | L [rl; rr; ol; or_; cl; cr; f; A l] =>
    StateModel.obind (ProvModel.un_path rl) (fun rl => StateModel.obind (ProvModel.un_path rr) (fun rr =>
    StateModel.obind (un_bool ol) (fun ol => StateModel.obind (un_bool or_) (fun or_ =>
    StateModel.obind (un_bool cl) (fun cl => StateModel.obind (un_bool cr) (fun cr =>
    StateModel.omap (fun f => mkCfg rl rr ol or_ cl cr f (N.to_nat l)) (un_bool f)))))))
  | _ => None
  end.

(* every world after each action; stops at the first OutOfFragment, reported as (1 code) *)
Fixpoint trace_run (w : world) (l : list action) : list sx :=
  match l with
  | [] => []
  | a :: r => match algo_step w a with
              | ROk (w1, cs) => sx_world w1 cs :: trace_run w1 r
              | OutOfFragment c => [L [A 1; A c]]
              end
  end.

(* request (0 config t0 lg0 (actions))  ->  (initial-world world-after-each-action ...)
   request (1 config (actions))         ->  in_F (domain of the configured level) of the history of the actions *)
Definition run_model (x : sx) : sx :=
  match x with
  | L [A 0; c; A t0; A lg0; acts] =>
    match un_config c, un_list un_action acts with
    | Some c, Some acts => let w := world_init c t0 lg0 in L (sx_world w [] :: trace_run w acts)
    | _, _ => sx_malformed
    end
  | L [A 1; c; acts] =>
    match un_config c, un_list un_action acts with
    | Some c, Some acts => sx_bool (in_F c (history_of acts))
    | _, _ => sx_malformed
    end
  | _ => sx_malformed
  end.
