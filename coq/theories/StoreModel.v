(* StoreModel.v — executable models of the storage back ends of cloudsync and the abstract
   specification they are compared with (property C09).

   (i)   SqliteStorage (cloudsync/sync/sqlite_storage.py): one table
           CREATE TABLE cloud (id INTEGER PRIMARY KEY, tag TEXT NOT NULL, serialization BLOB)
         [id] is an alias of SQLite's rowid (no AUTOINCREMENT): INSERT without an id takes
         1 + the largest rowid currently in the table, over ALL tags (1 for an empty table), so
         the id of a deleted last row is handed out again.  UPDATE / DELETE / SELECT-one say
         WHERE id = ? AND tag = ?; read_all(tag) says WHERE tag = ?; read_all() has no WHERE.
         Results are modelled as the Python values the methods return: create -> lastrowid,
         update -> rowcount (ValueError when 0), delete -> None, read -> column 0 of the first
         selected row (`return row[0]`, since the repository's `fix:` commit 9d0a73d; before it the
         row tuple itself) or None, read_all -> dict.
   (ii)  MockStorage (cloudsync/tests/fixtures/mock_storage.py): a dict tag -> dict id -> value
         shared between instances, and a per-instance counter [cursor] starting at 0 that is the
         next id (one counter for all tags).  read of a missing id raises ValueError.
   (iii) the specification: a finite map (tag, id) -> value, as an association list, and the
         relation [sp_ok s op result s'] saying which result a map-like store may give.

   Values ("blobs") are opaque to both back ends: [blob := list N] (the bytes; the harness also
   encodes integer / float cursors and digests of large blobs as lists that cannot be confused
   with byte strings).  Tags are strings = list N (code points).
   Definitions only; proofs are in StoreProofs.v. *)
From Coq Require Import NArith List Bool.
From CS Require Import Sx Str.
Import ListNotations.

Definition blob := list N.
Definition tag := list N.
Definition key := (tag * N)%type.          (* (tag, id) *)
Definition key_eqb (a b : key) : bool := N.eqb (snd a) (snd b) && str_eqb (fst a) (fst b).

(* ------------------------------------------------------------------ Python dict (insertion ordered) *)
Section Dict.
  Context {K V : Type} (eqb : K -> K -> bool).
  (* d.get(k) *)
  Fixpoint dict_get (k : K) (d : list (K * V)) : option V :=
    match d with
    | [] => None
    | (k', v) :: r => if eqb k' k then Some v else dict_get k r
    end.
  (* d[k] = v : an existing key keeps its position *)
  Fixpoint dict_set (k : K) (v : V) (d : list (K * V)) : list (K * V) :=
    match d with
    | [] => [(k, v)]
    | (k', v') :: r => if eqb k' k then (k', v) :: r else (k', v') :: dict_set k v r
    end.
  (* d.pop(k, None) *)
  Definition dict_del (k : K) (d : list (K * V)) : list (K * V) :=
    filter (fun kv => negb (eqb (fst kv) k)) d.
End Dict.

(* a list of pairs denotes a dict when its keys are pairwise different *)
Definition is_dict {K V} (d : list (K * V)) : Prop := NoDup (map fst d).

(* {tag: {id: value}} — the shape of read_all() and of MockStorage's storage_dict *)
Definition ddict := list (tag * list (N * blob)).
Definition dd_get (g : ddict) (t : tag) (i : N) : option blob :=
  match dict_get str_eqb t g with
  | Some d => dict_get N.eqb i d
  | None => None
  end.

(* ------------------------------------------------------------------ calls and results *)
Inductive op :=
| Create (t : tag) (b : blob)               (* create(tag, value) *)
| Update (t : tag) (b : blob) (i : N)       (* update(tag, value, eid) *)
| Delete (t : tag) (i : N)                  (* delete(tag, eid) *)
| Read (t : tag) (i : N)                    (* read(tag, eid) *)
| ReadAll (t : option tag)                  (* read_all(tag) / read_all() *)
| Reopen.                                   (* close(); a new instance over the same file / dict *)

Inductive err := EValue.                    (* ValueError *)

Inductive res :=
| RId (i : N)                               (* create: the new id *)
| RCount (n : N)                            (* update: number of rows updated *)
| RNone                                     (* None *)
| RBytes (b : blob)                         (* read: the value *)
| RDict (d : list (N * blob))               (* read_all(tag) *)
| RDictAll (g : ddict)                      (* read_all() *)
| RErr (e : err)
| RUnit.                                    (* Reopen *)

Fixpoint run_ops {C} (step : C -> op -> res * C) (c : C) (ops : list op) : list res * C :=
  match ops with
  | [] => ([], c)
  | o :: r =>
    let (x, c1) := step c o in
    let (xs, c2) := run_ops step c1 r in
    (x :: xs, c2)
  end.

(* ------------------------------------------------------------------ (i) SqliteStorage *)
Definition srow := (N * tag * blob)%type.   (* id, tag, serialization *)
Definition row_id (r : srow) : N := fst (fst r).
Definition row_tag (r : srow) : tag := snd (fst r).
Definition row_blob (r : srow) : blob := snd r.
Definition table := list srow.

(* WHERE id = ? AND tag = ? *)
Definition where_id_tag (i : N) (t : tag) (r : srow) : bool := N.eqb (row_id r) i && str_eqb (row_tag r) t.
(* WHERE tag = ? *)
Definition where_tag (t : tag) (r : srow) : bool := str_eqb (row_tag r) t.

(* rowid of the next INSERT: 1 + max rowid in use (all tags) *)
Definition sq_max (T : table) : N := fold_right (fun r m => N.max (row_id r) m) 0%N T.
Definition sq_next (T : table) : N := N.succ (sq_max T).

(* `if row_tag not in ret: ret[row_tag] = {}`; `ret[row_tag][eid] = row_serialization` *)
Definition grp_add (g : ddict) (r : srow) : ddict :=
  let d := match dict_get str_eqb (row_tag r) g with Some d => d | None => [] end in
  dict_set str_eqb (row_tag r) (dict_set N.eqb (row_id r) (row_blob r) d) g.

(* SET serialization = ? on the rows selected by the WHERE clause *)
Definition upd_row (i : N) (t : tag) (b : blob) (r : srow) : srow :=
  if where_id_tag i t r then (row_id r, row_tag r, b) else r.

Definition sq_step (T : table) (o : op) : res * table :=
  match o with
  | Create t b =>
    let i := sq_next T in (RId i, T ++ [(i, t, b)])
  | Update t b i =>
    let n := length (filter (where_id_tag i t) T) in
    let T' := map (upd_row i t b) T in
    (match n with O => RErr EValue | _ => RCount (N.of_nat n) end, T')
  | Delete t i =>
    (RNone, filter (fun r => negb (where_id_tag i t r)) T)
  | Read t i =>
    (match filter (where_id_tag i t) T with
     | r :: _ => RBytes (row_blob r)       (* `for row in rows: return row[0]` *)
     | [] => RNone
     end, T)
  | ReadAll (Some t) =>
    (RDict (fold_left (fun d r => dict_set N.eqb (row_id r) (row_blob r) d) (filter (where_tag t) T) []), T)
  | ReadAll None =>
    (RDictAll (fold_left grp_add T []), T)
  | Reopen => (RUnit, T)                    (* the object holds nothing but the connection *)
  end.

(* ------------------------------------------------------------------ (ii) MockStorage *)
Record mstate := { m_dict : ddict; m_cursor : N }.

(* self.storage_dict.setdefault(tag, dict()) — done by every method that names a tag *)
Definition md_default (t : tag) (g : ddict) : ddict :=
  match dict_get str_eqb t g with Some _ => g | None => g ++ [(t, [])] end.
Definition md_inner (t : tag) (g : ddict) : list (N * blob) :=
  match dict_get str_eqb t g with Some d => d | None => [] end.
Definition nonempty_inner (e : tag * list (N * blob)) : bool :=
  match snd e with [] => false | _ => true end.

Definition m_step (m : mstate) (o : op) : res * mstate :=
  let c := m_cursor m in
  match o with
  | Create t b =>
    let g := md_default t (m_dict m) in
    (RId c, {| m_dict := dict_set str_eqb t (dict_set N.eqb c b (md_inner t g)) g; m_cursor := N.succ c |})
  | Update t b i =>
    let g := md_default t (m_dict m) in
    match dict_get N.eqb i (md_inner t g) with
    | None => (RErr EValue, {| m_dict := g; m_cursor := c |})
    | Some _ => (RCount 1, {| m_dict := dict_set str_eqb t (dict_set N.eqb i b (md_inner t g)) g; m_cursor := c |})
    end
  | Delete t i =>
    let g := md_default t (m_dict m) in
    (RNone, {| m_dict := dict_set str_eqb t (dict_del N.eqb i (md_inner t g)) g; m_cursor := c |})
  | Read t i =>
    let g := md_default t (m_dict m) in
    (match dict_get N.eqb i (md_inner t g) with
     | None => RErr EValue                 (* `raise ValueError` where the interface says None *)
     | Some b => RBytes b
     end, {| m_dict := g; m_cursor := c |})
  | ReadAll (Some t) =>
    let g := md_default t (m_dict m) in
    (RDict (md_inner t g), {| m_dict := g; m_cursor := c |})
  | ReadAll None =>
    (RDictAll (filter nonempty_inner (m_dict m)), m)
  | Reopen => (RUnit, {| m_dict := m_dict m; m_cursor := 0%N |})   (* MockStorage(same_dict) *)
  end.

Definition m_init : mstate := {| m_dict := []; m_cursor := 0%N |}.

(* ------------------------------------------------------------------ (iii) specification *)
Definition smap := list (key * blob).
Definition sp_get (s : smap) (k : key) : option blob := dict_get key_eqb k s.
Definition sp_set (k : key) (b : blob) (s : smap) : smap := dict_set key_eqb k b s.
Definition sp_del (k : key) (s : smap) : smap := dict_del key_eqb k s.
Definition sp_equiv (s1 s2 : smap) : Prop := forall k, sp_get s1 k = sp_get s2 k.

(* [sp_ok s o r s']: a map-like store in state s may answer call o with r and go to s'. *)
Inductive sp_ok (s : smap) : op -> res -> smap -> Prop :=
| ok_create t b i :                         (* an id no live row of that tag is using *)
    sp_get s (t, i) = None -> sp_ok s (Create t b) (RId i) (sp_set (t, i) b s)
| ok_update t b i b0 :
    sp_get s (t, i) = Some b0 -> sp_ok s (Update t b i) (RCount 1) (sp_set (t, i) b s)
| ok_update_missing t b i :                 (* update of a missing row is an error, nothing changes *)
    sp_get s (t, i) = None -> sp_ok s (Update t b i) (RErr EValue) s
| ok_delete t i :                           (* idempotent, never an error *)
    sp_ok s (Delete t i) RNone (sp_del (t, i) s)
| ok_read_hit t i b :                       (* exactly the bytes last written ... *)
    sp_get s (t, i) = Some b -> sp_ok s (Read t i) (RBytes b) s
| ok_read_miss t i :                        (* ... or nothing *)
    sp_get s (t, i) = None -> sp_ok s (Read t i) RNone s
| ok_read_all t d :                         (* exactly the live rows of the tag *)
    is_dict d -> (forall i, dict_get N.eqb i d = sp_get s (t, i)) ->
    sp_ok s (ReadAll (Some t)) (RDict d) s
| ok_read_all_tags g :                      (* exactly the live rows of all tags *)
    is_dict g -> (forall t d, In (t, d) g -> is_dict d) ->
    (forall t i, dd_get g t i = sp_get s (t, i)) ->
    sp_ok s (ReadAll None) (RDictAll g) s
| ok_reopen :                               (* every acknowledged write is still there *)
    sp_ok s Reopen RUnit s.

(* a whole history: calls with their results *)
Inductive sp_trace : smap -> list (op * res) -> smap -> Prop :=
| tr_nil s : sp_trace s [] s
| tr_cons s o r s1 tr s2 : sp_ok s o r s1 -> sp_trace s1 tr s2 -> sp_trace s ((o, r) :: tr) s2.

(* abstraction functions *)
Definition abs_sq (T : table) : smap := map (fun r => ((row_tag r, row_id r), row_blob r)) T.
Definition abs_dd (g : ddict) : smap :=
  flat_map (fun e => map (fun ib => ((fst e, fst ib), snd ib)) (snd e)) g.

(* MockStorage.read of a missing id raises instead of returning None *)
Definition unraise (o : op) (r : res) : res :=
  match o, r with Read _ _, RErr EValue => RNone | _, _ => r end.

Definition view_raw (_ : op) (r : res) : res := r.

(* calls paired with the (viewed) results *)
Definition history (view : op -> res -> res) (ops : list op) (rs : list res) : list (op * res) :=
  map (fun e => (fst e, view (fst e) (snd e))) (combine ops rs).

(* the effect of the acknowledged writes of a history on a map (used by the concurrency theorem) *)
Definition apply_ack (s : smap) (e : op * res) : smap :=
  match e with
  | (Create t b, RId i) => sp_set (t, i) b s
  | (Update t b i, RCount _) => sp_set (t, i) b s
  | (Delete t i, _) => sp_del (t, i) s
  | _ => s
  end.

(* the tag a call names (read_all() and Reopen name none) *)
Definition op_tag (o : op) : option tag :=
  match o with
  | Create t _ | Update t _ _ | Delete t _ | Read t _ => Some t
  | ReadAll ot => ot
  | Reopen => None
  end.
(* calls that may change or remove the value under key k (a create cannot: it takes an unused id) *)
Definition touches (k : key) (o : op) : bool :=
  match o with
  | Update t _ i | Delete t i => key_eqb (t, i) k
  | _ => false
  end.
Definition is_delete (o : op) : bool := match o with Delete _ _ => true | _ => false end.
(* the ids handed out by the creates of a history *)
Fixpoint created_ids (ops : list op) (rs : list res) : list N :=
  match ops, rs with
  | Create _ _ :: ops', RId i :: rs' => i :: created_ids ops' rs'
  | _ :: ops', _ :: rs' => created_ids ops' rs'
  | _, _ => []
  end.

(* interleavings of the call lists of several threads; each call is one atomic step *)
Inductive interleaving {X} : list (list X) -> list X -> Prop :=
| il_done ps : Forall (fun p => p = []) ps -> interleaving ps []
| il_step ps1 a p ps2 l :
    interleaving (ps1 ++ p :: ps2) l -> interleaving (ps1 ++ (a :: p) :: ps2) (a :: l).

(* ------------------------------------------------------------------ wire protocol *)
Definition un_op (x : sx) : option op :=
  match x with
  | L [A 0; t; b] =>
    match un_str t, un_str b with Some t, Some b => Some (Create t b) | _, _ => None end
  | L [A 1; t; b; A i] =>
    match un_str t, un_str b with Some t, Some b => Some (Update t b i) | _, _ => None end
  | L [A 2; t; A i] =>
    match un_str t with Some t => Some (Delete t i) | _ => None end
  | L [A 3; t; A i] =>
    match un_str t with Some t => Some (Read t i) | _ => None end
  | L [A 4; t] =>
    match un_opt un_str t with Some ot => Some (ReadAll ot) | None => None end
  | L [A 5] => Some Reopen
  | _ => None
  end.

Definition sx_dict (d : list (N * blob)) : sx := L (map (fun ib => L [A (fst ib); sx_str (snd ib)]) d).

Definition sx_res (r : res) : sx :=
  match r with
  | RId i => L [A 0; A i]
  | RCount n => L [A 1; A n]
  | RNone => L [A 2]
  | RBytes b => L [A 3; sx_str b]
  | RDict d => L [A 5; sx_dict d]
  | RDictAll g => L [A 6; L (map (fun e => L [sx_str (fst e); sx_dict (snd e)]) g)]
  | RErr EValue => L [A 7; A 0]
  | RUnit => L [A 8]
  end.

(* (backend ops): backend 0 = SqliteStorage on an empty file, 1 = MockStorage over an empty dict;
   answer: the list of results, one per call *)
Definition run (x : sx) : sx :=
  match x with
  | L [A 0; ops] =>
    match un_list un_op ops with
    | Some ops => L (map sx_res (fst (run_ops sq_step [] ops)))
    | None => sx_malformed
    end
  | L [A 1; ops] =>
    match un_list un_op ops with
    | Some ops => L (map sx_res (fst (run_ops m_step m_init ops)))
    | None => sx_malformed
    end
  | _ => sx_malformed
  end.
