(* AlgoProv.v — the provider model as the algorithm-layer proofs see it: for an id-style, case-sensitive
   provider every object is heap cell k with id [KId k]; an invariant of the dictionary ([PWF]) makes lookups by
   id and by path transparent; each mutation is characterised by what it does to the heap and to the event log. *)
From Coq Require Import NArith List Bool Arith Lia.
From CS Require Import Sx Str ProvModel ProvProofs.
Import ListNotations.

Definition kid_of (k : nat) : key := KId (N.of_nat k).

Record PWF (p : prov) : Prop := {
  pw_idstyle : c_oidpath (p_cfg p) = false;
  pw_cs : c_cs (p_cfg p) = true;
  pw_noforbid : c_forbidden (p_cfg p) = [];
  pw_oid : forall k o, nth_error (p_heap p) k = Some o -> o_oid o = kid_of k;
  pw_dict_id : forall n, dget (KId n) (p_dict p) = if Nat.ltb (N.to_nat n) (length (p_heap p)) then Some (N.to_nat n) else None;
  pw_dict_path : forall q r, dget (KPath q) (p_dict p) = Some r -> exists o, nth_error (p_heap p) r = Some o /\ o_path o = q;
  pw_live_path : forall k o, nth_error (p_heap p) k = Some o -> o_exists o = true -> dget (KPath (o_path o)) (p_dict p) = Some k;
  pw_cursor : p_cursor p <= length (p_log p)
}.

Lemma np_cs p q : c_cs (p_cfg p) = true -> np (p_cfg p) q = q.
Proof. intros H. unfold np. rewrite H. reflexivity. Qed.

Lemma get_kid p k o : PWF p -> nth_error (p_heap p) k = Some o -> get p (kid_of k) = Some (k, o).
Proof.
  intros W H. unfold get, kid_of. rewrite (pw_dict_id p W), Nnat.Nat2N.id.
  assert (Hl: k < length (p_heap p)) by (apply nth_error_Some; congruence).
  apply Nat.ltb_lt in Hl. rewrite Hl, H. reflexivity.
Qed.
Lemma get_kid_none p k : PWF p -> nth_error (p_heap p) k = None -> get p (kid_of k) = None.
Proof.
  intros W H. unfold get, kid_of. rewrite (pw_dict_id p W), Nnat.Nat2N.id.
  apply nth_error_None in H. destruct (Nat.ltb_spec k (length (p_heap p))); [lia|reflexivity].
Qed.
Lemma get_live_kid p k o : PWF p -> nth_error (p_heap p) k = Some o ->
  get_live p (kid_of k) = if o_exists o then Some (k, o) else None.
Proof. intros W H. unfold get_live. rewrite (get_kid p k o W H). reflexivity. Qed.
Lemma info_oid_kid p k o : PWF p -> nth_error (p_heap p) k = Some o ->
  info_oid p (kid_of k) = if o_exists o then Some (info_of o) else None.
Proof. intros W H. unfold info_oid. rewrite (get_live_kid p k o W H). destruct (o_exists o); reflexivity. Qed.
Lemma info_oid_kid_none p k : PWF p -> nth_error (p_heap p) k = None -> info_oid p (kid_of k) = None.
Proof. intros W H. unfold info_oid, get_live. rewrite (get_kid_none p k W H). reflexivity. Qed.

Lemma get_path p q : PWF p ->
  get p (KPath q) = match dget (KPath q) (p_dict p) with
                    | Some r => match nth_error (p_heap p) r with Some o => Some (r, o) | None => None end
                    | None => None
                    end.
Proof. reflexivity. Qed.

(* a live object is found under its own path *)
Lemma info_path_live p k o : PWF p -> nth_error (p_heap p) k = Some o -> o_exists o = true ->
  info_path p (o_path o) = Some (info_of o).
Proof.
  intros W H Hl. unfold info_path, info_oid, get_live, get, pkey. rewrite (np_cs p _ (pw_cs p W)).
  rewrite (pw_live_path p W k o H Hl), H, Hl. reflexivity.
Qed.
(* whatever info_path returns is a live object at that path *)
Lemma info_path_some p q i : PWF p -> info_path p q = Some i ->
  exists k o, nth_error (p_heap p) k = Some o /\ o_exists o = true /\ o_path o = q /\ i = info_of o /\ i_oid i = kid_of k.
Proof.
  intros W H. unfold info_path, info_oid, get_live, get, pkey in H. rewrite (np_cs p _ (pw_cs p W)) in H.
  destruct (dget (KPath q) (p_dict p)) as [r|] eqn:Ed; [|discriminate].
  destruct (pw_dict_path p W q r Ed) as (o & Ho & Hp). rewrite Ho in H.
  destruct (o_exists o) eqn:El; [|discriminate]. injection H as <-.
  exists r, o. repeat split; auto. simpl. apply (pw_oid p W r o Ho).
Qed.
(* no live object at a path: info_path says None *)
Lemma info_path_none p q : PWF p ->
  (forall k o, nth_error (p_heap p) k = Some o -> o_exists o = true -> o_path o <> q) -> info_path p q = None.
Proof.
  intros W H. destruct (info_path p q) as [i|] eqn:E; [|reflexivity].
  destruct (info_path_some p q i W E) as (k & o & A & B & C & _). exfalso. apply (H k o A B C).
Qed.

(* ------------------------------------------------------------------ events *)
Definition ev_for (k : nat) (ev : event) : bool := key_eqb (e_oid ev) (kid_of k).
Definition pend (p : prov) (k : nat) : bool := existsb (ev_for k) (events_from p).

Lemma events_from_emit p ev : p_cursor p <= length (p_log p) -> events_from (emit p ev) = events_from p ++ [ev].
Proof.
  intros H. unfold events_from, emit. simpl. rewrite skipn_app.
  replace (p_cursor p - length (p_log p)) with 0 by lia. reflexivity.
Qed.
Lemma pend_emit p ev k : p_cursor p <= length (p_log p) -> pend (emit p ev) k = pend p k || ev_for k ev.
Proof. intros H. unfold pend. rewrite (events_from_emit p ev H), existsb_app. simpl. rewrite orb_false_r. reflexivity. Qed.

Lemma read_events_all p : PWF p ->
  read_events p = (with_cursor p (length (p_log p)), events_from p).
Proof. intros W. unfold read_events. pose proof (pw_cursor p W) as H. apply Nat.leb_le in H. rewrite H. reflexivity. Qed.
Lemma events_from_read p : events_from (with_cursor p (length (p_log p))) = [].
Proof. unfold events_from. simpl. apply skipn_all. Qed.

(* ------------------------------------------------------------------ dictionary facts *)
Lemma dget_dset_same k r d : dget k (dset k r d) = Some r.
Proof. unfold dset. simpl. rewrite key_eqb_refl. reflexivity. Qed.
Lemma dget_dremove_other k k' d : k <> k' -> dget k (dremove k' d) = dget k d.
Proof.
  intros Hne. induction d as [|[a b] d IH]; simpl; [reflexivity|].
  destruct (key_eqb k' a) eqn:E1.
  - apply key_eqb_eq in E1. subst a. rewrite IH. destruct (key_eqb k k') eqn:E2; [apply key_eqb_eq in E2; congruence|reflexivity].
  - simpl. rewrite IH. reflexivity.
Qed.
Lemma dget_dset_other k k' r d : k <> k' -> dget k (dset k' r d) = dget k d.
Proof.
  intros Hne. unfold dset. simpl. destruct (key_eqb k k') eqn:E; [apply key_eqb_eq in E; congruence|].
  apply dget_dremove_other. exact Hne.
Qed.

(* ------------------------------------------------------------------ create *)
Definition new_obj (p : prov) (q : path) (kd : okind) (d : N) : obj :=
  {| o_path := q; o_oid := kid_of (length (p_heap p)); o_kind := kd; o_data := d; o_exists := true |}.
Definition create_ev (o : obj) : event := snapshot EvCreate o None.

Lemma alloc_spec p q kd d : PWF p ->
  (forall k o, nth_error (p_heap p) k = Some o -> o_exists o = true -> o_path o <> q) ->
  let o := new_obj p q kd d in
  exists p', alloc p q kd d = (p', o) /\ p_heap p' = p_heap p ++ [o] /\ p_log p' = p_log p ++ [create_ev o] /\
             p_cursor p' = p_cursor p /\ p_cfg p' = p_cfg p /\ PWF p'.
Proof.
  intros W Hfree o. unfold alloc. rewrite (pw_idstyle p W). fold (kid_of (length (p_heap p))). fold (new_obj p q kd d). fold o.
  eexists. split; [reflexivity|]. simpl. split; [reflexivity|]. split; [reflexivity|]. split; [reflexivity|]. split; [reflexivity|].
  set (n := length (p_heap p)).
  assert (Hstore: store (p_cfg p) (p_dict p) n o = dset (kid_of n) n (dset (KPath q) n (p_dict p))).
  { unfold store. rewrite (np_cs p _ (pw_cs p W)). simpl.
    assert (Hm: dmem (kid_of n) (dset (KPath q) n (p_dict p)) = false).
    { unfold dmem. rewrite dget_dset_other by (unfold kid_of; discriminate). unfold kid_of. rewrite (pw_dict_id p W), Nnat.Nat2N.id.
      fold n. rewrite Nat.ltb_irrefl. reflexivity. }
    fold n. rewrite Hm. reflexivity. }
  constructor; unfold emit, with_log, with_dict, with_heap; cbn [p_cfg p_heap p_dict p_log p_cursor].
  - apply (pw_idstyle p W).
  - apply (pw_cs p W).
  - apply (pw_noforbid p W).
  - intros k x H. destruct (Nat.lt_ge_cases k n) as [Hl|Hg].
    + rewrite nth_error_app1 in H by exact Hl. apply (pw_oid p W k x H).
    + destruct (Nat.eq_dec k n) as [->|Hne].
      * unfold n in H. rewrite nth_error_app2, Nat.sub_diag in H by lia. simpl in H. injection H as <-. reflexivity.
      * assert (nth_error (p_heap p ++ [o]) k = None) by (apply nth_error_None; rewrite app_length; simpl; fold n; lia). congruence.
  - intros m. rewrite Hstore, app_length. cbn [length]. fold n.
    destruct (N.eq_dec m (N.of_nat n)) as [->|Hne].
    + fold (kid_of n). rewrite dget_dset_same, Nnat.Nat2N.id.
      destruct (Nat.ltb_spec n (n + 1)); [reflexivity|lia].
    + rewrite dget_dset_other by (unfold kid_of; congruence). rewrite dget_dset_other by discriminate.
      rewrite (pw_dict_id p W). fold n.
      assert (N.to_nat m <> n) by (intros E; apply Hne; rewrite <- E, Nnat.N2Nat.id; reflexivity).
      destruct (Nat.ltb_spec (N.to_nat m) n), (Nat.ltb_spec (N.to_nat m) (n + 1)); try reflexivity; lia.
  - intros q' r. rewrite Hstore. rewrite dget_dset_other by (unfold kid_of; discriminate).
    destruct (path_eqb q' q) eqn:Eq.
    + apply path_eqb_eq in Eq. subst q'. rewrite dget_dset_same. intros H. injection H as <-.
      exists o. split; [|reflexivity]. unfold n. rewrite nth_error_app2, Nat.sub_diag by lia. reflexivity.
    + rewrite dget_dset_other by (intros E; injection E as E; subst; rewrite (proj2 (path_eqb_eq q q) eq_refl) in Eq; discriminate).
      intros H. destruct (pw_dict_path p W q' r H) as (x & Hx & Hp). exists x. split; [|exact Hp].
      rewrite nth_error_app1; [exact Hx|]. apply nth_error_Some. congruence.
  - intros k x H Hl. rewrite Hstore. rewrite dget_dset_other by (unfold kid_of; discriminate).
    destruct (Nat.lt_ge_cases k n) as [Hlt|Hg].
    + rewrite nth_error_app1 in H by exact Hlt.
      assert (Hne: o_path x <> q) by (apply (Hfree k x H Hl)).
      rewrite dget_dset_other by congruence. apply (pw_live_path p W k x H Hl).
    + destruct (Nat.eq_dec k n) as [->|Hne].
      * unfold n in H. rewrite nth_error_app2, Nat.sub_diag in H by lia. cbn [nth_error] in H. injection H as <-. cbn [o_path new_obj]. apply dget_dset_same.
      * assert (nth_error (p_heap p ++ [o]) k = None) by (apply nth_error_None; rewrite app_length; simpl; fold n; lia). congruence.
  - rewrite app_length. pose proof (pw_cursor p W). lia.
Qed.

Lemma no_forbidden c (q : path) : c_forbidden c = [] -> has_forbidden c q = false.
Proof.
  intros H. unfold has_forbidden. rewrite H.
  assert (Ha: forall a : list N, existsb (fun ch : N => existsb (N.eqb ch) []) a = false) by (induction a; auto).
  induction q as [|a q' IH]; [reflexivity|]. cbn [existsb]. rewrite Ha. exact IH.
Qed.

(* create of a file whose parent folder is the live folder [par] and whose path is free *)
Lemma create_spec p q d : PWF p ->
  (forall k o, nth_error (p_heap p) k = Some o -> o_exists o = true -> o_path o <> q) ->
  verify_parent p q = None ->
  let o := new_obj p q KFile d in
  exists p', create p q d = (p', Ok (info_of o)) /\ p_heap p' = p_heap p ++ [o] /\ p_log p' = p_log p ++ [create_ev o] /\
             p_cursor p' = p_cursor p /\ p_cfg p' = p_cfg p /\ PWF p'.
Proof.
  intros W Hfree Hvp o. unfold create.
  assert (Hf: has_forbidden (p_cfg p) q = false) by (apply no_forbidden; apply (pw_noforbid p W)).
  rewrite Hf, (info_path_none p q W Hfree), Hvp.
  destruct (alloc_spec p q KFile d W Hfree) as (p' & A & B). rewrite A. exists p'. split; [reflexivity|exact B].
Qed.

(* ------------------------------------------------------------------ upload / delete / download of a live file *)
Lemma upload_spec p k o d : PWF p -> nth_error (p_heap p) k = Some o -> o_exists o = true -> o_kind o = KFile ->
  let o' := set_data o d in
  exists p', upload p (kid_of k) d = (p', Ok (info_of o')) /\ p_heap p' = hset (p_heap p) k o' /\
             p_log p' = p_log p ++ [snapshot EvUpdate o' None] /\ p_cursor p' = p_cursor p /\ p_cfg p' = p_cfg p /\ PWF p'.
Proof.
  intros W H Hl Hk o'. unfold upload. rewrite (get_live_kid p k o W H), Hl, Hk.
  eexists. split; [reflexivity|]. simpl. split; [reflexivity|]. split; [reflexivity|]. split; [reflexivity|]. split; [reflexivity|].
  assert (Hlt: k < length (p_heap p)) by (apply nth_error_Some; congruence).
  constructor; simpl.
  - apply (pw_idstyle p W).
  - apply (pw_cs p W).
  - apply (pw_noforbid p W).
  - intros j x Hx. apply nth_hset in Hx as [(-> & -> & _)|(Hne & Hx)]; [apply (pw_oid p W k o H)|apply (pw_oid p W j x Hx)].
  - intros m. rewrite hset_length. apply (pw_dict_id p W).
  - intros q r Hd. destruct (pw_dict_path p W q r Hd) as (x & Hx & Hp).
    destruct (Nat.eq_dec r k) as [->|Hne].
    + exists o'. split; [apply nth_hset_same; exact Hlt|]. assert (x = o) by congruence. subst x. rewrite <- Hp. reflexivity.
    + exists x. split; [rewrite nth_hset_other by exact Hne; exact Hx|exact Hp].
  - intros j x Hx Hlx. apply nth_hset in Hx as [(-> & -> & _)|(Hne & Hx)].
    + apply (pw_live_path p W k o H Hl).
    + apply (pw_live_path p W j x Hx Hlx).
  - rewrite app_length. pose proof (pw_cursor p W). lia.
Qed.

Lemma upload_dead p k o d : PWF p -> nth_error (p_heap p) k = Some o -> o_exists o = false ->
  upload p (kid_of k) d = (p, Err ENotFound).
Proof. intros W H Hl. unfold upload. rewrite (get_live_kid p k o W H), Hl. reflexivity. Qed.

Lemma delete_spec p k o : PWF p -> nth_error (p_heap p) k = Some o -> o_exists o = true -> o_kind o = KFile ->
  let o' := set_exists o false in
  exists p', delete p (kid_of k) = (p', Ok tt) /\ p_heap p' = hset (p_heap p) k o' /\
             p_log p' = p_log p ++ [snapshot EvDelete o' None] /\ p_cursor p' = p_cursor p /\ p_cfg p' = p_cfg p /\ PWF p'.
Proof.
  intros W H Hl Hk o'. unfold delete. rewrite (get_live_kid p k o W H), Hl, Hk.
  eexists. split; [reflexivity|]. simpl. split; [reflexivity|]. split; [reflexivity|]. split; [reflexivity|]. split; [reflexivity|].
  assert (Hlt: k < length (p_heap p)) by (apply nth_error_Some; congruence).
  constructor; simpl.
  - apply (pw_idstyle p W).
  - apply (pw_cs p W).
  - apply (pw_noforbid p W).
  - intros j x Hx. apply nth_hset in Hx as [(-> & -> & _)|(Hne & Hx)]; [apply (pw_oid p W k o H)|apply (pw_oid p W j x Hx)].
  - intros m. rewrite hset_length. apply (pw_dict_id p W).
  - intros q r Hd. destruct (pw_dict_path p W q r Hd) as (x & Hx & Hp).
    destruct (Nat.eq_dec r k) as [->|Hne].
    + exists o'. split; [apply nth_hset_same; exact Hlt|]. assert (x = o) by congruence. subst x. rewrite <- Hp. reflexivity.
    + exists x. split; [rewrite nth_hset_other by exact Hne; exact Hx|exact Hp].
  - intros j x Hx Hlx. apply nth_hset in Hx as [(-> & -> & _)|(Hne & Hx)].
    + discriminate.
    + apply (pw_live_path p W j x Hx Hlx).
  - rewrite app_length. pose proof (pw_cursor p W). lia.
Qed.
Lemma delete_dead p k o : PWF p -> nth_error (p_heap p) k = Some o -> o_exists o = false ->
  delete p (kid_of k) = (p, Ok tt).
Proof. intros W H Hl. unfold delete. rewrite (get_live_kid p k o W H), Hl. reflexivity. Qed.

Lemma download_kid p k o : PWF p -> nth_error (p_heap p) k = Some o -> o_kind o = KFile ->
  download p (kid_of k) = if o_exists o then Ok (o_data o) else Err ENotFound.
Proof. intros W H Hk. unfold download. rewrite (get_live_kid p k o W H). destruct (o_exists o); [rewrite Hk|]; reflexivity. Qed.

Lemma PWF_with_cursor p : PWF p -> PWF (with_cursor p (length (p_log p))).
Proof. intros W. destruct W. constructor; simpl; auto. Qed.

(* ------------------------------------------------------------------ inversion of successful calls *)
Lemma info_path_none_free p q : PWF p -> info_path p q = None ->
  forall k o, nth_error (p_heap p) k = Some o -> o_exists o = true -> o_path o <> q.
Proof.
  intros W H k o Hn Hl Hp. pose proof (info_path_live p k o W Hn Hl) as Hi. rewrite Hp in Hi. congruence.
Qed.

Lemma create_inv p q d pv i : PWF p -> create p q d = (pv, Ok i) ->
  let o := new_obj p q KFile d in
  i = info_of o /\ p_heap pv = p_heap p ++ [o] /\ p_log pv = p_log p ++ [create_ev o] /\
  p_cursor pv = p_cursor p /\ p_cfg pv = p_cfg p /\ PWF pv.
Proof.
  intros W H o. unfold create in H. destruct (has_forbidden (p_cfg p) q); [discriminate|].
  destruct (info_path p q) as [j|] eqn:Ei; [discriminate|]. destruct (verify_parent p q); [discriminate|].
  destruct (alloc_spec p q KFile d W (info_path_none_free p q W Ei)) as (p' & A & B & C & D & F & G).
  rewrite A in H. injection H as <- <-. repeat (split; [first [reflexivity|assumption]|]). exact G.
Qed.

Lemma upload_inv p k d pv i : PWF p -> upload p (kid_of k) d = (pv, Ok i) ->
  exists o, nth_error (p_heap p) k = Some o /\ o_exists o = true /\ o_kind o = KFile /\
    i = info_of (set_data o d) /\ p_heap pv = hset (p_heap p) k (set_data o d) /\
    p_log pv = p_log p ++ [snapshot EvUpdate (set_data o d) None] /\ p_cursor pv = p_cursor p /\ p_cfg pv = p_cfg p /\ PWF pv.
Proof.
  intros W H. destruct (nth_error (p_heap p) k) as [o|] eqn:En.
  - destruct (o_exists o) eqn:El.
    + destruct (o_kind o) eqn:Ek.
      * destruct (upload_spec p k o d W En El Ek) as (p' & A & B1 & B2 & B3 & B4 & B5). rewrite A in H. injection H as <- <-. exists o.
        repeat (split; [first [reflexivity|assumption]|]). exact B5.
      * unfold upload in H. rewrite (get_live_kid p k o W En), El, Ek in H. discriminate.
    + rewrite (upload_dead p k o d W En El) in H. discriminate.
  - unfold upload, get_live in H. rewrite (get_kid_none p k W En) in H. discriminate.
Qed.
