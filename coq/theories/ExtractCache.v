(* Extraction of the C19 model.  ExtrOcamlBasic only: bool, option, unit, prod, list, sumbool, sumor
   map to OCaml's; N / positive / nat stay the extracted inductive types. *)
From Coq Require Import ExtrOcamlBasic.
From CS Require Import Sx CacheModel.
Definition run := CacheModel.run.
Extraction "extract/cache/model.ml" run.
