(* ThreadModel.v — C15: threads, one re-entrant lock, accesses to the state the lock guards.

   A *trace* is the global order in which the threads of one process performed
     Acq t      thread t returned from lock.acquire()            (RLock: owner + depth)
     Rel t      thread t is about to call lock.release()
     Mut t x    thread t changed the guarded state (x says what: the transformer is [apply])
     Read t x   thread t read the guarded state as part of a read-modify-write
     Tau t x    anything else t did: a yield, provider I/O, an unsynchronised observation
                (e.g. the `busy` property); the theorems say nothing about what a Tau sees.
   This is the vocabulary the harness observer records on the real engine
   (harness/families_c15.py: wrappers around SyncState.lock, SyncState.updated, the attribute
   setters of SideState/SyncEntry/SyncState and the index containers).

   [lock_ok]/[lock_next] are the RLock semantics; a trace is [well_locked] when every Acq/Rel is one the lock
   allows (acquisition by a non-owner blocks, only the owner releases) and [disciplined] when every
   Mut/Read of thread t happens while t owns the lock.  [violations] / [lock_errors] are the executable
   acceptors (extracted; proved to decide exactly these predicates in ThreadProofs.v).
   [ser_blocks] cuts a trace into atomic steps — single lock-free events and whole critical sections
   (outermost Acq .. matching Rel of one thread) — moving the events other threads performed while the
   lock was held in front of the section; [serialise] is their concatenation. *)
From Coq Require Import Arith NArith List Bool.
From CS Require Import Sx.
Import ListNotations.

Definition thread := N.
(* None = free; Some (t, d) = held by t, acquired d+1 times *)
Definition lockst := option (thread * nat).

Section Events.
Variable X : Type.

Inductive event :=
| Acq (t : thread)
| Rel (t : thread)
| Mut (t : thread) (x : X)
| Read (t : thread) (x : X)
| Tau (t : thread) (x : X).

Definition tid (e : event) : thread :=
  match e with Acq t | Rel t | Mut t _ | Read t _ | Tau t _ => t end.

Definition is_access (e : event) : bool :=
  match e with Mut _ _ | Read _ _ => true | _ => false end.

Definition owns (l : lockst) (t : thread) : bool :=
  match l with Some (u, _) => N.eqb u t | None => false end.

(* an event of a thread other than the one holding the lock *)
Definition foreign (l : lockst) (e : event) : bool :=
  match l with Some (u, _) => negb (N.eqb (tid e) u) | None => false end.

Definition lock_ok (l : lockst) (e : event) : bool :=
  match e with
  | Acq t => match l with None => true | Some (u, _) => N.eqb u t end
  | Rel t => match l with None => false | Some (u, _) => N.eqb u t end
  | _ => true
  end.

(* total: a step the lock does not allow leaves it unchanged *)
Definition lock_next (l : lockst) (e : event) : lockst :=
  match e with
  | Acq t => match l with
             | None => Some (t, 0)
             | Some (u, d) => if N.eqb u t then Some (u, S d) else l
             end
  | Rel t => match l with
             | None => None
             | Some (u, d) => if N.eqb u t then match d with 0 => None | S d' => Some (u, d') end else l
             end
  | _ => l
  end.

Fixpoint lock_after (l : lockst) (tr : list event) : lockst :=
  match tr with [] => l | e :: r => lock_after (lock_next l e) r end.

(* ---- the predicates, as one fold *)
Fixpoint all_from (P : lockst -> event -> Prop) (l : lockst) (tr : list event) : Prop :=
  match tr with [] => True | e :: r => P l e /\ all_from P (lock_next l e) r end.

Definition ok_lock (l : lockst) (e : event) : Prop := lock_ok l e = true.
Definition ok_disc (l : lockst) (e : event) : Prop := is_access e = true -> owns l (tid e) = true.
Definition ok_serial (l : lockst) (e : event) : Prop := foreign l e = false.

Definition well_locked_from := all_from ok_lock.
Definition disciplined_from := all_from ok_disc.
Definition serial_from := all_from ok_serial.
Definition well_locked (tr : list event) : Prop := well_locked_from None tr.
Definition disciplined (tr : list event) : Prop := disciplined_from None tr.
(* while the lock is held nobody but its holder does anything: critical sections run one after another *)
Definition serial (tr : list event) : Prop := serial_from None tr.

(* ---- executable acceptors: positions (0-based) of the offending events *)
Fixpoint violations_from (l : lockst) (i : N) (tr : list event) : list N :=
  match tr with
  | [] => []
  | e :: r =>
    let rest := violations_from (lock_next l e) (N.succ i) r in
    if is_access e && negb (owns l (tid e)) then i :: rest else rest
  end.
Definition violations (tr : list event) : list N := violations_from None 0%N tr.
(* first access performed by a thread that does not own the lock *)
Definition check_trace (tr : list event) : option N := hd_error (violations tr).

Fixpoint lock_errors_from (l : lockst) (i : N) (tr : list event) : list N :=
  match tr with
  | [] => []
  | e :: r =>
    let rest := lock_errors_from (lock_next l e) (N.succ i) r in
    if lock_ok l e then rest else i :: rest
  end.
Definition lock_errors (tr : list event) : list N := lock_errors_from None 0%N tr.
Definition check_locked (tr : list event) : option N := hd_error (lock_errors tr).

(* ---- projections *)
Definition proj (w : thread) (tr : list event) : list event := filter (fun e => N.eqb (tid e) w) tr.
Definition accesses (tr : list event) : list event := filter is_access tr.

(* ---- serialisation into atomic steps.  [sec] = the holder's events of the section in progress. *)
Fixpoint ser_blocks (l : lockst) (sec : list event) (tr : list event) : list (list event) :=
  match tr with
  | [] => match sec with [] => [] | _ => [sec] end
  | e :: r =>
    match l with
    | None =>
      match lock_next None e with
      | None => [e] :: ser_blocks None [] r
      | Some h => ser_blocks (Some h) [e] r
      end
    | Some (u, d) =>
      if N.eqb (tid e) u then
        match lock_next l e with
        | None => (sec ++ [e]) :: ser_blocks None [] r
        | Some h => ser_blocks (Some h) (sec ++ [e]) r
        end
      else [e] :: ser_blocks l sec r
    end
  end.
Definition atomic_steps (tr : list event) : list (list event) := ser_blocks None [] tr.
Definition serialise (tr : list event) : list event := concat (atomic_steps tr).

(* ---- meaning of accesses: any state, any transformer, any observation function *)
Variable state : Type.
Variable value : Type.
Variable apply : state -> thread -> X -> state.
Variable observe : state -> thread -> X -> value.

Fixpoint exec (s : state) (tr : list event) : state :=
  match tr with
  | [] => s
  | Mut t x :: r => exec (apply s t x) r
  | _ :: r => exec s r
  end.

(* what every Read saw, in trace order *)
Fixpoint seen (s : state) (tr : list event) : list (thread * value) :=
  match tr with
  | [] => []
  | Mut t x :: r => seen (apply s t x) r
  | Read t x :: r => (t, observe s t x) :: seen s r
  | _ :: r => seen s r
  end.

End Events.

Arguments Acq {X}. Arguments Rel {X}. Arguments Mut {X}. Arguments Read {X}. Arguments Tau {X}.
Arguments tid {X}. Arguments is_access {X}. Arguments foreign {X}. Arguments lock_ok {X}. Arguments lock_next {X}.
Arguments lock_after {X}. Arguments all_from {X}. Arguments ok_lock {X}. Arguments ok_disc {X}. Arguments ok_serial {X}.
Arguments well_locked_from {X}. Arguments disciplined_from {X}. Arguments serial_from {X}.
Arguments well_locked {X}. Arguments disciplined {X}. Arguments serial {X}.
Arguments violations_from {X}. Arguments violations {X}. Arguments check_trace {X}.
Arguments lock_errors_from {X}. Arguments lock_errors {X}. Arguments check_locked {X}.
Arguments proj {X}. Arguments accesses {X}. Arguments ser_blocks {X}. Arguments atomic_steps {X}. Arguments serialise {X}.
Arguments exec {X state}. Arguments seen {X state value}.

(* ------------------------------------------------------------------ wire
   request  (0 ((kind tid x) ...))   kind: 0 Acq, 1 Rel, 2 Mut, 3 Read, 4 Tau
   answer   ((lock errors ...) (undisciplined accesses ...) (final lock: () | (owner depth)) )
   request  (1 ((kind tid x) ...))   -> the serialised trace, same encoding *)
Definition un_event (x : sx) : option (event N) :=
  match x with
  | L [A 0%N; A t; A _] => Some (Acq t)
  | L [A 1%N; A t; A _] => Some (Rel t)
  | L [A 2%N; A t; A k] => Some (Mut t k)
  | L [A 3%N; A t; A k] => Some (Read t k)
  | L [A 4%N; A t; A k] => Some (Tau t k)
  | _ => None
  end.

Definition sx_event (e : event N) : sx :=
  match e with
  | Acq t => L [A 0%N; A t; A 0%N]
  | Rel t => L [A 1%N; A t; A 0%N]
  | Mut t k => L [A 2%N; A t; A k]
  | Read t k => L [A 3%N; A t; A k]
  | Tau t k => L [A 4%N; A t; A k]
  end.

Definition sx_lock (l : lockst) : sx :=
  match l with None => L [] | Some (t, d) => L [A t; A (N.of_nat (S d))] end.

Definition run (x : sx) : sx :=
  match x with
  | L [A 0%N; evs] =>
    match un_list un_event evs with
    | Some tr => L [L (map A (lock_errors tr)); L (map A (violations tr)); sx_lock (lock_after None tr)]
    | None => sx_malformed
    end
  | L [A 1%N; evs] =>
    match un_list un_event evs with
    | Some tr => L (map sx_event (serialise tr))
    | None => sx_malformed
    end
  | _ => sx_malformed
  end.
