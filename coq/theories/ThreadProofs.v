(* ThreadProofs.v — C15: a well-locked, disciplined trace is serialisable; the acceptors decide the predicates.
   Everything is for ALL traces: any length, any number of threads, any nesting depth of the re-entrant lock,
   any state type, any transformer semantics of Mut and any observation function of Read. *)
From Coq Require Import Arith NArith List Bool Lia.
From CS Require Import Sx ThreadModel.
Import ListNotations.

Section Proofs.
Variable X : Type.
Notation event := (event X).
Implicit Types (e : event) (tr : list event) (l : lockst).

(* ------------------------------------------------------------------ folds *)
Lemma lock_after_app : forall tr1 tr2 l, lock_after l (tr1 ++ tr2) = lock_after (lock_after l tr1) tr2.
Proof. induction tr1 as [|e r IH]; simpl; intros; [reflexivity | apply IH]. Qed.

Lemma all_from_app : forall (P : lockst -> event -> Prop) tr1 tr2 l,
  all_from P l (tr1 ++ tr2) <-> all_from P l tr1 /\ all_from P (lock_after l tr1) tr2.
Proof.
  induction tr1 as [|e r IH]; simpl; intros.
  - tauto.
  - rewrite IH. tauto.
Qed.

Lemma all_from_impl : forall (P Q : lockst -> event -> Prop), (forall l e, P l e -> Q l e) ->
  forall tr l, all_from P l tr -> all_from Q l tr.
Proof. induction tr as [|e r IH]; simpl; intros; [exact I | destruct H0; split; auto]. Qed.

(* a prefix of a well-locked / disciplined trace is one *)
Lemma all_from_prefix : forall (P : lockst -> event -> Prop) p q l, all_from P l (p ++ q) -> all_from P l p.
Proof. intros P p q l H. apply all_from_app in H. tauto. Qed.

(* ------------------------------------------------------------------ the acceptors (reflection) *)
Fixpoint positions_from (bad : lockst -> event -> bool) (l : lockst) (i : N) (tr : list event) : list N :=
  match tr with
  | [] => []
  | e :: r => let rest := positions_from bad (lock_next l e) (N.succ i) r in
              if bad l e then i :: rest else rest
  end.

Definition bad_disc (l : lockst) (e : event) : bool := is_access e && negb (owns l (tid e)).
Definition bad_lock (l : lockst) (e : event) : bool := negb (lock_ok l e).

Lemma violations_from_positions : forall tr l i, violations_from l i tr = positions_from bad_disc l i tr.
Proof. induction tr as [|e r IH]; simpl; intros; [reflexivity|]. rewrite IH. reflexivity. Qed.

Lemma lock_errors_from_positions : forall tr l i, lock_errors_from l i tr = positions_from bad_lock l i tr.
Proof.
  induction tr as [|e r IH]; simpl; intros; [reflexivity|]. rewrite IH. unfold bad_lock.
  destruct (lock_ok l e); reflexivity.
Qed.

Lemma positions_nil_iff : forall bad tr l i,
  positions_from bad l i tr = [] <-> all_from (fun l e => bad l e = false) l tr.
Proof.
  induction tr as [|e r IH]; simpl; intros.
  - tauto.
  - destruct (bad l e) eqn:Hb.
    + split; [discriminate | intros [H _]; discriminate].
    + rewrite IH. tauto.
Qed.

Lemma positions_spec : forall bad tr l i k,
  In k (positions_from bad l i tr) <->
  exists p e q, tr = p ++ e :: q /\ (i + N.of_nat (length p))%N = k /\ bad (lock_after l p) e = true.
Proof.
  induction tr as [|e r IH]; simpl; intros l i k.
  - split; [tauto|]. intros (p & e & q & H & _). destruct p; discriminate.
  - split.
    + intros H.
      assert (Hc : (bad l e = true /\ k = i) \/ In k (positions_from bad (lock_next l e) (N.succ i) r)).
      { destruct (bad l e); simpl in H; [destruct H as [H|H]; [left; split; congruence | right; exact H] | right; exact H]. }
      destruct Hc as [[Hb Hk] | Hin].
      * exists [], e, r. simpl. repeat split; [lia | exact Hb].
      * apply IH in Hin. destruct Hin as (p & e' & q & Hr & Hk & Hb).
        exists (e :: p), e', q. simpl. subst r. repeat split; [lia | exact Hb].
    + intros (p & e' & q & Htr & Hk & Hb). destruct p as [|e0 p]; simpl in *.
      * injection Htr as He Hr. subst e' q. rewrite Hb. left. lia.
      * injection Htr as He Hr. subst e0.
        assert (Hin : In k (positions_from bad (lock_next l e) (N.succ i) r)).
        { apply IH. exists p, e', q. repeat split; [exact Hr | lia | exact Hb]. }
        destruct (bad l e); [right|]; exact Hin.
Qed.

Lemma positions_head : forall bad tr l i k rest,
  positions_from bad l i tr = k :: rest ->
  exists p e q, tr = p ++ e :: q /\ (i + N.of_nat (length p))%N = k /\ bad (lock_after l p) e = true /\
                all_from (fun l e => bad l e = false) l p.
Proof.
  induction tr as [|e r IH]; simpl; intros l i k rest H.
  - discriminate.
  - destruct (bad l e) eqn:Hb.
    + injection H as Hk _. exists [], e, r. simpl. repeat split; [lia | exact Hb].
    + apply IH in H. destruct H as (p & e' & q & Hr & Hk & Hb' & Hp).
      exists (e :: p), e', q. simpl. subst r. repeat split; [lia | exact Hb' | exact Hb | exact Hp].
Qed.

Lemma bad_disc_false : forall l e, bad_disc l e = false <-> ok_disc l e.
Proof.
  intros. unfold bad_disc, ok_disc. destruct (is_access e); simpl.
  - destruct (owns l (tid e)); simpl; split; intros; try reflexivity; try discriminate.
    specialize (H eq_refl). discriminate.
  - split; intros; [discriminate | reflexivity].
Qed.

Lemma bad_lock_false : forall l e, bad_lock l e = false <-> ok_lock l e.
Proof. intros. unfold bad_lock, ok_lock. destruct (lock_ok l e); simpl; split; congruence. Qed.

Lemma all_from_iff : forall (P Q : lockst -> event -> Prop), (forall l e, P l e <-> Q l e) ->
  forall tr l, all_from P l tr <-> all_from Q l tr.
Proof. intros P Q H tr l. split; apply all_from_impl; intros; apply H; assumption. Qed.

(* check_trace decides [disciplined] (sound and complete) *)
Theorem check_trace_none_iff : forall tr, check_trace tr = None <-> disciplined tr.
Proof.
  intros tr. unfold check_trace, violations, disciplined, disciplined_from.
  rewrite violations_from_positions.
  rewrite <- (all_from_iff _ _ bad_disc_false).
  rewrite <- (positions_nil_iff bad_disc tr None 0%N).
  destruct (positions_from bad_disc None 0 tr); simpl; split; congruence.
Qed.

(* ... and when it answers Some i, position i is the FIRST access by a thread that does not own the lock *)
Theorem check_trace_first : forall tr i, check_trace tr = Some i ->
  exists p e q, tr = p ++ e :: q /\ N.of_nat (length p) = i /\ disciplined p /\
                is_access e = true /\ owns (lock_after None p) (tid e) = false.
Proof.
  intros tr i H. unfold check_trace, violations in H. rewrite violations_from_positions in H.
  destruct (positions_from bad_disc None 0 tr) as [|k rest] eqn:Hp; simpl in H; [discriminate|].
  injection H as Hk. subst k.
  apply positions_head in Hp. destruct Hp as (p & e & q & Htr & Hi & Hb & Hpre).
  exists p, e, q. unfold bad_disc in Hb. apply andb_true_iff in Hb. destruct Hb as [Ha Ho].
  apply negb_true_iff in Ho.
  split; [exact Htr|]. split; [lia|]. split; [|split; assumption].
  unfold disciplined, disciplined_from. revert Hpre. apply all_from_impl. intros; apply bad_disc_false; assumption.
Qed.

(* every reported position is an undisciplined access and every undisciplined access is reported *)
Theorem violations_spec : forall tr i,
  In i (violations tr) <->
  exists p e q, tr = p ++ e :: q /\ N.of_nat (length p) = i /\
                is_access e = true /\ owns (lock_after None p) (tid e) = false.
Proof.
  intros tr i. unfold violations. rewrite violations_from_positions. rewrite positions_spec.
  split; intros (p & e & q & Htr & Hi & Hb); exists p, e, q.
  - unfold bad_disc in Hb. apply andb_true_iff in Hb. destruct Hb as [Ha Ho]. apply negb_true_iff in Ho.
    split; [exact Htr|]. split; [lia|]. split; assumption.
  - destruct Hb as (Ha & Ho). split; [exact Htr|]. split; [lia|].
    unfold bad_disc. rewrite Ha, Ho. reflexivity.
Qed.

Theorem check_locked_none_iff : forall tr, check_locked tr = None <-> well_locked tr.
Proof.
  intros tr. unfold check_locked, lock_errors, well_locked, well_locked_from.
  rewrite lock_errors_from_positions.
  rewrite <- (all_from_iff _ _ bad_lock_false).
  rewrite <- (positions_nil_iff bad_lock tr None 0%N).
  destruct (positions_from bad_lock None 0 tr); simpl; split; congruence.
Qed.

Theorem lock_errors_spec : forall tr i,
  In i (lock_errors tr) <->
  exists p e q, tr = p ++ e :: q /\ N.of_nat (length p) = i /\ lock_ok (lock_after None p) e = false.
Proof.
  intros tr i. unfold lock_errors. rewrite lock_errors_from_positions. rewrite positions_spec.
  split; intros (p & e & q & Htr & Hi & Hb); exists p, e, q; (split; [exact Htr|]; split; [lia|]).
  - unfold bad_lock in Hb. apply negb_true_iff in Hb. exact Hb.
  - unfold bad_lock. rewrite Hb. reflexivity.
Qed.

(* ------------------------------------------------------------------ serialisation *)
Definition ser (l : lockst) (sec tr : list event) : list event := concat (ser_blocks l sec tr).

Lemma ser_blocks_some : forall u d sec e r,
  ser_blocks (Some (u, d)) sec (e :: r) =
  if N.eqb (tid e) u then
    match lock_next (Some (u, d)) e with
    | None => (sec ++ [e]) :: ser_blocks None [] r
    | Some h => ser_blocks (Some h) (sec ++ [e]) r
    end
  else [e] :: ser_blocks (Some (u, d)) sec r.
Proof. reflexivity. Qed.

Lemma ser_blocks_none : forall sec e r,
  ser_blocks None sec (e :: r) =
  match lock_next None e with
  | None => [e] :: ser_blocks None [] r
  | Some h => ser_blocks (Some h) [e] r
  end.
Proof. reflexivity. Qed.

Lemma ser_nil : forall l sec, ser l sec [] = sec.
Proof. intros. unfold ser. simpl. destruct sec; simpl; [reflexivity | rewrite app_nil_r; reflexivity]. Qed.

(* an event of another thread while the lock is held can only be a Tau *)
Lemma foreign_is_tau : forall u d e,
  N.eqb (tid e) u = false -> ok_lock (Some (u, d)) e -> ok_disc (Some (u, d)) e -> exists t x, e = Tau t x.
Proof.
  intros u d e Hne Hok Hd. unfold ok_lock, ok_disc in *. destruct e as [t|t|t x|t x|t x]; simpl in *.
  - apply N.eqb_eq in Hok. subst. rewrite N.eqb_refl in Hne. discriminate.
  - apply N.eqb_eq in Hok. subst. rewrite N.eqb_refl in Hne. discriminate.
  - specialize (Hd eq_refl). apply N.eqb_eq in Hd. subst. rewrite N.eqb_refl in Hne. discriminate.
  - specialize (Hd eq_refl). apply N.eqb_eq in Hd. subst. rewrite N.eqb_refl in Hne. discriminate.
  - eauto.
Qed.

Lemma lock_next_holder : forall u d e u' d', lock_next (Some (u, d)) e = Some (u', d') -> u' = u.
Proof.
  intros u d e u' d' H. destruct e as [t|t|t x|t x|t x]; simpl in H.
  - destruct (N.eqb u t); congruence.
  - destruct (N.eqb u t); [destruct d|]; congruence.
  - congruence.
  - congruence.
  - congruence.
Qed.

Lemma lock_next_free_some : forall e u d, lock_next None e = Some (u, d) -> tid e = u.
Proof. intros e u d H. destruct e; simpl in *; congruence. Qed.

Definition good (l : lockst) (e : event) : Prop := ok_lock l e /\ ok_disc l e /\ ok_serial l e.

Lemma all_from_good : forall tr l,
  all_from good l tr <-> well_locked_from l tr /\ disciplined_from l tr /\ serial_from l tr.
Proof.
  unfold well_locked_from, disciplined_from, serial_from.
  induction tr as [|e r IH]; simpl; intros.
  - tauto.
  - rewrite IH. unfold good. tauto.
Qed.

Definition owned_by (l : lockst) (sec : list event) : Prop :=
  match l with None => sec = [] | Some (u, _) => forall e, In e sec -> tid e = u end.

Definition sec_inv (l : lockst) (sec : list event) : Prop :=
  all_from good None sec /\ lock_after None sec = l /\ owned_by l sec.

Lemma sec_inv_nil : sec_inv None [].
Proof. repeat split. Qed.

Lemma good_free : forall e, ok_lock None e -> ok_disc None e -> good None e.
Proof. intros. repeat split; assumption. Qed.

Lemma sec_inv_start : forall e h, ok_lock None e -> ok_disc None e -> lock_next None e = Some h -> sec_inv (Some h) [e].
Proof.
  intros e [u d] Hk Hd Hn. repeat split; simpl; try assumption.
  intros e' [He|[]]. subst e'. eapply lock_next_free_some; eassumption.
Qed.

Lemma sec_inv_step : forall u d sec e,
  sec_inv (Some (u, d)) sec -> N.eqb (tid e) u = true -> ok_lock (Some (u, d)) e -> ok_disc (Some (u, d)) e ->
  all_from good None (sec ++ [e]) /\ lock_after None (sec ++ [e]) = lock_next (Some (u, d)) e /\
  (forall e', In e' (sec ++ [e]) -> tid e' = u).
Proof.
  intros u d sec e (Hg & Hl & Ho) Hu Hk Hd. repeat split.
  - apply all_from_app. split; [exact Hg|]. rewrite Hl. simpl. split; [|exact I].
    repeat split; try assumption. unfold ok_serial. simpl. rewrite Hu. reflexivity.
  - rewrite lock_after_app, Hl. reflexivity.
  - intros e' Hin. apply in_app_or in Hin. destruct Hin as [Hin|[He|[]]].
    + apply Ho; assumption.
    + subst e'. apply N.eqb_eq; assumption.
Qed.

Lemma sec_inv_next : forall u d sec e h,
  sec_inv (Some (u, d)) sec -> N.eqb (tid e) u = true -> ok_lock (Some (u, d)) e -> ok_disc (Some (u, d)) e ->
  lock_next (Some (u, d)) e = Some h -> sec_inv (Some h) (sec ++ [e]).
Proof.
  intros u d sec e [u' d'] Hs Hu Hk Hd Hn.
  destruct (sec_inv_step _ _ _ _ Hs Hu Hk Hd) as (A1 & A2 & A3).
  pose proof (lock_next_holder _ _ _ _ _ Hn) as Hu'. subst u'.
  repeat split; [exact A1 | rewrite A2; exact Hn | exact A3].
Qed.

(* the serialised trace is well locked, disciplined and serial *)
Lemma ser_good : forall tr l sec,
  well_locked_from l tr -> disciplined_from l tr -> sec_inv l sec -> all_from good None (ser l sec tr).
Proof.
  unfold well_locked_from, disciplined_from.
  induction tr as [|e r IH]; intros l sec HW HD Hs.
  - rewrite ser_nil. apply Hs.
  - simpl in HW, HD. destruct HW as [HWe HW]. destruct HD as [HDe HD].
    destruct l as [[u d]|].
    + unfold ser. rewrite ser_blocks_some. destruct (N.eqb (tid e) u) eqn:Hu.
      * destruct (lock_next (Some (u, d)) e) as [h|] eqn:Hn.
        -- apply IH; try assumption. eapply sec_inv_next; eassumption.
        -- simpl. destruct (sec_inv_step _ _ _ _ Hs Hu HWe HDe) as (A1 & A2 & A3).
           apply all_from_app. split; [exact A1|]. rewrite A2, Hn.
           apply IH; try assumption. apply sec_inv_nil.
      * destruct (foreign_is_tau _ _ _ Hu HWe HDe) as (t & x & He). subst e. simpl in *.
        split.
        -- repeat split. intros Hacc; discriminate.
        -- apply IH; assumption.
    + destruct Hs as (_ & _ & Hnil). simpl in Hnil. subst sec.
      unfold ser. rewrite ser_blocks_none. destruct (lock_next None e) as [h|] eqn:Hn.
      * apply IH; try assumption. apply sec_inv_start; assumption.
      * simpl. split; [apply good_free; assumption|]. rewrite Hn. apply IH; try assumption. apply sec_inv_nil.
Qed.

Lemma filter_none : forall (f : event -> bool) (sec : list event),
  (forall e, In e sec -> f e = false) -> filter f sec = [].
Proof.
  induction sec as [|a s IH]; simpl; intros H; [reflexivity|].
  rewrite (H a (or_introl eq_refl)). apply IH. intros; apply H; right; assumption.
Qed.

(* a filter that, whenever it keeps a Tau of one thread, keeps nothing of any other thread (per-thread projection),
   or that keeps no Tau at all (the accesses), does not see the difference *)
Lemma ser_filter : forall (f : event -> bool),
  (forall t x u, f (Tau t x) = true -> N.eqb t u = false -> forall e', tid e' = u -> f e' = false) ->
  forall tr l sec, well_locked_from l tr -> disciplined_from l tr -> owned_by l sec ->
    filter f (ser l sec tr) = filter f (sec ++ tr).
Proof.
  unfold well_locked_from, disciplined_from.
  intros f Hf. induction tr as [|e r IH]; intros l sec HW HD Ho.
  - rewrite ser_nil, app_nil_r. reflexivity.
  - simpl in HW, HD. destruct HW as [HWe HW]. destruct HD as [HDe HD].
    destruct l as [[u d]|].
    + unfold ser. rewrite ser_blocks_some. destruct (N.eqb (tid e) u) eqn:Hu.
      * assert (Ho' : forall e', In e' (sec ++ [e]) -> tid e' = u).
        { intros e' Hin. apply in_app_or in Hin. destruct Hin as [Hin|[He|[]]]; [apply Ho; assumption|].
          subst e'. apply N.eqb_eq; assumption. }
        destruct (lock_next (Some (u, d)) e) as [[u' d']|] eqn:Hn.
        -- pose proof (lock_next_holder _ _ _ _ _ Hn). subst u'.
           fold (ser (Some (u, d')) (sec ++ [e]) r). rewrite IH; try assumption.
           rewrite <- app_assoc. reflexivity.
        -- simpl. fold (ser None [] r). rewrite filter_app. rewrite IH; try assumption; [|reflexivity].
           simpl. rewrite <- filter_app, <- app_assoc. reflexivity.
      * destruct (foreign_is_tau _ _ _ Hu HWe HDe) as (t & x & He). subst e. simpl in Hu, HW, HD.
        simpl concat. fold (ser (Some (u, d)) sec r).
        change (([Tau t x] ++ ser (Some (u, d)) sec r)) with (Tau t x :: ser (Some (u, d)) sec r).
        rewrite filter_app. simpl filter. rewrite IH; try assumption. rewrite filter_app.
        destruct (f (Tau t x)) eqn:Hft; [|reflexivity].
        rewrite (filter_none f sec); [reflexivity|].
        intros e' Hin. eapply Hf; [exact Hft | exact Hu | apply Ho; exact Hin].
    + simpl in Ho. subst sec. unfold ser. rewrite ser_blocks_none.
      destruct (lock_next None e) as [[u d]|] eqn:Hn.
      * fold (ser (Some (u, d)) [e] r). rewrite IH; try assumption; [reflexivity|].
        intros e' [He|[]]. subst e'. eapply lock_next_free_some; eassumption.
      * simpl concat. fold (ser None [] r). simpl. try rewrite Hn in HW. try rewrite Hn in HD.
        rewrite IH; try assumption; [|reflexivity]. reflexivity.
Qed.

Lemma ser_proj : forall w tr, well_locked tr -> disciplined tr -> proj w (serialise tr) = proj w tr.
Proof.
  intros w tr HW HD. unfold proj, serialise, atomic_steps. fold (ser None [] tr).
  rewrite ser_filter; try assumption; [reflexivity | | reflexivity].
  intros t x u Ht Hne e' He'. simpl in Ht. apply N.eqb_eq in Ht. subst. rewrite N.eqb_sym. exact Hne.
Qed.

Lemma ser_accesses : forall tr, well_locked tr -> disciplined tr -> accesses (serialise tr) = accesses tr.
Proof.
  intros tr HW HD. unfold accesses, serialise, atomic_steps. fold (ser None [] tr).
  rewrite ser_filter; try assumption; [reflexivity | | reflexivity].
  intros t x u Ht. simpl in Ht. discriminate.
Qed.

(* ------------------------------------------------------------------ atomic steps *)
Definition single_thread (b : list event) : Prop := exists u, forall e, In e b -> tid e = u.
(* run on its own from the free lock it ends with the lock free: a lock-free event or a whole critical section *)
Definition closed (b : list event) : Prop := lock_after None b = None.

Lemma ser_blocks_steps : forall tr l sec,
  well_locked_from l tr -> disciplined_from l tr -> sec_inv l sec -> lock_after l tr = None ->
  Forall (fun b => b <> [] /\ single_thread b /\ closed b) (ser_blocks l sec tr).
Proof.
  unfold well_locked_from, disciplined_from.
  induction tr as [|e r IH]; intros l sec HW HD Hs Hend.
  - simpl in Hend. subst l. destruct Hs as (_ & _ & Hnil). simpl in Hnil. subst sec. constructor.
  - simpl in HW, HD, Hend. destruct HW as [HWe HW]. destruct HD as [HDe HD].
    destruct l as [[u d]|].
    + rewrite ser_blocks_some. destruct (N.eqb (tid e) u) eqn:Hu.
      * destruct (lock_next (Some (u, d)) e) as [h|] eqn:Hn.
        -- apply IH; try assumption. eapply sec_inv_next; eassumption.
        -- destruct (sec_inv_step _ _ _ _ Hs Hu HWe HDe) as (A1 & A2 & A3).
           constructor.
           ++ repeat split.
              ** intros Hc. apply app_eq_nil in Hc. destruct Hc; discriminate.
              ** exists u. exact A3.
              ** unfold closed. rewrite A2. exact Hn.
           ++ apply IH; try assumption. apply sec_inv_nil.
      * destruct (foreign_is_tau _ _ _ Hu HWe HDe) as (t & x & He). subst e. simpl in *.
        constructor.
        -- repeat split; [discriminate|]. exists t. intros e' [He|[]]. subst; reflexivity.
        -- apply IH; assumption.
    + destruct Hs as (_ & _ & Hnil). simpl in Hnil. subst sec.
      rewrite ser_blocks_none. destruct (lock_next None e) as [h|] eqn:Hn.
      * apply IH; try assumption. apply sec_inv_start; assumption.
      * constructor.
        -- repeat split; [discriminate | | unfold closed; simpl; exact Hn].
           exists (tid e). intros e' [He|[]]. subst; reflexivity.
        -- apply IH; try assumption. apply sec_inv_nil.
Qed.

(* ------------------------------------------------------------------ meaning: any state, any semantics *)
Variable state : Type.
Variable value : Type.
Variable apply : state -> thread -> X -> state.
Variable observe : state -> thread -> X -> value.
Notation exec := (exec apply).
Notation seen := (seen apply observe).

Lemma exec_app : forall tr1 tr2 s, exec s (tr1 ++ tr2) = exec (exec s tr1) tr2.
Proof. induction tr1 as [|e r IH]; simpl; intros; [reflexivity|]. destruct e; apply IH. Qed.

Lemma exec_accesses : forall tr s, exec s tr = exec s (accesses tr).
Proof. induction tr as [|e r IH]; simpl; intros; [reflexivity|]. destruct e; simpl; apply IH. Qed.

Lemma seen_accesses : forall tr s, seen s tr = seen s (accesses tr).
Proof.
  induction tr as [|e r IH]; simpl; intros; [reflexivity|].
  destruct e; simpl; try apply IH. rewrite IH. reflexivity.
Qed.

Lemma exec_concat : forall bs s, exec s (concat bs) = fold_left (fun s b => exec s b) bs s.
Proof. induction bs as [|b bs IH]; simpl; intros; [reflexivity|]. rewrite exec_app. apply IH. Qed.

(* same events per thread in the same order, same final state from every initial state, every Read sees the same value *)
Definition equiv (tr tr' : list event) : Prop :=
  (forall w, proj w tr' = proj w tr) /\
  (forall s, exec s tr' = exec s tr) /\
  (forall s, seen s tr' = seen s tr).

Lemma serialise_exec : forall tr s, well_locked tr -> disciplined tr -> exec s (serialise tr) = exec s tr.
Proof.
  intros tr s HW HD. rewrite exec_accesses, (exec_accesses tr). rewrite ser_accesses; [reflexivity | assumption | assumption].
Qed.

Theorem serialise_correct : forall tr, well_locked tr -> disciplined tr ->
  serial (serialise tr) /\ well_locked (serialise tr) /\ disciplined (serialise tr) /\ equiv tr (serialise tr).
Proof.
  intros tr HW HD.
  assert (Hg : all_from good None (serialise tr)).
  { unfold serialise, atomic_steps. fold (ser None [] tr). apply ser_good; try assumption. apply sec_inv_nil. }
  apply all_from_good in Hg. destruct Hg as (G1 & G2 & G3).
  repeat split; try assumption.
  - intros w. apply ser_proj; assumption.
  - intros s. rewrite exec_accesses, (exec_accesses tr). rewrite ser_accesses; [reflexivity | assumption | assumption].
  - intros s. rewrite seen_accesses, (seen_accesses tr). rewrite ser_accesses; [reflexivity | assumption | assumption].
Qed.

Theorem disciplined_serialisable : forall tr, well_locked tr -> disciplined tr ->
  exists tr', serial tr' /\ well_locked tr' /\ disciplined tr' /\ equiv tr tr'.
Proof. intros tr HW HD. exists (serialise tr). apply serialise_correct; assumption. Qed.

(* for a run that ends with the lock free: the serial witness is a sequence of atomic steps, each performed by one
   thread and each starting and ending with the lock free; its effect is the fold of the steps' effects *)
Theorem serial_atomic_steps : forall tr, well_locked tr -> disciplined tr -> lock_after None tr = None ->
  serialise tr = concat (atomic_steps tr) /\
  Forall (fun b => b <> [] /\ single_thread b /\ closed b) (atomic_steps tr) /\
  forall s, exec s tr = fold_left (fun s b => exec s b) (atomic_steps tr) s.
Proof.
  intros tr HW HD Hend. split; [reflexivity|]. split.
  - apply ser_blocks_steps; try assumption. apply sec_inv_nil.
  - intros s. rewrite <- exec_concat. fold (serialise tr). symmetry. apply serialise_exec; assumption.
Qed.

(* ------------------------------------------------------------------ invariants at lock-free points *)
Variable Inv : state -> Prop.
Definition step_preserves (b : list event) : Prop := forall s, Inv s -> Inv (exec s b).

Lemma inv_gen : forall tr l sec s,
  well_locked_from l tr -> disciplined_from l tr -> sec_inv l sec -> Inv s ->
  (forall b, In b (ser_blocks l sec tr) -> closed b -> step_preserves b) ->
  forall p q, tr = p ++ q -> lock_after l p = None -> Inv (exec s (sec ++ p)).
Proof.
  unfold well_locked_from, disciplined_from.
  induction tr as [|e r IH]; intros l sec s HW HD Hs Hi Hb p q Htr Hend.
  - destruct p; [|discriminate]. simpl in Hend. subst l.
    destruct Hs as (_ & _ & Hnil). simpl in Hnil. subst sec. exact Hi.
  - destruct p as [|e0 p].
    + simpl in Hend. subst l. destruct Hs as (_ & _ & Hnil). simpl in Hnil. subst sec. exact Hi.
    + simpl in Htr. injection Htr as He0 Hr. subst e0. simpl in Hend.
      simpl in HW, HD. destruct HW as [HWe HW]. destruct HD as [HDe HD].
      destruct l as [[u d]|].
      * rewrite ser_blocks_some in Hb. destruct (N.eqb (tid e) u) eqn:Hu.
        -- destruct (lock_next (Some (u, d)) e) as [h|] eqn:Hn.
           ++ replace (sec ++ e :: p) with ((sec ++ [e]) ++ p) by (rewrite <- app_assoc; reflexivity).
              eapply IH; try eassumption. eapply sec_inv_next; eassumption.
           ++ destruct (sec_inv_step _ _ _ _ Hs Hu HWe HDe) as (A1 & A2 & A3).
              replace (sec ++ e :: p) with ((sec ++ [e]) ++ p) by (rewrite <- app_assoc; reflexivity).
              rewrite exec_app.
              change (exec (exec s (sec ++ [e])) p) with (exec (exec s (sec ++ [e])) ([] ++ p)).
              eapply IH; try eassumption.
              ** apply sec_inv_nil.
              ** apply Hb; [left; reflexivity | unfold closed; rewrite A2; exact Hn | exact Hi].
              ** intros b Hin. apply Hb. right. exact Hin.
        -- destruct (foreign_is_tau _ _ _ Hu HWe HDe) as (t & x & He). subst e. simpl in *.
           rewrite exec_app. simpl. rewrite <- exec_app.
           eapply IH; try eassumption. intros b Hin. apply Hb. right. exact Hin.
      * destruct Hs as (_ & _ & Hnil). simpl in Hnil. subst sec. simpl app.
        rewrite ser_blocks_none in Hb. destruct (lock_next None e) as [h|] eqn:Hn.
        -- change (e :: p) with ([e] ++ p). eapply IH; try eassumption. apply sec_inv_start; assumption.
        -- change (e :: p) with ([e] ++ p). rewrite exec_app.
           change (exec (exec s [e]) p) with (exec (exec s [e]) ([] ++ p)).
           eapply IH; try eassumption.
           ++ apply sec_inv_nil.
           ++ apply Hb; [left; reflexivity | unfold closed; simpl; exact Hn | exact Hi].
           ++ intros b Hin. apply Hb. right. exact Hin.
Qed.

(* an invariant that every atomic step of the run preserves holds wherever no thread owns the lock *)
Theorem invariant_at_lock_free_points : forall tr s0,
  well_locked tr -> disciplined tr -> Inv s0 ->
  (forall b, In b (atomic_steps tr) -> closed b -> step_preserves b) ->
  forall p q, tr = p ++ q -> lock_after None p = None -> Inv (exec s0 p).
Proof.
  intros tr s0 HW HD Hi Hb p q Htr Hend.
  change (exec s0 p) with (exec s0 ([] ++ p)).
  eapply inv_gen; try eassumption. apply sec_inv_nil.
Qed.

End Proofs.

Arguments equiv {X state value}.
Arguments single_thread {X}. Arguments closed {X}. Arguments step_preserves {X state}.

(* ------------------------------------------------------------------ without the discipline: refuted *)
(* shared counter + one register per thread (threads 1 and 2).
   x = 0: load the counter into the thread's register; x = 1: store register + 1; other: atomic increment *)
Definition rstate := (N * (N * N))%type.
Definition rapply (s : rstate) (t : thread) (x : N) : rstate :=
  let '(sh, (r1, r2)) := s in
  match x with
  | 0%N => if N.eqb t 1 then (sh, (sh, r2)) else (sh, (r1, sh))
  | 1%N => if N.eqb t 1 then ((r1 + 1)%N, (r1, r2)) else ((r2 + 1)%N, (r1, r2))
  | _ => ((sh + 1)%N, (r1, r2))
  end.
Definition robserve (s : rstate) (t : thread) (x : N) : N := fst s.
Definition rinit : rstate := (0%N, (0%N, 0%N)).

(* thread 1 increments under the lock (load, store); thread 2 increments without taking it, in between *)
Definition tr_unlocked : list (event N) := [Acq 1%N; Mut 1%N 0%N; Mut 2%N 2%N; Mut 1%N 1%N; Rel 1%N].

Definition serialisable_without_discipline : Prop :=
  forall (X state value : Type) (apply : state -> thread -> X -> state) (observe : state -> thread -> X -> value)
         (tr : list (event X)),
    well_locked tr -> exists tr', serial tr' /\ well_locked tr' /\ equiv apply observe tr tr'.

Lemma proj_all_one : forall (tr : list (event N)) w,
  (forall v, v <> w -> proj v tr = []) -> proj w tr = tr.
Proof.
  induction tr as [|e r IH]; intros w H; [reflexivity|].
  unfold proj in *. simpl. destruct (N.eqb (tid e) w) eqn:He.
  - f_equal. apply IH. intros v Hv. specialize (H v Hv). simpl in H.
    destruct (N.eqb (tid e) v); [discriminate | exact H].
  - apply N.eqb_neq in He. specialize (H (tid e) He). simpl in H. rewrite N.eqb_refl in H. discriminate.
Qed.

Lemma two_thread_split : forall (tr : list (event N)) (e2 : event N),
  (forall v, v <> 1%N -> v <> 2%N -> proj v tr = []) -> proj 2%N tr = [e2] ->
  exists p q, tr = p ++ e2 :: q /\ proj 1%N tr = p ++ q.
Proof.
  induction tr as [|e r IH]; intros e2 Hother H2; [discriminate|].
  unfold proj in H2. simpl in H2. destruct (N.eqb (tid e) 2) eqn:He2.
  - injection H2 as He Hr. subst e. exists [], r. split; [reflexivity|].
    apply N.eqb_eq in He2. unfold proj at 1. simpl. rewrite He2. simpl.
    apply proj_all_one. intros v Hv. destruct (N.eq_dec v 2) as [->|Hv2]; [exact Hr|].
    specialize (Hother v Hv Hv2). unfold proj in Hother. simpl in Hother. rewrite He2 in Hother.
    destruct (N.eqb 2 v) eqn:E; [apply N.eqb_eq in E; congruence | exact Hother].
  - destruct (N.eqb (tid e) 1) eqn:He1.
    + destruct (IH e2) as (p & q & Hr & H1).
      * intros v Hv1 Hv2. specialize (Hother v Hv1 Hv2). unfold proj in Hother. simpl in Hother.
        destruct (N.eqb (tid e) v); [discriminate | exact Hother].
      * exact H2.
      * exists (e :: p), q. split; [simpl; rewrite Hr; reflexivity|].
        unfold proj. simpl. rewrite He1. unfold proj in H1. rewrite H1. reflexivity.
    + apply N.eqb_neq in He1. apply N.eqb_neq in He2. specialize (Hother (tid e) He1 He2).
      unfold proj in Hother. simpl in Hother. rewrite N.eqb_refl in Hother. discriminate.
Qed.

Theorem undisciplined_refuted : ~ serialisable_without_discipline.
Proof.
  intros H. specialize (H N rstate N rapply robserve tr_unlocked).
  destruct H as (tr' & Hser & _ & Hproj & Hexec & _).
  { unfold well_locked, well_locked_from, tr_unlocked. simpl. unfold ok_lock. simpl. tauto. }
  destruct (two_thread_split tr' (Mut 2%N 2%N)) as (p & q & Htr & H1).
  - intros v Hv1 Hv2. rewrite Hproj. unfold proj, tr_unlocked. cbn [filter tid].
    assert (E1 : N.eqb 1 v = false) by (apply N.eqb_neq; congruence).
    assert (E2 : N.eqb 2 v = false) by (apply N.eqb_neq; congruence).
    rewrite !E1, !E2. reflexivity.
  - rewrite Hproj. reflexivity.
  - rewrite Hproj in H1. unfold proj, tr_unlocked in H1. simpl in H1.
    specialize (Hexec rinit). subst tr'.
    destruct p as [|a [|b [|c [|d [|x p]]]]]; simpl in H1; inversion H1; subst; try clear H1;
      try (vm_compute in Hexec; discriminate);
      try (unfold serial, serial_from in Hser; simpl in Hser; unfold ok_serial in Hser; simpl in Hser;
           repeat match goal with H : _ /\ _ |- _ => destruct H end; discriminate).
Qed.

(* the classic form: two unlocked read-modify-writes lose an update; run one after the other they do not *)
Definition tr_lost : list (event N) := [Mut 1%N 0%N; Mut 2%N 0%N; Mut 1%N 1%N; Mut 2%N 1%N].
Definition tr_atomic : list (event N) := [Mut 1%N 0%N; Mut 1%N 1%N; Mut 2%N 0%N; Mut 2%N 1%N].
Lemma lost_update : fst (exec rapply rinit tr_lost) = 1%N /\ fst (exec rapply rinit tr_atomic) = 2%N /\
                    check_trace tr_lost = Some 0%N.
Proof. vm_compute. repeat split. Qed.
