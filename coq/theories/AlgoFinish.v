(* AlgoFinish.v — SyncManager.finished at world level, and the clause-by-clause argument for clearing a side's
   change stamp. *)
From Coq Require Import NArith List Bool Arith Lia.
From CS Require Import Sx Str PathModel PathLaws StateModel StateProofs ProvModel ProvProofs
     AlgoModel AlgoCheck AlgoState AlgoProv AlgoPath AlgoInv AlgoIntake AlgoSync AlgoLatest.
Import ListNotations.
Local Open Scope N_scope.

(* the entry with side sd's stamp cleared *)
Definition clr (en : StateModel.entry) (sd : bool) : StateModel.entry := ss en sd (w_chg (gs en sd) (CNum 0)).
Definition other_flagged (en : StateModel.entry) (sd : bool) : bool :=
  tchg (s_chg (gs en (negb sd))) && tstr (s_oid (gs en (negb sd))).
Definition clear_tfile (x : xside) : xside := mkX (x_lg x) (x_tname x) None.

Lemma w_force_false x : s_force x = false -> w_force x false = x.
Proof. destruct x; simpl; intros ->; reflexivity. Qed.

Lemma chg_entry_clear en sd :
  (tchg (s_chg (gs en (negb sd))) = true -> tstr (s_oid (gs en (negb sd))) = true) ->
  chg_entry en sd (CNum 0) = clr en sd /\ chg_pending en sd (CNum 0) = other_flagged en sd.
Proof.
  intros H. unfold chg_entry, chg_pending, clr, other_flagged. cbn [tchg N.eqb negb andb orb].
  destruct (tchg (s_chg (gs en (negb sd)))) eqn:Ec; cbn [andb negb].
  - rewrite (H eq_refl). cbn [negb andb]. auto.
  - auto.
Qed.

Lemma fin_side_id x : s_force x = false -> fin_side x = x.
Proof. intros H. unfold fin_side. destruct (tchg (s_chg x)); [reflexivity|apply w_force_false; exact H]. Qed.
Lemma fin_entry_clr en sd : s_force (e_l en) = false -> s_force (e_r en) = false -> fin_entry (clr en sd) = clr en sd.
Proof.
  intros HL HR. unfold fin_entry, clr. destruct en as [l r i p], sd; simpl in *; rewrite !fin_side_id; auto.
Qed.

Lemma finished_w w e sd en :
  w_cfg w = cfg_std 1 -> tape (w_st w) = [] -> nth_error (ents (w_st w)) e = Some en ->
  (forall x, set_mem x (cset (w_st w)) = true -> (x < length (ents (w_st w)))%nat) ->
  (tchg (s_chg (gs en (negb sd))) = true -> tstr (s_oid (gs en (negb sd))) = true) ->
  s_force (e_l en) = false -> s_force (e_r en) = false ->
  exists w' en', AlgoModel.finished w e sd = ROk w' /\
    w_cfg w' = w_cfg w /\ (forall sd0, prov_of w' sd0 = prov_of w sd0) /\
    nth_error (ents (w_st w')) e = Some en' /\ same_but_prio (clr en sd) en' /\
    length (ents (w_st w')) = length (ents (w_st w)) /\
    (forall x xn, x <> e -> nth_error (ents (w_st w)) x = Some xn ->
       exists xn', nth_error (ents (w_st w')) x = Some xn' /\ same_but_prio xn xn') /\
    (forall x, x <> e -> set_mem x (cset (w_st w')) = set_mem x (cset (w_st w))) /\
    set_mem e (cset (w_st w')) = other_flagged en sd /\
    now (w_st w) <= now (w_st w') /\ lastch (w_st w') = lastch (w_st w) /\ tape (w_st w') = [] /\
    (IdxJ (w_st w) -> IdxJ (w_st w')) /\
    (forall x sd0, x <> e -> getx w' x sd0 = getx w x sd0) /\
    (forall sd0, getx w' e sd0 = clear_tfile (getx w e sd0)).
Proof.
  intros Hcfg Ht Hn Hcsb Hw1 HfL HfR. unfold AlgoModel.finished.
  destruct (set_changed_w w Hcfg Ht e sd (CNum 0) en Hn) as (w1 & H1 & W1). rewrite H1. cbn [rbind].
  destruct (chg_entry_clear en sd Hw1) as (Hce & Hcp). rewrite Hce, Hcp in W1.
  pose proof W1 as (Wcfg & WpL & WpR & Wx & (SA & SB & SC & SD & SJ) & WT).
  pose proof (weff_nth _ _ _ _ _ _ W1 Hn) as Hn1.
  set (s0 := st_tape (w_st w1) [TSwap false; TSwap false]).
  assert (Hn0: nth_error (ents s0) e = Some (clr en sd)) by exact Hn1.
  assert (Hcsb0: forall x, set_mem x (cset s0) = true -> (x < length (ents s0))%nat).
  { intros x Hx. change (cset s0) with (cset (w_st w1)) in Hx. change (ents s0) with (ents (w_st w1)). rewrite SA, length_list_upd. rewrite SB in Hx.
    destruct (Nat.eq_dec x e) as [Heq|Hne]; [subst x; apply nth_error_Some; congruence|].
    apply Hcsb. destruct (Nat.eqb_spec x e); [contradiction|exact Hx]. }
  destruct env_of_std as (Hleg & _ & _).
  destruct (finished_spec (env_of (cfg_std 1)) Hleg s0 e (clr en sd) Hn0 Hcsb0) as (s' & s2 & Hf & F2 & T2 & P2).
  assert (HE1: E w1 = env_of (cfg_std 1)) by (unfold E; rewrite Wcfg, Hcfg; reflexivity).
  unfold st_op. fold s0. rewrite HE1, Hf. cbn [rbind].
  rewrite (fin_entry_clr en sd HfL HfR) in F2.
  destruct F2 as (A2 & B2 & C2 & D2 & J2). destruct P2 as (PL & PE & PC & PN & PLc & PT & PJ).
  assert (Hn2: nth_error (ents s2) e = Some (clr en sd)) by (rewrite A2; eapply nth_list_upd_eq; eauto).
  destruct (PE e _ Hn2) as (en' & Hen' & Sen').
  eexists. exists en'. split; [reflexivity|].
  unfold clean_temps. rewrite ?w_cfg_setx, ?w_st_setx. cbn [with_st w_cfg w_st st_tape ents cset now lastch tape].
  split; [exact Wcfg|]. split.
  { intros sd0. rewrite !prov_of_setx, prov_of_with_st. destruct sd0; simpl; congruence. }
  split; [exact Hen'|]. split; [exact Sen'|]. split.
  { rewrite PL, A2, length_list_upd. change (ents s0) with (ents (w_st w1)). rewrite SA, length_list_upd. reflexivity. }
  split.
  { intros x xn Hne Hxn. assert (Hx2: nth_error (ents s2) x = Some xn).
    { rewrite A2, nth_list_upd_neq by congruence. change (ents s0) with (ents (w_st w1)). rewrite SA, nth_list_upd_neq by congruence. exact Hxn. }
    apply (PE x xn Hx2). }
  split.
  { intros x Hne. rewrite PC, B2. change (cset s0) with (cset (w_st w1)).
    destruct (tchg (s_chg (e_l (clr en sd))) || tchg (s_chg (e_r (clr en sd))))%bool; rewrite ?SB;
      destruct (Nat.eqb_spec x e); try contradiction; reflexivity. }
  split.
  { rewrite PC, B2. change (cset s0) with (cset (w_st w1)).
    destruct (tchg (s_chg (e_l (clr en sd))) || tchg (s_chg (e_r (clr en sd))))%bool eqn:Ec.
    - rewrite SB, Nat.eqb_refl. reflexivity.
    - rewrite Nat.eqb_refl. unfold other_flagged. apply orb_false_elim in Ec as [EL ER].
      unfold clr in EL, ER. destruct sd; simpl in *; [rewrite EL|rewrite ER]; reflexivity. }
  split; [rewrite PN, C2; exact SC|].
  split; [rewrite PLc, D2; exact SD|]. split; [reflexivity|]. split.
  { intros HI. apply IdxJ_tape. apply PJ, J2. apply IdxJ_tape. apply SJ. exact HI. }
  split.
  { intros x sd0 Hne. rewrite !getx_setx_other by exact Hne. unfold getx. cbn [with_st w_x]. rewrite Wx. reflexivity. }
  intros sd0. destruct sd0.
  - rewrite getx_setx_same. change true with (negb false). rewrite getx_setx_other_side. unfold getx, clear_tfile. cbn [with_st w_x]. rewrite Wx. reflexivity.
  - change false with (negb true) at 1. rewrite getx_setx_other_side, getx_setx_same. unfold getx, clear_tfile. cbn [with_st w_x]. rewrite Wx. reflexivity.
Qed.

Lemma opt_dec {T} (o : option T) : (exists x, o = Some x) \/ o = None.
Proof. destruct o; [left; eauto|right; reflexivity]. Qed.

(* ------------------------------------------------------------------ clearing a change stamp *)
(* Clearing is safe when an event is still pending for the side's object; when none is, the side must be current
   ([freshP]) and then the caller's argument (the entry is paired, the object is alive, hash = sync_hash) makes the
   unflagged side agree with its sync markers. *)
Lemma EntOk_clear evl g w w' e en sd :
  EntOk evl g w e en ->
  (forall sd0 k0, obj_at w' sd0 k0 = obj_at w sd0 k0) ->
  (forall sd0, x_lg (getx w' e sd0) = x_lg (getx w e sd0)) ->
  (forall sd0 k ob, s_oid (gs en sd0) = Some (ostr_k k) -> obj_at w sd0 k = Some ob ->
     pd evl sd0 k = true \/ freshP (gs en sd0) ob) ->
  (forall k ob cs, s_oid (gs en sd) = Some (ostr_k k) -> obj_at w sd k = Some ob -> pd evl sd k = false ->
     freshP (gs en sd) ob -> is_discarded (e_ign en) = false -> g_get k (g_of g sd) = Some cs ->
     s_oid (gs en (negb sd)) <> None /\ ProvModel.o_exists ob = true /\ s_hash (gs en sd) = s_shash (gs en sd)) ->
  EntOk evl g w' e (clr en sd).
Proof.
  intros [A B C] Hobj Hlg Hready Hjust.
  set (en' := clr en sd).
  assert (Hsame: gs en' sd = w_chg (gs en sd) (CNum 0)) by apply gs_ss_same.
  assert (Hoth: gs en' (negb sd) = gs en (negb sd)) by apply gs_ss_other.
  assert (Hign: e_ign en' = e_ign en) by apply ign_ss.
  constructor.
  - rewrite Hign. exact A.
  - destruct sd; simpl in *; exact B.
  - intros sd0. destruct (Bool.bool_dec sd0 sd) as [Heq|Hne].
    + subst sd0. destruct (C sd) as [c1 c2 c3 c5 c4]. constructor; rewrite ?Hsame, ?Hign; cbn [w_chg s_otype s_force s_oid s_chg s_path s_hash s_spath s_shash s_ex tchg N.eqb negb]; auto.
      * intros Hn. destruct (c3 Hn) as (_ & X). auto.
      * intros o Ho'. destruct (c4 o Ho') as (k & ob & Hk & Hob & Hk2 & F). subst o.
        exists k, ob. split; [reflexivity|]. split; [rewrite Hobj; exact Hob|]. split; [exact Hk2|].
        destruct F as [f1 f2 f3 f4 f5 f6 f7 f8 f10 f9].
        destruct (Hready sd k ob Ho' Hob) as [Hpd|Hfr].
        { (* an event is pending: every clause that wanted the flag has it *)
          assert (Hfl: flagP evl en' sd k) by (right; exact Hpd).
          constructor; rewrite ?Hsame, ?Hoth, ?Hign; cbn [w_chg s_ex s_path s_spath s_hash s_shash s_oid s_chg]; auto.
          - intros Hd cs Hcs. destruct (f8 Hd cs Hcs) as (P1 & P2 & P3 & P4 & P5).
            split; [exact P1|]. split; [exact P2|]. split; [exact P3|]. split; [exact P4|].
            intros Ho2. destruct (P5 Ho2) as (Q1 & Q2 & Q3 & Q4). split; [exact Q1|]. split; [exact Q2|]. split; [|exact Q4].
            destruct Q3 as [Q3|(Q3 & _)]; [left; exact Q3|right; split; [exact Q3|exact Hfl]].
          - intros Hd Hcs. destruct (f9 Hd Hcs) as (P1 & P2 & P3 & P4 & P5 & P6 & (k' & ob' & R1 & R2 & R3 & R4)).
            repeat (split; [assumption|]). exists k', ob'. rewrite Hobj. auto. }
        destruct (pd evl sd k) eqn:Epd.
        { assert (Hfl: flagP evl en' sd k) by (right; exact Epd).
          constructor; rewrite ?Hsame, ?Hoth, ?Hign; cbn [w_chg s_ex s_path s_spath s_hash s_shash s_oid s_chg]; auto.
          - intros Hd cs Hcs. destruct (f8 Hd cs Hcs) as (P1 & P2 & P3 & P4 & P5).
            split; [exact P1|]. split; [exact P2|]. split; [exact P3|]. split; [exact P4|].
            intros Ho2. destruct (P5 Ho2) as (Q1 & Q2 & Q3 & Q4). split; [exact Q1|]. split; [exact Q2|]. split; [|exact Q4].
            destruct Q3 as [Q3|(Q3 & _)]; [left; exact Q3|right; split; [exact Q3|exact Hfl]].
          - intros Hd Hcs. destruct (f9 Hd Hcs) as (P1 & P2 & P3 & P4 & P5 & P6 & (k' & ob' & R1 & R2 & R3 & R4)).
            repeat (split; [assumption|]). exists k', ob'. rewrite Hobj. auto. }
        (* no event pending: the side is current *)
        assert (Hfr': freshP (w_chg (gs en sd) (CNum 0)) ob) by exact Hfr.
        constructor; rewrite ?Hsame, ?Hoth, ?Hign; cbn [w_chg s_ex s_path s_spath s_hash s_shash s_oid s_chg].
        -- exact f1.
        -- right. right. exact Hfr.
        -- exact f3.
        -- exact f4.
        -- exact f5.
        -- intros Hd Ho2. exfalso. destruct (opt_dec (g_get k (g_of g sd))) as [(cs & Eg)|Eg].
           ++ destruct (Hjust k ob cs Ho' Hob Epd Hfr Hd Eg) as (X & _). apply X. exact Ho2.
           ++ destruct (f9 Hd Eg) as (_ & _ & _ & _ & _ & _ & (k' & ob' & R1 & _)). congruence.
        -- intros Hd Ho2. right. destruct (opt_dec (g_get k (g_of g sd))) as [(cs & Eg)|Eg].
           ++ destruct (Hjust k ob cs Ho' Hob Epd Hfr Hd Eg) as (_ & Hl & Hhs).
              destruct (f8 Hd cs Eg) as (_ & _ & _ & _ & P5). destruct (P5 Ho2) as (Q1 & _).
              unfold freshP in Hfr. rewrite Hl in Hfr. destruct Hfr as (_ & Fh & _).
              split; [exact Hl|]. split; [destruct f4 as [X|X]; [contradiction|exact X]|congruence].
           ++ destruct (f9 Hd Eg) as (P1 & _ & P3 & _ & P5 & _). auto.
        -- intros Hd cs Hcs. destruct (f8 Hd cs Hcs) as (P1 & P2 & P3 & P4 & P5).
           split; [exact P1|]. split; [exact P2|]. split; [exact P3|]. split; [exact P4|].
           intros Ho2. destruct (P5 Ho2) as (Q1 & Q2 & Q3 & Q4). split; [exact Q1|]. split; [exact Q2|]. split; [|exact Q4].
           destruct Q3 as [Q3|(Q3 & _)]; [left; exact Q3|exfalso].
           destruct (Hjust k ob cs Ho' Hob Epd Hfr Hd Hcs) as (_ & Hl & Hhs).
           unfold freshP in Hfr. rewrite Hl in Hfr. destruct Hfr as (_ & Fh & _). apply Q3. congruence.
        -- exact f10.
        -- intros Hd Hcs. destruct (f9 Hd Hcs) as (P1 & P2 & P3 & P4 & P5 & P6 & (k' & ob' & R1 & R2 & R3 & R4)).
           repeat (split; [assumption|]). exists k', ob'. rewrite Hobj. auto.
    + assert (sd0 = negb sd) by (destruct sd0, sd; try reflexivity; contradiction). subst sd0.
      destruct (C (negb sd)) as [c1 c2 c3 c5 c4]. constructor; rewrite ?Hoth, ?Hign; auto.
      intros o Ho'. destruct (c4 o Ho') as (k1 & ob1 & Hk1 & Hob1 & Hk2 & F). subst o.
      exists k1, ob1. split; [reflexivity|]. split; [rewrite Hobj; exact Hob1|]. split; [exact Hk2|].
      assert (Hfl: flagP evl en (negb sd) k1 -> flagP evl en' (negb sd) k1).
      { intros [X|X]; [left; rewrite Hoth; exact X|right; exact X]. }
      destruct F as [f1 f2 f3 f4 f5 f6 f7 f8 f10 f9]. rewrite negb_inv in f6, f7, f8, f10, f9.
      constructor; rewrite ?Hoth, ?Hign, ?negb_inv, ?Hsame; cbn [w_chg s_ex s_path s_spath s_hash s_shash s_oid s_chg].
      * exact f1.
      * intros _. destruct (Hready (negb sd) k1 ob1 Ho' Hob1) as [X|X]; [left; exact X|right; right; exact X].
      * exact f3.
      * exact f4.
      * exact f5.
      * intros Hd Ho2. apply Hfl. apply f6; assumption.
      * intros Hd Ho2. destruct (f7 Hd Ho2) as [X|X]; [left; apply Hfl; exact X|right; exact X].
      * intros Hd cs Hcs. destruct (f8 Hd cs Hcs) as (P1 & P2 & P3 & P4 & P5).
        split; [exact P1|]. split; [exact P2|]. split; [exact P3|]. split; [exact P4|].
        intros Ho2. destruct (P5 Ho2) as (Q1 & Q2 & Q3 & Q4). split; [exact Q1|]. split; [exact Q2|]. split; [|exact Q4].
        destruct Q3 as [Q3|(Q3 & Q5)]; [left; exact Q3|right; split; [exact Q3|auto]].
      * exact f10.
      * intros Hd Hcs. destruct (f9 Hd Hcs) as (P1 & P2 & P3 & P4 & P5 & P6 & (k' & ob' & R1 & R2 & R3 & R4)).
        repeat (split; [assumption|]). exists k', ob'. rewrite Hobj. auto.
Qed.

Lemma EntOk_clear_disc evl g w w' e en sd :
  EntOk evl g w e en -> is_discarded (e_ign en) = true ->
  (forall sd0 k0, obj_at w' sd0 k0 = obj_at w sd0 k0) ->
  EntOk evl g w' e (clr en sd).
Proof.
  intros [A B C] Ed Hobj.
  assert (Hign: e_ign (clr en sd) = e_ign en) by apply ign_ss.
  assert (Hg: forall sd0, exists c, gs (clr en sd) sd0 = w_chg (gs en sd0) c /\ (tchg (s_chg (gs en sd0)) = false -> tchg c = false)).
  { intros sd0. destruct (Bool.bool_dec sd0 sd) as [Heq|Hne].
    - subst sd0. exists (CNum 0). split; [apply gs_ss_same|reflexivity].
    - exists (s_chg (gs en sd0)). assert (sd0 = negb sd) by (destruct sd0, sd; try reflexivity; contradiction). subst sd0.
      unfold clr. rewrite gs_ss_other. split; [destruct (gs en (negb sd)); reflexivity|auto]. }
  constructor.
  - rewrite Hign. exact A.
  - destruct sd; simpl in *; exact B.
  - intros sd0. destruct (Hg sd0) as (c & Hc & Hcf). destruct (C sd0) as [c1 c2 c3 c5 c4].
    constructor; rewrite ?Hc, ?Hign; cbn [w_chg s_otype s_force s_oid s_chg s_path s_hash s_spath s_shash s_ex]; auto.
    + intros Hn. destruct (c3 Hn) as (X1 & X). split; [apply Hcf; exact X1|exact X].
    + intros o Ho. destruct (c4 o Ho) as (k & ob & Hk & Hob & Hk2 & F). exists k, ob. split; [exact Hk|]. split; [rewrite Hobj; exact Hob|]. split; [exact Hk2|].
      destruct F as [f1 f2 f3 f4 f5 f6 f7 f8 f10 f9].
      constructor; rewrite ?Hc, ?Hign; cbn [w_chg s_otype s_force s_oid s_chg s_path s_hash s_spath s_shash s_ex]; try (intros Hd; congruence); auto.
Qed.

(* ------------------------------------------------------------------ the invariant across a clearing step *)
Lemma flagged_clr en sd : flagged (clr en sd) = other_flagged en sd.
Proof. unfold flagged, clr, other_flagged. destruct en as [l r i p], sd; simpl; [rewrite orb_false_r|]; reflexivity. Qed.
Lemma maxchg_clr en sd : maxchg (clr en sd) <= maxchg en.
Proof. unfold maxchg, chgv, clr. destruct en as [l r i p], sd; simpl; lia. Qed.
Lemma oid_clr en sd sd0 : s_oid (gs (clr en sd) sd0) = s_oid (gs en sd0).
Proof. unfold clr. destruct en as [l r i p], sd, sd0; reflexivity. Qed.

Definition ReadyAll (evl : evlist) (w : world) (e : nat) (en : StateModel.entry) : Prop :=
  forall sd0 k ob, s_oid (gs en sd0) = Some (ostr_k k) -> obj_at w sd0 k = Some ob -> pd evl sd0 k = true \/ freshP (gs en sd0) ob.

Lemma inv_clear evl g w w' e en en' sd :
  InvP evl g w -> (2 <= e)%nat -> nth_error (ents (w_st w)) e = Some en -> (is_discarded (e_ign en) = false -> ReadyAll evl w e en) ->
  (is_discarded (e_ign en) = false -> forall sd0, s_oid (gs en sd0) <> None -> ShapeS (gs en sd0)) ->
  (forall k ob cs, s_oid (gs en sd) = Some (ostr_k k) -> obj_at w sd k = Some ob -> pd evl sd k = false ->
     freshP (gs en sd) ob -> is_discarded (e_ign en) = false -> g_get k (g_of g sd) = Some cs ->
     s_oid (gs en (negb sd)) <> None /\ ProvModel.o_exists ob = true /\ s_hash (gs en sd) = s_shash (gs en sd)) ->
  w_cfg w' = w_cfg w -> (forall sd0, prov_of w' sd0 = prov_of w sd0) ->
  nth_error (ents (w_st w')) e = Some en' -> same_but_prio (clr en sd) en' ->
  length (ents (w_st w')) = length (ents (w_st w)) ->
  (forall x xn, x <> e -> nth_error (ents (w_st w)) x = Some xn ->
     exists xn', nth_error (ents (w_st w')) x = Some xn' /\ same_but_prio xn xn') ->
  (forall x, x <> e -> set_mem x (cset (w_st w')) = set_mem x (cset (w_st w))) ->
  set_mem e (cset (w_st w')) = other_flagged en sd ->
  now (w_st w) <= now (w_st w') -> lastch (w_st w') = lastch (w_st w) -> tape (w_st w') = [] ->
  (IdxJ (w_st w) -> IdxJ (w_st w')) ->
  (forall x sd0, x <> e -> getx w' x sd0 = getx w x sd0) ->
  (forall sd0, x_lg (getx w' e sd0) = x_lg (getx w e sd0)) ->
  InvP evl g w'.
Proof.
  intros I He Hn Hready Hshape Hjust Hcfg Hprov Hen' Ssbp Hlen Hoth Hcs Hmem Hnow Hlast Htape HJ Hx Hxe.
  assert (Hobj: forall sd0 k0, obj_at w' sd0 k0 = obj_at w sd0 k0) by (intros; unfold obj_at; rewrite Hprov; reflexivity).
  pose proof (i_ents _ _ _ I e en He Hn) as EO.
  destruct (i_clke _ _ _ I e en Hn) as (Hmaxo & Hlgo).
  assert (Hoid': forall sd0, s_oid (gs en' sd0) = s_oid (gs en sd0)) by (intros sd0; rewrite <- (sbp_gs _ _ sd0 Ssbp); apply oid_clr).
  apply (inv_master evl evl g g w w' e en' I).
  - exact Hcfg.
  - intros sd0. rewrite Hprov. split; [apply (i_pwf _ _ _ I)|]. split; [apply (ShapeOk_ext w w' sd0 (Hobj sd0) (i_shape _ _ _ I sd0))|].
    apply (LogOk_ext evl evl w w' sd0 (Hobj sd0)); [auto|apply (i_log _ _ _ I)].
  - exact He.
  - exact Hen'.
  - rewrite Hlen. apply Nat.le_refl.
  - intros x Hx0 Hne. apply nth_error_None. rewrite Hlen. exact Hx0.
  - exact Hoth.
  - exact Hcs.
  - intros Hfl. rewrite Hmem. rewrite <- (sbp_flagged _ _ Ssbp), flagged_clr in Hfl. exact Hfl.
  - intros Hm. rewrite Hmem in Hm. rewrite <- (sbp_flagged _ _ Ssbp), flagged_clr. exact Hm.
  - exact Hnow.
  - rewrite Hlast. pose proof (i_clk _ _ _ I). lia.
  - rewrite <- (sbp_maxchg _ _ Ssbp). pose proof (maxchg_clr en sd). lia.
  - intros sd0. rewrite (Hxe sd0). specialize (Hlgo sd0). lia.
  - exact Htape.
  - apply HJ. apply (i_idx _ _ _ I).
  - exact Hx.
  - intros x xn Hne Hx2 Hxn sd0 k0 Hk0. split; [apply Hobj|]. split; [auto|reflexivity].
  - intros sd0 k0 Hk0 Hlt. rewrite Hprov in Hlt. destruct (i_cov _ _ _ I sd0 k0 Hk0 Hlt) as [(x & xn & Hxn & Hox)|Hp]; [left|right; exact Hp].
    destruct (Nat.eq_dec x e) as [Heq|Hne].
    + subst x. exists e, en'. split; [exact Hen'|]. assert (xn = en) by congruence. subst xn. rewrite Hoid'. exact Hox.
    + destruct (Hoth x xn Hne Hxn) as (xn' & Hxn' & S). exists x, xn'. split; [exact Hxn'|]. rewrite <- (sbp_gs _ _ sd0 S). exact Hox.
  - intros sd0 k0 Hk0 Hlt Hg. rewrite Hprov in Hlt. destruct (i_cove _ _ _ I sd0 k0 Hk0 Hlt Hg) as (x & xn & Hxn & Hox).
    destruct (Nat.eq_dec x e) as [Heq|Hne].
    + subst x. exists e, en'. split; [exact Hen'|]. assert (xn = en) by congruence. subst xn. rewrite Hoid'. exact Hox.
    + destruct (Hoth x xn Hne Hxn) as (xn' & Hxn' & S). exists x, xn'. split; [exact Hxn'|]. rewrite <- (sbp_gs _ _ sd0 S). exact Hox.
  - intros sd0 k0 cs Hg. rewrite Hobj. apply (i_ghost _ _ _ I sd0 k0 cs Hg).
  - apply (EntOk_sbp _ _ _ _ (clr en sd) en' Ssbp).
    destruct (Bool.bool_dec (is_discarded (e_ign en)) true) as [Ed|Ed].
    + apply (EntOk_clear_disc evl g w w' e en sd EO Ed Hobj).
    + apply Bool.not_true_is_false in Ed. apply (EntOk_clear evl g w w' e en sd EO Hobj); [exact Hxe|exact (Hready Ed)|exact Hjust].
  - intros sd0 Hoid Hd _. rewrite <- (sbp_gs _ _ sd0 Ssbp) in *. destruct Ssbp as (_ & _ & S3). rewrite <- S3 in Hd.
    unfold clr in *. rewrite ign_ss in Hd.
    assert (Hg: exists c, gs (ss en sd (w_chg (gs en sd) (CNum 0))) sd0 = w_chg (gs en sd0) c).
    { destruct (Bool.bool_dec sd0 sd) as [->|Hne]; [exists (CNum 0); apply gs_ss_same|].
      assert (sd0 = negb sd) by (destruct sd0, sd; try reflexivity; contradiction). subst sd0. exists (s_chg (gs en (negb sd))).
      rewrite gs_ss_other. destruct (gs en (negb sd)); reflexivity. }
    destruct Hg as (c & Hg). rewrite Hg in *. cbn [w_chg s_oid] in Hoid. apply (Hshape Hd sd0 Hoid).
Qed.
