(* CacheModel.v — executable model of the public API of cloudsync/hierarchical_cache.py
   (class HierarchicalCache): create, mkdir, rename, delete(oid=/path=), set_oid, update,
   set_metadata and the getters get_oid, get_path, get_type, listdir, walk, get_metadata.

   Representation.  The code keeps a heap of Node objects (children dict, weak parent pointer)
   plus a dict _oid_to_node.  The model keeps
     * an inductive tree [node] (type, id, metadata, ordered children = a Python dict in
       insertion order); the id -> node dict for nodes inside the tree is DERIVED ([index]);
     * [c_ghosts]: the entries of _oid_to_node whose node is NOT in the tree.  The code really
       produces those ("ghosts"): giving a node the id of one of its ancestors first deletes the
       ancestor (and with it the node) and then registers the detached node under that id.
       A ghost has no parent and no children; get_path answers None for it and every later
       attempt to delete/reuse its id raises AttributeError.
   Paths are lists of names; a name is one N (the correspondence run uses one-character
   names, the code point); name 0 is the empty name '' that the code stores when asked to
   insert at the root path.  String parsing of paths (split/join/normalize) is PathModel's
   business (C13); here normalize_path is [map fold].

   Exceptions are explicit: an operation returns (outcome, state) and the state of an
   [RErr] outcome is the state the real object is left in when the exception propagates
   (operations are not atomic in the code: deletes done before the exception stay done).

   Limit of the model ([RUnmodelled], never a normal-looking answer): an insertion at the
   root path (create/mkdir/update/set_oid/rename whose normalised target is "/") stores a child
   with the empty name '' under the root, a node that path lookups can never reach again.  The
   state right after such an operation IS modelled (all getters are compared, and the refutation
   in PropC19.v uses it); but every later mutating call in such a state answers [RUnmodelled],
   because from there on the code's behaviour depends on object identity and reference counting
   of detached nodes (and on unbounded recursion: delete(path="/") then recurses forever), which
   an inductive tree cannot express.  (Until repository commit 5cc1cf3 rename() also stored the
   new name un-normalised, with the same effect on case-insensitive providers; the model follows
   the repaired code: the new path is normalised first.) *)
From Coq Require Import NArith List Bool.
From CS Require Import Sx Str.
Import ListNotations.

Notation name := N (only parsing).
Notation path := (list N) (only parsing).
Notation oid := N (only parsing).
Notation meta := (list (N * N)) (only parsing).         (* key -> value; value 0 = a value of the wrong type *)

Inductive node := Node (dir : bool) (id : option oid) (md : meta) (kids : list (name * node)).

Definition n_dir (t : node) : bool := match t with Node d _ _ _ => d end.
Definition n_id (t : node) : option oid := match t with Node _ i _ _ => i end.
Definition n_md (t : node) : meta := match t with Node _ _ m _ => m end.
Definition n_kids (t : node) : list (name * node) := match t with Node _ _ _ k => k end.

(* ---------------------------------------------------------------- Python dict as ordered assoc list *)
Fixpoint aget {T} (k : N) (l : list (N * T)) : option T :=
  match l with
  | [] => None
  | (k', v) :: r => if N.eqb k k' then Some v else aget k r
  end.
Definition adel {T} (k : N) (l : list (N * T)) : list (N * T) :=
  filter (fun kv => negb (N.eqb k (fst kv))) l.
(* d[k] = v : in place when the key exists, else appended *)
Fixpoint aset {T} (k : N) (v : T) (l : list (N * T)) : list (N * T) :=
  match l with
  | [] => [(k, v)]
  | (k', v') :: r => if N.eqb k k' then (k, v) :: r else (k', v') :: aset k v r
  end.
Definition md_update (old new : meta) : meta := fold_left (fun acc kv => aset (fst kv) (snd kv) acc) new old.

Definition opt_is {T} (o : option T) : bool := match o with Some _ => true | None => false end.
Definition oid_is (i : option oid) (o : oid) : bool := match i with Some x => N.eqb x o | None => false end.

(* ---------------------------------------------------------------- tree primitives *)
Fixpoint lookup (p : path) (t : node) : option node :=
  match p with
  | [] => Some t
  | n :: p' => match aget n (n_kids t) with Some c => lookup p' c | None => None end
  end.

Definition descend (n : name) (f : node -> node) (t : node) : node :=
  match t with Node d i m kids =>
    match aget n kids with Some c => Node d i m (aset n (f c) kids) | None => t end
  end.

Fixpoint modify (p : path) (f : node -> node) (t : node) : node :=
  match p with
  | [] => f t
  | n :: p' => descend n (modify p' f) t
  end.

Definition del_kid (n : name) (t : node) : node :=
  match t with Node d i m kids => Node d i m (adel n kids) end.
Definition add_kid (n : name) (c : node) (t : node) : node :=
  match t with Node d i m kids => Node d i m (aset n c kids) end.
Definition clear_kids (t : node) : node := match t with Node d i m _ => Node d i m [] end.
Definition set_id (o : oid) (t : node) : node := match t with Node d _ m k => Node d (Some o) m k end.
Definition set_md (m : meta) (t : node) : node := match t with Node d i _ k => Node d i m k end.
Definition upd_md (m : meta) (t : node) : node := match t with Node d i m0 k => Node d i (md_update m0 m) k end.

(* detach the subtree at p (p <> []) *)
Fixpoint remove (p : path) (t : node) : node :=
  match p with
  | [] => t
  | n :: p' => match p' with [] => del_kid n t | _ => descend n (remove p') t end
  end.

(* mkdir -p as __insert_node does it: a missing component, or a FILE in the way, is replaced by a
   fresh id-less directory appended at the end of its parent's dict *)
Definition fresh_dir : node := Node true None [] [].
Fixpoint mkdirp (p : path) (t : node) : node :=
  match p with
  | [] => t
  | n :: p' =>
    match t with Node d i m kids =>
      match aget n kids with
      | Some (Node true i' m' k') => Node d i m (aset n (mkdirp p' (Node true i' m' k')) kids)
      | _ => Node d i m (adel n kids ++ [(n, mkdirp p' fresh_dir)])
      end
    end
  end.

(* the derived id -> node dict: every id in the tree with the (raw-key) path of its node, pre-order *)
Fixpoint index (t : node) : list (oid * path) :=
  match t with Node _ i _ kids =>
    (match i with Some o => [(o, [])] | None => [] end)
    ++ flat_map (fun nc => map (fun op => (fst op, fst nc :: snd op)) (index (snd nc))) kids
  end.

(* _walk order: the node, then each child's walk, in dict order (relative raw-key paths) *)
Fixpoint paths (t : node) : list path :=
  match t with Node _ _ _ kids =>
    [] :: flat_map (fun nc => map (cons (fst nc)) (paths (snd nc))) kids
  end.

(* a local condition (on a node's type and the list of its children's names) holding at every node *)
Fixpoint all_nodes (P : bool -> list name -> bool) (t : node) : bool :=
  match t with Node d _ _ kids =>
    P d (map fst kids) && forallb (fun nc => all_nodes P (snd nc)) kids
  end.

(* all stored names are normalised and non-empty: the states in which path lookups reach every node *)
Definition name_ok (fold : N -> N) (k : name) : bool := N.eqb (fold k) k && negb (N.eqb k 0).
Definition keys_ok (fold : N -> N) (t : node) : bool := all_nodes (fun _ ks => forallb (name_ok fold) ks) t.

(* Provider.join drops empty names *)
Definition clean (p : path) : path := filter (fun n => negb (N.eqb n 0)) p.

(* ---------------------------------------------------------------- cache *)
Record cfg := { cf_fold : N -> N; cf_tmpl : list N }.
Record cache := { c_root : node; c_ghosts : list (oid * node) }.

Definition with_root (c : cache) (t : node) : cache := {| c_root := t; c_ghosts := c_ghosts c |}.
Definition with_ghost (c : cache) (o : oid) (g : node) : cache :=
  {| c_root := c_root c; c_ghosts := aset o g (c_ghosts c) |}.
Definition rid (c : cache) : oid := match n_id (c_root c) with Some r => r | None => 0%N end.
Definition init (r : oid) (m : meta) : cache := {| c_root := Node true (Some r) m []; c_ghosts := [] |}.
Definition tame (cf : cfg) (c : cache) : bool := keys_ok (cf_fold cf) (c_root c).

Inductive exn := EAssert | EValue | EType | EAttr.
Inductive outcome := ROk | RErr (e : exn) | RUnmodelled.

Definition mem (k : N) (l : list N) : bool := existsb (N.eqb k) l.
(* _check_metadata *)
Definition md_ok (cf : cfg) (m : meta) : bool :=
  forallb (fun kv => mem (fst kv) (cf_tmpl cf) && negb (N.eqb (snd kv) 0)) m.
Definition md_ok_opt (cf : cfg) (m : option meta) : bool := match m with Some m => md_ok cf m | None => true end.
Definition md_or (m : option meta) : meta := match m with Some m => m | None => [] end.

(* what a node reference obtained from _get_node designates *)
Inductive loc := LNone | LTree (rp : path) | LGhost (o : oid) (g : node).

Definition loc_path (cf : cfg) (c : cache) (p : path) : loc :=
  let q := map (cf_fold cf) p in
  match lookup q (c_root c) with Some _ => LTree q | None => LNone end.

(* _get_node(oid=o): the root is special-cased, then the dict *)
Definition loc_oid (c : cache) (o : oid) : loc :=
  if N.eqb o (rid c) then LTree []
  else match aget o (c_ghosts c) with
       | Some g => LGhost o g
       | None => match aget o (index (c_root c)) with Some rp => LTree rp | None => LNone end
       end.

(* self._oid_to_node.get(o): no special case, a ghost registered under the root's id hides the root *)
Definition loc_map (c : cache) (o : oid) : loc :=
  match aget o (c_ghosts c) with
  | Some g => LGhost o g
  | None => match aget o (index (c_root c)) with Some rp => LTree rp | None => LNone end
  end.

Definition node_at (c : cache) (l : loc) : option node :=
  match l with
  | LNone => None
  | LTree rp => lookup rp (c_root c)
  | LGhost _ g => Some g
  end.

(* delete(...) of a located node, in a tame state: the recursion dismantles the whole subtree;
   the root itself stays; a ghost has no parent -> AttributeError in _delete *)
Definition delete_loc (c : cache) (l : loc) : outcome * cache :=
  match l with
  | LNone => (ROk, c)
  | LGhost _ _ => (RErr EAttr, c)
  | LTree [] => (ROk, with_root c (clear_kids (c_root c)))
  | LTree rp => (ROk, with_root c (remove rp (c_root c)))
  end.

(* parent_node.add_child(node) + registration of the ids, c3 = the state after the two deletes *)
Definition attach_node (par : list N) (nm : N) (nd : node) (c3 : cache) : outcome * cache :=
  match lookup par (c_root c3) with
  | Some _ => (ROk, with_root c3 (modify par (add_kid nm nd) (c_root c3)))
  | None =>
    (* the parent object was detached by delete(oid=...): the child is added to a dead parent;
       only the dict entry for its id survives *)
    match n_id nd with
    | Some o => (ROk, with_ghost c3 o (Node (n_dir nd) (Some o) (n_md nd) (n_kids nd)))
    | None => (ROk, c3)
    end
  end.

(* the second half of __insert_node: c2 = the state after self.delete(path=path), pid = the parent's id *)
Definition insert_tail (par : list N) (nm : N) (nd : node) (pid : option N) (c2 : cache) : outcome * cache :=
  match n_id nd with
  | None => attach_node par nm nd c2
  | Some o =>
    match loc_oid c2 o with
    | LGhost _ _ => (RErr EAttr, c2)                                (* self.delete(oid=node.oid) *)
    | l =>
      let c3 := snd (delete_loc c2 l) in
      if oid_is pid o then (RErr EAssert, c3)                       (* add_child -> child.check() *)
      else attach_node par nm nd c3
    end
  end.

(* __insert_node(node, path) *)
Definition insert_node (cf : cfg) (c : cache) (nd : node) (raw : list N) : outcome * cache :=
  let par := map (cf_fold cf) (removelast raw) in
  let nm := last raw 0%N in
  let c1 := with_root c (mkdirp par (c_root c)) in                 (* parent found or _mkdir(parent, None) *)
  let c2 := snd (delete_loc c1 (loc_path cf c1 raw)) in            (* self.delete(path=path) *)
  let pid := match lookup par (c_root c2) with Some P => n_id P | None => None end in
  insert_tail par nm nd pid c2.

(* __make_node(otype, path, oid, metadata) *)
Definition make_node (cf : cfg) (c : cache) (d : bool) (p : path) (o : option oid) (m : option meta)
  : outcome * cache :=
  if negb (md_ok_opt cf m) then (RErr EValue, c)
  else insert_node cf c (Node d o (md_or m) []) (map (cf_fold cf) p).

(* what became of the node object handed to _set_oid *)
Inductive fate := FSame | FGone | FGhost.

(* the second half of _set_oid, c1 = the state after self.delete(oid=o); (d, i, m) = the node's fields *)
Definition set_oid_after (cf : cfg) (c1 : cache) (rp : list N) (o : N) (d : bool) (i : option N) (m : list (N * N))
  : outcome * cache * fate :=
  let attached := opt_is (lookup rp (c_root c1)) in
  match i with
  | None =>
    if attached then (ROk, with_root c1 (modify rp (set_id o) (c_root c1)), FSame)
    else (ROk, with_ghost c1 o (Node d (Some o) m []), FGhost)
  | Some _ =>
    if attached then
      (* the node is replaced by a fresh one; the root object itself is never replaced *)
      let '(r, c2) := make_node cf c1 d rp (Some o) None in
      (r, c2, match rp with [] => FSame | _ => FGone end)
    else (RErr EType, c1, FGone)                                   (* normalize_path(None) *)
  end.

(* _set_oid(node, o), node = the tree node at raw path rp *)
Definition set_oid_node (cf : cfg) (c : cache) (rp : list N) (o : N) : outcome * cache * fate :=
  match lookup rp (c_root c) with
  | None => (ROk, c, FSame)
  | Some (Node d i m _) =>
    if oid_is i o then (ROk, c, FSame)
    else
      match loc_oid c o with
      | LGhost _ _ => (RErr EAttr, c, FSame)
      | l => set_oid_after cf (snd (delete_loc c l)) rp o d i m
      end
  end.

Inductive op :=
| OCreate (p : path) (o : option oid) (m : option meta)
| OMkdir (p : path) (o : option oid) (m : option meta)
| ORename (p q : path)
| ODelete (o : option oid) (p : option path)
| OSetOid (p : path) (o : option oid) (d : option bool)
| OUpdate (p : path) (d : bool) (o : option oid) (m : option meta) (keep : bool)
| OSetMeta (m : option meta) (o : option oid) (p : option path).

(* _get_node(oid=, path=) *)
Definition get_node (cf : cfg) (c : cache) (o : option oid) (p : option path) : option loc :=
  match o, p with
  | Some o, _ => Some (loc_oid c o)
  | None, Some p => Some (loc_path cf c p)
  | None, None => None                                              (* ValueError *)
  end.

Definition op_rename (cf : cfg) (c : cache) (p q : path) : outcome * cache :=
  match loc_path cf c p with
  | LTree [] => (RErr EValue, c)
  | LTree rp =>
    match lookup rp (c_root c) with
    | Some nd =>
      let c1 := with_root c (remove rp (c_root c)) in               (* _delete(node) *)
      let c2 := snd (delete_loc c1 (loc_path cf c1 q)) in           (* self.delete(path=new_path) *)
      insert_node cf c2 nd (map (cf_fold cf) q)                     (* __insert_node(node, normalize_path(new_path)) *)
    | None => (ROk, c)
    end
  | _ => (ROk, snd (delete_loc c (loc_path cf c q)))
  end.

Definition op_update (cf : cfg) (c : cache) (p : path) (d : bool) (o : option oid) (m : option meta)
           (keep : bool) : outcome * cache :=
  let mv := md_or m in
  if negb (md_ok cf mv) then (RErr EValue, c)
  else
    match loc_path cf c p with
    | LTree rp =>
      match lookup rp (c_root c) with
      | Some nd =>
        if negb (Bool.eqb (n_dir nd) d) then
          (* _delete(node): not for the root *)
          let c1 := match rp with [] => c | _ => with_root c (remove rp (c_root c)) end in
          make_node cf c1 d p o (Some mv)
        else
          let '(r, c1, ft) := match o with Some o => set_oid_node cf c rp o | None => (ROk, c, FSame) end in
          match r with
          | ROk =>
            if keep then
              match ft with
              | FSame => (ROk, with_root c1 (modify rp (upd_md mv) (c_root c1)))
              | FGone => (ROk, c1)
              | FGhost =>
                match o with
                | Some o => match aget o (c_ghosts c1) with
                            | Some g => (ROk, with_ghost c1 o (upd_md mv g))
                            | None => (ROk, c1)
                            end
                | None => (ROk, c1)
                end
              end
            else
              match loc_path cf c1 p with
              | LTree rp' => (ROk, with_root c1 (modify rp' (set_md mv) (c_root c1)))
              | _ => (ROk, c1)
              end
          | _ => (r, c1)
          end
      | None => (ROk, c)
      end
    | _ => make_node cf c d p o (Some mv)
    end.

Definition op_set_oid (cf : cfg) (c : cache) (p : path) (o : option oid) (d : option bool) : outcome * cache :=
  match o, d with
  | Some o, Some d =>
    match loc_path cf c p with
    | LTree rp => let '(r, c1, _) := set_oid_node cf c rp o in (r, c1)
    | _ => make_node cf c d p (Some o) None
    end
  | _, _ => (RErr EAssert, c)
  end.

Definition op_set_meta (cf : cfg) (c : cache) (m : option meta) (o : option oid) (p : option path)
  : outcome * cache :=
  if negb (md_ok_opt cf m) then (RErr EValue, c)
  else match get_node cf c o p with
       | None => (RErr EValue, c)
       | Some LNone => (ROk, c)
       | Some (LTree rp) => (ROk, with_root c (modify rp (set_md (md_or m)) (c_root c)))
       | Some (LGhost g gn) => (ROk, with_ghost c g (set_md (md_or m) gn))
       end.

Definition step (cf : cfg) (c : cache) (x : op) : outcome * cache :=
  if negb (tame cf c) then (RUnmodelled, c)
  else
    match x with
    | OCreate p o m => make_node cf c false p o m
    | OMkdir p o m => make_node cf c true p o m
    | ORename p q => op_rename cf c p q
    | ODelete o p => match get_node cf c o p with
                     | None => (RErr EValue, c)
                     | Some l => delete_loc c l
                     end
    | OSetOid p o d => op_set_oid cf c p o d
    | OUpdate p d o m keep => op_update cf c p d o m keep
    | OSetMeta m o p => op_set_meta cf c m o p
    end.

Definition exec (cf : cfg) (c : cache) (ops : list op) : cache :=
  fold_left (fun c x => snd (step cf c x)) ops c.

(* ---------------------------------------------------------------- getters *)
Definition get_oid (cf : cfg) (c : cache) (p : path) : option oid :=
  match node_at c (loc_path cf c p) with Some t => n_id t | None => None end.

(* full_path(): a ghost has no root above it -> None *)
Definition get_path (c : cache) (o : oid) : option path :=
  match loc_map c o with
  | LTree rp => Some (clean rp)
  | _ => None
  end.

Definition get_type_l (c : cache) (l : loc) : option bool :=
  match node_at c l with Some t => Some (n_dir t) | None => None end.
Definition listdir_l (c : cache) (l : loc) : list name :=
  match node_at c l with Some t => map fst (n_kids t) | None => [] end.
Definition get_md_l (c : cache) (l : loc) : option meta :=
  match node_at c l with Some t => Some (n_md t) | None => None end.
Definition walk_l (c : cache) (l : loc) : list (option path) :=
  match l with
  | LNone => []
  | LTree rp => match lookup rp (c_root c) with
                | Some t => map (fun rel => Some (clean (rp ++ rel))) (paths t)
                | None => []
                end
  | LGhost _ g => None :: map (fun rel => Some (clean rel)) (tl (paths g))
  end.

(* ---------------------------------------------------------------- wire protocol
   request  : (ci tmpl rid rootmd ops upaths uoids)
   response : (obs0 (res1 obs1) (res2 obs2) ...)   obs = ((per path ...) (per oid ...)) *)
Definition un_path : sx -> option path := un_str.
Definition un_kv (x : sx) : option (N * N) :=
  match x with L [A k; A v] => Some (k, v) | _ => None end.
Definition un_meta : sx -> option meta := un_list un_kv.

Definition un_op (x : sx) : option op :=
  match x with
  | L [A 0; p; o; m] =>
    match un_path p, un_opt un_atom o, un_opt un_meta m with
    | Some p, Some o, Some m => Some (OCreate p o m) | _, _, _ => None end
  | L [A 1; p; o; m] =>
    match un_path p, un_opt un_atom o, un_opt un_meta m with
    | Some p, Some o, Some m => Some (OMkdir p o m) | _, _, _ => None end
  | L [A 2; p; q] =>
    match un_path p, un_path q with
    | Some p, Some q => Some (ORename p q) | _, _ => None end
  | L [A 3; o; p] =>
    match un_opt un_atom o, un_opt un_path p with
    | Some o, Some p => Some (ODelete o p) | _, _ => None end
  | L [A 4; p; o; d] =>
    match un_path p, un_opt un_atom o, un_opt un_bool d with
    | Some p, Some o, Some d => Some (OSetOid p o d) | _, _, _ => None end
  | L [A 5; p; d; o; m; k] =>
    match un_path p, un_bool d, un_opt un_atom o, un_opt un_meta m, un_bool k with
    | Some p, Some d, Some o, Some m, Some k => Some (OUpdate p d o m k) | _, _, _, _, _ => None end
  | L [A 6; m; o; p] =>
    match un_opt un_meta m, un_opt un_atom o, un_opt un_path p with
    | Some m, Some o, Some p => Some (OSetMeta m o p) | _, _, _ => None end
  | _ => None
  end.

Definition sx_path (p : path) : sx := L (map A p).
Definition sx_meta (m : meta) : sx := L (map (fun kv => L [A (fst kv); A (snd kv)]) m).
Definition sx_outcome (r : outcome) : sx :=
  match r with
  | ROk => A 0
  | RErr EAssert => A 1
  | RErr EValue => A 2
  | RErr EType => A 3
  | RErr EAttr => A 4
  | RUnmodelled => A 99
  end.

Definition obs_loc (c : cache) (l : loc) : list sx :=
  [ sx_opt sx_bool (get_type_l c l);
    L (map A (listdir_l c l));
    L (map (sx_opt sx_path) (walk_l c l));
    sx_opt sx_meta (get_md_l c l) ].

Definition observe (cf : cfg) (c : cache) (ups : list path) (uos : list oid) : sx :=
  L [ L (map (fun p => L (sx_opt A (get_oid cf c p) :: obs_loc c (loc_path cf c p))) ups);
      L (map (fun o => L (sx_opt sx_path (get_path c o) :: obs_loc c (loc_oid c o))) uos) ].

Fixpoint run_ops (cf : cfg) (c : cache) (ops : list op) (ups : list path) (uos : list oid) : list sx :=
  match ops with
  | [] => []
  | x :: r =>
    let '(res, c') := step cf c x in
    L [sx_outcome res; observe cf c' ups uos] :: run_ops cf c' r ups uos
  end.

Definition run (x : sx) : sx :=
  match x with
  | L [ci; tmpl; A r; rmd; ops; ups; uos] =>
    match un_bool ci, un_list un_atom tmpl, un_meta rmd, un_list un_op ops,
          un_list un_path ups, un_list un_atom uos with
    | Some ci, Some tmpl, Some rmd, Some ops, Some ups, Some uos =>
      let cf := {| cf_fold := if ci then fold_std else (fun n => n); cf_tmpl := tmpl |} in
      let c := init r rmd in
      L (observe cf c ups uos :: run_ops cf c ops ups uos)
    | _, _, _, _, _, _ => sx_malformed
    end
  | _ => sx_malformed
  end.
