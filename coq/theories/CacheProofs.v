(* CacheProofs.v — lemmas about CacheModel: association lists, lookup under the tree edits,
   the derived index, structural conditions. *)
From Coq Require Import NArith List Bool Lia.
From CS Require Import Sx Str CacheModel.
Import ListNotations.

(* ------------------------------------------------------------------ association lists *)
Lemma aget_aset_eq {T} k (v : T) l : aget k (aset k v l) = Some v.
Proof.
  induction l as [|[k' v'] l IH]; simpl.
  - rewrite N.eqb_refl. reflexivity.
  - destruct (N.eqb k k') eqn:E; simpl.
    + rewrite N.eqb_refl. reflexivity.
    + rewrite E. exact IH.
Qed.

Lemma aget_aset_neq {T} k k' (v : T) l : k <> k' -> aget k' (aset k v l) = aget k' l.
Proof.
  intros Hne. induction l as [|[k2 v2] l IH]; simpl.
  - destruct (N.eqb_spec k' k); [congruence|reflexivity].
  - destruct (N.eqb_spec k k2) as [->|Hk]; simpl.
    + destruct (N.eqb_spec k' k2); [congruence|reflexivity].
    + destruct (N.eqb k' k2); [reflexivity|exact IH].
Qed.

Lemma aget_adel_eq {T} k (l : list (N * T)) : aget k (adel k l) = None.
Proof.
  unfold adel. induction l as [|[k' v'] l IH]; simpl; [reflexivity|].
  destruct (N.eqb k k') eqn:E; simpl; [exact IH|]. rewrite E. exact IH.
Qed.

Lemma aget_adel_neq {T} k k' (l : list (N * T)) : k <> k' -> aget k' (adel k l) = aget k' l.
Proof.
  intros Hne. unfold adel. induction l as [|[k2 v2] l IH]; simpl; [reflexivity|].
  destruct (N.eqb_spec k k2) as [->|Hk]; simpl.
  - destruct (N.eqb_spec k' k2); [congruence|exact IH].
  - destruct (N.eqb k' k2); [reflexivity|exact IH].
Qed.

Lemma aget_app {T} k (l1 l2 : list (N * T)) :
  aget k (l1 ++ l2) = match aget k l1 with Some v => Some v | None => aget k l2 end.
Proof.
  induction l1 as [|[k' v'] l1 IH]; simpl; [reflexivity|].
  destruct (N.eqb k k'); [reflexivity|exact IH].
Qed.

Lemma aget_in {T} k (v : T) l : aget k l = Some v -> In (k, v) l.
Proof.
  induction l as [|[k' v'] l IH]; simpl; [discriminate|].
  destruct (N.eqb_spec k k') as [->|Hk]; intros H.
  - inversion H; subst. left. reflexivity.
  - right. apply IH. exact H.
Qed.

Lemma in_aget {T} k (v : T) l : In (k, v) l -> exists v', aget k l = Some v'.
Proof.
  induction l as [|[k' v'] l IH]; simpl; [tauto|].
  intros [H|H].
  - inversion H; subst. rewrite N.eqb_refl. eauto.
  - destruct (N.eqb k k'); [eauto|apply IH; exact H].
Qed.

Lemma aget_none_keys {T} k (l : list (N * T)) : aget k l = None -> ~ In k (map fst l).
Proof.
  induction l as [|[k' v'] l IH]; simpl; [tauto|].
  destruct (N.eqb_spec k k') as [->|Hk]; [discriminate|].
  intros H [H1|H1]; [congruence|]. apply IH; assumption.
Qed.

Lemma aget_nodup {T} k (v : T) l : NoDup (map fst l) -> In (k, v) l -> aget k l = Some v.
Proof.
  induction l as [|[k' v'] l IH]; simpl; [tauto|].
  intros Hnd [H|H].
  - inversion H; subst. rewrite N.eqb_refl. reflexivity.
  - inversion Hnd as [|? ? Hni Hnd']; subst.
    destruct (N.eqb_spec k k') as [->|Hk].
    + exfalso. apply Hni. apply in_map_iff. exists (k', v). auto.
    + apply IH; assumption.
Qed.

Lemma keys_aset_in {T} k (v c : T) l : aget k l = Some c -> map fst (aset k v l) = map fst l.
Proof.
  induction l as [|[k' v'] l IH]; simpl; [discriminate|].
  destruct (N.eqb_spec k k') as [->|Hk]; simpl; [reflexivity|].
  intros H. rewrite IH; auto.
Qed.

Lemma keys_aset_none {T} k (v : T) l : aget k l = None -> map fst (aset k v l) = map fst l ++ [k].
Proof.
  induction l as [|[k' v'] l IH]; simpl; [reflexivity|].
  destruct (N.eqb_spec k k') as [->|Hk]; simpl; [discriminate|].
  intros H. rewrite IH; auto.
Qed.

Lemma keys_adel {T} k (l : list (N * T)) :
  map fst (adel k l) = filter (fun x => negb (N.eqb k x)) (map fst l).
Proof.
  unfold adel. induction l as [|[k' v'] l IH]; simpl; [reflexivity|].
  destruct (N.eqb k k'); simpl; [exact IH|]. rewrite IH. reflexivity.
Qed.

Lemma forallb_aset {T} (P : N * T -> bool) k (v : T) l :
  forallb P l = true -> P (k, v) = true -> forallb P (aset k v l) = true.
Proof.
  induction l as [|[k' v'] l IH]; simpl; intros H Hv.
  - rewrite Hv. reflexivity.
  - apply andb_true_iff in H as [H1 H2].
    destruct (N.eqb k k'); simpl.
    + rewrite Hv, H2. reflexivity.
    + rewrite H1. simpl. apply IH; assumption.
Qed.

Lemma forallb_adel {T} (P : N * T -> bool) k (l : list (N * T)) :
  forallb P l = true -> forallb P (adel k l) = true.
Proof.
  unfold adel. induction l as [|[k' v'] l IH]; simpl; intros H; [reflexivity|].
  apply andb_true_iff in H as [H1 H2].
  destruct (N.eqb k k'); simpl; [auto|]. rewrite H1. simpl. auto.
Qed.

Lemma forallb_aget {T} (P : N * T -> bool) k (v : T) l :
  forallb P l = true -> aget k l = Some v -> P (k, v) = true.
Proof.
  intros H Hg. apply aget_in in Hg. rewrite forallb_forall in H. apply H. exact Hg.
Qed.

(* ------------------------------------------------------------------ induction on trees *)
Lemma node_ind' (P : node -> Prop) :
  (forall d i m kids, Forall (fun nc => P (snd nc)) kids -> P (Node d i m kids)) -> forall t, P t.
Proof.
  intros H. fix IH 1. intros [d i m kids]. apply H.
  induction kids as [|[n c] r IHr]; constructor; [apply IH|exact IHr].
Qed.

(* ------------------------------------------------------------------ prefixes *)
Fixpoint prefixb (p q : path) : bool :=
  match p, q with
  | [], _ => true
  | a :: p', b :: q' => N.eqb a b && prefixb p' q'
  | _ :: _, [] => false
  end.

Lemma prefixb_app p r : prefixb p (p ++ r) = true.
Proof. induction p; simpl; [reflexivity|]. rewrite N.eqb_refl. exact IHp. Qed.

Lemma prefixb_true p q : prefixb p q = true -> exists r, q = p ++ r.
Proof.
  revert q. induction p as [|a p IH]; intros q H; simpl in *.
  - exists q. reflexivity.
  - destruct q as [|b q]; [discriminate|]. apply andb_true_iff in H as [H1 H2].
    apply N.eqb_eq in H1. subst. destruct (IH _ H2) as [r ->]. exists r. reflexivity.
Qed.

Lemma prefixb_refl p : prefixb p p = true.
Proof. rewrite <- (app_nil_r p) at 2. apply prefixb_app. Qed.

Lemma prefixb_snoc p n m r : prefixb (p ++ [n]) (p ++ m :: r) = N.eqb n m.
Proof. induction p; simpl; [rewrite andb_true_r; reflexivity|]. rewrite N.eqb_refl. exact IHp. Qed.

Lemma prefixb_snoc_self p n : prefixb (p ++ [n]) p = false.
Proof. induction p; simpl; [reflexivity|]. rewrite N.eqb_refl. exact IHp. Qed.

Lemma prefixb_weaken p n q : prefixb p q = false -> prefixb (p ++ [n]) q = false.
Proof.
  revert q. induction p as [|a p IH]; intros q H; simpl in *; [discriminate|].
  destruct q as [|b q]; [reflexivity|].
  destruct (N.eqb a b); simpl in *; [auto|reflexivity].
Qed.

Lemma prefixb_trans p q r : prefixb p q = true -> prefixb q r = true -> prefixb p r = true.
Proof.
  intros H1 H2. apply prefixb_true in H1 as [x ->]. apply prefixb_true in H2 as [y ->].
  rewrite <- app_assoc. apply prefixb_app.
Qed.

(* ------------------------------------------------------------------ lookup under the edits *)
Definition entry := (bool * option oid * meta)%type.
Definition info (t : node) : entry := (n_dir t, n_id t, n_md t).
Definition view (t : node) (q : path) : option entry := option_map info (lookup q t).

Lemma lookup_app p r t :
  lookup (p ++ r) t = match lookup p t with Some nd => lookup r nd | None => None end.
Proof.
  revert t. induction p as [|n p IH]; intros t; simpl; [reflexivity|].
  destruct (aget n (n_kids t)); [apply IH|reflexivity].
Qed.

Lemma info_descend n f t : info (descend n f t) = info t.
Proof. destruct t as [d i m kids]. simpl. destruct (aget n kids); reflexivity. Qed.

Lemma lookup_descend_cons n f t m q :
  lookup (m :: q) (descend n f t) =
  if N.eqb m n then match aget n (n_kids t) with Some c => lookup q (f c) | None => None end
  else lookup (m :: q) t.
Proof.
  destruct t as [d i md kids]. simpl.
  destruct (aget n kids) as [c|] eqn:E; simpl.
  - destruct (N.eqb_spec m n) as [->|Hne].
    + rewrite aget_aset_eq. reflexivity.
    + rewrite aget_aset_neq by congruence. reflexivity.
  - destruct (N.eqb_spec m n) as [->|Hne]; [rewrite E|]; reflexivity.
Qed.

Lemma lookup_modify_ext p f t r :
  lookup (p ++ r) (modify p f t) = match lookup p t with Some nd => lookup r (f nd) | None => None end.
Proof.
  revert t. induction p as [|n p IH]; intros t; [reflexivity|].
  change ((n :: p) ++ r) with (n :: (p ++ r)). change (modify (n :: p) f t) with (descend n (modify p f) t).
  rewrite lookup_descend_cons, N.eqb_refl. simpl.
  destruct (aget n (n_kids t)); [apply IH|reflexivity].
Qed.

Lemma view_modify_other p f t q : prefixb p q = false -> view (modify p f t) q = view t q.
Proof.
  revert t q. induction p as [|n p IH]; intros t q H; [discriminate|].
  change (modify (n :: p) f t) with (descend n (modify p f) t).
  destruct q as [|m q].
  - unfold view. simpl. rewrite info_descend. reflexivity.
  - unfold view. rewrite lookup_descend_cons. simpl in H.
    rewrite (N.eqb_sym m n). destruct (N.eqb n m) eqn:E; [|reflexivity].
    apply N.eqb_eq in E. subst m. simpl in H. simpl.
    destruct (aget n (n_kids t)) as [c|]; [|reflexivity]. apply IH. exact H.
Qed.

Lemma view_remove rp t q : rp <> [] -> view (remove rp t) q = if prefixb rp q then None else view t q.
Proof.
  revert t q. induction rp as [|n p IH]; intros t q Hne; [congruence|].
  destruct p as [|n2 p].
  - (* del_kid *)
    destruct t as [d i md kids]. destruct q as [|m q]; [reflexivity|].
    unfold view. simpl. rewrite andb_true_r.
    destruct (N.eqb_spec n m) as [->|Hnm].
    + rewrite aget_adel_eq. reflexivity.
    + rewrite aget_adel_neq by exact Hnm. reflexivity.
  - change (remove (n :: n2 :: p) t) with (descend n (remove (n2 :: p)) t).
    destruct q as [|m q].
    + unfold view. simpl lookup. simpl option_map. rewrite info_descend. reflexivity.
    + unfold view. rewrite lookup_descend_cons.
      change (prefixb (n :: n2 :: p) (m :: q)) with (N.eqb n m && prefixb (n2 :: p) q).
      rewrite (N.eqb_sym m n). destruct (N.eqb n m) eqn:E; simpl andb; [|reflexivity].
      apply N.eqb_eq in E. subst m. simpl lookup at 2.
      destruct (aget n (n_kids t)) as [c|].
      * apply (IH c q). discriminate.
      * simpl. destruct q as [|b q']; [reflexivity|]. destruct ((n2 =? b)%N && prefixb p q'); reflexivity.
Qed.

Lemma lookup_clear_kids t q : lookup q (clear_kids t) = match q with [] => Some (clear_kids t) | _ => None end.
Proof. destruct t, q; reflexivity. Qed.

Lemma info_clear_kids t : info (clear_kids t) = info t.
Proof. destruct t; reflexivity. Qed.

(* mkdir -p: the target exists afterwards as a directory; no id appears that was not there *)
Lemma mkdirp_dir p t : n_dir t = true -> exists nd, lookup p (mkdirp p t) = Some nd /\ n_dir nd = true.
Proof.
  revert t. induction p as [|n p IH]; intros t Hd.
  - exists t. auto.
  - destruct t as [d i md kids]. simpl.
    destruct (aget n kids) as [[[|] i' m' k']|] eqn:E.
    + simpl. rewrite aget_aset_eq. apply IH. reflexivity.
    + simpl. rewrite aget_app, aget_adel_eq. simpl. rewrite N.eqb_refl. apply IH. reflexivity.
    + simpl. rewrite aget_app, aget_adel_eq. simpl. rewrite N.eqb_refl. apply IH. reflexivity.
Qed.

Lemma view_fresh_dir q d o m : view fresh_dir q = Some (d, Some o, m) -> False.
Proof. destruct q; unfold view; simpl; discriminate. Qed.

Lemma mkdirp_ids p t q d o m :
  view (mkdirp p t) q = Some (d, Some o, m) -> view t q = Some (d, Some o, m).
Proof.
  revert t q. induction p as [|n p IH]; intros t q H; [exact H|].
  destruct t as [d0 i0 m0 kids]. destruct q as [|x q]; [simpl in H; destruct (aget n kids) as [[[|] ? ? ?]|]; exact H|].
  unfold view in *. simpl in H. simpl.
  destruct (aget n kids) as [[[|] i' m' k']|] eqn:E; simpl in H.
  - destruct (N.eqb_spec n x) as [->|Hne].
    + rewrite aget_aset_eq in H. rewrite E. apply (IH _ q). exact H.
    + rewrite aget_aset_neq in H by exact Hne. exact H.
  - destruct (N.eqb_spec n x) as [->|Hne].
    + rewrite aget_app, aget_adel_eq in H. simpl in H. rewrite N.eqb_refl in H.
      apply (IH fresh_dir q) in H. exfalso. eapply view_fresh_dir. exact H.
    + rewrite aget_app, aget_adel_neq in H by exact Hne.
      destruct (aget x kids); [exact H|]. simpl in H.
      destruct (N.eqb_spec x n); [congruence|discriminate].
  - destruct (N.eqb_spec n x) as [->|Hne].
    + rewrite aget_app, aget_adel_eq in H. simpl in H. rewrite N.eqb_refl in H.
      apply (IH fresh_dir q) in H. exfalso. eapply view_fresh_dir. exact H.
    + rewrite aget_app, aget_adel_neq in H by exact Hne.
      destruct (aget x kids); [exact H|]. simpl in H.
      destruct (N.eqb_spec x n); [congruence|discriminate].
Qed.

(* ------------------------------------------------------------------ structural conditions *)
Section Structural.
  Variable P : bool -> list name -> bool.
  Variable okname : name -> Prop.
  Hypothesis Pdel : forall d ks n, P d ks = true -> P d (filter (fun x => negb (N.eqb n x)) ks) = true.
  Hypothesis Padd : forall ks n, okname n -> ~ In n ks -> P true ks = true -> P true (ks ++ [n]) = true.
  Hypothesis Pnil : forall d, P d [] = true.

  Lemma all_nodes_kid t n c : all_nodes P t = true -> aget n (n_kids t) = Some c -> all_nodes P c = true.
  Proof.
    destruct t as [d i m kids]. simpl. intros H Hg. apply andb_true_iff in H as [_ H].
    apply (forallb_aget _ _ _ _ H Hg).
  Qed.

  Lemma all_nodes_lookup p t nd : all_nodes P t = true -> lookup p t = Some nd -> all_nodes P nd = true.
  Proof.
    revert t. induction p as [|n p IH]; intros t H Hl; simpl in Hl.
    - inversion Hl; subst; exact H.
    - destruct (aget n (n_kids t)) as [c|] eqn:E; [|discriminate].
      apply (IH c); [eapply all_nodes_kid; eauto|exact Hl].
  Qed.

  Lemma all_nodes_descend n f t :
    all_nodes P t = true ->
    (forall c, aget n (n_kids t) = Some c -> all_nodes P c = true -> all_nodes P (f c) = true) ->
    all_nodes P (descend n f t) = true.
  Proof.
    destruct t as [d i m kids]. intros H Hf. simpl in Hf. simpl.
    destruct (aget n kids) as [c|] eqn:E; [|exact H].
    simpl in *. apply andb_true_iff in H as [H1 H2].
    rewrite (keys_aset_in _ _ _ _ E), H1. simpl.
    apply forallb_aset; [exact H2|]. simpl. apply Hf; [reflexivity|].
    apply (forallb_aget _ _ _ _ H2 E).
  Qed.

  Lemma all_nodes_modify p f t :
    all_nodes P t = true ->
    (forall nd, lookup p t = Some nd -> all_nodes P nd = true -> all_nodes P (f nd) = true) ->
    all_nodes P (modify p f t) = true.
  Proof.
    revert t. induction p as [|n p IH]; intros t H Hf; simpl.
    - apply Hf; auto.
    - apply all_nodes_descend; [exact H|]. intros c Hc Hac. apply IH; [exact Hac|].
      intros nd Hl. apply Hf. simpl. rewrite Hc. exact Hl.
  Qed.

  Lemma all_nodes_del_kid n t : all_nodes P t = true -> all_nodes P (del_kid n t) = true.
  Proof.
    destruct t as [d i m kids]. simpl. intros H. apply andb_true_iff in H as [H1 H2].
    rewrite keys_adel, (Pdel _ _ _ H1). simpl. apply forallb_adel. exact H2.
  Qed.

  Lemma all_nodes_remove rp t : all_nodes P t = true -> all_nodes P (remove rp t) = true.
  Proof.
    revert t. induction rp as [|n p IH]; intros t H; [exact H|].
    destruct p as [|n2 p]; [apply all_nodes_del_kid; exact H|].
    change (remove (n :: n2 :: p) t) with (descend n (remove (n2 :: p)) t).
    apply all_nodes_descend; [exact H|]. intros c _ Hc. apply IH. exact Hc.
  Qed.

  Lemma all_nodes_clear t : all_nodes P t = true -> all_nodes P (clear_kids t) = true.
  Proof. destruct t as [d i m kids]. simpl. intros _. rewrite Pnil. reflexivity. Qed.

  Lemma all_nodes_add_kid n c t :
    okname n -> n_dir t = true -> all_nodes P t = true -> all_nodes P c = true ->
    all_nodes P (add_kid n c t) = true.
  Proof.
    destruct t as [d i m kids]. simpl. intros Hn Hd H Hc. subst d.
    apply andb_true_iff in H as [H1 H2].
    apply andb_true_iff. split; [|apply forallb_aset; assumption].
    destruct (aget n kids) as [c0|] eqn:E.
    - rewrite (keys_aset_in _ _ _ _ E). exact H1.
    - rewrite (keys_aset_none _ _ _ E). apply Padd; [exact Hn|apply aget_none_keys; exact E|exact H1].
  Qed.

  Lemma all_nodes_fresh : all_nodes P fresh_dir = true.
  Proof. simpl. rewrite Pnil. reflexivity. Qed.

  Lemma all_nodes_mkdirp p t :
    Forall okname p -> n_dir t = true -> all_nodes P t = true -> all_nodes P (mkdirp p t) = true.
  Proof.
    revert t. induction p as [|n p IH]; intros t Hp Hd H; [exact H|].
    inversion Hp as [|? ? Hn Hp']; subst.
    destruct t as [d i m kids]. simpl in Hd. subst d. simpl in H. apply andb_true_iff in H as [H1 H2].
    assert (Hother : all_nodes P (Node true i m (adel n kids ++ [(n, mkdirp p fresh_dir)])) = true).
    { simpl. rewrite map_app, keys_adel. simpl.
      rewrite Padd; [simpl| exact Hn | | apply Pdel; exact H1].
      - rewrite forallb_app. rewrite (forallb_adel _ _ _ H2). simpl. rewrite andb_true_r.
        apply IH; [exact Hp'|reflexivity|apply all_nodes_fresh].
      - intros Hin. apply filter_In in Hin as [_ Hin]. rewrite N.eqb_refl in Hin. discriminate. }
    simpl. destruct (aget n kids) as [[[|] i' m' k']|] eqn:E; try exact Hother.
    simpl. rewrite (keys_aset_in _ _ _ _ E), H1. simpl.
    apply forallb_aset; [exact H2|]. simpl. apply IH; [exact Hp'|reflexivity|].
    apply (forallb_aget _ _ _ _ H2 E).
  Qed.
End Structural.

(* the two instances: names unique per folder; files have no children *)
Fixpoint nodupb (l : list N) : bool :=
  match l with [] => true | x :: r => negb (mem x r) && nodupb r end.

Lemma mem_in x l : mem x l = true <-> In x l.
Proof.
  unfold mem. rewrite existsb_exists. split.
  - intros [y [Hy He]]. apply N.eqb_eq in He. subst. exact Hy.
  - intros H. exists x. split; [exact H|apply N.eqb_refl].
Qed.

Lemma nodupb_nodup l : nodupb l = true <-> NoDup l.
Proof.
  induction l as [|x r IH]; simpl.
  - split; [constructor|reflexivity].
  - rewrite andb_true_iff, negb_true_iff, IH. split.
    + intros [H1 H2]. constructor; [|exact H2]. intros Hin. apply mem_in in Hin. congruence.
    + intros H. inversion H; subst. split; [|assumption].
      destruct (mem x r) eqn:E; [|reflexivity]. apply mem_in in E. contradiction.
Qed.

Definition PK (_ : bool) (ks : list name) : bool := nodupb ks.
Definition PF (d : bool) (ks : list name) : bool := d || match ks with [] => true | _ => false end.
Definition knodup (t : node) : bool := all_nodes PK t.
Definition files_leaf (t : node) : bool := all_nodes PF t.

Lemma PK_del d ks n : PK d ks = true -> PK d (filter (fun x => negb (N.eqb n x)) ks) = true.
Proof. unfold PK. rewrite !nodupb_nodup. apply NoDup_filter. Qed.
Lemma PK_add ks n : True -> ~ In n ks -> PK true ks = true -> PK true (ks ++ [n]) = true.
Proof.
  unfold PK. rewrite !nodupb_nodup. intros _ Hn H.
  induction ks as [|k ks IH]; simpl; [constructor; [tauto|constructor]|].
  inversion H; subst. constructor.
  - rewrite in_app_iff. simpl. intros [H1|[H1|[]]]; [contradiction|]. apply Hn. left. auto.
  - apply IH; [|assumption]. intros H1. apply Hn. right. exact H1.
Qed.
Lemma PK_nil d : PK d [] = true. Proof. reflexivity. Qed.

Lemma PF_del d ks n : PF d ks = true -> PF d (filter (fun x => negb (N.eqb n x)) ks) = true.
Proof. unfold PF. destruct d; simpl; [reflexivity|]. destruct ks; [reflexivity|discriminate]. Qed.
Lemma PF_add ks n : True -> ~ In n ks -> PF true ks = true -> PF true (ks ++ [n]) = true.
Proof. reflexivity. Qed.
Lemma PF_nil d : PF d [] = true. Proof. destruct d; reflexivity. Qed.

(* names normalised and non-empty *)
Definition PN (fold : N -> N) (_ : bool) (ks : list name) : bool := forallb (name_ok fold) ks.
Lemma PN_del fold d ks n : PN fold d ks = true -> PN fold d (filter (fun x => negb (N.eqb n x)) ks) = true.
Proof.
  unfold PN. rewrite !forallb_forall. intros H x Hx. apply filter_In in Hx as [Hx _]. auto.
Qed.
Lemma PN_add fold ks n : name_ok fold n = true -> ~ In n ks -> PN fold true ks = true -> PN fold true (ks ++ [n]) = true.
Proof. unfold PN. intros Hn _ H. rewrite forallb_app, H. simpl. rewrite Hn. reflexivity. Qed.
Lemma PN_nil fold d : PN fold d [] = true. Proof. reflexivity. Qed.

(* ------------------------------------------------------------------ the derived index *)
Lemma index_complete t : forall rp nd o, lookup rp t = Some nd -> n_id nd = Some o -> In (o, rp) (index t).
Proof.
  induction t as [d i m kids IH] using node_ind'. intros rp nd o Hl Hid.
  destruct rp as [|n rp]; simpl in Hl.
  - inversion Hl; subst. simpl in Hid. subst i. simpl. left. reflexivity.
  - simpl. apply in_or_app. right.
    destruct (aget n kids) as [c|] eqn:E; [|discriminate].
    apply in_flat_map. exists (n, c). split; [apply aget_in; exact E|].
    apply in_map_iff. exists (o, rp). split; [reflexivity|].
    rewrite Forall_forall in IH. apply (IH (n, c) (aget_in _ _ _ E) rp nd o Hl Hid).
Qed.

Lemma index_sound t : knodup t = true ->
  forall o rp, In (o, rp) (index t) -> exists nd, lookup rp t = Some nd /\ n_id nd = Some o.
Proof.
  induction t as [d i m kids IH] using node_ind'. intros HK o rp Hin.
  unfold knodup in HK. simpl in HK. apply andb_true_iff in HK as [HK1 HK2].
  simpl in Hin. apply in_app_or in Hin as [Hin|Hin].
  - destruct i as [o'|]; simpl in Hin; [|tauto]. destruct Hin as [Hin|[]]. inversion Hin; subst.
    exists (Node d (Some o) m kids). auto.
  - apply in_flat_map in Hin as [[n c] [Hnc Hin]]. apply in_map_iff in Hin as [[o' rp'] [Heq Hin]].
    simpl in Heq. inversion Heq; subst. rewrite Forall_forall in IH.
    rewrite forallb_forall in HK2.
    destruct (IH (n, c) Hnc (HK2 _ Hnc) o rp' Hin) as [nd [Hl Hid]].
    exists nd. split; [|exact Hid]. simpl.
    rewrite (aget_nodup n c kids); [exact Hl| |exact Hnc].
    apply nodupb_nodup. exact HK1.
Qed.
