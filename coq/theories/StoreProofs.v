(* StoreProofs.v — lemmas about StoreModel: dict laws, the forward simulation of both back-end
   models by the map specification, its lift to call sequences, and the corollaries used by PropC09.v. *)
From Coq Require Import NArith List Bool Lia.
From CS Require Import Sx Str StoreModel.
Import ListNotations.

(* ------------------------------------------------------------------ decidable equalities *)
Lemma seqb_eq a b : str_eqb a b = true <-> a = b.
Proof.
  revert b; induction a as [|x a IH]; intros [|y b]; simpl; split; intros H; try congruence; try reflexivity.
  - apply andb_true_iff in H as [H1 H2]. apply N.eqb_eq in H1. apply IH in H2. congruence.
  - inversion H; subst. rewrite N.eqb_refl. simpl. apply IH. reflexivity.
Qed.

Lemma key_eqb_eq a b : key_eqb a b = true <-> a = b.
Proof.
  destruct a as [t i], b as [t' i']. unfold key_eqb; simpl. rewrite andb_true_iff, N.eqb_eq, seqb_eq.
  split; [intros [-> ->]; reflexivity | intros H; inversion H; auto].
Qed.

Lemma NoDup_app_one {X} (l : list X) a : NoDup l -> ~ In a l -> NoDup (l ++ [a]).
Proof.
  induction l as [|x l IH]; simpl; intros ND Hni.
  - constructor; [tauto | constructor].
  - inversion ND as [|? ? Hx ND']; subst. constructor.
    + rewrite in_app_iff. simpl. intros [H|[H|[]]]; [tauto | subst; tauto].
    + apply IH; tauto.
Qed.

(* ------------------------------------------------------------------ dict laws *)
Section DictLaws.
  Context {K V : Type} (eqb : K -> K -> bool).
  Hypothesis eqb_ok : forall a b, eqb a b = true <-> a = b.

  Lemma eqb_rfl a : eqb a a = true.
  Proof. apply eqb_ok. reflexivity. Qed.

  Lemma eqb_neq a b : eqb a b = false <-> a <> b.
  Proof.
    split; intros H.
    - intros E. apply eqb_ok in E. congruence.
    - destruct (eqb a b) eqn:E; [apply eqb_ok in E; contradiction | reflexivity].
  Qed.

  Lemma dict_get_set k v k' (d : list (K * V)) :
    dict_get eqb k' (dict_set eqb k v d) = if eqb k k' then Some v else dict_get eqb k' d.
  Proof.
    induction d as [|[k0 v0] r IH]; simpl; [reflexivity|].
    destruct (eqb k0 k) eqn:E0; simpl.
    - apply eqb_ok in E0; subst k0. destruct (eqb k k'); reflexivity.
    - rewrite IH. destruct (eqb k0 k') eqn:E1; [|reflexivity].
      destruct (eqb k k') eqn:E2; [|reflexivity].
      apply eqb_ok in E1, E2. subst. rewrite eqb_rfl in E0. discriminate.
  Qed.

  Lemma dict_get_del k k' (d : list (K * V)) :
    dict_get eqb k' (dict_del eqb k d) = if eqb k k' then None else dict_get eqb k' d.
  Proof.
    unfold dict_del. induction d as [|[k0 v0] r IH]; simpl; [destruct (eqb k k'); reflexivity|].
    destruct (eqb k0 k) eqn:E0; simpl.
    - rewrite IH. apply eqb_ok in E0; subst k0. destruct (eqb k k'); reflexivity.
    - rewrite IH. destruct (eqb k0 k') eqn:E1; [|reflexivity].
      destruct (eqb k k') eqn:E2; [|reflexivity].
      apply eqb_ok in E1, E2. subst. rewrite eqb_rfl in E0. discriminate.
  Qed.

  Lemma dict_get_none k (d : list (K * V)) : dict_get eqb k d = None <-> ~ In k (map fst d).
  Proof.
    induction d as [|[k0 v0] r IH]; simpl; [tauto|].
    destruct (eqb k0 k) eqn:E.
    - apply eqb_ok in E. split; [discriminate | intros H; exfalso; apply H; auto].
    - apply eqb_neq in E. rewrite IH. tauto.
  Qed.

  Lemma dict_get_in k v (d : list (K * V)) : is_dict d -> (dict_get eqb k d = Some v <-> In (k, v) d).
  Proof.
    unfold is_dict. induction d as [|[k0 v0] r IH]; simpl; intros ND.
    - split; [discriminate | tauto].
    - inversion ND as [|? ? Hni ND']; subst. destruct (eqb k0 k) eqn:E.
      + apply eqb_ok in E; subst k0. split.
        * intros H; inversion H; auto.
        * intros [H|H]; [inversion H; reflexivity|].
          exfalso. apply Hni. apply (in_map fst) in H. exact H.
      + apply eqb_neq in E. rewrite (IH ND'). split; [auto|].
        intros [H|H]; [inversion H; congruence | exact H].
  Qed.

  Lemma dict_set_absent k v (d : list (K * V)) : dict_get eqb k d = None -> dict_set eqb k v d = d ++ [(k, v)].
  Proof.
    induction d as [|[k0 v0] r IH]; simpl; [reflexivity|].
    destruct (eqb k0 k); [discriminate|]. intros H. rewrite (IH H). reflexivity.
  Qed.

  Lemma dict_set_keys k v (d : list (K * V)) :
    map fst (dict_set eqb k v d) = match dict_get eqb k d with Some _ => map fst d | None => map fst d ++ [k] end.
  Proof.
    induction d as [|[k0 v0] r IH]; simpl; [reflexivity|].
    destruct (eqb k0 k) eqn:E; simpl; [reflexivity|].
    rewrite IH. destruct (dict_get eqb k r); reflexivity.
  Qed.

  Lemma is_dict_set k v (d : list (K * V)) : is_dict d -> is_dict (dict_set eqb k v d).
  Proof.
    unfold is_dict. intros ND. rewrite dict_set_keys. destruct (dict_get eqb k d) eqn:E; [exact ND|].
    apply dict_get_none in E. apply NoDup_app_one; assumption.
  Qed.

  Lemma is_dict_del k (d : list (K * V)) : is_dict d -> is_dict (dict_del eqb k d).
  Proof.
    unfold is_dict, dict_del. induction d as [|[k0 v0] r IH]; simpl; intros ND; [constructor|].
    inversion ND as [|? ? Hni ND']; subst. destruct (eqb k0 k); simpl; [auto|].
    constructor; [|auto]. intros H. apply Hni. apply in_map_iff in H as [[k1 v1] [H1 H2]]. simpl in H1. subst k1.
    apply filter_In in H2 as [H2 _]. apply (in_map fst) in H2. exact H2.
  Qed.

  Lemma dict_del_del k (d : list (K * V)) : dict_del eqb k (dict_del eqb k d) = dict_del eqb k d.
  Proof.
    unfold dict_del. induction d as [|[k0 v0] r IH]; simpl; [reflexivity|].
    destruct (eqb k0 k) eqn:E; simpl; [exact IH|]. rewrite E. simpl. rewrite IH. reflexivity.
  Qed.
End DictLaws.

(* ------------------------------------------------------------------ laws of the specification map *)
Lemma sp_get_set k b k' s : sp_get (sp_set k b s) k' = if key_eqb k k' then Some b else sp_get s k'.
Proof. apply dict_get_set, key_eqb_eq. Qed.

Lemma sp_get_del k k' s : sp_get (sp_del k s) k' = if key_eqb k k' then None else sp_get s k'.
Proof. apply dict_get_del, key_eqb_eq. Qed.

Lemma key_eqb_rfl k : key_eqb k k = true.
Proof. apply key_eqb_eq. reflexivity. Qed.

Lemma key_eqb_neq a b : key_eqb a b = false <-> a <> b.
Proof. apply eqb_neq, key_eqb_eq. Qed.

Lemma sp_equiv_refl s : sp_equiv s s.
Proof. intros k. reflexivity. Qed.

Lemma sp_equiv_sym s1 s2 : sp_equiv s1 s2 -> sp_equiv s2 s1.
Proof. intros H k. symmetry. apply H. Qed.

Lemma sp_equiv_trans s1 s2 s3 : sp_equiv s1 s2 -> sp_equiv s2 s3 -> sp_equiv s1 s3.
Proof. intros H1 H2 k. rewrite H1. apply H2. Qed.

Lemma sp_set_equiv s1 s2 k b : sp_equiv s1 s2 -> sp_equiv (sp_set k b s1) (sp_set k b s2).
Proof. intros H k'. rewrite !sp_get_set, H. reflexivity. Qed.

Lemma sp_del_equiv s1 s2 k : sp_equiv s1 s2 -> sp_equiv (sp_del k s1) (sp_del k s2).
Proof. intros H k'. rewrite !sp_get_del, H. reflexivity. Qed.

(* the specification only looks at a state through sp_get *)
Lemma sp_ok_equiv s1 s2 o r s1' :
  sp_equiv s1 s2 -> sp_ok s1 o r s1' -> exists s2', sp_ok s2 o r s2' /\ sp_equiv s1' s2'.
Proof.
  intros E H. inversion H; subst.
  - exists (sp_set (t, i) b s2). split; [constructor; rewrite <- E; assumption | apply sp_set_equiv; assumption].
  - exists (sp_set (t, i) b s2). split; [econstructor; rewrite <- E; eassumption | apply sp_set_equiv; assumption].
  - exists s2. split; [constructor; rewrite <- E; assumption | assumption].
  - exists (sp_del (t, i) s2). split; [constructor | apply sp_del_equiv; assumption].
  - exists s2. split; [constructor; rewrite <- E; assumption | assumption].
  - exists s2. split; [constructor; rewrite <- E; assumption | assumption].
  - exists s2. split; [constructor; [assumption | intros i; rewrite <- E; auto] | assumption].
  - exists s2. split; [constructor; [assumption | assumption | intros t i; rewrite <- E; auto] | assumption].
  - exists s2. split; [constructor | assumption].
Qed.

Lemma sp_trace_equiv tr : forall s1 s2 s1',
  sp_equiv s1 s2 -> sp_trace s1 tr s1' -> exists s2', sp_trace s2 tr s2' /\ sp_equiv s1' s2'.
Proof.
  induction tr as [|[o r] tr IH]; intros s1 s2 s1' E H;
    inversion H as [|? ? ? ? ? ? Hok0 Htr0]; subst.
  - exists s2. split; [constructor | assumption].
  - destruct (sp_ok_equiv _ _ _ _ _ E Hok0) as [m2 [Hok Em]].
    destruct (IH _ _ _ Em Htr0) as [s2' [Htr E2]].
    exists s2'. split; [econstructor; eassumption | assumption].
Qed.

Lemma sp_trace_app tr1 : forall s tr2 s1 s2,
  sp_trace s tr1 s1 -> sp_trace s1 tr2 s2 -> sp_trace s (tr1 ++ tr2) s2.
Proof.
  induction tr1 as [|[o r] tr1 IH]; intros s tr2 s1 s2 H1 H2;
    inversion H1 as [|? ? ? ? ? ? Hok0 Htr0]; subst; simpl.
  - assumption.
  - econstructor; [eassumption | eapply IH; eassumption].
Qed.

(* ------------------------------------------------------------------ forward simulation, lifted to call sequences *)
Section Sim.
  Context {C : Type} (step : C -> op -> res * C) (abs : C -> smap) (Inv : C -> Prop) (view : op -> res -> res)
          (Dom : op -> Prop).
  Hypothesis step_ok : forall c o, Inv c -> Dom o ->
    Inv (snd (step c o)) /\
    exists s', sp_ok (abs c) o (view o (fst (step c o))) s' /\ sp_equiv s' (abs (snd (step c o))).

  Lemma sim_run ops : forall c s, Inv c -> Forall Dom ops -> sp_equiv s (abs c) ->
    exists s', sp_trace s (history view ops (fst (run_ops step c ops))) s' /\
               sp_equiv s' (abs (snd (run_ops step c ops))) /\ Inv (snd (run_ops step c ops)).
  Proof.
    induction ops as [|o ops IH]; intros c s HI HD HE; simpl.
    - exists s. repeat split; [constructor | exact HE | exact HI].
    - inversion HD as [|? ? HDo HDr]; subst.
      destruct (step_ok c o HI HDo) as [HI1 [s1 [Hok Heq]]].
      destruct (step c o) as [x c1] eqn:Es. simpl in *.
      destruct (sp_ok_equiv _ _ _ _ _ (sp_equiv_sym _ _ HE) Hok) as [s1' [Hok' E1]].
      assert (E2 : sp_equiv s1' (abs c1)).
      { eapply sp_equiv_trans; [apply sp_equiv_sym; exact E1 | exact Heq]. }
      destruct (IH c1 s1' HI1 HDr E2) as [s2 [Htr [E3 HI2]]].
      destruct (run_ops step c1 ops) as [xs c2] eqn:Er. simpl in *.
      exists s2. repeat split; [|assumption|assumption].
      unfold history in *. simpl. econstructor; eassumption.
  Qed.
End Sim.
