(* StoreProofs.v — lemmas about StoreModel: dict laws, the forward simulation of both back-end
   models by the map specification, its lift to call sequences, and the corollaries used by PropC09.v. *)
From Coq Require Import NArith List Bool Permutation.
From CS Require Import Sx Str StoreModel.
Import ListNotations.

(* ------------------------------------------------------------------ decidable equalities *)
Lemma seqb_eq a b : str_eqb a b = true <-> a = b.
Proof.
  revert b; induction a as [|x a IH]; intros [|y b]; simpl; split; intros H; try congruence; try reflexivity.
  - apply andb_true_iff in H as [H1 H2]. apply N.eqb_eq in H1. apply IH in H2. congruence.
  - inversion H; subst. rewrite N.eqb_refl. simpl. apply IH. reflexivity.
Qed.

Lemma key_eqb_eq a b : key_eqb a b = true <-> a = b.
Proof.
  destruct a as [t i], b as [t' i']. unfold key_eqb; simpl. rewrite andb_true_iff, N.eqb_eq, seqb_eq.
  split; [intros [-> ->]; reflexivity | intros H; inversion H; auto].
Qed.

Lemma NoDup_app_one {X} (l : list X) a : NoDup l -> ~ In a l -> NoDup (l ++ [a]).
Proof.
  induction l as [|x l IH]; simpl; intros ND Hni.
  - constructor; [tauto | constructor].
  - inversion ND as [|? ? Hx ND']; subst. constructor.
    + rewrite in_app_iff. simpl. intros [H|[H|[]]]; [tauto | subst; tauto].
    + apply IH; tauto.
Qed.

(* ------------------------------------------------------------------ dict laws *)
Section DictLaws.
  Context {K V : Type} (eqb : K -> K -> bool).
  Hypothesis eqb_ok : forall a b, eqb a b = true <-> a = b.

  Lemma eqb_rfl a : eqb a a = true.
  Proof. apply eqb_ok. reflexivity. Qed.

  Lemma eqb_neq a b : eqb a b = false <-> a <> b.
  Proof.
    split; intros H.
    - intros E. apply eqb_ok in E. congruence.
    - destruct (eqb a b) eqn:E; [apply eqb_ok in E; contradiction | reflexivity].
  Qed.

  Lemma dict_get_set k v k' (d : list (K * V)) :
    dict_get eqb k' (dict_set eqb k v d) = if eqb k k' then Some v else dict_get eqb k' d.
  Proof.
    induction d as [|[k0 v0] r IH]; simpl; [reflexivity|].
    destruct (eqb k0 k) eqn:E0; simpl.
    - apply eqb_ok in E0; subst k0. destruct (eqb k k'); reflexivity.
    - rewrite IH. destruct (eqb k0 k') eqn:E1; [|reflexivity].
      destruct (eqb k k') eqn:E2; [|reflexivity].
      apply eqb_ok in E1, E2. subst. rewrite eqb_rfl in E0. discriminate.
  Qed.

  Lemma dict_get_del k k' (d : list (K * V)) :
    dict_get eqb k' (dict_del eqb k d) = if eqb k k' then None else dict_get eqb k' d.
  Proof.
    unfold dict_del. induction d as [|[k0 v0] r IH]; simpl; [destruct (eqb k k'); reflexivity|].
    destruct (eqb k0 k) eqn:E0; simpl.
    - rewrite IH. apply eqb_ok in E0; subst k0. destruct (eqb k k'); reflexivity.
    - rewrite IH. destruct (eqb k0 k') eqn:E1; [|reflexivity].
      destruct (eqb k k') eqn:E2; [|reflexivity].
      apply eqb_ok in E1, E2. subst. rewrite eqb_rfl in E0. discriminate.
  Qed.

  Lemma dict_get_none k (d : list (K * V)) : dict_get eqb k d = None <-> ~ In k (map fst d).
  Proof.
    induction d as [|[k0 v0] r IH]; simpl; [tauto|].
    destruct (eqb k0 k) eqn:E.
    - apply eqb_ok in E. split; [discriminate | intros H; exfalso; apply H; auto].
    - apply eqb_neq in E. rewrite IH. tauto.
  Qed.

  Lemma dict_get_in k v (d : list (K * V)) : is_dict d -> (dict_get eqb k d = Some v <-> In (k, v) d).
  Proof.
    unfold is_dict. induction d as [|[k0 v0] r IH]; simpl; intros ND.
    - split; [discriminate | tauto].
    - inversion ND as [|? ? Hni ND']; subst. destruct (eqb k0 k) eqn:E.
      + apply eqb_ok in E; subst k0. split.
        * intros H; inversion H; auto.
        * intros [H|H]; [inversion H; reflexivity|].
          exfalso. apply Hni. apply (in_map fst) in H. exact H.
      + apply eqb_neq in E. rewrite (IH ND'). split; [auto|].
        intros [H|H]; [inversion H; congruence | exact H].
  Qed.

  Lemma dict_set_absent k v (d : list (K * V)) : dict_get eqb k d = None -> dict_set eqb k v d = d ++ [(k, v)].
  Proof.
    induction d as [|[k0 v0] r IH]; simpl; [reflexivity|].
    destruct (eqb k0 k); [discriminate|]. intros H. rewrite (IH H). reflexivity.
  Qed.

  Lemma dict_set_keys k v (d : list (K * V)) :
    map fst (dict_set eqb k v d) = match dict_get eqb k d with Some _ => map fst d | None => map fst d ++ [k] end.
  Proof.
    induction d as [|[k0 v0] r IH]; simpl; [reflexivity|].
    destruct (eqb k0 k) eqn:E; simpl; [reflexivity|].
    rewrite IH. destruct (dict_get eqb k r); reflexivity.
  Qed.

  Lemma is_dict_set k v (d : list (K * V)) : is_dict d -> is_dict (dict_set eqb k v d).
  Proof.
    unfold is_dict. intros ND. rewrite dict_set_keys. destruct (dict_get eqb k d) eqn:E; [exact ND|].
    apply dict_get_none in E. apply NoDup_app_one; assumption.
  Qed.

  Lemma is_dict_del k (d : list (K * V)) : is_dict d -> is_dict (dict_del eqb k d).
  Proof.
    unfold is_dict, dict_del. induction d as [|[k0 v0] r IH]; simpl; intros ND; [constructor|].
    inversion ND as [|? ? Hni ND']; subst. destruct (eqb k0 k); simpl; [auto|].
    constructor; [|auto]. intros H. apply Hni. apply in_map_iff in H as [[k1 v1] [H1 H2]]. simpl in H1. subst k1.
    apply filter_In in H2 as [H2 _]. apply (in_map fst) in H2. exact H2.
  Qed.

  Lemma dict_del_del k (d : list (K * V)) : dict_del eqb k (dict_del eqb k d) = dict_del eqb k d.
  Proof.
    unfold dict_del. induction d as [|[k0 v0] r IH]; simpl; [reflexivity|].
    destruct (eqb k0 k) eqn:E; simpl; [exact IH|]. rewrite E. simpl. rewrite IH. reflexivity.
  Qed.
End DictLaws.

(* ------------------------------------------------------------------ laws of the specification map *)
Lemma sp_get_set k b k' s : sp_get (sp_set k b s) k' = if key_eqb k k' then Some b else sp_get s k'.
Proof. apply dict_get_set, key_eqb_eq. Qed.

Lemma sp_get_del k k' s : sp_get (sp_del k s) k' = if key_eqb k k' then None else sp_get s k'.
Proof. apply dict_get_del, key_eqb_eq. Qed.

Lemma key_eqb_rfl k : key_eqb k k = true.
Proof. apply key_eqb_eq. reflexivity. Qed.

Lemma key_eqb_neq a b : key_eqb a b = false <-> a <> b.
Proof. apply eqb_neq, key_eqb_eq. Qed.

Lemma sp_equiv_refl s : sp_equiv s s.
Proof. intros k. reflexivity. Qed.

Lemma sp_equiv_sym s1 s2 : sp_equiv s1 s2 -> sp_equiv s2 s1.
Proof. intros H k. symmetry. apply H. Qed.

Lemma sp_equiv_trans s1 s2 s3 : sp_equiv s1 s2 -> sp_equiv s2 s3 -> sp_equiv s1 s3.
Proof. intros H1 H2 k. rewrite H1. apply H2. Qed.

Lemma sp_set_equiv s1 s2 k b : sp_equiv s1 s2 -> sp_equiv (sp_set k b s1) (sp_set k b s2).
Proof. intros H k'. rewrite !sp_get_set, H. reflexivity. Qed.

Lemma sp_del_equiv s1 s2 k : sp_equiv s1 s2 -> sp_equiv (sp_del k s1) (sp_del k s2).
Proof. intros H k'. rewrite !sp_get_del, H. reflexivity. Qed.

(* the specification only looks at a state through sp_get *)
Lemma sp_ok_equiv s1 s2 o r s1' :
  sp_equiv s1 s2 -> sp_ok s1 o r s1' -> exists s2', sp_ok s2 o r s2' /\ sp_equiv s1' s2'.
Proof.
  intros E H. inversion H; subst.
  - exists (sp_set (t, i) b s2). split; [constructor; rewrite <- E; assumption | apply sp_set_equiv; assumption].
  - exists (sp_set (t, i) b s2). split; [econstructor; rewrite <- E; eassumption | apply sp_set_equiv; assumption].
  - exists s2. split; [constructor; rewrite <- E; assumption | assumption].
  - exists (sp_del (t, i) s2). split; [constructor | apply sp_del_equiv; assumption].
  - exists s2. split; [constructor; rewrite <- E; assumption | assumption].
  - exists s2. split; [constructor; rewrite <- E; assumption | assumption].
  - exists s2. split; [constructor; [assumption | intros i; rewrite <- E; auto] | assumption].
  - exists s2. split; [constructor; [assumption | assumption | intros t i; rewrite <- E; auto] | assumption].
  - exists s2. split; [constructor | assumption].
Qed.

Lemma sp_trace_equiv tr : forall s1 s2 s1',
  sp_equiv s1 s2 -> sp_trace s1 tr s1' -> exists s2', sp_trace s2 tr s2' /\ sp_equiv s1' s2'.
Proof.
  induction tr as [|[o r] tr IH]; intros s1 s2 s1' E H;
    inversion H as [|? ? ? ? ? ? Hok0 Htr0]; subst.
  - exists s2. split; [constructor | assumption].
  - destruct (sp_ok_equiv _ _ _ _ _ E Hok0) as [m2 [Hok Em]].
    destruct (IH _ _ _ Em Htr0) as [s2' [Htr E2]].
    exists s2'. split; [econstructor; eassumption | assumption].
Qed.

Lemma sp_trace_app tr1 : forall s tr2 s1 s2,
  sp_trace s tr1 s1 -> sp_trace s1 tr2 s2 -> sp_trace s (tr1 ++ tr2) s2.
Proof.
  induction tr1 as [|[o r] tr1 IH]; intros s tr2 s1 s2 H1 H2;
    inversion H1 as [|? ? ? ? ? ? Hok0 Htr0]; subst; simpl.
  - assumption.
  - econstructor; [eassumption | eapply IH; eassumption].
Qed.

(* ------------------------------------------------------------------ forward simulation, lifted to call sequences *)
Section Sim.
  Context {C : Type} (step : C -> op -> res * C) (abs : C -> smap) (Inv : C -> Prop) (view : op -> res -> res)
          (Dom : op -> Prop).
  Hypothesis step_ok : forall c o, Inv c -> Dom o ->
    Inv (snd (step c o)) /\
    exists s', sp_ok (abs c) o (view o (fst (step c o))) s' /\ sp_equiv s' (abs (snd (step c o))).

  Lemma sim_run ops : forall c s, Inv c -> Forall Dom ops -> sp_equiv s (abs c) ->
    exists s', sp_trace s (history view ops (fst (run_ops step c ops))) s' /\
               sp_equiv s' (abs (snd (run_ops step c ops))) /\ Inv (snd (run_ops step c ops)).
  Proof.
    induction ops as [|o ops IH]; intros c s HI HD HE; simpl.
    - exists s. repeat split; [constructor | exact HE | exact HI].
    - inversion HD as [|? ? HDo HDr]; subst.
      destruct (step_ok c o HI HDo) as [HI1 [s1 [Hok Heq]]].
      destruct (step c o) as [x c1] eqn:Es. simpl in *.
      destruct (sp_ok_equiv _ _ _ _ _ (sp_equiv_sym _ _ HE) Hok) as [s1' [Hok' E1]].
      assert (E2 : sp_equiv s1' (abs c1)).
      { eapply sp_equiv_trans; [apply sp_equiv_sym; exact E1 | exact Heq]. }
      destruct (IH c1 s1' HI1 HDr E2) as [s2 [Htr [E3 HI2]]].
      destruct (run_ops step c1 ops) as [xs c2] eqn:Er. simpl in *.
      exists s2. repeat split; [|assumption|assumption].
      unfold history in *. simpl. econstructor; eassumption.
  Qed.
End Sim.

(* ------------------------------------------------------------------ SqliteStorage model *)
(* PRIMARY KEY: ids are pairwise different (over all tags) *)
Definition wf_sq (T : table) : Prop := NoDup (map row_id T).

Lemma key_where r t i : key_eqb (row_tag r, row_id r) (t, i) = where_id_tag i t r.
Proof. reflexivity. Qed.

Lemma where_id_tag_true i t r : where_id_tag i t r = true <-> row_id r = i /\ row_tag r = t.
Proof. unfold where_id_tag. rewrite andb_true_iff, N.eqb_eq, seqb_eq. tauto. Qed.

Lemma sp_get_abs_cons r T k :
  sp_get (abs_sq (r :: T)) k = if key_eqb (row_tag r, row_id r) k then Some (row_blob r) else sp_get (abs_sq T) k.
Proof. reflexivity. Qed.

Lemma sq_get_abs T t i :
  sp_get (abs_sq T) (t, i) =
  match filter (where_id_tag i t) T with r :: _ => Some (row_blob r) | [] => None end.
Proof.
  induction T as [|r T IH]; [reflexivity|].
  rewrite sp_get_abs_cons, key_where. cbn [filter].
  destruct (where_id_tag i t r); [reflexivity | exact IH].
Qed.

Lemma sq_max_ge T r : In r T -> (row_id r <= sq_max T)%N.
Proof.
  induction T as [|x T IH]; simpl; [tauto|]. intros [->|H]; [apply N.le_max_l|].
  eapply N.le_trans; [apply (IH H) | apply N.le_max_r].
Qed.

Lemma sq_next_fresh T : ~ In (sq_next T) (map row_id T).
Proof.
  intros H. apply in_map_iff in H as [r [E H]]. apply sq_max_ge in H. unfold sq_next in E. rewrite E in H.
  exact (N.nle_succ_diag_l _ H).
Qed.

Lemma filter_fresh_nil T i t : ~ In i (map row_id T) -> filter (where_id_tag i t) T = [].
Proof.
  induction T as [|r T IH]; simpl; intros H; [reflexivity|].
  destruct (where_id_tag i t r) eqn:E.
  - apply where_id_tag_true in E as [E _]. exfalso. apply H. auto.
  - apply IH. tauto.
Qed.

Lemma count_le1 T i t : wf_sq T -> (length (filter (where_id_tag i t) T) <= 1)%nat.
Proof.
  unfold wf_sq. induction T as [|r T IH]; simpl; intros ND; [apply le_S, le_n|].
  inversion ND as [|? ? Hni ND']; subst.
  destruct (where_id_tag i t r) eqn:E; [|auto].
  apply where_id_tag_true in E as [E _]. subst i. rewrite (filter_fresh_nil _ _ _ Hni). simpl. apply le_n.
Qed.

Lemma NoDup_map_filter {X Y} (f : X -> Y) p l : NoDup (map f l) -> NoDup (map f (filter p l)).
Proof.
  induction l as [|x l IH]; simpl; intros ND; [constructor|].
  inversion ND as [|? ? Hni ND']; subst. destruct (p x); simpl; [|auto].
  constructor; [|auto]. intros H. apply Hni. apply in_map_iff in H as [y [E H]].
  apply filter_In in H as [H _]. rewrite <- E. apply in_map. exact H.
Qed.

(* create *)
Lemma sq_create_ok T t b : wf_sq T ->
  wf_sq (T ++ [(sq_next T, t, b)]) /\
  sp_get (abs_sq T) (t, sq_next T) = None /\
  abs_sq (T ++ [(sq_next T, t, b)]) = sp_set (t, sq_next T) b (abs_sq T).
Proof.
  intros WF. assert (Hn : sp_get (abs_sq T) (t, sq_next T) = None).
  { rewrite sq_get_abs, filter_fresh_nil; [reflexivity | apply sq_next_fresh]. }
  repeat split.
  - unfold wf_sq. rewrite map_app. simpl. apply NoDup_app_one; [exact WF | apply sq_next_fresh].
  - exact Hn.
  - unfold sp_set. rewrite (dict_set_absent key_eqb _ _ _ Hn). unfold abs_sq. rewrite map_app. reflexivity.
Qed.

(* update *)
Lemma upd_get T t b i k' :
  sp_get (abs_sq (map (upd_row i t b) T)) k' =
  match sp_get (abs_sq T) k' with
  | Some b0 => Some (if key_eqb (t, i) k' then b else b0)
  | None => None
  end.
Proof.
  induction T as [|r T IH]; [reflexivity|].
  cbn [map]. rewrite !sp_get_abs_cons. unfold upd_row at 1 2 3.
  destruct (where_id_tag i t r) eqn:E.
  - apply where_id_tag_true in E as [E1 E2].
    change (row_tag (row_id r, row_tag r, b)) with (row_tag r).
    change (row_id (row_id r, row_tag r, b)) with (row_id r).
    change (row_blob (row_id r, row_tag r, b)) with b.
    rewrite E1, E2. destruct (key_eqb (t, i) k'); [reflexivity | exact IH].
  - destruct (key_eqb (row_tag r, row_id r) k') eqn:E1; [|exact IH].
    apply key_eqb_eq in E1. subst k'.
    destruct (key_eqb (t, i) (row_tag r, row_id r)) eqn:E2; [|reflexivity].
    apply key_eqb_eq in E2. inversion E2; subst.
    unfold where_id_tag in E. rewrite N.eqb_refl in E. simpl in E.
    assert (X : str_eqb (row_tag r) (row_tag r) = true) by (apply seqb_eq; reflexivity). congruence.
Qed.

Lemma upd_ids T t b i : map row_id (map (upd_row i t b) T) = map row_id T.
Proof.
  rewrite map_map. apply map_ext. intros r. unfold upd_row. destruct (where_id_tag i t r); reflexivity.
Qed.

(* delete *)
Lemma abs_sq_delete T t i :
  abs_sq (filter (fun r => negb (where_id_tag i t r)) T) = sp_del (t, i) (abs_sq T).
Proof.
  unfold sp_del, dict_del. induction T as [|r T IH]; [reflexivity|].
  cbn [filter abs_sq map]. cbn [fst]. rewrite key_where.
  destruct (where_id_tag i t r); simpl; [exact IH | f_equal; exact IH].
Qed.

(* read_all(tag) *)
Definition id_blob (r : srow) : N * blob := (row_id r, row_blob r).

Lemma fold_set_fresh R : forall d0, NoDup (map fst d0 ++ map row_id R) ->
  fold_left (fun d r => dict_set N.eqb (row_id r) (row_blob r) d) R d0 = d0 ++ map id_blob R.
Proof.
  induction R as [|r R IH]; intros d0 ND; simpl.
  - rewrite app_nil_r. reflexivity.
  - simpl in ND. assert (Hn : dict_get N.eqb (row_id r) d0 = None).
    { apply (dict_get_none N.eqb N.eqb_eq). intros H. apply NoDup_remove_2 in ND. apply ND.
      apply in_or_app. auto. }
    rewrite (dict_set_absent N.eqb _ _ _ Hn). rewrite IH.
    + rewrite <- app_assoc. reflexivity.
    + rewrite map_app. simpl. rewrite <- app_assoc. exact ND.
Qed.

Lemma tag_rows_get T t i :
  dict_get N.eqb i (map id_blob (filter (where_tag t) T)) = sp_get (abs_sq T) (t, i).
Proof.
  induction T as [|r T IH]; [reflexivity|].
  rewrite sp_get_abs_cons, key_where. unfold where_id_tag. cbn [filter]. unfold where_tag at 1.
  destruct (str_eqb (row_tag r) t); simpl.
  - rewrite andb_true_r. destruct (N.eqb (row_id r) i); [reflexivity | exact IH].
  - rewrite andb_false_r. exact IH.
Qed.

(* read_all() *)
Definition wf_dd (g : ddict) : Prop := is_dict g /\ Forall (fun e => is_dict (snd e)) g.

Lemma dict_set_forall {K V} eqb (P : V -> Prop) (k : K) v d :
  Forall (fun e => P (snd e)) d -> P v -> Forall (fun e => P (snd e)) (dict_set eqb k v d).
Proof.
  induction d as [|[k0 v0] r IH]; simpl; intros HF Hv.
  - constructor; [exact Hv | constructor].
  - inversion HF; subst. destruct (eqb k0 k); constructor; auto.
Qed.

Lemma dict_get_forall {K V} eqb (P : V -> Prop) (k : K) v d :
  Forall (fun e => P (snd e)) d -> dict_get eqb k d = Some v -> P v.
Proof.
  induction d as [|[k0 v0] r IH]; simpl; intros HF H; [discriminate|].
  inversion HF; subst. destruct (eqb k0 k); [inversion H; subst; assumption | auto].
Qed.

Lemma wf_dd_put g t d : wf_dd g -> is_dict d -> wf_dd (dict_set str_eqb t d g).
Proof.
  intros [H1 H2] Hd. split; [apply (is_dict_set str_eqb seqb_eq); exact H1 | apply dict_set_forall; assumption].
Qed.

Lemma wf_dd_inner g t : wf_dd g -> is_dict (match dict_get str_eqb t g with Some d => d | None => [] end).
Proof.
  intros [_ H2]. destruct (dict_get str_eqb t g) eqn:E.
  - apply (dict_get_forall str_eqb (fun d => is_dict d) _ _ _ H2 E).
  - constructor.
Qed.

Lemma wf_dd_grp_add g r : wf_dd g -> wf_dd (grp_add g r).
Proof.
  intros H. unfold grp_add. apply wf_dd_put; [exact H|].
  apply (is_dict_set N.eqb N.eqb_eq). apply wf_dd_inner. exact H.
Qed.

Lemma wf_dd_fold R : forall g, wf_dd g -> wf_dd (fold_left grp_add R g).
Proof. induction R as [|r R IH]; intros g H; simpl; [exact H | apply IH, wf_dd_grp_add, H]. Qed.

Lemma dd_get_put g t d t' i :
  dd_get (dict_set str_eqb t d g) t' i = if str_eqb t t' then dict_get N.eqb i d else dd_get g t' i.
Proof.
  unfold dd_get. rewrite (dict_get_set str_eqb seqb_eq). destruct (str_eqb t t'); reflexivity.
Qed.

Lemma dd_get_inner g t i :
  dict_get N.eqb i (match dict_get str_eqb t g with Some d => d | None => [] end) = dd_get g t i.
Proof. unfold dd_get. destruct (dict_get str_eqb t g); reflexivity. Qed.

Lemma dd_get_grp_add g r t i :
  dd_get (grp_add g r) t i = if key_eqb (row_tag r, row_id r) (t, i) then Some (row_blob r) else dd_get g t i.
Proof.
  unfold grp_add. rewrite dd_get_put, key_where. unfold where_id_tag.
  destruct (str_eqb (row_tag r) t) eqn:Et.
  - rewrite andb_true_r. rewrite (dict_get_set N.eqb N.eqb_eq). apply seqb_eq in Et. subst t.
    destruct (N.eqb (row_id r) i); [reflexivity | apply dd_get_inner].
  - rewrite andb_false_r. reflexivity.
Qed.

Lemma fold_grp_get R : forall g,
  (forall r, In r R -> dd_get g (row_tag r) (row_id r) = None) -> NoDup (map row_id R) ->
  forall t i, dd_get (fold_left grp_add R g) t i =
              match dd_get g t i with Some b => Some b | None => sp_get (abs_sq R) (t, i) end.
Proof.
  induction R as [|r R IH]; intros g Hg ND t i; cbn [fold_left].
  - destruct (dd_get g t i); reflexivity.
  - inversion ND as [|? ? Hni ND']; subst.
    rewrite IH; [| |exact ND'].
    + rewrite dd_get_grp_add, sp_get_abs_cons.
      destruct (key_eqb (row_tag r, row_id r) (t, i)) eqn:E.
      * apply key_eqb_eq in E. inversion E; subst. rewrite (Hg r); [reflexivity | left; reflexivity].
      * reflexivity.
    + intros r' Hr'. rewrite dd_get_grp_add.
      destruct (key_eqb (row_tag r, row_id r) (row_tag r', row_id r')) eqn:E.
      * apply key_eqb_eq in E. inversion E as [[E1 E2]]. exfalso. apply Hni. rewrite E2. apply in_map. exact Hr'.
      * apply Hg. right. exact Hr'.
Qed.

Lemma wf_dd_forall g : wf_dd g -> forall t d, In (t, d) g -> is_dict d.
Proof. intros [_ H] t d Hin. rewrite Forall_forall in H. apply (H (t, d) Hin). Qed.

(* the forward simulation, one call *)
Lemma sq_step_refines T o : wf_sq T ->
  wf_sq (snd (sq_step T o)) /\
  exists s', sp_ok (abs_sq T) o (fst (sq_step T o)) s' /\ sp_equiv s' (abs_sq (snd (sq_step T o))).
Proof.
  intros WF. destruct o as [t b|t b i|t i|t i|[t|]|]; cbn [sq_step fst snd].
  - (* create *)
    destruct (sq_create_ok T t b WF) as [W [Hn Ha]]. split; [exact W|].
    exists (sp_set (t, sq_next T) b (abs_sq T)). split; [constructor; exact Hn | rewrite Ha; apply sp_equiv_refl].
  - (* update *)
    split; [unfold wf_sq; rewrite upd_ids; exact WF|].
    pose proof (count_le1 T i t WF) as Hc. pose proof (sq_get_abs T t i) as Hg.
    destruct (filter (where_id_tag i t) T) as [|r [|r2 rest]] eqn:Ef; simpl in Hc;
      [| |exfalso; inversion Hc as [|? Hc']; inversion Hc'].
    + exists (abs_sq T). split; [constructor; exact Hg|].
      intros k'. rewrite upd_get. destruct (key_eqb (t, i) k') eqn:E.
      * apply key_eqb_eq in E. subst k'. rewrite Hg. reflexivity.
      * destruct (sp_get (abs_sq T) k'); reflexivity.
    + exists (sp_set (t, i) b (abs_sq T)). split; [simpl; econstructor; exact Hg|].
      intros k'. rewrite upd_get, sp_get_set. destruct (key_eqb (t, i) k') eqn:E.
      * apply key_eqb_eq in E. subst k'. rewrite Hg. reflexivity.
      * destruct (sp_get (abs_sq T) k'); reflexivity.
  - (* delete *)
    split; [apply NoDup_map_filter; exact WF|].
    exists (sp_del (t, i) (abs_sq T)). split; [constructor | rewrite abs_sq_delete; apply sp_equiv_refl].
  - (* read *)
    split; [exact WF|]. exists (abs_sq T). split; [|apply sp_equiv_refl].
    pose proof (sq_get_abs T t i) as Hg.
    destruct (filter (where_id_tag i t) T) as [|r rest]; simpl; constructor; exact Hg.
  - (* read_all(tag) *)
    split; [exact WF|]. exists (abs_sq T). split; [|apply sp_equiv_refl].
    assert (ND : NoDup (map row_id (filter (where_tag t) T))) by (apply NoDup_map_filter; exact WF).
    rewrite fold_set_fresh by exact ND. simpl. constructor.
    + unfold is_dict. rewrite map_map. exact ND.
    + intros i. apply tag_rows_get.
  - (* read_all() *)
    split; [exact WF|]. exists (abs_sq T). split; [|apply sp_equiv_refl].
    assert (W : wf_dd (fold_left grp_add T [])) by (apply wf_dd_fold; split; constructor).
    simpl. constructor; [exact (proj1 W) | apply wf_dd_forall; exact W|].
    intros t i. rewrite fold_grp_get; [reflexivity | reflexivity | exact WF].
  - (* reopen *)
    split; [exact WF|]. exists (abs_sq T). split; [constructor | apply sp_equiv_refl].
Qed.

Theorem sq_refines ops T : wf_sq T ->
  exists s', sp_trace (abs_sq T) (history view_raw ops (fst (run_ops sq_step T ops))) s' /\
             sp_equiv s' (abs_sq (snd (run_ops sq_step T ops))) /\ wf_sq (snd (run_ops sq_step T ops)).
Proof.
  intros WF.
  apply (sim_run sq_step abs_sq wf_sq view_raw (fun _ => True)).
  - intros c o HI _. apply sq_step_refines. exact HI.
  - exact WF.
  - apply Forall_forall. intros; exact I.
  - apply sp_equiv_refl.
Qed.

(* ------------------------------------------------------------------ MockStorage model *)
Definition cursor_above (m : mstate) : Prop :=
  forall t i b, dd_get (m_dict m) t i = Some b -> (i < m_cursor m)%N.
Definition inv_m (m : mstate) : Prop := wf_dd (m_dict m) /\ cursor_above m.
Definition abs_m (m : mstate) : smap := abs_dd (m_dict m).

Lemma dict_get_app {K V} eqb (k : K) (d1 d2 : list (K * V)) :
  dict_get eqb k (d1 ++ d2) = match dict_get eqb k d1 with Some v => Some v | None => dict_get eqb k d2 end.
Proof.
  induction d1 as [|[k0 v0] r IH]; simpl; [reflexivity|]. destruct (eqb k0 k); [reflexivity | exact IH].
Qed.

Lemma inner_get t0 (d : list (N * blob)) t i :
  sp_get (map (fun ib => ((t0, fst ib), snd ib)) d) (t, i) = if str_eqb t0 t then dict_get N.eqb i d else None.
Proof.
  unfold sp_get. induction d as [|[i0 b0] d IH]; simpl; [destruct (str_eqb t0 t); reflexivity|].
  unfold key_eqb at 1. simpl. rewrite IH.
  destruct (str_eqb t0 t); [rewrite andb_true_r | rewrite andb_false_r]; reflexivity.
Qed.

Lemma sp_get_app s1 s2 k : sp_get (s1 ++ s2) k = match sp_get s1 k with Some v => Some v | None => sp_get s2 k end.
Proof. apply dict_get_app. Qed.

Lemma abs_dd_cons t0 d0 g : abs_dd ((t0, d0) :: g) = map (fun ib => ((t0, fst ib), snd ib)) d0 ++ abs_dd g.
Proof. reflexivity. Qed.

Lemma dd_get_cons t0 d0 g t i : dd_get ((t0, d0) :: g) t i = if str_eqb t0 t then dict_get N.eqb i d0 else dd_get g t i.
Proof. unfold dd_get. cbn [dict_get]. destruct (str_eqb t0 t); reflexivity. Qed.

Lemma dd_get_absent g t i : ~ In t (map fst g) -> dd_get g t i = None.
Proof. intros H. apply (dict_get_none str_eqb seqb_eq) in H. unfold dd_get. rewrite H. reflexivity. Qed.

Lemma abs_dd_get g t i : is_dict g -> sp_get (abs_dd g) (t, i) = dd_get g t i.
Proof.
  unfold is_dict. induction g as [|[t0 d0] g IH]; intros ND; [reflexivity|].
  inversion ND as [|? ? Hni ND']; subst.
  rewrite abs_dd_cons, sp_get_app, inner_get, dd_get_cons, (IH ND').
  destruct (str_eqb t0 t) eqn:E; [|reflexivity].
  destruct (dict_get N.eqb i d0); [reflexivity|].
  apply seqb_eq in E. subst t0. apply dd_get_absent. exact Hni.
Qed.

Lemma m_equiv_by_get s g : is_dict g -> (forall t i, sp_get s (t, i) = dd_get g t i) -> sp_equiv s (abs_dd g).
Proof. intros Hd H [t i]. rewrite abs_dd_get by exact Hd. apply H. Qed.

Lemma md_default_set t g :
  md_default t g = match dict_get str_eqb t g with Some _ => g | None => dict_set str_eqb t [] g end.
Proof.
  unfold md_default. destruct (dict_get str_eqb t g) eqn:E; [reflexivity|].
  rewrite (dict_set_absent str_eqb _ _ _ E). reflexivity.
Qed.

Lemma wf_dd_default t g : wf_dd g -> wf_dd (md_default t g).
Proof.
  intros W. rewrite md_default_set. destruct (dict_get str_eqb t g); [exact W|].
  apply wf_dd_put; [exact W | constructor].
Qed.

Lemma dd_get_default t g t' i : dd_get (md_default t g) t' i = dd_get g t' i.
Proof.
  rewrite md_default_set. destruct (dict_get str_eqb t g) eqn:E; [reflexivity|].
  rewrite dd_get_put. destruct (str_eqb t t') eqn:Et; [|reflexivity].
  apply seqb_eq in Et. subst t'. unfold dd_get. rewrite E. reflexivity.
Qed.

Lemma md_inner_get t g i : dict_get N.eqb i (md_inner t g) = dd_get g t i.
Proof. apply dd_get_inner. Qed.

Lemma md_inner_dict t g : wf_dd g -> is_dict (md_inner t g).
Proof. apply wf_dd_inner. Qed.

Lemma dd_get_filter g t i : is_dict g -> dd_get (filter nonempty_inner g) t i = dd_get g t i.
Proof.
  unfold is_dict. induction g as [|[t0 d0] g IH]; intros ND; [reflexivity|].
  inversion ND as [|? ? Hni ND']; subst. cbn [filter]. unfold nonempty_inner at 1. cbn [snd].
  destruct d0 as [|x d0].
  - rewrite (IH ND'), dd_get_cons. destruct (str_eqb t0 t) eqn:E; [|reflexivity].
    apply seqb_eq in E. subst t0. apply dd_get_absent. exact Hni.
  - rewrite !dd_get_cons, (IH ND'). reflexivity.
Qed.

Lemma key_eqb_pair t i t' i' : key_eqb (t, i) (t', i') = N.eqb i i' && str_eqb t t'.
Proof. reflexivity. Qed.

Lemma m_step_refines m o : inv_m m -> o <> Reopen ->
  inv_m (snd (m_step m o)) /\
  exists s', sp_ok (abs_m m) o (unraise o (fst (m_step m o))) s' /\ sp_equiv s' (abs_m (snd (m_step m o))).
Proof.
  intros [W CA] Hno. unfold abs_m.
  assert (Wd : forall t, wf_dd (md_default t (m_dict m))) by (intros; apply wf_dd_default; exact W).
  assert (G : forall t i, sp_get (abs_dd (m_dict m)) (t, i) = dd_get (m_dict m) t i)
    by (intros; apply abs_dd_get, W).
  destruct o as [t b|t b i|t i|t i|[t|]|]; [| | | | | |congruence].
  - (* create *)
    cbn [m_step fst snd unraise m_dict m_cursor].
    set (g := md_default t (m_dict m)). set (c := m_cursor m).
    assert (W' : wf_dd (dict_set str_eqb t (dict_set N.eqb c b (md_inner t g)) g)).
    { apply wf_dd_put; [apply Wd|]. apply (is_dict_set N.eqb N.eqb_eq), md_inner_dict, Wd. }
    assert (GG : forall t' i', dd_get (dict_set str_eqb t (dict_set N.eqb c b (md_inner t g)) g) t' i' =
                              if key_eqb (t, c) (t', i') then Some b else dd_get (m_dict m) t' i').
    { intros t' i'. rewrite dd_get_put, key_eqb_pair. destruct (str_eqb t t') eqn:Et.
      - rewrite andb_true_r, (dict_get_set N.eqb N.eqb_eq), md_inner_get. unfold g. rewrite dd_get_default.
        apply seqb_eq in Et. subst t'. reflexivity.
      - rewrite andb_false_r. unfold g. apply dd_get_default. }
    split; [split; [exact W'|]|].
    + intros t' i' b'. cbn [m_dict m_cursor]. rewrite GG.
      destruct (key_eqb (t, c) (t', i')) eqn:E.
      * apply key_eqb_eq in E. inversion E; subst. intros _. apply N.lt_succ_diag_r.
      * intros H. apply CA in H. fold c in H. apply N.lt_lt_succ_r. exact H.
    + exists (sp_set (t, c) b (abs_dd (m_dict m))). split.
      * constructor. rewrite G. destruct (dd_get (m_dict m) t c) eqn:E; [|reflexivity].
        apply CA in E. fold c in E. exfalso. exact (N.lt_irrefl _ E).
      * apply m_equiv_by_get; [exact (proj1 W')|]. intros t' i'. rewrite sp_get_set, GG, G. reflexivity.
  - (* update *)
    cbn [m_step]. set (g := md_default t (m_dict m)).
    destruct (dict_get N.eqb i (md_inner t g)) as [b0|] eqn:E; cbn [fst snd unraise m_dict m_cursor];
      rewrite md_inner_get in E; unfold g in E; rewrite dd_get_default in E.
    + assert (W' : wf_dd (dict_set str_eqb t (dict_set N.eqb i b (md_inner t g)) g)).
      { apply wf_dd_put; [apply Wd|]. apply (is_dict_set N.eqb N.eqb_eq), md_inner_dict, Wd. }
      assert (GG : forall t' i', dd_get (dict_set str_eqb t (dict_set N.eqb i b (md_inner t g)) g) t' i' =
                                if key_eqb (t, i) (t', i') then Some b else dd_get (m_dict m) t' i').
      { intros t' i'. rewrite dd_get_put, key_eqb_pair. destruct (str_eqb t t') eqn:Et.
        - rewrite andb_true_r, (dict_get_set N.eqb N.eqb_eq), md_inner_get. unfold g. rewrite dd_get_default.
          apply seqb_eq in Et. subst t'. reflexivity.
        - rewrite andb_false_r. unfold g. apply dd_get_default. }
      split; [split; [exact W'|]|].
      * intros t' i' b'. cbn [m_dict m_cursor]. rewrite GG.
        destruct (key_eqb (t, i) (t', i')) eqn:E2.
        -- apply key_eqb_eq in E2. inversion E2; subst. intros _. apply (CA _ _ _ E).
        -- apply CA.
      * exists (sp_set (t, i) b (abs_dd (m_dict m))). split.
        -- econstructor. rewrite G. exact E.
        -- apply m_equiv_by_get; [exact (proj1 W')|]. intros t' i'. rewrite sp_get_set, GG, G. reflexivity.
    + split; [split; [apply Wd|]|].
      * intros t' i' b'. cbn [m_dict m_cursor]. unfold g. rewrite dd_get_default. apply CA.
      * exists (abs_dd (m_dict m)). split; [constructor; rewrite G; exact E|].
        apply m_equiv_by_get; [exact (proj1 (Wd t))|]. intros t' i'. rewrite G. unfold g.
        rewrite dd_get_default. reflexivity.
  - (* delete *)
    cbn [m_step fst snd unraise m_dict m_cursor]. set (g := md_default t (m_dict m)).
    assert (W' : wf_dd (dict_set str_eqb t (dict_del N.eqb i (md_inner t g)) g)).
    { apply wf_dd_put; [apply Wd|]. apply (is_dict_del N.eqb), md_inner_dict, Wd. }
    assert (GG : forall t' i', dd_get (dict_set str_eqb t (dict_del N.eqb i (md_inner t g)) g) t' i' =
                              if key_eqb (t, i) (t', i') then None else dd_get (m_dict m) t' i').
    { intros t' i'. rewrite dd_get_put, key_eqb_pair. destruct (str_eqb t t') eqn:Et.
      - rewrite andb_true_r, (dict_get_del N.eqb N.eqb_eq), md_inner_get. unfold g. rewrite dd_get_default.
        apply seqb_eq in Et. subst t'. reflexivity.
      - rewrite andb_false_r. unfold g. apply dd_get_default. }
    split; [split; [exact W'|]|].
    + intros t' i' b'. cbn [m_dict m_cursor]. rewrite GG.
      destruct (key_eqb (t, i) (t', i')); [discriminate | apply CA].
    + exists (sp_del (t, i) (abs_dd (m_dict m))). split; [constructor|].
      apply m_equiv_by_get; [exact (proj1 W')|]. intros t' i'. rewrite sp_get_del, GG, G. reflexivity.
  - (* read *)
    cbn [m_step fst snd m_dict m_cursor]. set (g := md_default t (m_dict m)).
    split; [split; [apply Wd|]|].
    + intros t' i' b'. cbn [m_dict m_cursor]. unfold g. rewrite dd_get_default. apply CA.
    + exists (abs_dd (m_dict m)). split.
      * rewrite md_inner_get. unfold g. rewrite dd_get_default.
        destruct (dd_get (m_dict m) t i) eqn:E; simpl; constructor; rewrite G; exact E.
      * apply m_equiv_by_get; [exact (proj1 (Wd t))|]. intros t' i'. rewrite G. unfold g.
        rewrite dd_get_default. reflexivity.
  - (* read_all(tag) *)
    cbn [m_step fst snd unraise m_dict m_cursor]. set (g := md_default t (m_dict m)).
    split; [split; [apply Wd|]|].
    + intros t' i' b'. cbn [m_dict m_cursor]. unfold g. rewrite dd_get_default. apply CA.
    + exists (abs_dd (m_dict m)). split.
      * constructor; [apply md_inner_dict, Wd|]. intros i. rewrite md_inner_get, G. unfold g. apply dd_get_default.
      * apply m_equiv_by_get; [exact (proj1 (Wd t))|]. intros t' i'. rewrite G. unfold g.
        rewrite dd_get_default. reflexivity.
  - (* read_all() *)
    cbn [m_step fst snd unraise]. split; [split; assumption|].
    exists (abs_dd (m_dict m)). split; [|apply sp_equiv_refl].
    destruct W as [W1 W2]. constructor.
    + apply NoDup_map_filter. exact W1.
    + intros t d Hin. apply filter_In in Hin as [Hin _]. rewrite Forall_forall in W2. apply (W2 (t, d) Hin).
    + intros t i. rewrite dd_get_filter by exact W1. symmetry. apply G.
Qed.

Lemma inv_m_init : inv_m m_init.
Proof. split; [split; constructor | intros t i b H; discriminate]. Qed.

Theorem m_refines ops m : inv_m m -> Forall (fun o => o <> Reopen) ops ->
  exists s', sp_trace (abs_m m) (history unraise ops (fst (run_ops m_step m ops))) s' /\
             sp_equiv s' (abs_m (snd (run_ops m_step m ops))) /\ inv_m (snd (run_ops m_step m ops)).
Proof.
  intros HI HD.
  apply (sim_run m_step abs_m inv_m unraise (fun o => o <> Reopen)).
  - intros c o Hc Ho. apply m_step_refines; assumption.
  - exact HI.
  - exact HD.
  - apply sp_equiv_refl.
Qed.

(* ------------------------------------------------------------------ corollaries: SqliteStorage model *)
Lemma run_ops_fst_cons {C} (step : C -> op -> res * C) c o ops :
  fst (run_ops step c (o :: ops)) = fst (step c o) :: fst (run_ops step (snd (step c o)) ops).
Proof. simpl. destruct (step c o) as [x c1]. simpl. destruct (run_ops step c1 ops). reflexivity. Qed.

Lemma run_ops_snd_cons {C} (step : C -> op -> res * C) c o ops :
  snd (run_ops step c (o :: ops)) = snd (run_ops step (snd (step c o)) ops).
Proof. simpl. destruct (step c o) as [x c1]. simpl. destruct (run_ops step c1 ops). reflexivity. Qed.

Lemma in_abs_sq T t i b : In ((t, i), b) (abs_sq T) <-> In (i, t, b) T.
Proof.
  unfold abs_sq. rewrite in_map_iff. split.
  - intros [[[i' t'] b'] [E H]]. unfold row_tag, row_id, row_blob in E. simpl in E. inversion E; subst. exact H.
  - intros H. exists (i, t, b). split; [reflexivity | exact H].
Qed.

Lemma is_dict_abs_sq T : wf_sq T -> is_dict (abs_sq T).
Proof.
  unfold wf_sq, is_dict, abs_sq. rewrite map_map. simpl.
  induction T as [|r T IH]; simpl; intros ND; [constructor|].
  inversion ND as [|? ? Hni ND']; subst. constructor; [|auto].
  intros H. apply in_map_iff in H as [r' [E H]]. inversion E as [[E1 E2]]. apply Hni. rewrite <- E2.
  apply in_map. exact H.
Qed.

Lemma live_iff T t i b : wf_sq T -> (sp_get (abs_sq T) (t, i) = Some b <-> In (i, t, b) T).
Proof.
  intros WF. unfold sp_get. rewrite (dict_get_in key_eqb key_eqb_eq) by (apply is_dict_abs_sq; exact WF).
  apply in_abs_sq.
Qed.

Theorem sq_create_fresh T t b : wf_sq T ->
  exists i, sq_step T (Create t b) = (RId i, T ++ [(i, t, b)]) /\ forall t' b', ~ In (i, t', b') T.
Proof.
  intros WF. exists (sq_next T). split; [reflexivity|].
  intros t' b' H. apply (sq_next_fresh T). apply (in_map row_id) in H. exact H.
Qed.

Lemma sp_ok_untouched s o r s' k b :
  sp_ok s o r s' -> touches k o = false -> sp_get s k = Some b -> sp_get s' k = Some b.
Proof.
  intros H. inversion H; subst; simpl; intros Ht Hg; try exact Hg.
  - rewrite sp_get_set. destruct (key_eqb (t, i) k) eqn:E; [|exact Hg].
    apply key_eqb_eq in E. subst k. congruence.
  - rewrite sp_get_set, Ht. exact Hg.
  - rewrite sp_get_del, Ht. exact Hg.
Qed.

Lemma sq_untouched_step T o k b : wf_sq T -> touches k o = false ->
  sp_get (abs_sq T) k = Some b -> sp_get (abs_sq (snd (sq_step T o))) k = Some b.
Proof.
  intros WF Ht Hg. destruct (sq_step_refines T o WF) as [_ [s' [Hok He]]].
  rewrite <- He. eapply sp_ok_untouched; eassumption.
Qed.

Lemma sq_untouched_run k b ops : forall T, wf_sq T -> Forall (fun o => touches k o = false) ops ->
  sp_get (abs_sq T) k = Some b -> sp_get (abs_sq (snd (run_ops sq_step T ops))) k = Some b.
Proof.
  induction ops as [|o ops IH]; intros T WF HF Hg; [exact Hg|].
  inversion HF as [|? ? Ho Hr]; subst. rewrite run_ops_snd_cons. apply IH.
  - apply (sq_step_refines T o WF).
  - exact Hr.
  - apply sq_untouched_step; assumption.
Qed.

Theorem sq_read_last_write T w t b i ops : wf_sq T ->
  (w = Create t b /\ fst (sq_step T w) = RId i) \/ (w = Update t b i /\ fst (sq_step T w) = RCount 1) ->
  Forall (fun o => touches (t, i) o = false) ops ->
  fst (sq_step (snd (run_ops sq_step (snd (sq_step T w)) ops)) (Read t i)) = RBytes b.
Proof.
  intros WF Hw HF.
  destruct (sq_step_refines T w WF) as [WF1 [s' [Hok He]]].
  assert (H1 : sp_get (abs_sq (snd (sq_step T w))) (t, i) = Some b).
  { rewrite <- He. destruct Hw as [[-> Hr]|[-> Hr]]; rewrite Hr in Hok; simpl in Hok; inversion Hok; subst;
      rewrite sp_get_set, key_eqb_rfl; reflexivity. }
  pose proof (sq_untouched_run _ _ ops _ WF1 HF H1) as H2.
  rewrite sq_get_abs in H2. cbn [sq_step fst].
  destruct (filter (where_id_tag i t) (snd (run_ops sq_step (snd (sq_step T w)) ops))) as [|r rest];
    [discriminate | inversion H2; reflexivity].
Qed.

Lemma no_row_filter T t i : (forall b0, ~ In (i, t, b0) T) -> filter (where_id_tag i t) T = [].
Proof.
  induction T as [|[[i0 t0] b0] T IH]; simpl; intros H; [reflexivity|].
  destruct (where_id_tag i t (i0, t0, b0)) eqn:E.
  - apply where_id_tag_true in E as [E1 E2]. unfold row_id, row_tag in *. simpl in *. subst.
    exfalso. apply (H b0). left. reflexivity.
  - apply IH. intros b1 H1. apply (H b1). right. exact H1.
Qed.

Lemma upd_noop T t b i : filter (where_id_tag i t) T = [] -> map (upd_row i t b) T = T.
Proof.
  induction T as [|r T IH]; simpl; intros H; [reflexivity|].
  unfold upd_row at 1. destruct (where_id_tag i t r) eqn:E; [discriminate|]. rewrite (IH H). reflexivity.
Qed.

Theorem sq_update_missing T t b i : (forall b0, ~ In (i, t, b0) T) -> sq_step T (Update t b i) = (RErr EValue, T).
Proof.
  intros H. apply no_row_filter in H. cbn [sq_step]. rewrite H, (upd_noop _ _ _ _ H). reflexivity.
Qed.

Theorem sq_update_live T t b i b0 : wf_sq T -> In (i, t, b0) T -> fst (sq_step T (Update t b i)) = RCount 1.
Proof.
  intros WF Hin. cbn [sq_step fst]. pose proof (count_le1 T i t WF) as Hc.
  assert (Hf : In (i, t, b0) (filter (where_id_tag i t) T)).
  { apply filter_In. split; [exact Hin|]. apply where_id_tag_true. split; reflexivity. }
  destruct (filter (where_id_tag i t) T) as [|r [|r2 rest]]; simpl in *;
    [tauto | reflexivity | exfalso; inversion Hc as [|? Hc']; inversion Hc'].
Qed.

Lemma filter_idem {X} (p : X -> bool) l : filter p (filter p l) = filter p l.
Proof.
  induction l as [|x l IH]; simpl; [reflexivity|]. destruct (p x) eqn:E; simpl; [rewrite E, IH; reflexivity | exact IH].
Qed.

Lemma filter_neg_nil {X} (p : X -> bool) l : filter p (filter (fun x => negb (p x)) l) = [].
Proof.
  induction l as [|x l IH]; simpl; [reflexivity|]. destruct (p x) eqn:E; simpl; [exact IH | rewrite E; exact IH].
Qed.

Theorem sq_delete_idem T t i :
  sq_step (snd (sq_step T (Delete t i))) (Delete t i) = (RNone, snd (sq_step T (Delete t i))) /\
  fst (sq_step (snd (sq_step T (Delete t i))) (Read t i)) = RNone.
Proof.
  cbn [sq_step fst snd]. split.
  - rewrite filter_idem. reflexivity.
  - rewrite (filter_neg_nil (where_id_tag i t)). reflexivity.
Qed.

Theorem sq_read_all_exact T t : wf_sq T ->
  exists d, fst (sq_step T (ReadAll (Some t))) = RDict d /\ is_dict d /\ forall i b, In (i, b) d <-> In (i, t, b) T.
Proof.
  intros WF. exists (map id_blob (filter (where_tag t) T)).
  assert (ND : NoDup (map row_id (filter (where_tag t) T))) by (apply NoDup_map_filter; exact WF).
  cbn [sq_step fst]. rewrite fold_set_fresh by exact ND. repeat split.
  - unfold is_dict. rewrite map_map. exact ND.
  - intros H. apply in_map_iff in H as [[[i0 t0] b0] [E H]]. apply filter_In in H as [H Ht].
    unfold id_blob, row_id, row_blob in E. simpl in E. inversion E; subst.
    unfold where_tag, row_tag in Ht. simpl in Ht. apply seqb_eq in Ht. subst. exact H.
  - intros H. apply in_map_iff. exists (i, t, b). split; [reflexivity|]. apply filter_In. split; [exact H|].
    unfold where_tag, row_tag. simpl. apply seqb_eq. reflexivity.
Qed.

Theorem sq_read_all_tags_exact T : wf_sq T ->
  exists g, fst (sq_step T (ReadAll None)) = RDictAll g /\ is_dict g /\ (forall t d, In (t, d) g -> is_dict d) /\
            forall t i b, dd_get g t i = Some b <-> In (i, t, b) T.
Proof.
  intros WF. exists (fold_left grp_add T []).
  assert (W : wf_dd (fold_left grp_add T [])) by (apply wf_dd_fold; split; constructor).
  split; [reflexivity|]. split; [exact (proj1 W)|]. split; [apply wf_dd_forall; exact W|].
  intros t i b. rewrite fold_grp_get; [|reflexivity|exact WF]. cbn [dd_get dict_get]. apply live_iff. exact WF.
Qed.

Lemma sq_filter_other_tag T o t' (p : srow -> bool) :
  (forall r, p r = true -> row_tag r = t') -> op_tag o <> Some t' ->
  filter p (snd (sq_step T o)) = filter p T.
Proof.
  intros Hp Hne. destruct o as [t b|t b i|t i|t i|ot|]; cbn [sq_step snd op_tag] in *; try reflexivity.
  - rewrite filter_app. simpl. destruct (p (sq_next T, t, b)) eqn:E; [|apply app_nil_r].
    apply Hp in E. unfold row_tag in E. simpl in E. subst. exfalso. apply Hne. reflexivity.
  - induction T as [|r T IH]; simpl; [reflexivity|].
    assert (Hu : upd_row i t b r = if where_id_tag i t r then (row_id r, row_tag r, b) else r) by reflexivity.
    rewrite Hu. clear Hu.
    destruct (where_id_tag i t r) eqn:Ew.
    + apply where_id_tag_true in Ew as [E1 E2].
      destruct (p (row_id r, row_tag r, b)) eqn:Ep1.
      { apply Hp in Ep1. unfold row_tag at 1 in Ep1. simpl in Ep1. exfalso. apply Hne. congruence. }
      destruct (p r) eqn:Ep2.
      { apply Hp in Ep2. exfalso. apply Hne. congruence. }
      exact IH.
    + destruct (p r); [f_equal|]; exact IH.
  - induction T as [|r T IH]; simpl; [reflexivity|].
    destruct (where_id_tag i t r) eqn:Ew; simpl.
    + apply where_id_tag_true in Ew as [E1 E2]. destruct (p r) eqn:Ep; [|exact IH].
      apply Hp in Ep. exfalso. apply Hne. congruence.
    + destruct (p r); [f_equal|]; exact IH.
  - destruct ot; reflexivity.
Qed.

Theorem sq_tag_isolation T o t' : op_tag o <> Some t' ->
  fst (sq_step (snd (sq_step T o)) (ReadAll (Some t'))) = fst (sq_step T (ReadAll (Some t'))) /\
  forall i, fst (sq_step (snd (sq_step T o)) (Read t' i)) = fst (sq_step T (Read t' i)).
Proof.
  intros Hne. split; [|intros i]; cbn [sq_step fst]; rewrite (sq_filter_other_tag T o t'); try reflexivity; try exact Hne.
  - intros r H. apply seqb_eq. exact H.
  - intros r H. apply where_id_tag_true in H. tauto.
Qed.

Theorem sq_reopen_id T : sq_step T Reopen = (RUnit, T).
Proof. reflexivity. Qed.

(* ------------------------------------------------------------------ corollaries: MockStorage model *)
Lemma md_inner_default t t' g : md_inner t' (md_default t g) = md_inner t' g.
Proof.
  unfold md_inner. rewrite md_default_set. destruct (dict_get str_eqb t g) eqn:E; [reflexivity|].
  rewrite (dict_get_set str_eqb seqb_eq). destruct (str_eqb t t') eqn:Et; [|reflexivity].
  apply seqb_eq in Et. subst. rewrite E. reflexivity.
Qed.

Lemma md_inner_put t t' d g : t <> t' -> md_inner t' (dict_set str_eqb t d g) = md_inner t' g.
Proof.
  intros Hne. unfold md_inner. rewrite (dict_get_set str_eqb seqb_eq).
  destruct (str_eqb t t') eqn:Et; [apply seqb_eq in Et; contradiction | reflexivity].
Qed.

Theorem m_tag_isolation m o t' : op_tag o <> Some t' ->
  fst (m_step (snd (m_step m o)) (ReadAll (Some t'))) = fst (m_step m (ReadAll (Some t'))).
Proof.
  intros Hne.
  assert (X : forall t, Some t <> Some t' -> t <> t') by (intros t H E; apply H; congruence).
  destruct o as [t b|t b i|t i|t i|[t|]|]; cbn [m_step op_tag] in *.
  - cbn [fst snd m_dict]. rewrite !md_inner_default, md_inner_put, md_inner_default by (apply X, Hne). reflexivity.
  - destruct (dict_get N.eqb i (md_inner t (md_default t (m_dict m)))); cbn [fst snd m_dict];
      rewrite !md_inner_default; [rewrite md_inner_put, md_inner_default by (apply X, Hne)|]; reflexivity.
  - cbn [fst snd m_dict]. rewrite !md_inner_default, md_inner_put, md_inner_default by (apply X, Hne). reflexivity.
  - cbn [fst snd m_dict]. rewrite !md_inner_default. reflexivity.
  - cbn [fst snd m_dict]. rewrite !md_inner_default. reflexivity.
  - reflexivity.
  - reflexivity.
Qed.

(* ------------------------------------------------------------------ concurrency: any interleaving of atomic calls *)
Lemma sp_ok_apply_ack s0 s o r s1 : sp_ok s o r s1 -> sp_equiv s0 s -> sp_equiv (apply_ack s0 (o, r)) s1.
Proof.
  intros H E. inversion H; subst; simpl; try exact E.
  - apply sp_set_equiv. exact E.
  - apply sp_set_equiv. exact E.
  - apply sp_del_equiv. exact E.
Qed.

Lemma sp_trace_apply_ack tr : forall s0 s s', sp_trace s tr s' -> sp_equiv s0 s ->
  sp_equiv (fold_left apply_ack tr s0) s'.
Proof.
  induction tr as [|[o r] tr IH]; intros s0 s s' H E; inversion H as [|? ? ? ? ? ? Hok Htr]; subst; simpl.
  - exact E.
  - eapply IH; [exact Htr|]. eapply sp_ok_apply_ack; eassumption.
Qed.

Lemma sq_ids_step T o : is_delete o = false ->
  map row_id (snd (sq_step T o)) =
  map row_id T ++ match o with Create _ _ => [sq_next T] | _ => [] end.
Proof.
  destruct o as [t b|t b i|t i|t i|[t|]|]; cbn [sq_step snd is_delete]; intros H; try discriminate;
    try (rewrite app_nil_r; reflexivity).
  - rewrite map_app. reflexivity.
  - rewrite upd_ids, app_nil_r. reflexivity.
Qed.

Lemma sq_created_distinct ops : forall T, wf_sq T ->
  Forall (fun o => is_delete o = false) ops ->
  let rs := fst (run_ops sq_step T ops) in
  let T' := snd (run_ops sq_step T ops) in
  NoDup (created_ids ops rs) /\
  (forall i, In i (created_ids ops rs) -> ~ In i (map row_id T) /\ In i (map row_id T')) /\
  (forall i, In i (map row_id T) -> In i (map row_id T')).
Proof.
  induction ops as [|o ops IH]; intros T WF HF; cbn zeta.
  - simpl. repeat split; [constructor | tauto | tauto | tauto].
  - inversion HF as [|? ? Ho Hr]; subst.
    rewrite run_ops_fst_cons, run_ops_snd_cons.
    pose proof (proj1 (sq_step_refines T o WF)) as WF1.
    destruct (IH (snd (sq_step T o)) WF1 Hr) as [ND [Hc Hm]]. cbn zeta in *.
    pose proof (sq_ids_step T o Ho) as Hids.
    assert (Hmono : forall i, In i (map row_id T) -> In i (map row_id (snd (sq_step T o)))).
    { intros i Hi. rewrite Hids. apply in_or_app. left. exact Hi. }
    destruct o as [t b|t b i0|t i0|t i0|[t|]|]; try discriminate; cbn [created_ids sq_step fst];
      try (split; [exact ND | split; [intros i Hi; destruct (Hc i Hi) as [H1 H2]; split; [intros H; apply H1, Hmono, H | exact H2]
                                     | intros i Hi; apply Hm, Hmono, Hi]]).
    + (* create *)
      assert (Hnew : In (sq_next T) (map row_id (snd (sq_step T (Create t b))))).
      { rewrite Hids. apply in_or_app. right. left. reflexivity. }
      split; [|split].
      * constructor; [|exact ND]. intros Hin. destruct (Hc _ Hin) as [H1 _]. apply H1. exact Hnew.
      * intros i [<-|Hi].
        -- split; [apply sq_next_fresh | apply Hm, Hnew].
        -- destruct (Hc i Hi) as [H1 H2]. split; [intros H; apply H1, Hmono, H | exact H2].
      * intros i Hi. apply Hm, Hmono, Hi.
Qed.

Lemma interleaving_perm {X} (ps : list (list X)) l : interleaving ps l -> Permutation (concat ps) l.
Proof.
  induction 1 as [ps HF|ps1 a p ps2 l _ IH].
  - induction HF as [|p ps Hp _ IH]; simpl; [constructor | subst p; exact IH].
  - rewrite concat_app in *. simpl in *.
    apply Permutation_sym. apply Permutation_cons_app. apply Permutation_sym. exact IH.
Qed.

Theorem sq_serial_no_lost_write (progs : list (list op)) (sched : list op) T :
  interleaving progs sched -> wf_sq T ->
  let rs := fst (run_ops sq_step T sched) in
  let T' := snd (run_ops sq_step T sched) in
  Permutation (concat progs) sched /\
  (exists s', sp_trace (abs_sq T) (history view_raw sched rs) s' /\ sp_equiv s' (abs_sq T')) /\
  wf_sq T' /\
  sp_equiv (fold_left apply_ack (history view_raw sched rs) (abs_sq T)) (abs_sq T') /\
  (Forall (fun o => is_delete o = false) sched -> NoDup (created_ids sched rs)).
Proof.
  intros HI WF. cbn zeta.
  destruct (sq_refines sched T WF) as [s' [Htr [He WF']]].
  split; [apply interleaving_perm; exact HI|].
  split; [exists s'; split; assumption|].
  split; [exact WF'|]. split.
  - eapply sp_equiv_trans; [|exact He]. eapply sp_trace_apply_ack; [exact Htr | apply sp_equiv_refl].
  - intros HF. apply (sq_created_distinct sched T WF HF).
Qed.

(* ------------------------------------------------------------------ refutations (witnesses by computation) *)
Definition t_a : tag := [116%N].

(* MockStorage: a second instance over the same dict hands out an id that a live row of the tag is using *)
Definition m_refines_full : Prop :=
  forall ops, exists s', sp_trace [] (history unraise ops (fst (run_ops m_step m_init ops))) s'.

Lemma m_refines_full_refuted : ~ m_refines_full.
Proof.
  intros H. destruct (H [Create t_a [1%N]; Reopen; Create t_a [2%N]]) as [s' Htr]. vm_compute in Htr.
  inversion Htr as [|? ? ? ? ? ? Hok1 Htr1]; subst.
  inversion Htr1 as [|? ? ? ? ? ? Hok2 Htr2]; subst.
  inversion Htr2 as [|? ? ? ? ? ? Hok3 Htr3]; subst.
  inversion Hok1; subst. inversion Hok2; subst.
  inversion Hok3 as [? ? ? Hnone| | | | | | | |]; subst.
  vm_compute in Hnone. discriminate.
Qed.

(* MockStorage.read of a missing id raises ValueError where a map gives "nothing" *)
Definition m_read_total : Prop :=
  forall ops, Forall (fun o => o <> Reopen) ops ->
  exists s', sp_trace [] (history view_raw ops (fst (run_ops m_step m_init ops))) s'.

Lemma m_read_total_refuted : ~ m_read_total.
Proof.
  intros H. destruct (H [Read t_a 0%N]) as [s' Htr]; [repeat constructor; discriminate|].
  vm_compute in Htr. inversion Htr as [|? ? ? ? ? ? Hok1 Htr1]; subst. inversion Hok1.
Qed.
