(* PropC03.v — C03: one-sided changes mirror exactly; origin side untouched; no echo.
   Theorems about the acceptor Monitor.accept (all traces) and the tree specification. *)
From Coq Require Import NArith List Bool.
From CS Require Import Sx TreeModel Monitor MonitorProofs MonitorExamples.
Import ListNotations.

(* at every quiet report of an accepted run both views equal the previously synchronised tree with the
   user's operations applied: the other side mirrors the changed side exactly *)
Theorem C03_mirror_at_quiet : forall cfg l r tr m',
  check_spec cfg = true -> accept cfg l r tr = inl m' ->
  forall pre x post, tr = pre ++ x :: post -> o_ev x = EQuiet ->
    same_tree (view (rootL cfg) (o_L x)) (apply_ops (view (rootL cfg) l) (rel_user_ops cfg pre)) = true /\
    same_tree (view (rootR cfg) (o_R x)) (apply_ops (view (rootL cfg) l) (rel_user_ops cfg pre)) = true.
Proof. exact quiet_views_are_history. Qed.
Print Assumptions C03_mirror_at_quiet.

(* no engine action changes the origin side's view, and no provider write follows a quiet report *)
Theorem C03_origin_untouched_no_echo : forall cfg l r tr m' s0,
  origin cfg = Some s0 -> accept cfg l r tr = inl m' ->
  forall pre x post s ts, tr = pre ++ x :: post -> o_ev x = EEng s ts ->
    exists ma, run_of cfg (init_state cfg l r) pre ma /\ quiet ma = false /\
      (s = s0 -> same_tree (view (root_of cfg s) (tree_of ma s)) (view (root_of cfg s) (if s then o_R x else o_L x)) = true).
Proof. exact origin_untouched_no_echo. Qed.
Print Assumptions C03_origin_untouched_no_echo.

Theorem C03_no_conflicted_artefact : forall cfg l r tr m',
  no_conflicted cfg = true -> accept cfg l r tr = inl m' ->
  forall pre x post, tr = pre ++ x :: post -> o_ev x = EQuiet ->
    has_conflicted cfg (view (rootL cfg) (o_L x)) = false /\ has_conflicted cfg (view (rootR cfg) (o_R x)) = false.
Proof. exact quiet_no_conflicted. Qed.
Print Assumptions C03_no_conflicted_artefact.

(* non-vacuity: a concrete one-sided run is accepted, and the three ways of breaking C03 are rejected *)
Theorem C03_example_accepted : accepted (ex_cfg (Some false)) ex_l0 ex_r0 ex_trace = true.
Proof. exact ex_accepted. Qed.
Print Assumptions C03_example_accepted.
