(* AlgoProofs.v — facts about AlgoModel that need no invariant, and the witness of the refuted full-strength
   statement (the invariant is in AlgoInv.v, its preservation in AlgoIntake / AlgoLatest / AlgoFinish / AlgoSyncEntry). *)
From Coq Require Import NArith List Bool Arith Lia.
From CS Require Import Sx Str PathModel StateModel ProvModel AlgoModel AlgoCheck.
Import ListNotations.
Local Open Scope N_scope.

(* a user operation is not an engine step: it issues no engine call and leaves the sync state alone *)
Lemma user_step_no_engine_call w sd o :
  exists w', algo_step w (AUser sd o) = ROk (w', []) /\ w_st w' = w_st w /\ prov_of w' (negb sd) = prov_of w (negb sd).
Proof.
  eexists; split; [reflexivity|]. unfold user_op, with_prov. destruct sd; simpl; auto.
Qed.

(* ------------------------------------------------------------------ finding A-1: a content written twice *)
(* Without the side condition "a content written to a file is new for that file" the engine does not converge:
   the run below (recorded from the real engine, corpus/ALGO/f1-aba-stale-hash-diverges.json; the clock readings are
   the real ones) ends quiescent with content 2 in LOCAL /f and content 3 in REMOTE /f.  One-sided history of 4
   user operations: create g:=1, create f:=2, write f:=3, write f:=2. *)
Definition aba_t0 : N := 1016000.
Definition aba_lg0 : N := 1013000.
Definition aba_actions : list action :=
  [AUser false (UCreate [[103]] 1);
   AUser false (UCreate [[102]] 2);
   AIntake false 1025000;
   ASync [2%nat; 3%nat] 1029000;
   AUser false (UWrite [[102]] 3);
   ASync [3%nat] 1037000;
   AUser false (UWrite [[102]] 2);
   AIntake false 1045000;
   AIntake true 1049000;
   ASync [2%nat; 3%nat] 1053000;
   AIntake false 1054000;
   AIntake true 1054000;
   ASync [3%nat] 1054000;
   AIntake false 1055000;
   AIntake true 1055000;
   ASync [] 1055000;
   AIntake false 1055000;
   AIntake true 1055000;
   ASync [] 1055000].

Lemma aba_diverges :
  exists w, algo_run (world_init (cfg_std 1) aba_t0 aba_lg0) aba_actions = ROk w /\
            quiescent w = true /\ views_equal w = false /\
            In ([[102]], (ProvModel.KFile, 2)) (rel_view w false) /\ In ([[102]], (ProvModel.KFile, 3)) (rel_view w true) /\
            history_of aba_actions = [(false, UCreate [[103]] 1); (false, UCreate [[102]] 2); (false, UWrite [[102]] 3); (false, UWrite [[102]] 2)] /\
            one_sided false (history_of aba_actions) = true /\
            (* the only clause of the domain it violates: the last write repeats a content of the file *)
            in_F (cfg_std 1) (history_of aba_actions) = false /\
            in_F (cfg_std 1) [(false, UCreate [[103]] 1); (false, UCreate [[102]] 2); (false, UWrite [[102]] 3); (false, UWrite [[102]] 4)] = true.
Proof.
  destruct (algo_run (world_init (cfg_std 1) aba_t0 aba_lg0) aba_actions) as [w|c] eqn:E.
  - exists w. split; [reflexivity|].
    assert (Hw: ROk w = algo_run (world_init (cfg_std 1) aba_t0 aba_lg0) aba_actions) by (symmetry; exact E).
    clear E. vm_compute in Hw. injection Hw as ->. vm_compute. repeat split; auto.
  - exfalso. vm_compute in E. discriminate.
Qed.

(* the same history with a fresh last content (4 instead of 2) is in the domain and converges: the hypotheses of the
   run-level theorems are satisfiable by a run in which the engine creates, uploads and goes quiet *)
Definition conv_actions : list action :=
  [AUser false (UCreate [[103]] 1);
   AUser false (UCreate [[102]] 2);
   AIntake false 1025000;
   ASync [2%nat; 3%nat] 1029000;
   AUser false (UWrite [[102]] 3);
   ASync [3%nat] 1037000;
   AUser false (UWrite [[102]] 4);
   AIntake false 1045000;
   AIntake true 1049000;
   ASync [2%nat; 3%nat] 1053000;
   AIntake false 1054000;
   AIntake true 1054000;
   ASync [3%nat] 1054000;
   AIntake false 1058000;
   AIntake true 1058000;
   ASync [3%nat] 1060000;
   AIntake false 1061000;
   AIntake true 1061000;
   ASync [] 1061000;
   AIntake false 1061000;
   AIntake true 1061000;
   ASync [] 1061000].

Lemma conv_converges :
  in_F1 (cfg_std 1) (history_of conv_actions) = true /\ one_sided false (history_of conv_actions) = true /\
  exists w, algo_run (world_init (cfg_std 1) aba_t0 aba_lg0) conv_actions = ROk w /\
            quiescent w = true /\ views_equal w = true /\
            In ([[102]], (ProvModel.KFile, 4)) (rel_view w false) /\ In ([[102]], (ProvModel.KFile, 4)) (rel_view w true) /\
            In ([[103]], (ProvModel.KFile, 1)) (rel_view w true).
Proof.
  split; [reflexivity|]. split; [reflexivity|].
  destruct (algo_run (world_init (cfg_std 1) aba_t0 aba_lg0) conv_actions) as [w|c] eqn:E.
  - exists w. split; [reflexivity|].
    assert (Hw: ROk w = algo_run (world_init (cfg_std 1) aba_t0 aba_lg0) conv_actions) by (symmetry; exact E).
    clear E. vm_compute in Hw. injection Hw as ->. vm_compute. repeat split; auto.
  - exfalso. vm_compute in E. discriminate.
Qed.
