(* AlgoProofs.v — first facts about AlgoModel (the invariant is in AlgoInv.v). *)
From Coq Require Import NArith List Bool Arith Lia.
From CS Require Import Sx Str PathModel StateModel ProvModel AlgoModel.
Import ListNotations.

(* a user operation is not an engine step: it issues no engine call and leaves the sync state alone *)
Lemma user_step_no_engine_call w sd o :
  exists w', algo_step w (AUser sd o) = ROk (w', []) /\ w_st w' = w_st w /\ prov_of w' (negb sd) = prov_of w (negb sd).
Proof.
  eexists; split; [reflexivity|]. unfold user_op, with_prov. destruct sd; simpl; auto.
Qed.
