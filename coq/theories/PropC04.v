(* PropC04.v — C04: non-conflicting concurrent changes merge exactly. *)
From Coq Require Import NArith List Bool.
From CS Require Import Sx TreeModel Monitor MonitorProofs MonitorExamples.
Import ListNotations.

(* at every quiet report both views are the synchronised base tree with BOTH sides' operations applied
   (in their real temporal order; independence of that order for disjoint changes: TreeProofs) *)
Theorem C04_merged_at_quiet : forall cfg l r tr m',
  check_spec cfg = true -> accept cfg l r tr = inl m' ->
  forall pre x post, tr = pre ++ x :: post -> o_ev x = EQuiet ->
    same_tree (view (rootL cfg) (o_L x)) (apply_ops (view (rootL cfg) l) (rel_user_ops cfg pre)) = true /\
    same_tree (view (rootR cfg) (o_R x)) (apply_ops (view (rootL cfg) l) (rel_user_ops cfg pre)) = true.
Proof. exact quiet_views_are_history. Qed.
Print Assumptions C04_merged_at_quiet.

Theorem C04_no_conflicted_artefact : forall cfg l r tr m',
  no_conflicted cfg = true -> accept cfg l r tr = inl m' ->
  forall pre x post, tr = pre ++ x :: post -> o_ev x = EQuiet ->
    has_conflicted cfg (view (rootL cfg) (o_L x)) = false /\ has_conflicted cfg (view (rootR cfg) (o_R x)) = false.
Proof. exact quiet_no_conflicted. Qed.
Print Assumptions C04_no_conflicted_artefact.

From CS Require Import TreeLookup TreeProofs MergeProofs.

(* independent operations commute, so the merged tree does not depend on how the two users' operations
   were interleaved *)
Theorem C04_independent_ops_commute : forall a b t, indep a b = true -> wf t ->
  teq (apply_op (apply_op t a) b) (apply_op (apply_op t b) a).
Proof. exact apply_op_comm. Qed.
Print Assumptions C04_independent_ops_commute.

Theorem C04_interleaving_independent : forall base xs ys zs,
  disjoint xs ys = true -> wf base -> interleave xs ys zs ->
  same_tree (apply_ops base zs) (merge3 base xs ys) = true.
Proof. exact interleave_same_tree. Qed.
Print Assumptions C04_interleaving_independent.

(* trace level: at every quiet report of an accepted run whose per-side operation lists are disjoint,
   both views are merge3 of the base tree — whatever the interleaving was *)
Theorem C04_quiet_views_are_merge : forall cfg l r tr m',
  check_spec cfg = true -> wf l -> accept cfg l r tr = inl m' ->
  forall pre x post, tr = pre ++ x :: post -> o_ev x = EQuiet ->
    disjoint (side_ops cfg false pre) (side_ops cfg true pre) = true ->
    same_tree (view (rootL cfg) (o_L x)) (merge3 (view (rootL cfg) l) (side_ops cfg false pre) (side_ops cfg true pre)) = true /\
    same_tree (view (rootR cfg) (o_R x)) (merge3 (view (rootL cfg) l) (side_ops cfg false pre) (side_ops cfg true pre)) = true.
Proof. exact quiet_views_are_merge. Qed.
Print Assumptions C04_quiet_views_are_merge.

(* every delete stays deleted; every rename ends with the object (and its children) only at the new path *)
Theorem C04_delete_stays_deleted : forall t p, wf t -> delete_ok t p = true ->
  (forall s, lookup (apply_op t (Delete p)) (p ++ s) = None) /\
  (forall r, r <> p -> lookup (apply_op t (Delete p)) r = lookup t r).
Proof. exact delete_stays_deleted. Qed.
Print Assumptions C04_delete_stays_deleted.

Theorem C04_rename_moves_subtree : forall t p q, wf t -> rename_ok t p q = true ->
  (forall s, lookup (apply_op t (Rename p q)) (q ++ s) = lookup t (p ++ s)) /\
  (forall s, lookup (apply_op t (Rename p q)) (p ++ s) = None) /\
  (forall r, ~ TreePaths.pre p r -> ~ TreePaths.pre q r -> lookup (apply_op t (Rename p q)) r = lookup t r).
Proof. exact rename_moves_subtree. Qed.
Print Assumptions C04_rename_moves_subtree.

(* non-vacuity: a concrete well-formed base tree, two disjoint operation lists with a folder rename and
   deletes, one interleaving, and the equality (computed) *)
Theorem C04_example : same_tree (apply_ops ex_base ex_zs) (merge3 ex_base ex_xs ex_ys) = true.
Proof. exact ex_equal. Qed.
Print Assumptions C04_example.
