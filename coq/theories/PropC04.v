(* PropC04.v — C04: non-conflicting concurrent changes merge exactly. *)
From Coq Require Import NArith List Bool.
From CS Require Import Sx TreeModel Monitor MonitorProofs MonitorExamples.
Import ListNotations.

(* at every quiet report both views are the synchronised base tree with BOTH sides' operations applied
   (in their real temporal order; independence of that order for disjoint changes: TreeProofs) *)
Theorem C04_merged_at_quiet : forall cfg l r tr m',
  check_spec cfg = true -> accept cfg l r tr = inl m' ->
  forall pre x post, tr = pre ++ x :: post -> o_ev x = EQuiet ->
    same_tree (view (rootL cfg) (o_L x)) (apply_ops (view (rootL cfg) l) (rel_user_ops cfg pre)) = true /\
    same_tree (view (rootR cfg) (o_R x)) (apply_ops (view (rootL cfg) l) (rel_user_ops cfg pre)) = true.
Proof. exact quiet_views_are_history. Qed.
Print Assumptions C04_merged_at_quiet.

Theorem C04_no_conflicted_artefact : forall cfg l r tr m',
  no_conflicted cfg = true -> accept cfg l r tr = inl m' ->
  forall pre x post, tr = pre ++ x :: post -> o_ev x = EQuiet ->
    has_conflicted cfg (view (rootL cfg) (o_L x)) = false /\ has_conflicted cfg (view (rootR cfg) (o_R x)) = false.
Proof. exact quiet_no_conflicted. Qed.
Print Assumptions C04_no_conflicted_artefact.
