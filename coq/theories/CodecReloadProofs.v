(* CodecReloadProofs.v — C08: loading a committed store gives back the live entries (normalised),
   hence the same oid / path lookups and the same pending set. *)
From Coq Require Import NArith ZArith List Bool Lia.
From CS Require Import Sx Str CodecModel CodecProofs CodecCommitProofs.
Import ListNotations.
Local Open Scope N_scope.
Local Arguments ser_entry : simpl never.
Local Arguments tuplify : simpl never.
Local Arguments load_row : simpl never.

Lemma load_rows_in : forall rs e,
  In e (fst (load_rows rs)) <-> exists i w, In (i, w) rs /\ load_row i w = Some e.
Proof.
  induction rs as [|[i w] r IH]; intros e; simpl.
  - split; [tauto|]. intros [i [w [[] _]]].
  - destruct (load_rows r) as [es bad] eqn:E. simpl in IH.
    destruct (load_row i w) as [x|] eqn:El; simpl; rewrite IH.
    + split.
      * intros [<-|[j [v [Hin Hl]]]]; [exists i, w; auto|exists j, v; auto].
      * intros [j [v [[Heq|Hin] Hl]]]; [injection Heq as <- <-; left; congruence|right; eauto].
    + split.
      * intros [j [v [Hin Hl]]]. exists j, v. auto.
      * intros [j [v [[Heq|Hin] Hl]]]; [injection Heq as <- <-; congruence|eauto].
Qed.

Lemma load_rows_all : forall rs, (forall i w, In (i, w) rs -> load_row i w <> None) ->
  snd (load_rows rs) = [].
Proof.
  induction rs as [|[i w] r IH]; intros H; simpl; [reflexivity|].
  destruct (load_rows r) as [es bad] eqn:E. simpl in IH.
  destruct (load_row i w) as [x|] eqn:El; simpl.
  - apply IH. intros j v Hin. apply H. now right.
  - exfalso. apply (H i w); [now left|assumption].
Qed.

Lemma insert_row_in : forall x y l, In y (insert_row x l) <-> y = x \/ In y l.
Proof.
  induction l as [|z l IH]; simpl; [split; [intros [H|[]]; auto|intros [H|[]]; auto]|].
  destruct (N.leb (fst x) (fst z)); simpl; [split; intros [H|H]; auto|].
  rewrite IH. split; [intros [H|[H|H]]; auto|intros [H|[H|H]]; auto].
Qed.

Lemma sort_rows_in : forall l y, In y (sort_rows l) <-> In y l.
Proof.
  induction l as [|x l IH]; intros y; simpl; [tauto|].
  rewrite insert_row_in, IH. split; intros [H|H]; auto.
Qed.

Lemma read_all_in : forall st y, In y (read_all st) <-> In y (rows st).
Proof. intros st y. unfold read_all. destruct (pol st); [apply sort_rows_in|tauto]. Qed.

Lemma wf_survives : forall e, wf_entry e = true -> survives e = true.
Proof.
  intros e H. unfold wf_entry in H.
  apply andb_true_iff in H. destruct H as [H Hm1].
  apply andb_true_iff in H. destruct H as [H Hm0].
  apply andb_true_iff in H. destruct H as [H Hl].
  apply andb_true_iff in H. destruct H as [Hi Hk].
  unfold survives. now rewrite (listfree_tuplify _ Hl), Hi, Hk, Hm0, Hm1.
Qed.

Definition live_wf (ps : pstate) : Prop :=
  forall e, In e (ents ps) -> is_trash e = false -> wf_entry e = true.

(* the entries a restart loads are exactly the live entries, normalised; no row is dropped *)
Lemma reload_entries : forall ps, Ser (ents ps) -> exact ps -> live_wf ps ->
  (forall e', In e' (fst (load (sto ps))) <->
     exists e i, In e (ents ps) /\ is_trash e = false /\ e_sid e = Some i /\ e' = norm_entry i e) /\
  snd (load (sto ps)) = sto ps.
Proof.
  intros ps HS [Hnd [Hrows [Hsid Hinj]]] Hwf.
  assert (Hload : forall i w, In (i, w) (rows (sto ps)) ->
            exists e, In e (ents ps) /\ is_trash e = false /\ e_sid e = Some i /\
                      load_row i w = Some (norm_entry i e)).
  { intros i w Hin. apply Hrows in Hin. destruct Hin as [n [e [En [Ht [Hs Hp]]]]].
    assert (Hine : In e (ents ps)) by (eapply nth_error_In; eauto).
    exists e. repeat split; try assumption.
    pose proof (roundtrip_char i e) as Hr. unfold roundtrip in Hr. rewrite Hp in Hr. simpl in Hr.
    rewrite Hr, (wf_survives e (Hwf e Hine Ht)). reflexivity. }
  unfold load. destruct (load_rows (read_all (sto ps))) as [es bad] eqn:E. simpl.
  assert (Hes : es = fst (load_rows (read_all (sto ps)))) by now rewrite E.
  assert (Hbad : bad = snd (load_rows (read_all (sto ps)))) by now rewrite E.
  split.
  - intros e'. rewrite Hes, load_rows_in. split.
    + intros [i [w [Hin Hl]]]. apply read_all_in in Hin.
      destruct (Hload i w Hin) as [e [Hine [Ht [Hs Hl']]]]. exists e, i. repeat split; try assumption.
      congruence.
    + intros [e [i [Hine [Ht [Hs ->]]]]]. apply In_nth_error in Hine. destruct Hine as [n En].
      assert (Hp : pack (ser_entry e) = Some (tuplify (ser_entry e))).
      { unfold pack. rewrite (HS e); [reflexivity|]. eapply nth_error_In; eauto. }
      exists i, (tuplify (ser_entry e)).
      assert (Hin : In (i, tuplify (ser_entry e)) (rows (sto ps))).
      { apply Hrows. exists n, e. repeat split; assumption. }
      split; [now apply read_all_in|].
      destruct (Hload _ _ Hin) as [e2 [Hine2 [Ht2 [Hs2 Hl2]]]].
      apply In_nth_error in Hine2. destruct Hine2 as [m Em].
      assert (n = m) by (eapply Hinj; eauto). subst m. rewrite En in Em. injection Em as <-. exact Hl2.
  - rewrite Hbad, load_rows_all; [reflexivity|].
    intros i w Hin. apply read_all_in in Hin. destruct (Hload i w Hin) as [e [_ [_ [_ Hl]]]]. congruence.
Qed.

(* what the lookups see is unchanged by the normalisation of a well-formed entry *)
Lemma norm_keeps : forall i e, wf_entry e = true -> e_sid e = Some i ->
  e_sid (norm_entry i e) = e_sid e /\
  (forall sd, s_oid (side_of sd (norm_entry i e)) = s_oid (side_of sd e)) /\
  (forall sd, s_path (side_of sd (norm_entry i e)) = s_path (side_of sd e)) /\
  pending (norm_entry i e) = pending e /\ is_trash (norm_entry i e) = is_trash e.
Proof.
  intros i e Hwf Hs.
  destruct (codec_roundtrip i e Hwf) as [e' [Hr [[S0 [S1 _]] _]]].
  rewrite roundtrip_char, (wf_survives e Hwf) in Hr. injection Hr as <-.
  destruct (roundtrip_trash_pending i e (norm_entry i e)) as [Ht Hp].
  { now rewrite roundtrip_char, (wf_survives e Hwf). }
  unfold same_side in S0, S1.
  destruct S0 as [_ [_ [_ [_ [_ [_ [P0 [O0 _]]]]]]]]. destruct S1 as [_ [_ [_ [_ [_ [_ [P1 [O1 _]]]]]]]].
  repeat split; try assumption.
  - simpl. now rewrite Hs.
  - intros [|]; [exact (eq_sym O1)|exact (eq_sym O0)].
  - intros [|]; [exact (eq_sym P1)|exact (eq_sym P0)].
Qed.

Lemma reload_same_lookups : forall ps, Ser (ents ps) -> exact ps -> live_wf ps ->
  forall x,
    (forall sd oid, In x (lookup_oid sd oid (fst (load (sto ps)))) <-> In x (lookup_oid sd oid (live (ents ps)))) /\
    (forall sd p, In x (lookup_path sd p (fst (load (sto ps)))) <-> In x (lookup_path sd p (live (ents ps)))) /\
    (In x (pending_set (fst (load (sto ps)))) <-> In x (pending_set (live (ents ps)))).
Proof.
  intros ps HS Hex Hwf x.
  destruct (reload_entries ps HS Hex Hwf) as [Hin _].
  destruct Hex as [_ [_ [Hsid _]]].
  assert (Hlive : forall e, In e (live (ents ps)) <-> In e (ents ps) /\ is_trash e = false).
  { intros e. unfold live. rewrite filter_In, negb_true_iff. tauto. }
  assert (Hgen : forall (f : entry -> bool),
            (forall i e, wf_entry e = true -> e_sid e = Some i -> f (norm_entry i e) = f e) ->
            In x (map e_sid (filter f (fst (load (sto ps))))) <-> In x (map e_sid (filter f (live (ents ps))))).
  { intros f Hf. rewrite !in_map_iff. split.
    - intros [e' [Hx He']]. apply filter_In in He'. destruct He' as [He' Hfe'].
      apply Hin in He'. destruct He' as [e [i [Hine [Ht [Hs ->]]]]].
      pose proof (Hwf e Hine Ht) as Hw. destruct (norm_keeps i e Hw Hs) as [Ks _].
      exists e. split; [congruence|]. apply filter_In. split; [apply Hlive; auto|].
      now rewrite <- (Hf i e Hw Hs).
    - intros [e [Hx He]]. apply filter_In in He. destruct He as [He Hfe].
      apply Hlive in He. destruct He as [Hine Ht].
      apply In_nth_error in Hine. destruct Hine as [n En].
      assert (Hine : In e (ents ps)) by (eapply nth_error_In; eauto).
      destruct (e_sid e) as [i|] eqn:Hs; [|exfalso; eapply Hsid; eauto].
      pose proof (Hwf e Hine Ht) as Hw. destruct (norm_keeps i e Hw Hs) as [Ks _].
      exists (norm_entry i e). split; [congruence|]. apply filter_In. split.
      + apply Hin. exists e, i. auto.
      + now rewrite (Hf i e Hw Hs). }
  split; [|split].
  - intros sd oid. unfold lookup_oid. apply Hgen. intros i e Hw Hs.
    destruct (norm_keeps i e Hw Hs) as [_ [Ko _]]. now rewrite Ko.
  - intros sd p. unfold lookup_path. apply Hgen. intros i e Hw Hs.
    destruct (norm_keeps i e Hw Hs) as [_ [_ [Kp _]]]. now rewrite Kp.
  - unfold pending_set. apply Hgen. intros i e Hw Hs.
    now destruct (norm_keeps i e Hw Hs) as [_ [_ [_ [Kpd _]]]].
Qed.
