(* CacheLaws.v — the coherence laws of C19 on top of the invariant:
   the two views are inverses, deleting / replacing a folder forgets its subtree, rename moves
   the whole subtree. *)
From Coq Require Import NArith List Bool Lia.
From CS Require Import Sx Str CacheModel CacheProofs CacheInv.
Import ListNotations.

(* in a tame tree every stored path is already in normal form and has no empty name *)
Lemma tame_path fold t : forall rp nd,
  keys_ok fold t = true -> lookup rp t = Some nd -> map fold rp = rp /\ clean rp = rp.
Proof.
  intros rp. revert t. induction rp as [|n rp IH]; intros t nd Ht Hl; [auto|].
  simpl in Hl. destruct (aget n (n_kids t)) as [c|] eqn:E; [|discriminate].
  assert (Hc : keys_ok fold c = true) by (eapply all_nodes_kid; eauto).
  destruct (IH c nd Hc Hl) as [H1 H2].
  destruct t as [d i m kids]. unfold keys_ok in Ht. simpl in Ht. apply andb_true_iff in Ht as [Hk _].
  rewrite forallb_forall in Hk.
  assert (Hn : name_ok fold n = true).
  { apply Hk. apply aget_in in E. apply in_map_iff. exists (n, c). auto. }
  unfold name_ok in Hn. apply andb_true_iff in Hn as [Hf Hz].
  apply N.eqb_eq in Hf. apply negb_true_iff in Hz.
  split.
  - simpl. rewrite Hf, H1. reflexivity.
  - unfold clean in *. simpl. rewrite Hz. simpl. rewrite H2. reflexivity.
Qed.

Lemma get_oid_spec cf c p o :
  get_oid cf c p = Some o <-> has_id (c_root c) (map (cf_fold cf) p) o.
Proof.
  unfold get_oid, loc_path, has_id.
  destruct (lookup (map (cf_fold cf) p) (c_root c)) as [nd|] eqn:E; simpl.
  - rewrite E. split; [intros H; exists nd; auto|intros [x [Hx Hi]]; inversion Hx; subst; exact Hi].
  - split; [discriminate|intros [x [Hx _]]; discriminate].
Qed.

Lemma get_path_tree c o rp :
  Inv c -> aget o (c_ghosts c) = None -> has_id (c_root c) rp o -> get_path c o = Some (clean rp).
Proof.
  intros [K [_ [U _]]] Hg [nd [Hl Hi]]. unfold get_path, loc_map. rewrite Hg.
  pose proof (index_complete _ _ _ _ Hl Hi) as Hin. apply in_aget in Hin as [rp' E]. rewrite E.
  apply aget_in in E. destruct (index_sound _ K _ _ E) as [nd' [Hl' Hi']].
  assert (rp' = rp) by (apply (U _ _ o); [exists nd'|exists nd]; auto). subst. reflexivity.
Qed.

Lemma get_path_some c o p :
  Inv c -> get_path c o = Some p -> exists rp, p = clean rp /\ has_id (c_root c) rp o.
Proof.
  intros [K _] H. unfold get_path, loc_map in H.
  destruct (aget o (c_ghosts c)); [discriminate|].
  destruct (aget o (index (c_root c))) as [rp|] eqn:E; [|discriminate].
  inversion H; subst. exists rp. split; [reflexivity|]. apply aget_in in E.
  destruct (index_sound _ K _ _ E) as [nd Hn]. exists nd. exact Hn.
Qed.

Lemma get_path_none c o :
  Inv c -> aget o (c_ghosts c) = None -> (forall q, ~ has_id (c_root c) q o) -> get_path c o = None.
Proof.
  intros [K _] Hg Hno. unfold get_path, loc_map. rewrite Hg.
  destruct (aget o (index (c_root c))) as [rp|] eqn:E; [|reflexivity].
  apply aget_in in E. destruct (index_sound _ K _ _ E) as [nd Hn]. exfalso. apply (Hno rp). exists nd. exact Hn.
Qed.

(* id -> path -> id *)
Theorem path_oid_inverse cf c o p :
  Inv c -> tame cf c = true -> get_path c o = Some p -> get_oid cf c p = Some o.
Proof.
  intros HI Ht H. destruct (get_path_some c o p HI H) as [rp [-> [nd [Hl Hi]]]].
  destruct (tame_path _ _ _ _ Ht Hl) as [H1 H2]. rewrite H2.
  apply get_oid_spec. rewrite H1. exists nd. auto.
Qed.

(* path -> id -> path (the normal form of the path), for ids that are not ghosts *)
Theorem oid_path_inverse cf c o p :
  Inv c -> tame cf c = true -> aget o (c_ghosts c) = None ->
  get_oid cf c p = Some o -> get_path c o = Some (map (cf_fold cf) p).
Proof.
  intros HI Ht Hg H. apply get_oid_spec in H.
  rewrite (get_path_tree c o _ HI Hg H). destruct H as [nd [Hl _]].
  destruct (tame_path _ _ _ _ Ht Hl) as [_ H2]. rewrite H2. reflexivity.
Qed.

(* no id is held by two nodes *)
Theorem ids_unique c q1 q2 o :
  Inv c -> has_id (c_root c) q1 o -> has_id (c_root c) q2 o -> q1 = q2.
Proof. intros [_ [_ [U _]]]. apply U. Qed.

(* files have no children; names are unique per folder (also modulo the case fold when tame) *)
Theorem file_has_no_children c q nd n :
  Inv c -> lookup q (c_root c) = Some nd -> n_dir nd = false -> lookup (q ++ [n]) (c_root c) = None.
Proof.
  intros [_ [F _]] Hl Hd. rewrite lookup_app, Hl.
  pose proof (all_nodes_lookup PF _ _ _ F Hl) as H. destruct nd as [d i m kids]. simpl in *. subst d.
  apply andb_true_iff in H as [H _]. unfold PF in H. simpl in H. destruct kids; [reflexivity|discriminate].
Qed.

Theorem names_unique_mod_case cf c q nd k1 k2 :
  Inv c -> tame cf c = true -> lookup q (c_root c) = Some nd ->
  In k1 (map fst (n_kids nd)) -> In k2 (map fst (n_kids nd)) -> cf_fold cf k1 = cf_fold cf k2 -> k1 = k2.
Proof.
  intros _ Ht Hl H1 H2 Hf.
  pose proof (all_nodes_lookup _ _ _ _ Ht Hl) as H. destruct nd as [d i m kids]. simpl in *.
  apply andb_true_iff in H as [H _]. rewrite forallb_forall in H.
  pose proof (H _ H1) as A. pose proof (H _ H2) as B. unfold name_ok in A, B.
  apply andb_true_iff in A as [A _]. apply andb_true_iff in B as [B _].
  apply N.eqb_eq in A. apply N.eqb_eq in B. congruence.
Qed.

Theorem names_nodup c q nd : Inv c -> lookup q (c_root c) = Some nd -> NoDup (map fst (n_kids nd)).
Proof.
  intros [K _] Hl. pose proof (all_nodes_lookup PK _ _ _ K Hl) as H. destruct nd as [d i m kids]. simpl in *.
  apply andb_true_iff in H as [H _]. apply nodupb_nodup. exact H.
Qed.

(* ------------------------------------------------------------------ delete forgets the subtree *)
Lemma lookup_none_view t q : view t q = None -> lookup q t = None.
Proof. unfold view. destruct (lookup q t); [discriminate|reflexivity]. Qed.

Lemma delete_loc_forgets c rp q o :
  Inv c -> prefixb rp q = true -> q <> [] -> has_id (c_root c) q o -> aget o (c_ghosts c) = None ->
  let c' := snd (delete_loc c (LTree rp)) in
  lookup q (c_root c') = None /\ (forall q', ~ has_id (c_root c') q' o) /\ get_path c' o = None.
Proof.
  intros HI Hp Hq Hh Hg c'.
  destruct (delete_loc_spec c (LTree rp)) as [Hgh [_ HI']]. specialize (HI' HI). fold c' in Hgh, HI'.
  assert (A : lookup q (c_root c') = None /\ (forall q', ~ has_id (c_root c') q' o)).
  { unfold c'. destruct rp as [|n rp]; cbn [delete_loc snd with_root c_root].
    - split; [rewrite lookup_clear_kids; destruct q; congruence|].
      intros q' [x [Hx Hi]]. rewrite lookup_clear_kids in Hx. destruct q'; [|discriminate].
      inversion Hx; subst x. apply Hq. symmetry. apply (ids_unique c [] q o HI); [|exact Hh].
      exists (c_root c). split; [reflexivity|]. destruct (c_root c); exact Hi.
    - split.
      + apply lookup_none_view. rewrite view_remove by discriminate. rewrite Hp. reflexivity.
      + intros q' H. apply has_id_remove in H as [H1 H2]; [|discriminate].
        assert (q' = q) by (apply (ids_unique c _ _ o HI); assumption). subst. congruence. }
  destruct A as [A1 A2]. split; [exact A1|]. split; [exact A2|].
  apply get_path_none; [exact HI'|rewrite Hgh; exact Hg|exact A2].
Qed.

(* delete(path=p): the node at p and every descendant are gone, by path and by id *)
Theorem delete_path_forgets_subtree cf c p rel o :
  Inv c -> tame cf c = true -> map (cf_fold cf) (p ++ rel) <> [] ->
  get_oid cf c (p ++ rel) = Some o -> aget o (c_ghosts c) = None ->
  let c' := snd (step cf c (ODelete None (Some p))) in
  get_oid cf c' (p ++ rel) = None /\ get_path c' o = None.
Proof.
  intros HI Ht Hne Hh Hg c'. apply get_oid_spec in Hh. rewrite map_app in *.
  unfold c', step. rewrite Ht. simpl. unfold loc_path.
  destruct (lookup (map (cf_fold cf) p) (c_root c)) as [x|] eqn:E.
  - destruct (delete_loc_forgets c (map (cf_fold cf) p) _ o HI (prefixb_app _ _) Hne Hh Hg) as [A [B C]].
    split; [|exact C].
    destruct (get_oid cf _ (p ++ rel)) eqn:G; [|reflexivity]. apply get_oid_spec in G.
    rewrite map_app in G. destruct G as [y [Hy _]]. congruence.
  - exfalso. destruct Hh as [z [Hz _]]. rewrite lookup_app, E in Hz. discriminate.
Qed.

(* delete(oid=o0): every id below the deleted node is forgotten *)
Theorem delete_oid_forgets_subtree cf c o0 rp rel o popt :
  Inv c -> tame cf c = true -> o0 <> rid c -> aget o0 (c_ghosts c) = None ->
  has_id (c_root c) rp o0 -> has_id (c_root c) (rp ++ rel) o -> aget o (c_ghosts c) = None ->
  let c' := snd (step cf c (ODelete (Some o0) popt)) in
  lookup (rp ++ rel) (c_root c') = None /\ get_path c' o = None.
Proof.
  intros HI Ht Hr Hg0 H0 Hh Hg c'. unfold c', step. rewrite Ht. simpl. unfold loc_oid.
  destruct (N.eqb_spec o0 (rid c)); [contradiction|]. rewrite Hg0.
  pose proof (get_path_tree c o0 rp HI Hg0 H0) as Gp. unfold get_path, loc_map in Gp. rewrite Hg0 in Gp.
  destruct H0 as [nd0 [Hl0 Hi0]].
  pose proof (index_complete _ _ _ _ Hl0 Hi0) as Hin. apply in_aget in Hin as [rp' E]. rewrite E.
  destruct HI as [K [F [U D]]].
  apply aget_in in E. destruct (index_sound _ K _ _ E) as [nd' [Hl' Hi']].
  assert (rp' = rp) by (apply (U _ _ o0); [exists nd'|exists nd0]; auto). subst rp'.
  assert (Hne : rp ++ rel <> []).
  { intros He. apply app_eq_nil in He as [-> _]. apply Hr. symmetry. apply rid_spec. exists nd0. auto. }
  destruct (delete_loc_forgets c rp (rp ++ rel) o (conj K (conj F (conj U D))) (prefixb_app _ _) Hne Hh Hg) as [A [B C]].
  auto.
Qed.

(* ------------------------------------------------------------------ insertion of a node whose id is fresh *)
Lemma view_some_lookup t q e : view t q = Some e -> exists nd, lookup q t = Some nd.
Proof. unfold view. destruct (lookup q t) as [nd|]; [eauto|discriminate]. Qed.

Lemma delete_loc_root_cons c rp :
  rp <> [] -> c_root (snd (delete_loc c (LTree rp))) = remove rp (c_root c).
Proof. destruct rp; [congruence|reflexivity]. Qed.

Lemma rid_info c c' : info (c_root c') = info (c_root c) -> rid c' = rid c.
Proof. unfold rid, info. intros H. inversion H. congruence. Qed.

Lemma loc_oid_none c o :
  Inv c -> o <> rid c -> aget o (c_ghosts c) = None -> (forall q, ~ has_id (c_root c) q o) ->
  loc_oid c o = LNone.
Proof.
  intros [K _] Hr Hg Hno. unfold loc_oid. destruct (N.eqb_spec o (rid c)); [contradiction|]. rewrite Hg.
  destruct (aget o (index (c_root c))) as [rp|] eqn:E; [|reflexivity].
  apply aget_in in E. destruct (index_sound _ K _ _ E) as [nd Hn]. exfalso. apply (Hno rp). exists nd. exact Hn.
Qed.

Lemma map_removelast_last (f : N -> N) (l : list N) :
  l <> [] -> map f l = map f (removelast l) ++ [f (last l 0%N)].
Proof.
  intros H. rewrite (app_removelast_last 0%N H) at 1. rewrite map_app. reflexivity.
Qed.

Lemma insert_node_fresh cf c nd raw :
  Inv c -> raw <> [] -> cf_fold cf (last raw 0%N) = last raw 0%N ->
  (forall o, n_id nd = Some o -> o <> rid c /\ (forall q, ~ has_id (c_root c) q o)) ->
  fst (insert_node cf c nd raw) = ROk ->
  lookup (map (cf_fold cf) raw) (c_root (snd (insert_node cf c nd raw))) = Some nd /\
  c_ghosts (snd (insert_node cf c nd raw)) = c_ghosts c.
Proof.
  intros HI Hne Hlast Hfresh. unfold insert_node, insert_tail.
  assert (Hfull : map (cf_fold cf) raw = map (cf_fold cf) (removelast raw) ++ [last raw 0%N]).
  { rewrite (map_removelast_last _ _ Hne) at 1. rewrite Hlast. reflexivity. }
  remember (map (cf_fold cf) (removelast raw)) as par eqn:Epar0. clear Epar0.
  remember (last raw 0%N) as nm eqn:Enm. clear Enm Hlast.
  rewrite Hfull.
  set (c1 := with_root c (mkdirp par (c_root c))).
  assert (HI1 : Inv c1) by (apply inv_mkdirp; exact HI).
  destruct (delete_loc_spec c1 (loc_path cf c1 raw)) as [Hg2 [Hv2 HI2]]. specialize (HI2 HI1).
  assert (Hpar : exists P, lookup par (c_root (snd (delete_loc c1 (loc_path cf c1 raw)))) = Some P).
  { destruct HI as [_ [_ [_ D]]]. destruct (mkdirp_dir par (c_root c) D) as [x [Hx _]].
    unfold loc_path. rewrite Hfull.
    destruct (lookup (par ++ [nm]) (c_root c1)); [|exists x; exact Hx].
    rewrite delete_loc_root_cons by (destruct par; discriminate).
    apply (view_some_lookup _ _ (info x)).
    rewrite view_remove by (destruct par; discriminate).
    rewrite prefixb_snoc_self. unfold view, c1. simpl. rewrite Hx. reflexivity. }
  set (c2 := snd (delete_loc c1 (loc_path cf c1 raw))) in *.
  assert (Hg2' : c_ghosts c2 = c_ghosts c) by (rewrite Hg2; reflexivity).
  assert (Hs2 : ids_sub (c_root c2) (c_root c)).
  { eapply ids_sub_trans; [apply view_sub_ids; exact Hv2|apply ids_sub_mkdirp]. }
  assert (Hrid : rid c2 = rid c).
  { apply rid_info. rewrite (view_sub_info _ _ Hv2). unfold c1. simpl. unfold info.
    rewrite n_dir_mkdirp, n_id_mkdirp.
    destruct par as [|n par']; [reflexivity|]. destruct (c_root c) as [d0 i0 m0 k0]. simpl.
    destruct (aget n k0) as [[[|] ? ? ?]|]; reflexivity. }
  destruct Hpar as [P HP].
  assert (Hatt : forall c3, c3 = c2 ->
            lookup (par ++ [nm]) (c_root (snd (attach_node par nm nd c3))) = Some nd /\
            c_ghosts (snd (attach_node par nm nd c3)) = c_ghosts c).
  { intros c3 ->. unfold attach_node. rewrite HP. simpl. split; [|exact Hg2'].
    rewrite lookup_modify_ext, HP. destruct P as [dp ip mp kp]. simpl. rewrite aget_aset_eq. reflexivity. }
  destruct (n_id nd) as [o|] eqn:Eo.
  - destruct (Hfresh o eq_refl) as [Hr Hno].
    destruct (aget o (c_ghosts c)) as [g|] eqn:Eg.
    + assert (El : loc_oid c2 o = LGhost o g).
      { unfold loc_oid. rewrite Hrid. destruct (N.eqb_spec o (rid c)); [contradiction|]. rewrite Hg2', Eg. reflexivity. }
      rewrite El. simpl. discriminate.
    + assert (El : loc_oid c2 o = LNone).
      { apply loc_oid_none; [exact HI2|rewrite Hrid; exact Hr|rewrite Hg2'; exact Eg|].
        intros q Hq. apply (Hno q). apply Hs2. exact Hq. }
      rewrite El. cbn [delete_loc snd].
      destruct (oid_is _ o); [simpl; discriminate|].
      intros _. apply Hatt. reflexivity.
  - intros _. apply Hatt. reflexivity.
Qed.

Lemma step_rename_unfold cf c p q n rp S :
  tame cf c = true -> map (cf_fold cf) p = n :: rp -> lookup (n :: rp) (c_root c) = Some S ->
  step cf c (ORename p q) =
  let c1 := with_root c (remove (n :: rp) (c_root c)) in
  insert_node cf (snd (delete_loc c1 (loc_path cf c1 q))) S (map (cf_fold cf) q).
Proof.
  intros Ht Hp Hl. unfold step. rewrite Ht. cbn [negb]. unfold op_rename, loc_path. rewrite Hp, Hl. cbv iota beta. rewrite Hl. reflexivity.
Qed.

(* rename moves the whole subtree: the very same node (with everything below it) is found at the new path *)
Theorem rename_moves_subtree cf c p q S :
  (forall n, cf_fold cf (cf_fold cf n) = cf_fold cf n) ->
  Inv c -> tame cf c = true -> n_id (c_root c) <> None ->
  map (cf_fold cf) p <> [] -> q <> [] ->
  lookup (map (cf_fold cf) p) (c_root c) = Some S ->
  fst (step cf c (ORename p q)) = ROk ->
  lookup (map (cf_fold cf) q) (c_root (snd (step cf c (ORename p q)))) = Some S /\
  c_ghosts (snd (step cf c (ORename p q))) = c_ghosts c.
Proof.
  intros Hidem HI Ht Hroot Hp Hq Hl.
  destruct (map (cf_fold cf) p) as [|n rp] eqn:Ep; [congruence|]. clear Hp.
  rewrite (step_rename_unfold cf c p q n rp S Ht Ep Hl). cbv zeta.
  set (c1 := with_root c (remove (n :: rp) (c_root c))).
  assert (HI1 : Inv c1).
  { pose proof (delete_loc_spec c (LTree (n :: rp))) as [_ [_ H]]. apply H. exact HI. }
  destruct (delete_loc_spec c1 (loc_path cf c1 q)) as [Hg2 [Hv2 HI2]]. specialize (HI2 HI1).
  set (c2 := snd (delete_loc c1 (loc_path cf c1 q))) in *.
  intros Hok.
  assert (Hq' : map (cf_fold cf) q <> []) by (destruct q; [congruence|discriminate]).
  assert (Hlast : cf_fold cf (last (map (cf_fold cf) q) 0%N) = last (map (cf_fold cf) q) 0%N).
  { clear -Hidem Hq. induction q as [|a q IH]; [congruence|]. destruct q as [|b q]; [simpl; apply Hidem|].
    change (last (map (cf_fold cf) (a :: b :: q)) 0%N) with (last (map (cf_fold cf) (b :: q)) 0%N).
    apply IH. discriminate. }
  assert (Hmm : map (cf_fold cf) (map (cf_fold cf) q) = map (cf_fold cf) q).
  { rewrite map_map. apply map_ext. exact Hidem. }
  destruct (insert_node_fresh cf c2 S (map (cf_fold cf) q) HI2 Hq' Hlast) as [A B]; [|exact Hok|].
  - intros o Ho.
    assert (HS : has_id (c_root c) (n :: rp) o) by (exists S; auto).
    assert (Hinfo : info (c_root c2) = info (c_root c)).
    { rewrite (view_sub_info _ _ Hv2). unfold c1. simpl.
      apply (view_sub_info _ _ (view_sub_remove (n :: rp) (c_root c) ltac:(discriminate))). }
    split.
    + rewrite (rid_info _ _ Hinfo). intros ->.
      destruct (n_id (c_root c)) as [r|] eqn:Er; [|congruence].
      assert (H0 : has_id (c_root c) [] (rid c)).
      { exists (c_root c). split; [reflexivity|]. unfold rid. rewrite Er. reflexivity. }
      pose proof (ids_unique c _ _ _ HI H0 HS). discriminate.
    + intros q' Hq0. apply (view_sub_ids _ _ Hv2) in Hq0. unfold c1 in Hq0. simpl in Hq0.
      change (match rp with [] => del_kid n (c_root c) | _ :: _ => descend n (remove rp) (c_root c) end)
        with (remove (n :: rp) (c_root c)) in Hq0.
      apply has_id_remove in Hq0 as [H1 H2]; [|discriminate].
      assert (q' = n :: rp) by (apply (ids_unique c _ _ o HI); assumption). subst q'.
      rewrite prefixb_refl in H2. discriminate.
  - rewrite Hmm in A. split; [exact A|]. rewrite B, Hg2. reflexivity.
Qed.

(* consequence in terms of the getters: every relative path below the old place answers at the new place *)
Corollary rename_moves_lookups cf c p q S rel :
  (forall n, cf_fold cf (cf_fold cf n) = cf_fold cf n) ->
  Inv c -> tame cf c = true -> n_id (c_root c) <> None ->
  map (cf_fold cf) p <> [] -> q <> [] ->
  lookup (map (cf_fold cf) p) (c_root c) = Some S ->
  fst (step cf c (ORename p q)) = ROk ->
  get_oid cf (snd (step cf c (ORename p q))) (q ++ rel) = get_oid cf c (p ++ rel).
Proof.
  intros Hidem HI Ht Hr Hp Hq Hl Hok.
  destruct (rename_moves_subtree cf c p q S Hidem HI Ht Hr Hp Hq Hl Hok) as [A _].
  unfold get_oid, loc_path. rewrite !map_app, !lookup_app, A, Hl.
  destruct (lookup (map (cf_fold cf) rel) S) as [x|] eqn:E; simpl.
  - rewrite !lookup_app, A, Hl, E. reflexivity.
  - reflexivity.
Qed.

(* ------------------------------------------------------------------ no cycles
   The model's tree is an inductive term, so a node can never be its own proper descendant;
   this is what "acyclic by construction" means here.  (The weak parent pointers of the code,
   through which a cycle could in principle be formed, are not modelled.) *)
Fixpoint size (t : node) : nat :=
  match t with Node _ _ _ kids => S (list_sum (map (fun nc => size (snd nc)) kids)) end.

Lemma size_kid (n : N) c (kids : list (N * node)) : In (n, c) kids -> size c <= list_sum (map (fun nc => size (snd nc)) kids).
Proof.
  induction kids as [|[n' c'] r IH]; simpl; [tauto|].
  intros [H|H]; [inversion H; subst; lia|]. specialize (IH H). lia.
Qed.

Lemma lookup_size p : forall t nd, lookup p t = Some nd -> p <> [] -> size nd < size t.
Proof.
  induction p as [|n p IH]; intros t nd Hl Hne; [congruence|].
  simpl in Hl. destruct (aget n (n_kids t)) as [c|] eqn:E; [|discriminate].
  destruct t as [d i m kids]. simpl in E. apply aget_in in E. pose proof (size_kid _ _ _ E) as Hs.
  destruct p as [|n2 p].
  - simpl in Hl. inversion Hl; subst. simpl. lia.
  - specialize (IH c nd Hl ltac:(discriminate)). simpl. lia.
Qed.

Theorem no_cycle t p : lookup p t = Some t -> p = [].
Proof.
  intros H. destruct p as [|n p]; [reflexivity|].
  pose proof (lookup_size _ _ _ H ltac:(discriminate)). lia.
Qed.
