(* LoopThms.v — theorems about the two-thread machine over ALL schedules, from the invariants of LoopInv.v. *)
From Coq Require Import QArith List Bool NArith ZArith Lia.
From CS Require Import Sx LoopModel LoopInv.
Import ListNotations.

(* ---- M: with __shutdown assigned first, a final stop on a running service leads to done() *)
Definition M (v : variant) (s : st) : Prop :=
  v_swap v = true -> g_live s = true -> g_unfin s = false ->
  sd s = true /\ (pre_f4 (lp s) = true \/ lp s = LF5 \/ (1 <= count_done (log s))%nat).

Lemma M_step : forall v p s l, M v s -> M v (step v p s l).
Proof.
  intros v p s l H. unfold M in *. step_cases v s l; try solve [fin].
  all: try solve [destruct sd0, gu0, gl0; fin].
  all: try solve [destruct stg, f, sd0, gu0, gl0; fin].
  all: try solve [destruct k as [f|[|]]; d_lpc; fin].
  all: try solve [d_lpc; destruct sd0, gu0, gl0; fin].
Qed.

(* ---- W: with wake() reading __interrupt once, neither stop() nor wake() raises *)
Definition raisy (c : cpc) : bool :=
  match c with
  | CStopS SWk2 _ _ | CWake2 | CIdle (RStopRaised _) | CIdle RWakeRaised => true
  | _ => false
  end.
Definition W (v : variant) (s : st) : Prop := v_wake1 v = true -> raisy (cp s) = false.

Lemma W_step : forall v p s l, W v s -> W v (step v p s l).
Proof.
  intros v p s l H. unfold W in *. step_cases v s l; try solve [fin].
  all: try solve [destruct w1; fin].
  all: try solve [destruct stg, f, w1; fin].
  all: try solve [destruct k as [f|[|]]; d_lpc; fin].
Qed.

(* ---- all invariants hold in every reachable state *)
Record Inv (v : variant) (s : st) : Prop :=
  { inv1 : I1 s; inv2 : I2 v s; inv3 : I3 s; inv5 : I5 s; invK : K s; invM : M v s; invW : W v s }.

Lemma Inv_init : forall v, Inv v init.
Proof.
  intro v. split; unfold I1, I2, I3, I5, K, M, W; cbn; intros; try discriminate; auto.
  all: try solve [destruct H; [lia | discriminate]].
  all: try solve [repeat split; auto; discriminate].
Qed.

Lemma Inv_reach : forall v p s, reach v p s -> Inv v s.
Proof.
  intros v p. apply reach_ind_inv; [apply Inv_init|].
  intros s l _ [H1 H2 H3 H5 HK HM HW]. split.
  - apply I1_step; auto.
  - apply I2_step; auto.
  - apply I3_step; auto.
  - apply I5_step; auto.
  - apply K_step; auto.
  - apply M_step; auto.
  - apply W_step; auto.
Qed.

(* ---- T1: nothing happens on the loop side while no start() is called and the thread is dead *)
Definition quiet (s : st) : Prop := alive (lp s) = false /\ startish (cp s) = false.
Definition is_start (l : label) : bool := match l with LCall CStart => true | _ => false end.

Lemma quiet_step : forall v p s l, quiet s -> is_start l = false ->
  quiet (step v p s l) /\ log (step v p s l) = log s.
Proof.
  intros v p s l H Hl. unfold quiet in *. step_cases v s l; try solve [fin].
  all: try solve [destruct stg, f; fin].
  all: try solve [destruct k as [f|[|]]; d_lpc; fin].
Qed.

Lemma quiet_exec : forall v p ls s, quiet s -> forallb (fun l => negb (is_start l)) ls = true ->
  quiet (exec v p s ls) /\ log (exec v p s ls) = log s.
Proof.
  intros v p ls. induction ls as [|l ls IH]; intros s H Hl; [split; auto|].
  cbn in Hl. apply andb_true_iff in Hl. destruct Hl as [Hl1 Hl2]. apply negb_true_iff in Hl1.
  destruct (quiet_step v p s l H Hl1) as [Q1 Q2].
  change (exec v p s (l :: ls)) with (exec v p (step v p s l) ls).
  destruct (IH _ Q1 Hl2) as [R1 R2]. split; [exact R1 | congruence].
Qed.

Lemma joined_ret_idle : forall c, joined_ret c = true -> startish c = false.
Proof. intros c. destruct c; try discriminate; reflexivity. Qed.

Theorem no_do_after_stop_returns : forall v p s ls,
  reach v p s -> joined_ret (cp s) = true ->
  forallb (fun l => negb (is_start l)) ls = true ->
  alive (lp s) = false /\ log (exec v p s ls) = log s.
Proof.
  intros v p s ls Hr Hj Hls. pose proof (inv1 _ _ (Inv_reach _ _ _ Hr) Hj) as Ha.
  split; [exact Ha|]. apply quiet_exec; auto. split; [exact Ha | apply joined_ret_idle; exact Hj].
Qed.

(* ---- T2: a finally stopped service refuses to start (as long as no stop(forever=False) is called) *)
Definition stopfalse (c : cpc) : bool := match c with CStopS _ false _ => true | _ => false end.
Definition is_stop_false (l : label) : bool := match l with LCall (CStop false _) => true | _ => false end.
Definition started_ok (c : cpc) : bool := match c with CIdle RStartOk => true | _ => false end.
Definition J (s : st) : Prop :=
  sd s = true /\ startish (cp s) = false /\ stopfalse (cp s) = false /\ started_ok (cp s) = false.

Lemma J_step : forall v p s l, J s -> is_stop_false l = false ->
  J (step v p s l) /\ (alive (lp s) = false -> alive (lp (step v p s l)) = false).
Proof.
  intros v p s l H Hl. unfold J in *. step_cases v s l; try solve [fin].
  all: try solve [destruct stg, f; fin].
  all: try solve [destruct k as [f|[|]]; d_lpc; fin].
Qed.

Lemma J_exec : forall v p ls s, J s -> forallb (fun l => negb (is_stop_false l)) ls = true ->
  J (exec v p s ls) /\ (alive (lp s) = false -> alive (lp (exec v p s ls)) = false).
Proof.
  intros v p ls. induction ls as [|l ls IH]; intros s H Hl; [split; auto|].
  cbn in Hl. apply andb_true_iff in Hl. destruct Hl as [Hl1 Hl2]. apply negb_true_iff in Hl1.
  destruct (J_step v p s l H Hl1) as [Q1 Q2].
  change (exec v p s (l :: ls)) with (exec v p (step v p s l) ls).
  destruct (IH _ Q1 Hl2) as [R1 R2]. split; auto.
Qed.

Definition final_ret (c : cpc) : bool := match c with CIdle (RStopped true _) => true | _ => false end.

Theorem restart_refused_partial : forall v p s ls,
  reach v p s -> final_ret (cp s) = true ->
  forallb (fun l => negb (is_stop_false l)) ls = true ->
  sd (exec v p s ls) = true /\ started_ok (cp (exec v p s ls)) = false /\
  startish (cp (exec v p s ls)) = false /\
  (alive (lp s) = false -> alive (lp (exec v p s ls)) = false).
Proof.
  intros v p s ls Hr Hf Hls.
  assert (HJ : J s).
  { pose proof (inv2 _ _ (Inv_reach _ _ _ Hr)) as H2. unfold I2 in H2.
    destruct s as [lp0 cp0 sg0 sd0 sp0 intr0 tset0 bk0 log0 gl0 gu0]; cbn in *.
    destruct cp0 as [r| | | | | | | | | |]; try discriminate. destruct r; try discriminate.
    destruct f; try discriminate. unfold J; cbn. repeat split; auto. }
  destruct (J_exec v p ls s HJ Hls) as [[A [B [C D]]] E]. auto.
Qed.

(* ---- T3: cleanup at most once (while __shutdown was never reset True -> False) *)
Theorem cleanup_at_most_once_partial : forall v p s,
  reach v p s -> g_unfin s = false -> (count_done (log s) <= 1)%nat.
Proof.
  intros v p s Hr Hu. destruct (invK _ _ (Inv_reach _ _ _ Hr) Hu) as [_ [H _]]. exact H.
Qed.

